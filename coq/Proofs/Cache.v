(* Proofs about Model/Cache.v (C11).
   Part 1: facts about one transition of the refcounted cache of C10 (keys, handles, finalisations).
   Part 2: the ownership invariant of the directory cache and its preservation by every sub-step.
   Part 3: consequences (hit_is_committed, no recycle under a reader, ...), MemoryCache. *)
From Coq Require Import List Arith NArith ZArith Bool Lia.
From SV Require Import Model.Cache.
From SV Require Proofs.Refcache.
Import ListNotations.
Module RP := SV.Proofs.Refcache.

Lemma slice_nil off n : slice off n [] = [].
Proof. unfold slice. rewrite skipn_nil, firstn_nil. reflexivity. Qed.

(* ------------------------------------------------------------------------------------------ *)
(* Part 1: refcache transitions                                                                 *)
(* ------------------------------------------------------------------------------------------ *)
Definition keys (c : R.st) : list nat := map R.e_key (R.ents c).

Lemma upd_same {A} (l : list A) i x : nth_error l i = Some x -> R.upd l i x = l.
Proof. revert i; induction l as [|a l IH]; intros [|i]; simpl; intros H; try discriminate; auto.
  - inversion H; reflexivity.
  - f_equal; auto. Qed.

Lemma map_upd_same {A B} (f : A -> B) l i x e :
  nth_error l i = Some e -> f x = f e -> map f (R.upd l i x) = map f l.
Proof. revert i; induction l as [|a l IH]; intros [|i]; simpl; intros H E; try discriminate; auto.
  - inversion H; subst. rewrite E. reflexivity.
  - f_equal; eauto. Qed.

Lemma nth_upd_cases {A} (l : list A) n m x y :
  nth_error (R.upd l n x) m = Some y ->
  (m = n /\ y = x /\ n < length l) \/ (m <> n /\ nth_error l m = Some y).
Proof.
  intros H. destruct (Nat.eq_dec m n) as [->|Hne].
  - left. assert (Hl : n < length l).
    { apply RP.nth_some_lt in H. rewrite RP.upd_length in H. exact H. }
    rewrite RP.nth_upd_eq in H by exact Hl. inversion H. auto.
  - right. rewrite RP.nth_upd_ne in H by auto. auto.
Qed.

Lemma inc_keys c i : keys (R.inc c i) = keys c.
Proof. unfold keys, R.inc. destruct (nth_error (R.ents c) i) as [e|] eqn:E; [|reflexivity]. simpl.
  eapply map_upd_same; eauto. Qed.
Lemma inc_hs c i : R.hs (R.inc c i) = R.hs c.
Proof. unfold R.inc. destruct (nth_error (R.ents c) i); reflexivity. Qed.
Lemma dec_keys c i : keys (R.dec c i) = keys c.
Proof. unfold keys, R.dec. destruct (nth_error (R.ents c) i) as [e|] eqn:E; [|reflexivity].
  cbv zeta. destruct (Z.leb _ _); simpl; eapply map_upd_same; eauto. Qed.
Lemma finalize_keys c i : keys (R.finalize c i) = keys c.
Proof. unfold R.finalize. destruct (nth_error (R.ents c) i) as [e|] eqn:E; [|reflexivity].
  destruct (R.e_fin e); [reflexivity|]. rewrite dec_keys. unfold keys; simpl. eapply map_upd_same; eauto. Qed.
Lemma evict_key_keys c k : keys (R.evict_key c k) = keys c.
Proof. unfold R.evict_key. destruct (R.lru_find _ _); [|reflexivity]. rewrite finalize_keys. reflexivity. Qed.
Lemma evict_key_hs c k : R.hs (R.evict_key c k) = R.hs c.
Proof. unfold R.evict_key. destruct (R.lru_find _ _); [|reflexivity]. rewrite RP.finalize_hs. reflexivity. Qed.
Lemma trim_keys c : keys (R.trim c) = keys c.
Proof. unfold R.trim. destruct (_ && _); [|reflexivity]. destruct (last _ _) as [[k i]|]; [apply evict_key_keys|reflexivity]. Qed.
Lemma trim_hs c : R.hs (R.trim c) = R.hs c.
Proof. unfold R.trim. destruct (_ && _); [|reflexivity]. destruct (last _ _) as [[k i]|]; [apply evict_key_hs|reflexivity]. Qed.
Lemma acquire_keys c i : keys (R.acquire c i) = keys c.
Proof. unfold R.acquire. unfold keys at 1. simpl. apply inc_keys. Qed.
Lemma acquire_hs c i : R.hs (R.acquire c i) = R.hs c ++ [(i, false)].
Proof. unfold R.acquire. simpl. rewrite inc_hs. reflexivity. Qed.

Lemma step_get_hit c k i fl c' : R.step c (R.Get k) = (c', Some (i, fl)) ->
  R.lru_find (R.lru c) k = Some i /\ R.hs c' = R.hs c ++ [(i, false)] /\ keys c' = keys c.
Proof.
  simpl. destruct (R.lru_find (R.lru c) k) as [j|] eqn:Hf; intros H; inversion H; subst.
  split; [reflexivity|]. split; [rewrite acquire_hs; reflexivity|rewrite acquire_keys; reflexivity].
Qed.
Lemma step_get_miss c k c' : R.step c (R.Get k) = (c', None) -> c' = c.
Proof. simpl. destruct (R.lru_find (R.lru c) k); intros H; inversion H; reflexivity. Qed.

Lemma step_add_res c k c' r : R.step c (R.Add k) = (c', r) ->
  exists i added, r = Some (i, added) /\ R.hs c' = R.hs c ++ [(i, false)] /\
    ((added = false /\ R.lru_find (R.lru c) k = Some i /\ keys c' = keys c) \/
     (added = true /\ R.lru_find (R.lru c) k = None /\ i = length (R.ents c) /\ keys c' = keys c ++ [k])).
Proof.
  simpl. destruct (R.lru_find (R.lru c) k) as [j|] eqn:Hf; intros H; inversion H; subst; clear H.
  - exists j, false. split; [reflexivity|]. split; [rewrite acquire_hs; reflexivity|].
    left. split; [reflexivity|]. split; [reflexivity|]. rewrite acquire_keys. reflexivity.
  - exists (length (R.ents c)), true. split; [reflexivity|]. split.
    + rewrite trim_hs. simpl. rewrite inc_hs. reflexivity.
    + right. split; [reflexivity|]. split; [reflexivity|]. split; [reflexivity|]. rewrite trim_keys.
      unfold keys at 1. simpl. fold (keys (R.inc (R.set_ents c (R.ents c ++ [R.mkEnt k 1 false])) (length (R.ents c)))).
      rewrite inc_keys. unfold keys. simpl. rewrite map_app. reflexivity.
Qed.

Lemma step_rel c h : 
  keys (fst (R.step c (R.Release h false))) = keys c /\
  R.hs (fst (R.step c (R.Release h false))) =
    match nth_error (R.hs c) h with Some (i, _) => R.upd (R.hs c) h (i, true) | None => R.hs c end.
Proof.
  simpl. destruct (nth_error (R.hs c) h) as [[i fired]|] eqn:Hh; simpl; [|auto].
  destruct fired.
  - split; [reflexivity|]. symmetry. apply upd_same. exact Hh.
  - rewrite dec_keys, RP.dec_hs. simpl. auto.
Qed.

Lemma skipn_app_exact {A} (l1 l2 : list A) : skipn (length l1) (l1 ++ l2) = l2.
Proof. induction l1; simpl; auto. Qed.

Lemma callbacks_le1 c i : RP.Inv c -> R.callbacks c i <= 1.
Proof.
  intros I. destruct (nth_error (R.ents c) i) as [e|] eqn:E.
  - apply (RP.exactly_once_inv c i e I E).
  - rewrite RP.callbacks_beyond; auto. apply nth_error_None. exact E.
Qed.

Lemma fin_facts c o : RP.Inv c ->
  let c' := fst (R.step c o) in
  RP.Inv c' /\
  R.log c' = R.log c ++ finalised c c' /\ NoDup (finalised c c') /\
  (forall i, In i (finalised c c') -> R.callbacks c i = 0 /\ R.callbacks c' i = 1) /\
  (forall i, ~ In i (finalised c c') -> R.callbacks c' i = R.callbacks c i).
Proof.
  intros I c'. assert (I' : RP.Inv c') by (apply RP.step_inv; exact I).
  destruct (RP.step_log c o) as [l Hl]. fold c' in Hl.
  assert (Hfin : finalised c c' = l) by (unfold finalised; rewrite Hl; apply skipn_app_exact).
  rewrite Hfin.
  assert (Hcb : forall i, R.callbacks c' i = R.callbacks c i + count_occ Nat.eq_dec l i).
  { intros i. unfold R.callbacks. rewrite Hl. apply count_occ_app. }
  assert (Hle : forall i, count_occ Nat.eq_dec l i <= 1).
  { intros i. pose proof (callbacks_le1 c' i I'). rewrite Hcb in H. lia. }
  split; [exact I'|]. split; [exact Hl|]. split.
  - apply (NoDup_count_occ Nat.eq_dec). exact Hle.
  - split.
    + intros i Hin. apply (count_occ_In Nat.eq_dec) in Hin.
      pose proof (callbacks_le1 c' i I'). rewrite Hcb in *. specialize (Hle i). lia.
    + intros i Hni. apply (count_occ_not_In Nat.eq_dec) in Hni. rewrite Hcb. lia.
Qed.

Definition held (c : R.st) (h i : nat) : Prop := nth_error (R.hs c) h = Some (i, false).

Lemma held_live c h i : held c h i -> 0 < R.live c i.
Proof.
  unfold held, R.live. intros H. apply nth_error_In in H.
  assert (Hf : In (i, false) (filter (fun x => Nat.eqb (fst x) i && negb (snd x)) (R.hs c))).
  { apply filter_In. split; [exact H|]. simpl. rewrite Nat.eqb_refl. reflexivity. }
  destruct (filter _ _); [contradiction|simpl; lia].
Qed.

Lemma held_unfin c h i : RP.Inv c -> held c h i -> R.callbacks c i = 0.
Proof. intros I H. apply RP.held_not_finalized; [exact I|]. eapply held_live; eauto. Qed.

Lemma held_lt c h i : RP.Inv c -> held c h i -> i < length (R.ents c).
Proof. intros I H. eapply (RP.inv_hs _ I); eauto. Qed.

Lemma keys_nth c i e : nth_error (R.ents c) i = Some e -> nth_error (keys c) i = Some (R.e_key e).
Proof. intros H. unfold keys. rewrite nth_error_map, H. reflexivity. Qed.
Lemma keys_nth_inv c i k : nth_error (keys c) i = Some k -> exists e, nth_error (R.ents c) i = Some e /\ R.e_key e = k.
Proof. unfold keys. rewrite nth_error_map. destruct (nth_error (R.ents c) i) as [e|]; simpl; intros H; inversion H. eauto. Qed.
Lemma keys_length c : length (keys c) = length (R.ents c).
Proof. unfold keys. apply map_length. Qed.

(* ------------------------------------------------------------------------------------------ *)
(* Part 2: the ownership invariant                                                              *)
(* ------------------------------------------------------------------------------------------ *)
Inductive bowner := BFree | BWriter (w : nat) | BValue (i : nat).
Inductive fowner := FNone | FReader (r : nat) | FValue (j : nat).
Inductive howner := HNone | HReader (r : nat) | HWriter (w : nat).

Definition committedW (ws : list writer) (k : nat) (v : bytes) : Prop :=
  exists w wr, nth_error ws w = Some wr /\ w_key wr = k /\ w_status wr = WCommitted /\ w_acc wr = v.

Lemma committed_W s k v : committed s k v <-> committedW (writers s) k v.
Proof. reflexivity. Qed.

(* every change of the writer table keeps keys, committed values and renamed files *)
Definition wext (ws ws' : list writer) : Prop :=
  forall w wr, nth_error ws w = Some wr ->
    exists wr', nth_error ws' w = Some wr' /\ w_key wr' = w_key wr
      /\ (w_status wr = WCommitted -> w_acc wr' = w_acc wr /\ w_status wr' = WCommitted)
      /\ (w_renamed wr = true -> w_renamed wr' = true /\ w_file wr' = w_file wr).

Lemma wext_refl ws : wext ws ws.
Proof. intros w wr H. exists wr. auto. Qed.

Lemma wext_app ws x : wext ws (ws ++ [x]).
Proof. intros w wr H. exists wr. split; [|auto]. rewrite nth_error_app1; [exact H|]. eapply RP.nth_some_lt; eauto. Qed.

Lemma wext_upd ws w0 wr0 wr' : nth_error ws w0 = Some wr0 ->
  w_key wr' = w_key wr0 ->
  (w_status wr0 = WCommitted -> w_acc wr' = w_acc wr0 /\ w_status wr' = WCommitted) ->
  (w_renamed wr0 = true -> w_renamed wr' = true /\ w_file wr' = w_file wr0) ->
  wext ws (R.upd ws w0 wr').
Proof.
  intros H0 Hk Hc Hr w wr H. destruct (Nat.eq_dec w w0) as [->|Hne].
  - rewrite H0 in H. inversion H; subst. exists wr'. split; [|auto].
    apply RP.nth_upd_eq. eapply RP.nth_some_lt; eauto.
  - exists wr. split; [|auto]. rewrite RP.nth_upd_ne; auto.
Qed.

Lemma committedW_ext ws ws' k v : wext ws ws' -> committedW ws k v -> committedW ws' k v.
Proof.
  intros E (w & wr & Hn & Hk & Hs & Ha). destruct (E _ _ Hn) as (wr' & Hn' & Hk' & Hc & _).
  destruct (Hc Hs) as [Ha' Hs']. exists w, wr'. repeat split; congruence.
Qed.

Definition fd_good (fs : list (nat * bool)) (ws : list writer) (f k : nat) (v : bytes) : Prop :=
  exists w wr, nth_error fs f = Some (w, true) /\ nth_error ws w = Some wr
     /\ w_renamed wr = true /\ w_key wr = k /\ w_file wr = v.

Lemma fd_good_ext fs ws ws' f k v : wext ws ws' -> fd_good fs ws f k v -> fd_good fs ws' f k v.
Proof.
  intros E (w & wr & Hf & Hn & Hr & Hk & Hv). destruct (E _ _ Hn) as (wr' & Hn' & Hk' & _ & Hren).
  destruct (Hren Hr) as [Hr' Hf']. exists w, wr'. repeat split; congruence.
Qed.

Record own := mkOwn { bo : nat -> bowner; fo : nat -> fowner; hd : nat -> howner; hf : nat -> howner }.

Definition reader_ok (s : st) (o : own) (r : nat) (rd : reader) : Prop :=
  committed s (r_key rd) (r_val rd) /\
  match r_kind rd with
  | RBuf b len h => exists i, held (dc s) h i /\ hd o h = HReader r /\ nth_error (dval s) i = Some b
                     /\ nth_error (bufs s) b = Some (r_val rd) /\ len = length (r_val rd)
  | RFd f h => exists j, held (fc s) h j /\ hf o h = HReader r /\ nth_error (fval s) j = Some f
                     /\ fd_good (fds s) (writers s) f (r_key rd) (r_val rd)
  | ROwn f _ => fo o f = FReader r /\ fd_good (fds s) (writers s) f (r_key rd) (r_val rd)
  end.

Definition stage_ok (s : st) (o : own) (w : nat) (wr : writer) : Prop :=
  match w_ps wr with
  | PNone => True
  | PStage stg h i =>
      held (dc s) h i /\ hd o h = HWriter w /\ w_status wr = WCommitted
      /\ nth_error (keys (dc s)) i = Some (w_key wr)
      /\ (stg = 0 -> w_file wr = [] /\ w_renamed wr = false)
      /\ (stg = 1 -> committed s (w_key wr) (w_file wr))
  end.

Definition writer_ok (s : st) (o : own) (w : nat) (wr : writer) : Prop :=
  stage_ok s o w wr /\
  (w_renamed wr = true -> committed s (w_key wr) (w_file wr)) /\
  (w_status wr = WOpen -> w_renamed wr = false /\ w_ps wr = PNone /\
       match w_buf wr with
       | Some b => bo o b = BWriter w /\ nth_error (bufs s) b = Some (w_acc wr) /\ w_file wr = []
       | None => w_file wr = w_acc wr
       end).

Record J (s : st) (o : own) : Prop := mkJ {
  j_dc : RP.Inv (dc s);
  j_fc : RP.Inv (fc s);
  j_dl : length (dval s) = length (R.ents (dc s));
  j_fl : length (fval s) = length (R.ents (fc s));
  j_val : forall i k b, nth_error (keys (dc s)) i = Some k -> R.callbacks (dc s) i = 0 -> nth_error (dval s) i = Some b ->
            bo o b = BValue i /\ exists v, nth_error (bufs s) b = Some v /\ committed s k v;
  j_pool : NoDup (pool s) /\ forall b, In b (pool s) -> bo o b = BFree /\ nth_error (bufs s) b = Some [];
  j_w : forall w wr, nth_error (writers s) w = Some wr -> writer_ok s o w wr;
  j_dir : forall k w, In (k, w) (dir s) -> exists wr, nth_error (writers s) w = Some wr /\ w_key wr = k /\ w_renamed wr = true;
  j_fds : forall f w op, nth_error (fds s) f = Some (w, op) -> exists wr, nth_error (writers s) w = Some wr /\ w_renamed wr = true;
  j_fval : forall j k f, nth_error (keys (fc s)) j = Some k -> R.callbacks (fc s) j = 0 -> nth_error (fval s) j = Some f ->
            fo o f = FValue j /\ exists w wr, nth_error (fds s) f = Some (w, true) /\ nth_error (writers s) w = Some wr /\ w_key wr = k;
  j_r : forall r rd, nth_error (readers s) r = Some rd -> r_open rd = true -> reader_ok s o r rd
}.

Definition own0 : own := mkOwn (fun _ => BFree) (fun _ => FNone) (fun _ => HNone) (fun _ => HNone).

Lemma nth_nil {A} n : nth_error (@nil A) n = None.
Proof. destruct n; reflexivity. Qed.

Lemma J_init dcap fcap : J (init dcap fcap) own0.
Proof.
  constructor; simpl; try (apply RP.Inv_init); try reflexivity.
  - intros i k b H. unfold keys in H. simpl in H. rewrite nth_nil in H. discriminate.
  - split; [constructor|]. intros b [].
  - intros w wr H. rewrite nth_nil in H. discriminate.
  - intros k w [].
  - intros f w op H. rewrite nth_nil in H. discriminate.
  - intros j k f H. unfold keys in H. simpl in H. rewrite nth_nil in H. discriminate.
  - intros r rd H. rewrite nth_nil in H. discriminate.
Qed.

(* ---- frame lemmas ---- *)
Lemma writer_ok_frame s s' o o' w wr :
  (forall stg h i, w_ps wr = PStage stg h i -> held (dc s) h i -> held (dc s') h i) ->
  (forall stg h i, w_ps wr = PStage stg h i -> hd o h = HWriter w -> hd o' h = HWriter w) ->
  (forall i k, nth_error (keys (dc s)) i = Some k -> nth_error (keys (dc s')) i = Some k) ->
  (forall k v, committed s k v -> committed s' k v) ->
  (forall b, w_buf wr = Some b -> w_status wr = WOpen -> bo o b = BWriter w ->
             bo o' b = BWriter w /\ nth_error (bufs s') b = nth_error (bufs s) b) ->
  writer_ok s o w wr -> writer_ok s' o' w wr.
Proof.
  intros Hh Hhd Hk Hc Hb (Hs & Hr & Ho). split; [|split].
  - unfold stage_ok in *. destruct (w_ps wr) as [|stg h i] eqn:Hps; [exact I|].
    destruct Hs as (H1 & H2 & H3 & H4 & H5 & H6).
    repeat split; eauto; apply H5; auto.
  - auto.
  - intros Hop. destruct (Ho Hop) as (A & B & C). split; [exact A|]. split; [exact B|].
    destruct (w_buf wr) as [b|]; [|exact C]. destruct C as (C1 & C2 & C3). destruct (Hb _ eq_refl Hop C1) as [D1 D2].
    split; [exact D1|]. split; [rewrite D2; exact C2|exact C3].
Qed.

Lemma reader_ok_frame s s' o o' r rd :
  (forall k v, committed s k v -> committed s' k v) ->
  (forall b len h i, r_kind rd = RBuf b len h -> held (dc s) h i -> held (dc s') h i) ->
  (forall b len h, r_kind rd = RBuf b len h -> hd o h = HReader r -> hd o' h = HReader r) ->
  (forall f h j, r_kind rd = RFd f h -> held (fc s) h j -> held (fc s') h j) ->
  (forall f h, r_kind rd = RFd f h -> hf o h = HReader r -> hf o' h = HReader r) ->
  (forall i b, nth_error (dval s) i = Some b -> nth_error (dval s') i = Some b) ->
  (forall j f, nth_error (fval s) j = Some f -> nth_error (fval s') j = Some f) ->
  (forall b len h, r_kind rd = RBuf b len h -> nth_error (bufs s') b = nth_error (bufs s) b) ->
  (forall f k v, (exists h, r_kind rd = RFd f h) \/ (exists c, r_kind rd = ROwn f c) ->
       fd_good (fds s) (writers s) f k v -> fd_good (fds s') (writers s') f k v) ->
  (forall f c, r_kind rd = ROwn f c -> fo o f = FReader r -> fo o' f = FReader r) ->
  reader_ok s o r rd -> reader_ok s' o' r rd.
Proof.
  intros Hc Hd Hhd Hf Hhf Hdv Hfv Hb Hg Hfo (Hcm & Hk). split; [auto|].
  destruct (r_kind rd) as [b len h|f h|f c] eqn:K.
  - destruct Hk as (i & H1 & H2 & H3 & H4 & H5).
    exists i. repeat split; eauto; try (rewrite (Hb b len h eq_refl); exact H4).
  - destruct Hk as (j & H1 & H2 & H3 & H4).
    exists j. repeat split; eauto; try (apply Hg; [left; eauto|exact H4]).
  - destruct Hk as (H1 & H2). split; [eauto|]. apply Hg; [right; eauto|exact H2].
Qed.

Lemma committed_ext s s' k v : wext (writers s) (writers s') -> committed s k v -> committed s' k v.
Proof. intros E H. apply committed_W. eapply committedW_ext; eauto. Qed.

(* an op that only rewrites one writer record (and possibly links its inode into the directory) *)
Lemma J_upd_writer s o w0 wr0 wr' d' :
  J s o -> nth_error (writers s) w0 = Some wr0 ->
  w_key wr' = w_key wr0 ->
  (w_status wr0 = WCommitted -> w_acc wr' = w_acc wr0 /\ w_status wr' = WCommitted) ->
  (w_renamed wr0 = true -> w_renamed wr' = true /\ w_file wr' = w_file wr0) ->
  (forall k w, In (k, w) d' -> In (k, w) (dir s) \/ (w = w0 /\ k = w_key wr' /\ w_renamed wr' = true)) ->
  writer_ok (set_w (set_dir s d') w0 wr') o w0 wr' ->
  J (set_w (set_dir s d') w0 wr') o.
Proof.
  intros Jo H0 Hk Hc Hr Hd Hok.
  assert (E : wext (writers s) (R.upd (writers s) w0 wr')) by (eapply wext_upd; eauto).
  assert (Hl : w0 < length (writers s)) by (eapply RP.nth_some_lt; eauto).
  set (s' := set_w (set_dir s d') w0 wr') in *.
  assert (Hcm : forall k v, committed s k v -> committed s' k v).
  { intros k v. apply committed_ext. exact E. }
  destruct Jo. constructor; try assumption.
  - intros i k b A B C. destruct (j_val0 i k b A B C) as (P & v & Q1 & Q2). split; [exact P|]. exists v. split; [exact Q1|auto].
  - intros w wr H. simpl in H. apply nth_upd_cases in H. destruct H as [(-> & -> & _)|[Hne H]]; [exact Hok|].
    eapply writer_ok_frame; [| | | | |apply j_w0; exact H]; auto.
  - intros k w H. simpl in H. destruct (Hd _ _ H) as [Hin|(-> & -> & Hren)].
    + destruct (j_dir0 _ _ Hin) as (wr & A & B & C). destruct (E _ _ A) as (wr2 & A2 & B2 & _ & D2).
      exists wr2. split; [exact A2|]. split; [congruence|]. apply D2; exact C.
    + exists wr'. split; [apply RP.nth_upd_eq; exact Hl|]. auto.
  - intros f w op H. destruct (j_fds0 _ _ _ H) as (wr & A & B). destruct (E _ _ A) as (wr2 & A2 & _ & _ & D2).
    exists wr2. split; [exact A2|apply D2; exact B].
  - intros j k f A B C. destruct (j_fval0 j k f A B C) as (P & w & wr & Q1 & Q2 & Q3). split; [exact P|].
    destruct (E _ _ Q2) as (wr2 & A2 & B2 & _). exists w, wr2. repeat split; auto; congruence.
  - intros r rd A B. eapply reader_ok_frame; [| | | | | | | | | |apply j_r0; eauto]; auto.
    intros f k v _. apply fd_good_ext. exact E.
Qed.

Lemma set_dir_same s : set_dir s (dir s) = s.
Proof. destruct s; reflexivity. Qed.

Ltac inv H := inversion H; subst; clear H.

(* ---- CloseW / PWrite / PFail / PRename / direct Write / direct Commit ---- *)
Lemma J_closew s o w : J s o -> J (do_closew s w) o.
Proof.
  intros Jo. unfold do_closew. destruct (nth_error (writers s) w) as [wr|] eqn:Hw; [|exact Jo].
  rewrite <- (set_dir_same s) at 1. eapply J_upd_writer; eauto.
  rewrite set_dir_same. pose proof (j_w _ _ Jo _ _ Hw) as Hok.
  assert (E : wext (writers s) (R.upd (writers s) w (wr_close wr))) by (eapply wext_upd; eauto).
  change (writer_ok (set_w s w (wr_close wr)) o w wr).
  eapply writer_ok_frame; [| | | | |exact Hok]; auto.
  intros k v. apply committed_ext. exact E.
Qed.

Lemma nth_of_nth_error {A} (l : list A) i x d : nth_error l i = Some x -> nth i l d = x.
Proof. intros H. apply nth_error_nth. exact H. Qed.

Lemma dval_some s o i : J s o -> i < length (R.ents (dc s)) -> exists b, nth_error (dval s) i = Some b.
Proof.
  intros Jo Hi. destruct (nth_error (dval s) i) as [b|] eqn:E; [eauto|].
  apply nth_error_None in E. rewrite (j_dl _ _ Jo) in E. lia.
Qed.

(* what a holder of a data-cache reference sees: the value of its key, intact *)
Lemma held_value s o h i k : J s o -> held (dc s) h i -> nth_error (keys (dc s)) i = Some k ->
  exists b v, nth_error (dval s) i = Some b /\ bo o b = BValue i /\ nth_error (bufs s) b = Some v /\ committed s k v
              /\ cached_bytes s i = v.
Proof.
  intros Jo Hh Hk. pose proof (j_dc _ _ Jo) as I.
  destruct (dval_some s o i Jo (held_lt _ _ _ I Hh)) as [b Hb].
  destruct (j_val _ _ Jo i k b Hk (held_unfin _ _ _ I Hh) Hb) as (P & v & Q1 & Q2).
  exists b, v. repeat split; auto. unfold cached_bytes, buf_at.
  rewrite (nth_of_nth_error _ _ _ 0 Hb). apply nth_of_nth_error. exact Q1.
Qed.

Lemma J_pwrite s o w : J s o -> J (do_pwrite s w) o.
Proof.
  intros Jo. unfold do_pwrite. destruct (nth_error (writers s) w) as [wr|] eqn:Hw; [|exact Jo].
  destruct (w_ps wr) as [|stg h i] eqn:Hps; [exact Jo|]. destruct stg as [|stg]; [|exact Jo].
  pose proof (j_w _ _ Jo _ _ Hw) as (Hs & Hr & Ho). unfold stage_ok in Hs. rewrite Hps in Hs.
  destruct Hs as (S1 & S2 & S3 & S4 & S5 & _). destruct (S5 eq_refl) as [Hfile Hren].
  destruct (held_value s o h i _ Jo S1 S4) as (b & v & Hb & Hbo & Hv & Hcm & Hcb).
  rewrite <- (set_dir_same s) at 1.
  eapply (J_upd_writer s o w wr); [exact Jo|exact Hw|reflexivity| | | |].
  - simpl. auto.
  - simpl. rewrite Hren. discriminate.
  - auto.
  - rewrite set_dir_same.
    assert (E : wext (writers s) (R.upd (writers s) w (wr_ps (wr_file wr (w_file wr ++ cached_bytes s i)) (PStage 1 h i)))).
    { eapply wext_upd; eauto; simpl; auto. rewrite Hren. discriminate. }
    split; [|split].
    + unfold stage_ok. simpl. repeat split; auto; try discriminate.
      intros _. eapply committed_ext; [exact E|]. rewrite Hfile, Hcb. exact Hcm.
    + simpl. rewrite Hren. discriminate.
    + simpl. rewrite S3. discriminate.
Qed.

Lemma J_pfail s o w n : J s o -> J (do_pfail s w n) o.
Proof.
  intros Jo. unfold do_pfail. destruct (nth_error (writers s) w) as [wr|] eqn:Hw; [|exact Jo].
  destruct (w_ps wr) as [|stg h i] eqn:Hps; [exact Jo|]. destruct stg as [|stg]; [|exact Jo].
  pose proof (j_w _ _ Jo _ _ Hw) as (Hs & Hr & Ho). unfold stage_ok in Hs. rewrite Hps in Hs.
  destruct Hs as (S1 & S2 & S3 & S4 & S5 & _). destruct (S5 eq_refl) as [Hfile Hren].
  rewrite <- (set_dir_same s) at 1.
  eapply (J_upd_writer s o w wr); [exact Jo|exact Hw|reflexivity| | | |].
  - simpl. auto.
  - simpl. rewrite Hren. discriminate.
  - auto.
  - rewrite set_dir_same. split; [|split].
    + unfold stage_ok. simpl. repeat split; auto; discriminate.
    + simpl. rewrite Hren. discriminate.
    + simpl. rewrite S3. discriminate.
Qed.

Lemma J_prename s o w mk : J s o -> J (do_prename s w mk) o.
Proof.
  intros Jo. unfold do_prename. destruct (nth_error (writers s) w) as [wr|] eqn:Hw; [|exact Jo].
  destruct (w_ps wr) as [|stg h i] eqn:Hps; [exact Jo|]. destruct stg as [|[|stg]]; try exact Jo.
  pose proof (j_w _ _ Jo _ _ Hw) as (Hs & Hr & Ho). unfold stage_ok in Hs. rewrite Hps in Hs.
  destruct Hs as (S1 & S2 & S3 & S4 & _ & S6). specialize (S6 eq_refl).
  destruct (mk && negb (closed s)).
  - assert (E : wext (writers s) (R.upd (writers s) w (wr_ps (wr_renamed wr) (PStage 2 h i)))).
    { eapply wext_upd; eauto; simpl; auto. }
    eapply (J_upd_writer s o w wr); [exact Jo|exact Hw|reflexivity| | | |].
    + simpl. auto.
    + simpl. auto.
    + intros k w' [Hin|Hin]; [|left; exact Hin]. inv Hin. right. auto.
    + split; [|split].
      * unfold stage_ok. simpl. repeat split; auto; discriminate.
      * simpl. intros _. eapply committed_ext; [|exact S6]. exact E.
      * simpl. rewrite S3. discriminate.
  - assert (E : wext (writers s) (R.upd (writers s) w (wr_ps wr (PStage 2 h i)))).
    { eapply wext_upd; eauto; simpl; auto. }
    rewrite <- (set_dir_same s) at 1.
    eapply (J_upd_writer s o w wr); [exact Jo|exact Hw|reflexivity| | | |].
    + simpl. auto.
    + simpl. auto.
    + auto.
    + rewrite set_dir_same. split; [|split].
      * unfold stage_ok. simpl. repeat split; auto; discriminate.
      * simpl. intros Hren. eapply committed_ext; [exact E|]. apply Hr. exact Hren.
      * simpl. rewrite S3. discriminate.
Qed.

Lemma bowner_eq_dec (a b : bowner) : {a = b} + {a <> b}.
Proof. decide equality; apply Nat.eq_dec. Qed.
Lemma opt_bytes_eq_dec (a b : option bytes) : {a = b} + {a <> b}.
Proof. decide equality. apply list_eq_dec. apply N.eq_dec. Qed.

(* an op that changes buffers / the pool / buffer ownership and the writer table (one writer w0 rewritten or appended) *)
Lemma J_chg s o s' bo' w0 :
  J s o ->
  dc s' = dc s -> dval s' = dval s -> fc s' = fc s -> fval s' = fval s -> fds s' = fds s -> dir s' = dir s ->
  readers s' = readers s ->
  wext (writers s) (writers s') ->
  (forall w wr', nth_error (writers s') w = Some wr' -> w <> w0 -> nth_error (writers s) w = Some wr') ->
  (forall wr', nth_error (writers s') w0 = Some wr' -> writer_ok s' (mkOwn bo' (fo o) (hd o) (hf o)) w0 wr') ->
  (forall b, nth_error (bufs s') b <> nth_error (bufs s) b \/ bo' b <> bo o b ->
     (forall i k, nth_error (keys (dc s)) i = Some k -> R.callbacks (dc s) i = 0 -> nth_error (dval s) i <> Some b) /\
     (forall w wr, w <> w0 -> nth_error (writers s) w = Some wr -> w_status wr = WOpen -> w_buf wr <> Some b)) ->
  (NoDup (pool s') /\ forall b, In b (pool s') -> bo' b = BFree /\ nth_error (bufs s') b = Some []) ->
  J s' (mkOwn bo' (fo o) (hd o) (hf o)).
Proof.
  intros Jo Edc Edv Efc Efv Efd Edir Erd E Hoth Hw0 Hpriv Hpool.
  assert (Hcm : forall k v, committed s k v -> committed s' k v) by (intros k v; apply committed_ext; exact E).
  assert (Hsame : forall b, (forall i k, nth_error (keys (dc s)) i = Some k -> R.callbacks (dc s) i = 0 -> nth_error (dval s) i <> Some b) \/
                            (nth_error (bufs s') b = nth_error (bufs s) b /\ bo' b = bo o b)).
  { intros b. destruct (bowner_eq_dec (bo' b) (bo o b)) as [E1|E1].
    - destruct (opt_bytes_eq_dec (nth_error (bufs s') b) (nth_error (bufs s) b)) as [E2|E2]; [right; auto|].
      left. apply (Hpriv b). left. exact E2.
    - left. apply (Hpriv b). right. exact E1. }
  destruct Jo. constructor; simpl; rewrite ?Edc, ?Edv, ?Efc, ?Efv, ?Efd, ?Edir, ?Erd; try assumption.
  - intros i k b A B C. destruct (j_val0 i k b A B C) as (P & v & Q1 & Q2).
    destruct (Hsame b) as [Hn|[H1 H2]]; [exfalso; eapply Hn; eauto|].
    rewrite H1, H2. split; [exact P|]. exists v. auto.
  - intros w wr' H. destruct (Nat.eq_dec w w0) as [->|Hne]; [apply Hw0; exact H|].
    pose proof (Hoth _ _ H Hne) as H'. eapply writer_ok_frame; [| | | | |apply j_w0; exact H'].
    + rewrite Edc. auto.
    + auto.
    + rewrite Edc. auto.
    + exact Hcm.
    + intros b Hb Hop Hbo. simpl.
      destruct (bowner_eq_dec (bo' b) (bo o b)) as [E1|E1].
      * destruct (opt_bytes_eq_dec (nth_error (bufs s') b) (nth_error (bufs s) b)) as [E2|E2]; [split; congruence|].
        exfalso. destruct (Hpriv b (or_introl E2)) as [_ Hp]. eapply Hp; eauto.
      * exfalso. destruct (Hpriv b (or_intror E1)) as [_ Hp]. eapply Hp; eauto.
  - intros k w H. destruct (j_dir0 _ _ H) as (wr & A & B & C). destruct (E _ _ A) as (wr2 & A2 & B2 & _ & D2).
    exists wr2. split; [exact A2|]. split; [congruence|]. apply D2; exact C.
  - intros f w op H. destruct (j_fds0 _ _ _ H) as (wr & A & B). destruct (E _ _ A) as (wr2 & A2 & _ & _ & D2).
    exists wr2. split; [exact A2|apply D2; exact B].
  - intros j k f A B C. destruct (j_fval0 j k f A B C) as (P & w & wr & Q1 & Q2 & Q3). split; [exact P|].
    destruct (E _ _ Q2) as (wr2 & A2 & B2 & _). exists w, wr2. repeat split; auto; congruence.
  - intros r rd A B. pose proof (j_r0 r rd A B) as Hok.
    eapply reader_ok_frame; [| | | | | | | | | |exact Hok]; simpl; rewrite ?Edc, ?Edv, ?Efc, ?Efv, ?Efd; auto.
    + intros b len h K. destruct Hok as (_ & Hk). rewrite K in Hk. destruct Hk as (i & H1 & H2 & H3 & H4 & H5).
      destruct (Hsame b) as [Hn|[H1' _]]; [|exact H1'].
      exfalso. assert (Hlt : i < length (R.ents (dc s))) by (eapply held_lt; eauto).
      destruct (nth_error (keys (dc s)) i) as [k|] eqn:Hk.
      * eapply Hn; eauto. eapply held_unfin; eauto.
      * apply nth_error_None in Hk. rewrite keys_length in Hk. lia.
    + intros f k v _. apply fd_good_ext. exact E.
Qed.

Lemma active_open wr : w_active wr = true -> w_status wr = WOpen.
Proof. unfold w_active. destruct (w_status wr); auto; discriminate. Qed.

(* a buffer owned by a writer, by the pool, or not yet allocated is referenced by no cached value and no other writer *)
Lemma priv_of_owner s o b w0 : J s o ->
  (bo o b = BWriter w0 \/ bo o b = BFree \/ nth_error (bufs s) b = None) ->
  (forall i k, nth_error (keys (dc s)) i = Some k -> R.callbacks (dc s) i = 0 -> nth_error (dval s) i <> Some b) /\
  (forall w wr, w <> w0 -> nth_error (writers s) w = Some wr -> w_status wr = WOpen -> w_buf wr <> Some b).
Proof.
  intros Jo Hown. split.
  - intros i k A B C. destruct (j_val _ _ Jo i k b A B C) as (P & v & Q & _).
    destruct Hown as [H|[H|H]]; congruence.
  - intros w wr Hne A B C. destruct (j_w _ _ Jo _ _ A) as (_ & _ & Ho). destruct (Ho B) as (_ & _ & D).
    rewrite C in D. destruct D as (D1 & D2 & _). destruct Hown as [H|[H|H]]; congruence.
Qed.

Lemma J_write s o w bs : J s o -> J (do_write s w bs) o.
Proof.
  intros Jo. unfold do_write. destruct (nth_error (writers s) w) as [wr|] eqn:Hw; [|exact Jo].
  destruct (w_active wr) eqn:Hact; [|exact Jo]. pose proof (active_open _ Hact) as Hop.
  pose proof (j_w _ _ Jo _ _ Hw) as (Hs & Hr & Ho). destruct (Ho Hop) as (Hren & Hps & Hb).
  destruct (w_buf wr) as [b|] eqn:Hbuf.
  - destruct Hb as (B1 & B2 & B3).
    assert (Hlt : b < length (bufs s)) by (eapply RP.nth_some_lt; eauto).
    assert (Hbuf_at : buf_at s b = w_acc wr) by (unfold buf_at; apply nth_of_nth_error; exact B2).
    replace o with (mkOwn (bo o) (fo o) (hd o) (hf o)) by (destruct o; reflexivity).
    eapply (J_chg s o _ (bo o) w); try reflexivity; [exact Jo| | | | |].
    + simpl. eapply wext_upd; eauto; simpl; auto; rewrite ?Hop, ?Hren; discriminate.
    + simpl. intros w' wr' H Hne. rewrite RP.nth_upd_ne in H by auto. exact H.
    + simpl. intros wr' H. rewrite RP.nth_upd_eq in H by (eapply RP.nth_some_lt; eauto). inv H.
      split; [|split].
      * unfold stage_ok. simpl. rewrite Hps. exact I.
      * simpl. rewrite Hren. discriminate.
      * simpl. intros _. split; [exact Hren|]. split; [exact Hps|]. rewrite Hbuf. split; [exact B1|].
        split; [|exact B3]. rewrite RP.nth_upd_eq by exact Hlt. rewrite Hbuf_at. reflexivity.
    + simpl. intros b' [Hc|Hc]; [|congruence].
      destruct (Nat.eq_dec b' b) as [->|Hne]; [|rewrite RP.nth_upd_ne in Hc by auto; congruence].
      eapply priv_of_owner; eauto.
    + simpl. destruct (j_pool _ _ Jo) as [Hnd Hp]. split; [exact Hnd|].
      intros b' Hin. destruct (Hp _ Hin) as [P1 P2]. split; [exact P1|].
      rewrite RP.nth_upd_ne; [exact P2|]. intros ->. congruence.
  - rewrite <- (set_dir_same s) at 1.
    eapply (J_upd_writer s o w wr); [exact Jo|exact Hw|reflexivity| | | |].
    + rewrite Hop. discriminate.
    + rewrite Hren. discriminate.
    + auto.
    + rewrite set_dir_same. split; [|split].
      * unfold stage_ok. simpl. rewrite Hps. exact I.
      * simpl. rewrite Hren. discriminate.
      * simpl. intros _. split; [exact Hren|]. split; [exact Hps|]. rewrite Hbuf. rewrite Hb. reflexivity.
Qed.

Lemma own_eta o : mkOwn (bo o) (fo o) (hd o) (hf o) = o.
Proof. destruct o; reflexivity. Qed.

Lemma nth_app_other {A} (l : list A) x n : n <> length l -> nth_error (l ++ [x]) n = nth_error l n.
Proof.
  intros Hne. destruct (Nat.lt_ge_cases n (length l)) as [Hlt|Hge].
  - apply nth_error_app1. exact Hlt.
  - assert (H1 : nth_error l n = None) by (apply nth_error_None; lia). rewrite H1.
    apply nth_error_None. rewrite app_length. simpl. lia.
Qed.

Lemma remove1_in b l x : In x (remove1 b l) -> In x l.
Proof. induction l as [|a l IH]; simpl; [tauto|]. destruct (Nat.eqb_spec a b); simpl; intros H; [auto|]. destruct H; auto. Qed.
Lemma remove1_nodup b l : NoDup l -> NoDup (remove1 b l) /\ ~ In b (remove1 b l).
Proof.
  induction l as [|a l IH]; simpl; intros H; [split; [constructor|tauto]|]. inv H.
  destruct (Nat.eqb_spec a b) as [->|Hne]; [split; assumption|].
  destruct (IH H3) as [N1 N2]. split.
  - constructor; [|exact N1]. intros Hin. apply H2. eapply remove1_in; eauto.
  - simpl. intros [E|Hin]; [congruence|tauto].
Qed.

Lemma J_abort s o w : J s o -> exists o', J (do_abort s w) o'.
Proof.
  intros Jo. unfold do_abort. destruct (nth_error (writers s) w) as [wr|] eqn:Hw; [|eauto].
  destruct (w_active wr) eqn:Hact; [|eauto]. pose proof (active_open _ Hact) as Hop.
  pose proof (j_w _ _ Jo _ _ Hw) as (Hs & Hr & Ho). destruct (Ho Hop) as (Hren & Hps & Hb).
  destruct (w_buf wr) as [b|] eqn:Hbuf.
  - destruct Hb as (B1 & B2 & B3).
    assert (Hlt : b < length (bufs s)) by (eapply RP.nth_some_lt; eauto).
    exists (mkOwn (fun x => if Nat.eqb x b then BFree else bo o x) (fo o) (hd o) (hf o)).
    eapply (J_chg s o _ _ w); try reflexivity; [exact Jo| | | | |].
    + simpl. eapply wext_upd; eauto; simpl; auto; rewrite ?Hop, ?Hren; discriminate.
    + simpl. intros w' wr' H Hne. rewrite RP.nth_upd_ne in H by auto. exact H.
    + simpl. intros wr' H. rewrite RP.nth_upd_eq in H by (eapply RP.nth_some_lt; eauto). inv H.
      split; [|split].
      * unfold stage_ok. simpl. rewrite Hps. exact I.
      * simpl. rewrite Hren. discriminate.
      * simpl. discriminate.
    + simpl. intros b' Hc.
      destruct (Nat.eqb_spec b' b) as [Eb|Hne]; [subst b'|]; [|idtac]; [eapply priv_of_owner; eauto|].
      rewrite RP.nth_upd_ne in Hc by auto. destruct Hc; congruence.
    + simpl. destruct (j_pool _ _ Jo) as [Hnd Hp]. split.
      * constructor; [|exact Hnd]. intros Hin. destruct (Hp _ Hin). congruence.
      * intros b' [<-|Hin].
        -- rewrite Nat.eqb_refl. split; [reflexivity|]. apply RP.nth_upd_eq. exact Hlt.
        -- destruct (Hp _ Hin) as [P1 P2]. destruct (Nat.eqb_spec b' b) as [Eb|Hne]; [subst b'|]; [|idtac]; [congruence|].
           split; [exact P1|]. rewrite RP.nth_upd_ne by auto. exact P2.
  - exists o. rewrite <- (set_dir_same s) at 1.
    eapply (J_upd_writer s o w wr); [exact Jo|exact Hw|reflexivity| | | |].
    + rewrite Hop. discriminate.
    + rewrite Hren. discriminate.
    + auto.
    + rewrite set_dir_same. split; [|split].
      * unfold stage_ok. simpl. rewrite Hps. exact I.
      * simpl. rewrite Hren. discriminate.
      * simpl. discriminate.
Qed.

Lemma new_writer_ok s' o' w k ob :
  match ob with Some b => bo o' b = BWriter w /\ nth_error (bufs s') b = Some [] | None => True end ->
  writer_ok s' o' w (mkW k ob [] false [] WOpen PNone false).
Proof.
  intros H. split; [exact I|]. split; [simpl; discriminate|]. simpl. intros _. split; [reflexivity|]. split; [reflexivity|].
  destruct ob as [b|]; [|reflexivity]. destruct H. auto.
Qed.

Lemma J_add s o k d p : J s o -> exists o', J (fst (do_add s k d p)) o'.
Proof.
  intros Jo. unfold do_add. destruct (closed s); [simpl; eauto|]. set (w0 := length (writers s)).
  assert (Hoth : forall ws x w (wr' : writer), nth_error (ws ++ [x]) w = Some wr' -> w <> length ws -> nth_error ws w = Some wr').
  { intros ws x w wr' H Hne. rewrite nth_app_other in H by exact Hne. exact H. }
  destruct d.
  - exists o. simpl. rewrite <- (own_eta o).
    eapply (J_chg s o _ (bo o) w0); try reflexivity; [exact Jo| | | | |].
    + simpl. apply wext_app.
    + simpl. intros w wr' H Hne. eapply Hoth; eauto.
    + simpl. intros wr' H. unfold w0 in H. rewrite RP.nth_app_new in H. inv H. apply new_writer_ok. exact I.
    + simpl. intros b [Hc|Hc]; congruence.
    + simpl. apply (j_pool _ _ Jo).
  - unfold take_buf. destruct (j_pool _ _ Jo) as [Hnd Hp].
    assert (Hfresh : exists o', J (fst (let '(s1, b, ok) := (set_bufs s (bufs s ++ [[]]), length (bufs s), true) in
                 (add_writer s1 (mkW k (Some b) [] false [] WOpen PNone false), OOk ok))) o').
    { simpl. set (b := length (bufs s)).
      exists (mkOwn (fun x => if Nat.eqb x b then BWriter w0 else bo o x) (fo o) (hd o) (hf o)).
      eapply (J_chg s o _ _ w0); try reflexivity; [exact Jo| | | | |].
      + simpl. apply wext_app.
      + simpl. intros w wr' H Hne. eapply Hoth; eauto.
      + simpl. intros wr' H. unfold w0 in H. rewrite RP.nth_app_new in H. inv H. apply new_writer_ok.
        simpl. rewrite Nat.eqb_refl. split; [reflexivity|]. unfold b. apply RP.nth_app_new.
      + simpl. intros b' Hc. destruct (Nat.eqb_spec b' b) as [Eb|Hne]; [subst b'|]; [|idtac].
        * eapply priv_of_owner; eauto. right. right. apply nth_error_None. unfold b. lia.
        * rewrite nth_app_other in Hc by exact Hne. destruct Hc; congruence.
      + simpl. split; [exact Hnd|]. intros b' Hin. destruct (Hp _ Hin) as [P1 P2].
        assert (Hlt : b' < length (bufs s)) by (eapply RP.nth_some_lt; eauto).
        destruct (Nat.eqb_spec b' b) as [Eb|Hne]; [subst b'|]; [|idtac]; [unfold b in Hlt; lia|].
        split; [exact P1|]. rewrite nth_error_app1 by exact Hlt. exact P2. }
    destruct p as [b|].
    + destruct (existsb (Nat.eqb b) (pool s)) eqn:Hex.
      * apply existsb_exists in Hex. destruct Hex as (x & Hin & Hx). apply Nat.eqb_eq in Hx. subst x.
        destruct (Hp _ Hin) as [P1 P2]. destruct (remove1_nodup b _ Hnd) as [N1 N2].
        simpl.
        exists (mkOwn (fun x => if Nat.eqb x b then BWriter w0 else bo o x) (fo o) (hd o) (hf o)).
        eapply (J_chg s o _ _ w0); try reflexivity; [exact Jo| | | | |].
        -- simpl. apply wext_app.
        -- simpl. intros w wr' H Hne. eapply Hoth; eauto.
        -- simpl. intros wr' H. unfold w0 in H. rewrite RP.nth_app_new in H. inv H. apply new_writer_ok.
           simpl. rewrite Nat.eqb_refl. auto.
        -- simpl. intros b' Hc. destruct (Nat.eqb_spec b' b) as [Eb|Hne]; [subst b'|]; [|idtac].
           ++ eapply priv_of_owner; eauto.
           ++ destruct Hc; congruence.
        -- simpl. split; [exact N1|]. intros b' Hin'. pose proof (remove1_in _ _ _ Hin') as Hin2.
           destruct (Nat.eqb_spec b' b) as [Eb|Hne]; [subst b'|]; [|idtac]; [tauto|]. apply Hp. exact Hin2.
      * destruct Hfresh as [o' Ho']. exists o'. simpl in *. exact Ho'.
    + exact Hfresh.
Qed.

(* ---- running the OnEvicted bodies ---- *)
Lemma recycle_all_spec rs : forall s,
  let s' := fold_left recycle rs s in
  dc s' = dc s /\ dval s' = dval s /\ fc s' = fc s /\ fval s' = fval s /\ fds s' = fds s /\ dir s' = dir s
  /\ writers s' = writers s /\ readers s' = readers s
  /\ pool s' = rev rs ++ pool s
  /\ length (bufs s') = length (bufs s)
  /\ (forall b, ~ In b rs -> nth_error (bufs s') b = nth_error (bufs s) b)
  /\ (forall b, In b rs -> b < length (bufs s) -> nth_error (bufs s') b = Some []).
Proof.
  induction rs as [|a rs IH]; intros s; simpl.
  - repeat split; auto. intros b [].
  - destruct (IH (recycle s a)) as (A1 & A2 & A3 & A4 & A5 & A6 & A7 & A8 & A9 & A10 & A11 & A12).
    simpl in *. repeat split; auto.
    + rewrite A9. rewrite <- app_assoc. reflexivity.
    + rewrite A10. apply RP.upd_length.
    + intros b Hn. destruct (in_dec Nat.eq_dec b rs) as [Hin|Hnin].
      * exfalso. apply Hn. auto.
      * rewrite A11 by exact Hnin. apply RP.nth_upd_ne. intros ->. apply Hn. auto.
    + intros b Hin Hlt. destruct (in_dec Nat.eq_dec b rs) as [Hin'|Hnin].
      * apply A12; [exact Hin'|]. rewrite RP.upd_length. exact Hlt.
      * rewrite A11 by exact Hnin. destruct Hin as [->|Hin]; [|contradiction]. apply RP.nth_upd_eq. exact Hlt.
Qed.

Lemma close_all_spec fs : forall s,
  let s' := fold_left close_fd fs s in
  dc s' = dc s /\ dval s' = dval s /\ fc s' = fc s /\ fval s' = fval s /\ bufs s' = bufs s /\ pool s' = pool s /\ dir s' = dir s
  /\ writers s' = writers s /\ readers s' = readers s
  /\ length (fds s') = length (fds s)
  /\ (forall f, ~ In f fs -> nth_error (fds s') f = nth_error (fds s) f)
  /\ (forall f w op, nth_error (fds s') f = Some (w, op) -> exists op0, nth_error (fds s) f = Some (w, op0)).
Proof.
  induction fs as [|a fs IH]; intros s; simpl.
  - repeat split; auto. intros f w op H. eauto.
  - destruct (IH (close_fd s a)) as (A1 & A2 & A3 & A4 & A5 & A6 & A7 & A8 & A9 & A10 & A11 & A12).
    assert (Hc : dc (close_fd s a) = dc s /\ dval (close_fd s a) = dval s /\ fc (close_fd s a) = fc s /\ fval (close_fd s a) = fval s
                 /\ bufs (close_fd s a) = bufs s /\ pool (close_fd s a) = pool s /\ dir (close_fd s a) = dir s
                 /\ writers (close_fd s a) = writers s /\ readers (close_fd s a) = readers s
                 /\ length (fds (close_fd s a)) = length (fds s)
                 /\ (forall f, f <> a -> nth_error (fds (close_fd s a)) f = nth_error (fds s) f)
                 /\ (forall f w op, nth_error (fds (close_fd s a)) f = Some (w, op) -> exists op0, nth_error (fds s) f = Some (w, op0))).
    { unfold close_fd. destruct (nth_error (fds s) a) as [[w0 op0]|] eqn:E; simpl.
      - repeat split; auto.
        + apply RP.upd_length.
        + intros f Hne. apply RP.nth_upd_ne. auto.
        + intros f w op H. apply nth_upd_cases in H. destruct H as [(-> & H & _)|[_ H]]; [inv H; eauto|eauto].
      - repeat split; auto. intros f w op H. eauto. }
    destruct Hc as (C1 & C2 & C3 & C4 & C5 & C6 & C7 & C8 & C9 & C10 & C11 & C12).
    repeat split; try congruence.
    + intros f Hn. rewrite A11 by (intros Hin; apply Hn; auto). apply C11. intros ->. apply Hn. auto.
    + intros f w op H. destruct (A12 _ _ _ H) as [op1 H1]. eapply C12; eauto.
Qed.

Lemma NoDup_map_on {A B} (f : A -> B) l :
  (forall x y, In x l -> In y l -> f x = f y -> x = y) -> NoDup l -> NoDup (map f l).
Proof.
  induction l as [|a l IH]; simpl; intros Hinj Hnd; [constructor|]. inv Hnd. constructor.
  - intros Hin. apply in_map_iff in Hin. destruct Hin as (x & Hfx & Hx).
    assert (x = a) by (apply Hinj; auto). subst. contradiction.
  - apply IH; auto.
Qed.

Lemma NoDup_app_intro {A} (l1 l2 : list A) :
  NoDup l1 -> NoDup l2 -> (forall x, In x l1 -> ~ In x l2) -> NoDup (l1 ++ l2).
Proof.
  induction l1 as [|a l1 IH]; simpl; intros H1 H2 Hd; [exact H2|]. inv H1. constructor.
  - intros Hin. apply in_app_or in Hin. destruct Hin as [Hin|Hin]; [contradiction|]. apply (Hd a); auto.
  - apply IH; auto.
Qed.

(* One transition of the data cache (LRU op + the OnEvicted bodies it triggers), possibly publishing a new value.
   [hrel] is the handle released by the op (any fresh index if none): nobody may still claim it. *)
Lemma J_dc_trans s o rop hrel newv :
  J s o ->
  (forall h' i, held (dc s) h' i -> h' <> hrel -> held (fst (R.step (dc s) rop)) h' i) ->
  (forall r rd b len h, nth_error (readers s) r = Some rd -> r_open rd = true -> r_kind rd = RBuf b len h -> h <> hrel) ->
  (forall w wr stg h i, nth_error (writers s) w = Some wr -> w_ps wr = PStage stg h i -> h <> hrel) ->
  match newv with
  | None => keys (fst (R.step (dc s) rop)) = keys (dc s)
  | Some (k, b) => keys (fst (R.step (dc s) rop)) = keys (dc s) ++ [k]
        /\ R.callbacks (fst (R.step (dc s) rop)) (length (R.ents (dc s))) = 0
        /\ (exists w0, bo o b = BWriter w0)
        /\ (forall w wr, nth_error (writers s) w = Some wr -> w_status wr = WOpen -> w_buf wr <> Some b)
        /\ (exists v, nth_error (bufs s) b = Some v /\ committed s k v)
  end ->
  let c' := fst (R.step (dc s) rop) in
  let dv := match newv with None => dval s | Some (_, b) => dval s ++ [b] end in
  let s1 := dc_apply s c' dv in
  exists bo1, J s1 (mkOwn bo1 (fo o) (hd o) (hf o))
     /\ (forall b, (forall i, bo o b <> BValue i) -> match newv with Some (_, b0) => b <> b0 | None => True end -> bo1 b = bo o b)
     /\ (forall i b, nth_error (dval s) i = Some b -> i < length (R.ents (dc s)) -> R.callbacks c' i = 0 ->
           nth_error (bufs s1) b = nth_error (bufs s) b)
     /\ dc s1 = c' /\ dval s1 = dv /\ fc s1 = fc s /\ fval s1 = fval s /\ fds s1 = fds s /\ dir s1 = dir s
     /\ writers s1 = writers s /\ readers s1 = readers s.
Proof.
  intros Jo Hkeep Hrd Hwr Hnew.
  pose proof (j_dc _ _ Jo) as Idc.
  destruct (fin_facts (dc s) rop Idc) as (I' & Hlog & Hnd & Hfin1 & Hfin0).
  remember (fst (R.step (dc s) rop)) as c' eqn:Ec. intros c'' dv s1. subst c''.
  set (fin := finalised (dc s) c') in *.
  set (rs := map (fun i => nth i dv 0) fin).
  assert (Hs1 : s1 = fold_left recycle rs (set_dc s c' dv)) by reflexivity.
  destruct (recycle_all_spec rs (set_dc s c' dv)) as (A1 & A2 & A3 & A4 & A5 & A6 & A7 & A8 & A9 & A10 & A11 & A12).
  rewrite <- Hs1 in *. simpl in A1, A2, A3, A4, A5, A6, A7, A8, A9, A10, A11, A12.
  (* length facts *)
  assert (Hlen' : length (R.ents c') = length dv).
  { rewrite <- keys_length. unfold dv. destruct newv as [[k b]|].
    - destruct Hnew as (Hk & _). rewrite Hk, !app_length, keys_length, (j_dl _ _ Jo). reflexivity.
    - rewrite Hnew, keys_length, (j_dl _ _ Jo). reflexivity. }
  assert (Hdv_old : forall i b, nth_error (dval s) i = Some b -> nth_error dv i = Some b).
  { intros i b H. unfold dv. destruct newv as [[k b0]|]; [|exact H].
    rewrite nth_error_app1; [exact H|]. eapply RP.nth_some_lt; eauto. }
  assert (Hkeys_old : forall i k, nth_error (keys (dc s)) i = Some k -> nth_error (keys c') i = Some k).
  { intros i k H. destruct newv as [[k0 b0]|].
    - destruct Hnew as (Hk & _). rewrite Hk. rewrite nth_error_app1; [exact H|]. eapply RP.nth_some_lt; eauto.
    - rewrite Hnew. exact H. }
  (* K1: finalised values are old values *)
  assert (K1 : forall i, In i fin -> i < length (R.ents (dc s))).
  { intros i Hin. destruct (Hfin1 _ Hin) as [_ H1].
    assert (Hlt : i < length (R.ents c')).
    { apply (RP.inv_log _ I'). rewrite Hlog. apply in_or_app. right. exact Hin. }
    destruct newv as [[k b]|].
    - destruct Hnew as (Hk & Hcb & _). rewrite <- keys_length, Hk, app_length, keys_length in Hlt. simpl in Hlt.
      destruct (Nat.eq_dec i (length (R.ents (dc s)))) as [->|Hne]; [congruence|lia].
    - rewrite <- keys_length, Hnew, keys_length in Hlt. exact Hlt. }
  (* K2: their buffers *)
  assert (K2 : forall i, In i fin -> exists b k v, nth_error (keys (dc s)) i = Some k /\ nth_error (dval s) i = Some b
                 /\ nth i dv 0 = b /\ bo o b = BValue i /\ nth_error (bufs s) b = Some v).
  { intros i Hin. pose proof (K1 _ Hin) as Hlt. destruct (Hfin1 _ Hin) as [H0 _].
    destruct (dval_some s o i Jo Hlt) as [b Hb].
    destruct (nth_error (keys (dc s)) i) as [k|] eqn:Hk.
    2:{ apply nth_error_None in Hk. rewrite keys_length in Hk. lia. }
    destruct (j_val _ _ Jo i k b Hk H0 Hb) as (P & v & Q & _).
    exists b, k, v. repeat split; auto. apply nth_of_nth_error. apply Hdv_old. exact Hb. }
  assert (K3 : forall x, In x rs -> exists i, In i fin /\ nth_error (dval s) i = Some x /\ bo o x = BValue i
                                    /\ exists v, nth_error (bufs s) x = Some v).
  { intros x Hin. apply in_map_iff in Hin. destruct Hin as (i & Hx & Hin).
    destruct (K2 _ Hin) as (b & k & v & B1 & B2 & B3 & B4 & B5). exists i. rewrite <- Hx, B3. eauto 6. }
  assert (K4 : NoDup rs).
  { apply NoDup_map_on; [|exact Hnd]. intros x y Hx Hy E.
    destruct (K2 _ Hx) as (b & k & v & _ & _ & B3 & B4 & _). destruct (K2 _ Hy) as (b2 & k2 & v2 & _ & _ & C3 & C4 & _).
    rewrite B3, C3 in E. subst b2. rewrite B4 in C4. inv C4. reflexivity. }
  (* unfinalised old values keep away from rs *)
  assert (K5 : forall i b, nth_error (dval s) i = Some b -> i < length (R.ents (dc s)) -> R.callbacks c' i = 0 ->
               R.callbacks (dc s) i = 0 /\ ~ In b rs).
  { intros i b Hb Hlt Hcb.
    assert (Hni : ~ In i fin) by (intros Hin; destruct (Hfin1 _ Hin); congruence).
    rewrite (Hfin0 _ Hni) in Hcb. split; [exact Hcb|]. intros Hin.
    destruct (K3 _ Hin) as (i' & Hin' & Hb' & Hbo' & _).
    destruct (nth_error (keys (dc s)) i) as [k|] eqn:Hk.
    2:{ apply nth_error_None in Hk. rewrite keys_length in Hk. lia. }
    destruct (j_val _ _ Jo i k b Hk Hcb Hb) as (P & _). rewrite P in Hbo'. inv Hbo'. contradiction. }
  set (bo1 := fun x => if in_dec Nat.eq_dec x rs then BFree
                       else match newv with
                            | Some (_, b0) => if Nat.eqb x b0 then BValue (length (R.ents (dc s))) else bo o x
                            | None => bo o x
                            end).
  assert (Hbo1 : forall b, (forall i, bo o b <> BValue i) -> match newv with Some (_, b0) => b <> b0 | None => True end -> bo1 b = bo o b).
  { intros b Hnv Hnb. unfold bo1. destruct (in_dec Nat.eq_dec b rs) as [Hin|Hnin].
    - destruct (K3 _ Hin) as (i & _ & _ & Hbo & _). exfalso. eapply Hnv; eauto.
    - destruct newv as [[k b0]|]; [|reflexivity]. destruct (Nat.eqb_spec b b0); [contradiction|reflexivity]. }
  assert (Hcm : forall k v, committed s k v -> committed s1 k v).
  { intros k v H. apply committed_W. rewrite A7. exact H. }
  exists bo1. split; [|split; [exact Hbo1|split; [|repeat split; auto]]].
  2:{ intros i b Hb Hlt Hcb. apply A11. eapply K5; eauto. }
  constructor; simpl; rewrite ?A1, ?A2, ?A3, ?A4, ?A5, ?A6, ?A7, ?A8.
  - exact I'.
  - apply (j_fc _ _ Jo).
  - symmetry. exact Hlen'.
  - apply (j_fl _ _ Jo).
  - (* j_val *)
    intros i k b Hk Hcb Hb.
    destruct (Nat.lt_ge_cases i (length (R.ents (dc s)))) as [Hlt|Hge].
    + assert (Hb0 : nth_error (dval s) i = Some b).
      { unfold dv in Hb. destruct newv as [[k0 b0]|]; [|exact Hb]. rewrite nth_error_app1 in Hb; [exact Hb|]. rewrite (j_dl _ _ Jo). exact Hlt. }
      assert (Hk0 : nth_error (keys (dc s)) i = Some k).
      { destruct (nth_error (keys (dc s)) i) as [k1|] eqn:E.
        - rewrite (Hkeys_old _ _ E) in Hk. exact Hk.
        - apply nth_error_None in E. rewrite keys_length in E. lia. }
      destruct (K5 _ _ Hb0 Hlt Hcb) as [Hcb0 Hnin].
      destruct (j_val _ _ Jo i k b Hk0 Hcb0 Hb0) as (P & v & Q1 & Q2).
      split.
      * unfold bo1. destruct (in_dec Nat.eq_dec b rs) as [Hin|_]; [contradiction|].
        destruct newv as [[k0 b0]|]; [|exact P]. destruct (Nat.eqb_spec b b0) as [->|_]; [|exact P].
        destruct Hnew as (_ & _ & (w0 & Hw0) & _). congruence.
      * exists v. split; [rewrite A11 by exact Hnin; exact Q1|auto].
    + destruct newv as [[k0 b0]|].
      * destruct Hnew as (Hkk & Hcb0 & (w0 & Hw0) & Hnow & (v & Hv & Hcv)).
        assert (Hi : i = length (R.ents (dc s))).
        { apply RP.nth_some_lt in Hb. unfold dv in Hb. rewrite app_length, (j_dl _ _ Jo) in Hb. simpl in Hb. lia. }
        subst i. unfold dv in Hb. rewrite <- (j_dl _ _ Jo) in Hb. rewrite RP.nth_app_new in Hb. inv Hb.
        rewrite Hkk in Hk. rewrite <- keys_length in Hk. rewrite RP.nth_app_new in Hk. inv Hk.
        assert (Hnin : ~ In b rs).
        { intros Hin. destruct (K3 _ Hin) as (i' & _ & _ & Hbo & _). congruence. }
        split.
        -- unfold bo1. destruct (in_dec Nat.eq_dec b rs) as [Hin|_]; [contradiction|]. rewrite Nat.eqb_refl. reflexivity.
        -- exists v. split; [rewrite A11 by exact Hnin; exact Hv|auto].
      * exfalso. apply RP.nth_some_lt in Hb. unfold dv in Hb. rewrite (j_dl _ _ Jo) in Hb. lia.
  - (* j_pool *)
    destruct (j_pool _ _ Jo) as [Hpnd Hp]. rewrite A9. split.
    + apply NoDup_app_intro; [apply NoDup_rev; exact K4|exact Hpnd|].
      intros x Hin Hin2. apply in_rev in Hin. destruct (K3 _ Hin) as (i & _ & _ & Hbo & _).
      destruct (Hp _ Hin2). congruence.
    + intros b Hin. apply in_app_or in Hin. destruct Hin as [Hin|Hin].
      * apply in_rev in Hin. split.
        -- unfold bo1. destruct (in_dec Nat.eq_dec b rs); [reflexivity|contradiction].
        -- destruct (K3 _ Hin) as (i & _ & _ & _ & v & Hv). apply A12; [exact Hin|]. eapply RP.nth_some_lt; eauto.
      * destruct (Hp _ Hin) as [P1 P2].
        assert (Hnin : ~ In b rs).
        { intros Hin'. destruct (K3 _ Hin') as (i & _ & _ & Hbo & _). congruence. }
        split.
        -- rewrite Hbo1; [exact P1| |]; [intros i; congruence|].
           destruct newv as [[k0 b0]|]; [|exact I]. destruct Hnew as (_ & _ & (w0 & Hw0) & _). intros ->. congruence.
        -- rewrite A11 by exact Hnin. exact P2.
  - (* j_w *)
    intros w wr Hw. eapply writer_ok_frame; [| | | | |apply (j_w _ _ Jo); exact Hw]; simpl; rewrite ?A1.
    + intros stg h i Hps Hh. apply Hkeep; [exact Hh|]. eapply Hwr; eauto.
    + auto.
    + exact Hkeys_old.
    + exact Hcm.
    + intros b Hb Hop Hbo. split.
      * rewrite Hbo1; [exact Hbo| |]; [intros i; congruence|].
        destruct newv as [[k0 b0]|]; [|exact I]. destruct Hnew as (_ & _ & _ & Hnow & _). intros ->. eapply Hnow; eauto.
      * apply A11. intros Hin. destruct (K3 _ Hin) as (i & _ & _ & Hbo' & _). congruence.
  - apply (j_dir _ _ Jo).
  - apply (j_fds _ _ Jo).
  - apply (j_fval _ _ Jo).
  - (* j_r *)
    intros r rd Hr Hop. pose proof (j_r _ _ Jo r rd Hr Hop) as Hok.
    eapply reader_ok_frame; [| | | | | | | | | |exact Hok]; simpl; rewrite ?A1, ?A2, ?A3, ?A4, ?A5, ?A7; auto.
    + intros b len h i K Hh. apply Hkeep; [exact Hh|]. eapply Hrd; eauto.
    + intros b len h K. destruct Hok as (_ & Hk). rewrite K in Hk. destruct Hk as (i & H1 & H2 & H3 & H4 & H5).
      apply A11. assert (Hlt : i < length (R.ents (dc s))) by (eapply held_lt; eauto).
      assert (Hh' : held c' h i) by (apply Hkeep; [exact H1|eapply Hrd; eauto]).
      destruct (K5 i b H3 Hlt (held_unfin _ _ _ I' Hh')) as [_ Hnin]. exact Hnin.
Qed.

(* ---- releasing a data-cache reference nobody claims any more ---- *)
Lemma rel_keep c h h' i : held c h' i -> h' <> h -> held (fst (R.step c (R.Release h false))) h' i.
Proof.
  intros Hh Hne. unfold held. destruct (step_rel c h) as [_ Hhs]. rewrite Hhs.
  destruct (nth_error (R.hs c) h) as [[i0 f0]|]; [|exact Hh]. rewrite RP.nth_upd_ne by auto. exact Hh.
Qed.

Lemma J_dc_release s o h :
  J s o ->
  (forall r rd b len h', nth_error (readers s) r = Some rd -> r_open rd = true -> r_kind rd = RBuf b len h' -> h' <> h) ->
  (forall w wr stg h' i, nth_error (writers s) w = Some wr -> w_ps wr = PStage stg h' i -> h' <> h) ->
  exists o', J (dc_release s h) o'.
Proof.
  intros Jo Hr Hw.
  destruct (J_dc_trans s o (R.Release h false) h None Jo) as (bo1 & J1 & _); auto.
  - intros h' i. apply rel_keep.
  - apply (step_rel (dc s) h).
  - eexists. exact J1.
Qed.

Lemma J_pdone s o w : J s o -> exists o', J (do_pdone s w) o'.
Proof.
  intros Jo. unfold do_pdone. destruct (nth_error (writers s) w) as [wr|] eqn:Hw; [|eauto].
  destruct (w_ps wr) as [|stg h i] eqn:Hps; [eauto|]. destruct stg as [|[|[|stg]]]; eauto.
  pose proof (j_w _ _ Jo _ _ Hw) as (Hs & Hr & Ho). unfold stage_ok in Hs. rewrite Hps in Hs.
  destruct Hs as (S1 & S2 & S3 & S4 & _ & _).
  assert (J0 : J (set_w s w (wr_ps wr PNone)) o).
  { rewrite <- (set_dir_same s) at 1.
    eapply (J_upd_writer s o w wr); [exact Jo|exact Hw|reflexivity| | | |]; simpl; auto.
    rewrite set_dir_same. split; [exact I|]. split; [|simpl; rewrite S3; discriminate].
    simpl. intros Hren. eapply committed_ext; [|apply Hr; exact Hren].
    eapply wext_upd; eauto. }
  apply (J_dc_release _ o h J0).
  - simpl. intros r rd b len h' Hrd Hop K ->.
    destruct (j_r _ _ Jo r rd Hrd Hop) as (_ & Hk). rewrite K in Hk. destruct Hk as (i' & _ & Hhd & _). congruence.
  - simpl. intros w' wr' stg h' i' Hw' Hps' ->. apply nth_upd_cases in Hw'.
    destruct Hw' as [(-> & -> & _)|[Hne Hw']]; [simpl in Hps'; discriminate|].
    destruct (j_w _ _ Jo _ _ Hw') as (Hs' & _). unfold stage_ok in Hs'. rewrite Hps' in Hs'.
    destruct Hs' as (_ & Hhd & _). congruence.
Qed.

(* ---- readers ---- *)
Lemma J_mark_closed s o r rd : J s o -> nth_error (readers s) r = Some rd ->
  J (set_readers s (R.upd (readers s) r (rd_close rd))) o.
Proof.
  intros Jo Hr. destruct Jo. constructor; simpl; try assumption.
  intros r' rd' H Hop. apply nth_upd_cases in H. destruct H as [(-> & -> & _)|[Hne H]]; [discriminate|].
  eapply reader_ok_frame; [| | | | | | | | | |apply j_r0; eauto]; auto.
Qed.

Lemma J_closer_buf s o r rd b len h : J s o -> nth_error (readers s) r = Some rd -> r_open rd = true ->
  r_kind rd = RBuf b len h ->
  exists o', J (dc_release (set_readers s (R.upd (readers s) r (rd_close rd))) h) o'.
Proof.
  intros Jo Hr Hop K.
  destruct (j_r _ _ Jo r rd Hr Hop) as (_ & Hk). rewrite K in Hk. destruct Hk as (i & _ & Hhd & _).
  apply (J_dc_release _ o h (J_mark_closed s o r rd Jo Hr)).
  - simpl. intros r' rd' b' len' h' Hrd' Hop' K' ->. apply nth_upd_cases in Hrd'.
    destruct Hrd' as [(-> & -> & _)|[Hne Hrd']]; [discriminate|].
    destruct (j_r _ _ Jo r' rd' Hrd' Hop') as (_ & Hk'). rewrite K' in Hk'. destruct Hk' as (i' & _ & Hhd' & _). congruence.
  - simpl. intros w' wr' stg h' i' Hw' Hps' ->.
    destruct (j_w _ _ Jo _ _ Hw') as (Hs' & _). unfold stage_ok in Hs'. rewrite Hps' in Hs'.
    destruct Hs' as (_ & Hhd' & _). congruence.
Qed.

(* appending a reader record together with the ownership entry it claims *)
Lemma J_add_reader s o o' rd :
  J s o -> bo o' = bo o ->
  (forall w wr stg h i, nth_error (writers s) w = Some wr -> w_ps wr = PStage stg h i -> hd o h = HWriter w -> hd o' h = HWriter w) ->
  (forall r rd0 b len h, nth_error (readers s) r = Some rd0 -> r_open rd0 = true -> r_kind rd0 = RBuf b len h ->
       hd o h = HReader r -> hd o' h = HReader r) ->
  (forall r rd0 f h, nth_error (readers s) r = Some rd0 -> r_open rd0 = true -> r_kind rd0 = RFd f h ->
       hf o h = HReader r -> hf o' h = HReader r) ->
  (forall r rd0 f c, nth_error (readers s) r = Some rd0 -> r_open rd0 = true -> r_kind rd0 = ROwn f c ->
       fo o f = FReader r -> fo o' f = FReader r) ->
  (forall j k f, nth_error (keys (fc s)) j = Some k -> R.callbacks (fc s) j = 0 -> nth_error (fval s) j = Some f ->
       fo o' f = fo o f) ->
  reader_ok (add_reader s rd) o' (length (readers s)) rd ->
  J (add_reader s rd) o'.
Proof.
  intros Jo Hbo Hw Hrb Hrf Hro Hfv Hnew. destruct Jo. constructor; simpl; try assumption.
  - rewrite Hbo. assumption.
  - rewrite Hbo. assumption.
  - intros w wr H. eapply writer_ok_frame; [| | | | |apply j_w0; exact H]; simpl; auto.
    + intros stg h i Hps. eapply Hw; eauto.
    + intros b _ _ Hb. rewrite Hbo. auto.
  - intros j k f A B C. rewrite (Hfv j k f A B C). apply j_fval0; auto.
  - intros r rd0 H Hop. destruct (Nat.eq_dec r (length (readers s))) as [->|Hne].
    + rewrite RP.nth_app_new in H. inv H. exact Hnew.
    + rewrite nth_app_other in H by exact Hne.
      eapply reader_ok_frame; [| | | | | | | | | |apply j_r0; eauto]; simpl; auto.
      * intros b len h K. eapply Hrb; eauto.
      * intros f h K. eapply Hrf; eauto.
      * intros f c K. eapply Hro; eauto.
Qed.

Lemma app_keep c c' x h i : R.hs c' = R.hs c ++ [x] -> held c h i -> held c' h i.
Proof. unfold held. intros E H. rewrite E. rewrite nth_error_app1; [exact H|]. eapply RP.nth_some_lt; eauto. Qed.

(* handles claimed in a state are older than the next handle index *)
Lemma claims_old_d s o : J s o ->
  (forall r rd b len h, nth_error (readers s) r = Some rd -> r_open rd = true -> r_kind rd = RBuf b len h -> h <> length (R.hs (dc s))) /\
  (forall w wr stg h i, nth_error (writers s) w = Some wr -> w_ps wr = PStage stg h i -> h <> length (R.hs (dc s))).
Proof.
  intros Jo. split.
  - intros r rd b len h Hr Hop K. destruct (j_r _ _ Jo r rd Hr Hop) as (_ & Hk). rewrite K in Hk.
    destruct Hk as (i & Hh & _). apply RP.nth_some_lt in Hh. lia.
  - intros w wr stg h i Hw Hps. destruct (j_w _ _ Jo _ _ Hw) as (Hs & _). unfold stage_ok in Hs. rewrite Hps in Hs.
    destruct Hs as (Hh & _). apply RP.nth_some_lt in Hh. lia.
Qed.

Lemma cached_key c k i : RP.Inv c -> R.lru_find (R.lru c) k = Some i ->
  nth_error (keys c) i = Some k /\ R.callbacks c i = 0 /\ i < length (R.ents c).
Proof.
  intros I Hf. apply RP.find_in in Hf. destruct (RP.inv_lru _ I _ _ Hf) as (e & He & Hk).
  split; [rewrite (keys_nth _ _ _ He), Hk; reflexivity|]. split.
  - apply RP.cached_not_finalized; [exact I|]. exists k. exact Hf.
  - eapply RP.nth_some_lt; eauto.
Qed.

Lemma J_get_mem s o k : J s o -> exists o', J (fst (get_mem s k)) o'.
Proof.
  intros Jo. unfold get_mem. destruct (R.step (dc s) (R.Get k)) as [c' r] eqn:E.
  destruct r as [[i fl]|]; [|simpl; eauto].
  destruct (step_get_hit _ _ _ _ _ E) as (Hf & Hhs & Hkeys).
  assert (Ec : c' = fst (R.step (dc s) (R.Get k))) by (rewrite E; reflexivity).
  pose proof (j_dc _ _ Jo) as Idc.
  destruct (cached_key _ _ _ Idc Hf) as (Hk & Hcb & Hlt).
  destruct (dval_some s o i Jo Hlt) as [b Hb].
  destruct (j_val _ _ Jo i k b Hk Hcb Hb) as (Hbo & v & Hv & Hcm).
  destruct (claims_old_d s o Jo) as [Hcr Hcw].
  set (h := length (R.hs (dc s))) in *.
  destruct (J_dc_trans s o (R.Get k) h None Jo) as (bo1 & J1 & Hbo1 & Hbufs & F1 & F2 & F3 & F4 & F5 & F6 & F7 & F8); auto.
  { intros h' i' Hh _. rewrite <- Ec. eapply app_keep; eauto. }
  { rewrite <- Ec. exact Hkeys. }
  rewrite <- Ec in *. simpl.
  set (s1 := dc_apply s c' (dval s)) in *.
  assert (Hheld : held c' h i).
  { unfold held. rewrite Hhs. unfold h. apply RP.nth_app_new. }
  assert (Hnth : nth i (dval s) 0 = b) by (apply nth_of_nth_error; exact Hb).
  assert (Hbuf : buf_at s b = v) by (unfold buf_at; apply nth_of_nth_error; exact Hv).
  rewrite Hnth, Hbuf.
  set (r := length (readers s)).
  exists (mkOwn bo1 (fo o) (fun x => if Nat.eqb x h then HReader r else hd o x) (hf o)).
  assert (Hr1 : length (readers s1) = r) by (rewrite F8; reflexivity).
  eapply J_add_reader; [exact J1|reflexivity| | | | | |]; simpl; auto.
  - intros w wr stg h' i' Hw Hps Hhd. rewrite F7 in Hw. destruct (Nat.eqb_spec h' h) as [->|_]; [|exact Hhd].
    exfalso. eapply Hcw; eauto.
  - intros r' rd0 b' len h' Hr' Hop K Hhd. rewrite F8 in Hr'. destruct (Nat.eqb_spec h' h) as [->|_]; [|exact Hhd].
    exfalso. eapply Hcr; eauto.
  - rewrite Hr1. split.
    + simpl. apply committed_W. simpl. rewrite F7. exact Hcm.
    + simpl. exists i. rewrite F1, F2. split; [exact Hheld|]. split; [rewrite Nat.eqb_refl; reflexivity|].
      split; [exact Hb|]. split; [|reflexivity].
      rewrite (Hbufs i b Hb Hlt); [exact Hv|]. eapply held_unfin; eauto. rewrite <- F1. apply (j_dc _ _ J1).
Qed.

(* rewriting one writer record while it claims a (so far unclaimed) data-cache handle *)
Lemma J_upd_writer_own s o o' w0 wr0 wr' :
  J s o -> nth_error (writers s) w0 = Some wr0 ->
  bo o' = bo o -> fo o' = fo o -> hf o' = hf o ->
  (forall w wr stg h i, nth_error (writers s) w = Some wr -> w <> w0 -> w_ps wr = PStage stg h i -> hd o h = HWriter w -> hd o' h = HWriter w) ->
  (forall r rd0 b len h, nth_error (readers s) r = Some rd0 -> r_open rd0 = true -> r_kind rd0 = RBuf b len h ->
       hd o h = HReader r -> hd o' h = HReader r) ->
  w_key wr' = w_key wr0 ->
  (w_status wr0 = WCommitted -> w_acc wr' = w_acc wr0 /\ w_status wr' = WCommitted) ->
  (w_renamed wr0 = true -> w_renamed wr' = true /\ w_file wr' = w_file wr0) ->
  writer_ok (set_w s w0 wr') o' w0 wr' ->
  J (set_w s w0 wr') o'.
Proof.
  intros Jo H0 Hbo Hfo Hhf Hwcl Hrcl Hk Hc Hr Hok.
  assert (E : wext (writers s) (R.upd (writers s) w0 wr')) by (eapply wext_upd; eauto).
  assert (Hl : w0 < length (writers s)) by (eapply RP.nth_some_lt; eauto).
  set (s' := set_w s w0 wr') in *.
  assert (Hcm : forall k v, committed s k v -> committed s' k v).
  { intros k v. apply committed_ext. exact E. }
  destruct Jo. constructor; simpl; rewrite ?Hbo, ?Hfo; try assumption.
  - intros i k b A B C. destruct (j_val0 i k b A B C) as (P & v & Q1 & Q2). split; [exact P|]. exists v. split; [exact Q1|auto].
  - intros w wr H. apply nth_upd_cases in H. destruct H as [(-> & -> & _)|[Hne H]]; [exact Hok|].
    eapply writer_ok_frame; [| | | | |apply j_w0; exact H]; simpl; auto.
    + intros stg h i Hps. eapply Hwcl; eauto.
    + intros b _ _ Hb. rewrite Hbo. auto.
  - intros k w H. destruct (j_dir0 _ _ H) as (wr & A & B & C). destruct (E _ _ A) as (wr2 & A2 & B2 & _ & D2).
    exists wr2. split; [exact A2|]. split; [congruence|]. apply D2; exact C.
  - intros f w op H. destruct (j_fds0 _ _ _ H) as (wr & A & B). destruct (E _ _ A) as (wr2 & A2 & _ & _ & D2).
    exists wr2. split; [exact A2|apply D2; exact B].
  - intros j k f A B C. destruct (j_fval0 j k f A B C) as (P & w & wr & Q1 & Q2 & Q3). split; [exact P|].
    destruct (E _ _ Q2) as (wr2 & A2 & B2 & _). exists w, wr2. repeat split; auto; congruence.
  - intros r rd A B. eapply reader_ok_frame; [| | | | | | | | | |apply j_r0; eauto]; simpl; auto.
    + intros b len h K. eapply Hrcl; eauto.
    + intros f h K. rewrite Hhf. auto.
    + intros f k v _. apply fd_good_ext. exact E.
    + intros f c K. rewrite Hfo. auto.
Qed.

(* a Commit that fails before publishing anything (closed cache, MkdirAll failure): the writer is simply dead *)
Lemma J_fail_commit s o w wr : J s o -> nth_error (writers s) w = Some wr -> w_status wr = WOpen ->
  J (set_w s w (wr_status wr WAborted)) o.
Proof.
  intros Jo Hw Hop. pose proof (j_w _ _ Jo _ _ Hw) as (Hs & Hr & Ho). destruct (Ho Hop) as (Hren & Hps & Hb).
  rewrite <- (set_dir_same s) at 1.
  eapply (J_upd_writer s o w wr); [exact Jo|exact Hw|reflexivity| | | |].
  - rewrite Hop. discriminate.
  - rewrite Hren. discriminate.
  - auto.
  - rewrite set_dir_same. split; [|split].
    + unfold stage_ok. simpl. rewrite Hps. exact I.
    + simpl. rewrite Hren. discriminate.
    + simpl. discriminate.
Qed.

Lemma J_commit s o w mk : J s o -> exists o', J (do_commit s w mk) o'.
Proof.
  intros Jo. unfold do_commit. destruct (nth_error (writers s) w) as [wr|] eqn:Hw; [|eauto].
  destruct (w_active wr) eqn:Hact; [|eauto]. pose proof (active_open _ Hact) as Hop.
  pose proof (j_w _ _ Jo _ _ Hw) as (Hs & Hr & Ho). destruct (Ho Hop) as (Hren & Hps & Hb).
  assert (Hwl : w < length (writers s)) by (eapply RP.nth_some_lt; eauto).
  destruct (closed s); [exists o; eapply J_fail_commit; eauto|].
  destruct (w_buf wr) as [b|] eqn:Hbuf.
  2:{ (* direct writer: rename *)
    destruct mk; [|exists o; eapply J_fail_commit; eauto].
    exists o. eapply (J_upd_writer s o w wr); [exact Jo|exact Hw|reflexivity| | | |].
    - rewrite Hop. discriminate.
    - rewrite Hren. discriminate.
    - intros k w' [Hin|Hin]; [|left; exact Hin]. inv Hin. right. auto.
    - split; [|split].
      + unfold stage_ok. simpl. rewrite Hps. exact I.
      + simpl. intros _. exists w. eexists. split; [simpl; apply RP.nth_upd_eq; exact Hwl|]. simpl. auto.
      + simpl. discriminate. }
  destruct Hb as (B1 & B2 & B3).
  set (wr0 := wr_status wr WCommitted).
  set (s0 := set_w s w wr0).
  assert (J0 : J s0 o).
  { unfold s0. rewrite <- (set_dir_same s) at 1.
    eapply (J_upd_writer s o w wr); [exact Jo|exact Hw|reflexivity| | | |].
    - rewrite Hop. discriminate.
    - rewrite Hren. discriminate.
    - auto.
    - rewrite set_dir_same. split; [|split].
      + unfold stage_ok. simpl. rewrite Hps. exact I.
      + simpl. rewrite Hren. discriminate.
      + simpl. discriminate. }
  assert (Hw0 : nth_error (writers s0) w = Some wr0) by (simpl; apply RP.nth_upd_eq; exact Hwl).
  assert (Hcm0 : committed s0 (w_key wr) (w_acc wr)).
  { exists w, wr0. split; [exact Hw0|]. simpl. auto. }
  assert (Hnow : forall w' wr', nth_error (writers s0) w' = Some wr' -> w_status wr' = WOpen -> w_buf wr' <> Some b).
  { intros w' wr' H Hopen Hb'. destruct (j_w _ _ J0 _ _ H) as (_ & _ & Ho'). destruct (Ho' Hopen) as (_ & _ & C).
    rewrite Hb' in C. destruct C as (C1 & _). rewrite B1 in C1. inv C1. rewrite Hw0 in H. inv H. discriminate. }
  assert (Ed : dc s0 = dc s) by reflexivity. assert (Edv : dval s0 = dval s) by reflexivity.
  rewrite Ed, Edv.
  destruct (R.step (dc s) (R.Add (w_key wr))) as [c' r] eqn:E.
  assert (Ec : c' = fst (R.step (dc s0) (R.Add (w_key wr)))) by (rewrite Ed, E; reflexivity).
  destruct (step_add_res _ _ _ _ E) as (i & added & -> & Hhs & Hcase).
  pose proof (j_dc _ _ J0) as Idc. rewrite Ed in Idc.
  assert (Idc' : RP.Inv c') by (rewrite Ec, Ed; apply RP.step_inv; exact Idc).
  destruct (claims_old_d s0 o J0) as [Hcr Hcw]. rewrite Ed in Hcr, Hcw.
  set (h := length (R.hs (dc s))) in *.
  assert (Hheld : held c' h i) by (unfold held; rewrite Hhs; unfold h; apply RP.nth_app_new).
  set (wrF := wr_ps wr0 (PStage 0 h i)).
  (* the final step: the writer claims handle h *)
  assert (Hfinal : forall s2 o2, J s2 o2 -> dc s2 = c' -> writers s2 = writers s0 -> readers s2 = readers s0 ->
             nth_error (keys c') i = Some (w_key wr) ->
             exists o', J (set_w s2 w wrF) o').
  { intros s2 o2 J2 F1 F7 F8 Hki.
    exists (mkOwn (bo o2) (fo o2) (fun x => if Nat.eqb x h then HWriter w else hd o2 x) (hf o2)).
    eapply (J_upd_writer_own s2 o2 _ w wr0); try reflexivity; [exact J2|rewrite F7; exact Hw0| | | | |]; simpl.
    - intros w' wr' stg h' i' Hw' Hne Hps' Hhd. rewrite F7 in Hw'. destruct (Nat.eqb_spec h' h) as [->|_]; [|exact Hhd].
      exfalso. eapply Hcw; eauto.
    - intros r' rd0 b' len h' Hr' Hop' K Hhd. rewrite F8 in Hr'. destruct (Nat.eqb_spec h' h) as [->|_]; [|exact Hhd].
      exfalso. eapply Hcr; eauto.
    - auto.
    - auto.
    - split; [|split].
      + unfold stage_ok. simpl. rewrite F1, Nat.eqb_refl. repeat split; auto; discriminate.
      + simpl. rewrite Hren. discriminate.
      + simpl. discriminate. }
  destruct Hcase as [(-> & Hf & Hkeys)|(-> & Hf & -> & Hkeys)].
  - (* key already cached: our buffer goes back to the pool *)
    destruct (J_dc_trans s0 o (R.Add (w_key wr)) h None J0) as (bo1 & J1 & Hbo1 & _ & F1 & F2 & F3 & F4 & F5 & F6 & F7 & F8); auto.
    { intros h' i' Hh _. rewrite <- Ec. eapply app_keep; eauto. }
    { rewrite <- Ec. exact Hkeys. }
    rewrite <- Ec in *. rewrite Edv in *.
    set (s1 := dc_apply s0 c' (dval s)) in *.
    assert (Hb1 : bo1 b = BWriter w) by (rewrite Hbo1; [exact B1|intros i'; congruence|exact I]).
    set (o1 := mkOwn bo1 (fo o) (hd o) (hf o)) in *.
    assert (Hlt1 : b < length (bufs s1)).
    { destruct (j_w _ _ J1 w wr0) as (_ & _ & _); [rewrite F7; exact Hw0|].
      (* the buffer exists: it is still allocated *)
      destruct (nth_error (bufs s1) b) eqn:Eb; [eapply RP.nth_some_lt; eauto|].
      exfalso. clear - Eb J1 Hb1 B2 Jo.
      (* recycle never shrinks the buffer table *)
      apply nth_error_None in Eb. unfold s1, dc_apply in Eb.
      destruct (recycle_all_spec (map (fun i0 : nat => nth i0 (dval s) 0) (finalised (dc s0) c')) (set_dc s0 c' (dval s)))
        as (_ & _ & _ & _ & _ & _ & _ & _ & _ & A10 & _). rewrite A10 in Eb. simpl in Eb.
      apply RP.nth_some_lt in B2. lia. }
    assert (J2 : J (recycle s1 b) (mkOwn (fun x => if Nat.eqb x b then BFree else bo1 x) (fo o1) (hd o1) (hf o1))).
    { eapply (J_chg s1 o1 _ _ (length (writers s1))); try reflexivity; [exact J1| | | | |]; simpl.
      - apply wext_refl.
      - auto.
      - intros wr' H. exfalso. apply RP.nth_some_lt in H. lia.
      - intros b' Hc. destruct (Nat.eqb_spec b' b) as [Eb|Hne]; [subst b'|].
        + destruct (priv_of_owner s1 o1 b w J1 (or_introl Hb1)) as [P1 P2]. split; [exact P1|].
          intros w' wr' _ Hw' Hop' Hb'. rewrite F7 in Hw'. eapply Hnow; eauto.
        + rewrite RP.nth_upd_ne in Hc by auto. destruct Hc; congruence.
      - destruct (j_pool _ _ J1) as [Hnd Hp]. simpl in Hp. split.
        + constructor; [|exact Hnd]. intros Hin. destruct (Hp _ Hin). congruence.
        + intros b' [<-|Hin].
          * rewrite Nat.eqb_refl. split; [reflexivity|]. apply RP.nth_upd_eq. exact Hlt1.
          * destruct (Hp _ Hin) as [P1 P2]. destruct (Nat.eqb_spec b' b) as [Eb|Hne]; [subst b'; congruence|].
            split; [exact P1|]. rewrite RP.nth_upd_ne by auto. exact P2. }
    eapply Hfinal; [exact J2| | | |]; simpl; auto.
    destruct (cached_key _ _ _ Idc Hf) as (Hk & _). rewrite Hkeys. exact Hk.
  - (* new entry: our buffer becomes the cached value *)
    destruct (J_dc_trans s0 o (R.Add (w_key wr)) h (Some (w_key wr, b)) J0) as (bo1 & J1 & _ & _ & F1 & F2 & F3 & F4 & F5 & F6 & F7 & F8); auto.
    { intros h' i' Hh _. rewrite <- Ec. eapply app_keep; eauto. }
    { rewrite <- Ec. split; [exact Hkeys|]. split; [eapply held_unfin; eauto|]. split; [eauto|]. split; [exact Hnow|].
      exists (w_acc wr). split; [exact B2|exact Hcm0]. }
    rewrite <- Ec in *. rewrite Edv in *.
    eapply Hfinal; [exact J1| | | |]; auto.
    rewrite Hkeys. rewrite <- keys_length. apply RP.nth_app_new.
Qed.

(* ------------------------------------------------------------------------------------------ *)
(* the descriptor cache                                                                         *)
(* ------------------------------------------------------------------------------------------ *)
Lemma fval_some s o j : J s o -> j < length (R.ents (fc s)) -> exists f, nth_error (fval s) j = Some f.
Proof.
  intros Jo Hj. destruct (nth_error (fval s) j) as [f|] eqn:E; [eauto|].
  apply nth_error_None in E. rewrite (j_fl _ _ Jo) in E. lia.
Qed.

Lemma J_fc_trans s o rop hrel newv :
  J s o ->
  (forall h' j, held (fc s) h' j -> h' <> hrel -> held (fst (R.step (fc s) rop)) h' j) ->
  (forall r rd f h, nth_error (readers s) r = Some rd -> r_open rd = true -> r_kind rd = RFd f h -> h <> hrel) ->
  match newv with
  | None => keys (fst (R.step (fc s) rop)) = keys (fc s)
  | Some (k, f) => keys (fst (R.step (fc s) rop)) = keys (fc s) ++ [k]
        /\ R.callbacks (fst (R.step (fc s) rop)) (length (R.ents (fc s))) = 0
        /\ (forall j, fo o f <> FValue j)
        /\ (forall r rd c, nth_error (readers s) r = Some rd -> r_open rd = true -> r_kind rd <> ROwn f c)
        /\ (exists w wr, nth_error (fds s) f = Some (w, true) /\ nth_error (writers s) w = Some wr /\ w_key wr = k)
  end ->
  let c' := fst (R.step (fc s) rop) in
  let fv := match newv with None => fval s | Some (_, f) => fval s ++ [f] end in
  let s1 := fc_apply s c' fv in
  exists fo1, J s1 (mkOwn (bo o) fo1 (hd o) (hf o))
     /\ (forall f, (forall j, fo o f <> FValue j) -> match newv with Some (_, f0) => f <> f0 | None => True end ->
            fo1 f = fo o f /\ nth_error (fds s1) f = nth_error (fds s) f)
     /\ dc s1 = dc s /\ dval s1 = dval s /\ fc s1 = c' /\ fval s1 = fv /\ bufs s1 = bufs s /\ pool s1 = pool s /\ dir s1 = dir s
     /\ writers s1 = writers s /\ readers s1 = readers s /\ length (fds s1) = length (fds s).
Proof.
  intros Jo Hkeep Hrd Hnew.
  pose proof (j_fc _ _ Jo) as Ifc.
  destruct (fin_facts (fc s) rop Ifc) as (I' & Hlog & Hnd & Hfin1 & Hfin0).
  remember (fst (R.step (fc s) rop)) as c' eqn:Ec. intros c'' fv s1. subst c''.
  set (fin := finalised (fc s) c') in *.
  set (fs := map (fun j => nth j fv 0) fin).
  assert (Hs1 : s1 = fold_left close_fd fs (set_fc s c' fv)) by reflexivity.
  destruct (close_all_spec fs (set_fc s c' fv)) as (A1 & A2 & A3 & A4 & A5 & A6 & A7 & A8 & A9 & A10 & A11 & A12).
  rewrite <- Hs1 in *. simpl in A1, A2, A3, A4, A5, A6, A7, A8, A9, A10, A11, A12.
  assert (Hlen' : length (R.ents c') = length fv).
  { rewrite <- keys_length. unfold fv. destruct newv as [[k f]|].
    - destruct Hnew as (Hk & _). rewrite Hk, !app_length, keys_length, (j_fl _ _ Jo). reflexivity.
    - rewrite Hnew, keys_length, (j_fl _ _ Jo). reflexivity. }
  assert (Hfv_old : forall j f, nth_error (fval s) j = Some f -> nth_error fv j = Some f).
  { intros j f H. unfold fv. destruct newv as [[k f0]|]; [|exact H].
    rewrite nth_error_app1; [exact H|]. eapply RP.nth_some_lt; eauto. }
  assert (Hkeys_old : forall j k, nth_error (keys (fc s)) j = Some k -> nth_error (keys c') j = Some k).
  { intros j k H. destruct newv as [[k0 f0]|].
    - destruct Hnew as (Hk & _). rewrite Hk. rewrite nth_error_app1; [exact H|]. eapply RP.nth_some_lt; eauto.
    - rewrite Hnew. exact H. }
  assert (K1 : forall j, In j fin -> j < length (R.ents (fc s))).
  { intros j Hin. destruct (Hfin1 _ Hin) as [_ H1].
    assert (Hlt : j < length (R.ents c')).
    { apply (RP.inv_log _ I'). rewrite Hlog. apply in_or_app. right. exact Hin. }
    destruct newv as [[k f]|].
    - destruct Hnew as (Hk & Hcb & _). rewrite <- keys_length, Hk, app_length, keys_length in Hlt. simpl in Hlt.
      destruct (Nat.eq_dec j (length (R.ents (fc s)))) as [->|Hne]; [congruence|lia].
    - rewrite <- keys_length, Hnew, keys_length in Hlt. exact Hlt. }
  assert (K2 : forall j, In j fin -> exists f k, nth_error (keys (fc s)) j = Some k /\ nth_error (fval s) j = Some f
                 /\ nth j fv 0 = f /\ fo o f = FValue j).
  { intros j Hin. pose proof (K1 _ Hin) as Hlt. destruct (Hfin1 _ Hin) as [H0 _].
    destruct (fval_some s o j Jo Hlt) as [f Hf].
    destruct (nth_error (keys (fc s)) j) as [k|] eqn:Hk.
    2:{ apply nth_error_None in Hk. rewrite keys_length in Hk. lia. }
    destruct (j_fval _ _ Jo j k f Hk H0 Hf) as (P & _).
    exists f, k. repeat split; auto. apply nth_of_nth_error. apply Hfv_old. exact Hf. }
  assert (K3 : forall x, In x fs -> exists j, In j fin /\ nth_error (fval s) j = Some x /\ fo o x = FValue j).
  { intros x Hin. apply in_map_iff in Hin. destruct Hin as (j & Hx & Hin).
    destruct (K2 _ Hin) as (f & k & B1 & B2 & B3 & B4). exists j. rewrite <- Hx, B3. auto. }
  assert (K5 : forall j f, nth_error (fval s) j = Some f -> j < length (R.ents (fc s)) -> R.callbacks c' j = 0 ->
               R.callbacks (fc s) j = 0 /\ ~ In f fs).
  { intros j f Hf Hlt Hcb.
    assert (Hni : ~ In j fin) by (intros Hin; destruct (Hfin1 _ Hin); congruence).
    rewrite (Hfin0 _ Hni) in Hcb. split; [exact Hcb|]. intros Hin.
    destruct (K3 _ Hin) as (j' & Hin' & Hf' & Hfo').
    destruct (nth_error (keys (fc s)) j) as [k|] eqn:Hk.
    2:{ apply nth_error_None in Hk. rewrite keys_length in Hk. lia. }
    destruct (j_fval _ _ Jo j k f Hk Hcb Hf) as (P & _). rewrite P in Hfo'. inv Hfo'. contradiction. }
  set (fo1 := fun x => if in_dec Nat.eq_dec x fs then FNone
                       else match newv with
                            | Some (_, f0) => if Nat.eqb x f0 then FValue (length (R.ents (fc s))) else fo o x
                            | None => fo o x
                            end).
  assert (Hfo1 : forall f, (forall j, fo o f <> FValue j) -> match newv with Some (_, f0) => f <> f0 | None => True end ->
                   fo1 f = fo o f /\ nth_error (fds s1) f = nth_error (fds s) f).
  { intros f Hnv Hnf.
    assert (Hnin : ~ In f fs).
    { intros Hin. destruct (K3 _ Hin) as (j & _ & _ & Hfo). eapply Hnv; eauto. }
    split; [|apply A11; exact Hnin].
    unfold fo1. destruct (in_dec Nat.eq_dec f fs) as [Hin|_]; [contradiction|].
    destruct newv as [[k f0]|]; [|reflexivity]. destruct (Nat.eqb_spec f f0); [contradiction|reflexivity]. }
  assert (Hcm : forall k v, committed s k v -> committed s1 k v).
  { intros k v H. apply committed_W. rewrite A8. exact H. }
  exists fo1. split; [|split; [exact Hfo1|repeat split; auto]].
  constructor; simpl; rewrite ?A1, ?A2, ?A3, ?A4, ?A5, ?A6, ?A7, ?A8, ?A9.
  - apply (j_dc _ _ Jo).
  - exact I'.
  - apply (j_dl _ _ Jo).
  - symmetry. exact Hlen'.
  - intros i k b B1 B2 B3. destruct (j_val _ _ Jo i k b B1 B2 B3) as (P & v & Q1 & Q2). split; [exact P|]. exists v. auto.
  - apply (j_pool _ _ Jo).
  - intros w wr Hw. eapply writer_ok_frame; [| | | | |apply (j_w _ _ Jo); exact Hw]; simpl; rewrite ?A1, ?A5; auto.
  - apply (j_dir _ _ Jo).
  - intros f w op H. destruct (A12 _ _ _ H) as [op0 H0]. apply (j_fds _ _ Jo _ _ _ H0).
  - (* j_fval *)
    intros j k f Hk Hcb Hf.
    destruct (Nat.lt_ge_cases j (length (R.ents (fc s)))) as [Hlt|Hge].
    + assert (Hf0 : nth_error (fval s) j = Some f).
      { unfold fv in Hf. destruct newv as [[k0 f0]|]; [|exact Hf]. rewrite nth_error_app1 in Hf; [exact Hf|]. rewrite (j_fl _ _ Jo). exact Hlt. }
      assert (Hk0 : nth_error (keys (fc s)) j = Some k).
      { destruct (nth_error (keys (fc s)) j) as [k1|] eqn:E.
        - rewrite (Hkeys_old _ _ E) in Hk. exact Hk.
        - apply nth_error_None in E. rewrite keys_length in E. lia. }
      destruct (K5 _ _ Hf0 Hlt Hcb) as [Hcb0 Hnin].
      destruct (j_fval _ _ Jo j k f Hk0 Hcb0 Hf0) as (P & w & wr & Q1 & Q2 & Q3).
      split.
      * unfold fo1. destruct (in_dec Nat.eq_dec f fs) as [Hin|_]; [contradiction|].
        destruct newv as [[k0 f0]|]; [|exact P]. destruct (Nat.eqb_spec f f0) as [->|_]; [|exact P].
        destruct Hnew as (_ & _ & Hnv & _). exfalso. eapply Hnv; eauto.
      * exists w, wr. rewrite A11 by exact Hnin. auto.
    + destruct newv as [[k0 f0]|].
      * destruct Hnew as (Hkk & Hcb0 & Hnv & Hnr & (w & wr & Hv1 & Hv2 & Hv3)).
        assert (Hj : j = length (R.ents (fc s))).
        { apply RP.nth_some_lt in Hf. unfold fv in Hf. rewrite app_length, (j_fl _ _ Jo) in Hf. simpl in Hf. lia. }
        subst j. unfold fv in Hf. rewrite <- (j_fl _ _ Jo) in Hf. rewrite RP.nth_app_new in Hf. inv Hf.
        rewrite Hkk in Hk. rewrite <- keys_length in Hk. rewrite RP.nth_app_new in Hk. inv Hk.
        assert (Hnin : ~ In f fs).
        { intros Hin. destruct (K3 _ Hin) as (j' & _ & _ & Hfo). eapply Hnv; eauto. }
        split.
        -- unfold fo1. destruct (in_dec Nat.eq_dec f fs) as [Hin|_]; [contradiction|]. rewrite Nat.eqb_refl. reflexivity.
        -- exists w, wr. rewrite A11 by exact Hnin. auto.
      * exfalso. apply RP.nth_some_lt in Hf. unfold fv in Hf. rewrite (j_fl _ _ Jo) in Hf. lia.
  - (* j_r *)
    intros r rd Hr Hop. pose proof (j_r _ _ Jo r rd Hr Hop) as Hok.
    eapply reader_ok_frame; [| | | | | | | | | |exact Hok]; simpl; rewrite ?A1, ?A2, ?A3, ?A4, ?A5, ?A8; auto.
    + intros f h j K Hh. apply Hkeep; [exact Hh|]. eapply Hrd; eauto.
    + intros f k v Hkind (w & wr & G1 & G2 & G3 & G4 & G5). exists w, wr. repeat split; auto.
      rewrite A11; [exact G1|]. intros Hin. destruct (K3 _ Hin) as (j' & Hin' & Hf' & Hfo').
      destruct Hok as (_ & Hk). destruct Hkind as [[h K]|[c K]]; rewrite K in Hk.
      * destruct Hk as (j & H1 & H2 & H3 & H4).
        assert (Hlt : j < length (R.ents (fc s))) by (eapply held_lt; eauto).
        assert (Hh' : held c' h j) by (apply Hkeep; [exact H1|eapply Hrd; eauto]).
        destruct (K5 j f H3 Hlt (held_unfin _ _ _ I' Hh')) as [_ Hnin]. contradiction.
      * destruct Hk as (H1 & _). congruence.
    + intros f c K Hfo. unfold fo1. destruct (in_dec Nat.eq_dec f fs) as [Hin|_].
      * destruct (K3 _ Hin) as (j' & _ & _ & Hfo'). congruence.
      * destruct newv as [[k0 f0]|]; [|exact Hfo]. destruct (Nat.eqb_spec f f0) as [->|_]; [|exact Hfo].
        destruct Hnew as (_ & _ & _ & Hnr & _). exfalso. eapply Hnr; eauto.
Qed.

Lemma J_fc_release s o h :
  J s o ->
  (forall r rd f h', nth_error (readers s) r = Some rd -> r_open rd = true -> r_kind rd = RFd f h' -> h' <> h) ->
  exists o', J (fc_release s h) o' /\ readers (fc_release s h) = readers s.
Proof.
  intros Jo Hr.
  destruct (J_fc_trans s o (R.Release h false) h None Jo) as (fo1 & J1 & _ & F); auto.
  - intros h' j. apply rel_keep.
  - apply (step_rel (fc s) h).
  - eexists. split; [exact J1|]. apply F.
Qed.

Lemma claims_old_f s o : J s o ->
  forall r rd f h, nth_error (readers s) r = Some rd -> r_open rd = true -> r_kind rd = RFd f h -> h <> length (R.hs (fc s)).
Proof.
  intros Jo r rd f h Hr Hop K. destruct (j_r _ _ Jo r rd Hr Hop) as (_ & Hk). rewrite K in Hk.
  destruct Hk as (j & Hh & _). apply RP.nth_some_lt in Hh. lia.
Qed.

Lemma J_get_fd s o k : J s o -> exists o', J (fst (get_fd s k)) o'.
Proof.
  intros Jo. unfold get_fd. destruct (R.step (fc s) (R.Get k)) as [c' r] eqn:E.
  destruct r as [[j fl]|]; [|simpl; eauto].
  destruct (step_get_hit _ _ _ _ _ E) as (Hf & Hhs & Hkeys).
  assert (Ec : c' = fst (R.step (fc s) (R.Get k))) by (rewrite E; reflexivity).
  pose proof (j_fc _ _ Jo) as Ifc.
  destruct (cached_key _ _ _ Ifc Hf) as (Hk & Hcb & Hlt).
  destruct (fval_some s o j Jo Hlt) as [f Hfv].
  destruct (j_fval _ _ Jo j k f Hk Hcb Hfv) as (Hfo & w & wr & Hfd & Hw & Hkey).
  destruct (j_fds _ _ Jo _ _ _ Hfd) as (wr2 & Hw2 & Hren). rewrite Hw in Hw2. injection Hw2 as Hwr. subst wr2.
  pose proof (claims_old_f s o Jo) as Hcr.
  set (h := length (R.hs (fc s))) in *.
  destruct (J_fc_trans s o (R.Get k) h None Jo) as (fo1 & J1 & Hfo1 & F1 & F2 & F3 & F4 & F5 & F6 & F7 & F8 & F9 & F10); auto.
  { intros h' j' Hh _. rewrite <- Ec. eapply app_keep; eauto. }
  { rewrite <- Ec. exact Hkeys. }
  rewrite <- Ec in *. simpl.
  set (s1 := fc_apply s c' (fval s)) in *.
  assert (Hheld : held c' h j) by (unfold held; rewrite Hhs; unfold h; apply RP.nth_app_new).
  assert (Hnth : nth j (fval s) 0 = f) by (apply nth_of_nth_error; exact Hfv).
  rewrite Hnth.
  assert (Hcont : fd_content s f = Some (w_file wr)).
  { unfold fd_content, file_of. rewrite Hfd, Hw. reflexivity. }
  rewrite Hcont.
  set (r := length (readers s)).
  exists (mkOwn (bo o) fo1 (hd o) (fun x => if Nat.eqb x h then HReader r else hf o x)).
  assert (Hr1 : length (readers s1) = r) by (rewrite F9; reflexivity).
  (* the cached descriptor is still open after the transition *)
  assert (Hfd1 : nth_error (fds s1) f = Some (w, true)).
  { destruct (j_fval _ _ J1 j k f) as (_ & w' & wr' & Q1 & Q2 & Q3).
    - rewrite F3. rewrite Hkeys. exact Hk.
    - rewrite F3. apply (held_unfin c' h j); [rewrite <- F3; apply (j_fc _ _ J1)|exact Hheld].
    - rewrite F4. exact Hfv.
    - simpl in Q1. destruct (j_fds _ _ J1 _ _ _ Q1) as (wr3 & _).
      (* same inode: descriptors never change their file *)
      unfold s1, fc_apply in Q1.
      destruct (close_all_spec (map (fun j0 : nat => nth j0 (fval s) 0) (finalised (fc s) c')) (set_fc s c' (fval s)))
        as (_ & _ & _ & _ & _ & _ & _ & _ & _ & _ & _ & A12).
      destruct (A12 _ _ _ Q1) as [op0 H0]. simpl in H0. rewrite Hfd in H0. inv H0. exact Q1. }
  eapply J_add_reader; [exact J1|reflexivity| | | | | |]; simpl; auto.
  - intros r' rd0 f' h' Hr' Hop K Hhf. rewrite F9 in Hr'. destruct (Nat.eqb_spec h' h) as [->|_]; [|exact Hhf].
    exfalso. eapply Hcr; eauto.
  - rewrite Hr1. split.
    + simpl. apply committed_W. simpl. rewrite F8. apply (proj1 (committed_W s _ _)).
      destruct (j_w _ _ Jo _ _ Hw) as (_ & Hrn & _). rewrite <- Hkey. apply Hrn. exact Hren.
    + simpl. exists j. rewrite F3, F4. split; [exact Hheld|]. split; [rewrite Nat.eqb_refl; reflexivity|].
      split; [exact Hfv|]. exists w, wr. rewrite F8. auto.
Qed.

Lemma J_get_open s o k d : J s o -> exists o', J (fst (get_open s k d)) o'.
Proof.
  intros Jo. unfold get_open. destruct (find (dir s) k) as [w|] eqn:Hf; [|simpl; eauto]. simpl.
  assert (Hin : In (k, w) (dir s)).
  { clear - Hf. induction (dir s) as [|[k' x] l IH]; simpl in *; [discriminate|].
    destruct (Nat.eqb_spec k' k) as [->|Hne]; [inv Hf; auto|right; auto]. }
  destruct (j_dir _ _ Jo _ _ Hin) as (wr & Hw & Hkey & Hren).
  set (f := length (fds s)). set (r := length (readers s)).
  set (s1 := set_fds s (fds s ++ [(w, true)])).
  assert (J1 : J s1 o).
  { destruct Jo. constructor; simpl; try assumption.
    - intros f' w' op H. destruct (Nat.eq_dec f' (length (fds s))) as [->|Hne].
      + rewrite RP.nth_app_new in H. inv H. eauto.
      + rewrite nth_app_other in H by exact Hne. eapply j_fds0; eauto.
    - intros j k' f' A B C. destruct (j_fval0 j k' f' A B C) as (P & w' & wr' & Q1 & Q2 & Q3). split; [exact P|].
      exists w', wr'. split; [|auto]. rewrite nth_error_app1; [exact Q1|]. eapply RP.nth_some_lt; eauto.
    - intros r' rd' A B. eapply reader_ok_frame; [| | | | | | | | | |apply j_r0; eauto]; simpl; auto.
      intros f' k' v _ (w' & wr' & G1 & G2). exists w', wr'. split; [|exact G2].
      rewrite nth_error_app1; [exact G1|]. eapply RP.nth_some_lt; eauto. }
  exists (mkOwn (bo o) (fun x => if Nat.eqb x f then FReader r else fo o x) (hd o) (hf o)).
  assert (Hfile : file_of s w = w_file wr) by (unfold file_of; rewrite Hw; reflexivity).
  rewrite Hfile.
  eapply (J_add_reader s1 o); [exact J1|reflexivity| | | | | |]; simpl; auto.
  - intros r' rd0 f' c Hr' Hop K Hfo. destruct (Nat.eqb_spec f' f) as [->|_]; [|exact Hfo].
    exfalso. destruct (j_r _ _ Jo r' rd0 Hr' Hop) as (_ & Hk). rewrite K in Hk. destruct Hk as (_ & w' & wr' & G1 & _).
    apply RP.nth_some_lt in G1. unfold f in G1. lia.
  - intros j k' f' A B C. destruct (Nat.eqb_spec f' f) as [->|_]; [|reflexivity].
    exfalso. destruct (j_fval _ _ Jo j k' f A B C) as (_ & w' & wr' & G1 & _). apply RP.nth_some_lt in G1. unfold f in G1. lia.
  - split.
    + simpl. destruct (j_w _ _ Jo _ _ Hw) as (_ & Hrn & _). rewrite <- Hkey. apply Hrn. exact Hren.
    + simpl. rewrite Nat.eqb_refl. split; [reflexivity|]. exists w, wr. split; [unfold f; apply RP.nth_app_new|auto].
Qed.

(* closing a descriptor that only a (now closed) reader owned *)
Lemma J_close_own s o f r : J s o -> fo o f = FReader r ->
  (forall rd, nth_error (readers s) r = Some rd -> r_open rd = false) ->
  J (close_fd s f) o.
Proof.
  intros Jo Hfo Hcl. unfold close_fd. destruct (nth_error (fds s) f) as [[w op]|] eqn:Hf; [|exact Jo].
  destruct Jo. constructor; simpl; try assumption.
  - intros f' w' op' H. apply nth_upd_cases in H. destruct H as [(-> & H & _)|[_ H]]; [inv H|]; eapply j_fds0; eauto.
  - intros j k f' A B C. destruct (j_fval0 j k f' A B C) as (P & w' & wr' & Q1 & Q2 & Q3). split; [exact P|].
    exists w', wr'. split; [|auto]. rewrite RP.nth_upd_ne; [exact Q1|]. intros ->. congruence.
  - intros r' rd' A B. pose proof (j_r0 r' rd' A B) as Hok.
    eapply reader_ok_frame; [| | | | | | | | | |exact Hok]; simpl; auto.
    intros f' k v Hkind (w' & wr' & G1 & G2). exists w', wr'. split; [|exact G2].
    rewrite RP.nth_upd_ne; [exact G1|]. intros ->.
    destruct Hok as (_ & Hk). destruct Hkind as [[h K]|[c K]]; rewrite K in Hk.
    + destruct Hk as (j & H1 & H2 & H3 & H4).
      assert (Hlt : j < length (R.ents (fc s))) by (eapply held_lt; eauto).
      destruct (nth_error (keys (fc s)) j) as [k'|] eqn:Hk'.
      * destruct (j_fval0 j k' f' Hk' (held_unfin _ _ _ j_fc0 H1) H3) as (P & _). congruence.
      * apply nth_error_None in Hk'. rewrite keys_length in Hk'. lia.
    + destruct Hk as (H1 & _). rewrite Hfo in H1. inv H1. rewrite (Hcl _ A) in B. discriminate.
Qed.

Lemma close_fd_readers s f : readers (close_fd s f) = readers s.
Proof. unfold close_fd. destruct (nth_error (fds s) f) as [[w op]|]; reflexivity. Qed.

Lemma J_fd_put s o r k f :
  J s o -> fo o f = FReader r ->
  (forall rd, nth_error (readers s) r = Some rd -> r_open rd = false) ->
  (exists w wr, nth_error (fds s) f = Some (w, true) /\ nth_error (writers s) w = Some wr /\ w_key wr = k) ->
  exists o', J (fd_put s k f) o'.
Proof.
  intros Jo Hfo Hcl Hfd. unfold fd_put.
  destruct (R.step (fc s) (R.Add k)) as [c1 r1] eqn:E.
  assert (Ec : c1 = fst (R.step (fc s) (R.Add k))) by (rewrite E; reflexivity).
  destruct (step_add_res _ _ _ _ E) as (j & added & -> & Hhs & Hcase).
  pose proof (j_fc _ _ Jo) as Ifc.
  assert (Ifc' : RP.Inv c1) by (rewrite Ec; apply RP.step_inv; exact Ifc).
  pose proof (claims_old_f s o Jo) as Hcr.
  set (h := length (R.hs (fc s))) in *.
  assert (Hheld : held c1 h j) by (unfold held; rewrite Hhs; unfold h; apply RP.nth_app_new).
  destruct Hcase as [(-> & Hf & Hkeys)|(-> & Hf & -> & Hkeys)].
  - destruct (J_fc_trans s o (R.Add k) h None Jo) as (fo1 & J1 & Hfo1 & F1 & F2 & F3 & F4 & F5 & F6 & F7 & F8 & F9 & F10); auto.
    { intros h' j' Hh _. rewrite <- Ec. eapply app_keep; eauto. }
    { rewrite <- Ec. exact Hkeys. }
    rewrite <- Ec in *.
    set (s1 := fc_apply s c1 (fval s)) in *.
    destruct (Hfo1 f) as [Hf1 _]; [intros j'; congruence|exact I|].
    assert (J2 : J (close_fd s1 f) (mkOwn (bo o) fo1 (hd o) (hf o))).
    { eapply (J_close_own s1 _ f r); [exact J1|simpl; congruence|]. rewrite F9. exact Hcl. }
    destruct (J_fc_release _ _ h J2) as (o' & J3 & _).
    { intros r' rd' f' h' Hr' Hop K. rewrite close_fd_readers, F9 in Hr'. eapply Hcr; eauto. }
    eauto.
  - destruct Hfd as (w & wr & Hv1 & Hv2 & Hv3).
    destruct (J_fc_trans s o (R.Add k) h (Some (k, f)) Jo) as (fo1 & J1 & Hfo1 & F1 & F2 & F3 & F4 & F5 & F6 & F7 & F8 & F9 & F10); auto.
    { intros h' j' Hh _. rewrite <- Ec. eapply app_keep; eauto. }
    { rewrite <- Ec. split; [exact Hkeys|]. split; [eapply held_unfin; eauto|]. split; [intros j'; congruence|]. split.
      - intros r' rd' c Hr' Hop K. destruct (j_r _ _ Jo r' rd' Hr' Hop) as (_ & Hk). rewrite K in Hk. destruct Hk as (H1 & _).
        rewrite Hfo in H1. inv H1. rewrite (Hcl _ Hr') in Hop. discriminate.
      - eauto. }
    rewrite <- Ec in *.
    destruct (J_fc_release _ _ h J1) as (o' & J3 & _).
    { intros r' rd' f' h' Hr' Hop K. rewrite F9 in Hr'. eapply Hcr; eauto. }
    eauto.
Qed.

Lemma J_closer s o r : J s o -> exists o', J (do_closer s r) o'.
Proof.
  intros Jo. unfold do_closer. destruct (nth_error (readers s) r) as [rd|] eqn:Hr; [|eauto].
  destruct (r_open rd) eqn:Hop; [|eauto].
  pose proof (J_mark_closed s o r rd Jo Hr) as J0.
  set (s0 := set_readers s (R.upd (readers s) r (rd_close rd))) in *.
  assert (Hrl : r < length (readers s)) by (eapply RP.nth_some_lt; eauto).
  assert (Hcl : forall rd', nth_error (readers s0) r = Some rd' -> r_open rd' = false).
  { intros rd' H. simpl in H. rewrite RP.nth_upd_eq in H by exact Hrl. inv H. reflexivity. }
  destruct (j_r _ _ Jo r rd Hr Hop) as (_ & Hk).
  destruct (r_kind rd) as [b len h|f h|f c] eqn:K.
  - eapply J_closer_buf; eauto.
  - destruct Hk as (j & _ & Hhf & _).
    destruct (J_fc_release s0 o h J0) as (o' & J1 & _); [|eauto].
    simpl. intros r' rd' f' h' Hr' Hop' K' ->. apply nth_upd_cases in Hr'.
    destruct Hr' as [(-> & -> & _)|[Hne Hr']]; [discriminate|].
    destruct (j_r _ _ Jo r' rd' Hr' Hop') as (_ & Hk'). rewrite K' in Hk'. destruct Hk' as (j' & _ & Hhf' & _). congruence.
  - destruct Hk as (Hfo & w & wr & G1 & G2 & G3 & G4 & G5). destruct c.
    + eapply (J_fd_put s0 o r); eauto.
    + exists o. eapply (J_close_own s0 o f r); eauto.
Qed.

Lemma J_get s o k d : J s o -> exists o', J (fst (do_get s k d)) o'.
Proof.
  intros Jo. unfold do_get. destruct (closed s); [simpl; eauto|]. destruct d; [eapply J_get_open; exact Jo|].
  destruct (is_hit (snd (get_mem s k))); [eapply J_get_mem; exact Jo|].
  destruct (is_hit (snd (get_fd s k))); [eapply J_get_fd; exact Jo|eapply J_get_open; exact Jo].
Qed.

Theorem J_step s o op : J s o -> exists o', J (fst (step s op)) o'.
Proof.
  intros Jo. destruct op; simpl.
  - eapply J_add; exact Jo.
  - eexists. eapply J_write; exact Jo.
  - eapply J_commit; exact Jo.
  - eexists. eapply J_pwrite; exact Jo.
  - eexists. eapply J_pfail; exact Jo.
  - eexists. eapply J_prename; exact Jo.
  - eapply J_pdone; exact Jo.
  - eapply J_abort; exact Jo.
  - eexists. eapply J_closew; exact Jo.
  - eapply J_get; exact Jo.
  - eapply J_get_mem; exact Jo.
  - eapply J_get_fd; exact Jo.
  - eapply J_get_open; exact Jo.
  - eauto.
  - eapply J_closer; exact Jo.
  - eauto.
  - exists o. destruct Jo. constructor; simpl; try assumption. intros k w [].
Qed.

Theorem J_exec os : forall s o, J s o -> exists o', J (exec s os) o'.
Proof.
  induction os as [|op os IH]; intros s o Jo; simpl; [eauto|].
  destruct (J_step s o op Jo) as [o1 J1]. eapply IH; eauto.
Qed.

Theorem J_reach dcap fcap os : exists o, J (exec (init dcap fcap) os) o.
Proof. eapply J_exec. apply J_init. Qed.

(* ------------------------------------------------------------------------------------------ *)
(* Part 3: consequences                                                                         *)
(* ------------------------------------------------------------------------------------------ *)
Lemma find_in_dir l k w : find l k = Some w -> In (k, w) l.
Proof.
  induction l as [|[k' x] l IH]; simpl; [discriminate|].
  destruct (Nat.eqb_spec k' k) as [->|Hne]; intros H; [inv H; auto|right; auto].
Qed.

Lemma read_of_J s o r rd : J s o -> nth_error (readers s) r = Some rd -> r_open rd = true ->
  committed s (r_key rd) (r_val rd) /\ forall off n, read s r off n = OData (slice off n (r_val rd)).
Proof.
  intros Jo Hr Hop. destruct (j_r _ _ Jo r rd Hr Hop) as (Hcm & Hk). split; [exact Hcm|].
  intros off n. unfold read. rewrite Hr, Hop.
  destruct (r_kind rd) as [b len h|f h|f c].
  - destruct Hk as (i & _ & _ & _ & Hb & Hlen).
    assert (Hba : buf_at s b = r_val rd) by (unfold buf_at; apply nth_of_nth_error; exact Hb).
    rewrite Hba, Hlen, firstn_all. reflexivity.
  - destruct Hk as (j & _ & _ & _ & w & wr & G1 & G2 & _ & _ & G5). unfold fd_content, file_of. rewrite G1, G2, G5. reflexivity.
  - destruct Hk as (_ & w & wr & G1 & G2 & _ & _ & G5). unfold fd_content, file_of. rewrite G1, G2, G5. reflexivity.
Qed.

Lemma hit_is_committed dcap fcap os r rd :
  let s := exec (init dcap fcap) os in
  nth_error (readers s) r = Some rd -> r_open rd = true ->
  committed s (r_key rd) (r_val rd) /\ forall off n, read s r off n = OData (slice off n (r_val rd)).
Proof. intros s Hr Hop. destruct (J_reach dcap fcap os) as [o Jo]. eapply read_of_J; eauto. Qed.

(* what is linked at the final path of a key is always one complete committed value of that key *)
Lemma stored_is_committed dcap fcap os k :
  let s := exec (init dcap fcap) os in
  match do_peek s k with
  | OData v => committed s k v
  | OMiss => True
  | _ => False
  end.
Proof.
  intros s. destruct (J_reach dcap fcap os) as [o Jo]. fold s in Jo. unfold do_peek.
  destruct (find (dir s) k) as [w|] eqn:Hf; [|exact I].
  destruct (j_dir _ _ Jo _ _ (find_in_dir _ _ _ Hf)) as (wr & Hw & Hk & Hren).
  unfold file_of. rewrite Hw. destruct (j_w _ _ Jo _ _ Hw) as (_ & Hr & _). rewrite <- Hk. apply Hr. exact Hren.
Qed.

(* no recycling / closing under a reader, no recycling under a pending persist step *)
Lemma no_recycle_under_reader dcap fcap os r rd :
  let s := exec (init dcap fcap) os in
  nth_error (readers s) r = Some rd -> r_open rd = true ->
  match r_kind rd with
  | RBuf b len h =>
      nth_error (bufs s) b = Some (r_val rd) /\ ~ In b (pool s) /\
      (forall w wr, nth_error (writers s) w = Some wr -> w_status wr = WOpen -> w_buf wr <> Some b)
  | RFd f _ | ROwn f _ => fd_content s f = Some (r_val rd)
  end.
Proof.
  intros s Hr Hop. destruct (J_reach dcap fcap os) as [o Jo]. fold s in Jo.
  destruct (j_r _ _ Jo r rd Hr Hop) as (Hcm & Hk).
  destruct (r_kind rd) as [b len h|f h|f c].
  - destruct Hk as (i & Hh & _ & Hdv & Hb & _). split; [exact Hb|].
    pose proof (j_dc _ _ Jo) as Idc.
    assert (Hlt : i < length (R.ents (dc s))) by (eapply held_lt; eauto).
    destruct (nth_error (keys (dc s)) i) as [k|] eqn:Hk.
    2:{ apply nth_error_None in Hk. rewrite keys_length in Hk. lia. }
    destruct (j_val _ _ Jo i k b Hk (held_unfin _ _ _ Idc Hh) Hdv) as (Hbo & _).
    split.
    + intros Hin. destruct (j_pool _ _ Jo) as [_ Hp]. destruct (Hp _ Hin). congruence.
    + intros w wr Hw Hopw Hbuf. destruct (j_w _ _ Jo _ _ Hw) as (_ & _ & Ho'). destruct (Ho' Hopw) as (_ & _ & C).
      rewrite Hbuf in C. destruct C as (C1 & _). congruence.
  - destruct Hk as (j & _ & _ & _ & w & wr & G1 & G2 & _ & _ & G5). unfold fd_content, file_of. rewrite G1, G2, G5. reflexivity.
  - destruct Hk as (_ & w & wr & G1 & G2 & _ & _ & G5). unfold fd_content, file_of. rewrite G1, G2, G5. reflexivity.
Qed.

Lemma no_recycle_under_persist dcap fcap os w wr stg h i :
  let s := exec (init dcap fcap) os in
  nth_error (writers s) w = Some wr -> w_ps wr = PStage stg h i ->
  exists b, nth_error (dval s) i = Some b /\ committed s (w_key wr) (cached_bytes s i) /\ ~ In b (pool s) /\
      (forall w' wr', nth_error (writers s) w' = Some wr' -> w_status wr' = WOpen -> w_buf wr' <> Some b).
Proof.
  intros s Hw Hps. destruct (J_reach dcap fcap os) as [o Jo]. fold s in Jo.
  destruct (j_w _ _ Jo _ _ Hw) as (Hs & _). unfold stage_ok in Hs. rewrite Hps in Hs.
  destruct Hs as (S1 & _ & _ & S4 & _).
  destruct (held_value s o h i _ Jo S1 S4) as (b & v & Hb & Hbo & Hv & Hcm & Hcb).
  exists b. split; [exact Hb|]. split; [rewrite Hcb; exact Hcm|]. split.
  - intros Hin. destruct (j_pool _ _ Jo) as [_ Hp]. destruct (Hp _ Hin). congruence.
  - intros w' wr' Hw' Hopw Hbuf. destruct (j_w _ _ Jo _ _ Hw') as (_ & _ & Ho'). destruct (Ho' Hopw) as (_ & _ & C).
    rewrite Hbuf in C. destruct C as (C1 & _). congruence.
Qed.

(* the pool only ever holds empty buffers, each once: what Add hands out is clean *)
Lemma pool_clean dcap fcap os :
  let s := exec (init dcap fcap) os in
  NoDup (pool s) /\ forall b, In b (pool s) -> nth_error (bufs s) b = Some [].
Proof.
  intros s. destruct (J_reach dcap fcap os) as [o Jo]. fold s in Jo. destruct (j_pool _ _ Jo) as [Hnd Hp].
  split; [exact Hnd|]. intros b Hin. apply (Hp _ Hin).
Qed.

(* ------------------------------------------------------------------------------------------ *)
(* MemoryCache                                                                                  *)
(* ------------------------------------------------------------------------------------------ *)
Definition mwbuf (s : mst) (w : nat) : bytes := match nth_error (m_ws s) w with Some wr => mw_buf wr | None => [] end.

Record MJ (s : mst) : Prop := mkMJ {
  mj_w : forall w wr, nth_error (m_ws s) w = Some wr -> mw_buf wr = mw_acc wr;
  mj_map : forall k w, In (k, w) (m_map s) -> exists wr, nth_error (m_ws s) w = Some wr /\ mw_key wr = k /\ mw_status wr = WCommitted;
  mj_r : forall r rd, nth_error (m_rs s) r = Some rd -> mr_open rd = true ->
           exists wr, nth_error (m_ws s) (mr_w rd) = Some wr /\ mw_key wr = mr_key rd /\ mw_status wr = WCommitted
                      /\ mw_buf wr = mr_val rd /\ mr_len rd = length (mr_val rd)
}.

Lemma MJ_init : MJ minit.
Proof.
  constructor; simpl.
  - intros w wr H. rewrite nth_nil in H. discriminate.
  - intros k w [].
  - intros r rd H. rewrite nth_nil in H. discriminate.
Qed.

Lemma mactive_open wr : mw_active wr = true -> mw_status wr = WOpen.
Proof. unfold mw_active. destruct (mw_status wr); auto; discriminate. Qed.

(* rewriting one writer record that is not committed yet, or keeping key/buf/status of a committed one *)
Lemma MJ_upd s w0 wr0 wr' mp :
  MJ s -> nth_error (m_ws s) w0 = Some wr0 ->
  mw_buf wr' = mw_acc wr' -> mw_key wr' = mw_key wr0 ->
  (mw_status wr0 = WCommitted -> mw_status wr' = WCommitted /\ mw_buf wr' = mw_buf wr0) ->
  (forall k w, In (k, w) mp -> In (k, w) (m_map s) \/ (w = w0 /\ k = mw_key wr' /\ mw_status wr' = WCommitted)) ->
  MJ (mkMst mp (R.upd (m_ws s) w0 wr') (m_rs s)).
Proof.
  intros M H0 Hb Hk Hc Hm. assert (Hl : w0 < length (m_ws s)) by (eapply RP.nth_some_lt; eauto).
  destruct M. constructor; simpl.
  - intros w wr H. apply nth_upd_cases in H. destruct H as [(-> & -> & _)|[_ H]]; eauto.
  - intros k w H. destruct (Hm _ _ H) as [Hin|(-> & -> & Hs)].
    + destruct (mj_map0 _ _ Hin) as (wr & A & B & C). destruct (Nat.eq_dec w w0) as [->|Hne].
      * rewrite H0 in A. inv A. exists wr'. split; [apply RP.nth_upd_eq; exact Hl|]. split; [exact Hk|apply Hc; exact C].
      * exists wr. rewrite RP.nth_upd_ne by auto. auto.
    + exists wr'. split; [apply RP.nth_upd_eq; exact Hl|auto].
  - intros r rd H Hop. destruct (mj_r0 r rd H Hop) as (wr & A & B & C & D & E).
    destruct (Nat.eq_dec (mr_w rd) w0) as [Heq|Hne].
    + rewrite Heq in *. rewrite H0 in A. inv A. destruct (Hc C) as [C' D']. exists wr'.
      split; [apply RP.nth_upd_eq; exact Hl|]. repeat split; auto; congruence.
    + exists wr. rewrite RP.nth_upd_ne by auto. auto.
Qed.

Lemma MJ_step s o : MJ s -> MJ (fst (mstep s o)).
Proof.
  intros M. destruct o; simpl; try exact M.
  - (* Add *) destruct M. constructor; simpl.
    + intros w wr H. destruct (Nat.eq_dec w (length (m_ws s))) as [->|Hne].
      * rewrite RP.nth_app_new in H. inv H. reflexivity.
      * rewrite nth_app_other in H by exact Hne. eauto.
    + intros k' w H. destruct (mj_map0 _ _ H) as (wr & A & B). exists wr. split; [|exact B].
      rewrite nth_error_app1; [exact A|]. eapply RP.nth_some_lt; eauto.
    + intros r rd H Hop. destruct (mj_r0 r rd H Hop) as (wr & A & B). exists wr. split; [|exact B].
      rewrite nth_error_app1; [exact A|]. eapply RP.nth_some_lt; eauto.
  - (* Write *) destruct (nth_error (m_ws s) w) as [wr|] eqn:Hw; [|exact M].
    destruct (mw_active wr) eqn:Ha; [|exact M]. pose proof (mactive_open _ Ha) as Hop. simpl.
    eapply MJ_upd; eauto; simpl; try (rewrite Hop; discriminate); try (apply (mj_w _ M _ _ Hw)); auto.
    rewrite (mj_w _ M _ _ Hw). reflexivity.
  - (* Commit *) destruct (nth_error (m_ws s) w) as [wr|] eqn:Hw; [|exact M].
    destruct (mw_active wr) eqn:Ha; [|exact M]. pose proof (mactive_open _ Ha) as Hop. simpl.
    eapply MJ_upd; eauto; simpl; try (rewrite Hop; discriminate); try (apply (mj_w _ M _ _ Hw)); auto.
    intros k w' [H|H]; [inv H; right; auto|left; exact H].
  - (* Abort *) destruct (nth_error (m_ws s) w) as [wr|] eqn:Hw; [|exact M].
    destruct (mw_active wr) eqn:Ha; [|exact M]. pose proof (mactive_open _ Ha) as Hop. simpl.
    eapply MJ_upd; eauto; simpl; try (rewrite Hop; discriminate); try (apply (mj_w _ M _ _ Hw)); auto.
  - (* CloseW *) destruct (nth_error (m_ws s) w) as [wr|] eqn:Hw; [|exact M]. simpl.
    eapply MJ_upd; eauto; simpl; try (apply (mj_w _ M _ _ Hw)); auto.
  - (* Get *) unfold m_get. destruct (find (m_map s) k) as [w|] eqn:Hf; [|exact M]. simpl.
    destruct (mj_map _ M _ _ (find_in_dir _ _ _ Hf)) as (wr & A & B & C). rewrite A.
    destruct M. constructor; simpl; auto.
    intros r rd H Hop. destruct (Nat.eq_dec r (length (m_rs s))) as [->|Hne].
    + rewrite RP.nth_app_new in H. inv H. simpl. exists wr. auto.
    + rewrite nth_app_other in H by exact Hne. eauto.
  - (* GetMem *) unfold m_get. destruct (find (m_map s) k) as [w|] eqn:Hf; [|exact M]. simpl.
    destruct (mj_map _ M _ _ (find_in_dir _ _ _ Hf)) as (wr & A & B & C). rewrite A.
    destruct M. constructor; simpl; auto.
    intros r rd H Hop. destruct (Nat.eq_dec r (length (m_rs s))) as [->|Hne].
    + rewrite RP.nth_app_new in H. inv H. simpl. exists wr. auto.
    + rewrite nth_app_other in H by exact Hne. eauto.
  - (* ReadAt *) destruct (nth_error (m_rs s) r) as [rd|]; [|exact M]. destruct (mr_open rd); exact M.
  - (* CloseR *) destruct (nth_error (m_rs s) r) as [rd|] eqn:Hr; [|exact M]. simpl.
    destruct M. constructor; simpl; auto.
    intros r' rd' H Hop. apply nth_upd_cases in H. destruct H as [(-> & -> & _)|[_ H]]; [discriminate|eauto].
Qed.

Lemma MJ_reach os : MJ (mexec minit os).
Proof.
  assert (H : forall s, MJ s -> MJ (mexec s os)).
  { induction os as [|o os IH]; intros s M; simpl; [exact M|]. apply IH. apply MJ_step. exact M. }
  apply H. apply MJ_init.
Qed.

Lemma mem_hit_is_committed os r rd :
  let s := mexec minit os in
  nth_error (m_rs s) r = Some rd -> mr_open rd = true ->
  mcommitted s (mr_key rd) (mr_val rd) /\
  forall off n, snd (mstep s (ReadAt r off n)) = OData (slice off n (mr_val rd)).
Proof.
  intros s Hr Hop. pose proof (MJ_reach os) as M. fold s in M.
  destruct (mj_r _ M r rd Hr Hop) as (wr & A & B & C & D & E). split.
  - exists (mr_w rd), wr. repeat split; auto. rewrite <- (mj_w _ M _ _ A). exact D.
  - intros off n. simpl. rewrite Hr, Hop. simpl. rewrite A, D, E, firstn_all. reflexivity.
Qed.

(* ------------------------------------------------------------------------------------------ *)
(* a reader record is never rewritten except by its own Close: key, kind and value are fixed    *)
(* ------------------------------------------------------------------------------------------ *)
Lemma readers_dc_apply s c dv : readers (dc_apply s c dv) = readers s.
Proof. unfold dc_apply. destruct (recycle_all_spec (map (fun i => nth i dv 0) (finalised (dc s) c)) (set_dc s c dv)) as (_ & _ & _ & _ & _ & _ & _ & A8 & _). exact A8. Qed.
Lemma readers_fc_apply s c fv : readers (fc_apply s c fv) = readers s.
Proof. unfold fc_apply. destruct (close_all_spec (map (fun j => nth j fv 0) (finalised (fc s) c)) (set_fc s c fv)) as (_ & _ & _ & _ & _ & _ & _ & _ & A9 & _). exact A9. Qed.

Definition rstep_shape (rs rs' : list reader) : Prop :=
  rs' = rs \/ (exists rd, rs' = rs ++ [rd]) \/ (exists r rd, nth_error rs r = Some rd /\ rs' = R.upd rs r (rd_close rd)).

Lemma get_mem_readers s k : rstep_shape (readers s) (readers (fst (get_mem s k))).
Proof.
  unfold get_mem. destruct (R.step (dc s) (R.Get k)) as [c' [[i fl]|]]; simpl; [|left; reflexivity].
  right. left. rewrite readers_dc_apply. eauto.
Qed.
Lemma get_fd_readers s k : rstep_shape (readers s) (readers (fst (get_fd s k))).
Proof.
  unfold get_fd. destruct (R.step (fc s) (R.Get k)) as [c' [[i fl]|]]; simpl; [|left; reflexivity].
  right. left. rewrite readers_fc_apply. eauto.
Qed.
Lemma get_open_readers s k d : rstep_shape (readers s) (readers (fst (get_open s k d))).
Proof. unfold get_open. destruct (find (dir s) k); simpl; [right; left; eauto|left; reflexivity]. Qed.

Lemma step_readers s o : rstep_shape (readers s) (readers (fst (step s o))).
Proof.
  destruct o; simpl.
  - left. unfold do_add. destruct (closed s); [reflexivity|]. destruct direct; [reflexivity|]. unfold take_buf.
    destruct pick as [b|]; [destruct (existsb _ _)|]; reflexivity.
  - left. unfold do_write. destruct (nth_error _ _) as [wr|]; [|reflexivity]. destruct (w_active wr); [|reflexivity].
    destruct (w_buf wr); reflexivity.
  - left. unfold do_commit. destruct (nth_error _ _) as [wr|]; [|reflexivity]. destruct (w_active wr); [|reflexivity].
    destruct (closed s); [reflexivity|].
    destruct (w_buf wr) as [b|]; [|destruct mk; reflexivity].
    destruct (R.step _ _) as [c' [[i added]|]]; [|reflexivity].
    destruct added; simpl; rewrite readers_dc_apply; reflexivity.
  - left. unfold do_pwrite. destruct (nth_error _ _) as [wr|]; [|reflexivity]. destruct (w_ps wr) as [|[|?] ? ?]; reflexivity.
  - left. unfold do_pfail. destruct (nth_error _ _) as [wr|]; [|reflexivity]. destruct (w_ps wr) as [|[|?] ? ?]; reflexivity.
  - left. unfold do_prename. destruct (nth_error _ _) as [wr|]; [|reflexivity]. destruct (w_ps wr) as [|[|[|?]] ? ?]; try reflexivity.
    destruct (mk && negb (closed s)); reflexivity.
  - left. unfold do_pdone. destruct (nth_error _ _) as [wr|]; [|reflexivity]. destruct (w_ps wr) as [|[|[|[|?]]] ? ?]; try reflexivity.
    unfold dc_release. rewrite readers_dc_apply. reflexivity.
  - left. unfold do_abort. destruct (nth_error _ _) as [wr|]; [|reflexivity]. destruct (w_active wr); [|reflexivity].
    destruct (w_buf wr); reflexivity.
  - left. unfold do_closew. destruct (nth_error _ _); reflexivity.
  - unfold do_get. destruct (closed s); [left; reflexivity|]. destruct direct; [apply get_open_readers|].
    destruct (is_hit _); [apply get_mem_readers|]. destruct (is_hit _); [apply get_fd_readers|apply get_open_readers].
  - apply get_mem_readers.
  - apply get_fd_readers.
  - apply get_open_readers.
  - left. reflexivity.
  - unfold do_closer. destruct (nth_error (readers s) r) as [rd|] eqn:Hr; [|left; reflexivity].
    destruct (r_open rd); [|left; reflexivity]. right. right. exists r, rd. split; [exact Hr|].
    destruct (r_kind rd) as [b len h|f h|f [|]].
    + unfold dc_release. rewrite readers_dc_apply. reflexivity.
    + unfold fc_release. rewrite readers_fc_apply. reflexivity.
    + unfold fd_put. destruct (R.step _ _) as [c1 [[j added]|]]; [|reflexivity].
      unfold fc_release. rewrite readers_fc_apply. destruct added; [|rewrite close_fd_readers]; rewrite readers_fc_apply; reflexivity.
    + rewrite close_fd_readers. reflexivity.
  - left. reflexivity.
  - left. reflexivity.
Qed.

Definition same_reader (rd rd' : reader) : Prop :=
  r_key rd' = r_key rd /\ r_val rd' = r_val rd /\ r_kind rd' = r_kind rd /\ (r_open rd' = true -> r_open rd = true).

Lemma reader_fixed os : forall s r rd, nth_error (readers s) r = Some rd ->
  exists rd', nth_error (readers (exec s os)) r = Some rd' /\ same_reader rd rd'.
Proof.
  induction os as [|o os IH]; intros s r rd Hr; simpl.
  - exists rd. split; [exact Hr|]. unfold same_reader. auto.
  - assert (H1 : exists rd1, nth_error (readers (fst (step s o))) r = Some rd1 /\ same_reader rd rd1).
    { destruct (step_readers s o) as [E|[(x & E)|(r0 & rd0 & H0 & E)]]; rewrite E.
      - exists rd. split; [exact Hr|]. unfold same_reader. auto.
      - exists rd. split; [|unfold same_reader; auto]. rewrite nth_error_app1; [exact Hr|]. eapply RP.nth_some_lt; eauto.
      - destruct (Nat.eq_dec r r0) as [->|Hne].
        + rewrite Hr in H0. inv H0. exists (rd_close rd0). split; [apply RP.nth_upd_eq; eapply RP.nth_some_lt; eauto|].
          unfold same_reader. simpl. repeat split; auto. discriminate.
        + exists rd. split; [|unfold same_reader; auto]. rewrite RP.nth_upd_ne by auto. exact Hr. }
    destruct H1 as (rd1 & Hr1 & S1). destruct (IH _ _ _ Hr1) as (rd2 & Hr2 & S2).
    exists rd2. split; [exact Hr2|]. unfold same_reader in *. destruct S1 as (A1 & A2 & A3 & A4). destruct S2 as (B1 & B2 & B3 & B4).
    repeat split; try congruence. auto.
Qed.

Lemma exec_app s os1 os2 : exec s (os1 ++ os2) = exec (exec s os1) os2.
Proof. unfold exec. apply fold_left_app. Qed.

(* the full statement: from the moment a reader exists until its Close, every ReadAt returns the slice of ONE value,
   fixed when the reader was created, which a writer had committed under the reader's key *)
Lemma hit_fixed dcap fcap os1 os2 r rd :
  let s1 := exec (init dcap fcap) os1 in
  let s2 := exec s1 os2 in
  nth_error (readers s1) r = Some rd ->
  (exists rd2, nth_error (readers s2) r = Some rd2 /\ r_key rd2 = r_key rd /\ r_val rd2 = r_val rd) /\
  (forall rd2, nth_error (readers s2) r = Some rd2 -> r_open rd2 = true ->
     committed s1 (r_key rd) (r_val rd) /\ forall off n, read s2 r off n = OData (slice off n (r_val rd))).
Proof.
  intros s1 s2 Hr. destruct (reader_fixed os2 s1 r rd Hr) as (rd2 & Hr2 & Hk & Hv & _ & Hop). fold s2 in Hr2.
  split; [exists rd2; auto|]. intros rd2' Hr2' Hop2. rewrite Hr2 in Hr2'. inv Hr2'.
  split.
  - apply (hit_is_committed dcap fcap os1 r rd Hr (Hop Hop2)).
  - assert (E : s2 = exec (init dcap fcap) (os1 ++ os2)) by (unfold s2, s1; rewrite exec_app; reflexivity).
    intros off n. rewrite <- Hv. rewrite E. apply (hit_is_committed dcap fcap (os1 ++ os2) r rd2'); [rewrite <- E; exact Hr2|exact Hop2].
Qed.

(* a lookup that reports a hit has created exactly one new open reader for the requested key; a miss creates none *)
Lemma get_open_out s k d :
  match snd (get_open s k d) with
  | OHit => exists rd, readers (fst (get_open s k d)) = readers s ++ [rd] /\ r_key rd = k /\ r_open rd = true
  | OMiss => fst (get_open s k d) = s
  | _ => False
  end.
Proof. unfold get_open. destruct (find (dir s) k); simpl; eauto. Qed.
Lemma get_mem_out s k :
  match snd (get_mem s k) with
  | OHit => exists rd, readers (fst (get_mem s k)) = readers s ++ [rd] /\ r_key rd = k /\ r_open rd = true
  | OMiss => fst (get_mem s k) = s
  | _ => False
  end.
Proof.
  unfold get_mem. destruct (R.step (dc s) (R.Get k)) as [c' [[i fl]|]]; simpl; [|reflexivity].
  rewrite readers_dc_apply. eauto.
Qed.
Lemma get_fd_out s k :
  match snd (get_fd s k) with
  | OHit => exists rd, readers (fst (get_fd s k)) = readers s ++ [rd] /\ r_key rd = k /\ r_open rd = true
  | OMiss => fst (get_fd s k) = s
  | _ => False
  end.
Proof.
  unfold get_fd. destruct (R.step (fc s) (R.Get k)) as [c' [[i fl]|]]; simpl; [|reflexivity].
  rewrite readers_fc_apply. eauto.
Qed.

Lemma get_out s k d :
  match snd (step s (Get k d)) with
  | OHit => exists rd, readers (fst (step s (Get k d))) = readers s ++ [rd] /\ r_key rd = k /\ r_open rd = true
  | OMiss => fst (step s (Get k d)) = s
  | _ => False
  end.
Proof.
  simpl. unfold do_get. destruct (closed s); [reflexivity|]. destruct d; [apply get_open_out|].
  pose proof (get_mem_out s k) as H1. destruct (snd (get_mem s k)) eqn:E1; simpl; try contradiction; [|rewrite E1; exact H1].
  pose proof (get_fd_out s k) as H2. destruct (snd (get_fd s k)) eqn:E2; simpl; try contradiction; [|rewrite E2; exact H2].
  apply get_open_out.
Qed.

(* ------------------------------------------------------------------------------------------ *)
(* the history variable w_acc really is the concatenation of the writer's Writes                *)
(* ------------------------------------------------------------------------------------------ *)
Lemma writers_dc_apply s c dv : writers (dc_apply s c dv) = writers s.
Proof. unfold dc_apply. destruct (recycle_all_spec (map (fun i => nth i dv 0) (finalised (dc s) c)) (set_dc s c dv)) as (_ & _ & _ & _ & _ & _ & A7 & _). exact A7. Qed.
Lemma writers_fc_apply s c fv : writers (fc_apply s c fv) = writers s.
Proof. unfold fc_apply. destruct (close_all_spec (map (fun j => nth j fv 0) (finalised (fc s) c)) (set_fc s c fv)) as (_ & _ & _ & _ & _ & _ & _ & A8 & _). exact A8. Qed.
Lemma close_fd_writers s f : writers (close_fd s f) = writers s.
Proof. unfold close_fd. destruct (nth_error (fds s) f) as [[w op]|]; reflexivity. Qed.

Definition acc_step (o : op) (w : nat) (wr wr' : writer) : Prop :=
  w_key wr' = w_key wr /\
  (w_acc wr' = w_acc wr \/ exists bs, o = Write w bs /\ w_status wr = WOpen /\ w_acc wr' = w_acc wr ++ bs).

Lemma acc_upd (ws : list writer) o w0 wr0 wr1 w wr wr' :
  nth_error ws w0 = Some wr0 -> w_key wr1 = w_key wr0 -> w_acc wr1 = w_acc wr0 ->
  nth_error ws w = Some wr -> nth_error (R.upd ws w0 wr1) w = Some wr' -> acc_step o w wr wr'.
Proof.
  intros H0 Hk Ha Hw Hw'. apply nth_upd_cases in Hw'. destruct Hw' as [(-> & -> & _)|[_ Hw']].
  - rewrite H0 in Hw. inv Hw. split; auto.
  - rewrite Hw in Hw'. inv Hw'. split; auto.
Qed.

Lemma acc_same (ws : list writer) o w wr wr' : nth_error ws w = Some wr -> nth_error ws w = Some wr' -> acc_step o w wr wr'.
Proof. intros H H'. rewrite H in H'. inv H'. split; auto. Qed.

Lemma acc_app (ws : list writer) o x w wr wr' : nth_error ws w = Some wr -> nth_error (ws ++ [x]) w = Some wr' -> acc_step o w wr wr'.
Proof. intros H H'. rewrite nth_error_app1 in H' by (eapply RP.nth_some_lt; eauto). eapply acc_same; eauto. Qed.

Ltac acc_u H0 Hw := let H' := fresh "H'" in intros H'; eapply acc_upd; [exact H0| | |exact Hw|exact H']; reflexivity.
Ltac acc_s Hw := let H' := fresh "H'" in intros H'; eapply acc_same; [exact Hw|exact H'].

Lemma step_acc s o w wr wr' :
  nth_error (writers s) w = Some wr -> nth_error (writers (fst (step s o))) w = Some wr' -> acc_step o w wr wr'.
Proof.
  intros Hw. destruct o; simpl.
  - unfold do_add. destruct (closed s); [simpl; acc_s Hw|]. destruct direct; simpl; [apply acc_app; exact Hw|]. unfold take_buf.
    destruct pick as [b|]; [destruct (existsb _ _)|]; simpl; apply acc_app; exact Hw.
  - unfold do_write. destruct (nth_error (writers s) w0) as [wr0|] eqn:H0; [|acc_s Hw].
    destruct (w_active wr0) eqn:Ha; [|acc_s Hw]. pose proof (active_open _ Ha) as Hop.
    assert (Hgen : forall wr1, w_key wr1 = w_key wr0 -> w_acc wr1 = w_acc wr0 ++ bs ->
                     nth_error (R.upd (writers s) w0 wr1) w = Some wr' -> acc_step (Write w0 bs) w wr wr').
    { intros wr1 Hk Ha1 H. apply nth_upd_cases in H. destruct H as [(-> & -> & _)|[_ H]].
      - rewrite H0 in Hw. inv Hw. split; [exact Hk|]. right. exists bs. auto.
      - rewrite Hw in H. inv H. split; auto. }
    destruct (w_buf wr0); simpl; apply Hgen; reflexivity.
  - unfold do_commit. destruct (nth_error (writers s) w0) as [wr0|] eqn:H0; [|acc_s Hw].
    destruct (w_active wr0); [|acc_s Hw].
    destruct (closed s); [simpl; acc_u H0 Hw|].
    destruct (w_buf wr0) as [b|]; [|destruct mk; simpl; acc_u H0 Hw].
    destruct (R.step _ _) as [c' [[i added]|]]; [|acc_s Hw].
    assert (Hl : w0 < length (writers s)) by (eapply RP.nth_some_lt; eauto).
    destruct added; simpl; rewrite writers_dc_apply; simpl; rewrite RP.upd_upd; acc_u H0 Hw.
  - unfold do_pwrite. destruct (nth_error (writers s) w0) as [wr0|] eqn:H0; [|acc_s Hw].
    destruct (w_ps wr0) as [|[|?] ? ?]; try (acc_s Hw). simpl. acc_u H0 Hw.
  - unfold do_pfail. destruct (nth_error (writers s) w0) as [wr0|] eqn:H0; [|acc_s Hw].
    destruct (w_ps wr0) as [|[|?] ? ?]; try (acc_s Hw). simpl. acc_u H0 Hw.
  - unfold do_prename. destruct (nth_error (writers s) w0) as [wr0|] eqn:H0; [|acc_s Hw].
    destruct (w_ps wr0) as [|[|[|?]] ? ?]; try (acc_s Hw). destruct (mk && negb (closed s)); simpl; acc_u H0 Hw.
  - unfold do_pdone. destruct (nth_error (writers s) w0) as [wr0|] eqn:H0; [|acc_s Hw].
    destruct (w_ps wr0) as [|[|[|[|?]]] ? ?]; try (acc_s Hw).
    unfold dc_release. rewrite writers_dc_apply. simpl. acc_u H0 Hw.
  - unfold do_abort. destruct (nth_error (writers s) w0) as [wr0|] eqn:H0; [|acc_s Hw].
    destruct (w_active wr0); [|acc_s Hw]. destruct (w_buf wr0); simpl; acc_u H0 Hw.
  - unfold do_closew. destruct (nth_error (writers s) w0) as [wr0|] eqn:H0; [|acc_s Hw].
    simpl. acc_u H0 Hw.
  - assert (Hm : writers (fst (get_mem s k)) = writers s).
    { unfold get_mem. destruct (R.step _ _) as [c' [[i fl]|]]; simpl; [apply writers_dc_apply|reflexivity]. }
    assert (Hf : writers (fst (get_fd s k)) = writers s).
    { unfold get_fd. destruct (R.step _ _) as [c' [[i fl]|]]; simpl; [apply writers_fc_apply|reflexivity]. }
    assert (Ho : forall d, writers (fst (get_open s k d)) = writers s).
    { intros d. unfold get_open. destruct (find _ _); reflexivity. }
    unfold do_get. destruct (closed s); [simpl; acc_s Hw|]. destruct direct; [rewrite Ho; acc_s Hw|].
    destruct (is_hit _); [rewrite Hm; acc_s Hw|]. destruct (is_hit _); [rewrite Hf|rewrite Ho]; acc_s Hw.
  - unfold get_mem. destruct (R.step _ _) as [c' [[i fl]|]]; simpl; [rewrite writers_dc_apply|]; acc_s Hw.
  - unfold get_fd. destruct (R.step _ _) as [c' [[i fl]|]]; simpl; [rewrite writers_fc_apply|]; acc_s Hw.
  - unfold get_open. destruct (find _ _); simpl; acc_s Hw.
  - acc_s Hw.
  - unfold do_closer. destruct (nth_error (readers s) r) as [rd|]; [|acc_s Hw].
    destruct (r_open rd); [|acc_s Hw].
    destruct (r_kind rd) as [b len h|f h|f [|]].
    + unfold dc_release. rewrite writers_dc_apply. simpl. acc_s Hw.
    + unfold fc_release. rewrite writers_fc_apply. simpl. acc_s Hw.
    + unfold fd_put. destruct (R.step _ _) as [c1 [[j added]|]]; [|simpl; acc_s Hw].
      unfold fc_release. rewrite writers_fc_apply. destruct added; [|rewrite close_fd_writers]; rewrite writers_fc_apply; simpl; acc_s Hw.
    + rewrite close_fd_writers. simpl. acc_s Hw.
  - acc_s Hw.
  - simpl. acc_s Hw.
Qed.

(* a writer is born with an empty accumulator *)
Lemma step_new_writer s o w wr' :
  nth_error (writers s) w = None -> nth_error (writers (fst (step s o))) w = Some wr' ->
  w_acc wr' = [] /\ w_status wr' = WOpen /\ exists k d p, o = Add k d p /\ w_key wr' = k.
Proof.
  intros Hn H.
  assert (Hsame : forall ws, ws = writers s -> nth_error ws w = Some wr' -> False) by (intros ws -> H'; congruence).
  assert (Hupd : forall w0 x, nth_error (R.upd (writers s) w0 x) w = Some wr' -> False).
  { intros w0 x H'. apply RP.nth_some_lt in H'. rewrite RP.upd_length in H'. apply nth_error_None in Hn. lia. }
  assert (Hlen : forall s', length (writers s') = length (writers s) -> nth_error (writers s') w = Some wr' -> False).
  { intros s' El H'. apply RP.nth_some_lt in H'. apply nth_error_None in Hn. lia. }
  destruct o; simpl in H.
  - assert (Hadd : forall x, nth_error (writers s ++ [x]) w = Some wr' -> wr' = x).
    { intros x H'. destruct (Nat.eq_dec w (length (writers s))) as [->|Hne].
      - rewrite RP.nth_app_new in H'. inv H'. reflexivity.
      - rewrite nth_app_other in H' by exact Hne. congruence. }
    unfold do_add in H. destruct (closed s); [simpl in H; congruence|]. destruct direct.
    + simpl in H. apply Hadd in H. subst. simpl. eauto 8.
    + unfold take_buf in H. destruct pick as [b|]; [destruct (existsb _ _)|]; simpl in H; apply Hadd in H; subst; simpl; eauto 8.
  - exfalso. eapply Hlen; [|exact H]. unfold do_write. destruct (nth_error (writers s) w0) as [wr0|]; [|reflexivity].
    destruct (w_active wr0); [|reflexivity]. destruct (w_buf wr0); simpl; apply RP.upd_length.
  - exfalso. eapply Hlen; [|exact H]. unfold do_commit. destruct (nth_error (writers s) w0) as [wr0|]; [|reflexivity].
    destruct (w_active wr0); [|reflexivity]. destruct (closed s); [simpl; apply RP.upd_length|].
    destruct (w_buf wr0); [|destruct mk; simpl; apply RP.upd_length].
    destruct (R.step _ _) as [c' [[i added]|]]; [|reflexivity].
    destruct added; simpl; rewrite writers_dc_apply; simpl; rewrite !RP.upd_length; reflexivity.
  - exfalso. eapply Hlen; [|exact H]. unfold do_pwrite. destruct (nth_error (writers s) w0) as [wr0|]; [|reflexivity].
    destruct (w_ps wr0) as [|[|?] ? ?]; try reflexivity. simpl. apply RP.upd_length.
  - exfalso. eapply Hlen; [|exact H]. unfold do_pfail. destruct (nth_error (writers s) w0) as [wr0|]; [|reflexivity].
    destruct (w_ps wr0) as [|[|?] ? ?]; try reflexivity. simpl. apply RP.upd_length.
  - exfalso. eapply Hlen; [|exact H]. unfold do_prename. destruct (nth_error (writers s) w0) as [wr0|]; [|reflexivity].
    destruct (w_ps wr0) as [|[|[|?]] ? ?]; try reflexivity. destruct (mk && negb (closed s)); simpl; apply RP.upd_length.
  - exfalso. eapply Hlen; [|exact H]. unfold do_pdone. destruct (nth_error (writers s) w0) as [wr0|]; [|reflexivity].
    destruct (w_ps wr0) as [|[|[|[|?]]] ? ?]; try reflexivity. unfold dc_release. rewrite writers_dc_apply. simpl. apply RP.upd_length.
  - exfalso. eapply Hlen; [|exact H]. unfold do_abort. destruct (nth_error (writers s) w0) as [wr0|]; [|reflexivity].
    destruct (w_active wr0); [|reflexivity]. destruct (w_buf wr0); simpl; apply RP.upd_length.
  - exfalso. eapply Hlen; [|exact H]. unfold do_closew. destruct (nth_error (writers s) w0) as [wr0|]; [|reflexivity]. simpl. apply RP.upd_length.
  - exfalso. eapply Hlen; [|exact H].
    assert (Hm : writers (fst (get_mem s k)) = writers s).
    { unfold get_mem. destruct (R.step _ _) as [c' [[i fl]|]]; simpl; [apply writers_dc_apply|reflexivity]. }
    assert (Hf : writers (fst (get_fd s k)) = writers s).
    { unfold get_fd. destruct (R.step _ _) as [c' [[i fl]|]]; simpl; [apply writers_fc_apply|reflexivity]. }
    assert (Ho : forall d, writers (fst (get_open s k d)) = writers s).
    { intros d. unfold get_open. destruct (find _ _); reflexivity. }
    unfold do_get. destruct (closed s); [reflexivity|]. destruct direct; [rewrite Ho; reflexivity|].
    destruct (is_hit _); [rewrite Hm; reflexivity|]. destruct (is_hit _); [rewrite Hf|rewrite Ho]; reflexivity.
  - exfalso. eapply Hlen; [|exact H]. unfold get_mem. destruct (R.step _ _) as [c' [[i fl]|]]; simpl; [rewrite writers_dc_apply|]; reflexivity.
  - exfalso. eapply Hlen; [|exact H]. unfold get_fd. destruct (R.step _ _) as [c' [[i fl]|]]; simpl; [rewrite writers_fc_apply|]; reflexivity.
  - exfalso. eapply Hlen; [|exact H]. unfold get_open. destruct (find _ _); reflexivity.
  - congruence.
  - exfalso. eapply Hlen; [|exact H]. unfold do_closer. destruct (nth_error (readers s) r) as [rd|]; [|reflexivity].
    destruct (r_open rd); [|reflexivity].
    destruct (r_kind rd) as [b len h|f h|f [|]].
    + unfold dc_release. rewrite writers_dc_apply. reflexivity.
    + unfold fc_release. rewrite writers_fc_apply. reflexivity.
    + unfold fd_put. destruct (R.step _ _) as [c1 [[j added]|]]; [|reflexivity].
      unfold fc_release. rewrite writers_fc_apply. destruct added; [|rewrite close_fd_writers]; rewrite writers_fc_apply; reflexivity.
    + rewrite close_fd_writers. reflexivity.
  - congruence.
  - congruence.
Qed.

Lemma acc_is_written s o w wr' :
  nth_error (writers (fst (step s o))) w = Some wr' ->
  match nth_error (writers s) w with
  | Some wr => w_key wr' = w_key wr /\
               (w_acc wr' = w_acc wr \/
                exists bs, o = Write w bs /\ w_status wr = WOpen /\ w_acc wr' = w_acc wr ++ bs)
  | None => w_acc wr' = [] /\ w_status wr' = WOpen /\ exists k d p, o = Add k d p /\ w_key wr' = k
  end.
Proof.
  intros H. destruct (nth_error (writers s) w) as [wr|] eqn:E.
  - exact (step_acc s o w wr wr' E H).
  - exact (step_new_writer s o w wr' E H).
Qed.

(* ------------------------------------------------------------------------------------------ *)
(* cache.Close(): afterwards the API never hits and nothing is linked in the directory any more *)
(* ------------------------------------------------------------------------------------------ *)
Lemma closed_fold {A} (f : st -> A -> st) l : (forall s a, closed (f s a) = closed s) -> forall s, closed (fold_left f l s) = closed s.
Proof. intros Hf. induction l as [|a l IH]; intros s; simpl; [reflexivity|]. rewrite IH. apply Hf. Qed.
Lemma closed_close_fd s f : closed (close_fd s f) = closed s.
Proof. unfold close_fd. destruct (nth_error (fds s) f) as [[w op]|]; reflexivity. Qed.
Lemma closed_dc_apply s c dv : closed (dc_apply s c dv) = closed s.
Proof. unfold dc_apply. rewrite closed_fold; [reflexivity|]. intros; reflexivity. Qed.
Lemma closed_fc_apply s c fv : closed (fc_apply s c fv) = closed s.
Proof. unfold fc_apply. rewrite closed_fold; [reflexivity|]. intros; apply closed_close_fd. Qed.
Lemma dir_dc_apply s c dv : dir (dc_apply s c dv) = dir s.
Proof. unfold dc_apply. destruct (recycle_all_spec (map (fun i => nth i dv 0) (finalised (dc s) c)) (set_dc s c dv)) as (_ & _ & _ & _ & _ & A6 & _). exact A6. Qed.
Lemma dir_fc_apply s c fv : dir (fc_apply s c fv) = dir s.
Proof. unfold fc_apply. destruct (close_all_spec (map (fun j => nth j fv 0) (finalised (fc s) c)) (set_fc s c fv)) as (_ & _ & _ & _ & _ & _ & A7 & _). exact A7. Qed.
Lemma dir_close_fd s f : dir (close_fd s f) = dir s.
Proof. unfold close_fd. destruct (nth_error (fds s) f) as [[w op]|]; reflexivity. Qed.

Definition shut (s : st) : Prop := closed s = true /\ dir s = [].

Lemma shut_get_mem s k : shut s -> shut (fst (get_mem s k)).
Proof. intros [C D]. unfold get_mem. destruct (R.step _ _) as [c' [[i fl]|]]; simpl; [|split; auto].
  split; simpl; [rewrite closed_dc_apply|rewrite dir_dc_apply]; auto. Qed.
Lemma shut_get_fd s k : shut s -> shut (fst (get_fd s k)).
Proof. intros [C D]. unfold get_fd. destruct (R.step _ _) as [c' [[i fl]|]]; simpl; [|split; auto].
  split; simpl; [rewrite closed_fc_apply|rewrite dir_fc_apply]; auto. Qed.
Lemma shut_get_open s k d : shut s -> fst (get_open s k d) = s.
Proof. intros [C D]. unfold get_open. rewrite D. reflexivity. Qed.

Lemma shut_step s o : shut s -> shut (fst (step s o)).
Proof.
  intros Hs. pose proof Hs as [C D]. destruct o; simpl.
  - unfold do_add. rewrite C. exact Hs.
  - unfold do_write. destruct (nth_error _ _) as [wr|]; [|exact Hs]. destruct (w_active wr); [|exact Hs].
    destruct (w_buf wr); split; assumption.
  - unfold do_commit. destruct (nth_error _ _) as [wr|]; [|exact Hs]. destruct (w_active wr); [|exact Hs].
    rewrite C. split; assumption.
  - unfold do_pwrite. destruct (nth_error _ _) as [wr|]; [|exact Hs]. destruct (w_ps wr) as [|[|?] ? ?]; try exact Hs; split; assumption.
  - unfold do_pfail. destruct (nth_error _ _) as [wr|]; [|exact Hs]. destruct (w_ps wr) as [|[|?] ? ?]; try exact Hs; split; assumption.
  - unfold do_prename. destruct (nth_error _ _) as [wr|]; [|exact Hs]. destruct (w_ps wr) as [|[|[|?]] ? ?]; try exact Hs;
    rewrite C; rewrite andb_false_r; split; assumption.
  - unfold do_pdone. destruct (nth_error _ _) as [wr|]; [|exact Hs]. destruct (w_ps wr) as [|[|[|[|?]]] ? ?]; try exact Hs;
    unfold dc_release; split; [rewrite closed_dc_apply|rewrite dir_dc_apply]; assumption.
  - unfold do_abort. destruct (nth_error _ _) as [wr|]; [|exact Hs]. destruct (w_active wr); [|exact Hs].
    destruct (w_buf wr); split; assumption.
  - unfold do_closew. destruct (nth_error _ _); [split; assumption|exact Hs].
  - unfold do_get. rewrite C. exact Hs.
  - apply shut_get_mem; exact Hs.
  - apply shut_get_fd; exact Hs.
  - rewrite shut_get_open; exact Hs.
  - exact Hs.
  - unfold do_closer. destruct (nth_error (readers s) r) as [rd|]; [|exact Hs]. destruct (r_open rd); [|exact Hs].
    destruct (r_kind rd) as [b len h|f h|f [|]].
    + unfold dc_release. split; [rewrite closed_dc_apply|rewrite dir_dc_apply]; assumption.
    + unfold fc_release. split; [rewrite closed_fc_apply|rewrite dir_fc_apply]; assumption.
    + unfold fd_put. destruct (R.step _ _) as [c1 [[j added]|]]; [|split; assumption].
      unfold fc_release. split; [rewrite closed_fc_apply|rewrite dir_fc_apply];
        (destruct added; [|rewrite ?closed_close_fd, ?dir_close_fd]); rewrite ?closed_fc_apply, ?dir_fc_apply; assumption.
    + split; [rewrite closed_close_fd|rewrite dir_close_fd]; assumption.
  - exact Hs.
  - split; reflexivity.
Qed.

Lemma shut_exec os : forall s, shut s -> shut (exec s os).
Proof. induction os as [|o os IH]; intros s Hs; simpl; [exact Hs|]. apply IH. apply shut_step. exact Hs. Qed.

Lemma after_close s0 os k d p :
  let s := exec s0 (CloseCache :: os) in
  step s (Get k d) = (s, OMiss) /\ step s (Add k d p) = (s, OErr) /\ do_peek s k = OMiss
  /\ snd (get_open s k d) = OMiss.
Proof.
  intros s. assert (Hs : shut s).
  { unfold s. simpl. apply shut_exec. split; reflexivity. }
  destruct Hs as [C D]. simpl. unfold do_get, do_add, do_peek, get_open. rewrite C, D. auto.
Qed.

(* the three lookups of a Get as stand-alone steps (other callers may run between them) *)
Definition lookup_out (s : st) (k : nat) (r : st * out) : Prop :=
  match snd r with
  | OHit => exists rd, readers (fst r) = readers s ++ [rd] /\ r_key rd = k /\ r_open rd = true
  | OMiss => fst r = s
  | _ => False
  end.

Lemma lookup_steps_out s k d :
  lookup_out s k (step s (GetMem k)) /\ lookup_out s k (step s (GetFd k)) /\ lookup_out s k (step s (GetOpen k d)).
Proof. unfold lookup_out. simpl. split; [apply get_mem_out|]. split; [apply get_fd_out|apply get_open_out]. Qed.
