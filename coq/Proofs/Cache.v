(* Proofs about Model/Cache.v (C11).
   Part 1: facts about one transition of the refcounted cache of C10 (keys, handles, finalisations).
   Part 2: the ownership invariant of the directory cache and its preservation by every sub-step.
   Part 3: consequences (hit_is_committed, no recycle under a reader, ...), MemoryCache. *)
From Coq Require Import List Arith NArith ZArith Bool Lia.
From SV Require Import Model.Cache.
From SV Require Proofs.Refcache.
Import ListNotations.
Module RP := SV.Proofs.Refcache.

Lemma slice_nil off n : slice off n [] = [].
Proof. unfold slice. rewrite skipn_nil, firstn_nil. reflexivity. Qed.

(* ------------------------------------------------------------------------------------------ *)
(* Part 1: refcache transitions                                                                 *)
(* ------------------------------------------------------------------------------------------ *)
Definition keys (c : R.st) : list nat := map R.e_key (R.ents c).

Lemma upd_same {A} (l : list A) i x : nth_error l i = Some x -> R.upd l i x = l.
Proof. revert i; induction l as [|a l IH]; intros [|i]; simpl; intros H; try discriminate; auto.
  - inversion H; reflexivity.
  - f_equal; auto. Qed.

Lemma map_upd_same {A B} (f : A -> B) l i x e :
  nth_error l i = Some e -> f x = f e -> map f (R.upd l i x) = map f l.
Proof. revert i; induction l as [|a l IH]; intros [|i]; simpl; intros H E; try discriminate; auto.
  - inversion H; subst. rewrite E. reflexivity.
  - f_equal; eauto. Qed.

Lemma nth_upd_cases {A} (l : list A) n m x y :
  nth_error (R.upd l n x) m = Some y ->
  (m = n /\ y = x /\ n < length l) \/ (m <> n /\ nth_error l m = Some y).
Proof.
  intros H. destruct (Nat.eq_dec m n) as [->|Hne].
  - left. assert (Hl : n < length l).
    { apply RP.nth_some_lt in H. rewrite RP.upd_length in H. exact H. }
    rewrite RP.nth_upd_eq in H by exact Hl. inversion H. auto.
  - right. rewrite RP.nth_upd_ne in H by auto. auto.
Qed.

Lemma inc_keys c i : keys (R.inc c i) = keys c.
Proof. unfold keys, R.inc. destruct (nth_error (R.ents c) i) as [e|] eqn:E; [|reflexivity]. simpl.
  eapply map_upd_same; eauto. Qed.
Lemma inc_hs c i : R.hs (R.inc c i) = R.hs c.
Proof. unfold R.inc. destruct (nth_error (R.ents c) i); reflexivity. Qed.
Lemma dec_keys c i : keys (R.dec c i) = keys c.
Proof. unfold keys, R.dec. destruct (nth_error (R.ents c) i) as [e|] eqn:E; [|reflexivity].
  cbv zeta. destruct (Z.leb _ _); simpl; eapply map_upd_same; eauto. Qed.
Lemma finalize_keys c i : keys (R.finalize c i) = keys c.
Proof. unfold R.finalize. destruct (nth_error (R.ents c) i) as [e|] eqn:E; [|reflexivity].
  destruct (R.e_fin e); [reflexivity|]. rewrite dec_keys. unfold keys; simpl. eapply map_upd_same; eauto. Qed.
Lemma evict_key_keys c k : keys (R.evict_key c k) = keys c.
Proof. unfold R.evict_key. destruct (R.lru_find _ _); [|reflexivity]. rewrite finalize_keys. reflexivity. Qed.
Lemma evict_key_hs c k : R.hs (R.evict_key c k) = R.hs c.
Proof. unfold R.evict_key. destruct (R.lru_find _ _); [|reflexivity]. rewrite RP.finalize_hs. reflexivity. Qed.
Lemma trim_keys c : keys (R.trim c) = keys c.
Proof. unfold R.trim. destruct (_ && _); [|reflexivity]. destruct (last _ _) as [[k i]|]; [apply evict_key_keys|reflexivity]. Qed.
Lemma trim_hs c : R.hs (R.trim c) = R.hs c.
Proof. unfold R.trim. destruct (_ && _); [|reflexivity]. destruct (last _ _) as [[k i]|]; [apply evict_key_hs|reflexivity]. Qed.
Lemma acquire_keys c i : keys (R.acquire c i) = keys c.
Proof. unfold R.acquire. unfold keys at 1. simpl. apply inc_keys. Qed.
Lemma acquire_hs c i : R.hs (R.acquire c i) = R.hs c ++ [(i, false)].
Proof. unfold R.acquire. simpl. rewrite inc_hs. reflexivity. Qed.

Lemma step_get_hit c k i fl c' : R.step c (R.Get k) = (c', Some (i, fl)) ->
  R.lru_find (R.lru c) k = Some i /\ R.hs c' = R.hs c ++ [(i, false)] /\ keys c' = keys c.
Proof.
  simpl. destruct (R.lru_find (R.lru c) k) as [j|] eqn:Hf; intros H; inversion H; subst.
  split; [reflexivity|]. split; [rewrite acquire_hs; reflexivity|rewrite acquire_keys; reflexivity].
Qed.
Lemma step_get_miss c k c' : R.step c (R.Get k) = (c', None) -> c' = c.
Proof. simpl. destruct (R.lru_find (R.lru c) k); intros H; inversion H; reflexivity. Qed.

Lemma step_add_res c k c' r : R.step c (R.Add k) = (c', r) ->
  exists i added, r = Some (i, added) /\ R.hs c' = R.hs c ++ [(i, false)] /\
    ((added = false /\ R.lru_find (R.lru c) k = Some i /\ keys c' = keys c) \/
     (added = true /\ R.lru_find (R.lru c) k = None /\ i = length (R.ents c) /\ keys c' = keys c ++ [k])).
Proof.
  simpl. destruct (R.lru_find (R.lru c) k) as [j|] eqn:Hf; intros H; inversion H; subst; clear H.
  - exists j, false. split; [reflexivity|]. split; [rewrite acquire_hs; reflexivity|].
    left. split; [reflexivity|]. split; [reflexivity|]. rewrite acquire_keys. reflexivity.
  - exists (length (R.ents c)), true. split; [reflexivity|]. split.
    + rewrite trim_hs. simpl. rewrite inc_hs. reflexivity.
    + right. split; [reflexivity|]. split; [reflexivity|]. split; [reflexivity|]. rewrite trim_keys.
      unfold keys at 1. simpl. fold (keys (R.inc (R.set_ents c (R.ents c ++ [R.mkEnt k 1 false])) (length (R.ents c)))).
      rewrite inc_keys. unfold keys. simpl. rewrite map_app. reflexivity.
Qed.

Lemma step_rel c h : 
  keys (fst (R.step c (R.Release h false))) = keys c /\
  R.hs (fst (R.step c (R.Release h false))) =
    match nth_error (R.hs c) h with Some (i, _) => R.upd (R.hs c) h (i, true) | None => R.hs c end.
Proof.
  simpl. destruct (nth_error (R.hs c) h) as [[i fired]|] eqn:Hh; simpl; [|auto].
  destruct fired.
  - split; [reflexivity|]. symmetry. apply upd_same. exact Hh.
  - rewrite dec_keys, RP.dec_hs. simpl. auto.
Qed.

Lemma skipn_app_exact {A} (l1 l2 : list A) : skipn (length l1) (l1 ++ l2) = l2.
Proof. induction l1; simpl; auto. Qed.

Lemma callbacks_le1 c i : RP.Inv c -> R.callbacks c i <= 1.
Proof.
  intros I. destruct (nth_error (R.ents c) i) as [e|] eqn:E.
  - apply (RP.exactly_once_inv c i e I E).
  - rewrite RP.callbacks_beyond; auto. apply nth_error_None. exact E.
Qed.

Lemma fin_facts c o : RP.Inv c ->
  let c' := fst (R.step c o) in
  RP.Inv c' /\
  R.log c' = R.log c ++ finalised c c' /\ NoDup (finalised c c') /\
  (forall i, In i (finalised c c') -> R.callbacks c i = 0 /\ R.callbacks c' i = 1) /\
  (forall i, ~ In i (finalised c c') -> R.callbacks c' i = R.callbacks c i).
Proof.
  intros I c'. assert (I' : RP.Inv c') by (apply RP.step_inv; exact I).
  destruct (RP.step_log c o) as [l Hl]. fold c' in Hl.
  assert (Hfin : finalised c c' = l) by (unfold finalised; rewrite Hl; apply skipn_app_exact).
  rewrite Hfin.
  assert (Hcb : forall i, R.callbacks c' i = R.callbacks c i + count_occ Nat.eq_dec l i).
  { intros i. unfold R.callbacks. rewrite Hl. apply count_occ_app. }
  assert (Hle : forall i, count_occ Nat.eq_dec l i <= 1).
  { intros i. pose proof (callbacks_le1 c' i I'). rewrite Hcb in H. lia. }
  split; [exact I'|]. split; [exact Hl|]. split.
  - apply (NoDup_count_occ Nat.eq_dec). exact Hle.
  - split.
    + intros i Hin. apply (count_occ_In Nat.eq_dec) in Hin.
      pose proof (callbacks_le1 c' i I'). rewrite Hcb in *. specialize (Hle i). lia.
    + intros i Hni. apply (count_occ_not_In Nat.eq_dec) in Hni. rewrite Hcb. lia.
Qed.

Definition held (c : R.st) (h i : nat) : Prop := nth_error (R.hs c) h = Some (i, false).

Lemma held_live c h i : held c h i -> 0 < R.live c i.
Proof.
  unfold held, R.live. intros H. apply nth_error_In in H.
  assert (Hf : In (i, false) (filter (fun x => Nat.eqb (fst x) i && negb (snd x)) (R.hs c))).
  { apply filter_In. split; [exact H|]. simpl. rewrite Nat.eqb_refl. reflexivity. }
  destruct (filter _ _); [contradiction|simpl; lia].
Qed.

Lemma held_unfin c h i : RP.Inv c -> held c h i -> R.callbacks c i = 0.
Proof. intros I H. apply RP.held_not_finalized; [exact I|]. eapply held_live; eauto. Qed.

Lemma held_lt c h i : RP.Inv c -> held c h i -> i < length (R.ents c).
Proof. intros I H. eapply (RP.inv_hs _ I); eauto. Qed.

Lemma keys_nth c i e : nth_error (R.ents c) i = Some e -> nth_error (keys c) i = Some (R.e_key e).
Proof. intros H. unfold keys. rewrite nth_error_map, H. reflexivity. Qed.
Lemma keys_nth_inv c i k : nth_error (keys c) i = Some k -> exists e, nth_error (R.ents c) i = Some e /\ R.e_key e = k.
Proof. unfold keys. rewrite nth_error_map. destruct (nth_error (R.ents c) i) as [e|]; simpl; intros H; inversion H. eauto. Qed.
Lemma keys_length c : length (keys c) = length (R.ents c).
Proof. unfold keys. apply map_length. Qed.

(* ------------------------------------------------------------------------------------------ *)
(* Part 2: the ownership invariant                                                              *)
(* ------------------------------------------------------------------------------------------ *)
Inductive bowner := BFree | BWriter (w : nat) | BValue (i : nat).
Inductive fowner := FNone | FReader (r : nat) | FValue (j : nat).
Inductive howner := HNone | HReader (r : nat) | HWriter (w : nat).

Definition committedW (ws : list writer) (k : nat) (v : bytes) : Prop :=
  exists w wr, nth_error ws w = Some wr /\ w_key wr = k /\ w_status wr = WCommitted /\ w_acc wr = v.

Lemma committed_W s k v : committed s k v <-> committedW (writers s) k v.
Proof. reflexivity. Qed.

(* every change of the writer table keeps keys, committed values and renamed files *)
Definition wext (ws ws' : list writer) : Prop :=
  forall w wr, nth_error ws w = Some wr ->
    exists wr', nth_error ws' w = Some wr' /\ w_key wr' = w_key wr
      /\ (w_status wr = WCommitted -> w_acc wr' = w_acc wr /\ w_status wr' = WCommitted)
      /\ (w_renamed wr = true -> w_renamed wr' = true /\ w_file wr' = w_file wr).

Lemma wext_refl ws : wext ws ws.
Proof. intros w wr H. exists wr. auto. Qed.

Lemma wext_app ws x : wext ws (ws ++ [x]).
Proof. intros w wr H. exists wr. split; [|auto]. rewrite nth_error_app1; [exact H|]. eapply RP.nth_some_lt; eauto. Qed.

Lemma wext_upd ws w0 wr0 wr' : nth_error ws w0 = Some wr0 ->
  w_key wr' = w_key wr0 ->
  (w_status wr0 = WCommitted -> w_acc wr' = w_acc wr0 /\ w_status wr' = WCommitted) ->
  (w_renamed wr0 = true -> w_renamed wr' = true /\ w_file wr' = w_file wr0) ->
  wext ws (R.upd ws w0 wr').
Proof.
  intros H0 Hk Hc Hr w wr H. destruct (Nat.eq_dec w w0) as [->|Hne].
  - rewrite H0 in H. inversion H; subst. exists wr'. split; [|auto].
    apply RP.nth_upd_eq. eapply RP.nth_some_lt; eauto.
  - exists wr. split; [|auto]. rewrite RP.nth_upd_ne; auto.
Qed.

Lemma committedW_ext ws ws' k v : wext ws ws' -> committedW ws k v -> committedW ws' k v.
Proof.
  intros E (w & wr & Hn & Hk & Hs & Ha). destruct (E _ _ Hn) as (wr' & Hn' & Hk' & Hc & _).
  destruct (Hc Hs) as [Ha' Hs']. exists w, wr'. repeat split; congruence.
Qed.

Definition fd_good (fs : list (nat * bool)) (ws : list writer) (f k : nat) (v : bytes) : Prop :=
  exists w wr, nth_error fs f = Some (w, true) /\ nth_error ws w = Some wr
     /\ w_renamed wr = true /\ w_key wr = k /\ w_file wr = v.

Lemma fd_good_ext fs ws ws' f k v : wext ws ws' -> fd_good fs ws f k v -> fd_good fs ws' f k v.
Proof.
  intros E (w & wr & Hf & Hn & Hr & Hk & Hv). destruct (E _ _ Hn) as (wr' & Hn' & Hk' & _ & Hren).
  destruct (Hren Hr) as [Hr' Hf']. exists w, wr'. repeat split; congruence.
Qed.

Record own := mkOwn { bo : nat -> bowner; fo : nat -> fowner; hd : nat -> howner; hf : nat -> howner }.

Definition reader_ok (s : st) (o : own) (r : nat) (rd : reader) : Prop :=
  committed s (r_key rd) (r_val rd) /\
  match r_kind rd with
  | RBuf b len h => exists i, held (dc s) h i /\ hd o h = HReader r /\ nth_error (dval s) i = Some b
                     /\ nth_error (bufs s) b = Some (r_val rd) /\ len = length (r_val rd)
  | RFd f h => exists j, held (fc s) h j /\ hf o h = HReader r /\ nth_error (fval s) j = Some f
                     /\ fd_good (fds s) (writers s) f (r_key rd) (r_val rd)
  | ROwn f _ => fo o f = FReader r /\ fd_good (fds s) (writers s) f (r_key rd) (r_val rd)
  end.

Definition stage_ok (s : st) (o : own) (w : nat) (wr : writer) : Prop :=
  match w_ps wr with
  | PNone => True
  | PStage stg h i =>
      held (dc s) h i /\ hd o h = HWriter w /\ w_status wr = WCommitted
      /\ nth_error (keys (dc s)) i = Some (w_key wr)
      /\ (stg = 0 -> w_file wr = [] /\ w_renamed wr = false)
      /\ (stg = 1 -> committed s (w_key wr) (w_file wr))
  end.

Definition writer_ok (s : st) (o : own) (w : nat) (wr : writer) : Prop :=
  stage_ok s o w wr /\
  (w_renamed wr = true -> committed s (w_key wr) (w_file wr)) /\
  (w_status wr = WOpen -> w_renamed wr = false /\ w_ps wr = PNone /\
       match w_buf wr with
       | Some b => bo o b = BWriter w /\ nth_error (bufs s) b = Some (w_acc wr) /\ w_file wr = []
       | None => w_file wr = w_acc wr
       end).

Record J (s : st) (o : own) : Prop := mkJ {
  j_dc : RP.Inv (dc s);
  j_fc : RP.Inv (fc s);
  j_dl : length (dval s) = length (R.ents (dc s));
  j_fl : length (fval s) = length (R.ents (fc s));
  j_val : forall i k b, nth_error (keys (dc s)) i = Some k -> R.callbacks (dc s) i = 0 -> nth_error (dval s) i = Some b ->
            bo o b = BValue i /\ exists v, nth_error (bufs s) b = Some v /\ committed s k v;
  j_pool : NoDup (pool s) /\ forall b, In b (pool s) -> bo o b = BFree /\ nth_error (bufs s) b = Some [];
  j_w : forall w wr, nth_error (writers s) w = Some wr -> writer_ok s o w wr;
  j_dir : forall k w, In (k, w) (dir s) -> exists wr, nth_error (writers s) w = Some wr /\ w_key wr = k /\ w_renamed wr = true;
  j_fds : forall f w op, nth_error (fds s) f = Some (w, op) -> exists wr, nth_error (writers s) w = Some wr /\ w_renamed wr = true;
  j_fval : forall j k f, nth_error (keys (fc s)) j = Some k -> R.callbacks (fc s) j = 0 -> nth_error (fval s) j = Some f ->
            fo o f = FValue j /\ exists w wr, nth_error (fds s) f = Some (w, true) /\ nth_error (writers s) w = Some wr /\ w_key wr = k;
  j_r : forall r rd, nth_error (readers s) r = Some rd -> r_open rd = true -> reader_ok s o r rd
}.

Definition own0 : own := mkOwn (fun _ => BFree) (fun _ => FNone) (fun _ => HNone) (fun _ => HNone).

Lemma nth_nil {A} n : nth_error (@nil A) n = None.
Proof. destruct n; reflexivity. Qed.

Lemma J_init dcap fcap : J (init dcap fcap) own0.
Proof.
  constructor; simpl; try (apply RP.Inv_init); try reflexivity.
  - intros i k b H. unfold keys in H. simpl in H. rewrite nth_nil in H. discriminate.
  - split; [constructor|]. intros b [].
  - intros w wr H. rewrite nth_nil in H. discriminate.
  - intros k w [].
  - intros f w op H. rewrite nth_nil in H. discriminate.
  - intros j k f H. unfold keys in H. simpl in H. rewrite nth_nil in H. discriminate.
  - intros r rd H. rewrite nth_nil in H. discriminate.
Qed.

(* ---- frame lemmas ---- *)
Lemma writer_ok_frame s s' o o' w wr :
  (forall h i, held (dc s) h i -> hd o h = HWriter w -> held (dc s') h i /\ hd o' h = HWriter w) ->
  (forall i k, nth_error (keys (dc s)) i = Some k -> nth_error (keys (dc s')) i = Some k) ->
  (forall k v, committed s k v -> committed s' k v) ->
  (forall b, bo o b = BWriter w -> bo o' b = BWriter w /\ nth_error (bufs s') b = nth_error (bufs s) b) ->
  writer_ok s o w wr -> writer_ok s' o' w wr.
Proof.
  intros Hh Hk Hc Hb (Hs & Hr & Ho). split; [|split].
  - unfold stage_ok in *. destruct (w_ps wr) as [|stg h i]; [exact I|].
    destruct Hs as (H1 & H2 & H3 & H4 & H5 & H6). destruct (Hh _ _ H1 H2) as [H1' H2'].
    repeat split; auto; apply H5; auto.
  - auto.
  - intros Hop. destruct (Ho Hop) as (A & B & C). split; [exact A|]. split; [exact B|].
    destruct (w_buf wr) as [b|]; [|exact C]. destruct C as (C1 & C2 & C3). destruct (Hb _ C1) as [D1 D2].
    split; [exact D1|]. split; [rewrite D2; exact C2|exact C3].
Qed.

Lemma reader_ok_frame s s' o o' r rd :
  (forall k v, committed s k v -> committed s' k v) ->
  (forall h i, held (dc s) h i -> hd o h = HReader r -> held (dc s') h i /\ hd o' h = HReader r) ->
  (forall h j, held (fc s) h j -> hf o h = HReader r -> held (fc s') h j /\ hf o' h = HReader r) ->
  (forall i b, nth_error (dval s) i = Some b -> nth_error (dval s') i = Some b) ->
  (forall j f, nth_error (fval s) j = Some f -> nth_error (fval s') j = Some f) ->
  (forall b len h, r_kind rd = RBuf b len h -> nth_error (bufs s') b = nth_error (bufs s) b) ->
  (forall f k v, (exists h, r_kind rd = RFd f h) \/ (exists c, r_kind rd = ROwn f c) ->
       fd_good (fds s) (writers s) f k v -> fd_good (fds s') (writers s') f k v) ->
  (forall f, fo o f = FReader r -> fo o' f = FReader r) ->
  reader_ok s o r rd -> reader_ok s' o' r rd.
Proof.
  intros Hc Hd Hf Hdv Hfv Hb Hg Hfo (Hcm & Hk). split; [auto|].
  destruct (r_kind rd) as [b len h|f h|f c] eqn:K.
  - destruct Hk as (i & H1 & H2 & H3 & H4 & H5). destruct (Hd _ _ H1 H2) as [H1' H2'].
    exists i. repeat split; auto. rewrite (Hb b len h eq_refl). exact H4.
  - destruct Hk as (j & H1 & H2 & H3 & H4). destruct (Hf _ _ H1 H2) as [H1' H2'].
    exists j. repeat split; auto. apply Hg; [left; eauto|exact H4].
  - destruct Hk as (H1 & H2). split; [auto|]. apply Hg; [right; eauto|exact H2].
Qed.

Lemma committed_ext s s' k v : wext (writers s) (writers s') -> committed s k v -> committed s' k v.
Proof. intros E H. apply committed_W. eapply committedW_ext; eauto. Qed.

(* an op that only rewrites one writer record (and possibly links its inode into the directory) *)
Lemma J_upd_writer s o w0 wr0 wr' d' :
  J s o -> nth_error (writers s) w0 = Some wr0 ->
  w_key wr' = w_key wr0 ->
  (w_status wr0 = WCommitted -> w_acc wr' = w_acc wr0 /\ w_status wr' = WCommitted) ->
  (w_renamed wr0 = true -> w_renamed wr' = true /\ w_file wr' = w_file wr0) ->
  (forall k w, In (k, w) d' -> In (k, w) (dir s) \/ (w = w0 /\ k = w_key wr' /\ w_renamed wr' = true)) ->
  writer_ok (set_w (set_dir s d') w0 wr') o w0 wr' ->
  J (set_w (set_dir s d') w0 wr') o.
Proof.
  intros Jo H0 Hk Hc Hr Hd Hok.
  assert (E : wext (writers s) (R.upd (writers s) w0 wr')) by (eapply wext_upd; eauto).
  assert (Hl : w0 < length (writers s)) by (eapply RP.nth_some_lt; eauto).
  set (s' := set_w (set_dir s d') w0 wr') in *.
  assert (Hcm : forall k v, committed s k v -> committed s' k v).
  { intros k v. apply committed_ext. exact E. }
  destruct Jo. constructor; try assumption.
  - intros i k b A B C. destruct (j_val0 i k b A B C) as (P & v & Q1 & Q2). split; [exact P|]. exists v. split; [exact Q1|auto].
  - intros w wr H. simpl in H. apply nth_upd_cases in H. destruct H as [(-> & -> & _)|[Hne H]]; [exact Hok|].
    eapply writer_ok_frame; [| | | |apply j_w0; exact H]; auto.
  - intros k w H. simpl in H. destruct (Hd _ _ H) as [Hin|(-> & -> & Hren)].
    + destruct (j_dir0 _ _ Hin) as (wr & A & B & C). destruct (E _ _ A) as (wr2 & A2 & B2 & _ & D2).
      exists wr2. split; [exact A2|]. split; [congruence|]. apply D2; exact C.
    + exists wr'. split; [apply RP.nth_upd_eq; exact Hl|]. auto.
  - intros f w op H. destruct (j_fds0 _ _ _ H) as (wr & A & B). destruct (E _ _ A) as (wr2 & A2 & _ & _ & D2).
    exists wr2. split; [exact A2|apply D2; exact B].
  - intros j k f A B C. destruct (j_fval0 j k f A B C) as (P & w & wr & Q1 & Q2 & Q3). split; [exact P|].
    destruct (E _ _ Q2) as (wr2 & A2 & B2 & _). exists w, wr2. repeat split; auto; congruence.
  - intros r rd A B. eapply reader_ok_frame; [| | | | | | | |apply j_r0; eauto]; auto.
    intros f k v _. apply fd_good_ext. exact E.
Qed.

Lemma set_dir_same s : set_dir s (dir s) = s.
Proof. destruct s; reflexivity. Qed.

Ltac inv H := inversion H; subst; clear H.

(* ---- CloseW / PWrite / PFail / PRename / direct Write / direct Commit ---- *)
Lemma J_closew s o w : J s o -> J (do_closew s w) o.
Proof.
  intros Jo. unfold do_closew. destruct (nth_error (writers s) w) as [wr|] eqn:Hw; [|exact Jo].
  rewrite <- (set_dir_same s) at 1. eapply J_upd_writer; eauto.
  rewrite set_dir_same. pose proof (j_w _ _ Jo _ _ Hw) as Hok.
  assert (E : wext (writers s) (R.upd (writers s) w (wr_close wr))) by (eapply wext_upd; eauto).
  change (writer_ok (set_w s w (wr_close wr)) o w wr).
  eapply writer_ok_frame; [| | | |exact Hok]; auto.
  intros k v. apply committed_ext. exact E.
Qed.

Lemma nth_of_nth_error {A} (l : list A) i x d : nth_error l i = Some x -> nth i l d = x.
Proof. intros H. apply nth_error_nth. exact H. Qed.

Lemma dval_some s o i : J s o -> i < length (R.ents (dc s)) -> exists b, nth_error (dval s) i = Some b.
Proof.
  intros Jo Hi. destruct (nth_error (dval s) i) as [b|] eqn:E; [eauto|].
  apply nth_error_None in E. rewrite (j_dl _ _ Jo) in E. lia.
Qed.

(* what a holder of a data-cache reference sees: the value of its key, intact *)
Lemma held_value s o h i k : J s o -> held (dc s) h i -> nth_error (keys (dc s)) i = Some k ->
  exists b v, nth_error (dval s) i = Some b /\ bo o b = BValue i /\ nth_error (bufs s) b = Some v /\ committed s k v
              /\ cached_bytes s i = v.
Proof.
  intros Jo Hh Hk. pose proof (j_dc _ _ Jo) as I.
  destruct (dval_some s o i Jo (held_lt _ _ _ I Hh)) as [b Hb].
  destruct (j_val _ _ Jo i k b Hk (held_unfin _ _ _ I Hh) Hb) as (P & v & Q1 & Q2).
  exists b, v. repeat split; auto. unfold cached_bytes, buf_at.
  rewrite (nth_of_nth_error _ _ _ 0 Hb). apply nth_of_nth_error. exact Q1.
Qed.

Lemma J_pwrite s o w : J s o -> J (do_pwrite s w) o.
Proof.
  intros Jo. unfold do_pwrite. destruct (nth_error (writers s) w) as [wr|] eqn:Hw; [|exact Jo].
  destruct (w_ps wr) as [|stg h i] eqn:Hps; [exact Jo|]. destruct stg as [|stg]; [|exact Jo].
  pose proof (j_w _ _ Jo _ _ Hw) as (Hs & Hr & Ho). unfold stage_ok in Hs. rewrite Hps in Hs.
  destruct Hs as (S1 & S2 & S3 & S4 & S5 & _). destruct (S5 eq_refl) as [Hfile Hren].
  destruct (held_value s o h i _ Jo S1 S4) as (b & v & Hb & Hbo & Hv & Hcm & Hcb).
  rewrite <- (set_dir_same s) at 1. eapply J_upd_writer; eauto.
  - simpl. intros _. auto.
  - simpl. rewrite Hren. discriminate.
  - rewrite set_dir_same.
    assert (E : wext (writers s) (R.upd (writers s) w (wr_ps (wr_file wr (w_file wr ++ cached_bytes s i)) (PStage 1 h i)))).
    { eapply wext_upd; eauto; simpl; auto. rewrite Hren. discriminate. }
    split; [|split].
    + unfold stage_ok. simpl. repeat split; auto; try discriminate.
      intros _. rewrite Hfile, Hcb. simpl. eapply committed_ext; eauto.
    + simpl. rewrite Hren. discriminate.
    + simpl. rewrite S3. discriminate.
Qed.

Lemma J_pfail s o w n : J s o -> J (do_pfail s w n) o.
Proof.
  intros Jo. unfold do_pfail. destruct (nth_error (writers s) w) as [wr|] eqn:Hw; [|exact Jo].
  destruct (w_ps wr) as [|stg h i] eqn:Hps; [exact Jo|]. destruct stg as [|stg]; [|exact Jo].
  pose proof (j_w _ _ Jo _ _ Hw) as (Hs & Hr & Ho). unfold stage_ok in Hs. rewrite Hps in Hs.
  destruct Hs as (S1 & S2 & S3 & S4 & S5 & _). destruct (S5 eq_refl) as [Hfile Hren].
  rewrite <- (set_dir_same s) at 1. eapply J_upd_writer; eauto.
  - simpl. intros _. auto.
  - simpl. rewrite Hren. discriminate.
  - rewrite set_dir_same. split; [|split].
    + unfold stage_ok. simpl. repeat split; auto; discriminate.
    + simpl. rewrite Hren. discriminate.
    + simpl. rewrite S3. discriminate.
Qed.

Lemma J_prename s o w : J s o -> J (do_prename s w) o.
Proof.
  intros Jo. unfold do_prename. destruct (nth_error (writers s) w) as [wr|] eqn:Hw; [|exact Jo].
  destruct (w_ps wr) as [|stg h i] eqn:Hps; [exact Jo|]. destruct stg as [|[|stg]]; try exact Jo.
  pose proof (j_w _ _ Jo _ _ Hw) as (Hs & Hr & Ho). unfold stage_ok in Hs. rewrite Hps in Hs.
  destruct Hs as (S1 & S2 & S3 & S4 & _ & S6). specialize (S6 eq_refl).
  assert (E : wext (writers s) (R.upd (writers s) w (wr_ps (wr_renamed wr) (PStage 2 h i)))).
  { eapply wext_upd; eauto; simpl; auto. }
  eapply J_upd_writer; eauto.
  - simpl. auto.
  - simpl. auto.
  - intros k w' [Hin|Hin]; [|left; exact Hin]. inv Hin. right. auto.
  - split; [|split].
    + unfold stage_ok. simpl. repeat split; auto; discriminate.
    + simpl. intros _. eapply committed_ext; [|exact S6]. exact E.
    + simpl. rewrite S3. discriminate.
Qed.
