(* The HTTP request ranges do not depend on the order in which Go iterates over the allData map. *)
From Coq Require Import List ZArith Bool Sorted Permutation.
From SV Require Import Model.Region Model.BlobRead Proofs.Region Proofs.RegionCanon.
Import ListNotations.
Open Scope Z_scope.

Lemma squash_perm regs regs' : Forall wf_reg regs -> Permutation regs regs' -> squash regs = squash regs'.
Proof. unfold squash. apply adds_order_irrelevant_list. Qed.

Lemma requests_perm single regs regs' :
  Forall wf_reg regs -> Permutation regs regs' -> requests single regs = requests single regs'.
Proof. intros Hw Hp. unfold requests. rewrite (squash_perm regs regs' Hw Hp). reflexivity. Qed.

(* the fetched set after any interleaving of the add calls of the same committed chunks is the same slice *)
Lemma fetched_set_perm cks cks' :
  Forall wf_reg cks -> Permutation cks cks' -> fold_left add cks [] = fold_left add cks' [].
Proof. apply adds_order_irrelevant_list. Qed.
