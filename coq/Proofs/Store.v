(* Proofs about Model/Store.v (the repaired LayerManager, variant [Fixed]). *)
From Coq Require Import List Arith ZArith Bool Lia.
From SV Require Import Model.Store.
Import ListNotations.

(* ---------- basic facts about the association lists ---------- *)

Lemma key2_true : forall r t a b, key2 r t a b = true <-> a = r /\ b = t.
Proof.
  intros. unfold key2. rewrite andb_true_iff, !Nat.eqb_eq. tauto.
Qed.

Lemma key2_refl : forall r t, key2 r t r t = true.
Proof. intros. apply key2_true. auto. Qed.

Lemma mem_In : forall x l, mem x l = true <-> In x l.
Proof.
  intros. unfold mem. rewrite existsb_exists. split.
  - intros [y [H1 H2]]. apply Nat.eqb_eq in H2. subst. auto.
  - intros H. exists x. split; auto. apply Nat.eqb_refl.
Qed.

Lemma cached_iff : forall s r t, cached s r t = true <-> exists l, In (r, t, l) (layers s).
Proof.
  intros. unfold cached. rewrite existsb_exists. split.
  - intros [[[a b] l] [H1 H2]]. simpl in H2. apply key2_true in H2. destruct H2; subst. eauto.
  - intros [l H]. exists (r, t, l). split; auto. simpl. apply key2_refl.
Qed.

Lemma cached_false : forall s r t, cached s r t = false <-> forall l, ~ In (r, t, l) (layers s).
Proof.
  intros. split.
  - intros H l Hin. assert (cached s r t = true) by (apply cached_iff; eauto). congruence.
  - intros H. destruct (cached s r t) eqn:E; auto. apply cached_iff in E. destruct E as [l Hl]. exfalso. eapply H; eauto.
Qed.

Lemma memo_find_in : forall ms r l b, memo_find ms r l = Some b -> In (r, l, b) ms.
Proof.
  induction ms as [|[[a c] ok] tl IH]; simpl; intros r l b H; [discriminate|].
  destruct (key2 r l a c) eqn:E.
  - apply key2_true in E. destruct E; subst. inversion H; subst. auto.
  - right. auto.
Qed.

Lemma count_find_in : forall cs r t c, count_find cs r t = Some c -> In (r, t, c) cs.
Proof.
  induction cs as [|[[a b] c0] tl IH]; simpl; intros r t c H; [discriminate|].
  destruct (key2 r t a b) eqn:E.
  - apply key2_true in E. destruct E; subst. inversion H; subst. auto.
  - right. auto.
Qed.

Lemma count_find_none_ref : forall cs r t,
  existsb (fun e : nat * nat * Z => Nat.eqb (fst (fst e)) r) cs = false -> count_find cs r t = None.
Proof.
  induction cs as [|[[a b] c0] tl IH]; simpl; intros r t H; auto.
  apply orb_false_iff in H. destruct H as [H1 H2].
  unfold key2. rewrite H1. simpl. auto.
Qed.

Lemma count_find_del : forall cs r t, count_find (count_del cs r t) r t = None.
Proof.
  induction cs as [|[[a b] c0] tl IH]; simpl; intros r t; auto.
  destruct (key2 r t a b) eqn:E; simpl; auto. rewrite E. auto.
Qed.

Lemma count_find_del_other : forall cs r t r0 t0, key2 r t r0 t0 = false ->
  count_find (count_del cs r0 t0) r t = count_find cs r t.
Proof.
  induction cs as [|[[a b] c0] tl IH]; simpl; intros r t r0 t0 H; auto.
  destruct (key2 r0 t0 a b) eqn:E; simpl.
  - apply key2_true in E. destruct E; subst. rewrite H. auto.
  - destruct (key2 r t a b); auto.
Qed.

Lemma pool_find_in : forall ps r c, pool_find ps r = Some c -> In (r, c) ps.
Proof.
  induction ps as [|[a c0] tl IH]; simpl; intros r c H; [discriminate|].
  destruct (Nat.eqb a r) eqn:E.
  - apply Nat.eqb_eq in E. subst. inversion H; subst. auto.
  - right. auto.
Qed.

Lemma memo_find_del_ref : forall ms r0 r l,
  memo_find (memo_del_ref ms r0) r l = if Nat.eqb r r0 then None else memo_find ms r l.
Proof.
  induction ms as [|[[a c] ok] tl IH]; simpl; intros r0 r l.
  - destruct (Nat.eqb r r0); auto.
  - destruct (Nat.eqb a r0) eqn:E; simpl.
    + rewrite IH. apply Nat.eqb_eq in E. subst a.
      destruct (Nat.eqb r r0) eqn:E2; auto.
      unfold key2. rewrite Nat.eqb_sym, E2. auto.
    + rewrite IH. destruct (Nat.eqb r r0) eqn:E2; auto.
      apply Nat.eqb_eq in E2. subst r. unfold key2. rewrite E. auto.
Qed.

Lemma has_ref_memo_del : forall ms r,
  existsb (fun e : nat * nat * bool => Nat.eqb (fst (fst e)) r) (memo_del_ref ms r) = false.
Proof.
  induction ms as [|[[a c] ok] tl IH]; intros r; [reflexivity|].
  unfold memo_del_ref in *. simpl. destruct (Nat.eqb a r) eqn:E; simpl; [apply IH|].
  rewrite E. simpl. apply IH.
Qed.

(* ---------- the invariant ---------- *)

Definition inv (w : world) (s : st) : Prop :=
  (forall r t l, In (r, t, l) (layers s) -> In l (image w r) /\ toc_of w l = Some t)
  /\ (forall r l t, In (r, l, true) (memo s) -> toc_of w l = Some t -> cached s r t = true)
  /\ (forall r t c, In (r, t, c) (counts s) -> (1 <= c)%Z)
  /\ (forall r c, In (r, c) (pool s) -> (1 <= c)%Z).

Lemma inv_init : forall w, inv w init.
Proof. intros w. repeat split; simpl; intros; contradiction. Qed.

(* cached is monotone in the layer list *)
Lemma cached_incl : forall s s' r t,
  (forall x, In x (layers s) -> In x (layers s')) -> cached s r t = true -> cached s' r t = true.
Proof.
  intros s s' r t H C. apply cached_iff in C. destruct C as [l Hl]. apply cached_iff. eauto.
Qed.

(* resolve1 only adds layers *)
Lemma resolve1_layers_incl : forall w s r l f x, In x (layers s) -> In x (layers (resolve1 w s r l f)).
Proof.
  intros w s r l f x H. unfold resolve1.
  destruct (memo_find (memo s) r l); auto.
  destruct (toc_of w l) as [t|]; simpl; auto.
  destruct (in_rcache s r l || negb f); simpl; auto.
  destruct (in_rcache s r l); simpl.
  - destruct (cached s r t); simpl; auto.
  - match goal with |- context [if ?c then _ else _] => destruct c end; simpl; auto.
Qed.

Lemma resolve1_cached_mono : forall w s r l f r' t', cached s r' t' = true -> cached (resolve1 w s r l f) r' t' = true.
Proof. intros. eapply cached_incl; [|eassumption]. intros. apply resolve1_layers_incl. auto. Qed.

(* the other components are untouched by resolve1 *)
Lemma resolve1_counts : forall w s r l f, counts (resolve1 w s r l f) = counts s.
Proof.
  intros. unfold resolve1. destruct (memo_find (memo s) r l); auto.
  destruct (toc_of w l) as [t|]; simpl; auto.
  destruct (in_rcache s r l || negb f); simpl; auto.
  destruct (in_rcache s r l); simpl.
  - destruct (cached s r t); simpl; auto.
  - match goal with |- context [if ?c then _ else _] => destruct c end; simpl; auto.
Qed.

Lemma resolve1_pool : forall w s r l f, pool (resolve1 w s r l f) = pool s.
Proof.
  intros. unfold resolve1. destruct (memo_find (memo s) r l); auto.
  destruct (toc_of w l) as [t|]; simpl; auto.
  destruct (in_rcache s r l || negb f); simpl; auto.
  destruct (in_rcache s r l); simpl.
  - destruct (cached s r t); simpl; auto.
  - match goal with |- context [if ?c then _ else _] => destruct c end; simpl; auto.
Qed.

(* what resolve1 does to the layer list and the memo, case by case *)
Lemma resolve1_spec : forall w s r l f,
  let s' := resolve1 w s r l f in
  match memo_find (memo s) r l with
  | Some _ => s' = s
  | None =>
      match toc_of w l with
      | Some t =>
          if in_rcache s r l || negb f
          then memo s' = (r, l, true) :: memo s /\ cached s' r t = true
               /\ (forall x, In x (layers s') -> In x (layers s) \/ x = (r, t, l))
          else memo s' = (r, l, false) :: memo s /\ layers s' = layers s
      | None => memo s' = (r, l, false) :: memo s /\ layers s' = layers s
      end
  end.
Proof.
  intros w s r l f. unfold resolve1.
  destruct (memo_find (memo s) r l); simpl; auto.
  destruct (toc_of w l) as [t|]; simpl; auto.
  destruct (in_rcache s r l || negb f); simpl; auto.
  destruct (in_rcache s r l); simpl.
  - destruct (cached s r t) eqn:C; simpl.
    + repeat split; auto.
    + repeat split; auto.
      * unfold cached. simpl. rewrite key2_refl. auto.
      * intros x [H|H]; auto.
  - match goal with |- context [if ?c then _ else _] => destruct c eqn:C end; simpl.
    + repeat split; auto.
    + repeat split; auto.
      * unfold cached. simpl. rewrite key2_refl. auto.
      * intros x [H|H]; auto.
Qed.

Lemma resolve1_inv : forall w s r l f, In l (image w r) -> inv w s -> inv w (resolve1 w s r l f).
Proof.
  intros w s r l f Hl (I1 & I2 & I3 & I4).
  pose proof (resolve1_spec w s r l f) as SP. cbv zeta in SP.
  pose proof (resolve1_counts w s r l f) as HC. pose proof (resolve1_pool w s r l f) as HP.
  destruct (memo_find (memo s) r l) eqn:M.
  { rewrite SP. exact (conj I1 (conj I2 (conj I3 I4))). }
  assert (MONO : forall r' t', cached s r' t' = true -> cached (resolve1 w s r l f) r' t' = true)
    by (intros; apply resolve1_cached_mono; auto).
  destruct (toc_of w l) as [t|] eqn:T.
  - destruct (in_rcache s r l || negb f).
    + destruct SP as (Hm & Hc & Hl').
      split; [|split; [|split]].
      * intros r0 t0 l0 Hin. apply Hl' in Hin. destruct Hin as [Hin|Hin]; auto.
        inversion Hin; subst. auto.
      * intros r0 l0 t0 Hin Ht. rewrite Hm in Hin. destruct Hin as [Hin|Hin].
        -- inversion Hin; subst. rewrite T in Ht. inversion Ht; subst. auto.
        -- apply MONO. eapply I2; eauto.
      * rewrite HC. auto.
      * rewrite HP. auto.
    + destruct SP as (Hm & Hl').
      split; [|split; [|split]].
      * rewrite Hl'. auto.
      * intros r0 l0 t0 Hin Ht. rewrite Hm in Hin. destruct Hin as [Hin|Hin]; [inversion Hin|].
        apply MONO. eapply I2; eauto.
      * rewrite HC. auto.
      * rewrite HP. auto.
  - destruct SP as (Hm & Hl').
    split; [|split; [|split]].
    * rewrite Hl'. auto.
    * intros r0 l0 t0 Hin Ht. rewrite Hm in Hin. destruct Hin as [Hin|Hin]; [inversion Hin|].
      apply MONO. eapply I2; eauto.
    * rewrite HC. auto.
    * rewrite HP. auto.
Qed.

Definition fold_resolve (w : world) (r : nat) (fl : list nat) (ls : list nat) (s : st) : st :=
  fold_left (fun s l => resolve1 w s r l (mem l fl)) ls s.

Lemma fold_resolve_inv : forall w r fl ls s, incl ls (image w r) -> inv w s -> inv w (fold_resolve w r fl ls s).
Proof.
  intros w r fl. induction ls as [|a ls IH]; simpl; intros s Hi I; auto.
  apply IH.
  - intros x Hx. apply Hi. right. auto.
  - apply resolve1_inv; auto. apply Hi. left. auto.
Qed.

Lemma fold_resolve_cached_mono : forall w r fl ls s r' t',
  cached s r' t' = true -> cached (fold_resolve w r fl ls s) r' t' = true.
Proof.
  intros w r fl. induction ls as [|a ls IH]; simpl; intros s r' t' C; auto.
  apply IH. apply resolve1_cached_mono. auto.
Qed.

Lemma resolve_all_eq : forall w s r fl, resolve_all w s r fl = fold_resolve w r fl (image w r) s.
Proof. reflexivity. Qed.

Lemma loadref_inv : forall w s r mf s1, loadref w s r mf = Some s1 -> inv w s -> inv w s1.
Proof.
  intros w s r mf s1 H I. unfold loadref in H.
  destruct (mem r (manifests s)); [inversion H; subst; auto|].
  destruct (mf || negb (ref_exists w r)); [discriminate|]. inversion H; subst.
  destruct I as (I1 & I2 & I3 & I4). exact (conj I1 (conj I2 (conj I3 I4))).
Qed.

Lemma loadref_same : forall w s r mf s1, loadref w s r mf = Some s1 ->
  layers s1 = layers s /\ memo s1 = memo s /\ counts s1 = counts s /\ rcache s1 = rcache s /\ pool s1 = pool s.
Proof.
  intros w s r mf s1 H. unfold loadref in H.
  destruct (mem r (manifests s)); [inversion H; subst; auto|].
  destruct (mf || negb (ref_exists w r)); [discriminate|]. inversion H; subst. simpl. auto.
Qed.

Lemma get_layer_inv : forall w s r t mf fl, inv w s -> inv w (fst (get_layer w s r t mf fl)).
Proof.
  intros w s r t mf fl I. unfold get_layer.
  destruct (cached s r t); simpl; auto.
  destruct (loadref w s r mf) as [s1|] eqn:L; simpl; auto.
  rewrite resolve_all_eq. apply fold_resolve_inv; [apply incl_refl|]. eapply loadref_inv; eauto.
Qed.

Lemma get_info_inv : forall w s r t mf, inv w s -> inv w (fst (get_info w s r t mf)).
Proof.
  intros w s r t mf I. unfold get_info.
  destruct (loadref w s r mf) as [s1|] eqn:L; simpl; auto.
  pose proof (loadref_inv _ _ _ _ _ L I) as I1.
  destruct (layer_find (layers s1) r t); simpl; auto.
  destruct (last_index_from (image w r) n 0 None); simpl; auto.
Qed.

Lemma pool_use_pool : forall s r x, In x (pool (pool_use s r)) ->
  (forall c, In (fst x, c) (pool s) -> (1 <= c)%Z) -> (1 <= snd x)%Z.
Proof.
  intros s r [a c] H Hp. unfold pool_use in H.
  destruct (pool_find (pool s) r) as [c0|] eqn:F; simpl in H.
  - destruct H as [H|H].
    + inversion H; subst. simpl. apply pool_find_in in F. apply Hp in F. lia.
    + unfold pool_del in H. apply filter_In in H. destruct H as [H _]. simpl. apply (Hp c). auto.
  - destruct H as [H|H].
    + inversion H; subst. simpl. lia.
    + simpl. apply (Hp c). auto.
Qed.

Lemma use_inv : forall w s r t, inv w s -> inv w (fst (use s r t)).
Proof.
  intros w s r t (I1 & I2 & I3 & I4). unfold use.
  assert (P : forall a c, In (a, c) (pool (pool_use s r)) -> (1 <= c)%Z).
  { intros a c H. apply (pool_use_pool s r (a, c) H). simpl. intros c0 H0. eapply I4; eauto. }
  assert (L : layers (pool_use s r) = layers s) by (unfold pool_use; destruct (pool_find (pool s) r); auto).
  assert (M : memo (pool_use s r) = memo s) by (unfold pool_use; destruct (pool_find (pool s) r); auto).
  assert (C : counts (pool_use s r) = counts s) by (unfold pool_use; destruct (pool_find (pool s) r); auto).
  assert (CA : forall a b, cached (pool_use s r) a b = cached s a b) by (intros; unfold cached; rewrite L; auto).
  destruct (count_find (counts (pool_use s r)) r t) as [c|] eqn:F; simpl.
  - split; [|split; [|split]]; simpl; auto.
    + rewrite L. auto.
    + intros r0 l0 t0 Hin Ht. rewrite M in Hin. unfold cached. simpl. rewrite L. eapply I2; eauto.
    + intros r0 t0 c0 [H|H].
      * inversion H; subst. rewrite C in F. apply count_find_in in F. apply I3 in F. lia.
      * unfold count_del in H. apply filter_In in H. destruct H as [H _]. rewrite C in H. eauto.
  - split; [|split; [|split]]; simpl; auto.
    + rewrite L. auto.
    + intros r0 l0 t0 Hin Ht. rewrite M in Hin. unfold cached. simpl. rewrite L. eapply I2; eauto.
    + intros r0 t0 c0 [H|H].
      * inversion H; subst. lia.
      * rewrite C in H. eauto.
Qed.

Lemma pool_release_same : forall s r,
  layers (pool_release s r) = layers s /\ memo (pool_release s r) = memo s /\ counts (pool_release s r) = counts s
  /\ rcache (pool_release s r) = rcache s /\ manifests (pool_release s r) = manifests s.
Proof.
  intros. unfold pool_release. destruct (pool_find (pool s) r); auto.
  destruct (z - 1 <=? 0)%Z; auto.
Qed.

Lemma pool_release_pool : forall s r a c, (forall a c, In (a, c) (pool s) -> (1 <= c)%Z) ->
  In (a, c) (pool (pool_release s r)) -> (1 <= c)%Z.
Proof.
  intros s r a c Hp H. unfold pool_release in H.
  destruct (pool_find (pool s) r) as [c0|] eqn:F; [|eauto].
  destruct (c0 - 1 <=? 0)%Z eqn:E; simpl in H.
  - unfold pool_del in H. apply filter_In in H. destruct H. eauto.
  - destruct H as [H|H].
    + inversion H; subst. apply Z.leb_gt in E. lia.
    + unfold pool_del in H. apply filter_In in H. destruct H. eauto.
Qed.

(* ---------- release (repaired code), by cases ---------- *)
Definition f22_filter (r t : nat) (ls : list (nat * nat * nat)) :=
  filter (fun e => negb (Nat.eqb (fst (fst e)) r) || Nat.eqb (snd (fst e)) t) ls.

(* the branch that drops the layer: count reached zero *)
Definition drop_branch (s0 : st) (r t : nat) (c' : Z) : st * res :=
  let s1 := set_counts s0 (count_del (counts s0) r t) in
  let s2 := if has_ref_counts s1 r then s1 else set_layers s1 (f22_filter r t (layers s1)) in
  let s3 := set_memo s2 (memo_del_ref (memo s2) r) in
  if negb (cached s3 r t) then (s3, RErr) else (set_layers s3 (layer_del (layers s3) r t), RCount c').

Definition rest_counts (s0 : st) (r t : nat) : bool :=
  existsb (fun e : nat * nat * Z => Nat.eqb (fst (fst e)) r) (count_del (counts s0) r t).

Definition drop_layers (s0 : st) (r t : nat) : list (nat * nat * nat) :=
  if rest_counts s0 r t then layers s0 else f22_filter r t (layers s0).

Lemma layer_del_in : forall ls r t x,
  In x (layer_del ls r t) <-> In x ls /\ key2 r t (fst (fst x)) (snd (fst x)) = false.
Proof.
  intros. unfold layer_del. rewrite filter_In. rewrite negb_true_iff. tauto.
Qed.

Lemma not_cached_key : forall s r t x, cached s r t = false -> In x (layers s) ->
  key2 r t (fst (fst x)) (snd (fst x)) = false.
Proof.
  intros s r t [[a b] l] C H. cbn [fst snd]. destruct (key2 r t a b) eqn:K; auto.
  apply key2_true in K. destruct K; subst.
  assert (cached s r t = true) by (apply cached_iff; exists l; exact H). congruence.
Qed.

Lemma drop_branch_spec : forall s0 r t c',
  let s' := fst (drop_branch s0 r t c') in
  counts s' = count_del (counts s0) r t
  /\ memo s' = memo_del_ref (memo s0) r
  /\ pool s' = pool s0
  /\ (forall x, In x (layers s') <-> In x (drop_layers s0 r t) /\ key2 r t (fst (fst x)) (snd (fst x)) = false).
Proof.
  intros s0 r t c'. cbv zeta. unfold drop_branch, drop_layers, rest_counts.
  change (has_ref_counts (set_counts s0 (count_del (counts s0) r t)) r)
    with (existsb (fun e : nat * nat * Z => Nat.eqb (fst (fst e)) r) (count_del (counts s0) r t)).
  destruct (existsb (fun e : nat * nat * Z => Nat.eqb (fst (fst e)) r) (count_del (counts s0) r t)).
  - cbn [layers counts memo pool set_counts set_layers set_memo].
    match goal with |- context [negb (cached ?s3 r t)] => destruct (cached s3 r t) eqn:CA end;
      cbn [negb fst layers counts memo pool set_layers set_memo set_counts].
    + split; [reflexivity|]. split; [reflexivity|]. split; [reflexivity|]. intros x. apply layer_del_in.
    + split; [reflexivity|]. split; [reflexivity|]. split; [reflexivity|]. intros x. split.
      * intros H. split; auto. eapply not_cached_key; [exact CA|]. exact H.
      * tauto.
  - cbn [layers counts memo pool set_counts set_layers set_memo].
    match goal with |- context [negb (cached ?s3 r t)] => destruct (cached s3 r t) eqn:CA end;
      cbn [negb fst layers counts memo pool set_layers set_memo set_counts].
    + split; [reflexivity|]. split; [reflexivity|]. split; [reflexivity|]. intros x. apply layer_del_in.
    + split; [reflexivity|]. split; [reflexivity|]. split; [reflexivity|]. intros x. split.
      * intros H. split; auto. eapply not_cached_key; [exact CA|]. exact H.
      * tauto.
Qed.

Lemma release_fixed_cases : forall s r t,
  let s0 := pool_release s r in
  fst (release_fixed s r t) = s0
  \/ (exists c, count_find (counts s0) r t = Some c /\ (0 < c - 1)%Z
        /\ fst (release_fixed s r t) = set_counts s0 (count_set (counts s0) r t (c - 1)))
  \/ (exists c, count_find (counts s0) r t = Some c /\ (c - 1 <= 0)%Z
        /\ fst (release_fixed s r t) = fst (drop_branch s0 r t (c - 1))).
Proof.
  intros s r t. cbv zeta. unfold release_fixed.
  destruct (has_ref_counts (pool_release s r) r); cbn [negb]; [|left; reflexivity].
  destruct (count_find (counts (pool_release s r)) r t) as [c|] eqn:F; [|left; reflexivity].
  destruct (c - 1 <=? 0)%Z eqn:E.
  - right. right. exists c. split; auto. split; [apply Z.leb_le; auto|]. reflexivity.
  - right. left. exists c. split; auto. split; [apply Z.leb_gt in E; lia|]. reflexivity.
Qed.

Lemma drop_layers_sub : forall s0 r t x, In x (drop_layers s0 r t) -> In x (layers s0).
Proof.
  intros s0 r t x H. unfold drop_layers in H. destruct (rest_counts s0 r t); auto.
  unfold f22_filter in H. apply filter_In in H. tauto.
Qed.

Lemma drop_layers_other : forall s0 r t x, In x (layers s0) -> fst (fst x) <> r -> In x (drop_layers s0 r t).
Proof.
  intros s0 r t x H N. unfold drop_layers. destruct (rest_counts s0 r t); auto.
  unfold f22_filter. apply filter_In. split; auto. apply Nat.eqb_neq in N. rewrite N. auto.
Qed.

Lemma release_fixed_shape : forall s r t,
  let s' := fst (release_fixed s r t) in
  (forall x, In x (layers s') -> In x (layers s))
  /\ (forall x, In x (layers s) -> fst (fst x) <> r -> In x (layers s'))
  /\ (forall x, In x (counts s') -> In x (counts s) \/ exists c, x = (r, t, c) /\ (1 <= c)%Z)
  /\ ((memo s' = memo s /\ layers s' = layers s) \/ memo s' = memo_del_ref (memo s) r)
  /\ pool s' = pool (pool_release s r).
Proof.
  intros s r t. cbv zeta.
  destruct (pool_release_same s r) as (L0 & M0 & C0 & _ & _).
  destruct (release_fixed_cases s r t) as [A|[(c & F & E & A)|(c & F & E & A)]]; rewrite A.
  - rewrite L0, M0, C0. repeat split; auto.
  - cbn [layers counts memo pool set_counts]. rewrite L0, M0. repeat split; auto.
    intros x [H|H].
    + right. exists (c - 1)%Z. split; auto. lia.
    + left. unfold count_del in H. apply filter_In in H. destruct H as [H _]. rewrite C0 in H. auto.
  - destruct (drop_branch_spec (pool_release s r) r t (c - 1)) as (DC & DM & DP & DL).
    split; [|split; [|split; [|split]]].
    + intros x H. apply DL in H. destruct H as [H _]. apply drop_layers_sub in H. rewrite L0 in H. auto.
    + intros x H N. apply DL. split.
      * apply drop_layers_other; auto. rewrite L0. auto.
      * destruct x as [[a b] l]. cbn [fst snd] in *. unfold key2. apply Nat.eqb_neq in N. rewrite N. auto.
    + intros x H. left. rewrite DC in H. unfold count_del in H. apply filter_In in H. destruct H as [H _].
      rewrite C0 in H. auto.
    + right. rewrite DM, M0. auto.
    + auto.
Qed.

Lemma release_fixed_inv : forall w s r t, inv w s -> inv w (fst (release_fixed s r t)).
Proof.
  intros w s r t (I1 & I2 & I3 & I4).
  destruct (release_fixed_shape s r t) as (A & B & C & D & E).
  split; [|split; [|split]].
  - intros r0 t0 l0 H. apply A in H. auto.
  - intros r0 l0 t0 H Ht.
    destruct D as [[Dm Dl]|D].
    + rewrite Dm in H. unfold cached. rewrite Dl. eapply I2; eauto.
    + rewrite D in H. unfold memo_del_ref in H. apply filter_In in H. destruct H as [H1 H2]. cbn [fst] in H2.
      apply negb_true_iff in H2. apply Nat.eqb_neq in H2.
      pose proof (I2 _ _ _ H1 Ht) as CA. apply cached_iff in CA. destruct CA as [l1 Hl1].
      apply cached_iff. exists l1. apply B; auto.
  - intros r0 t0 c0 H. apply C in H. destruct H as [H|[c [H Hc]]]; eauto. inversion H; subst. auto.
  - intros r0 c0 H. rewrite E in H. eapply pool_release_pool; eauto.
Qed.

Lemma step_inv : forall w s o, inv w s -> inv w (fst (step Fixed w s o)).
Proof.
  intros w s o I. destruct o; simpl.
  - apply get_layer_inv; auto.
  - apply get_info_inv; auto.
  - apply use_inv; auto.
  - apply release_fixed_inv; auto.
  - destruct (loadref w s r mf) eqn:L; simpl; auto. eapply loadref_inv; eauto.
  - destruct (mem l (image w r)) eqn:M; auto. apply resolve1_inv; auto. apply mem_In. auto.
  - auto.
  - destruct I as (I1 & I2 & I3 & I4). exact (conj I1 (conj I2 (conj I3 I4))).
Qed.

Lemma exec_inv : forall w os s, inv w s -> inv w (exec Fixed w s os).
Proof.
  intros w. induction os as [|o os IH]; simpl; intros s I; auto.
  apply IH. apply step_inv. auto.
Qed.

Lemma reach_inv : forall w os, inv w (exec Fixed w init os).
Proof. intros. apply exec_inv. apply inv_init. Qed.

Lemma exec_app : forall v w os1 os2 s, exec v w s (os1 ++ os2) = exec v w (exec v w s os1) os2.
Proof. intros. unfold exec. apply fold_left_app. Qed.

(* ---------- clause 1: lookups ---------- *)

Definition image_has_toc (w : world) (r t : nat) : Prop := exists l, In l (image w r) /\ toc_of w l = Some t.

Lemma cached_in_image : forall w s r t, inv w s -> cached s r t = true -> image_has_toc w r t.
Proof.
  intros w s r t (I1 & _) C. apply cached_iff in C. destruct C as [l Hl]. apply I1 in Hl. exists l. auto.
Qed.

Lemma lookup_other_digest_fails : forall w s r t mf fl,
  inv w s -> ~ image_has_toc w r t -> snd (get_layer w s r t mf fl) = RFail.
Proof.
  intros w s r t mf fl I N. unfold get_layer.
  destruct (cached s r t) eqn:C.
  - exfalso. apply N. eapply cached_in_image; eauto.
  - destruct (loadref w s r mf) as [s1|] eqn:L; simpl; auto.
    destruct (cached (resolve_all w s1 r fl) r t) eqn:C2; auto.
    exfalso. apply N. eapply cached_in_image; [|eassumption].
    rewrite resolve_all_eq. apply fold_resolve_inv; [apply incl_refl|]. eapply loadref_inv; eauto.
Qed.

Lemma resolve1_memo_other : forall w s r a f l, a <> l ->
  memo_find (memo (resolve1 w s r a f)) r l = memo_find (memo s) r l.
Proof.
  intros w s r a f l N. pose proof (resolve1_spec w s r a f) as SP. cbv zeta in SP.
  assert (K : key2 r l r a = false) by (unfold key2; rewrite Nat.eqb_refl; simpl; apply Nat.eqb_neq; auto).
  destruct (memo_find (memo s) r a).
  - rewrite SP. auto.
  - destruct (toc_of w a).
    + destruct (in_rcache s r a || negb f).
      * destruct SP as (Hm & _). rewrite Hm. simpl. rewrite K. auto.
      * destruct SP as (Hm & _). rewrite Hm. simpl. rewrite K. auto.
    + destruct SP as (Hm & _). rewrite Hm. simpl. rewrite K. auto.
Qed.

Lemma resolve1_target_cached : forall w s r l t, inv w s -> toc_of w l = Some t ->
  memo_find (memo s) r l <> Some false -> cached (resolve1 w s r l false) r t = true.
Proof.
  intros w s r l t (I1 & I2 & _) T M.
  pose proof (resolve1_spec w s r l false) as SP. cbv zeta in SP.
  destruct (memo_find (memo s) r l) as [[|]|] eqn:F.
  - rewrite SP. apply memo_find_in in F. eapply I2; eauto.
  - congruence.
  - rewrite T in SP. simpl in SP. rewrite orb_true_r in SP. destruct SP as (_ & C & _). auto.
Qed.

Lemma fold_resolve_target : forall w r fl l t ls s,
  inv w s -> incl ls (image w r) -> toc_of w l = Some t -> mem l fl = false ->
  (cached s r t = true \/ (In l ls /\ memo_find (memo s) r l <> Some false)) ->
  cached (fold_resolve w r fl ls s) r t = true.
Proof.
  intros w r fl l t. induction ls as [|a ls IH]; simpl; intros s I Hi T Hf H.
  - destruct H as [H|[[] _]]. auto.
  - assert (Ia : In a (image w r)) by (apply Hi; left; auto).
    assert (Hi' : incl ls (image w r)) by (intros x Hx; apply Hi; right; auto).
    apply IH; auto.
    + apply resolve1_inv; auto.
    + destruct H as [H|[Hin M]].
      * left. apply resolve1_cached_mono. auto.
      * destruct (Nat.eq_dec a l) as [->|N].
        -- left. rewrite Hf. apply resolve1_target_cached; auto.
        -- right. split.
           ++ destruct Hin as [Hin|Hin]; [congruence|auto].
           ++ rewrite resolve1_memo_other; auto.
Qed.

Definition manifest_available (s : st) (r : nat) (mf : bool) : Prop := mem r (manifests s) = true \/ mf = false.

Lemma lookup_succeeds : forall w s r t l mf fl,
  inv w s -> In l (image w r) -> toc_of w l = Some t ->
  manifest_available s r mf -> mem l fl = false ->
  memo_find (memo s) r l <> Some false ->
  snd (get_layer w s r t mf fl) = ROk.
Proof.
  intros w s r t l mf fl I Hl T MA Hf M. unfold get_layer.
  destruct (cached s r t) eqn:C; auto.
  assert (RE : ref_exists w r = true).
  { unfold ref_exists. apply Nat.ltb_lt. unfold image in Hl.
    destruct (Nat.lt_ge_cases r (length (images w))) as [H|H]; auto.
    rewrite nth_overflow in Hl; auto. contradiction. }
  destruct (loadref w s r mf) as [s1|] eqn:L.
  - simpl. destruct (loadref_same _ _ _ _ _ L) as (L1 & M1 & _).
    rewrite resolve_all_eq.
    rewrite (fold_resolve_target w r fl l t (image w r) s1); auto.
    + eapply loadref_inv; eauto.
    + apply incl_refl.
    + right. split; auto. rewrite M1. auto.
  - exfalso. unfold loadref in L. destruct MA as [MA|MA].
    + rewrite MA in L. discriminate.
    + destruct (mem r (manifests s)); [discriminate|]. rewrite MA, RE in L. simpl in L. discriminate.
Qed.

(* histories in which no registry error is delivered for layer l of ref r leave no memoised error for it *)
Definition no_fault_on (r l : nat) (o : op) : Prop :=
  match o with
  | Lookup r' _ _ fl => r' = r -> mem l fl = false
  | Resolve r' l' f => r' = r -> l' = l -> f = false
  | _ => True
  end.

Definition clean (w : world) (s : st) (r l : nat) : Prop := memo_find (memo s) r l <> Some false.

Lemma resolve1_clean : forall w s r l t r' l' f, toc_of w l = Some t ->
  (r' = r -> l' = l -> f = false) -> clean w s r l -> clean w (resolve1 w s r' l' f) r l.
Proof.
  intros w s r l t r' l' f T NF C. unfold clean in *.
  pose proof (resolve1_spec w s r' l' f) as SP. cbv zeta in SP.
  destruct (memo_find (memo s) r' l') eqn:F.
  - rewrite SP. auto.
  - destruct (key2 r l r' l') eqn:K.
    + apply key2_true in K. destruct K; subst r' l'. assert (Ff : f = false) by (apply NF; auto). subst f.
      rewrite T in SP. simpl in SP. rewrite orb_true_r in SP. destruct SP as (Hm & _). rewrite Hm. simpl.
      rewrite key2_refl. congruence.
    + destruct (toc_of w l').
      * destruct (in_rcache s r' l' || negb f).
        -- destruct SP as (Hm & _). rewrite Hm. simpl. rewrite K. auto.
        -- destruct SP as (Hm & _). rewrite Hm. simpl. rewrite K. auto.
      * destruct SP as (Hm & _). rewrite Hm. simpl. rewrite K. auto.
Qed.

Lemma fold_resolve_clean : forall w r l t r' fl ls s, toc_of w l = Some t ->
  (r' = r -> mem l fl = false) -> clean w s r l -> clean w (fold_resolve w r' fl ls s) r l.
Proof.
  intros w r l t r' fl. induction ls as [|a ls IH]; simpl; intros s T NF C; auto.
  apply IH; auto. eapply resolve1_clean; eauto. intros -> ->. auto.
Qed.

Lemma step_clean : forall w s o r l t, toc_of w l = Some t -> no_fault_on r l o ->
  clean w s r l -> clean w (fst (step Fixed w s o)) r l.
Proof.
  intros w s o r l t T NF C. destruct o; simpl in *.
  - unfold get_layer. destruct (cached s r0 t0); simpl; auto.
    destruct (loadref w s r0 mf) as [s1|] eqn:L; simpl; auto.
    rewrite resolve_all_eq. eapply fold_resolve_clean; eauto.
    destruct (loadref_same _ _ _ _ _ L) as (_ & M1 & _). unfold clean. rewrite M1. auto.
  - unfold get_info. destruct (loadref w s r0 mf) as [s1|] eqn:L; simpl; auto.
    destruct (loadref_same _ _ _ _ _ L) as (_ & M1 & _).
    assert (clean w s1 r l) by (unfold clean; rewrite M1; auto).
    destruct (layer_find (layers s1) r0 t0); simpl; auto.
    destruct (last_index_from (image w r0) n 0 None); simpl; auto.
  - unfold use, clean.
    assert (M : memo (pool_use s r0) = memo s) by (unfold pool_use; destruct (pool_find (pool s) r0); auto).
    destruct (count_find (counts (pool_use s r0)) r0 t0); simpl; rewrite M; auto.
  - destruct (release_fixed_shape s r0 t0) as (_ & _ & _ & D & _). unfold clean.
    destruct D as [[D _]|D]; rewrite D; auto.
    rewrite memo_find_del_ref. destruct (Nat.eqb r r0); [congruence|auto].
  - destruct (loadref w s r0 mf) as [s1|] eqn:L; simpl; auto.
    destruct (loadref_same _ _ _ _ _ L) as (_ & M1 & _). unfold clean. rewrite M1. auto.
  - destruct (mem l0 (image w r0)); auto. eapply resolve1_clean; eauto.
  - auto.
  - auto.
Qed.

Lemma exec_clean : forall w r l t os s, toc_of w l = Some t -> Forall (no_fault_on r l) os ->
  clean w s r l -> clean w (exec Fixed w s os) r l.
Proof.
  intros w r l t. induction os as [|o os IH]; simpl; intros s T F C; auto.
  inversion F; subst. apply IH; auto. eapply step_clean; eauto.
Qed.

Lemma lookup_history_independent : forall w os r t l mf fl,
  In l (image w r) -> toc_of w l = Some t -> Forall (no_fault_on r l) os ->
  let s := exec Fixed w init os in
  manifest_available s r mf -> mem l fl = false ->
  snd (get_layer w s r t mf fl) = ROk.
Proof.
  intros w os r t l mf fl Hl T NF s MA Hf.
  eapply lookup_succeeds; eauto.
  - apply reach_inv.
  - eapply exec_clean; eauto. unfold clean. simpl. congruence.
Qed.

(* ---------- clause 2: counts, no release while used ---------- *)

Lemma counts_positive : forall w os r t c, In (r, t, c) (counts (exec Fixed w init os)) -> (1 <= c)%Z.
Proof. intros w os r t c H. destruct (reach_inv w os) as (_ & _ & I3 & _). eauto. Qed.

Lemma uses_nonneg : forall w os r t, (0 <= uses (exec Fixed w init os) r t)%Z.
Proof.
  intros. unfold uses. destruct (count_find (counts (exec Fixed w init os)) r t) eqn:F; [|lia].
  apply count_find_in in F. apply counts_positive in F. lia.
Qed.

Lemma pool_positive : forall w os r c, In (r, c) (pool (exec Fixed w init os)) -> (1 <= c)%Z.
Proof. intros w os r c H. destruct (reach_inv w os) as (_ & _ & _ & I4). eauto. Qed.

Lemma has_ref_counts_false_uses : forall s r t, has_ref_counts s r = false -> uses s r t = 0%Z.
Proof. intros s r t H. unfold uses. rewrite count_find_none_ref; auto. Qed.

(* a step keeps (r,t) cached unless it is a release on ref r that leaves no outstanding use of (r,t) *)
Lemma release_keeps_used : forall s r0 t0 r t,
  cached s r t = true -> (0 < uses (fst (release_fixed s r0 t0)) r t)%Z ->
  cached (fst (release_fixed s r0 t0)) r t = true.
Proof.
  intros s r0 t0 r t C U.
  destruct (pool_release_same s r0) as (L0 & M0 & C0 & _ & _).
  apply cached_iff in C. destruct C as [l Hl]. apply cached_iff. exists l.
  destruct (release_fixed_cases s r0 t0) as [A|[(c & F & E & A)|(c & F & E & A)]]; rewrite A in *.
  - rewrite L0. auto.
  - cbn [layers set_counts]. rewrite L0. auto.
  - destruct (drop_branch_spec (pool_release s r0) r0 t0 (c - 1)) as (DC & DM & DP & DL).
    unfold uses in U. rewrite DC in U.
    assert (K : key2 r t r0 t0 = false).
    { destruct (key2 r t r0 t0) eqn:K; auto. apply key2_true in K. destruct K; subst.
      rewrite count_find_del in U. lia. }
    apply DL. split.
    + unfold drop_layers. destruct (rest_counts (pool_release s r0) r0 t0) eqn:RC; [rewrite L0; auto|].
      unfold f22_filter. apply filter_In. split; [rewrite L0; auto|]. cbn [fst snd].
      destruct (Nat.eqb r r0) eqn:E2; auto. apply Nat.eqb_eq in E2. subst r0.
      unfold rest_counts in RC. rewrite (count_find_none_ref _ _ _ RC) in U. lia.
    + cbn [fst snd]. unfold key2 in *. rewrite (Nat.eqb_sym r r0), (Nat.eqb_sym t t0). auto.
Qed.

Lemma step_keeps_used : forall w s o r t,
  cached s r t = true -> (0 < uses (fst (step Fixed w s o)) r t)%Z ->
  cached (fst (step Fixed w s o)) r t = true.
Proof.
  intros w s o r t C U. destruct o; simpl in *.
  - unfold get_layer. destruct (cached s r0 t0); simpl; auto.
    destruct (loadref w s r0 mf) as [s1|] eqn:L; simpl; auto.
    destruct (loadref_same _ _ _ _ _ L) as (L1 & _).
    rewrite resolve_all_eq. apply fold_resolve_cached_mono. unfold cached. rewrite L1. auto.
  - unfold get_info. destruct (loadref w s r0 mf) as [s1|] eqn:L; simpl; auto.
    destruct (loadref_same _ _ _ _ _ L) as (L1 & _).
    assert (cached s1 r t = true) by (unfold cached; rewrite L1; auto).
    destruct (layer_find (layers s1) r0 t0); simpl; auto.
    destruct (last_index_from (image w r0) n 0 None); simpl; auto.
  - unfold use.
    assert (L : layers (pool_use s r0) = layers s) by (unfold pool_use; destruct (pool_find (pool s) r0); auto).
    destruct (count_find (counts (pool_use s r0)) r0 t0); simpl; unfold cached; simpl; rewrite L; auto.
  - apply release_keeps_used; auto.
  - destruct (loadref w s r0 mf) as [s1|] eqn:L; simpl; auto.
    destruct (loadref_same _ _ _ _ _ L) as (L1 & _). unfold cached. rewrite L1. auto.
  - destruct (mem l (image w r0)); auto. apply resolve1_cached_mono. auto.
  - auto.
  - auto.
Qed.

(* only a release on the same ref can drop a cached layer *)
Lemma step_keeps_cached : forall w s o r t,
  (forall t0, o <> Release r t0) -> cached s r t = true -> cached (fst (step Fixed w s o)) r t = true.
Proof.
  intros w s o r t N C. destruct o; simpl in *.
  - unfold get_layer. destruct (cached s r0 t0); simpl; auto.
    destruct (loadref w s r0 mf) as [s1|] eqn:L; simpl; auto.
    destruct (loadref_same _ _ _ _ _ L) as (L1 & _).
    rewrite resolve_all_eq. apply fold_resolve_cached_mono. unfold cached. rewrite L1. auto.
  - unfold get_info. destruct (loadref w s r0 mf) as [s1|] eqn:L; simpl; auto.
    destruct (loadref_same _ _ _ _ _ L) as (L1 & _).
    assert (cached s1 r t = true) by (unfold cached; rewrite L1; auto).
    destruct (layer_find (layers s1) r0 t0); simpl; auto.
    destruct (last_index_from (image w r0) n 0 None); simpl; auto.
  - unfold use.
    assert (L : layers (pool_use s r0) = layers s) by (unfold pool_use; destruct (pool_find (pool s) r0); auto).
    destruct (count_find (counts (pool_use s r0)) r0 t0); simpl; unfold cached; simpl; rewrite L; auto.
  - assert (R : r0 <> r) by (intros ->; apply (N t0); auto).
    destruct (release_fixed_shape s r0 t0) as (_ & B & _).
    apply cached_iff in C. destruct C as [l Hl]. apply cached_iff. exists l. apply B; auto.
  - destruct (loadref w s r0 mf) as [s1|] eqn:L; simpl; auto.
    destruct (loadref_same _ _ _ _ _ L) as (L1 & _). unfold cached. rewrite L1. auto.
  - destruct (mem l (image w r0)); auto. apply resolve1_cached_mono. auto.
  - auto.
  - auto.
Qed.

Definition not_release_on (r : nat) (o : op) : Prop := forall t0, o <> Release r t0.

Lemma exec_keeps_cached : forall w r t os s, Forall (not_release_on r) os ->
  cached s r t = true -> cached (exec Fixed w s os) r t = true.
Proof.
  intros w r t. induction os as [|o os IH]; simpl; intros s F C; auto.
  inversion F; subst. apply IH; auto. apply step_keeps_cached; auto.
Qed.

(* racing lookups: once the resolveLayer step of the layer has run, no interleaving of other lookups, uses,
   releases on other images or timer expiries makes a later probe miss *)
Lemma resolved_stays_cached : forall w os r l t os',
  let s := exec Fixed w init os in
  In l (image w r) -> toc_of w l = Some t -> clean w s r l ->
  Forall (not_release_on r) os' ->
  snd (step Fixed w (exec Fixed w (fst (step Fixed w s (Resolve r l false))) os') (Probe r t)) = ROk.
Proof.
  intros w os r l t os' s Hl T C F. simpl.
  apply mem_In in Hl. rewrite Hl.
  rewrite (exec_keeps_cached w r t os' _ F); auto.
  apply resolve1_target_cached; auto. apply reach_inv.
Qed.

(* getLayer after a cache miss = its sub-steps run back to back *)
Lemma exec_resolves : forall v w r fl ls s, incl ls (image w r) ->
  exec v w s (map (fun l => Resolve r l (mem l fl)) ls) = fold_resolve w r fl ls s.
Proof.
  intros v w r fl. induction ls as [|a ls IH]; simpl; intros s Hi; auto.
  assert (M : mem a (image w r) = true) by (apply mem_In; apply Hi; left; auto).
  rewrite M. apply IH. intros x Hx. apply Hi. right. auto.
Qed.

Lemma lookup_substeps_eq : forall v w s r t mf fl s1,
  cached s r t = false -> loadref w s r mf = Some s1 ->
  let mid := exec v w s (LoadRef r mf :: map (fun l => Resolve r l (mem l fl)) (image w r)) in
  mid = fst (get_layer w s r t mf fl)
  /\ step v w mid (Probe r t) = get_layer w s r t mf fl.
Proof.
  intros v w s r t mf fl s1 C L. cbv zeta. simpl. rewrite L. simpl.
  rewrite exec_resolves by apply incl_refl.
  unfold get_layer. rewrite C, L. rewrite resolve_all_eq. simpl. auto.
Qed.

(* ---------- clause 3: the last release resets the image ---------- *)

Lemma existsb_false_forall : forall {A} (p : A -> bool) (l : list A),
  (forall x, In x l -> p x = false) -> existsb p l = false.
Proof.
  intros A p. induction l as [|a l IH]; simpl; intros H; auto.
  rewrite (H a) by auto. simpl. apply IH. intros. apply H. auto.
Qed.

Lemma last_release_resets : forall s r t c,
  count_find (counts s) r t = Some c ->
  let s' := fst (release_fixed s r t) in
  has_ref_counts s' r = false ->
  has_ref_layers s' r = false /\ has_ref_memo s' r = false.
Proof.
  intros s r t c F. cbv zeta. intros H.
  destruct (pool_release_same s r) as (L0 & M0 & C0 & _ & _).
  assert (HR : has_ref_counts (pool_release s r) r = true).
  { unfold has_ref_counts. rewrite C0. apply existsb_exists. exists (r, t, c). split.
    - apply count_find_in. auto.
    - cbn [fst]. apply Nat.eqb_refl. }
  destruct (release_fixed_cases s r t) as [A|[(c1 & F1 & E & A)|(c1 & F1 & E & A)]]; rewrite A in *.
  - congruence.
  - exfalso. unfold has_ref_counts, count_set in H. cbn [counts set_counts existsb fst] in H.
    rewrite Nat.eqb_refl in H. discriminate.
  - destruct (drop_branch_spec (pool_release s r) r t (c1 - 1)) as (DC & DM & DP & DL).
    split.
    + unfold has_ref_layers. apply existsb_false_forall. intros [[a b] l] Hin.
      apply DL in Hin. cbn [fst snd] in *. destruct Hin as [Hin K].
      destruct (Nat.eqb a r) eqn:E1; auto. exfalso.
      unfold drop_layers in Hin.
      assert (RC : rest_counts (pool_release s r) r t = false).
      { unfold rest_counts. unfold has_ref_counts in H. rewrite DC in H. exact H. }
      rewrite RC in Hin. unfold f22_filter in Hin. apply filter_In in Hin. destruct Hin as [_ K2].
      cbn [fst snd] in K2. rewrite E1 in K2. cbn [negb orb] in K2.
      unfold key2 in K. rewrite E1, K2 in K. discriminate.
    + unfold has_ref_memo. rewrite DM. apply has_ref_memo_del.
Qed.

Lemma memo_find_none_ref : forall ms r l,
  existsb (fun e : nat * nat * bool => Nat.eqb (fst (fst e)) r) ms = false -> memo_find ms r l = None.
Proof.
  induction ms as [|[[a b] ok] tl IH]; simpl; intros r l H; auto.
  apply orb_false_iff in H. destruct H as [H1 H2].
  unfold key2. rewrite H1. simpl. auto.
Qed.

(* the whole clause: after the release of the last use of the image nothing of it is left, and every lookup of a
   layer of the image succeeds again as soon as the registry answers - whatever was memoised before *)
Lemma last_release_then_lookup : forall w os r t c,
  let s := exec Fixed w init os in
  count_find (counts s) r t = Some c ->
  let s' := fst (step Fixed w s (Release r t)) in
  has_ref_counts s' r = false ->
  has_ref_layers s' r = false /\ has_ref_memo s' r = false
  /\ forall t2 l mf fl, In l (image w r) -> toc_of w l = Some t2 -> manifest_available s' r mf -> mem l fl = false ->
       snd (step Fixed w s' (Lookup r t2 mf fl)) = ROk.
Proof.
  intros w os r t c s F s' H.
  destruct (last_release_resets s r t c F H) as [HL HM].
  split; [exact HL|]. split; [exact HM|].
  intros t2 l mf fl Hl T MA Hf. simpl.
  eapply lookup_succeeds; eauto.
  - unfold s'. apply step_inv. apply reach_inv.
  - unfold has_ref_memo in HM. fold s'. rewrite (memo_find_none_ref _ _ _ HM). congruence.
Qed.

(* phase 2 (b): the schedule "resolveLayer of l ... release of (r,t) ... " with the success recorded in cacheLayer's section *)
Lemma release_during_resolve_harmless : forall w os r t l,
  let s := exec Fixed w init os in
  In l (image w r) -> toc_of w l = Some t -> memo_find (memo s) r l <> Some false ->
  let s' := exec Fixed w s [Resolve r l false; Release r t] in
  memo_find (memo s') r l <> Some false
  /\ snd (step Fixed w s' (Lookup r t false [])) = ROk.
Proof.
  intros w os r t l s Hl T M s'.
  assert (C : clean w s' r l).
  { unfold s'. eapply exec_clean; [exact T| |exact M]. repeat constructor; simpl; auto. }
  split; [exact C|].
  unfold s', s. rewrite <- exec_app.
  apply (lookup_succeeds w _ r t l false [] (reach_inv w _) Hl T); auto.
  - right. reflexivity.
  - rewrite exec_app. exact C.
Qed.
