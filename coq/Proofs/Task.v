(* Proofs about Model/Task.v (C13): the invariant of the background task manager, its preservation by
   every atomic step of every actor, and the lemmas the C13 property theorems are closed with. *)
From Coq Require Import List Arith Bool Lia.
From SV Require Import Model.Task.
Import ListNotations.

(* ---------- list helpers ---------- *)
Lemma upd_length {A} (l : list A) n x : length (upd l n x) = length l.
Proof. revert n; induction l as [|a l IH]; intros [|n]; simpl; auto. Qed.

Lemma nth_upd_eq {A} (l : list A) n x y : nth_error l n = Some y -> nth_error (upd l n x) n = Some x.
Proof. revert n; induction l as [|a l IH]; intros [|n] H; simpl in *; try discriminate; auto. Qed.

Lemma nth_upd_ne {A} (l : list A) n m x : n <> m -> nth_error (upd l n x) m = nth_error l m.
Proof. revert n m; induction l as [|a l IH]; intros [|n] [|m] H; simpl; auto; try lia. Qed.

Lemma nth_upd_inv {A} (l : list A) n m x y z :
  nth_error l n = Some y -> nth_error (upd l n x) m = Some z -> (m = n /\ z = x) \/ (m <> n /\ nth_error l m = Some z).
Proof.
  intros Hn Hm. destruct (Nat.eq_dec m n) as [->|Hne].
  - rewrite (nth_upd_eq _ _ _ _ Hn) in Hm. inversion Hm. auto.
  - rewrite nth_upd_ne in Hm by auto. auto.
Qed.

Lemma sum_upd {A} (f : A -> nat) l n x y :
  nth_error l n = Some x -> list_sum (map f (upd l n y)) + f x = list_sum (map f l) + f y.
Proof.
  revert n; induction l as [|a l IH]; intros [|n] H; simpl in *; try discriminate.
  - inversion H; subst. lia.
  - specialize (IH _ H). lia.
Qed.

Lemma sum_app {A} (f : A -> nat) l1 l2 : list_sum (map f (l1 ++ l2)) = list_sum (map f l1) + list_sum (map f l2).
Proof. rewrite map_app, list_sum_app. reflexivity. Qed.

Lemma sum_le {A} (f g : A -> nat) l :
  (forall i v, nth_error l i = Some v -> f v <= g v) -> list_sum (map f l) <= list_sum (map g l).
Proof.
  induction l as [|a l IH]; simpl; intros H; [lia|].
  assert (f a <= g a) by (apply (H 0); reflexivity).
  assert (list_sum (map f l) <= list_sum (map g l)) by (apply IH; intros i v Hi; apply (H (S i)); exact Hi).
  lia.
Qed.

Lemma sum_pos {A} (f : A -> nat) l : 0 < list_sum (map f l) -> exists i v, nth_error l i = Some v /\ 0 < f v.
Proof.
  induction l as [|a l IH]; simpl; intros H; [lia|].
  destruct (f a) eqn:E.
  - destruct (IH H) as [i [v [Hi Hv]]]. exists (S i), v. auto.
  - exists 0, a. simpl. split; [reflexivity|lia].
Qed.

Lemma sum_zero {A} (f : A -> nat) l : list_sum (map f l) = 0 -> forall i v, nth_error l i = Some v -> f v = 0.
Proof.
  induction l as [|a l IH]; simpl; intros H [|i] v Hi; simpl in Hi; try discriminate.
  - inversion Hi; subst. lia.
  - apply (IH ltac:(lia) i v Hi).
Qed.

(* ---------- bodies ---------- *)
Lemma has_mark k k' b : has k (mark k' b) = has k b.
Proof.
  induction b as [|[j c] b IH]; simpl; [reflexivity|].
  destruct (Nat.eqb j k'); simpl; rewrite IH; reflexivity.
Qed.

Lemma flag_mark k b : has k b = true -> flag k (mark k b) = Some true.
Proof.
  induction b as [|[j c] b IH]; simpl; [discriminate|].
  destruct (Nat.eqb j k) eqn:E; simpl; rewrite E; auto.
Qed.

Lemma length_mark k b : length (mark k b) = length b.
Proof. induction b as [|[j c] b IH]; simpl; auto. Qed.

Definition shape (k : nat) (b : list (nat * bool)) : Prop := b = [] \/ exists c, b = [(k, c)].

Lemma shape_has_false k b : shape k b -> has k b = false -> b = [].
Proof.
  intros [H|[c H]] Hh; subst; auto. simpl in Hh. rewrite Nat.eqb_refl in Hh. discriminate.
Qed.

Lemma shape_has k j b : shape k b -> has j b = true -> j = k /\ exists c, b = [(k, c)].
Proof.
  intros [H|[c H]] Hh; subst; simpl in Hh; [discriminate|].
  rewrite orb_false_r in Hh. apply Nat.eqb_eq in Hh. subst. eauto.
Qed.

(* ---------- invariant ---------- *)
Definition linv (g p : nat) (v : inv) : Prop :=
  match ipc v with
  | PD ch => ch <= g /\ (ch = g -> p = 0) /\ bodies v = []
  | PB ch k => ch <= g /\ (ch = g -> p = 0) /\ shape k (bodies v)
  | PC k => bodies v = [] \/ bodies v = [(k, true)]
  | _ => bodies v = []
  end.

Record Inv (s : st) : Prop := mkI {
  inv_w : waits s = true;
  inv_P : P s = inprog s + sil s;
  inv_sem : sem s + holders s = conc s;
  inv_l : forall i v, nth_error (invs s) i = Some v -> linv (gen s) (P s) v
}.

Lemma Inv_init c : Inv (init c true).
Proof.
  constructor.
  - reflexivity.
  - reflexivity.
  - unfold holders; simpl. lia.
  - intros [|i] v H; discriminate.
Qed.

(* a step of one invocation keeps its local invariant and the semaphore accounting *)
Lemma istep_linv s v a v' m :
  waits s = true -> linv (gen s) (P s) v -> istep s v a = Some (v', m) ->
  linv (gen s) (P s) v' /\ m + hold1 v' = sem s + hold1 v.
Proof.
  intros Hw Hl H. unfold linv, hold1 in *. destruct a; simpl in H.
  - (* Pass *) destruct (ipc v) eqn:E; try discriminate. destruct (P s =? 0); inversion H; subst; simpl. auto.
  - (* Acquire *) destruct (ipc v) eqn:E; try discriminate. destruct (sem s) eqn:Es; inversion H; subst; simpl.
    split; [auto|lia].
  - (* Decide *) destruct (ipc v) eqn:E; try discriminate. inversion H; subst; simpl.
    destruct (P s =? 0) eqn:EP; simpl.
    + apply Nat.eqb_eq in EP. split; [|lia]. auto.
    + auto.
  - (* Start *) destruct (ipc v) eqn:E; try discriminate. inversion H; subst; simpl.
    destruct Hl as [H1 [H2 H3]]. rewrite H3. split; [|lia].
    split; [auto|]. split; [auto|]. right. eauto.
  - (* Cancel *) destruct (ipc v) eqn:E; try discriminate. destruct (ch =? gen s); inversion H; subst; simpl.
    destruct Hl as [H1 [H2 [H3|[c H3]]]]; rewrite H3; simpl.
    + auto.
    + rewrite Nat.eqb_refl. auto.
  - (* Join *) destruct (ipc v) eqn:E; try discriminate. rewrite Hw in H. simpl in H.
    destruct (has k (bodies v)) eqn:Eh; inversion H; subst; simpl.
    split; [|lia]. destruct Hl as [H3|H3]; auto. rewrite H3 in Eh. simpl in Eh. rewrite Nat.eqb_refl in Eh. discriminate.
  - (* Finish *) destruct (ipc v) eqn:E; try discriminate.
    destruct (has k (bodies v)) eqn:Eh; inversion H; subst; simpl.
    split; [|lia]. destruct Hl as [H1 [H2 H3]]. eapply shape_has_false; eauto.
  - (* Release *) destruct (ipc v) eqn:E; try discriminate; inversion H; subst; simpl; split; auto; lia.
  - (* BodyDone *) destruct (has k (bodies v)) eqn:Eh; inversion H; subst; simpl. split; [|lia].
    destruct (ipc v) eqn:E; try (rewrite Hl in Eh; discriminate).
    + destruct Hl as [_ [_ Hl]]. rewrite Hl in Eh; discriminate.
    + destruct Hl as [H1 [H2 H3]]. destruct (shape_has _ _ _ H3 Eh) as [-> [c Hc]].
      rewrite Hc. simpl. rewrite Nat.eqb_refl. split; [auto|]. split; [auto|]. left. reflexivity.
    + destruct Hl as [H3|H3]; rewrite H3 in *; [discriminate|].
      simpl in Eh. rewrite orb_false_r in Eh. simpl. rewrite Eh. auto.
  - (* Timeout *) destruct (has k (bodies v)) eqn:Eh; inversion H; subst; simpl. split; [|lia].
    destruct (ipc v) eqn:E; try (rewrite Hl in Eh; discriminate).
    + destruct Hl as [_ [_ Hl]]. rewrite Hl in Eh; discriminate.
    + destruct Hl as [H1 [H2 H3]]. destruct (shape_has _ _ _ H3 Eh) as [-> [c Hc]].
      rewrite Hc. simpl. rewrite Nat.eqb_refl. split; [auto|]. split; [auto|]. right. eauto.
    + destruct Hl as [H3|H3]; rewrite H3 in *; [discriminate|].
      simpl in Eh. rewrite orb_false_r in Eh. simpl. rewrite Eh. auto.
Qed.

(* the local invariant survives the steps of the environment *)
Lemma linv_gen g p p' v : linv g p v -> linv (S g) p' v.
Proof.
  unfold linv. destruct (ipc v); auto.
  - intros [H1 [H2 H3]]. split; [lia|]. split; [lia|auto].
  - intros [H1 [H2 H3]]. split; [lia|]. split; [lia|auto].
Qed.

Lemma linv_P g p p' v : (p = 0 -> p' = 0) -> linv g p v -> linv g p' v.
Proof.
  unfold linv. intros Hp. destruct (ipc v); auto.
  - intros [H1 [H2 H3]]. auto.
  - intros [H1 [H2 H3]]. auto.
Qed.

Lemma step_Inv s o : Inv s -> Inv (fst (step s o)).
Proof.
  intros I. pose proof I as [Hw HP Hs Hl]. destruct o; simpl.
  - (* Invoke *) constructor; simpl.
    + exact Hw.
    + exact HP.
    + unfold holders in *. simpl. rewrite sum_app. simpl. lia.
    + intros i v H. destruct (Nat.lt_ge_cases i (length (invs s))) as [Hlt|Hge].
      * rewrite nth_error_app1 in H by auto. eauto.
      * rewrite nth_error_app2 in H by auto. destruct (i - length (invs s)) as [|[|n]]; simpl in H; try discriminate.
        inversion H; subst. reflexivity.
  - (* PrioBegin *) constructor; simpl.
    + exact Hw.
    + lia.
    + exact Hs.
    + intros i v H. eapply linv_gen; eauto.
  - (* PrioEnd *) destruct (inprog s) eqn:E; simpl; [exact I|].
    constructor; simpl.
    + exact Hw.
    + lia.
    + exact Hs.
    + exact Hl.
  - (* PrioDec *) destruct (sil s) eqn:E; simpl; [exact I|].
    destruct (P s) eqn:EP; simpl; [exact I|].
    constructor; simpl.
    + exact Hw.
    + lia.
    + exact Hs.
    + intros i v H. eapply linv_P; [|eauto]. intros; discriminate.
  - (* Act *) destruct (nth_error (invs s) i) as [v|] eqn:En; simpl; [|exact I].
    destruct (istep s v a) as [[v' m]|] eqn:Ei; simpl; [|exact I].
    destruct (istep_linv _ _ _ _ _ Hw (Hl _ _ En) Ei) as [Hl' Hm].
    constructor; simpl.
    + exact Hw.
    + exact HP.
    + unfold holders in *. simpl. pose proof (sum_upd hold1 _ _ _ v' En). lia.
    + intros j w Hj. destruct (nth_upd_inv _ _ _ _ _ _ En Hj) as [[-> ->]|[Hne Hj']]; eauto.
Qed.

Lemma exec_app s os1 os2 : exec s (os1 ++ os2) = exec (exec s os1) os2.
Proof. unfold exec. apply fold_left_app. Qed.

Lemma exec_Inv os : forall s, Inv s -> Inv (exec s os).
Proof. induction os as [|o os IH]; intros s I; simpl; auto. apply IH. apply step_Inv. exact I. Qed.

Lemma reach_Inv c os : Inv (exec (init c true) os).
Proof. apply exec_Inv. apply Inv_init. Qed.

(* ---------- consequences: start only when quiet / cancel on prioritized begin ---------- *)
Lemma quiet_P s : Inv s -> (quiet s <-> P s = 0).
Proof. intros I. unfold quiet. rewrite (inv_P _ I). tauto. Qed.

Lemma step_act s i a v :
  nth_error (invs s) i = Some v ->
  step s (Act i a) =
    match istep s v a with
    | Some (v', m) => (mkSt (conc s) (waits s) (P s) (inprog s) (sil s) (gen s) m (upd (invs s) i v'), true)
    | None => (s, false)
    end.
Proof. intros H. simpl. rewrite H. reflexivity. Qed.

Lemma decide_quiet s i v :
  Inv s -> nth_error (invs s) i = Some v -> ipc v = PS ->
  forall ch, pc_of (fst (step s (Act i Decide))) i = Some (PD ch) -> quiet s /\ ch = gen s.
Proof.
  intros I Hn Hpc ch. rewrite (step_act _ _ _ _ Hn). simpl. rewrite Hpc. simpl.
  unfold pc_of. simpl. rewrite (nth_upd_eq _ _ _ _ Hn). simpl.
  destruct (P s =? 0) eqn:E; intros H; inversion H; subst.
  apply Nat.eqb_eq in E. split; [apply quiet_P; auto|reflexivity].
Qed.

Lemma start_quiet_or_pending s i v ch :
  Inv s -> nth_error (invs s) i = Some v -> ipc v = PD ch -> quiet s \/ ch <> gen s.
Proof.
  intros I Hn Hpc. pose proof (inv_l _ I _ _ Hn) as Hl. unfold linv in Hl. rewrite Hpc in Hl.
  destruct Hl as [H1 [H2 H3]]. destruct (Nat.eq_dec ch (gen s)) as [E|E]; [left|right; exact E].
  apply quiet_P; auto.
Qed.

Lemma running_not_quiet_pending s i v ch k :
  Inv s -> nth_error (invs s) i = Some v -> ipc v = PB ch k -> ~ quiet s -> ch <> gen s.
Proof.
  intros I Hn Hpc Hq E. pose proof (inv_l _ I _ _ Hn) as Hl. unfold linv in Hl. rewrite Hpc in Hl.
  destruct Hl as [H1 [H2 H3]]. apply Hq. apply quiet_P; auto.
Qed.

Lemma cancel_enabled s i v ch k :
  nth_error (invs s) i = Some v -> ipc v = PB ch k -> ch <> gen s -> enabled s (Act i Cancel).
Proof.
  intros Hn Hpc Hne. unfold enabled. rewrite (step_act _ _ _ _ Hn). simpl. rewrite Hpc.
  apply Nat.eqb_neq in Hne. rewrite Hne. reflexivity.
Qed.

(* while its body runs, the only step the invoker can take is the cancellation *)
Lemma only_cancel s i v ch k a :
  nth_error (invs s) i = Some v -> ipc v = PB ch k -> has k (bodies v) = true ->
  invoker_act a = true -> enabled s (Act i a) -> a = Cancel /\ ch <> gen s.
Proof.
  intros Hn Hpc Hh Ha. unfold enabled. rewrite (step_act _ _ _ _ Hn).
  destruct a; simpl in *; try discriminate; rewrite Hpc; simpl; try (intros H; discriminate H).
  - destruct (ch =? gen s) eqn:E; [intros H; discriminate H|]. apply Nat.eqb_neq in E. auto.
  - rewrite Hh. intros H; discriminate H.
Qed.

Lemma cancel_effect s i v ch k :
  Inv s -> nth_error (invs s) i = Some v -> ipc v = PB ch k -> has k (bodies v) = true -> ch <> gen s ->
  let s' := fst (step s (Act i Cancel)) in
  (exists v', nth_error (invs s') i = Some v' /\ ipc v' = PC k /\ flag k (bodies v') = Some true)
  /\ ~ enabled s' (Act i Join).
Proof.
  intros I Hn Hpc Hh Hne. cbv zeta. rewrite (step_act _ _ _ _ Hn). simpl. rewrite Hpc.
  apply Nat.eqb_neq in Hne. rewrite Hne. simpl. split.
  - eexists. rewrite (nth_upd_eq _ _ _ _ Hn). split; [reflexivity|]. simpl. split; [reflexivity|].
    apply flag_mark; auto.
  - unfold enabled. simpl. rewrite (nth_upd_eq _ _ _ _ Hn). simpl.
    rewrite (inv_w _ I), has_mark, Hh. simpl. discriminate.
Qed.

Lemma prio_begin_pending s i v ch k :
  Inv s -> nth_error (invs s) i = Some v -> ipc v = PB ch k -> ch <> gen (fst (step s PrioBegin)).
Proof.
  intros I Hn Hpc. simpl. pose proof (inv_l _ I _ _ Hn) as Hl. unfold linv in Hl. rewrite Hpc in Hl.
  destruct Hl as [H1 _]. lia.
Qed.

(* ---------- bounded, no self-overlap ---------- *)
Lemma linv_running g p v : linv g p v -> running v <= hold1 v /\ running v <= 1.
Proof.
  unfold linv, running, hold1. destruct (ipc v); simpl; intros H; try (rewrite H; simpl; lia).
  - destruct H as [_ [_ H]]. rewrite H. simpl. lia.
  - destruct H as [_ [_ [H|[c H]]]]; rewrite H; simpl; lia.
  - destruct H as [H|H]; rewrite H; simpl; lia.
Qed.

Lemma bounded s : Inv s -> total_running s <= conc s.
Proof.
  intros I. rewrite <- (inv_sem _ I). unfold total_running, holders.
  assert (list_sum (map running (invs s)) <= list_sum (map hold1 (invs s))); [|lia].
  apply sum_le. intros i v H. apply (linv_running _ _ _ (inv_l _ I _ _ H)).
Qed.

Lemma no_overlap s i v :
  Inv s -> nth_error (invs s) i = Some v ->
  running v <= 1
  /\ (enabled s (Act i Start) -> running v = 0)
  /\ (ipc v = PRet -> running v = 0)
  /\ (holder (ipc v) = false -> running v = 0).
Proof.
  intros I Hn. pose proof (inv_l _ I _ _ Hn) as Hl. pose proof (linv_running _ _ _ Hl) as [H1 H2].
  split; [exact H2|]. split; [|split].
  - unfold enabled. rewrite (step_act _ _ _ _ Hn). simpl. unfold linv, running in *.
    destruct (ipc v); try (intros H; discriminate H). destruct Hl as [_ [_ Hl]]. rewrite Hl. reflexivity.
  - intros E. unfold hold1 in H1. rewrite E in H1. simpl in H1. lia.
  - intros E. unfold hold1 in H1. rewrite E in H1. lia.
Qed.

(* ---------- completion once prioritized work has stopped ---------- *)
Lemma istep_rank s v a v' m :
  waits s = true -> P s = 0 -> linv (gen s) (P s) v -> istep s v a = Some (v', m) ->
  match a with Timeout _ => rank (gen s) v' = rank (gen s) v | _ => rank (gen s) v' < rank (gen s) v end.
Proof.
  intros Hw HP Hl H. unfold linv, rank in *. destruct a; simpl in H.
  - destruct (ipc v) eqn:E; try discriminate. destruct (P s =? 0); inversion H; subst; simpl. lia.
  - destruct (ipc v) eqn:E; try discriminate. destruct (sem s); inversion H; subst; simpl. lia.
  - destruct (ipc v) eqn:E; try discriminate. inversion H; subst; simpl. rewrite HP. simpl.
    rewrite Nat.eqb_refl. lia.
  - destruct (ipc v) eqn:E; try discriminate. inversion H; subst; simpl.
    rewrite Nat.eqb_refl. simpl. destruct (ch =? gen s); lia.
  - destruct (ipc v) eqn:E; try discriminate. destruct (ch =? gen s) eqn:Eg; inversion H; subst; simpl.
    rewrite has_mark. destruct (has k (bodies v)); lia.
  - destruct (ipc v) eqn:E; try discriminate.
    destruct (waits s && has k (bodies v)); inversion H; subst; simpl. destruct (has k (bodies v)); lia.
  - destruct (ipc v) eqn:E; try discriminate.
    destruct (has k (bodies v)) eqn:Eh; inversion H; subst; simpl. destruct (ch =? gen s); lia.
  - destruct (ipc v) eqn:E; try discriminate; inversion H; subst; simpl; lia.
  - destruct (has k (bodies v)) eqn:Eh; inversion H; subst; simpl.
    destruct (ipc v) eqn:E; try (rewrite Hl in Eh; discriminate).
    + destruct Hl as [_ [_ Hl]]. rewrite Hl in Eh; discriminate.
    + destruct Hl as [H1 [H2 H3]]. destruct (shape_has _ _ _ H3 Eh) as [-> [c Hc]].
      rewrite Hc. simpl. rewrite Nat.eqb_refl. simpl. destruct (ch =? gen s); lia.
    + destruct Hl as [H3|H3]; rewrite H3 in *; [discriminate|].
      simpl in Eh. rewrite orb_false_r in Eh. apply Nat.eqb_eq in Eh. subst. simpl. rewrite Nat.eqb_refl. simpl. lia.
  - destruct (has k (bodies v)) eqn:Eh; inversion H; subst; simpl.
    destruct (ipc v) eqn:E; try reflexivity; rewrite has_mark; reflexivity.
Qed.

Definition calm (s : st) : Prop := Inv s /\ P s = 0.

Lemma calm_quiet s : Inv s -> quiet s -> calm s.
Proof. intros I Q. split; auto. apply quiet_P; auto. Qed.

(* one step of a run without new prioritized tasks / invocations, from a calm state *)
Lemma calm_step s o :
  calm s -> env_free o = true ->
  let s' := fst (step s o) in
  calm s' /\ gen s' = gen s
  /\ (if progress_op o && snd (step s o) then 1 else 0) + total_rank s' <= total_rank s.
Proof.
  intros [I HP] Ho. cbv zeta. split; [split; [apply step_Inv; auto|]|].
  - destruct o; simpl in *; try discriminate; auto.
    + destruct (inprog s); simpl; auto.
    + destruct (sil s); simpl; auto. rewrite HP. simpl. auto.
    + destruct (nth_error (invs s) i); simpl; auto. destruct (istep s i0 a) as [[? ?]|]; simpl; auto.
  - pose proof (inv_P _ I) as HPs. destruct o; simpl in *; try discriminate.
    + destruct (inprog s) eqn:E; simpl; [split; [reflexivity|lia]|]. lia.
    + destruct (sil s) eqn:E; simpl; [split; [reflexivity|lia]|]. lia.
    + destruct (nth_error (invs s) i) as [v|] eqn:En; simpl; [|rewrite andb_false_r; split; [reflexivity|lia]].
      destruct (istep s v a) as [[v' m]|] eqn:Ei; simpl; [|rewrite andb_false_r; split; [reflexivity|lia]].
      split; [reflexivity|].
      pose proof (istep_rank _ _ _ _ _ (inv_w _ I) HP (inv_l _ I _ _ En) Ei) as Hr.
      unfold total_rank. simpl. pose proof (sum_upd (rank (gen s)) _ _ _ v' En) as Hs.
      destruct a; simpl; lia.
Qed.

Lemma calm_run os : forall s,
  calm s -> forallb env_free os = true ->
  calm (exec s os) /\ taken s os + total_rank (exec s os) <= total_rank s.
Proof.
  induction os as [|o os IH]; intros s C Hos; simpl in *.
  - split; [exact C|lia].
  - apply andb_true_iff in Hos. destruct Hos as [Ho Hos].
    destruct (calm_step s o C Ho) as [C' [Hg Hr]].
    destruct (IH _ C' Hos) as [C'' Hr']. split; [exact C''|]. lia.
Qed.

Lemma rank_zero g v : rank g v = 0 <-> ipc v = PRet.
Proof.
  unfold rank. destruct (ipc v); split; intros H; try discriminate; try reflexivity; try lia.
  - destruct (ch =? g); discriminate.
  - destruct (ch =? g); destruct (has k (bodies v)); discriminate.
  - destruct (has k (bodies v)); discriminate.
Qed.

Lemma total_rank_zero s : total_rank s = 0 <-> all_returned s.
Proof.
  unfold total_rank, all_returned. split.
  - intros H i v Hi. apply (rank_zero (gen s)). eapply sum_zero; eauto.
  - intros H. induction (invs s) as [|a l IH]; simpl; [reflexivity|].
    rewrite IH; [|intros i v Hi; apply (H (S i)); exact Hi].
    assert (ipc a = PRet) by (apply (H 0); reflexivity). apply (rank_zero (gen s)) in H0. lia.
Qed.

(* a holder of a semaphore slot can always move (itself or its body) *)
Lemma holder_moves s i v :
  nth_error (invs s) i = Some v -> linv (gen s) (P s) v -> holder (ipc v) = true ->
  exists a, progress_op (Act i a) = true /\ enabled s (Act i a).
Proof.
  intros Hn Hl Hh. unfold enabled. unfold linv in Hl.
  destruct (ipc v) eqn:E; try discriminate.
  - exists Decide. rewrite (step_act _ _ _ _ Hn). simpl. rewrite E. auto.
  - exists Start. rewrite (step_act _ _ _ _ Hn). simpl. rewrite E. auto.
  - exists Release. rewrite (step_act _ _ _ _ Hn). simpl. rewrite E. auto.
  - destruct (has k (bodies v)) eqn:Eh.
    + exists (BodyDone k). rewrite (step_act _ _ _ _ Hn). simpl. rewrite Eh. auto.
    + exists Finish. rewrite (step_act _ _ _ _ Hn). simpl. rewrite E, Eh. auto.
  - destruct (has k (bodies v)) eqn:Eh.
    + exists (BodyDone k). rewrite (step_act _ _ _ _ Hn). simpl. rewrite Eh. auto.
    + exists Join. rewrite (step_act _ _ _ _ Hn). simpl. rewrite E, Eh, andb_false_r. auto.
  - exists Release. rewrite (step_act _ _ _ _ Hn). simpl. rewrite E. auto.
Qed.

Lemma no_deadlock s :
  calm s -> 1 <= conc s -> ~ all_returned s ->
  exists i a, progress_op (Act i a) = true /\ enabled s (Act i a).
Proof.
  intros [I HP] Hc Hnr.
  assert (Hex : exists i v, nth_error (invs s) i = Some v /\ ipc v <> PRet).
  { apply Decidable.not_not.
    - unfold Decidable.decidable. clear. induction (invs s) as [|a l IH].
      + right. intros [[|i] [v [H _]]]; discriminate.
      + destruct (is_ret a) eqn:Ea.
        * destruct IH as [[i [v [Hi Hv]]]|IH]; [left; exists (S i), v; auto|].
          right. intros [[|i] [v [Hi Hv]]]; simpl in Hi.
          -- inversion Hi; subst. unfold is_ret in Ea. destruct (ipc v); try discriminate. auto.
          -- apply IH. eauto.
        * left. exists 0, a. split; [reflexivity|]. intros E. unfold is_ret in Ea. rewrite E in Ea. discriminate.
    - intros Hno. apply Hnr. intros i v Hi. destruct (ipc v) eqn:E; try reflexivity;
        exfalso; apply Hno; exists i, v; split; auto; rewrite E; discriminate. }
  destruct Hex as [i [v [Hn Hpc]]].
  destruct (holder (ipc v)) eqn:Eh.
  - destruct (holder_moves _ _ _ Hn (inv_l _ I _ _ Hn) Eh) as [a Ha]. exists i, a. exact Ha.
  - destruct (ipc v) eqn:E; try discriminate; try congruence.
    + (* PW *) exists i, Pass. unfold enabled. rewrite (step_act _ _ _ _ Hn). simpl. rewrite E, HP. auto.
    + (* PA *) destruct (sem s) eqn:Es.
      * assert (0 < holders s) by (pose proof (inv_sem _ I); lia).
        destruct (sum_pos _ _ H) as [j [w [Hj Hw]]].
        assert (holder (ipc w) = true) by (unfold hold1 in Hw; destruct (holder (ipc w)); auto; lia).
        destruct (holder_moves _ _ _ Hj (inv_l _ I _ _ Hj) H0) as [a Ha]. exists j, a. exact Ha.
      * exists i, Acquire. unfold enabled. rewrite (step_act _ _ _ _ Hn). simpl. rewrite E, Es. auto.
Qed.

Lemma total_rank_bound s : total_rank s <= 13 * length (invs s).
Proof.
  unfold total_rank. induction (invs s) as [|a l IH]; simpl; [lia|].
  assert (rank (gen s) a <= 13).
  { unfold rank. destruct (ipc a); try lia.
    - destruct (ch =? gen s); lia.
    - destruct (ch =? gen s); destruct (has k (bodies a)); lia.
    - destruct (has k (bodies a)); lia. }
  lia.
Qed.

(* ---------- statements in the form used by Properties/C13.v ---------- *)
Lemma conc_step s o : conc (fst (step s o)) = conc s.
Proof.
  destruct o; simpl; auto.
  - destruct (inprog s); auto.
  - destruct (sil s); auto. destruct (P s); auto.
  - destruct (nth_error (invs s) i); auto. destruct (istep s i0 a) as [[? ?]|]; auto.
Qed.

Lemma conc_exec os : forall s, conc (exec s os) = conc s.
Proof. induction os as [|o os IH]; intros s; simpl; auto. rewrite IH. apply conc_step. Qed.

Lemma bounded_c c os : total_running (exec (init c true) os) <= c.
Proof.
  pose proof (bounded _ (reach_Inv c os)) as H. rewrite conc_exec in H. exact H.
Qed.

Lemma cancel_on_prio_begin s i v ch k :
  Inv s -> nth_error (invs s) i = Some v -> ipc v = PB ch k -> has k (bodies v) = true ->
  let s1 := fst (step s PrioBegin) in
  let s2 := fst (step s1 (Act i Cancel)) in
  enabled s1 (Act i Cancel)
  /\ (forall a, invoker_act a = true -> enabled s1 (Act i a) -> a = Cancel)
  /\ (exists v2, nth_error (invs s2) i = Some v2 /\ ipc v2 = PC k /\ flag k (bodies v2) = Some true)
  /\ ~ enabled s2 (Act i Join).
Proof.
  intros I Hn Hpc Hh s1 s2.
  assert (I1 : Inv s1) by (apply step_Inv; exact I).
  assert (Hn1 : nth_error (invs s1) i = Some v) by exact Hn.
  assert (Hne : ch <> gen s1) by (eapply prio_begin_pending; eauto).
  split; [eapply cancel_enabled; eauto|].
  split; [intros a Ha He; eapply only_cancel; eauto|].
  exact (cancel_effect s1 i v ch k I1 Hn1 Hpc Hh Hne).
Qed.

Lemma completes c os os' :
  let s := exec (init c true) os in
  quiet s -> forallb env_free os' = true ->
  let s' := exec s os' in
  quiet s'
  /\ taken s os' + total_rank s' <= total_rank s
  /\ total_rank s <= 13 * length (invs s)
  /\ (1 <= c -> ~ all_returned s' -> exists i a, progress_op (Act i a) = true /\ enabled s' (Act i a))
  /\ (total_rank s' = 0 <-> all_returned s').
Proof.
  intros s Hq Hos s'.
  assert (C : calm s) by (apply calm_quiet; [apply reach_Inv|exact Hq]).
  destruct (calm_run os' s C Hos) as [C' Hr]. fold s' in C', Hr.
  split; [apply quiet_P; [exact (proj1 C')|exact (proj2 C')]|].
  split; [exact Hr|]. split; [apply total_rank_bound|].
  split; [|apply total_rank_zero].
  intros Hc Hnr. apply no_deadlock; auto.
  unfold s', s. rewrite !conc_exec. exact Hc.
Qed.

Lemma overlap_before_fix :
  exists os i v, let s := exec (init 1 false) os in
    nth_error (invs s) i = Some v /\ running v = 2 /\ total_running s = 2 /\ conc s = 1.
Proof.
  exists [Invoke; Act 0 Pass; Act 0 Acquire; Act 0 Decide; Act 0 Start; PrioBegin; Act 0 Cancel; Act 0 Join;
          Act 0 Release; PrioEnd; PrioDec; Act 0 Pass; Act 0 Acquire; Act 0 Decide; Act 0 Start], 0.
  eexists. vm_compute. repeat split.
Qed.

(* ---------- the monitor only takes model steps ---------- *)
Lemma try_reach s o s' : try s o = Some s' -> s' = exec s [o].
Proof.
  unfold try. destruct (step s o) as [s1 ok] eqn:E. destruct ok; intros H; inversion H; subst.
  simpl. rewrite E. reflexivity.
Qed.

Lemma observe_reach s e s' : observe s e = Some s' -> exists os, s' = exec s os.
Proof.
  destruct e as [i| | | |i|i start|i|i|i|i|i|i k cancelled|i k|i]; simpl; intros H;
    try (eexists; apply try_reach; exact H).
  - destruct (i =? length (invs s)); [|discriminate]. eexists. apply try_reach. exact H.
  - destruct (try s (Act i Decide)) as [s1|] eqn:E; [|discriminate].
    assert (s' = s1).
    { destruct (pc_of s1 i) as [[]|]; try discriminate; destruct start; try discriminate; inversion H; auto. }
    subst. eexists. apply try_reach. exact E.
  - destruct (nth_error (invs s) i) as [v|]; [|discriminate].
    destruct (flag k (bodies v)) as [c'|]; [|discriminate].
    destruct (Bool.eqb cancelled c'); [|discriminate]. eexists. apply try_reach. exact H.
  - destruct (pc_of s i) as [[]|]; try discriminate. inversion H; subst. exists []. reflexivity.
Qed.

Lemma accept_reachable tr : forall s s' c os0,
  s = exec (init c true) os0 -> accept s tr = Some s' -> exists os, s' = exec (init c true) os.
Proof.
  induction tr as [|e tr IH]; intros s s' c os0 Hs H; simpl in H.
  - inversion H; subst. eauto.
  - destruct (observe (settle s) e) as [s1|] eqn:E; [|discriminate].
    destruct (observe_reach _ _ _ E) as [os1 H1].
    eapply (IH s1 s' c (os0 ++ pass_ops s ++ os1)); [|exact H].
    rewrite H1. unfold settle. rewrite Hs. rewrite !exec_app. reflexivity.
Qed.

(* while the invoker waits for <-done after cancel(), whatever still runs of its task is the cancelled execution *)
Lemma joining_cancelled s i v k :
  Inv s -> nth_error (invs s) i = Some v -> ipc v = PC k ->
  forall k' c, In (k', c) (bodies v) -> k' = k /\ c = true.
Proof.
  intros I Hn Hpc k' c Hin. pose proof (inv_l _ I _ _ Hn) as Hl. unfold linv in Hl. rewrite Hpc in Hl.
  destruct Hl as [Hl|Hl]; rewrite Hl in Hin; simpl in Hin; [tauto|].
  destruct Hin as [E|[]]. inversion E. auto.
Qed.
