(* C04 — fs/reader file.ReadAt (Model/HostileRead.v): no panic, no endless loop, for every chunk lookup. *)
From Coq Require Import List ZArith NArith Bool Lia.
From SV Require Import Model.Footer Model.HostileRead Model.HostileTree Proofs.Footer.
Import ListNotations.
Local Open Scope Z_scope.

Lemma wrap64_in_range x : - two63 <= x < two63 -> wrap64 x = x.
Proof.
  intros H. unfold wrap64, two63, two64 in *.
  destruct (Z_lt_dec x 0) as [Hn|Hp].
  - assert (E : x mod 18446744073709551616 = x + 18446744073709551616).
    { symmetry. apply (Z.mod_unique_pos _ _ (-1)); lia. }
    rewrite E. destruct (x + 18446744073709551616 <? 9223372036854775808) eqn:L.
    + apply Z.ltb_lt in L. lia.
    + lia.
  - rewrite Z.mod_small by lia. destruct (x <? 9223372036854775808) eqn:L; [reflexivity|].
    apply Z.ltb_ge in L. lia.
Qed.

Lemma wrap64_high x : two63 <= x < two64 -> wrap64 x = x - two64.
Proof.
  intros H. unfold wrap64, two63, two64 in *.
  rewrite Z.mod_small by lia. destruct (x <? 9223372036854775808) eqn:L; [|reflexivity].
  apply Z.ltb_lt in L. lia.
Qed.

(* the chunk check of C04-fix-7 excludes wrap-around: what passes it has e = co + cs *)
Lemma chunk_check_exact co cs cur :
  in64 co -> in64 cs ->
  ((co <? 0) || (wrap64 (co + cs) <? co) || (cur <? co) || (wrap64 (co + cs) <=? cur)) = false ->
  0 <= co /\ co <= cur /\ cur < co + cs /\ wrap64 (co + cs) = co + cs.
Proof.
  intros Hco Hcs H.
  apply orb_false_iff in H. destruct H as [H H4].
  apply orb_false_iff in H. destruct H as [H H3].
  apply orb_false_iff in H. destruct H as [H1 H2].
  apply Z.ltb_ge in H1. apply Z.ltb_ge in H2. apply Z.ltb_ge in H3. apply Z.leb_gt in H4.
  unfold in64 in *.
  assert (Hr : - two63 <= co + cs < two63 \/ two63 <= co + cs < two64).
  { unfold two63, two64 in *. lia. }
  destruct Hr as [Hr|Hr].
  - rewrite (wrap64_in_range _ Hr) in *. lia.
  - rewrite (wrap64_high _ Hr) in H2. unfold two63, two64 in *. lia.
Qed.

Section Proofs.
  Variable lk : Z -> option (Z * Z).
  Variable orc : Z -> it_oracle.
  Variable max_alloc : Z.
  Variable offset len : Z.

  (* Go values: the lookup answers with int64 pairs; a ReaderAt returns a non-negative count *)
  Hypothesis lk_int64 : forall off co cs, lk off = Some (co, cs) -> in64 co /\ in64 cs.
  Hypothesis read_count_nonneg : forall nr n, it_read (orc nr) = Some n -> 0 <= n.

  Definition alloc_ok : Prop := forall off co cs, lk off = Some (co, cs) -> cs <= max_alloc.

  Lemma repeat_zlen (n : Z) : 0 <= n -> zlen (repeat 0%N (Z.to_nat n)) = n.
  Proof. intros H. unfold zlen. rewrite repeat_length. lia. Qed.

  (* one iteration: progress or a final result that is neither a hang nor (allocation permitting) a panic *)
  Lemma read_iter_spec nr :
    0 <= nr < len ->
    match read_iter lk orc max_alloc offset len nr with
    | Next nr' => nr < nr'
    | Done r => r <> OutOfFuel /\ (alloc_ok -> r <> Panic)
    end.
  Proof.
    intros Hnr. unfold read_iter.
    destruct (lk (offset + nr)) as [[co cs]|] eqn:Elk; [|split; [discriminate|intros _; discriminate]].
    destruct (lk_int64 _ _ _ Elk) as [Hco Hcs].
    destruct ((co <? 0) || (wrap64 (co + cs) <? co) || (offset + nr <? co) || (wrap64 (co + cs) <=? offset + nr)) eqn:Echk;
      [split; [discriminate|intros _; discriminate]|].
    destruct (chunk_check_exact co cs (offset + nr) Hco Hcs Echk) as [H0 [H1 [H2 He]]].
    rewrite He.
    set (lower := offset + nr - co).
    set (upper := positive (co + cs - (offset + len))).
    set (expected := cs - upper - lower).
    assert (Hup : 0 <= upper) by (unfold upper, positive; destruct (co + cs - (offset + len) <? 0) eqn:E; [lia|apply Z.ltb_ge in E; lia]).
    assert (Hexp : 1 <= expected /\ nr + expected <= len).
    { unfold expected, upper, lower, positive.
      destruct (co + cs - (offset + len) <? 0) eqn:E; [apply Z.ltb_lt in E|apply Z.ltb_ge in E]; lia. }
    assert (Hlen : zlen (repeat 0%N (Z.to_nat len)) = len) by (apply repeat_zlen; lia).
    destruct (it_hit (orc nr)) eqn:Ehit.
    - (* cache hit *)
      destruct (sl (repeat 0%N (Z.to_nat len)) nr (nr + expected)) eqn:Esl.
      + lia.
      + exfalso. apply sl_none_inv in Esl. apply Esl. rewrite Hlen. lia.
    - destruct ((lower =? 0) && (upper =? 0)) eqn:Edirect.
      + (* direct read into p *)
        apply andb_true_iff in Edirect. destruct Edirect as [El Eu].
        apply Z.eqb_eq in El. apply Z.eqb_eq in Eu.
        assert (Hcs' : cs = expected) by (unfold expected; lia).
        destruct (sl (repeat 0%N (Z.to_nat len)) nr (nr + cs)) eqn:Esl.
        * destruct (it_read (orc nr)) as [n|] eqn:Erd; [|split; [discriminate|intros _; discriminate]].
          destruct (negb (it_verify (orc nr))); [split; [discriminate|intros _; discriminate]|].
          destruct (n =? 0) eqn:En; [split; [discriminate|intros _; discriminate]|].
          apply Z.eqb_neq in En. pose proof (read_count_nonneg _ _ Erd). lia.
        * exfalso. apply sl_none_inv in Esl. apply Esl. rewrite Hlen. lia.
      + (* temporary buffer of the chunk size *)
        destruct ((cs <? 0) || (max_alloc <? cs)) eqn:Ealloc.
        * split; [discriminate|]. intros Hok. exfalso.
          apply orb_true_iff in Ealloc. destruct Ealloc as [E|E]; apply Z.ltb_lt in E.
          -- lia.
          -- pose proof (Hok _ _ _ Elk). lia.
        * destruct (it_read (orc nr)) as [n|] eqn:Erd; [|split; [discriminate|intros _; discriminate]].
          destruct (negb (it_verify (orc nr))); [split; [discriminate|intros _; discriminate]|].
          assert (Hs1 : ((0 <=? lower) && (lower <=? cs - upper) && (cs - upper <=? cs)) = true).
          { unfold expected, lower in *. apply andb_true_iff. split; [apply andb_true_iff; split|]; apply Z.leb_le; lia. }
          rewrite Hs1. simpl.
          assert (Hs2 : ((0 <=? nr) && (nr <=? len)) = true).
          { apply andb_true_iff. split; apply Z.leb_le; lia. }
          rewrite Hs2. simpl.
          fold expected.
          assert (Hmin : Z.min (len - nr) expected = expected) by lia.
          rewrite Hmin. rewrite Z.eqb_refl. simpl. lia.
  Qed.

  Lemma read_loop_spec : forall fuel nr,
    0 <= nr -> (Z.to_nat (len - nr) < fuel)%nat ->
    read_loop lk orc max_alloc offset len fuel nr <> OutOfFuel
    /\ (alloc_ok -> read_loop lk orc max_alloc offset len fuel nr <> Panic).
  Proof.
    induction fuel as [|f IH]; intros nr Hnr Hfuel; [lia|].
    simpl. destruct (len <=? nr) eqn:Eend; [split; [discriminate|intros _; discriminate]|].
    apply Z.leb_gt in Eend.
    pose proof (read_iter_spec nr (conj Hnr Eend)) as Hspec.
    destruct (read_iter lk orc max_alloc offset len nr) as [r|nr'].
    - exact Hspec.
    - apply IH; lia.
  Qed.

  Lemma read_at_no_hang : read_at lk orc max_alloc offset len <> OutOfFuel.
  Proof. unfold read_at. apply read_loop_spec; lia. Qed.

  Lemma read_at_no_panic : alloc_ok -> read_at lk orc max_alloc offset len <> Panic.
  Proof. unfold read_at. apply read_loop_spec; lia. Qed.
End Proofs.

(* a chunk larger than any buffer the process can obtain, read at an unaligned offset: Grow panics *)
Lemma read_at_huge_chunk_panics :
  read_at (fun _ => Some (0, 4611686018427387904)) (fun _ => mkIt false (Some 4) true) 2147483648 1 4 = Panic.
Proof. vm_compute. reflexivity. Qed.

(* capacity hint of the chunk table (C04-fix-16): in range for all int64 sizes *)
Lemma chunk_table_cap_total max_cap size cs nentries :
  in64 size -> in64 cs -> 1 <= nentries <= max_cap -> max_cap < two63 ->
  SV.Proofs.Footer.total (HostileTree.chunk_table_cap max_cap size cs nentries).
Proof.
  intros Hs Hc Hn Hm. unfold HostileTree.chunk_table_cap.
  destruct ((0 <? cs) && (cs <? size)) eqn:E; [|auto with c04].
  apply andb_true_iff in E. destruct E as [E1 E2]. apply Z.ltb_lt in E1. apply Z.ltb_lt in E2.
  assert (Hq : 1 <= size / cs <= size).
  { split; [apply Z.div_le_lower_bound; lia|apply Z.div_le_upper_bound; nia]. }
  unfold in64 in *.
  set (n' := if nentries <=? size / cs then nentries - 1 else size / cs).
  assert (Hn' : 0 <= n' < nentries).
  { unfold n'. destruct (nentries <=? size / cs) eqn:L; [apply Z.leb_le in L|apply Z.leb_gt in L]; lia. }
  rewrite wrap64_in_range by (unfold two63 in *; lia).
  unfold HostileTree.make_cap.
  destruct ((n' + 1 <? 0) || (max_cap <? n' + 1)) eqn:B; [|auto with c04].
  apply orb_true_iff in B. destruct B as [B|B]; apply Z.ltb_lt in B; lia.
Qed.

Lemma chunk_table_cap_before_fix16_panics :
  HostileTree.chunk_table_cap_before_fix16 1000000 9223372036854775807 1 1 = Panic.
Proof. vm_compute. reflexivity. Qed.
