(* Proofs about Model/Fusemgr.v: association lists, restoreFuseInfo, the invariant tying the manager's table,
   the store and what the filesystem instances serve, its preservation by every op, and the consequences
   used by Properties/C17.v. *)
From Coq Require Import List Arith Bool Lia Sorted.
From SV Require Import Model.Fusemgr.
Import ListNotations.

(* ---------- association lists ---------- *)
Definition keys {V} (l : list (nat * V)) : list nat := map fst l.
Definition ksorted {V} (l : list (nat * V)) : Prop := StronglySorted lt (keys l).

Lemma find_put_eq : forall V (l : list (nat * V)) k v, find (put l k v) k = Some v.
Proof.
  induction l as [|[k' v'] t IH]; intros k v; cbn [find put del keys map fst snd In].
  - now rewrite Nat.eqb_refl.
  - destruct (Nat.ltb k k') eqn:E1; cbn [find put del keys map fst snd In].
    + now rewrite Nat.eqb_refl.
    + destruct (Nat.eqb k k') eqn:E2; cbn [find put del keys map fst snd In].
      * now rewrite Nat.eqb_refl.
      * rewrite Nat.eqb_sym, E2. apply IH.
Qed.

Lemma find_put_neq : forall V (l : list (nat * V)) k v k', k' <> k -> find (put l k v) k' = find l k'.
Proof.
  induction l as [|[k0 v0] t IH]; intros k v k' N; cbn [find put del keys map fst snd In].
  - destruct (Nat.eqb k k') eqn:E; [apply Nat.eqb_eq in E; congruence|reflexivity].
  - destruct (Nat.ltb k k0) eqn:E1; cbn [find put del keys map fst snd In].
    + destruct (Nat.eqb k k') eqn:E; [apply Nat.eqb_eq in E; congruence|reflexivity].
    + destruct (Nat.eqb k k0) eqn:E2; cbn [find put del keys map fst snd In].
      * apply Nat.eqb_eq in E2; subst k0.
        destruct (Nat.eqb k k') eqn:E; [apply Nat.eqb_eq in E; congruence|reflexivity].
      * destruct (Nat.eqb k0 k'); [reflexivity|now apply IH].
Qed.

Lemma find_del_eq : forall V (l : list (nat * V)) k, find (del l k) k = None.
Proof.
  induction l as [|[k0 v0] t IH]; intros k; cbn [find put del keys map fst snd In]; [reflexivity|].
  destruct (Nat.eqb k0 k) eqn:E; cbn [find put del keys map fst snd In]; [apply IH|rewrite E; apply IH].
Qed.

Lemma find_del_neq : forall V (l : list (nat * V)) k k', k' <> k -> find (del l k) k' = find l k'.
Proof.
  induction l as [|[k0 v0] t IH]; intros k k' N; cbn [find put del keys map fst snd In]; [reflexivity|].
  destruct (Nat.eqb k0 k) eqn:E; cbn [find put del keys map fst snd In].
  - apply Nat.eqb_eq in E; subst k0.
    destruct (Nat.eqb k k') eqn:E'; [apply Nat.eqb_eq in E'; congruence|now apply IH].
  - destruct (Nat.eqb k0 k'); [reflexivity|now apply IH].
Qed.

Lemma find_none_keys : forall V (l : list (nat * V)) k, find l k = None <-> ~ In k (keys l).
Proof.
  induction l as [|[k0 v0] t IH]; intros k; cbn [find put del keys map fst snd In]; [tauto|].
  destruct (Nat.eqb k0 k) eqn:E.
  - apply Nat.eqb_eq in E. split; [discriminate|intros H; exfalso; apply H; now left].
  - apply Nat.eqb_neq in E. rewrite IH. tauto.
Qed.

Lemma find_some_in : forall V (l : list (nat * V)) k v, find l k = Some v -> In (k, v) l.
Proof.
  induction l as [|[k0 v0] t IH]; intros k v; cbn [find put del keys map fst snd In]; [discriminate|].
  destruct (Nat.eqb k0 k) eqn:E.
  - apply Nat.eqb_eq in E. intros H; inversion H; subst. now left.
  - intros H. right. now apply IH.
Qed.

Lemma in_find_nodup : forall V (l : list (nat * V)) k v, NoDup (keys l) -> In (k, v) l -> find l k = Some v.
Proof.
  induction l as [|[k0 v0] t IH]; intros k v ND HI; cbn [find put del keys map fst snd In] in *; [contradiction|].
  inversion ND as [|? ? Hn ND']; subst.
  destruct HI as [HI|HI].
  - inversion HI; subst. now rewrite Nat.eqb_refl.
  - destruct (Nat.eqb k0 k) eqn:E.
    + apply Nat.eqb_eq in E; subst k0. exfalso. apply Hn. unfold keys. now apply (in_map fst) in HI.
    + now apply IH.
Qed.

Lemma keys_put : forall V (l : list (nat * V)) k v x, In x (keys (put l k v)) <-> x = k \/ In x (keys l).
Proof.
  induction l as [|[k0 v0] t IH]; intros k v x; cbn [find put del keys map fst snd In].
  - intuition.
  - destruct (Nat.ltb k k0) eqn:E1; cbn [find put del keys map fst snd In]; [intuition|].
    destruct (Nat.eqb k k0) eqn:E2; cbn [find put del keys map fst snd In].
    + apply Nat.eqb_eq in E2; subst. intuition.
    + unfold keys in IH. rewrite IH. intuition.
Qed.

Lemma keys_del : forall V (l : list (nat * V)) k x, In x (keys (del l k)) -> In x (keys l).
Proof.
  induction l as [|[k0 v0] t IH]; intros k x; cbn [find put del keys map fst snd In]; [tauto|].
  destruct (Nat.eqb k0 k); cbn [find put del keys map fst snd In]; intros H; [right; eapply IH; eauto|].
  destruct H; [now left|right; eapply IH; eauto].
Qed.

Lemma put_sorted : forall V (l : list (nat * V)) k v, ksorted l -> ksorted (put l k v).
Proof.
  unfold ksorted.
  induction l as [|[k0 v0] t IH]; intros k v S; cbn [find put del keys map fst snd In].
  - constructor; constructor.
  - cbn [keys map fst] in S. apply StronglySorted_inv in S. destruct S as [S F].
    destruct (Nat.ltb k k0) eqn:E1.
    + apply Nat.ltb_lt in E1. cbn. constructor.
      * constructor; assumption.
      * constructor; [assumption|]. eapply Forall_impl; [|exact F]. intros; lia.
    + apply Nat.ltb_ge in E1. destruct (Nat.eqb k k0) eqn:E2.
      * apply Nat.eqb_eq in E2; subst. cbn. constructor; assumption.
      * apply Nat.eqb_neq in E2. cbn. constructor; [now apply IH|].
        apply Forall_forall. intros x Hx. apply (keys_put V t k v x) in Hx.
        destruct Hx as [->|Hx]; [lia|]. rewrite Forall_forall in F. now apply F.
Qed.

Lemma del_sorted : forall V (l : list (nat * V)) k, ksorted l -> ksorted (del l k).
Proof.
  unfold ksorted.
  induction l as [|[k0 v0] t IH]; intros k S; cbn [find put del keys map fst snd In]; [constructor|].
  cbn [keys map fst] in S. apply StronglySorted_inv in S. destruct S as [S F].
  destruct (Nat.eqb k0 k); [now apply IH|].
  cbn. constructor; [now apply IH|].
  apply Forall_forall. intros x Hx. apply keys_del in Hx. rewrite Forall_forall in F. now apply F.
Qed.

Lemma sorted_nodup : forall l, StronglySorted lt l -> NoDup l.
Proof.
  induction l as [|a t IH]; intros S; [constructor|].
  apply StronglySorted_inv in S. destruct S as [S F]. constructor; [|now apply IH].
  intros HI. rewrite Forall_forall in F. specialize (F _ HI). lia.
Qed.

(* ---------- instance lists ---------- *)
Lemma length_upd : forall A (l : list A) n x, length (upd l n x) = length l.
Proof. induction l; intros [|n] x; cbn; auto. Qed.

Lemma nth_upd_eq : forall A (l : list A) n x, n < length l -> nth_error (upd l n x) n = Some x.
Proof. induction l; intros [|n] x H; cbn in *; try lia; auto. apply IHl. lia. Qed.

Lemma nth_upd_neq : forall A (l : list A) n x j, j <> n -> nth_error (upd l n x) j = nth_error l j.
Proof. induction l; intros [|n] x [|j] H; cbn; auto; try congruence. Qed.

Lemma occ_cons : forall m m' l t, occ m ((m', l) :: t) = (if Nat.eqb m' m then 1 else 0) + occ m t.
Proof. intros. unfold occ. cbn. destruct (Nat.eqb m' m); reflexivity. Qed.

Lemma occ_rm1_neq : forall t m m', m' <> m -> occ m' (rm1 t m) = occ m' t.
Proof.
  induction t as [|[a b] t IH]; intros m m' N; cbn [rm1]; [reflexivity|].
  destruct (Nat.eqb a m) eqn:E.
  - apply Nat.eqb_eq in E; subst a. rewrite occ_cons.
    destruct (Nat.eqb m m') eqn:E'; [apply Nat.eqb_eq in E'; congruence|reflexivity].
  - rewrite !occ_cons. now rewrite IH.
Qed.

Lemma occ_rm1_eq : forall t m, occ m (rm1 t m) = pred (occ m t).
Proof.
  induction t as [|[a b] t IH]; intros m; cbn [rm1]; [reflexivity|].
  destruct (Nat.eqb a m) eqn:E.
  - rewrite occ_cons, E. reflexivity.
  - rewrite !occ_cons, E. cbn [Nat.add]. apply IH.
Qed.

Lemma occ_pos_in : forall t m, 0 < occ m t <-> exists l, In (m, l) t.
Proof.
  induction t as [|[a b] t IH]; intros m.
  - cbn. split; [lia|intros [? []]].
  - rewrite occ_cons. destruct (Nat.eqb a m) eqn:E.
    + apply Nat.eqb_eq in E; subst. split; [intros _; exists b; now left|intros _; lia].
    + apply Nat.eqb_neq in E. cbn. rewrite IH. split; intros [l H]; exists l.
      * now right.
      * destruct H as [H|H]; [inversion H; congruence|assumption].
Qed.

Lemma mnts_inst_mount : forall is i m l j, i < length is ->
  mnts (inst_mount is i m l) j = if Nat.eqb j i then (m, l) :: mnts is j else mnts is j.
Proof.
  intros is i m l j H. unfold inst_mount, mnts.
  destruct (nth_error is i) eqn:E; [|apply nth_error_None in E; lia].
  destruct (Nat.eqb j i) eqn:EJ.
  - apply Nat.eqb_eq in EJ; subst j. rewrite nth_upd_eq by assumption. now rewrite E.
  - apply Nat.eqb_neq in EJ. now rewrite nth_upd_neq.
Qed.

Lemma mnts_inst_unmount : forall is i m j, i < length is ->
  mnts (inst_unmount is i m) j = if Nat.eqb j i then rm1 (mnts is j) m else mnts is j.
Proof.
  intros is i m j H. unfold inst_unmount, mnts.
  destruct (nth_error is i) eqn:E; [|apply nth_error_None in E; lia].
  destruct (Nat.eqb j i) eqn:EJ.
  - apply Nat.eqb_eq in EJ; subst j. rewrite nth_upd_eq by assumption. now rewrite E.
  - apply Nat.eqb_neq in EJ. now rewrite nth_upd_neq.
Qed.

Lemma length_inst_mount : forall is i m l, length (inst_mount is i m l) = length is.
Proof. intros. unfold inst_mount. destruct (nth_error is i); [apply length_upd|reflexivity]. Qed.
Lemma length_inst_unmount : forall is i m, length (inst_unmount is i m) = length is.
Proof. intros. unfold inst_unmount. destruct (nth_error is i); [apply length_upd|reflexivity]. Qed.

Lemma mnts_app_new : forall is x j,
  mnts (is ++ [x]) j = if Nat.eqb j (length is) then i_mnt x else mnts is j.
Proof.
  intros is x j. unfold mnts. destruct (Nat.eqb j (length is)) eqn:E.
  - apply Nat.eqb_eq in E; subst. rewrite nth_error_app2 by lia. now rewrite Nat.sub_diag.
  - apply Nat.eqb_neq in E. destruct (Nat.lt_ge_cases j (length is)) as [L|G].
    + now rewrite nth_error_app1.
    + rewrite nth_error_app2 by lia. destruct (j - length is) as [|[|d]] eqn:D; try lia; cbn.
      * assert (nth_error is j = None) as -> by (apply nth_error_None; lia). reflexivity.
      * assert (nth_error is j = None) as -> by (apply nth_error_None; lia). reflexivity.
Qed.

Lemma mnts_out : forall is j, length is <= j -> mnts is j = [].
Proof. intros. unfold mnts. assert (nth_error is j = None) as -> by (now apply nth_error_None). reflexivity. Qed.

(* ---------- restoreFuseInfo ---------- *)
Definition own (fm : list (nat * nat)) (m i : nat) : bool :=
  match find fm m with Some j => Nat.eqb j i | None => false end.
(* the table [fm] agrees with what instance n serves *)
Definition agree (n : nat) (fm mnt : list (nat * nat)) : Prop :=
  forall m, occ m mnt = if own fm m n then 1 else 0.
Definition rcall (n : nat) (r : nat * (nat * nat)) : call := (n, KMount, fst r, fst (snd r)).

Lemma restore_spec : forall n recs sc fm mnt fm' mnt' cs ok,
  restore n recs sc fm mnt = (fm', mnt', cs, ok) ->
  agree n fm mnt ->
  agree n fm' mnt'
  /\ (forall m i, find fm m = Some i -> find fm' m = Some i)
  /\ (forall m i, find fm' m = Some i -> find fm m = Some i \/ (i = n /\ find fm m = None /\ In m (keys recs)))
  /\ (ok = true -> forall m, In m (keys recs) -> find fm' m <> None)
  /\ (forall c, In c cs -> exists m l c0, c = (n, KMount, m, l) /\ In (m, (l, c0)) recs /\ find fm m = None)
  /\ (forall x, In x mnt -> In x mnt').
Proof.
  induction recs as [|[m [l c0]] t IH]; intros sc fm mnt fm' mnt' cs ok H A.
  - cbn in H. inversion H; subst. repeat split; auto; try (intros; contradiction).
  - cbn [restore] in H. destruct (find fm m) as [j|] eqn:Fm.
    + destruct (IH _ _ _ _ _ _ _ H A) as (A' & K & B & R & C & Mo).
      repeat split; auto.
      * intros m0 i Hf. destruct (B _ _ Hf) as [?|(?&?&?)]; [now left|right; repeat split; auto; now right].
      * intros Hok m0 [Hm|Hm]; [|now apply R]. cbn in Hm; subst m0. rewrite (K _ _ Fm). discriminate.
      * intros c Hc. destruct (C _ Hc) as (m1 & l1 & c1 & E & HI & Hn). exists m1, l1, c1. repeat split; auto. now right.
    + destruct (hd true sc) eqn:Hd.
      * destruct (restore n t (tl sc) (put fm m n) ((m, l) :: mnt)) as [[[fm1 mnt1] cs1] ok1] eqn:R1.
        inversion H; subst fm1 mnt1 cs ok1; clear H.
        assert (A1 : agree n (put fm m n) ((m, l) :: mnt)).
        { intros m0. rewrite occ_cons. unfold own. destruct (Nat.eqb m m0) eqn:E.
          - apply Nat.eqb_eq in E; subst m0. rewrite find_put_eq, Nat.eqb_refl.
            rewrite (A m). unfold own. now rewrite Fm.
          - apply Nat.eqb_neq in E. rewrite find_put_neq by congruence. apply (A m0). }
        destruct (IH _ _ _ _ _ _ _ R1 A1) as (A' & K & B & R & C & Mo).
        repeat split; auto.
        -- intros m0 i Hf. apply K. rewrite find_put_neq; [assumption|]. intros ->. congruence.
        -- intros m0 i Hf. destruct (B _ _ Hf) as [Hp|(Hi & Hp & Hk)].
           ++ destruct (Nat.eq_dec m0 m) as [->|N].
              ** rewrite find_put_eq in Hp. inversion Hp; subst i. right. repeat split; auto. now left.
              ** rewrite find_put_neq in Hp by assumption. now left.
           ++ destruct (Nat.eq_dec m0 m) as [->|N].
              ** rewrite find_put_eq in Hp. discriminate.
              ** rewrite find_put_neq in Hp by assumption. right. repeat split; auto. now right.
        -- intros Hok m0 [Hm|Hm]; [|now apply R]. cbn in Hm; subst m0.
           rewrite (K m n (find_put_eq _ fm m n)). discriminate.
        -- intros c [Hc|Hc].
           ++ subst c. exists m, l, c0. repeat split; auto. now left.
           ++ destruct (C _ Hc) as (m1 & l1 & c1 & E & HI & Hn). exists m1, l1, c1. repeat split; auto; [now right|].
              destruct (Nat.eq_dec m1 m) as [->|N]; [assumption|]. now rewrite find_put_neq in Hn.
        -- intros x Hx. apply Mo. now right.
      * inversion H; subst; clear H. repeat split; auto; try discriminate.
        intros c [Hc|[]]. subst c. exists m, l, c0. repeat split; auto. now left.
Qed.

Lemma restore_mono : forall n recs sc fm mnt fm' mnt' cs ok,
  restore n recs sc fm mnt = (fm', mnt', cs, ok) ->
  (forall m i, find fm m = Some i -> find fm' m = Some i) /\ (forall x, In x mnt -> In x mnt').
Proof.
  induction recs as [|[m [l c0]] t IH]; intros sc fm mnt fm' mnt' cs ok H.
  - cbn in H. inversion H; subst. split; auto.
  - cbn [restore] in H. destruct (find fm m) as [j|] eqn:Fm.
    + eapply IH; eauto.
    + destruct (hd true sc).
      * destruct (restore n t (tl sc) (put fm m n) ((m, l) :: mnt)) as [[[fm1 mnt1] cs1] ok1] eqn:R1.
        inversion H; subst fm1 mnt1 cs ok1; clear H.
        destruct (IH _ _ _ _ _ _ _ R1) as [K Mo]. split.
        -- intros m0 i Hf. apply K. rewrite find_put_neq; [assumption|]. intros ->. congruence.
        -- intros x Hx. apply Mo. now right.
      * inversion H; subst. split; auto.
Qed.

Lemma restore_calls : forall n recs sc fm mnt fm' mnt' cs ok,
  restore n recs sc fm mnt = (fm', mnt', cs, ok) ->
  NoDup (keys recs) -> (forall m, In m (keys recs) -> find fm m = None) ->
  (exists k, cs = firstn k (map (rcall n) recs) /\ (ok = true -> cs = map (rcall n) recs))
  /\ (ok = true -> forall m l c0, In (m, (l, c0)) recs -> In (m, l) mnt' /\ find fm' m = Some n).
Proof.
  induction recs as [|[m [l c0]] t IH]; intros sc fm mnt fm' mnt' cs ok H ND U.
  - cbn in H. inversion H; subst. split; [exists 0; split; reflexivity|]. intros _ ? ? ? [].
  - cbn [restore] in H. rewrite (U m) in H by (now left).
    cbn [keys map fst] in ND. inversion ND as [|? ? Hn ND']; subst.
    destruct (hd true sc) eqn:Hd.
    + destruct (restore n t (tl sc) (put fm m n) ((m, l) :: mnt)) as [[[fm1 mnt1] cs1] ok1] eqn:R1.
      inversion H; subst fm1 mnt1 cs ok1; clear H.
      assert (U1 : forall m0, In m0 (keys t) -> find (put fm m n) m0 = None).
      { intros m0 Hm0. rewrite find_put_neq; [apply U; now right|]. intros ->. contradiction. }
      destruct (IH _ _ _ _ _ _ _ R1 ND' U1) as ((k & Ek & Eall) & L).
      split.
      * exists (S k). cbn [map firstn rcall fst snd]. split; [now rewrite Ek|]. intros Hok. now rewrite (Eall Hok).
      * intros Hok m0 l0 c1 [HI|HI].
        -- inversion HI; subst m0 l0 c1.
           destruct (restore_mono _ _ _ _ _ _ _ _ _ R1) as [K Mo]. split.
           ++ apply Mo. now left.
           ++ apply K. apply find_put_eq.
        -- now apply (L Hok m0 l0 c1).
    + inversion H; subst; clear H. split.
      * exists 1. cbn [map firstn rcall fst snd]. split; [reflexivity|discriminate].
      * discriminate.
Qed.

(* ---------- the invariant ---------- *)
Record inv (s : st) : Prop := mkInv {
  inv_tab : forall m i, occ m (mnt_of s i) = if own (fsmap s) m i then 1 else 0;
  inv_rec : closed s = false -> forall m, tracked s m -> recorded s m;
  inv_full : closed s = false -> stat s = Ready -> ierr s = false -> forall m, recorded s m -> tracked s m;
  inv_cur : forall i, cur s = Some i -> i < length (insts s) /\ cfg s <> None;
  inv_nocur : cur s = None -> fsmap s = [];
  inv_sorted : ksorted (store s);
  inv_closed : closed s = true -> store s = []
}.

Lemma inv_bnd : forall s m i, inv s -> find (fsmap s) m = Some i -> i < length (insts s).
Proof.
  intros s m i I H. destruct (Nat.lt_ge_cases i (length (insts s))) as [L|G]; [assumption|exfalso].
  pose proof (inv_tab s I m i) as T. unfold mnt_of in T. rewrite mnts_out in T by assumption.
  unfold own in T. rewrite H, Nat.eqb_refl in T. cbn in T. discriminate.
Qed.

Lemma own_true : forall fm m i, own fm m i = true <-> find fm m = Some i.
Proof.
  intros. unfold own. destruct (find fm m) as [j|]; [|split; discriminate].
  rewrite Nat.eqb_eq. split; [now intros ->|now inversion 1].
Qed.

Lemma find_not_none_keys : forall V (l : list (nat * V)) k, find l k <> None <-> In k (keys l).
Proof.
  intros. split.
  - intros H. destruct (in_dec Nat.eq_dec k (keys l)) as [I|N]; [assumption|].
    exfalso. apply H. now apply find_none_keys.
  - intros I H. apply find_none_keys in H. contradiction.
Qed.

Lemma inv_init : forall g e, inv (init g e).
Proof.
  intros. constructor; cbn; try discriminate; auto.
  - intros m i. unfold mnt_of, mnts. cbn. now destruct i.
  - intros _ m H. now contradiction H.
  - constructor.
Qed.

Lemma init_step_inv : forall s c k sc, inv s -> inv (fst (step s (Init c k sc))).
Proof.
  intros s c k sc I. destruct I as [T R F C N S CL].
  pose proof (mkInv s T R F C N S CL) as I.
  cbn [step]. destruct k.
  - (* bad JSON *) cbn. constructor; cbn; auto; discriminate.
  - cbn. constructor; cbn; auto; try discriminate.
    intros i Hi. destruct (C i Hi). split; [assumption|discriminate].
  - cbn. constructor; cbn; auto; try discriminate.
    intros i Hi. destruct (C i Hi). split; [assumption|discriminate].
  - destruct (closed s) eqn:Ecl.
    + cbn. constructor; cbn; auto; try discriminate.
      * intros m i. unfold mnt_of. cbn [insts]. rewrite mnts_app_new.
        destruct (Nat.eqb i (length (insts s))) eqn:E; [|apply T].
        apply Nat.eqb_eq in E; subst i. cbn.
        destruct (own (fsmap s) m (length (insts s))) eqn:O; [|reflexivity].
        apply own_true in O. apply (inv_bnd s m _ I) in O. lia.
      * intros i Hi. inversion Hi; subst. rewrite app_length. cbn. split; [lia|discriminate].
    + destruct (restore (length (insts s)) (store s) sc (fsmap s) []) as [[[fm mnt] cs] ok] eqn:Rs.
      assert (A0 : agree (length (insts s)) (fsmap s) []).
      { intros m. cbn. destruct (own (fsmap s) m (length (insts s))) eqn:O; [|reflexivity].
        apply own_true in O. apply (inv_bnd s m _ I) in O. lia. }
      destruct (restore_spec _ _ _ _ _ _ _ _ _ Rs A0) as (A' & K & B & Rk & Cc & Mo).
      cbn. constructor; cbn; auto; try discriminate.
      * intros m i. unfold mnt_of. cbn [insts]. rewrite mnts_app_new.
        destruct (Nat.eqb i (length (insts s))) eqn:E.
        -- apply Nat.eqb_eq in E; subst i. cbn. apply A'.
        -- apply Nat.eqb_neq in E. pose proof (T m i) as Tm. unfold mnt_of in Tm. rewrite Tm.
           match goal with |- (if ?a then _ else _) = (if ?b then _ else _) => assert (a = b) as ->; [|reflexivity] end.
           unfold own. destruct (find (fsmap s) m) as [j|] eqn:Fj.
           ++ now rewrite (K _ _ Fj).
           ++ destruct (find fm m) as [j'|] eqn:Fj'; [|reflexivity].
              destruct (B _ _ Fj') as [X|(X & _)]; [congruence|]. subst j'.
              symmetry. apply Nat.eqb_neq. congruence.
      * intros _ m Ht. unfold tracked, recorded in *. cbn in *.
        destruct (find fm m) as [j|] eqn:Fj; [|congruence].
        destruct (B _ _ Fj) as [X|(_ & _ & X)].
        -- apply R; [reflexivity|]. congruence.
        -- now apply find_not_none_keys.
      * intros _ _ Hok m Hr. unfold tracked, recorded in *. cbn in *.
        apply Rk; [now destruct ok|]. now apply find_not_none_keys.
      * intros i Hi. inversion Hi; subst. rewrite app_length. cbn. split; [lia|discriminate].
Qed.

Lemma mount_step_inv : forall s m l ok, inv s -> inv (fst (step s (Mount m l ok))).
Proof.
  intros s m l ok I. destruct I as [T R F C N S CL].
  pose proof (mkInv s T R F C N S CL) as I.
  cbn [step]. destruct (stat s) eqn:Est; try exact I.
  destruct (find (fsmap s) m) as [j|] eqn:Fm.
  - destruct (cfg s) as [c|] eqn:Ec; [|exact I].
    cbn. unfold store_put. destruct (closed s) eqn:Ecl.
    + constructor; cbn; auto; try congruence.
    + constructor; cbn; auto; try congruence.
      * intros _ m0 Ht. unfold recorded. cbn. destruct (Nat.eq_dec m0 m) as [->|Nm].
        -- rewrite find_put_eq. discriminate.
        -- rewrite find_put_neq by assumption. now apply R.
      * intros _ _ Hi m0 Hr. unfold recorded in Hr. cbn in Hr. destruct (Nat.eq_dec m0 m) as [->|Nm].
        -- unfold tracked. cbn. congruence.
        -- rewrite find_put_neq in Hr by assumption. now apply F.
      * now apply put_sorted.
  - destruct (cur s) as [i|] eqn:Ecur; [|exact I].
    destruct ok; [|exact I].
    destruct (C i eq_refl) as [Li Cn].
    destruct (cfg s) as [c|] eqn:Ec; [|congruence].
    cbn.
    assert (TAB : forall m0 i0, occ m0 (mnts (inst_mount (insts s) i m l) i0) = if own (put (fsmap s) m i) m0 i0 then 1 else 0).
    { intros m0 i0. rewrite mnts_inst_mount by assumption. unfold own.
      destruct (Nat.eqb i0 i) eqn:Ei.
      - apply Nat.eqb_eq in Ei; subst i0. rewrite occ_cons.
        destruct (Nat.eqb m m0) eqn:Em.
        + apply Nat.eqb_eq in Em; subst m0. rewrite find_put_eq, Nat.eqb_refl.
          pose proof (T m i) as Tm. unfold mnt_of in Tm. rewrite Tm. unfold own. now rewrite Fm.
        + apply Nat.eqb_neq in Em. rewrite find_put_neq by congruence. apply (T m0 i).
      - destruct (Nat.eq_dec m0 m) as [->|Nm].
        + rewrite find_put_eq. rewrite Nat.eqb_sym, Ei.
          pose proof (T m i0) as Tm. unfold mnt_of in Tm. rewrite Tm. unfold own. now rewrite Fm.
        + rewrite find_put_neq by assumption. apply (T m0 i0). }
    unfold store_put. destruct (closed s) eqn:Ecl.
    + constructor; cbn; auto; try congruence.
      intros i0 Hi0. rewrite length_inst_mount. inversion Hi0; subst. split; [assumption|congruence].
    + constructor; cbn; auto; try congruence.
      * intros _ m0 Ht. unfold recorded, tracked in *. cbn in *. destruct (Nat.eq_dec m0 m) as [->|Nm].
        -- rewrite find_put_eq. discriminate.
        -- rewrite find_put_neq in * by assumption. now apply R.
      * intros _ _ Hi m0 Hr. unfold recorded, tracked in *. cbn in *. destruct (Nat.eq_dec m0 m) as [->|Nm].
        -- rewrite find_put_eq. discriminate.
        -- rewrite find_put_neq in * by assumption. now apply F.
      * intros i0 Hi0. rewrite length_inst_mount. inversion Hi0; subst. split; [assumption|congruence].
      * now apply put_sorted.
Qed.

Lemma unmount_step_inv : forall s m ok, inv s -> inv (fst (step s (Unmount m ok))).
Proof.
  intros s m ok I. destruct I as [T R F C N S CL].
  pose proof (mkInv s T R F C N S CL) as I.
  cbn [step]. destruct (stat s) eqn:Est; try exact I.
  destruct (find (fsmap s) m) as [i|] eqn:Fm; [|exact I].
  destruct ok; [|exact I].
  pose proof (inv_bnd s m i I Fm) as Li.
  cbn.
  assert (TAB : forall m0 i0, occ m0 (mnts (inst_unmount (insts s) i m) i0) = if own (del (fsmap s) m) m0 i0 then 1 else 0).
  { intros m0 i0. rewrite mnts_inst_unmount by assumption. unfold own.
    destruct (Nat.eq_dec m0 m) as [->|Nm].
    - rewrite find_del_eq. destruct (Nat.eqb i0 i) eqn:Ei.
      + apply Nat.eqb_eq in Ei; subst i0. rewrite occ_rm1_eq.
        pose proof (T m i) as Tm. unfold mnt_of in Tm. rewrite Tm. unfold own. now rewrite Fm, Nat.eqb_refl.
      + pose proof (T m i0) as Tm. unfold mnt_of in Tm. rewrite Tm. unfold own. rewrite Fm. now rewrite Nat.eqb_sym, Ei.
    - rewrite find_del_neq by assumption. destruct (Nat.eqb i0 i) eqn:Ei.
      + apply Nat.eqb_eq in Ei; subst i0. rewrite occ_rm1_neq by assumption. apply (T m0 i).
      + apply (T m0 i0). }
  assert (NC : cur s <> None) by (intros X; rewrite (N X) in Fm; discriminate).
  unfold store_del. destruct (closed s) eqn:Ecl.
  + constructor; cbn; auto; try congruence.
    intros i0 Hi0. rewrite length_inst_unmount. now apply C.
  + constructor; cbn; auto; try congruence.
    * intros _ m0 Ht. unfold recorded, tracked in *. cbn in *. destruct (Nat.eq_dec m0 m) as [->|Nm].
      -- now rewrite find_del_eq in Ht.
      -- rewrite find_del_neq in * by assumption. now apply R.
    * intros _ _ Hi m0 Hr. unfold recorded, tracked in *. cbn in *. destruct (Nat.eq_dec m0 m) as [->|Nm].
      -- now rewrite find_del_eq in Hr.
      -- rewrite find_del_neq in * by assumption. now apply F.
    * intros i0 Hi0. rewrite length_inst_unmount. now apply C.
    * now apply del_sorted.
Qed.

Lemma step_inv : forall s o, inv s -> inv (fst (step s o)).
Proof.
  intros s o I. destruct o as [c k sc|m l ok|m l ok|m ok| |].
  - now apply init_step_inv.
  - now apply mount_step_inv.
  - cbn [step]. destruct (stat s); try exact I. destruct (find (fsmap s) m); exact I.
  - now apply unmount_step_inv.
  - destruct I as [T R F C N S CL]. cbn [step]. destruct (closed s) eqn:Ecl; cbn.
    + constructor; cbn; auto; try discriminate.
    + constructor; cbn; auto; try discriminate. constructor.
  - destruct I as [T R F C N S CL]. cbn. constructor; cbn; auto; try discriminate.
    + intros m i. unfold mnt_of, mnts. cbn. rewrite nth_error_map.
      destruct (nth_error (insts s) i); reflexivity.
    + intros _ m H. now contradiction H.
Qed.

Lemma exec_app : forall os1 os2 s, exec s (os1 ++ os2) = exec (exec s os1) os2.
Proof. intros. unfold exec. now rewrite fold_left_app. Qed.

Lemma exec_inv : forall os s, inv s -> inv (exec s os).
Proof.
  induction os as [|o t IH]; intros s I; [exact I|]. cbn. apply IH. now apply step_inv.
Qed.

Lemma reach_inv : forall g e os, inv (exec (init g e) os).
Proof. intros. apply exec_inv. apply inv_init. Qed.

(* ---------- consequences ---------- *)
Lemma tracked_serving : forall s m, inv s -> (tracked s m <-> serving s m).
Proof.
  intros s m I. unfold tracked, serving. split.
  - intros H. destruct (find (fsmap s) m) as [i|] eqn:F; [|congruence]. exists i.
    rewrite (inv_tab s I m i). apply own_true in F. rewrite F. lia.
  - intros [i H]. rewrite (inv_tab s I m i) in H. destruct (own (fsmap s) m i) eqn:O; [|lia].
    apply own_true in O. congruence.
Qed.

Lemma owner_unique : forall s m i, inv s -> 0 < occ m (mnt_of s i) ->
  find (fsmap s) m = Some i /\ occ m (mnt_of s i) = 1 /\ forall j, j <> i -> occ m (mnt_of s j) = 0.
Proof.
  intros s m i I H. pose proof (inv_tab s I m i) as T. destruct (own (fsmap s) m i) eqn:O; [|lia].
  apply own_true in O. repeat split; auto.
  intros j N. rewrite (inv_tab s I m j). unfold own. rewrite O.
  destruct (Nat.eqb i j) eqn:E; [apply Nat.eqb_eq in E; congruence|reflexivity].
Qed.

Lemma owner_serves : forall s m i, inv s -> find (fsmap s) m = Some i ->
  i < length (insts s) /\ occ m (mnt_of s i) = 1 /\ forall j, j <> i -> occ m (mnt_of s j) = 0.
Proof.
  intros s m i I F. split; [eapply inv_bnd; eauto|].
  assert (H : 0 < occ m (mnt_of s i)).
  { rewrite (inv_tab s I m i). apply own_true in F. rewrite F. lia. }
  destruct (owner_unique s m i I H) as (_ & A & B). split; assumption.
Qed.

Lemma store_live : forall s, inv s -> closed s = false ->
  (forall m, serving s m -> recorded s m)
  /\ (stat s = Ready -> ierr s = false -> forall m, recorded s m -> serving s m).
Proof.
  intros s I C. split.
  - intros m H. apply (inv_rec s I C). now apply tracked_serving.
  - intros R E m H. apply tracked_serving; [assumption|]. now apply (inv_full s I C R E).
Qed.

(* Init *)
Lemma init_facts : forall s c k sc, inv s ->
  let s' := fst (step s (Init c k sc)) in
  let r := fst (snd (step s (Init c k sc))) in
  let cs := snd (snd (step s (Init c k sc))) in
  stat s' = Ready /\ store s' = store s /\ closed s' = closed s
  /\ (r = ROk <-> ierr s' = false)
  /\ (forall m i, find (fsmap s) m = Some i -> find (fsmap s') m = Some i)
  /\ (forall cl, In cl cs -> exists m l c0, cl = (length (insts s), KMount, m, l)
                                         /\ find (store s) m = Some (l, c0) /\ find (fsmap s) m = None)
  /\ (r = ROk -> k = IRun /\ cur s' = Some (length (insts s)) /\ cfg s' = Some c
                /\ cfg_of s' (length (insts s)) = Some c).
Proof.
  intros s c k sc I. cbn [step]. destruct k; cbn.
  1-3: repeat split; auto; try discriminate; try (intros; contradiction).
  destruct (closed s) eqn:Ecl; cbn.
  - repeat split; auto; try discriminate; try (intros; contradiction).
  - destruct (restore (length (insts s)) (store s) sc (fsmap s) []) as [[[fm mnt] cs] ok] eqn:Rs. cbn.
    assert (A0 : agree (length (insts s)) (fsmap s) []).
    { intros m. cbn. destruct (own (fsmap s) m (length (insts s))) eqn:O; [|reflexivity].
      apply own_true in O. apply (inv_bnd s m _ I) in O. lia. }
    destruct (restore_spec _ _ _ _ _ _ _ _ _ Rs A0) as (A' & K & B & Rk & Cc & Mo).
    repeat split; auto.
    + destruct ok; [reflexivity|discriminate].
    + destruct ok; [reflexivity|discriminate].
    + intros cl Hc. destruct (Cc _ Hc) as (m & l & c0 & E & HI & Hn). exists m, l, c0. repeat split; auto.
      apply in_find_nodup; [|assumption]. apply sorted_nodup. apply (inv_sorted s I).
    + unfold cfg_of. cbn. rewrite nth_error_app2 by lia. now rewrite Nat.sub_diag.
Qed.

Lemma init_ok_all_served : forall s c k sc, inv s -> closed s = false ->
  fst (snd (step s (Init c k sc))) = ROk ->
  forall m, recorded s m -> serving (fst (step s (Init c k sc))) m.
Proof.
  intros s c k sc I C H m R.
  pose proof (init_step_inv s c k sc I) as I'.
  destruct (init_facts s c k sc I) as (St & Sto & Cl & Er & _).
  destruct (store_live _ I' (eq_trans Cl C)) as [_ Full].
  apply Full; [exact St|now apply Er|unfold recorded; now rewrite Sto].
Qed.

(* the records that are not served only shrink, except across a manager restart *)
Lemma unrestored_shrinks : forall s o, inv s -> is_restart o = false ->
  forall m, recorded (fst (step s o)) m -> ~ tracked (fst (step s o)) m -> recorded s m /\ ~ tracked s m.
Proof.
  intros s o I NR m. unfold recorded, tracked.
  destruct o as [c k sc|m0 l ok|m0 l ok|m0 ok| |]; try discriminate.
  - destruct (init_facts s c k sc I) as (_ & Sto & _ & _ & K & _). rewrite Sto. intros R T. split; [assumption|].
    intros H. apply T. destruct (find (fsmap s) m) as [i|] eqn:F; [|congruence]. rewrite (K _ _ F). discriminate.
  - cbn [step]. destruct (stat s); try tauto.
    destruct (find (fsmap s) m0) as [j|] eqn:Fm.
    + destruct (cfg s); [|tauto]. cbn. unfold store_put. destruct (closed s); [tauto|].
      destruct (Nat.eq_dec m m0) as [->|N]; [intros _ T; exfalso; apply T; congruence|].
      rewrite find_put_neq by assumption. tauto.
    + destruct (cur s); [|destruct (guard s); tauto]. destruct ok; [|tauto].
      destruct (cfg s); cbn.
      * unfold store_put. destruct (Nat.eq_dec m m0) as [->|N].
        -- rewrite find_put_eq. intros _ T. exfalso. apply T. discriminate.
        -- rewrite find_put_neq by assumption. destruct (closed s); [tauto|]. rewrite find_put_neq by assumption. tauto.
      * destruct (Nat.eq_dec m m0) as [->|N].
        -- rewrite find_put_eq. intros _ T. exfalso. apply T. discriminate.
        -- rewrite find_put_neq by assumption. tauto.
  - cbn [step]. destruct (stat s); try tauto. destruct (find (fsmap s) m0); tauto.
  - cbn [step]. destruct (stat s); try tauto.
    destruct (find (fsmap s) m0) as [j|] eqn:Fm; [|tauto]. destruct ok; [|tauto]. cbn.
    unfold store_del. destruct (closed s) eqn:C.
    + rewrite (inv_closed s I C). cbn. tauto.
    + destruct (Nat.eq_dec m m0) as [->|N]; [rewrite find_del_eq; tauto|].
      rewrite !find_del_neq by assumption. tauto.
  - cbn [step]. destruct (closed s) eqn:C; cbn; [|tauto]. rewrite (inv_closed s I C). cbn. tauto.
Qed.

(* readiness gate *)
Definition is_request (o : op) : bool :=
  match o with Mount _ _ _ | Check _ _ _ | Unmount _ _ => true | _ => false end.

Lemma gate : forall s o, stat s <> Ready -> is_request o = true -> step s o = (s, (RErr, [])).
Proof.
  intros s o H R. destruct o; try discriminate; cbn [step]; destruct (stat s); try reflexivity; congruence.
Qed.

Lemma not_ready_until_init : forall os s, stat s <> Ready -> forallb (fun o => negb (is_init o)) os = true ->
  stat (exec s os) <> Ready.
Proof.
  induction os as [|o t IH]; intros s H F; [exact H|].
  cbn in F. apply andb_true_iff in F. destruct F as [Fo Ft]. cbn [exec fold_left]. apply IH; [|assumption].
  destruct o as [c k sc|m l ok|m l ok|m ok| |].
  - discriminate.
  - rewrite gate; auto.
  - rewrite gate; auto.
  - rewrite gate; auto.
  - cbn [step]. destruct (closed s); cbn; discriminate.
  - cbn. discriminate.
Qed.

Lemma mem_false : forall l k, mem l k = false <-> ~ In k l.
Proof.
  intros l k. unfold mem. split.
  - intros H HI. assert (existsb (Nat.eqb k) l = true); [|congruence].
    apply existsb_exists. exists k. split; [assumption|apply Nat.eqb_refl].
  - intros H. destruct (existsb (Nat.eqb k) l) eqn:E; [|reflexivity].
    apply existsb_exists in E. destruct E as (x & HI & Hx). apply Nat.eqb_eq in Hx. subst. contradiction.
Qed.

Lemma unmount_unknown : forall s m ok, inv s -> stat s = Ready -> ~ serving s m -> ~ In m (ext s) ->
  step s (Unmount m ok) = (s, (ROk, [])).
Proof.
  intros s m ok I R NS NE. cbn [step]. rewrite R.
  destruct (find (fsmap s) m) as [i|] eqn:F.
  - exfalso. apply NS. apply tracked_serving; [assumption|]. unfold tracked. congruence.
  - apply mem_false in NE. now rewrite NE.
Qed.

Lemma step_consts : forall s o, guard (fst (step s o)) = guard s /\ ext (fst (step s o)) = ext s.
Proof.
  intros s o. destruct o as [c k sc|m l ok|m l ok|m ok| |]; cbn [step].
  - destruct k; cbn; auto. destruct (closed s); cbn; auto.
    destruct (restore (length (insts s)) (store s) sc (fsmap s) []) as [[[? ?] ?] ?]; cbn; auto.
  - destruct (stat s); auto. destruct (find (fsmap s) m).
    + destruct (cfg s); cbn; auto.
    + destruct (cur s); auto. destruct ok; auto. destruct (cfg s); cbn; auto.
  - destruct (stat s); auto. destruct (find (fsmap s) m); auto.
  - destruct (stat s); auto. destruct (find (fsmap s) m); auto. destruct ok; cbn; auto.
  - destruct (closed s); cbn; auto.
  - cbn; auto.
Qed.

Lemma exec_consts : forall os s, guard (exec s os) = guard s /\ ext (exec s os) = ext s.
Proof.
  induction os as [|o t IH]; intros s; [split; reflexivity|]. cbn [exec fold_left].
  destruct (IH (fst (step s o))) as [A B]. destruct (step_consts s o) as [C D]. unfold exec in *. split; congruence.
Qed.

(* no nil dereference in the repaired code *)
Lemma no_panic_step : forall s o, inv s -> guard s = true -> fst (snd (step s o)) <> RPanic.
Proof.
  intros s o I G. destruct o as [c k sc|m l ok|m l ok|m ok| |]; cbn [step].
  - destruct k; cbn; try discriminate. destruct (closed s); cbn; try discriminate.
    destruct (restore (length (insts s)) (store s) sc (fsmap s) []) as [[[? ?] ?] []]; cbn; discriminate.
  - destruct (stat s); cbn; try discriminate.
    destruct (find (fsmap s) m) as [j|] eqn:F.
    + destruct (cfg s) eqn:C; cbn; try discriminate.
      destruct (cur s) as [i|] eqn:Cu.
      * destruct (inv_cur s I i Cu). congruence.
      * rewrite (inv_nocur s I Cu) in F. discriminate.
    + destruct (cur s) as [i|] eqn:Cu; [|rewrite G; cbn; discriminate].
      destruct ok; cbn; try discriminate.
      destruct (cfg s) eqn:C; cbn; try discriminate. destruct (inv_cur s I i Cu). congruence.
  - destruct (stat s); cbn; try discriminate. destruct (find (fsmap s) m); cbn; try discriminate. destruct ok; discriminate.
  - destruct (stat s); cbn; try discriminate. destruct (find (fsmap s) m); cbn.
    + destruct ok; cbn; discriminate.
    + destruct (mem (ext s) m); discriminate.
  - destruct (closed s); cbn; discriminate.
  - cbn. discriminate.
Qed.

(* Check / Unmount reach the owner and nobody else *)
Lemma check_by_owner : forall s m l ok i, stat s = Ready -> find (fsmap s) m = Some i ->
  step s (Check m l ok) = (s, (if ok then ROk else RErr, [(i, KCheck, m, l)])).
Proof. intros s m l ok i R F. cbn [step]. now rewrite R, F. Qed.

Lemma unmount_by_owner : forall s m ok i, stat s = Ready -> find (fsmap s) m = Some i ->
  snd (step s (Unmount m ok)) = (if ok then ROk else RErr, [(i, KUnmount, m, 0)]).
Proof. intros s m ok i R F. cbn [step]. rewrite R, F. now destruct ok. Qed.

Lemma owner_stable : forall s o m i, find (fsmap s) m = Some i -> is_restart o = false -> o <> Unmount m true ->
  find (fsmap (fst (step s o))) m = Some i.
Proof.
  intros s o m i F NR NU. destruct o as [c k sc|m0 l ok|m0 l ok|m0 ok| |]; try discriminate; cbn [step].
  - destruct k; cbn; auto. destruct (closed s); cbn; auto.
    destruct (restore (length (insts s)) (store s) sc (fsmap s) []) as [[[fm mnt] cs] ok] eqn:Rs. cbn.
    destruct (restore_mono _ _ _ _ _ _ _ _ _ Rs) as [K _]. now apply K.
  - destruct (stat s); auto. destruct (find (fsmap s) m0) eqn:F0.
    + destruct (cfg s); cbn; auto.
    + destruct (cur s); auto. destruct ok; auto.
      assert (m <> m0) by congruence.
      destruct (cfg s); cbn; now rewrite find_put_neq.
  - destruct (stat s); auto. destruct (find (fsmap s) m0); auto.
  - destruct (stat s); auto. destruct (find (fsmap s) m0) eqn:F0; auto. destruct ok; auto. cbn.
    rewrite find_del_neq; [assumption|]. intros ->. now apply NU.
  - destruct (closed s); cbn; auto.
Qed.

(* configuration of the instances; what a quiet stretch (no Init, no restart) keeps *)
Lemma cfg_of_step : forall s o i c, cfg_of s i = Some c -> cfg_of (fst (step s o)) i = Some c.
Proof.
  intros s o i c. unfold cfg_of. intros H.
  assert (L : i < length (insts s)).
  { destruct (nth_error (insts s) i) eqn:E; [|discriminate]. apply nth_error_Some. congruence. }
  assert (U : forall j x, nth_error (insts s) j = Some x ->
              match nth_error (upd (insts s) j (mkInst (i_cfg x) (i_mnt x))) i with Some y => Some (i_cfg y) | None => None end = Some c -> True) by trivial.
  assert (UP : forall j mn, match nth_error (insts s) j with
                            | Some x => match nth_error (upd (insts s) j (mkInst (i_cfg x) mn)) i with Some y => Some (i_cfg y) | None => None end
                            | None => Some c end = Some c).
  { intros j mn. destruct (nth_error (insts s) j) as [x|] eqn:E; [|reflexivity].
    destruct (Nat.eq_dec i j) as [->|N].
    - rewrite nth_upd_eq by assumption. cbn. rewrite E in H. assumption.
    - now rewrite nth_upd_neq. }
  destruct o as [c0 k sc|m l ok|m l ok|m ok| |]; cbn [step].
  - destruct k; cbn; auto.
    destruct (closed s); cbn.
    + now rewrite nth_error_app1.
    + destruct (restore (length (insts s)) (store s) sc (fsmap s) []) as [[[? ?] ?] ?]. cbn. now rewrite nth_error_app1.
  - destruct (stat s); auto. destruct (find (fsmap s) m).
    + destruct (cfg s); cbn; auto.
    + destruct (cur s) as [j|]; auto. destruct ok; auto.
      assert (X : match nth_error (inst_mount (insts s) j m l) i with Some y => Some (i_cfg y) | None => None end = Some c).
      { unfold inst_mount. specialize (UP j). destruct (nth_error (insts s) j); [apply UP|assumption]. }
      destruct (cfg s); cbn; assumption.
  - destruct (stat s); auto. destruct (find (fsmap s) m); auto.
  - destruct (stat s); auto. destruct (find (fsmap s) m) as [j|]; auto. destruct ok; auto. cbn.
    unfold inst_unmount. specialize (UP j). destruct (nth_error (insts s) j); [apply UP|assumption].
  - destruct (closed s); cbn; auto.
  - cbn. rewrite nth_error_map. destruct (nth_error (insts s) i); [cbn in *; assumption|discriminate].
Qed.

Definition quiet (o : op) : bool := negb (is_init o) && negb (is_restart o).

Lemma quiet_step : forall s o, quiet o = true ->
  cur (fst (step s o)) = cur s /\ cfg (fst (step s o)) = cfg s.
Proof.
  intros s o Q. destruct o as [c k sc|m l ok|m l ok|m ok| |]; try discriminate; cbn [step].
  - destruct (stat s); auto. destruct (find (fsmap s) m).
    + destruct (cfg s) eqn:Ec; cbn; rewrite ?Ec; auto.
    + destruct (cur s) eqn:Eu; cbn; rewrite ?Eu; auto. destruct ok; cbn; rewrite ?Eu; auto.
      destruct (cfg s) eqn:Ec; cbn; rewrite ?Ec; auto.
  - destruct (stat s); auto. destruct (find (fsmap s) m); auto.
  - destruct (stat s); auto. destruct (find (fsmap s) m); auto. destruct ok; cbn; auto.
  - destruct (closed s); cbn; auto.
Qed.

Lemma quiet_exec : forall os s i c, forallb quiet os = true -> cfg_of s i = Some c ->
  cur (exec s os) = cur s /\ cfg (exec s os) = cfg s /\ cfg_of (exec s os) i = Some c.
Proof.
  induction os as [|o t IH]; intros s i c Q H; [repeat split; auto|].
  cbn in Q. apply andb_true_iff in Q. destruct Q as [Qo Qt]. cbn [exec fold_left].
  destruct (quiet_step s o Qo) as [A B].
  destruct (IH (fst (step s o)) i c Qt (cfg_of_step s o i c H)) as (A' & B' & C'). unfold exec in *.
  repeat split; congruence.
Qed.

Lemma mount_new : forall s m l i c, stat s = Ready -> find (fsmap s) m = None -> cur s = Some i -> cfg s = Some c ->
  snd (step s (Mount m l true)) = (ROk, [(i, KMount, m, l)])
  /\ find (fsmap (fst (step s (Mount m l true)))) m = Some i
  /\ (closed s = false -> find (store (fst (step s (Mount m l true)))) m = Some (l, c)).
Proof.
  intros s m l i c R F Cu Cf. cbn [step]. rewrite R, F, Cu, Cf. cbn. repeat split.
  - apply find_put_eq.
  - intros Cl. unfold store_put. rewrite Cl. apply find_put_eq.
Qed.

(* manager restart followed by Init *)
Lemma restart_init : forall s c sc, inv s -> closed s = false ->
  let s0 := fst (step s Restart) in
  let n := length (insts s) in
  let s1 := fst (step s0 (Init c IRun sc)) in
  let r := fst (snd (step s0 (Init c IRun sc))) in
  let cs := snd (snd (step s0 (Init c IRun sc))) in
  store s1 = store s
  /\ (exists k, cs = firstn k (map (rcall n) (store s)))
  /\ (r = ROk -> cs = map (rcall n) (store s)
               /\ forall m l c0, find (store s) m = Some (l, c0) ->
                    find (fsmap s1) m = Some n /\ In (m, l) (mnt_of s1 n) /\ cfg_of s1 n = Some c).
Proof.
  intros s c sc I Cl. cbn [step fst snd closed store fsmap insts]. rewrite map_length.
  destruct (restore (length (insts s)) (store s) sc [] []) as [[[fm mnt] cs] ok] eqn:Rs. cbn.
  assert (ND : NoDup (keys (store s))) by (apply sorted_nodup; apply (inv_sorted s I)).
  destruct (restore_calls _ _ _ _ _ _ _ _ _ Rs ND (fun m _ => eq_refl)) as ((k & Ek & Eall) & L).
  split; [reflexivity|]. split; [exists k; assumption|].
  intros Hok. assert (ok = true) as -> by (destruct ok; [reflexivity|discriminate]).
  split; [now apply Eall|].
  intros m l c0 F. apply find_some_in in F. destruct (L eq_refl m l c0 F) as [A B].
  repeat split; auto.
  - unfold mnt_of. cbn [insts]. rewrite mnts_app_new, map_length, Nat.eqb_refl. exact A.
  - unfold cfg_of. cbn [insts]. rewrite nth_error_app2 by (rewrite map_length; lia).
    now rewrite map_length, Nat.sub_diag.
Qed.

(* ---------- the observations compared with the implementation are the step outputs ---------- *)
Fixpoint trace (s : st) (os : list op) : list obs :=
  match os with
  | [] => []
  | o :: t => (fst (snd (step s o)), snd (snd (step s o)), view_of (fst (step s o))) :: trace (fst (step s o)) t
  end.

Lemma run_trace : forall os s, run s os = (exec s os, trace s os).
Proof.
  induction os as [|o t IH]; intros s; [reflexivity|].
  cbn [run trace exec fold_left]. destruct (step s o) as [s1 [r cs]] eqn:E. cbn [fst snd].
  rewrite (IH s1). reflexivity.
Qed.

(* what an acknowledged Mount leaves in the store *)
Lemma mount_ok_records : forall s m l ok, closed s = false -> fst (snd (step s (Mount m l ok))) = ROk ->
  exists c, cfg s = Some c /\ find (store (fst (step s (Mount m l ok)))) m = Some (l, c)
            /\ tracked (fst (step s (Mount m l ok))) m.
Proof.
  intros s m l ok Cl. cbn [step]. destruct (stat s); cbn; try discriminate.
  destruct (find (fsmap s) m) as [j|] eqn:F.
  - destruct (cfg s) as [c|] eqn:Cf; cbn; [|discriminate]. intros _. exists c. unfold store_put, tracked. rewrite Cl. cbn.
    split; [reflexivity|]. split; [apply find_put_eq|congruence].
  - destruct (cur s) as [i|]; [|destruct (guard s); discriminate].
    destruct ok; cbn; [|discriminate]. destruct (cfg s) as [c|] eqn:Cf; cbn; [|discriminate].
    intros _. exists c. unfold store_put, tracked. rewrite Cl. cbn.
    split; [reflexivity|]. split; [apply find_put_eq|]. rewrite find_put_eq. discriminate.
Qed.
