(* Tree agreement of the two metadata-store models for TOCs with implicit parent directories, an optional explicit root
   entry and BACKWARD HARDLINKS (the target precedes the link, chains allowed). Extension of Proofs/TreeAgree2.v: the
   simulation relation additionally carries the map h from processed hardlink entries to the node their name resolves to;
   the db store's path lookup is related to the memory store's name map through [fx] (link resolution), paths are unique
   only for directories, and hardlink entries leave unmapped, unreachable nodes in the memory store. *)
From Coq Require Import List ZArith Bool Lia Arith.
From SV Require Import Model.TreeStores Proofs.TreeStores Proofs.TreeAgree.
Import ListNotations.
Open Scope Z_scope.

Definition pmap := nat -> option nat.
Definition pset (f : pmap) (k x : nat) : pmap := fun z => if Nat.eqb z k then Some x else f z.
Definition psub (f g : pmap) : Prop := forall k x, f k = Some x -> g k = Some x.

Lemma pset_same : forall f k x, pset f k x k = Some x.
Proof. intros. unfold pset. rewrite Nat.eqb_refl. reflexivity. Qed.
Lemma pset_other : forall f k x z, z <> k -> pset f k x z = f z.
Proof. intros f k x z H. unfold pset. apply Nat.eqb_neq in H. rewrite H. reflexivity. Qed.
Lemma psub_refl : forall f, psub f f. Proof. intros f k x H. exact H. Qed.
Lemma psub_trans : forall f g h, psub f g -> psub g h -> psub f h.
Proof. intros f g h H1 H2 k x H. apply H2. apply H1. exact H. Qed.
Lemma psub_pset : forall f k x, f k = None -> psub f (pset f k x).
Proof. intros f k x Hn z y H. unfold pset. destruct (Nat.eqb z k) eqn:E; [apply Nat.eqb_eq in E; subst; congruence|exact H]. Qed.

Definition ch_rel (f : pmap) (a b : list (Z * nat)) : Prop :=
  Forall2 (fun u v => fst u = fst v /\ f (snd u) = Some (snd v)) a b.

Lemma ch_rel_mono : forall f g a b, psub f g -> ch_rel f a b -> ch_rel g a b.
Proof.
  intros f g a b Hs H. induction H as [|u v a b [H1 H2] _ IH]; constructor; [|exact IH].
  split; [exact H1|apply Hs; exact H2].
Qed.

Lemma ch_rel_ins : forall f key c x a b, ch_rel f a b -> f c = Some x -> ch_rel f (ins key c a) (ins key x b).
Proof.
  intros f key c x a b H Hc. induction H as [|[k1 c1] [k2 c2] a b [H1 H2] Hab IH]; simpl in *.
  - constructor; [split; [reflexivity|exact Hc]|constructor].
  - subst k2. destruct (key <? k1).
    + constructor; [split; [reflexivity|exact Hc]|]. constructor; [split; [reflexivity|exact H2]|exact Hab].
    + destruct (key =? k1).
      * constructor; [split; [reflexivity|exact Hc]|exact Hab].
      * constructor; [split; [reflexivity|exact H2]|exact IH].
Qed.

(* q is a suffix of d: as reversed paths, q is d or an ancestor of d *)
Definition sfx (q d : list Z) : Prop := exists pre, d = pre ++ q.
Definition psfx (q d : list Z) : Prop := exists pre, pre <> [] /\ d = pre ++ q.

Lemma sfx_refl : forall d, sfx d d. Proof. intro d. exists []. reflexivity. Qed.
Lemma sfx_tl : forall q b d, sfx q d -> sfx q (b :: d).
Proof. intros q b d [pre H]. exists (b :: pre). simpl. rewrite H. reflexivity. Qed.
Lemma sfx_cons_inv : forall q b d, sfx q (b :: d) -> q = b :: d \/ sfx q d.
Proof.
  intros q b d [pre H]. destruct pre as [|c pre]; simpl in H.
  - left. symmetry. exact H.
  - right. inversion H; subst. exists pre. reflexivity.
Qed.
Lemma sfx_len : forall q d, sfx q d -> (length q <= length d)%nat.
Proof. intros q d [pre H]. subst. rewrite app_length. lia. Qed.
Lemma psfx_of_sfx_cons : forall q b d, sfx q d -> psfx q (b :: d).
Proof. intros q b d [pre H]. exists (b :: pre). split; [discriminate|]. simpl. rewrite H. reflexivity. Qed.
Lemma not_sfx_longer : forall b d, ~ sfx (b :: d) d.
Proof. intros b d H. apply sfx_len in H. simpl in H. lia. Qed.

Lemma clean_rev_plain : forall d, Forall plain d -> clean (rev d) = d.
Proof.
  intros d H. unfold clean. rewrite fold_clean_of_plain by (apply Forall_rev; exact H).
  rewrite rev_involutive, app_nil_r. reflexivity.
Qed.

Lemma cname_implicit : forall d, Forall plain d -> cname (implicit_dir d) = d.
Proof. intros d H. unfold cname, implicit_dir. simpl. apply clean_rev_plain. exact H. Qed.

Lemma cname_plain : forall e, Forall plain (cname e).
Proof. intro e. unfold cname, clean. apply fold_clean_plain. constructor. Qed.

Lemma plain_sfx : forall q d, sfx q d -> Forall plain d -> Forall plain q.
Proof. intros q d [pre H] Hp. subst. apply Forall_app in Hp. tauto. Qed.

(* ---------- the relation ---------- *)

Definition nadj (np : option nat) (k : nat) : Z :=
  match np with Some j => if Nat.eqb j k then 1 else 0 | None => 0 end.

Definition chunks_ok (mn : mnode) (dn : dnode) : Prop :=
  dn_chunks dn = (if etype_eqb (e_type (mn_e mn)) TReg && (e_size (mn_e mn) >? 0)
                  then [db_chunk (mn_e mn) (e_size (mn_e mn))] else []).

(* the chunk list of the node being created is filled in at the very end of its step *)
Definition chk (cp : option nat) (x : nat) (mn : mnode) (dn : dnode) : Prop :=
  (cp <> Some x -> chunks_ok mn dn) /\ (cp = Some x -> dn_chunks dn = []).

Definition nrel (f : pmap) (np cp : option nat) (k x : nat) (mn : mnode) (dn : dnode) : Prop :=
  dn_b dn = write_attr (attr_of (mn_e mn) (mn_nlink mn + nadj np k)) /\ 1 <= mn_nlink mn + nadj np k /\
  ch_rel f (mn_ch mn) (dn_ch dn) /\ chk cp x mn dn.

Definition init_nl (e : entry) : Z := if etype_eqb (e_type e) TDir then 1 else 0.

(* the db id the NAME of memory node k leads to: its own node, or for a processed hardlink entry the node of its source *)
Definition fx (f h : pmap) (k : nat) : option nat :=
  match f k with
  | Some x => Some x
  | None => match h k with Some o => f o | None => None end
  end.

Definition ntype (ms : mst) (k : nat) : etype :=
  match nth_error (ms_nodes ms) k with Some mn => e_type (mn_e mn) | None => TOther end.

Record Inv (toc : list entry) (i : nat) (ms : mst) (ds : dst) (f h : pmap) (P : list (list Z)) (np cp : option nat) : Prop := {
  v_lenm : (length toc <= length (ms_nodes ms))%nat;
  v_mlen : (length toc <= length (ms_m ms))%nat;
  v_expl : forall j e, nth_error toc j = Some e -> pfind (cname e) (ms_m ms) = Some j;
  v_mdom : forall p k, pfind p (ms_m ms) = Some k ->
             exists mn, nth_error (ms_nodes ms) k = Some mn /\ cname (mn_e mn) = p;
  v_ent : forall j mn, (j < length toc)%nat -> nth_error (ms_nodes ms) j = Some mn -> nth_error toc j = Some (mn_e mn);
  v_impl : forall k mn, (length toc <= k)%nat -> nth_error (ms_nodes ms) k = Some mn ->
             (exists d, mn_e mn = implicit_dir d) /\ f k <> None;
  v_todo : forall j mn, (i <= j < length toc)%nat -> nth_error (ms_nodes ms) j = Some mn ->
             f j = None /\ mn_nlink mn = init_nl (mn_e mn) /\ mn_ch mn = [];
  v_htodo : forall j, (i <= j)%nat -> h j = None;
  v_done : forall j, (j < i)%nat -> (j < length toc)%nat -> f j <> None \/ h j <> None;
  v_dom : forall k x, f k = Some x ->
            exists mn dn, nth_error (ms_nodes ms) k = Some mn /\ nth_error (ds_nodes ds) x = Some dn /\ nrel f np cp k x mn dn;
  v_ftype : forall k x, f k = Some x -> ntype ms k <> THardlink;
  v_inj : forall k k' x, f k = Some x -> f k' = Some x -> k = k';
  v_L1 : forall p x, d_find ds p = Some x -> p <> [] ->
           exists k, pfind p (ms_m ms) = Some k /\ fx f h k = Some x /\ ~ In p P;
  v_L2 : forall p k x, pfind p (ms_m ms) = Some k -> fx f h k = Some x -> ~ In p P -> d_find ds p = Some x;
  v_root : (exists r, pfind [] (ms_m ms) = Some r /\ f r = Some O /\ ntype ms r = TDir
                      /\ (length (ds_nodes ds) + length toc <= length (ms_nodes ms) + i)%nat) \/
           ((pfind [] (ms_m ms) = None \/ exists r0, pfind [] (ms_m ms) = Some r0 /\ f r0 = None)
            /\ nth_error (ds_nodes ds) 0 = Some (DN (write_attr root_attr) [] [])
            /\ (forall k, f k <> Some O) /\ (length (ds_nodes ds) + length toc <= S (length (ms_nodes ms)) + i)%nat);
  v_pend : forall p, In p P -> p <> [] /\ exists k x mn, pfind p (ms_m ms) = Some k /\ f k = Some x
                                   /\ nth_error (ms_nodes ms) k = Some mn /\ mn_ch mn = [];
  v_nodupP : NoDup P;
  v_np : forall j, np = Some j -> (j < length (ms_nodes ms))%nat /\ f j <> None;
  v_cp : forall y, cp = Some y -> (y < length (ds_nodes ds))%nat;
  (* a processed hardlink entry k whose source (after following the chain) is node o *)
  v_h : forall k o, h k = Some o ->
          (o < k)%nat /\ (k < length toc)%nat /\ f k = None /\ ntype ms k = THardlink /\
          (exists x mo, f o = Some x /\ nth_error (ms_nodes ms) o = Some mo /\ e_type (mn_e mo) <> TDir /\ mn_ch mo = []) /\
          (forall fuel, (k < fuel)%nat -> m_source fuel ms k = Some o);
  (* only directories have children *)
  v_leaf : forall k mn, nth_error (ms_nodes ms) k = Some mn -> e_type (mn_e mn) <> TDir -> mn_ch mn = []
}.

Lemma fx_f : forall f h k x, f k = Some x -> fx f h k = Some x.
Proof. intros f h k x H. unfold fx. rewrite H. reflexivity. Qed.

Lemma fx_cases : forall f h k y, fx f h k = Some y -> f k = Some y \/ (f k = None /\ exists o, h k = Some o /\ f o = Some y).
Proof.
  intros f h k y H. unfold fx in H. destruct (f k) eqn:E; [left; exact H|right]. split; [reflexivity|].
  destruct (h k) as [o|]; [exists o; auto|discriminate].
Qed.

(* extending f at an index that is neither mapped nor a hardlink source keeps the name map *)
Lemma fx_pset : forall f h k0 x k y, f k0 = None -> h k0 = None -> fx f h k = Some y -> fx (pset f k0 x) h k = Some y.
Proof.
  intros f h k0 x k y Hf Hh H. destruct (fx_cases f h k y H) as [E|[E [o [Ho Eo]]]].
  - apply fx_f. unfold pset. destruct (Nat.eqb k k0) eqn:Ek; [apply Nat.eqb_eq in Ek; subst; congruence|exact E].
  - unfold fx, pset. destruct (Nat.eqb k k0) eqn:Ek; [apply Nat.eqb_eq in Ek; subst; congruence|].
    rewrite E, Ho. destruct (Nat.eqb o k0) eqn:Eo2; [apply Nat.eqb_eq in Eo2; subst; congruence|exact Eo].
Qed.

Lemma fx_pset_inv : forall f h k0 x k y, (forall k1 o, h k1 = Some o -> f o <> None) -> f k0 = None ->
  k <> k0 -> fx (pset f k0 x) h k = Some y -> fx f h k = Some y.
Proof.
  intros f h k0 x k y Hh Hf Hk H. unfold fx, pset in *. apply Nat.eqb_neq in Hk. rewrite Hk in H.
  destruct (f k); [exact H|]. destruct (h k) as [o|] eqn:Ho; [|exact H].
  destruct (Nat.eqb o k0) eqn:Eo; [|exact H]. apply Nat.eqb_eq in Eo. subst o. exfalso. exact (Hh k k0 Ho Hf).
Qed.

Lemma Inv_range : forall toc i ms ds f h P np cp, Inv toc i ms ds f h P np cp ->
  forall q y, d_find ds q = Some y -> (y < length (ds_nodes ds))%nat.
Proof.
  intros toc i ms ds f h P np cp H q y Hq. destruct q as [|b q].
  - simpl in Hq. inversion Hq; subst. destruct (v_root _ _ _ _ _ _ _ _ _ H) as [[r [_ [Hr _]]]|[_ [H0 _]]].
    + destruct (v_dom _ _ _ _ _ _ _ _ _ H r O Hr) as [mn [dn [_ [Hd _]]]]. apply nth_error_Some. congruence.
    + apply nth_error_Some. congruence.
  - destruct (v_L1 _ _ _ _ _ _ _ _ _ H (b :: q) y Hq ltac:(discriminate)) as [k [_ [Hk _]]].
    assert (Hk' : exists k', f k' = Some y) by (destruct (fx_cases f h k y Hk) as [E|[_ [o [_ E]]]]; eauto).
    destruct Hk' as [k' Hk'].
    destruct (v_dom _ _ _ _ _ _ _ _ _ H k' y Hk') as [mn [dn [_ [Hd _]]]]. apply nth_error_Some. congruence.
Qed.

Lemma Inv_pfun_name : forall toc i ms ds f h P np cp, Inv toc i ms ds f h P np cp ->
  forall p p' k, pfind p (ms_m ms) = Some k -> pfind p' (ms_m ms) = Some k -> p = p'.
Proof.
  intros toc i ms ds f h P np cp H p p' k H1 H2.
  destruct (v_mdom _ _ _ _ _ _ _ _ _ H p k H1) as [mn [Hn Hc]].
  destruct (v_mdom _ _ _ _ _ _ _ _ _ H p' k H2) as [mn' [Hn' Hc']]. congruence.
Qed.

Lemma ntype_nth : forall ms k mn, nth_error (ms_nodes ms) k = Some mn -> ntype ms k = e_type (mn_e mn).
Proof. intros ms k mn H. unfold ntype. rewrite H. reflexivity. Qed.

(* a hardlink source is never a directory *)
Lemma Inv_h_nondir : forall toc i ms ds f h P np cp, Inv toc i ms ds f h P np cp ->
  forall k o, h k = Some o -> ntype ms o <> TDir.
Proof.
  intros toc i ms ds f h P np cp H k o Hk.
  destruct (v_h _ _ _ _ _ _ _ _ _ H k o Hk) as [_ [_ [_ [_ [[x [mo [_ [Hn [Ht _]]]]] _]]]]].
  rewrite (ntype_nth ms o mo Hn). exact Ht.
Qed.

(* the db store finds [] at node 0, and nothing else there *)
Lemma Inv_find_zero : forall toc i ms ds f h P np cp, Inv toc i ms ds f h P np cp ->
  forall q, d_find ds q = Some O -> q = [].
Proof.
  intros toc i ms ds f h P np cp H q Hq. destruct q as [|b q]; [reflexivity|exfalso].
  destruct (v_L1 _ _ _ _ _ _ _ _ _ H (b :: q) O Hq ltac:(discriminate)) as [k [Hp [Hk _]]].
  destruct (v_root _ _ _ _ _ _ _ _ _ H) as [[r [Hr [Hfr [Hty _]]]]|[_ [_ [Hno _]]]].
  - destruct (fx_cases f h k O Hk) as [E|[_ [o [Ho E]]]].
    + assert (k = r) by exact (v_inj _ _ _ _ _ _ _ _ _ H k r O E Hfr). subst r.
      assert (b :: q = []) by exact (Inv_pfun_name _ _ _ _ _ _ _ _ _ H _ _ _ Hp Hr). discriminate.
    + assert (o = r) by exact (v_inj _ _ _ _ _ _ _ _ _ H o r O E Hfr). subst r.
      exact (Inv_h_nondir _ _ _ _ _ _ _ _ _ H k o Ho Hty).
  - destruct (fx_cases f h k O Hk) as [E|[_ [o [_ E]]]]; [exact (Hno k E)|exact (Hno o E)].
Qed.

(* the path the db store finds a DIRECTORY node at is the name of that directory (files may have several paths: hardlinks) *)
Lemma Inv_find_dir : forall toc i ms ds f h P np cp, Inv toc i ms ds f h P np cp ->
  forall kd y q, f kd = Some y -> ntype ms kd = TDir -> d_find ds q = Some y -> pfind q (ms_m ms) = Some kd.
Proof.
  intros toc i ms ds f h P np cp H kd y q Hf Hty Hq. destruct q as [|b q].
  - simpl in Hq. inversion Hq; subst y.
    destruct (v_root _ _ _ _ _ _ _ _ _ H) as [[r [Hr [Hfr _]]]|[_ [_ [Hno _]]]]; [|exfalso; exact (Hno kd Hf)].
    assert (kd = r) by exact (v_inj _ _ _ _ _ _ _ _ _ H kd r O Hf Hfr). subst r. exact Hr.
  - destruct (v_L1 _ _ _ _ _ _ _ _ _ H _ y Hq ltac:(discriminate)) as [k [Hp [Hk _]]].
    destruct (fx_cases f h k y Hk) as [E|[_ [o [Ho E]]]].
    + assert (k = kd) by exact (v_inj _ _ _ _ _ _ _ _ _ H k kd y E Hf). subst k. exact Hp.
    + assert (o = kd) by exact (v_inj _ _ _ _ _ _ _ _ _ H o kd y E Hf). subst o.
      exfalso. exact (Inv_h_nondir _ _ _ _ _ _ _ _ _ H k kd Ho Hty).
Qed.

(* ---------- the two primitive updates, explicitly ---------- *)

Lemma m_add_child_spec : forall ms kp base k mnp, nth_error (ms_nodes ms) kp = Some mnp ->
  let isdir := etype_eqb (m_type ms k) TDir in
  let ms' := m_add_child ms kp base k in
  ms_m ms' = ms_m ms /\ length (ms_nodes ms') = length (ms_nodes ms) /\
  nth_error (ms_nodes ms') kp = Some (MN (mn_e mnp) (if isdir then mn_nlink mnp + 1 else mn_nlink mnp) (ins base k (mn_ch mnp))) /\
  (forall z, z <> kp -> nth_error (ms_nodes ms') z = nth_error (ms_nodes ms) z).
Proof.
  intros ms kp base k mnp Hp isdir ms'.
  assert (Lp : (kp < length (ms_nodes ms))%nat) by (apply nth_error_Some; congruence).
  unfold ms', m_add_child. fold isdir.
  set (s3 := if isdir then m_nlink_inc ms kp else ms).
  assert (H3 : ms_m s3 = ms_m ms /\ length (ms_nodes s3) = length (ms_nodes ms) /\
               nth_error (ms_nodes s3) kp = Some (MN (mn_e mnp) (if isdir then mn_nlink mnp + 1 else mn_nlink mnp) (mn_ch mnp)) /\
               (forall z, z <> kp -> nth_error (ms_nodes s3) z = nth_error (ms_nodes ms) z)).
  { unfold s3. destruct isdir.
    - unfold m_nlink_inc. rewrite Hp. simpl. rewrite upd_length. repeat split.
      + apply nth_upd_same. exact Lp.
      + intros z Hz. apply nth_upd_other. congruence.
    - repeat split. rewrite Hp. destruct mnp; reflexivity. }
  destruct H3 as [M3 [L3 [P3 O3]]]. rewrite P3. simpl. rewrite upd_length. repeat split.
  - exact M3.
  - exact L3.
  - apply nth_upd_same. rewrite L3. exact Lp.
  - intros z Hz. rewrite nth_upd_other by congruence. apply O3. exact Hz.
Qed.

Lemma d_set_child_spec : forall ds pid base x (isdir : bool) dnp, nth_error (ds_nodes ds) pid = Some dnp ->
  let ds' := d_set_child ds pid base x isdir in
  length (ds_nodes ds') = length (ds_nodes ds) /\
  nth_error (ds_nodes ds') pid = Some (DN (if isdir then bump_nlink (dn_b dnp) else dn_b dnp) (ins base x (dn_ch dnp)) (dn_chunks dnp)) /\
  (forall z, z <> pid -> nth_error (ds_nodes ds') z = nth_error (ds_nodes ds) z) /\
  ds_last ds' = ds_last ds /\ ds_lastsize ds' = ds_lastsize ds.
Proof.
  intros ds pid base x isdir dnp Hp ds'.
  assert (Lp : (pid < length (ds_nodes ds))%nat) by (apply nth_error_Some; congruence).
  unfold ds', d_set_child. rewrite Hp.
  set (sa := d_set_nodes ds (upd (ds_nodes ds) pid (DN (dn_b dnp) (ins base x (dn_ch dnp)) (dn_chunks dnp)))).
  assert (La : length (ds_nodes sa) = length (ds_nodes ds)) by (unfold sa, d_set_nodes; cbn [ds_nodes]; apply upd_length).
  assert (Nap : nth_error (ds_nodes sa) pid = Some (DN (dn_b dnp) (ins base x (dn_ch dnp)) (dn_chunks dnp)))
    by (unfold sa; rewrite nth_set_nodes; apply nth_upd_same; exact Lp).
  assert (Nao : forall z, z <> pid -> nth_error (ds_nodes sa) z = nth_error (ds_nodes ds) z)
    by (intros z Hz; unfold sa; rewrite nth_set_nodes; apply nth_upd_other; congruence).
  destruct isdir.
  - unfold d_upd_bucket. rewrite Nap. cbn [d_set_nodes ds_nodes dn_b dn_ch dn_chunks ds_last ds_lastsize]. rewrite upd_length.
    repeat split.
    + exact La.
    + apply nth_upd_same. rewrite La. exact Lp.
    + intros z Hz. rewrite nth_upd_other by congruence. apply Nao. exact Hz.
  - repeat split; [exact La|exact Nap|exact Nao].
Qed.

Lemma ch_rel_nil : forall f b, ch_rel f [] b -> b = [].
Proof. intros f b H. inversion H. reflexivity. Qed.

(* ---------- linking a pending node below its parent ---------- *)

Lemma m_source_stable : forall ms ms',
  (forall z mn, nth_error (ms_nodes ms) z = Some mn -> exists mn', nth_error (ms_nodes ms') z = Some mn' /\ mn_e mn' = mn_e mn) ->
  (forall q k, pfind q (ms_m ms) = Some k -> pfind q (ms_m ms') = Some k) ->
  forall fuel k o, m_source fuel ms k = Some o -> m_source fuel ms' k = Some o.
Proof.
  intros ms ms' Hn Hm. induction fuel as [|fuel IH]; intros k o H.
  - simpl in *. destruct (nth_error (ms_nodes ms) k) as [mn|] eqn:E; [|discriminate].
    destruct (Hn k mn E) as [mn' [E' He]]. rewrite E', He.
    destruct (etype_eqb (e_type (mn_e mn)) THardlink); [discriminate|exact H].
  - simpl in *. destruct (nth_error (ms_nodes ms) k) as [mn|] eqn:E; [|discriminate].
    destruct (Hn k mn E) as [mn' [E' He]]. rewrite E', He.
    destruct (etype_eqb (e_type (mn_e mn)) THardlink); [|exact H].
    destruct (pfind (clean (e_hl (mn_e mn))) (ms_m ms)) as [j|] eqn:Ej; [|discriminate].
    rewrite (Hm _ _ Ej). apply IH. exact H.
Qed.

(* transport of the hardlink clause along a change of the memory state that keeps entries and the name map *)
Lemma v_h_transport : forall toc i ms ds f h P np cp ms', Inv toc i ms ds f h P np cp ->
  (forall z mn, nth_error (ms_nodes ms) z = Some mn -> exists mn', nth_error (ms_nodes ms') z = Some mn' /\ mn_e mn' = mn_e mn
       /\ (ntype ms z <> TDir -> mn_ch mn' = mn_ch mn)) ->
  (forall q k, pfind q (ms_m ms) = Some k -> pfind q (ms_m ms') = Some k) ->
  forall f', psub f f' -> (forall k, h k <> None -> f' k = None) ->
  forall k o, h k = Some o ->
          (o < k)%nat /\ (k < length toc)%nat /\ f' k = None /\ ntype ms' k = THardlink /\
          (exists x mo, f' o = Some x /\ nth_error (ms_nodes ms') o = Some mo /\ e_type (mn_e mo) <> TDir /\ mn_ch mo = []) /\
          (forall fuel, (k < fuel)%nat -> m_source fuel ms' k = Some o).
Proof.
  intros toc i ms ds f h P np cp ms' H Hn Hm f' Hsub Hfh k o Hk.
  destruct (v_h _ _ _ _ _ _ _ _ _ H k o Hk) as [H1 [H2 [H3 [H4 [[x [mo [H5 [H6 [H7 H8]]]]] H9]]]]].
  split; [exact H1|]. split; [exact H2|]. split; [apply Hfh; congruence|]. split.
  - unfold ntype in *. destruct (nth_error (ms_nodes ms) k) as [mk|] eqn:E; [|discriminate].
    destruct (Hn k mk E) as [mk' [E' [He _]]]. rewrite E', He. exact H4.
  - split.
    + destruct (Hn o mo H6) as [mo' [E' [He Hc]]]. exists x, mo'. split; [apply Hsub; exact H5|]. split; [exact E'|].
      rewrite He. split; [exact H7|]. rewrite Hc; [exact H8|]. rewrite (ntype_nth ms o mo H6). exact H7.
    + intros fuel Hf. apply (m_source_stable ms ms'); [|exact Hm|exact (H9 fuel Hf)].
      intros z mn E. destruct (Hn z mn E) as [mn' [E' [He _]]]. exists mn'. auto.
Qed.

Lemma Inv_link : forall toc i ms ds f h p P' np cp base par k x kp pid,
  Inv toc i ms ds f h (p :: P') np cp ->
  p = base :: par ->
  pfind p (ms_m ms) = Some k -> f k = Some x ->
  pfind par (ms_m ms) = Some kp -> f kp = Some pid -> ~ In par (p :: P') ->
  ntype ms kp = TDir -> (forall k', h k' <> Some k) ->
  Inv toc i (m_add_child ms kp base k) (d_set_child ds pid base x (etype_eqb (m_type ms k) TDir)) f h P' np cp.
Proof.
  intros toc i ms ds f h p P' np cp base par k x kp pid H Hp Hk Hfk Hkp Hfkp Hparn Hkpdir Hnoh.
  set (isdir := etype_eqb (m_type ms k) TDir).
  destruct (v_dom _ _ _ _ _ _ _ _ _ H kp pid Hfkp) as [mnp [dnp [Hmnp [Hdnp Hrelp]]]].
  destruct (v_dom _ _ _ _ _ _ _ _ _ H k x Hfk) as [mnk [dnk [Hmnk [Hdnk Hrelk]]]].
  destruct (m_add_child_spec ms kp base k mnp Hmnp) as [Mm [Ml [Mp Mo]]]. fold isdir in Mp.
  destruct (d_set_child_spec ds pid base x isdir dnp Hdnp) as [Dl [Dp [Do [Dlast Dsz]]]].
  set (ms' := m_add_child ms kp base k) in *. set (ds' := d_set_child ds pid base x isdir) in *.
  assert (Hkne : kp <> k).
  { intro E. subst kp. assert (par = p) by exact (Inv_pfun_name _ _ _ _ _ _ _ _ _ H _ _ _ Hkp Hk).
    subst p. apply (f_equal (@length Z)) in H0. simpl in H0. lia. }
  assert (Hpne : p <> []) by (subst p; discriminate).
  assert (HPar : d_find ds par = Some pid) by exact (v_L2 _ _ _ _ _ _ _ _ _ H par kp pid Hkp (fx_f f h kp pid Hfkp) Hparn).
  assert (HkCh : mn_ch mnk = []).
  { destruct (v_pend _ _ _ _ _ _ _ _ _ H p (or_introl eq_refl)) as [_ [k0 [x0 [mn0 [Hk0 [_ [Hn0 Hc0]]]]]]].
    rewrite Hk in Hk0. inversion Hk0; subst k0. rewrite Hmnk in Hn0. inversion Hn0; subst mn0. exact Hc0. }
  assert (Hxkids : d_children ds x = []).
  { unfold d_children. rewrite Hdnk. destruct Hrelk as [_ [_ [Hc _]]]. rewrite HkCh in Hc. exact (ch_rel_nil _ _ Hc). }
  assert (Hxne0 : forall q, d_find ds q <> Some x).
  { intros q Hq. destruct q as [|b q].
    - simpl in Hq. inversion Hq; subst x.
      destruct (v_root _ _ _ _ _ _ _ _ _ H) as [[r [Hr [Hfr _]]]|[_ [_ [Hno _]]]].
      + assert (k = r) by exact (v_inj _ _ _ _ _ _ _ _ _ H k r O Hfk Hfr). subst r.
        assert (p = []) by exact (Inv_pfun_name _ _ _ _ _ _ _ _ _ H _ _ _ Hk Hr). contradiction.
      + exact (Hno k Hfk).
    - destruct (v_L1 _ _ _ _ _ _ _ _ _ H _ x Hq ltac:(discriminate)) as [k' [Hp' [Hk' Hnin]]].
      destruct (fx_cases f h k' x Hk') as [E|[_ [o [Ho E]]]].
      + assert (k' = k) by exact (v_inj _ _ _ _ _ _ _ _ _ H k' k x E Hfk). subst k'.
        assert (b :: q = p) by exact (Inv_pfun_name _ _ _ _ _ _ _ _ _ H _ _ _ Hp' Hk).
        apply Hnin. left. symmetry. exact H0.
      + assert (o = k) by exact (v_inj _ _ _ _ _ _ _ _ _ H o k x E Hfk). subst o. exact (Hnoh k' Ho). }
  assert (Hnone : find base (d_children ds pid) = None).
  { destruct (d_find ds p) as [y|] eqn:Ey.
    - exfalso. destruct (v_L1 _ _ _ _ _ _ _ _ _ H p y Ey Hpne) as [_ [_ [_ Hnin]]]. apply Hnin. left. reflexivity.
    - subst p. rewrite d_find_cons, HPar in Ey. exact Ey. }
  assert (Lpid : (pid < length (ds_nodes ds))%nat) by (apply nth_error_Some; congruence).
  assert (Hch' : forall y, d_children ds' y = if Nat.eqb y pid then ins base x (d_children ds pid) else d_children ds y)
    by (intro y; apply d_children_set_child; exact Lpid).
  assert (Hfind' : forall q, d_find ds' q = if path_eqb q (base :: par) then Some x else d_find ds q).
  { apply (d_find_link ds ds' pid base x par Hch' HPar).
    - intros q Hq. pose proof (Inv_find_dir _ _ _ _ _ _ _ _ _ H kp pid q Hfkp Hkpdir Hq) as Hq'.
      exact (Inv_pfun_name _ _ _ _ _ _ _ _ _ H _ _ _ Hq' Hkp).
    - exact Hnone.
    - exact Hxkids.
    - exact Hxne0. }
  assert (HnodupP : NoDup (p :: P')) by exact (v_nodupP _ _ _ _ _ _ _ _ _ H).
  assert (HpP' : ~ In p P') by (inversion HnodupP; assumption).
  assert (Mnth : forall z mn, nth_error (ms_nodes ms') z = Some mn ->
            exists mn0, nth_error (ms_nodes ms) z = Some mn0 /\ mn_e mn = mn_e mn0 /\
                        (z <> kp -> mn = mn0)).
  { intros z mn Hz. destruct (Nat.eq_dec z kp) as [->|Hne].
    - rewrite Mp in Hz. inversion Hz; subst mn. exists mnp. split; [exact Hmnp|]. split; [reflexivity|]. intro; contradiction.
    - rewrite Mo in Hz by exact Hne. exists mn. auto. }
  assert (Mfwd : forall z mn, nth_error (ms_nodes ms) z = Some mn -> exists mn', nth_error (ms_nodes ms') z = Some mn' /\ mn_e mn' = mn_e mn
       /\ (ntype ms z <> TDir -> mn_ch mn' = mn_ch mn)).
  { intros z mn Hz. destruct (Nat.eq_dec z kp) as [->|Hne].
    - eexists. split; [exact Mp|]. rewrite Hmnp in Hz. inversion Hz; subst mn. split; [reflexivity|]. intro; contradiction.
    - exists mn. split; [rewrite Mo by exact Hne; exact Hz|]. auto. }
  assert (Mty : forall z, ntype ms' z = ntype ms z).
  { intro z. unfold ntype. destruct (nth_error (ms_nodes ms) z) as [mn|] eqn:E.
    - destruct (Mfwd z mn E) as [mn' [E' [He _]]]. rewrite E', He. reflexivity.
    - assert (nth_error (ms_nodes ms') z = None) by (apply nth_error_None; rewrite Ml; apply nth_error_None; exact E). rewrite H0. reflexivity. }
  constructor.
  - rewrite Ml. exact (v_lenm _ _ _ _ _ _ _ _ _ H).
  - rewrite Mm. exact (v_mlen _ _ _ _ _ _ _ _ _ H).
  - intros j e Hj. rewrite Mm. exact (v_expl _ _ _ _ _ _ _ _ _ H j e Hj).
  - intros q k0 Hq. rewrite Mm in Hq. destruct (v_mdom _ _ _ _ _ _ _ _ _ H q k0 Hq) as [mn [Hn Hc]].
    destruct (Nat.eq_dec k0 kp) as [->|Hne].
    + eexists. split; [exact Mp|]. simpl. rewrite Hmnp in Hn. inversion Hn; subst mn. exact Hc.
    + exists mn. split; [rewrite Mo by exact Hne; exact Hn|exact Hc].
  - intros j mn Hj Hn. destruct (Mnth j mn Hn) as [mn0 [Hn0 [He _]]]. rewrite He.
    exact (v_ent _ _ _ _ _ _ _ _ _ H j mn0 Hj Hn0).
  - intros k0 mn Hk0 Hn. destruct (Mnth k0 mn Hn) as [mn0 [Hn0 [He _]]]. rewrite He.
    exact (v_impl _ _ _ _ _ _ _ _ _ H k0 mn0 Hk0 Hn0).
  - intros j mn Hj Hn. destruct (Mnth j mn Hn) as [mn0 [Hn0 [He Hsame]]].
    destruct (v_todo _ _ _ _ _ _ _ _ _ H j mn0 Hj Hn0) as [Hfj Hrest].
    assert (j <> kp) by (intro; subst j; congruence).
    rewrite (Hsame H0). split; assumption.
  - exact (v_htodo _ _ _ _ _ _ _ _ _ H).
  - exact (v_done _ _ _ _ _ _ _ _ _ H).
  - intros k0 x0 Hf0. destruct (Nat.eq_dec k0 kp) as [->|Hne].
    + assert (x0 = pid) by congruence. subst x0.
      eexists. eexists. split; [exact Mp|]. split; [exact Dp|].
      destruct Hrelp as [Hb [Hn1 [Hc Hck]]]. unfold nrel. cbn [mn_e mn_nlink mn_ch dn_b dn_ch dn_chunks].
      split; [|split; [|split]].
      * destruct isdir; [|exact Hb]. rewrite Hb. rewrite bump_write by exact Hn1. f_equal. f_equal. lia.
      * destruct isdir; lia.
      * apply ch_rel_ins; assumption.
      * exact Hck.
    + destruct (v_dom _ _ _ _ _ _ _ _ _ H k0 x0 Hf0) as [mn [dn [Hn [Hd Hr]]]].
      exists mn, dn. split; [rewrite Mo by exact Hne; exact Hn|]. split; [|exact Hr].
      rewrite Do; [exact Hd|]. intro E. subst x0. apply Hne. exact (v_inj _ _ _ _ _ _ _ _ _ H k0 kp pid Hf0 Hfkp).
  - intros k0 x0 Hf0. rewrite Mty. exact (v_ftype _ _ _ _ _ _ _ _ _ H k0 x0 Hf0).
  - exact (v_inj _ _ _ _ _ _ _ _ _ H).
  - intros q y Hq Hqne. rewrite Hfind' in Hq. rewrite Mm. destruct (path_eqb q (base :: par)) eqn:E.
    + apply path_eqb_eq in E. inversion Hq; subst y. exists k. rewrite E, <- Hp. split; [exact Hk|]. split; [apply fx_f; exact Hfk|exact HpP'].
    + destruct (v_L1 _ _ _ _ _ _ _ _ _ H q y Hq Hqne) as [k0 [H1 [H2 H3]]]. exists k0. split; [exact H1|]. split; [exact H2|].
      intro Hin. apply H3. right. exact Hin.
  - intros q k0 y Hq Hf0 Hnin. rewrite Mm in Hq. rewrite Hfind'. destruct (path_eqb q (base :: par)) eqn:E.
    + apply path_eqb_eq in E. rewrite <- Hp in E. subst q. rewrite Hk in Hq. inversion Hq; subst k0.
      unfold fx in Hf0. rewrite Hfk in Hf0. exact Hf0.
    + apply (v_L2 _ _ _ _ _ _ _ _ _ H q k0 y Hq Hf0). intros [Hin|Hin]; [|exact (Hnin Hin)].
      subst q. rewrite Hp, path_eqb_refl in E. discriminate.
  - rewrite Mm, Ml, Dl. destruct (v_root _ _ _ _ _ _ _ _ _ H) as [[r [Hr [Hfr [Hty Hl]]]]|[H1 [H2 [H3 H4]]]].
    + left. exists r. rewrite Mty. auto.
    + right. split; [exact H1|]. split; [|split; [exact H3|exact H4]].
      rewrite Do; [exact H2|]. intro E. subst pid. exact (H3 kp Hfkp).
  - intros q Hin. destruct (v_pend _ _ _ _ _ _ _ _ _ H q (or_intror Hin)) as [Hqne [k0 [x0 [mn0 [H1 [H2 [H3 H4]]]]]]].
    split; [exact Hqne|]. exists k0, x0, mn0. rewrite Mm. split; [exact H1|]. split; [exact H2|]. split; [|exact H4].
    rewrite Mo; [exact H3|]. intro E. subst k0. apply Hparn. right.
    assert (q = par) by exact (Inv_pfun_name _ _ _ _ _ _ _ _ _ H _ _ _ H1 Hkp). subst q. exact Hin.
  - inversion HnodupP; assumption.
  - intros j Hj. rewrite Ml. exact (v_np _ _ _ _ _ _ _ _ _ H j Hj).
  - intros y Hy. rewrite Dl. exact (v_cp _ _ _ _ _ _ _ _ _ H y Hy).
  - apply (v_h_transport toc i ms ds f h (p :: P') np cp ms' H).
    + intros z mn Hz. destruct (Mfwd z mn Hz) as [mn' [E' [He Hc]]]. exists mn'. split; [exact E'|]. split; [exact He|].
      intro Hnd. destruct (Nat.eq_dec z kp) as [->|Hne]; [contradiction|]. rewrite Mo in E' by exact Hne. congruence.
    + intros q k0 Hq. rewrite Mm. exact Hq.
    + apply psub_refl.
    + intros k0 Hk0. destruct (h k0) as [o|] eqn:Eo; [|contradiction].
      destruct (v_h _ _ _ _ _ _ _ _ _ H k0 o Eo) as [_ [_ [Hfn _]]]. exact Hfn.
  - intros z mn Hz Hnd. destruct (Nat.eq_dec z kp) as [->|Hne].
    + exfalso. rewrite Mp in Hz. inversion Hz; subst mn. simpl in Hnd. rewrite (ntype_nth ms kp mnp Hmnp) in Hkpdir. contradiction.
    + rewrite Mo in Hz by exact Hne. exact (v_leaf _ _ _ _ _ _ _ _ _ H z mn Hz Hnd).
Qed.

(* ---------- creating an implicit directory in both stores (not yet linked) ---------- *)

Lemma nrel_mono : forall f g np cp k x mn dn, psub f g -> nrel f np cp k x mn dn -> nrel g np cp k x mn dn.
Proof. intros f g np cp k x mn dn Hs [H1 [H2 [H3 H4]]]. split; [exact H1|]. split; [exact H2|]. split; [exact (ch_rel_mono f g _ _ Hs H3)|exact H4]. Qed.

Lemma pfind_cons : forall {B} (q d : list Z) (k : B) m, pfind q ((d, k) :: m) = if path_eqb q d then Some k else pfind q m.
Proof. reflexivity. Qed.

Lemma Inv_create : forall toc i ms ds f h P np cp d,
  Inv toc i ms ds f h P np cp -> pfind d (ms_m ms) = None -> d <> [] -> Forall plain d -> ~ In d P ->
  Inv toc i (MS (ms_nodes ms ++ [MN (implicit_dir d) 2 []]) ((d, length (ms_nodes ms)) :: ms_m ms))
      (fst (d_new ds root_attr)) (pset f (length (ms_nodes ms)) (length (ds_nodes ds))) h (d :: P) np cp.
Proof.
  intros toc i ms ds f h P np cp d H Hnone Hdne Hplain HdP.
  set (k := length (ms_nodes ms)). set (x := length (ds_nodes ds)).
  set (f' := pset f k x).
  assert (Hfk : f k = None).
  { destruct (f k) as [y|] eqn:E; [|reflexivity]. destruct (v_dom _ _ _ _ _ _ _ _ _ H k y E) as [mn [_ [Hn _]]].
    assert (nth_error (ms_nodes ms) k = None) by (apply nth_error_None; unfold k; lia). congruence. }
  assert (Hsub : psub f f') by (apply psub_pset; exact Hfk).
  assert (Hlt : forall q k0, pfind q (ms_m ms) = Some k0 -> (k0 < k)%nat).
  { intros q k0 Hq. destruct (v_mdom _ _ _ _ _ _ _ _ _ H q k0 Hq) as [mn [Hn _]]. apply nth_error_Some. congruence. }
  assert (Hflt : forall k0 y, f k0 = Some y -> (k0 < k)%nat /\ (y < x)%nat).
  { intros k0 y E. destruct (v_dom _ _ _ _ _ _ _ _ _ H k0 y E) as [mn [dn [Hn [Hd _]]]].
    split; apply nth_error_Some; congruence. }
  assert (Hf'old : forall k0, k0 <> k -> f' k0 = f k0) by (intros; apply pset_other; assumption).
  assert (Hqd : forall q k0, pfind q (ms_m ms) = Some k0 -> path_eqb q d = false).
  { intros q k0 Hq. apply path_eqb_neq. intro; subst q. congruence. }
  assert (Hdfind : forall q, d_find (fst (d_new ds root_attr)) q = d_find ds q).
  { intro q. unfold d_new. simpl fst. apply d_find_app. exact (Inv_range _ _ _ _ _ _ _ _ _ H). }
  assert (Hlen1 : (1 <= x)%nat).
  { destruct (v_root _ _ _ _ _ _ _ _ _ H) as [[r [_ [Hr _]]]|[_ [H0 _]]].
    - destruct (Hflt r O Hr). lia.
    - assert (0 < x)%nat by (apply nth_error_Some; congruence). lia. }
  assert (Hnpk : nadj np k = 0).
  { unfold nadj. destruct np as [j|]; [|reflexivity]. destruct (v_np _ _ _ _ _ _ _ _ _ H j eq_refl) as [Hj _].
    replace (Nat.eqb j k) with false by (symmetry; apply Nat.eqb_neq; unfold k; lia). reflexivity. }
  assert (Hhk : h k = None).
  { destruct (h k) as [o|] eqn:E; [|reflexivity]. destruct (v_h _ _ _ _ _ _ _ _ _ H k o E) as [_ [Hkn _]].
    pose proof (v_lenm _ _ _ _ _ _ _ _ _ H). unfold k in Hkn. lia. }
  assert (Hhf : forall k1 o, h k1 = Some o -> f o <> None).
  { intros k1 o E. destruct (v_h _ _ _ _ _ _ _ _ _ H k1 o E) as [_ [_ [_ [_ [[x1 [mo [Hfo _]]] _]]]]]. congruence. }
  assert (Mty : forall z, (z < k)%nat -> ntype (MS (ms_nodes ms ++ [MN (implicit_dir d) 2 []]) ((d, k) :: ms_m ms)) z = ntype ms z).
  { intros z Hz. unfold ntype. cbn [ms_nodes]. rewrite nth_error_app1 by exact Hz. reflexivity. }
  assert (Dn : forall z, (z < x)%nat -> nth_error (ds_nodes (fst (d_new ds root_attr))) z = nth_error (ds_nodes ds) z)
    by (intros z Hz; unfold d_new; simpl; apply nth_error_app1; exact Hz).
  assert (Dx : nth_error (ds_nodes (fst (d_new ds root_attr))) x = Some (DN (write_attr root_attr) [] []))
    by (unfold d_new; simpl; rewrite nth_error_app2 by (unfold x; lia); unfold x; rewrite Nat.sub_diag; reflexivity).
  assert (Mn : forall z, (z < k)%nat -> nth_error (ms_nodes ms ++ [MN (implicit_dir d) 2 []]) z = nth_error (ms_nodes ms) z)
    by (intros z Hz; apply nth_error_app1; exact Hz).
  assert (Mk : nth_error (ms_nodes ms ++ [MN (implicit_dir d) 2 []]) k = Some (MN (implicit_dir d) 2 []))
    by (rewrite nth_error_app2 by (unfold k; lia); unfold k; rewrite Nat.sub_diag; reflexivity).
  constructor; cbn [ms_nodes ms_m].
  - rewrite app_length. pose proof (v_lenm _ _ _ _ _ _ _ _ _ H). lia.
  - simpl length. pose proof (v_mlen _ _ _ _ _ _ _ _ _ H). lia.
  - intros j e Hj. rewrite pfind_cons. pose proof (v_expl _ _ _ _ _ _ _ _ _ H j e Hj) as Hp. rewrite (Hqd _ _ Hp). exact Hp.
  - intros q k0 Hq. rewrite pfind_cons in Hq. destruct (path_eqb q d) eqn:E.
    + apply path_eqb_eq in E. inversion Hq; subst. eexists. split; [exact Mk|]. apply cname_implicit. exact Hplain.
    + destruct (v_mdom _ _ _ _ _ _ _ _ _ H q k0 Hq) as [mn [Hn Hc]]. exists mn. split; [|exact Hc].
      rewrite Mn; [exact Hn|]. exact (Hlt q k0 Hq).
  - intros j mn Hj Hn. pose proof (v_lenm _ _ _ _ _ _ _ _ _ H). rewrite Mn in Hn by (unfold k; lia).
    exact (v_ent _ _ _ _ _ _ _ _ _ H j mn Hj Hn).
  - intros k0 mn Hk0 Hn. destruct (Nat.lt_ge_cases k0 k) as [Hl|Hg].
    + rewrite Mn in Hn by exact Hl. destruct (v_impl _ _ _ _ _ _ _ _ _ H k0 mn Hk0 Hn) as [Hd Hf0]. split; [exact Hd|].
      rewrite Hf'old by lia. exact Hf0.
    + destruct (Nat.eq_dec k0 k) as [->|Hne].
      * rewrite Mk in Hn. inversion Hn; subst mn. split; [exists d; reflexivity|]. unfold f'. rewrite pset_same. discriminate.
      * assert (nth_error (ms_nodes ms ++ [MN (implicit_dir d) 2 []]) k0 = None)
          by (apply nth_error_None; rewrite app_length; simpl; unfold k in *; lia). congruence.
  - intros j mn Hj Hn. pose proof (v_lenm _ _ _ _ _ _ _ _ _ H). rewrite Mn in Hn by (unfold k; lia).
    rewrite Hf'old by (unfold k; lia). exact (v_todo _ _ _ _ _ _ _ _ _ H j mn Hj Hn).
  - exact (v_htodo _ _ _ _ _ _ _ _ _ H).
  - intros j Hj Hjn. pose proof (v_lenm _ _ _ _ _ _ _ _ _ H). rewrite Hf'old by (unfold k; lia).
    exact (v_done _ _ _ _ _ _ _ _ _ H j Hj Hjn).
  - intros k0 x0 Hf0. destruct (Nat.eq_dec k0 k) as [->|Hne].
    + unfold f' in Hf0. rewrite pset_same in Hf0. inversion Hf0; subst x0.
      eexists. eexists. split; [exact Mk|]. split; [exact Dx|].
      unfold nrel. cbn [mn_e mn_nlink mn_ch dn_b dn_ch dn_chunks]. rewrite Hnpk.
      split; [reflexivity|]. split; [lia|]. split; [constructor|]. split; [intros _; reflexivity|intros _; reflexivity].
    + rewrite Hf'old in Hf0 by exact Hne. destruct (Hflt k0 x0 Hf0) as [Hk0 Hx0].
      destruct (v_dom _ _ _ _ _ _ _ _ _ H k0 x0 Hf0) as [mn [dn [Hn [Hd Hr]]]].
      exists mn, dn. split; [rewrite Mn by exact Hk0; exact Hn|]. split; [rewrite Dn by exact Hx0; exact Hd|].
      exact (nrel_mono f f' _ _ _ _ _ _ Hsub Hr).
  - intros k0 x0 Hf0. destruct (Nat.eq_dec k0 k) as [->|Hne].
    + unfold ntype. cbn [ms_nodes]. rewrite Mk. simpl. discriminate.
    + rewrite Hf'old in Hf0 by exact Hne. destruct (Hflt k0 x0 Hf0) as [Hk0 _]. rewrite Mty by exact Hk0.
      exact (v_ftype _ _ _ _ _ _ _ _ _ H k0 x0 Hf0).
  - intros k0 k1 y H0 H1. destruct (Nat.eq_dec k0 k) as [->|Hne0]; destruct (Nat.eq_dec k1 k) as [->|Hne1]; try reflexivity.
    + unfold f' in H0. rewrite pset_same in H0. inversion H0; subst y. rewrite Hf'old in H1 by exact Hne1.
      destruct (Hflt k1 x H1). lia.
    + unfold f' in H1. rewrite pset_same in H1. inversion H1; subst y. rewrite Hf'old in H0 by exact Hne0.
      destruct (Hflt k0 x H0). lia.
    + rewrite Hf'old in H0, H1 by assumption. exact (v_inj _ _ _ _ _ _ _ _ _ H k0 k1 y H0 H1).
  - intros q y Hq Hqne. rewrite Hdfind in Hq. destruct (v_L1 _ _ _ _ _ _ _ _ _ H q y Hq Hqne) as [k0 [H1 [H2 H3]]].
    exists k0. rewrite pfind_cons, (Hqd _ _ H1). split; [exact H1|]. split; [apply fx_pset; assumption|].
    intros [E|Hin]; [subst q; congruence|exact (H3 Hin)].
  - intros q k0 y Hq Hf0 Hnin. rewrite Hdfind. rewrite pfind_cons in Hq. destruct (path_eqb q d) eqn:E.
    + apply path_eqb_eq in E. subst q. exfalso. apply Hnin. left. reflexivity.
    + pose proof (Hlt q k0 Hq). apply (fx_pset_inv f h k x k0 y Hhf Hfk) in Hf0; [|lia].
      apply (v_L2 _ _ _ _ _ _ _ _ _ H q k0 y Hq Hf0). intro Hin. apply Hnin. right. exact Hin.
  - rewrite pfind_cons. rewrite (path_eqb_neq [] d) by (intro E; apply Hdne; symmetry; exact E).
    rewrite app_length. simpl length. unfold d_new. cbn [fst d_set_nodes ds_nodes]. rewrite app_length. simpl length.
    destruct (v_root _ _ _ _ _ _ _ _ _ H) as [[r [Hr [Hfr [Hty Hl]]]]|[H1 [H2 [H3 H4]]]].
    + left. exists r. split; [exact Hr|]. split; [apply Hsub; exact Hfr|]. split; [rewrite Mty by exact (Hlt _ _ Hr); exact Hty|]. fold x in Hl. fold k in Hl. lia.
    + right. split.
      { destruct H1 as [H1|[r0 [Hr0 Hfr0]]]; [left; exact H1|right]. exists r0. split; [exact Hr0|].
        rewrite Hf'old; [exact Hfr0|]. pose proof (Hlt _ _ Hr0). lia. }
      split; [rewrite nth_error_app1 by (fold x; lia); exact H2|]. split; [|lia].
      intros k0 Hk0. destruct (Nat.eq_dec k0 k) as [->|Hne].
      * unfold f' in Hk0. rewrite pset_same in Hk0. inversion Hk0. lia.
      * rewrite Hf'old in Hk0 by exact Hne. exact (H3 k0 Hk0).
  - intros q [E|Hin].
    + subst q. split; [exact Hdne|]. exists k, x, (MN (implicit_dir d) 2 []). rewrite pfind_cons, path_eqb_refl.
      split; [reflexivity|]. split; [unfold f'; apply pset_same|]. split; [exact Mk|reflexivity].
    + destruct (v_pend _ _ _ _ _ _ _ _ _ H q Hin) as [Hqne [k0 [x0 [mn0 [H1 [H2 [H3 H4]]]]]]].
      split; [exact Hqne|]. exists k0, x0, mn0. rewrite pfind_cons, (Hqd _ _ H1).
      split; [exact H1|]. split; [apply Hsub; exact H2|]. split; [rewrite Mn by exact (Hlt _ _ H1); exact H3|exact H4].
  - constructor; [exact HdP|exact (v_nodupP _ _ _ _ _ _ _ _ _ H)].
  - intros j Hj. destruct (v_np _ _ _ _ _ _ _ _ _ H j Hj) as [Hjl Hjf]. rewrite app_length. split; [lia|].
    rewrite Hf'old by (unfold k; lia). exact Hjf.
  - intros y Hy. pose proof (v_cp _ _ _ _ _ _ _ _ _ H y Hy). unfold d_new. cbn [fst d_set_nodes ds_nodes]. rewrite app_length. lia.
  - intros k0 o Hk0.
    refine (v_h_transport toc i ms ds f h P np cp (MS (ms_nodes ms ++ [MN (implicit_dir d) 2 []]) ((d, k) :: ms_m ms)) H _ _ f' Hsub _ k0 o Hk0).
    + intros z mn Hz. exists mn. assert (z < k)%nat by (apply nth_error_Some; congruence).
      split; [cbn [ms_nodes]; rewrite Mn by assumption; exact Hz|]. auto.
    + intros q k1 Hq. cbn [ms_m]. rewrite pfind_cons, (Hqd _ _ Hq). exact Hq.
    + intros k1 Hk1. destruct (h k1) as [o1|] eqn:Eo; [|contradiction].
      destruct (v_h _ _ _ _ _ _ _ _ _ H k1 o1 Eo) as [_ [Hkn [Hfn _]]]. pose proof (v_lenm _ _ _ _ _ _ _ _ _ H).
      rewrite Hf'old by (unfold k; lia). exact Hfn.
  - intros z mn Hz Hnd. destruct (Nat.lt_ge_cases z k) as [Hl|Hg].
    + rewrite Mn in Hz by exact Hl. exact (v_leaf _ _ _ _ _ _ _ _ _ H z mn Hz Hnd).
    + destruct (Nat.eq_dec z k) as [->|Hne]; [rewrite Mk in Hz; inversion Hz; reflexivity|].
      assert (nth_error (ms_nodes ms ++ [MN (implicit_dir d) 2 []]) z = None) by (apply nth_error_None; rewrite app_length; simpl; unfold k in *; lia). congruence.
Qed.

(* the memory store creates its root lazily; the db store has had it from the start *)
Lemma Inv_root_create : forall toc i ms ds f h P np cp,
  Inv toc i ms ds f h P np cp -> pfind [] (ms_m ms) = None ->
  Inv toc i (MS (ms_nodes ms ++ [MN (implicit_dir []) 2 []]) (([], length (ms_nodes ms)) :: ms_m ms))
      ds (pset f (length (ms_nodes ms)) O) h P np cp.
Proof.
  intros toc i ms ds f h P np cp H Hnone.
  set (k := length (ms_nodes ms)). set (f' := pset f k O).
  destruct (v_root _ _ _ _ _ _ _ _ _ H) as [[r [Hr _]]|[_ [Hroot [Hno Hlen]]]]; [congruence|].
  assert (Hfk : f k = None).
  { destruct (f k) as [y|] eqn:E; [|reflexivity]. destruct (v_dom _ _ _ _ _ _ _ _ _ H k y E) as [mn [_ [Hn _]]].
    assert (nth_error (ms_nodes ms) k = None) by (apply nth_error_None; unfold k; lia). congruence. }
  assert (Hsub : psub f f') by (apply psub_pset; exact Hfk).
  assert (Hlt : forall q k0, pfind q (ms_m ms) = Some k0 -> (k0 < k)%nat).
  { intros q k0 Hq. destruct (v_mdom _ _ _ _ _ _ _ _ _ H q k0 Hq) as [mn [Hn _]]. apply nth_error_Some. congruence. }
  assert (Hflt : forall k0 y, f k0 = Some y -> (k0 < k)%nat).
  { intros k0 y E. destruct (v_dom _ _ _ _ _ _ _ _ _ H k0 y E) as [mn [dn [Hn _]]]. apply nth_error_Some. congruence. }
  assert (Hf'old : forall k0, k0 <> k -> f' k0 = f k0) by (intros; apply pset_other; assumption).
  assert (Hqd : forall q k0, pfind q (ms_m ms) = Some k0 -> path_eqb q [] = false).
  { intros q k0 Hq. apply path_eqb_neq. intro; subst q. congruence. }
  assert (Hnpk : nadj np k = 0).
  { unfold nadj. destruct np as [j|]; [|reflexivity]. destruct (v_np _ _ _ _ _ _ _ _ _ H j eq_refl) as [Hj _].
    replace (Nat.eqb j k) with false by (symmetry; apply Nat.eqb_neq; unfold k; lia). reflexivity. }
  assert (Hhk : h k = None).
  { destruct (h k) as [o|] eqn:E; [|reflexivity]. destruct (v_h _ _ _ _ _ _ _ _ _ H k o E) as [_ [Hkn _]].
    pose proof (v_lenm _ _ _ _ _ _ _ _ _ H). unfold k in Hkn. lia. }
  assert (Hhf : forall k1 o, h k1 = Some o -> f o <> None).
  { intros k1 o E. destruct (v_h _ _ _ _ _ _ _ _ _ H k1 o E) as [_ [_ [_ [_ [[x1 [mo [Hfo _]]] _]]]]]. congruence. }
  assert (Mty : forall z, (z < k)%nat -> ntype (MS (ms_nodes ms ++ [MN (implicit_dir []) 2 []]) (([], k) :: ms_m ms)) z = ntype ms z).
  { intros z Hz. unfold ntype. cbn [ms_nodes]. rewrite nth_error_app1 by exact Hz. reflexivity. }
  assert (Mn : forall z, (z < k)%nat -> nth_error (ms_nodes ms ++ [MN (implicit_dir []) 2 []]) z = nth_error (ms_nodes ms) z)
    by (intros z Hz; apply nth_error_app1; exact Hz).
  assert (Mk : nth_error (ms_nodes ms ++ [MN (implicit_dir []) 2 []]) k = Some (MN (implicit_dir []) 2 []))
    by (rewrite nth_error_app2 by (unfold k; lia); unfold k; rewrite Nat.sub_diag; reflexivity).
  constructor; cbn [ms_nodes ms_m].
  - rewrite app_length. pose proof (v_lenm _ _ _ _ _ _ _ _ _ H). lia.
  - simpl length. pose proof (v_mlen _ _ _ _ _ _ _ _ _ H). lia.
  - intros j e Hj. rewrite pfind_cons. pose proof (v_expl _ _ _ _ _ _ _ _ _ H j e Hj) as Hp. rewrite (Hqd _ _ Hp). exact Hp.
  - intros q k0 Hq. rewrite pfind_cons in Hq. destruct (path_eqb q []) eqn:E.
    + apply path_eqb_eq in E. inversion Hq; subst. eexists. split; [exact Mk|]. reflexivity.
    + destruct (v_mdom _ _ _ _ _ _ _ _ _ H q k0 Hq) as [mn [Hn Hc]]. exists mn. split; [|exact Hc].
      rewrite Mn; [exact Hn|]. exact (Hlt q k0 Hq).
  - intros j mn Hj Hn. pose proof (v_lenm _ _ _ _ _ _ _ _ _ H). rewrite Mn in Hn by (unfold k; lia).
    exact (v_ent _ _ _ _ _ _ _ _ _ H j mn Hj Hn).
  - intros k0 mn Hk0 Hn. destruct (Nat.lt_ge_cases k0 k) as [Hl|Hg].
    + rewrite Mn in Hn by exact Hl. destruct (v_impl _ _ _ _ _ _ _ _ _ H k0 mn Hk0 Hn) as [Hd Hf0]. split; [exact Hd|].
      rewrite Hf'old by lia. exact Hf0.
    + destruct (Nat.eq_dec k0 k) as [->|Hne].
      * rewrite Mk in Hn. inversion Hn; subst mn. split; [exists []; reflexivity|]. unfold f'. rewrite pset_same. discriminate.
      * assert (nth_error (ms_nodes ms ++ [MN (implicit_dir []) 2 []]) k0 = None)
          by (apply nth_error_None; rewrite app_length; simpl; unfold k in *; lia). congruence.
  - intros j mn Hj Hn. pose proof (v_lenm _ _ _ _ _ _ _ _ _ H). rewrite Mn in Hn by (unfold k; lia).
    rewrite Hf'old by (unfold k; lia). exact (v_todo _ _ _ _ _ _ _ _ _ H j mn Hj Hn).
  - exact (v_htodo _ _ _ _ _ _ _ _ _ H).
  - intros j Hj Hjn. pose proof (v_lenm _ _ _ _ _ _ _ _ _ H). rewrite Hf'old by (unfold k; lia).
    exact (v_done _ _ _ _ _ _ _ _ _ H j Hj Hjn).
  - intros k0 x0 Hf0. destruct (Nat.eq_dec k0 k) as [->|Hne].
    + unfold f' in Hf0. rewrite pset_same in Hf0. inversion Hf0; subst x0.
      eexists. eexists. split; [exact Mk|]. split; [exact Hroot|].
      unfold nrel. cbn [mn_e mn_nlink mn_ch dn_b dn_ch dn_chunks]. rewrite Hnpk.
      split; [reflexivity|]. split; [lia|]. split; [constructor|]. split; [intros _; reflexivity|intros _; reflexivity].
    + rewrite Hf'old in Hf0 by exact Hne. pose proof (Hflt k0 x0 Hf0) as Hk0.
      destruct (v_dom _ _ _ _ _ _ _ _ _ H k0 x0 Hf0) as [mn [dn [Hn [Hd Hr]]]].
      exists mn, dn. split; [rewrite Mn by exact Hk0; exact Hn|]. split; [exact Hd|].
      exact (nrel_mono f f' _ _ _ _ _ _ Hsub Hr).
  - intros k0 x0 Hf0. destruct (Nat.eq_dec k0 k) as [->|Hne].
    + unfold ntype. cbn [ms_nodes]. rewrite Mk. simpl. discriminate.
    + rewrite Hf'old in Hf0 by exact Hne. pose proof (Hflt k0 x0 Hf0) as Hk0. rewrite Mty by exact Hk0.
      exact (v_ftype _ _ _ _ _ _ _ _ _ H k0 x0 Hf0).
  - intros k0 k1 y H0 H1. destruct (Nat.eq_dec k0 k) as [->|Hne0]; destruct (Nat.eq_dec k1 k) as [->|Hne1]; try reflexivity.
    + unfold f' in H0. rewrite pset_same in H0. inversion H0; subst y. rewrite Hf'old in H1 by exact Hne1.
      exfalso. exact (Hno k1 H1).
    + unfold f' in H1. rewrite pset_same in H1. inversion H1; subst y. rewrite Hf'old in H0 by exact Hne0.
      exfalso. exact (Hno k0 H0).
    + rewrite Hf'old in H0, H1 by assumption. exact (v_inj _ _ _ _ _ _ _ _ _ H k0 k1 y H0 H1).
  - intros q y Hq Hqne. destruct (v_L1 _ _ _ _ _ _ _ _ _ H q y Hq Hqne) as [k0 [H1 [H2 H3]]].
    exists k0. rewrite pfind_cons, (Hqd _ _ H1). split; [exact H1|]. split; [apply fx_pset; assumption|exact H3].
  - intros q k0 y Hq Hf0 Hnin. rewrite pfind_cons in Hq. destruct (path_eqb q []) eqn:E.
    + apply path_eqb_eq in E. subst q. inversion Hq; subst k0. unfold fx, f' in Hf0. rewrite pset_same in Hf0. inversion Hf0. reflexivity.
    + pose proof (Hlt q k0 Hq). apply (fx_pset_inv f h k O k0 y Hhf Hfk) in Hf0; [|lia]. exact (v_L2 _ _ _ _ _ _ _ _ _ H q k0 y Hq Hf0 Hnin).
  - left. exists k. rewrite pfind_cons. simpl. split; [reflexivity|]. split; [unfold f'; apply pset_same|].
    split; [unfold ntype; cbn [ms_nodes]; rewrite Mk; reflexivity|]. rewrite app_length. simpl. fold k. lia.
  - intros q Hin. destruct (v_pend _ _ _ _ _ _ _ _ _ H q Hin) as [Hqne [k0 [x0 [mn0 [H1 [H2 [H3 H4]]]]]]].
    split; [exact Hqne|]. exists k0, x0, mn0. rewrite pfind_cons, (Hqd _ _ H1).
    split; [exact H1|]. split; [apply Hsub; exact H2|]. split; [rewrite Mn by exact (Hlt _ _ H1); exact H3|exact H4].
  - exact (v_nodupP _ _ _ _ _ _ _ _ _ H).
  - intros j Hj. destruct (v_np _ _ _ _ _ _ _ _ _ H j Hj) as [Hjl Hjf]. rewrite app_length. split; [lia|].
    rewrite Hf'old by (unfold k; lia). exact Hjf.
  - exact (v_cp _ _ _ _ _ _ _ _ _ H).
  - intros k0 o Hk0.
    refine (v_h_transport toc i ms ds f h P np cp (MS (ms_nodes ms ++ [MN (implicit_dir []) 2 []]) (([], k) :: ms_m ms)) H _ _ f' Hsub _ k0 o Hk0).
    + intros z mn Hz. exists mn. assert (z < k)%nat by (apply nth_error_Some; congruence).
      split; [cbn [ms_nodes]; rewrite Mn by assumption; exact Hz|]. auto.
    + intros q k1 Hq. cbn [ms_m]. rewrite pfind_cons, (Hqd _ _ Hq). exact Hq.
    + intros k1 Hk1. destruct (h k1) as [o1|] eqn:Eo; [|contradiction].
      destruct (v_h _ _ _ _ _ _ _ _ _ H k1 o1 Eo) as [_ [Hkn [Hfn _]]]. pose proof (v_lenm _ _ _ _ _ _ _ _ _ H).
      rewrite Hf'old by (unfold k; lia). exact Hfn.
  - intros z mn Hz Hnd. destruct (Nat.lt_ge_cases z k) as [Hl|Hg].
    + rewrite Mn in Hz by exact Hl. exact (v_leaf _ _ _ _ _ _ _ _ _ H z mn Hz Hnd).
    + destruct (Nat.eq_dec z k) as [->|Hne]; [rewrite Mk in Hz; inversion Hz; reflexivity|].
      assert (nth_error (ms_nodes ms ++ [MN (implicit_dir []) 2 []]) z = None) by (apply nth_error_None; rewrite app_length; simpl; unfold k in *; lia). congruence.
Qed.

(* ---------- getOrCreateDir of both stores ---------- *)

Lemma m_add_child_m : forall s kp b k, ms_m (m_add_child s kp b k) = ms_m s.
Proof.
  intros s kp b k. unfold m_add_child.
  set (s1 := if etype_eqb (m_type s k) TDir then m_nlink_inc s kp else s).
  assert (H1 : ms_m s1 = ms_m s).
  { unfold s1. destruct (etype_eqb (m_type s k) TDir); [|reflexivity]. unfold m_nlink_inc. destruct (nth_error (ms_nodes s) kp); reflexivity. }
  destruct (nth_error (ms_nodes s1) kp); simpl; exact H1.
Qed.

Lemma m_goc_cons_none : forall s b t, pfind (b :: t) (ms_m s) = None ->
  m_goc s (b :: t) =
  let k := length (ms_nodes s) in
  let s1 := MS (ms_nodes s ++ [MN (implicit_dir (b :: t)) 2 []]) ((b :: t, k) :: ms_m s) in
  let '(s2, pid) := m_goc s1 t in (m_add_child s2 pid b k, k).
Proof. intros s b t H. cbn [m_goc]. rewrite H. reflexivity. Qed.

Lemma d_goc_cons_none : forall s b t, d_find s (b :: t) = None ->
  d_goc s (b :: t) =
  let s1 := d_set_nodes s (ds_nodes s ++ [DN (write_attr root_attr) [] []]) in
  let k := length (ds_nodes s) in
  let '(s2, pid) := d_goc s1 t in (d_set_child s2 pid b k true, k).
Proof. intros s b t H. cbn [d_goc]. rewrite H. reflexivity. Qed.

Lemma goc_sim : forall toc i h np cp d ms ds f P,
  Inv toc i ms ds f h P np cp -> Forall plain d ->
  (forall q k, sfx q d -> pfind q (ms_m ms) = Some k -> f k <> None) ->
  (forall q, sfx q d -> ~ In q P) ->
  (forall q k, sfx q d -> pfind q (ms_m ms) = Some k -> ntype ms k = TDir) ->
  exists ms' ds' f' kp pid,
    m_goc ms d = (ms', kp) /\ d_goc ds d = (ds', pid) /\ Inv toc i ms' ds' f' h P np cp /\
    pfind d (ms_m ms') = Some kp /\ f' kp = Some pid /\ psub f f' /\
    (forall q k, pfind q (ms_m ms) = Some k -> pfind q (ms_m ms') = Some k) /\ ntype ms' kp = TDir.
Proof.
  intros toc i h np cp. induction d as [|b t IH]; intros ms ds f P H Hplain Hanc HnP Hdir.
  - destruct (pfind [] (ms_m ms)) as [r|] eqn:Er.
    + destruct (f r) as [y|] eqn:Ey; [|exfalso; exact (Hanc [] r (sfx_refl []) Er Ey)].
      pose proof (v_L2 _ _ _ _ _ _ _ _ _ H [] r y Er (fx_f f h r y Ey) (HnP [] (sfx_refl []))) as Hd. simpl in Hd. inversion Hd; subst y.
      exists ms, ds, f, r, O. rewrite (m_goc_found ms [] r Er).
      split; [reflexivity|]. split; [reflexivity|]. split; [exact H|]. split; [exact Er|]. split; [exact Ey|]. split; [apply psub_refl|].
      split; [auto|exact (Hdir [] r (sfx_refl []) Er)].
    + pose proof (Inv_root_create _ _ _ _ _ _ _ _ _ H Er) as H1.
      eexists. exists ds. eexists. exists (length (ms_nodes ms)), O.
      split; [simpl; rewrite Er; reflexivity|]. split; [reflexivity|]. split; [exact H1|].
      cbn [ms_m]. split; [rewrite pfind_cons; reflexivity|]. split; [apply pset_same|]. split.
      * apply psub_pset. destruct (f (length (ms_nodes ms))) as [y|] eqn:E; [|reflexivity].
        destruct (v_dom _ _ _ _ _ _ _ _ _ H _ y E) as [mn [_ [Hn _]]].
        assert (nth_error (ms_nodes ms) (length (ms_nodes ms)) = None) by (apply nth_error_None; lia). congruence.
      * split; [intros q k Hq; rewrite pfind_cons; rewrite path_eqb_neq; [exact Hq|]; intro; subst q; congruence|].
        unfold ntype. cbn [ms_nodes]. rewrite nth_error_app2 by lia. rewrite Nat.sub_diag. reflexivity.
  - set (d := b :: t) in *.
    destruct (pfind d (ms_m ms)) as [k0|] eqn:Ek.
    + destruct (f k0) as [y|] eqn:Ey; [|exfalso; exact (Hanc d k0 (sfx_refl d) Ek Ey)].
      pose proof (v_L2 _ _ _ _ _ _ _ _ _ H d k0 y Ek (fx_f f h k0 y Ey) (HnP d (sfx_refl d))) as Hd.
      exists ms, ds, f, k0, y. rewrite (m_goc_found ms d k0 Ek), (d_goc_found ds d y Hd).
      split; [reflexivity|]. split; [reflexivity|]. split; [exact H|]. split; [exact Ek|]. split; [exact Ey|]. split; [apply psub_refl|].
      split; [auto|exact (Hdir d k0 (sfx_refl d) Ek)].
    + assert (Ed : d_find ds d = None).
      { destruct (d_find ds d) as [y|] eqn:E; [|reflexivity].
        destruct (v_L1 _ _ _ _ _ _ _ _ _ H d y E ltac:(discriminate)) as [k0 [Hk0 _]]. congruence. }
      set (k := length (ms_nodes ms)). set (x := length (ds_nodes ds)).
      assert (HdP : ~ In d P) by exact (HnP d (sfx_refl d)).
      pose proof (Inv_create _ _ _ _ _ _ _ _ _ d H Ek ltac:(discriminate) Hplain HdP) as H1.
      set (ms1 := MS (ms_nodes ms ++ [MN (implicit_dir d) 2 []]) ((d, k) :: ms_m ms)) in *.
      set (ds1 := fst (d_new ds root_attr)) in *. set (f1 := pset f k x) in *.
      assert (Hfk : f k = None).
      { destruct (f k) as [y|] eqn:E; [|reflexivity]. destruct (v_dom _ _ _ _ _ _ _ _ _ H k y E) as [mn [_ [Hn _]]].
        assert (nth_error (ms_nodes ms) k = None) by (apply nth_error_None; unfold k; lia). congruence. }
      assert (Hsub1 : psub f f1) by (apply psub_pset; exact Hfk).
      assert (Hplt : Forall plain t) by (inversion Hplain; assumption).
      assert (Hqne : forall q, sfx q t -> q <> d).
      { intros q Hq E. subst q. exact (not_sfx_longer b t Hq). }
      destruct (IH ms1 ds1 f1 (d :: P) H1 Hplt) as [ms2 [ds2 [f2 [kp [pid [G1 [G2 [H2 [Hpt [Hfkp [Hsub2 [Hmono2 Hkpdir]]]]]]]]]]]].
      { intros q k0 Hq Hp Hf. cbn [ms1 ms_m] in Hp. rewrite pfind_cons in Hp.
        rewrite (path_eqb_neq q d (Hqne q Hq)) in Hp.
        destruct (f k0) as [y|] eqn:Ey.
        - rewrite (Hsub1 k0 y Ey) in Hf. discriminate.
        - exact (Hanc q k0 (sfx_tl q b t Hq) Hp Ey). }
      { intros q Hq [E|Hin]; [exact (Hqne q Hq (eq_sym E))|exact (HnP q (sfx_tl q b t Hq) Hin)]. }
      { intros q k0 Hq Hp. cbn [ms1 ms_m] in Hp. rewrite pfind_cons in Hp. rewrite (path_eqb_neq q d (Hqne q Hq)) in Hp.
        pose proof (Hdir q k0 (sfx_tl q b t Hq) Hp) as Hty. unfold ntype in *. cbn [ms1 ms_nodes].
        destruct (v_mdom _ _ _ _ _ _ _ _ _ H q k0 Hp) as [mn0 [Hn0 _]].
        rewrite nth_error_app1 by (apply nth_error_Some; congruence). exact Hty. }
      assert (Hdk2 : pfind d (ms_m ms2) = Some k).
      { apply Hmono2. cbn [ms1 ms_m]. rewrite pfind_cons, path_eqb_refl. reflexivity. }
      assert (Hfk2 : f2 k = Some x) by (apply Hsub2; unfold f1; apply pset_same).
      assert (HtP : ~ In t (d :: P)).
      { intros [E|Hin]; [exact (Hqne t (sfx_refl t) (eq_sym E))|exact (HnP t (sfx_tl t b t (sfx_refl t)) Hin)]. }
      assert (Hnoh : forall k', h k' <> Some k).
      { intros k' E. destruct (v_h _ _ _ _ _ _ _ _ _ H k' k E) as [Hlt1 [Hlt2 _]].
        pose proof (v_lenm _ _ _ _ _ _ _ _ _ H). unfold k in Hlt1. lia. }
      pose proof (Inv_link _ _ _ _ _ _ d P np cp b t k x kp pid H2 eq_refl Hdk2 Hfk2 Hpt Hfkp HtP Hkpdir Hnoh) as H3.
      assert (Htype : etype_eqb (m_type ms2 k) TDir = true).
      { destruct (v_mdom _ _ _ _ _ _ _ _ _ H2 d k Hdk2) as [mn [Hn _]].
        assert (Hkn : (length toc <= k)%nat) by (unfold k; exact (v_lenm _ _ _ _ _ _ _ _ _ H)).
        destruct (v_impl _ _ _ _ _ _ _ _ _ H2 k mn Hkn Hn) as [[d' Hd'] _].
        unfold m_type. rewrite Hn, Hd'. reflexivity. }
      rewrite Htype in H3.
      exists (m_add_child ms2 kp b k), (d_set_child ds2 pid b x true), f2, k, x.
      split.
      { unfold d. rewrite (m_goc_cons_none ms b t Ek). cbv zeta. fold d. fold k. fold ms1. rewrite G1. reflexivity. }
      split.
      { unfold d. rewrite (d_goc_cons_none ds b t Ed). cbv zeta. fold d. fold x.
        change (d_set_nodes ds (ds_nodes ds ++ [DN (write_attr root_attr) [] []])) with ds1.
        rewrite G2. reflexivity. }
      split; [exact H3|].
      rewrite m_add_child_m. split; [exact Hdk2|]. split; [exact Hfk2|]. split; [exact (psub_trans _ _ _ Hsub1 Hsub2)|].
      split.
      { intros q k0 Hq. apply Hmono2. cbn [ms1 ms_m]. rewrite pfind_cons. rewrite path_eqb_neq; [exact Hq|].
        intro; subst q. congruence. }
      destruct (v_mdom _ _ _ _ _ _ _ _ _ H3 d k) as [mn3 [Hn3 _]]; [rewrite m_add_child_m; exact Hdk2|].
      assert (Hkn : (length toc <= k)%nat) by (unfold k; exact (v_lenm _ _ _ _ _ _ _ _ _ H)).
      destruct (v_impl _ _ _ _ _ _ _ _ _ H3 k mn3 Hkn Hn3) as [[d' Hd'] _].
      rewrite (ntype_nth _ k mn3 Hn3), Hd'. reflexivity.
Qed.

(* ---------- one entry (not a hardlink, not a chunk, not yet present in the db tree) ---------- *)

Lemma nrel_retag : forall f g np cp np' cp' k x mn dn, psub f g ->
  nadj np' k = nadj np k -> ((cp' = Some x) <-> (cp = Some x)) ->
  nrel f np cp k x mn dn -> nrel g np' cp' k x mn dn.
Proof.
  intros f g np cp np' cp' k x mn dn Hs Ha Hc [H1 [H2 [H3 [H4 H5]]]]. unfold nrel. rewrite Ha.
  split; [exact H1|]. split; [exact H2|]. split; [exact (ch_rel_mono f g _ _ Hs H3)|].
  split; intro E; [apply H4|apply H5]; tauto.
Qed.

(* the db store creates the node of entry i *)
Lemma Inv_begin : forall toc i ms ds f h e,
  Inv toc i ms ds f h [] None None -> nth_error toc i = Some e -> cname e <> [] -> e_type e <> THardlink ->
  Inv toc (S i) ms (fst (d_new ds (attr_of e (init_nl e + 1)))) (pset f i (length (ds_nodes ds))) h
      [cname e] (Some i) (Some (length (ds_nodes ds))).
Proof.
  intros toc i ms ds f h e H Hi Hne Hnhl.
  set (x := length (ds_nodes ds)). set (f' := pset f i x).
  assert (Li : (i < length toc)%nat) by (apply nth_error_Some; congruence).
  destruct (nth_error (ms_nodes ms) i) as [mni|] eqn:Hmni;
    [|apply nth_error_None in Hmni; pose proof (v_lenm _ _ _ _ _ _ _ _ _ H); lia].
  assert (Hei : mn_e mni = e).
  { pose proof (v_ent _ _ _ _ _ _ _ _ _ H i mni Li Hmni) as E. rewrite Hi in E. inversion E. reflexivity. }
  destruct (v_todo _ _ _ _ _ _ _ _ _ H i mni (conj (le_n i) Li) Hmni) as [Hfi [Hnl Hch]].
  assert (Hsub : psub f f') by (apply psub_pset; exact Hfi).
  assert (Hpi : pfind (cname e) (ms_m ms) = Some i) by exact (v_expl _ _ _ _ _ _ _ _ _ H i e Hi).
  assert (Hflt : forall k0 y, f k0 = Some y -> (y < x)%nat).
  { intros k0 y E. destruct (v_dom _ _ _ _ _ _ _ _ _ H k0 y E) as [mn [dn [_ [Hd _]]]]. apply nth_error_Some. congruence. }
  assert (Hf'old : forall k0, k0 <> i -> f' k0 = f k0) by (intros; apply pset_other; assumption).
  assert (Hdfind : forall q, d_find (fst (d_new ds (attr_of e (init_nl e + 1)))) q = d_find ds q).
  { intro q. unfold d_new. simpl fst. apply d_find_app. exact (Inv_range _ _ _ _ _ _ _ _ _ H). }
  assert (Dn : forall z, (z < x)%nat -> nth_error (ds_nodes (fst (d_new ds (attr_of e (init_nl e + 1))))) z = nth_error (ds_nodes ds) z)
    by (intros z Hz; unfold d_new; simpl; apply nth_error_app1; exact Hz).
  assert (Dx : nth_error (ds_nodes (fst (d_new ds (attr_of e (init_nl e + 1))))) x = Some (DN (write_attr (attr_of e (init_nl e + 1))) [] []))
    by (unfold d_new; simpl; rewrite nth_error_app2 by (unfold x; lia); unfold x; rewrite Nat.sub_diag; reflexivity).
  assert (Hnamei : forall q k0, pfind q (ms_m ms) = Some k0 -> k0 <> i -> q <> cname e).
  { intros q k0 Hq Hk0 E. subst q. congruence. }
  assert (Hhi : h i = None) by exact (v_htodo _ _ _ _ _ _ _ _ _ H i (le_n i)).
  assert (Hhf : forall k1 o, h k1 = Some o -> f o <> None).
  { intros k1 o E. destruct (v_h _ _ _ _ _ _ _ _ _ H k1 o E) as [_ [_ [_ [_ [[x1 [mo [Hfo _]]] _]]]]]. congruence. }
  constructor.
  - exact (v_lenm _ _ _ _ _ _ _ _ _ H).
  - exact (v_mlen _ _ _ _ _ _ _ _ _ H).
  - exact (v_expl _ _ _ _ _ _ _ _ _ H).
  - exact (v_mdom _ _ _ _ _ _ _ _ _ H).
  - exact (v_ent _ _ _ _ _ _ _ _ _ H).
  - intros k0 mn Hk0 Hn. destruct (v_impl _ _ _ _ _ _ _ _ _ H k0 mn Hk0 Hn) as [Hd Hf0]. split; [exact Hd|].
    rewrite Hf'old by lia. exact Hf0.
  - intros j mn Hj Hn. rewrite Hf'old by lia. apply (v_todo _ _ _ _ _ _ _ _ _ H j mn); [lia|exact Hn].
  - intros j Hj. apply (v_htodo _ _ _ _ _ _ _ _ _ H). lia.
  - intros j Hj Hjn. destruct (Nat.eq_dec j i) as [->|Hji].
    + left. unfold f'. rewrite pset_same. discriminate.
    + rewrite Hf'old by exact Hji. apply (v_done _ _ _ _ _ _ _ _ _ H); lia.
  - intros k0 x0 Hf0. destruct (Nat.eq_dec k0 i) as [->|Hne0].
    + unfold f' in Hf0. rewrite pset_same in Hf0. inversion Hf0; subst x0.
      exists mni. eexists. split; [exact Hmni|]. split; [exact Dx|].
      unfold nrel. cbn [dn_b dn_ch dn_chunks]. unfold nadj. rewrite Nat.eqb_refl. rewrite Hei, Hnl, Hch, Hei.
      split; [reflexivity|]. split; [unfold init_nl; destruct (etype_eqb (e_type e) TDir); lia|]. split; [constructor|].
      split; [intro E; exfalso; apply E; reflexivity|intros _; reflexivity].
    + rewrite Hf'old in Hf0 by exact Hne0. pose proof (Hflt k0 x0 Hf0) as Hx0.
      destruct (v_dom _ _ _ _ _ _ _ _ _ H k0 x0 Hf0) as [mn [dn [Hn [Hd Hr]]]].
      exists mn, dn. split; [exact Hn|]. split; [rewrite Dn by exact Hx0; exact Hd|].
      apply (nrel_retag f f' None None (Some i) (Some x)); [exact Hsub| | |exact Hr].
      * simpl. replace (Nat.eqb i k0) with false by (symmetry; apply Nat.eqb_neq; congruence). reflexivity.
      * split; intro E; [inversion E; lia|discriminate].
  - intros k0 x0 Hf0. destruct (Nat.eq_dec k0 i) as [->|Hne0].
    + rewrite (ntype_nth ms i mni Hmni), Hei. exact Hnhl.
    + rewrite Hf'old in Hf0 by exact Hne0. exact (v_ftype _ _ _ _ _ _ _ _ _ H k0 x0 Hf0).
  - intros k0 k1 y H0 H1. destruct (Nat.eq_dec k0 i) as [->|Hne0]; destruct (Nat.eq_dec k1 i) as [->|Hne1]; try reflexivity.
    + unfold f' in H0. rewrite pset_same in H0. inversion H0; subst y. rewrite Hf'old in H1 by exact Hne1.
      pose proof (Hflt k1 x H1). lia.
    + unfold f' in H1. rewrite pset_same in H1. inversion H1; subst y. rewrite Hf'old in H0 by exact Hne0.
      pose proof (Hflt k0 x H0). lia.
    + rewrite Hf'old in H0, H1 by assumption. exact (v_inj _ _ _ _ _ _ _ _ _ H k0 k1 y H0 H1).
  - intros q y Hq Hqne. rewrite Hdfind in Hq. destruct (v_L1 _ _ _ _ _ _ _ _ _ H q y Hq Hqne) as [k0 [H1 [H2 _]]].
    exists k0. split; [exact H1|]. split; [apply fx_pset; assumption|].
    intros [E|[]]. apply (Hnamei q k0 H1); [|symmetry; exact E].
    intro; subst k0. unfold fx in H2. rewrite Hfi, Hhi in H2. discriminate.
  - intros q k0 y Hq Hf0 Hnin. rewrite Hdfind. destruct (Nat.eq_dec k0 i) as [->|Hne0].
    + exfalso. apply Hnin. left. exact (Inv_pfun_name _ _ _ _ _ _ _ _ _ H _ _ _ Hpi Hq).
    + apply (fx_pset_inv f h i x k0 y Hhf Hfi Hne0) in Hf0. apply (v_L2 _ _ _ _ _ _ _ _ _ H q k0 y Hq Hf0). intros [].
  - unfold d_new. cbn [fst d_set_nodes ds_nodes]. rewrite app_length. simpl length. fold x.
    destruct (v_root _ _ _ _ _ _ _ _ _ H) as [[r [Hr [Hfr [Hty Hl]]]]|[H1 [H2 [H3 H4]]]].
    + left. exists r. split; [exact Hr|]. split; [apply Hsub; exact Hfr|]. split; [exact Hty|]. fold x in Hl. lia.
    + right. split.
      { destruct H1 as [H1|[r0 [Hr0 Hfr0]]]; [left; exact H1|right]. exists r0. split; [exact Hr0|].
        destruct (Nat.eq_dec r0 i) as [->|Hr0i].
        - exfalso. assert (cname e = []) by exact (Inv_pfun_name _ _ _ _ _ _ _ _ _ H _ _ _ Hpi Hr0). contradiction.
        - rewrite Hf'old by exact Hr0i. exact Hfr0. }
      assert (0 < x)%nat by (apply nth_error_Some; unfold x; congruence).
      split; [rewrite nth_error_app1 by (fold x; lia); exact H2|]. split; [|fold x in H4; lia].
      intros k0 Hk0. destruct (Nat.eq_dec k0 i) as [->|Hne0].
      * unfold f' in Hk0. rewrite pset_same in Hk0. inversion Hk0. lia.
      * rewrite Hf'old in Hk0 by exact Hne0. exact (H3 k0 Hk0).
  - intros q [E|[]]. subst q. split; [exact Hne|]. exists i, x, mni.
    split; [exact Hpi|]. split; [unfold f'; apply pset_same|]. split; [exact Hmni|exact Hch].
  - constructor; [intros []|constructor].
  - intros j Hj. inversion Hj; subst j. split; [apply nth_error_Some; congruence|]. unfold f'. rewrite pset_same. discriminate.
  - intros y Hy. inversion Hy; subst y. unfold d_new. cbn [fst d_set_nodes ds_nodes]. rewrite app_length. simpl. fold x. lia.
  - intros k0 o Hk0.
    refine (v_h_transport toc i ms ds f h [] None None ms H _ _ f' Hsub _ k0 o Hk0).
    + intros z mn Hz. exists mn. auto.
    + auto.
    + intros k1 Hk1. destruct (h k1) as [o1|] eqn:Eo; [|contradiction].
      destruct (v_h _ _ _ _ _ _ _ _ _ H k1 o1 Eo) as [_ [_ [Hfn _]]].
      rewrite Hf'old; [exact Hfn|]. intro; subst k1. congruence.
  - exact (v_leaf _ _ _ _ _ _ _ _ _ H).
Qed.

(* the memory store counts the entry's own name (ent.NumLink++) after getOrCreateDir *)
Lemma Inv_npdone : forall toc i ms ds f h P cp j,
  Inv toc i ms ds f h P (Some j) cp -> Inv toc i (m_nlink_inc ms j) ds f h P None cp.
Proof.
  intros toc i ms ds f h P cp j H.
  destruct (v_np _ _ _ _ _ _ _ _ _ H j eq_refl) as [Lj Hfjne].
  destruct (nth_error (ms_nodes ms) j) as [mnj|] eqn:Hmnj; [|apply nth_error_None in Hmnj; lia].
  assert (Hs : m_nlink_inc ms j = MS (upd (ms_nodes ms) j (MN (mn_e mnj) (mn_nlink mnj + 1) (mn_ch mnj))) (ms_m ms))
    by (unfold m_nlink_inc; rewrite Hmnj; reflexivity).
  rewrite Hs.
  assert (Mj : nth_error (upd (ms_nodes ms) j (MN (mn_e mnj) (mn_nlink mnj + 1) (mn_ch mnj))) j = Some (MN (mn_e mnj) (mn_nlink mnj + 1) (mn_ch mnj)))
    by (apply nth_upd_same; exact Lj).
  assert (Mo : forall z, z <> j -> nth_error (upd (ms_nodes ms) j (MN (mn_e mnj) (mn_nlink mnj + 1) (mn_ch mnj))) z = nth_error (ms_nodes ms) z)
    by (intros z Hz; apply nth_upd_other; congruence).
  assert (Mnth : forall z mn, nth_error (upd (ms_nodes ms) j (MN (mn_e mnj) (mn_nlink mnj + 1) (mn_ch mnj))) z = Some mn ->
            exists mn0, nth_error (ms_nodes ms) z = Some mn0 /\ mn_e mn = mn_e mn0 /\ mn_ch mn = mn_ch mn0 /\ (z <> j -> mn = mn0)).
  { intros z mn Hz. destruct (Nat.eq_dec z j) as [->|Hne].
    - rewrite Mj in Hz. inversion Hz; subst mn. exists mnj. simpl. repeat split; auto. intro; contradiction.
    - rewrite Mo in Hz by exact Hne. exists mn. auto. }
  constructor; cbn [ms_nodes ms_m].
  - rewrite upd_length. exact (v_lenm _ _ _ _ _ _ _ _ _ H).
  - exact (v_mlen _ _ _ _ _ _ _ _ _ H).
  - exact (v_expl _ _ _ _ _ _ _ _ _ H).
  - intros q k0 Hq. destruct (v_mdom _ _ _ _ _ _ _ _ _ H q k0 Hq) as [mn [Hn Hc]].
    destruct (Nat.eq_dec k0 j) as [->|Hne].
    + eexists. split; [exact Mj|]. simpl. rewrite Hmnj in Hn. inversion Hn; subst mn. exact Hc.
    + exists mn. split; [rewrite Mo by exact Hne; exact Hn|exact Hc].
  - intros j0 mn Hj0 Hn. destruct (Mnth j0 mn Hn) as [mn0 [Hn0 [He _]]]. rewrite He. exact (v_ent _ _ _ _ _ _ _ _ _ H j0 mn0 Hj0 Hn0).
  - intros k0 mn Hk0 Hn. destruct (Mnth k0 mn Hn) as [mn0 [Hn0 [He _]]]. rewrite He. exact (v_impl _ _ _ _ _ _ _ _ _ H k0 mn0 Hk0 Hn0).
  - intros j0 mn Hj0 Hn. destruct (Mnth j0 mn Hn) as [mn0 [Hn0 [He [Hc Hsame]]]].
    destruct (v_todo _ _ _ _ _ _ _ _ _ H j0 mn0 Hj0 Hn0) as [Hf0 Hrest].
    assert (j0 <> j) by (intro; subst j0; congruence). rewrite (Hsame H0). split; assumption.
  - exact (v_htodo _ _ _ _ _ _ _ _ _ H).
  - exact (v_done _ _ _ _ _ _ _ _ _ H).
  - intros k0 y Hf0. destruct (v_dom _ _ _ _ _ _ _ _ _ H k0 y Hf0) as [mn [dn [Hn [Hd Hr]]]].
    destruct (Nat.eq_dec k0 j) as [->|Hne].
    + rewrite Hmnj in Hn. inversion Hn; subst mn. eexists. exists dn. split; [exact Mj|]. split; [exact Hd|].
      destruct Hr as [H1 [H2 [H3 H4]]]. unfold nrel, nadj in *. rewrite Nat.eqb_refl in H1, H2. cbn [mn_e mn_nlink mn_ch].
      split; [rewrite Z.add_0_r; exact H1|]. split; [lia|]. split; [exact H3|exact H4].
    + exists mn, dn. split; [rewrite Mo by exact Hne; exact Hn|]. split; [exact Hd|].
      apply (nrel_retag f f (Some j) cp None cp); [apply psub_refl| |tauto|exact Hr].
      simpl. replace (Nat.eqb j k0) with false by (symmetry; apply Nat.eqb_neq; congruence). reflexivity.
  - intros k0 y Hf0. pose proof (v_ftype _ _ _ _ _ _ _ _ _ H k0 y Hf0) as Ht. unfold ntype in *. cbn [ms_nodes].
    destruct (Nat.eq_dec k0 j) as [->|Hne].
    + rewrite Mj. rewrite Hmnj in Ht. exact Ht.
    + rewrite Mo by exact Hne. exact Ht.
  - exact (v_inj _ _ _ _ _ _ _ _ _ H).
  - exact (v_L1 _ _ _ _ _ _ _ _ _ H).
  - exact (v_L2 _ _ _ _ _ _ _ _ _ H).
  - rewrite upd_length. destruct (v_root _ _ _ _ _ _ _ _ _ H) as [[r [Hr [Hfr [Hty Hl]]]]|Hright]; [left|right; exact Hright].
    exists r. split; [exact Hr|]. split; [exact Hfr|]. split; [|exact Hl].
    unfold ntype in *. cbn [ms_nodes]. destruct (Nat.eq_dec r j) as [->|Hne].
    + rewrite Mj. rewrite Hmnj in Hty. exact Hty.
    + rewrite Mo by exact Hne. exact Hty.
  - intros q Hin. destruct (v_pend _ _ _ _ _ _ _ _ _ H q Hin) as [Hqne [k0 [x1 [mn1 [H1 [H2 [H3 H4]]]]]]].
    split; [exact Hqne|]. destruct (Nat.eq_dec k0 j) as [->|Hne].
    + exists j, x1. eexists. split; [exact H1|]. split; [exact H2|]. split; [exact Mj|]. simpl.
      rewrite Hmnj in H3. inversion H3; subst mn1. exact H4.
    + exists k0, x1, mn1. split; [exact H1|]. split; [exact H2|]. split; [rewrite Mo by exact Hne; exact H3|exact H4].
  - exact (v_nodupP _ _ _ _ _ _ _ _ _ H).
  - intros j0 Hj0. discriminate.
  - exact (v_cp _ _ _ _ _ _ _ _ _ H).
  - intros k0 o Hk0.
    refine (v_h_transport toc i ms ds f h P (Some j) cp (MS (upd (ms_nodes ms) j (MN (mn_e mnj) (mn_nlink mnj + 1) (mn_ch mnj))) (ms_m ms)) H _ _ f (psub_refl f) _ k0 o Hk0).
    + intros z mn Hz. destruct (Nat.eq_dec z j) as [->|Hne].
      * eexists. split; [exact Mj|]. rewrite Hmnj in Hz. inversion Hz; subst mn. auto.
      * exists mn. split; [cbn [ms_nodes]; rewrite Mo by exact Hne; exact Hz|]. auto.
    + auto.
    + intros k1 Hk1. destruct (h k1) as [o1|] eqn:Eo; [|contradiction].
      destruct (v_h _ _ _ _ _ _ _ _ _ H k1 o1 Eo) as [_ [_ [Hfn _]]]. exact Hfn.
  - intros z mn Hz Hnd. destruct (Mnth z mn Hz) as [mn0 [Hn0 [He [Hc _]]]]. rewrite Hc. apply (v_leaf _ _ _ _ _ _ _ _ _ H z mn0 Hn0). rewrite <- He. exact Hnd.
Qed.

Lemma d_find_ext : forall s s', (forall y, d_children s y = d_children s' y) -> forall p, d_find s p = d_find s' p.
Proof.
  intros s s' Hc. induction p as [|b q IH]; [reflexivity|]. rewrite !d_find_cons, IH.
  destruct (d_find s' q); [rewrite Hc; reflexivity|reflexivity].
Qed.

(* the chunk of the entry is appended to its node at the end of the step *)
Lemma Inv_finish : forall toc i ms ds f h k x mn e cs,
  Inv toc i ms ds f h [] None (Some x) -> f k = Some x -> nth_error (ms_nodes ms) k = Some mn -> mn_e mn = e ->
  etype_eqb (e_type e) TChunk = false -> cs = db_chsize e (e_size e) ->
  Inv toc i ms (d_add_chunk (DS (ds_nodes ds) (Some x) (e_size e)) e cs) f h [] None None.
Proof.
  intros toc i ms ds f h k x mn e cs H Hfk Hmn He Hnc Hcs.
  destruct (v_dom _ _ _ _ _ _ _ _ _ H k x Hfk) as [mn' [dnx [Hn' [Hdx Hrx]]]].
  rewrite Hmn in Hn'. inversion Hn'; subst mn'.
  set (s3 := DS (ds_nodes ds) (Some x) (e_size e)).
  pose proof (d_add_chunk_nodes s3 e cs x dnx eq_refl Hdx Hnc) as Hnodes.
  set (ds' := d_add_chunk s3 e cs) in *.
  assert (Lx : (x < length (ds_nodes ds))%nat) by (apply nth_error_Some; congruence).
  assert (Dl : length (ds_nodes ds') = length (ds_nodes ds)).
  { rewrite Hnodes. destruct (etype_eqb (e_type e) TReg && (e_size e >? 0)); [apply upd_length|reflexivity]. }
  assert (Do : forall z, z <> x -> nth_error (ds_nodes ds') z = nth_error (ds_nodes ds) z).
  { intros z Hz. rewrite Hnodes. destruct (etype_eqb (e_type e) TReg && (e_size e >? 0)); [|reflexivity].
    apply nth_upd_other. congruence. }
  assert (Dx : exists dn', nth_error (ds_nodes ds') x = Some dn' /\ dn_b dn' = dn_b dnx /\ dn_ch dn' = dn_ch dnx /\ chunks_ok mn dn').
  { destruct Hrx as [_ [_ [_ [_ Hempty]]]]. specialize (Hempty eq_refl). rewrite Hnodes. unfold chunks_ok. rewrite He.
    destruct (etype_eqb (e_type e) TReg && (e_size e >? 0)).
    - eexists. split; [apply nth_upd_same; exact Lx|]. cbn [dn_b dn_ch dn_chunks]. rewrite Hempty, Hcs. repeat split.
    - exists dnx. repeat split; [exact Hdx|exact Hempty]. }
  destruct Dx as [dn' [Dx [Db [Dc Dk]]]].
  assert (Hch : forall y, d_children ds y = d_children ds' y).
  { intro y. unfold d_children. destruct (Nat.eq_dec y x) as [->|Hne].
    - rewrite Hdx, Dx, Dc. reflexivity.
    - rewrite Do by exact Hne. reflexivity. }
  assert (Hfind : forall p, d_find ds' p = d_find ds p) by (intro p; symmetry; apply d_find_ext; exact Hch).
  constructor.
  - exact (v_lenm _ _ _ _ _ _ _ _ _ H).
  - exact (v_mlen _ _ _ _ _ _ _ _ _ H).
  - exact (v_expl _ _ _ _ _ _ _ _ _ H).
  - exact (v_mdom _ _ _ _ _ _ _ _ _ H).
  - exact (v_ent _ _ _ _ _ _ _ _ _ H).
  - exact (v_impl _ _ _ _ _ _ _ _ _ H).
  - exact (v_todo _ _ _ _ _ _ _ _ _ H).
  - exact (v_htodo _ _ _ _ _ _ _ _ _ H).
  - exact (v_done _ _ _ _ _ _ _ _ _ H).
  - intros k0 y Hf0. destruct (v_dom _ _ _ _ _ _ _ _ _ H k0 y Hf0) as [mn0 [dn0 [Hn0 [Hd0 Hr0]]]].
    destruct (Nat.eq_dec y x) as [->|Hne].
    + assert (k0 = k) by exact (v_inj _ _ _ _ _ _ _ _ _ H k0 k x Hf0 Hfk). subst k0.
      rewrite Hmn in Hn0. inversion Hn0; subst mn0. rewrite Hdx in Hd0. inversion Hd0; subst dn0.
      exists mn, dn'. split; [exact Hmn|]. split; [exact Dx|].
      destruct Hr0 as [H1 [H2 [H3 _]]]. unfold nrel. rewrite Db, Dc.
      split; [exact H1|]. split; [exact H2|]. split; [exact H3|]. split; [intros _; exact Dk|intro E; discriminate].
    + exists mn0, dn0. split; [exact Hn0|]. split; [rewrite Do by exact Hne; exact Hd0|].
      apply (nrel_retag f f None (Some x) None None); [apply psub_refl|reflexivity| |exact Hr0].
      split; intro E; [discriminate|inversion E; congruence].
  - exact (v_ftype _ _ _ _ _ _ _ _ _ H).
  - exact (v_inj _ _ _ _ _ _ _ _ _ H).
  - intros q y Hq Hqne. rewrite Hfind in Hq. exact (v_L1 _ _ _ _ _ _ _ _ _ H q y Hq Hqne).
  - intros q k0 y Hq Hf0 Hnin. rewrite Hfind. exact (v_L2 _ _ _ _ _ _ _ _ _ H q k0 y Hq Hf0 Hnin).
  - rewrite Dl. destruct (v_root _ _ _ _ _ _ _ _ _ H) as [Hl|[H1 [H2 [H3 H4]]]]; [left; exact Hl|right].
    split; [exact H1|]. split; [|split; [exact H3|exact H4]].
    rewrite Do; [exact H2|]. intro E. subst x. exact (H3 k Hfk).
  - intros q [].
  - constructor.
  - intros j Hj. discriminate.
  - intros y Hy. discriminate.
  - exact (v_h _ _ _ _ _ _ _ _ _ H).
  - exact (v_leaf _ _ _ _ _ _ _ _ _ H).
Qed.

(* ---------- the class: implicit parent directories allowed ---------- *)

Lemma m_nlink_inc_m : forall s j, ms_m (m_nlink_inc s j) = ms_m s.
Proof. intros s j. unfold m_nlink_inc. destruct (nth_error (ms_nodes s) j); reflexivity. Qed.

Definition ord_toc (toc : list entry) : Prop :=
  forall j k ej ek, nth_error toc j = Some ej -> nth_error toc k = Some ek -> psfx (cname ek) (cname ej) -> (k < j)%nat.

(* whatever has entries below it is a directory *)
Definition pardir_toc (toc : list entry) : Prop :=
  forall j k ej ek, nth_error toc j = Some ej -> nth_error toc k = Some ek -> psfx (cname ek) (cname ej) -> e_type ek = TDir.

Lemma ntype_nlink_inc : forall s j z, ntype (m_nlink_inc s j) z = ntype s z.
Proof.
  intros s j z. unfold ntype, m_nlink_inc. destruct (nth_error (ms_nodes s) j) as [mn|] eqn:E; [|reflexivity].
  cbn [ms_nodes]. destruct (Nat.eq_dec j z) as [->|Hne].
  - rewrite nth_upd_same by (apply nth_error_Some; congruence). rewrite E. reflexivity.
  - rewrite nth_upd_other by exact Hne. reflexivity.
Qed.

(* explicit or implicit, every ancestor the memory store knows of the entry being processed is a directory *)
Lemma anc_dir : forall toc i ms ds f h P np cp e base par, Inv toc i ms ds f h P np cp -> pardir_toc toc ->
  nth_error toc i = Some e -> cname e = base :: par ->
  forall q k0, sfx q par -> pfind q (ms_m ms) = Some k0 -> ntype ms k0 = TDir.
Proof.
  intros toc i ms ds f h P np cp e base par H Hpd Hi Hname q k0 Hq Hp.
  destruct (v_mdom _ _ _ _ _ _ _ _ _ H q k0 Hp) as [mn [Hn Hc]]. rewrite (ntype_nth ms k0 mn Hn).
  destruct (Nat.lt_ge_cases k0 (length toc)) as [Hl|Hg].
  - pose proof (v_ent _ _ _ _ _ _ _ _ _ H k0 mn Hl Hn) as Hek.
    apply (Hpd i k0 e (mn_e mn) Hi Hek). rewrite Hc, Hname. apply psfx_of_sfx_cons. exact Hq.
  - destruct (v_impl _ _ _ _ _ _ _ _ _ H k0 mn Hg Hn) as [[d Hd] _]. rewrite Hd. reflexivity.
Qed.

Lemma Inv_step : forall toc i ms ds f h e, ord_toc toc -> pardir_toc toc -> entry_ok e ->
  Inv toc i ms ds f h [] None None -> nth_error toc i = Some e ->
  exists ms' ds' f', pass2_step (Some ms) (i, e) = Some ms' /\ db_step (Some ds) e = Some ds' /\
                     Inv toc (S i) ms' ds' f' h [] None None.
Proof.
  intros toc i ms ds f h e Hord Hpd He H Hi.
  assert (Li : (i < length toc)%nat) by (apply nth_error_Some; congruence).
  destruct (cname e) as [|base par] eqn:Hname; [exfalso; exact (eo_name e He Hname)|].
  assert (Hnc : etype_eqb (e_type e) TChunk = false) by exact (okt_not_chunk e (eo_type e He)).
  assert (Hnh : etype_eqb (e_type e) THardlink = false) by exact (okt_not_hardlink e (eo_type e He)).
  (* the db store does not have this name yet *)
  assert (Hfresh : d_find ds (base :: par) = None).
  { destruct (d_find ds (base :: par)) as [y|] eqn:E; [|reflexivity]. exfalso.
    destruct (v_L1 _ _ _ _ _ _ _ _ _ H _ y E ltac:(discriminate)) as [k0 [Hk0 [Hf0 _]]].
    rewrite <- Hname in Hk0. rewrite (v_expl _ _ _ _ _ _ _ _ _ H i e Hi) in Hk0. inversion Hk0; subst k0.
    destruct (nth_error (ms_nodes ms) i) as [mni|] eqn:Hmni;
      [|apply nth_error_None in Hmni; pose proof (v_lenm _ _ _ _ _ _ _ _ _ H); lia].
    destruct (v_todo _ _ _ _ _ _ _ _ _ H i mni (conj (le_n i) Li) Hmni) as [Hfi _].
    unfold fx in Hf0. rewrite Hfi, (v_htodo _ _ _ _ _ _ _ _ _ H i (le_n i)) in Hf0. discriminate. }
  set (x := length (ds_nodes ds)).
  assert (Hne : cname e <> []) by (rewrite Hname; discriminate).
  assert (Hnhl : e_type e <> THardlink) by (intro E; rewrite E in Hnh; discriminate).
  pose proof (Inv_begin toc i ms ds f h e H Hi Hne Hnhl) as H1. fold x in H1.
  set (ds1 := fst (d_new ds (attr_of e (init_nl e + 1)))) in *. set (f1 := pset f i x) in *.
  assert (Hplain : Forall plain par).
  { pose proof (cname_plain e) as Hp. rewrite Hname in Hp. inversion Hp; assumption. }
  destruct (goc_sim toc (S i) h (Some i) (Some x) par ms ds1 f1 [cname e] H1 Hplain) as
      [ms2 [ds2 [f2 [kp [pid [G1 [G2 [H2 [Hpp [Hfkp [Hsub2 [Hmono2 Hkpdir]]]]]]]]]]]].
  { intros q k0 Hq Hp Hf0.
    destruct (v_mdom _ _ _ _ _ _ _ _ _ H q k0 Hp) as [mn [Hn Hc]].
    destruct (Nat.lt_ge_cases k0 (length toc)) as [Hl|Hg].
    - pose proof (v_ent _ _ _ _ _ _ _ _ _ H k0 mn Hl Hn) as Hek.
      assert (Hk0i : (k0 < i)%nat).
      { apply (Hord i k0 e (mn_e mn) Hi Hek). rewrite Hc, Hname. apply psfx_of_sfx_cons. exact Hq. }
      assert (k0 <> i) by lia. unfold f1 in Hf0. rewrite pset_other in Hf0 by assumption.
      destruct (v_done _ _ _ _ _ _ _ _ _ H k0 Hk0i Hl) as [Hd|Hd]; [exact (Hd Hf0)|].
      destruct (h k0) as [o|] eqn:Eo; [|contradiction].
      destruct (v_h _ _ _ _ _ _ _ _ _ H k0 o Eo) as [_ [_ [_ [Hty _]]]].
      rewrite (anc_dir toc i ms ds f h [] None None e base par H Hpd Hi Hname q k0 Hq Hp) in Hty. discriminate.
    - destruct (v_impl _ _ _ _ _ _ _ _ _ H k0 mn Hg Hn) as [_ Hfn].
      assert (k0 <> i) by lia. unfold f1 in Hf0. rewrite pset_other in Hf0 by assumption. exact (Hfn Hf0). }
  { intros q Hq [E|[]]. rewrite Hname in E. subst q. exact (not_sfx_longer base par Hq). }
  { exact (anc_dir toc i ms ds f h [] None None e base par H Hpd Hi Hname). }
  pose proof (Inv_npdone _ _ _ _ _ _ _ _ _ H2) as H3.
  assert (Hpi2 : pfind (base :: par) (ms_m ms2) = Some i).
  { rewrite <- Hname. exact (v_expl _ _ _ _ _ _ _ _ _ H2 i e Hi). }
  assert (Hfi2 : f2 i = Some x) by (apply Hsub2; unfold f1; apply pset_same).
  assert (HparP : ~ In par [base :: par]).
  { intros [E|[]]. apply (f_equal (@length Z)) in E. simpl in E. lia. }
  rewrite Hname in H3.
  pose proof (Inv_link toc (S i) (m_nlink_inc ms2 i) ds2 f2 h (base :: par) [] None (Some x) base par i x kp pid H3 eq_refl) as H4.
  rewrite m_nlink_inc_m in H4. rewrite ntype_nlink_inc in H4.
  assert (Hnoh : forall k', h k' <> Some i).
  { intros k' E. destruct (v_h _ _ _ _ _ _ _ _ _ H k' i E) as [Hlt _].
    pose proof (v_htodo _ _ _ _ _ _ _ _ _ H k') as Hto. destruct (Nat.lt_ge_cases k' i) as [Hl|Hg]; [lia|]. rewrite (Hto Hg) in E. discriminate. }
  specialize (H4 Hpi2 Hfi2 Hpp Hfkp HparP Hkpdir Hnoh).
  (* the type the memory store sees for node i *)
  destruct (v_dom _ _ _ _ _ _ _ _ _ H3 i x Hfi2) as [mni3 [dni3 [Hmni3 _]]].
  assert (Hei3 : mn_e mni3 = e).
  { pose proof (v_ent _ _ _ _ _ _ _ _ _ H3 i mni3 Li Hmni3) as E. rewrite Hi in E. inversion E. reflexivity. }
  assert (Htype : m_type (m_nlink_inc ms2 i) i = e_type e) by (unfold m_type; rewrite Hmni3, Hei3; reflexivity).
  rewrite Htype in H4.
  set (ms4 := m_add_child (m_nlink_inc ms2 i) kp base i) in *.
  set (ds4 := d_set_child ds2 pid base x (etype_eqb (e_type e) TDir)) in *.
  destruct (v_dom _ _ _ _ _ _ _ _ _ H4 i x Hfi2) as [mni4 [dni4 [Hmni4 _]]].
  assert (Hei4 : mn_e mni4 = e).
  { pose proof (v_ent _ _ _ _ _ _ _ _ _ H4 i mni4 Li Hmni4) as E. rewrite Hi in E. inversion E. reflexivity. }
  pose proof (Inv_finish toc (S i) ms4 ds4 f2 h i x mni4 e (db_chsize e (ds_lastsize ds)) H4 Hfi2 Hmni4 Hei4 Hnc
                (db_chsize_reg e _ _ Hnc)) as H5.
  exists ms4. eexists. exists f2. split; [|split; [|exact H5]].
  - unfold pass2_step. rewrite Hnc. unfold cname in Hname. rewrite Hname. rewrite G1. rewrite Hnh. reflexivity.
  - unfold db_step. unfold cname in Hname. rewrite Hname, Hnc, Hnh.
    replace (if etype_eqb (e_type e) TDir then d_find ds (base :: par) else None) with (@None nat)
      by (destruct (etype_eqb (e_type e) TDir); [symmetry; exact Hfresh|reflexivity]).
    replace (if etype_eqb (e_type e) TDir then 2 else 1) with (init_nl e + 1)
      by (unfold init_nl; destruct (etype_eqb (e_type e) TDir); reflexivity).
    rewrite (surjective_pairing (d_new ds (attr_of e (init_nl e + 1)))). fold ds1.
    replace (snd (d_new ds (attr_of e (init_nl e + 1)))) with x by reflexivity.
    rewrite G2. reflexivity.
Qed.

(* ---------- a hardlink entry whose target precedes it ---------- *)

Lemma d_find_link2 : forall s s' pid base id par,
  (forall y, d_children s' y = if Nat.eqb y pid then ins base id (d_children s pid) else d_children s y) ->
  d_find s par = Some pid ->
  (forall q, d_find s q = Some pid -> q = par) ->
  find base (d_children s pid) = None ->
  d_children s id = [] ->
  id <> pid ->
  forall p, d_find s' p = if path_eqb p (base :: par) then Some id else d_find s p.
Proof.
  intros s s' pid base id par Hch Hpar Hinj Hnone Hkids Hne.
  induction p as [|b q IH]; [reflexivity|].
  rewrite d_find_cons, IH. rewrite d_find_cons.
  destruct (path_eqb q (base :: par)) eqn:Eq.
  - apply path_eqb_eq in Eq. subst q.
    rewrite Hch.
    replace (Nat.eqb id pid) with false by (symmetry; apply Nat.eqb_neq; exact Hne).
    rewrite Hkids. simpl find.
    rewrite path_eqb_neq.
    + rewrite d_find_cons, Hpar, Hnone. reflexivity.
    + intro H. apply (f_equal (@length Z)) in H. simpl in H. lia.
  - destruct (d_find s q) as [y|] eqn:Ey.
    + rewrite Hch. destruct (Nat.eqb y pid) eqn:Ey2.
      * apply Nat.eqb_eq in Ey2. subst y. assert (q = par) by exact (Hinj q Ey). subst q.
        simpl path_eqb. destruct (b =? base) eqn:Eb.
        -- apply Z.eqb_eq in Eb. subst b. rewrite path_eqb_refl. simpl. apply find_ins_same.
        -- simpl. apply find_ins_other. apply Z.eqb_neq. exact Eb.
      * rewrite path_eqb_neq; [reflexivity|].
        intro H. inversion H; subst. rewrite Hpar in Ey. inversion Ey; subst. rewrite Nat.eqb_refl in Ey2. discriminate.
    + rewrite path_eqb_neq; [reflexivity|].
      intro H. inversion H; subst. rewrite Hpar in Ey. discriminate.
Qed.

(* the db store counts the new name on the source node before it looks for the parent *)
Lemma Inv_bump : forall toc i ms ds f h o x,
  Inv toc i ms ds f h [] None None -> f o = Some x ->
  Inv toc i ms (d_upd_bucket ds x bump_nlink) f h [] (Some o) None.
Proof.
  intros toc i ms ds f h o x H Hfo.
  destruct (v_dom _ _ _ _ _ _ _ _ _ H o x Hfo) as [mno [dnx [Hmno [Hdnx Hrelo]]]].
  assert (Lx : (x < length (ds_nodes ds))%nat) by (apply nth_error_Some; congruence).
  set (ds' := d_upd_bucket ds x bump_nlink).
  assert (Hs : ds' = d_set_nodes ds (upd (ds_nodes ds) x (DN (bump_nlink (dn_b dnx)) (dn_ch dnx) (dn_chunks dnx))))
    by (unfold ds', d_upd_bucket; rewrite Hdnx; reflexivity).
  assert (Dx : nth_error (ds_nodes ds') x = Some (DN (bump_nlink (dn_b dnx)) (dn_ch dnx) (dn_chunks dnx)))
    by (rewrite Hs, nth_set_nodes; apply nth_upd_same; exact Lx).
  assert (Do : forall z, z <> x -> nth_error (ds_nodes ds') z = nth_error (ds_nodes ds) z)
    by (intros z Hz; rewrite Hs, nth_set_nodes; apply nth_upd_other; congruence).
  assert (Dl : length (ds_nodes ds') = length (ds_nodes ds)) by (rewrite Hs; unfold d_set_nodes; cbn [ds_nodes]; apply upd_length).
  assert (Hch : forall y, d_children ds y = d_children ds' y).
  { intro y. unfold d_children. destruct (Nat.eq_dec y x) as [->|Hne].
    - rewrite Hdnx, Dx. reflexivity.
    - rewrite Do by exact Hne. reflexivity. }
  assert (Hfind : forall p, d_find ds' p = d_find ds p) by (intro p; symmetry; apply d_find_ext; exact Hch).
  constructor.
  - exact (v_lenm _ _ _ _ _ _ _ _ _ H).
  - exact (v_mlen _ _ _ _ _ _ _ _ _ H).
  - exact (v_expl _ _ _ _ _ _ _ _ _ H).
  - exact (v_mdom _ _ _ _ _ _ _ _ _ H).
  - exact (v_ent _ _ _ _ _ _ _ _ _ H).
  - exact (v_impl _ _ _ _ _ _ _ _ _ H).
  - exact (v_todo _ _ _ _ _ _ _ _ _ H).
  - exact (v_htodo _ _ _ _ _ _ _ _ _ H).
  - exact (v_done _ _ _ _ _ _ _ _ _ H).
  - intros k0 y Hf0. destruct (v_dom _ _ _ _ _ _ _ _ _ H k0 y Hf0) as [mn0 [dn0 [Hn0 [Hd0 Hr0]]]].
    destruct (Nat.eq_dec k0 o) as [->|Hne].
    + assert (y = x) by congruence. subst y. rewrite Hmno in Hn0. inversion Hn0; subst mn0. rewrite Hdnx in Hd0. inversion Hd0; subst dn0.
      exists mno. eexists. split; [exact Hmno|]. split; [exact Dx|].
      destruct Hr0 as [H1 [H2 [H3 H4]]]. unfold nrel, nadj in *. rewrite Nat.eqb_refl. cbn [dn_b dn_ch dn_chunks].
      rewrite Z.add_0_r in H1, H2.
      split; [rewrite H1; apply bump_write; exact H2|]. split; [lia|]. split; [exact H3|exact H4].
    + exists mn0, dn0. split; [exact Hn0|]. split.
      { rewrite Do; [exact Hd0|]. intro E. subst y. apply Hne. exact (v_inj _ _ _ _ _ _ _ _ _ H k0 o x Hf0 Hfo). }
      apply (nrel_retag f f None None (Some o) None); [apply psub_refl| |tauto|exact Hr0].
      simpl. replace (Nat.eqb o k0) with false by (symmetry; apply Nat.eqb_neq; congruence). reflexivity.
  - exact (v_ftype _ _ _ _ _ _ _ _ _ H).
  - exact (v_inj _ _ _ _ _ _ _ _ _ H).
  - intros q y Hq Hqne. rewrite Hfind in Hq. exact (v_L1 _ _ _ _ _ _ _ _ _ H q y Hq Hqne).
  - intros q k0 y Hq Hf0 Hnin. rewrite Hfind. exact (v_L2 _ _ _ _ _ _ _ _ _ H q k0 y Hq Hf0 Hnin).
  - rewrite Dl. destruct (v_root _ _ _ _ _ _ _ _ _ H) as [Hl|[H1 [H2 [H3 H4]]]]; [left; exact Hl|right].
    split; [exact H1|]. split; [|split; [exact H3|exact H4]].
    rewrite Do; [exact H2|]. intro E. subst x. exact (H3 o Hfo).
  - intros q [].
  - constructor.
  - intros j Hj. inversion Hj; subst j. split; [apply nth_error_Some; congruence|congruence].
  - intros y Hy. discriminate.
  - exact (v_h _ _ _ _ _ _ _ _ _ H).
  - exact (v_leaf _ _ _ _ _ _ _ _ _ H).
Qed.

Lemma fx_pset_h : forall f h i o k, k <> i -> fx f (pset h i o) k = fx f h k.
Proof. intros f h i o k Hk. unfold fx. rewrite pset_other by exact Hk. reflexivity. Qed.

(* the new name of the source node is linked below its parent in both stores *)
Lemma Inv_link_hard : forall toc i ms ds f h e base par org x kp pid,
  Inv toc i ms ds f h [] (Some org) None ->
  nth_error toc i = Some e -> e_type e = THardlink -> cname e = base :: par ->
  f org = Some x -> (org < i)%nat -> ntype ms org <> TDir ->
  pfind par (ms_m ms) = Some kp -> f kp = Some pid -> ntype ms kp = TDir ->
  (forall fuel, (i < fuel)%nat -> m_source fuel ms i = Some org) ->
  Inv toc (S i) (m_add_child (m_nlink_inc (m_nlink_inc ms i) org) kp base org)
      (d_set_child ds pid base x false) f (pset h i org) [] None None.
Proof.
  intros toc i ms ds f h e base par org x kp pid H Hi Hty Hname Hfo Hoi Hodir Hkp Hfkp Hkpdir Hsrc.
  assert (Li : (i < length toc)%nat) by (apply nth_error_Some; congruence).
  destruct (nth_error (ms_nodes ms) i) as [mni|] eqn:Hmni;
    [|apply nth_error_None in Hmni; pose proof (v_lenm _ _ _ _ _ _ _ _ _ H); lia].
  assert (Hei : mn_e mni = e).
  { pose proof (v_ent _ _ _ _ _ _ _ _ _ H i mni Li Hmni) as E. rewrite Hi in E. inversion E. reflexivity. }
  destruct (v_todo _ _ _ _ _ _ _ _ _ H i mni (conj (le_n i) Li) Hmni) as [Hfi [Hnli Hchi]].
  assert (Hhi : h i = None) by exact (v_htodo _ _ _ _ _ _ _ _ _ H i (le_n i)).
  destruct (v_dom _ _ _ _ _ _ _ _ _ H org x Hfo) as [mno [dnx [Hmno [Hdnx Hrelo]]]].
  destruct (v_dom _ _ _ _ _ _ _ _ _ H kp pid Hfkp) as [mnp [dnp [Hmnp [Hdnp Hrelp]]]].
  assert (Hpi : pfind (base :: par) (ms_m ms) = Some i) by (rewrite <- Hname; exact (v_expl _ _ _ _ _ _ _ _ _ H i e Hi)).
  assert (Hio : i <> org) by lia.
  assert (Hikp : i <> kp) by (intro; subst kp; congruence).
  assert (Hokp : org <> kp) by (intro; subst kp; contradiction).
  assert (Hxpid : x <> pid) by (intro; subst pid; apply Hokp; exact (v_inj _ _ _ _ _ _ _ _ _ H org kp x Hfo Hfkp)).
  assert (Hotype : e_type (mn_e mno) <> TDir) by (rewrite <- (ntype_nth ms org mno Hmno); exact Hodir).
  assert (Hoch : mn_ch mno = []) by exact (v_leaf _ _ _ _ _ _ _ _ _ H org mno Hmno Hotype).
  assert (Lmi : (i < length (ms_nodes ms))%nat) by (apply nth_error_Some; congruence).
  assert (Lmo : (org < length (ms_nodes ms))%nat) by (apply nth_error_Some; congruence).
  (* the memory side, explicitly *)
  set (N1 := upd (ms_nodes ms) i (MN e (mn_nlink mni + 1) [])).
  set (N2 := upd N1 org (MN (mn_e mno) (mn_nlink mno + 1) (mn_ch mno))).
  assert (E1 : m_nlink_inc ms i = MS N1 (ms_m ms)) by (unfold m_nlink_inc; rewrite Hmni, Hei, Hchi; reflexivity).
  assert (N1o : nth_error N1 org = Some mno) by (unfold N1; rewrite nth_upd_other by exact Hio; exact Hmno).
  assert (E2 : m_nlink_inc (m_nlink_inc ms i) org = MS N2 (ms_m ms)) by (rewrite E1; unfold m_nlink_inc; cbn [ms_nodes ms_m]; rewrite N1o; reflexivity).
  assert (N2i : nth_error N2 i = Some (MN e (mn_nlink mni + 1) [])).
  { unfold N2. rewrite nth_upd_other by congruence. unfold N1. apply nth_upd_same. exact Lmi. }
  assert (N2o : nth_error N2 org = Some (MN (mn_e mno) (mn_nlink mno + 1) (mn_ch mno))).
  { unfold N2. apply nth_upd_same. unfold N1. rewrite upd_length. exact Lmo. }
  assert (N2x : forall z, z <> i -> z <> org -> nth_error N2 z = nth_error (ms_nodes ms) z).
  { intros z Hz1 Hz2. unfold N2. rewrite nth_upd_other by congruence. unfold N1. apply nth_upd_other. congruence. }
  assert (N2p : nth_error N2 kp = Some mnp) by (rewrite N2x by congruence; exact Hmnp).
  set (ms2 := MS N2 (ms_m ms)).
  destruct (m_add_child_spec ms2 kp base org mnp N2p) as [Mm [Ml [Mp Mo]]].
  assert (Htyo : etype_eqb (m_type ms2 org) TDir = false).
  { unfold m_type, ms2. cbn [ms_nodes]. rewrite N2o. cbn [mn_e]. destruct (e_type (mn_e mno)); simpl; congruence. }
  rewrite Htyo in Mp. rewrite E2. fold ms2.
  set (ms' := m_add_child ms2 kp base org) in *.
  cbn [ms2 ms_m ms_nodes] in Mm, Ml. 
  assert (Ml' : length (ms_nodes ms') = length (ms_nodes ms)) by (rewrite Ml; unfold N2, N1; rewrite !upd_length; reflexivity).
  assert (Mi : nth_error (ms_nodes ms') i = Some (MN e (mn_nlink mni + 1) [])) by (rewrite Mo by exact Hikp; exact N2i).
  assert (Mo' : nth_error (ms_nodes ms') org = Some (MN (mn_e mno) (mn_nlink mno + 1) (mn_ch mno))) by (rewrite Mo by exact Hokp; exact N2o).
  assert (Mx : forall z, z <> i -> z <> org -> z <> kp -> nth_error (ms_nodes ms') z = nth_error (ms_nodes ms) z).
  { intros z H1 H2 H3. rewrite Mo by exact H3. apply N2x; assumption. }
  assert (Mfwd : forall z mn, nth_error (ms_nodes ms) z = Some mn -> exists mn', nth_error (ms_nodes ms') z = Some mn' /\ mn_e mn' = mn_e mn
       /\ (ntype ms z <> TDir -> mn_ch mn' = mn_ch mn)).
  { intros z mn Hz. destruct (Nat.eq_dec z i) as [->|Hzi].
    - eexists. split; [exact Mi|]. rewrite Hmni in Hz. inversion Hz; subst mn. cbn [mn_e mn_ch]. rewrite Hei, Hchi. auto.
    - destruct (Nat.eq_dec z org) as [->|Hzo].
      + eexists. split; [exact Mo'|]. rewrite Hmno in Hz. inversion Hz; subst mn. auto.
      + destruct (Nat.eq_dec z kp) as [->|Hzp].
        * eexists. split; [exact Mp|]. rewrite Hmnp in Hz. inversion Hz; subst mn. split; [reflexivity|]. intro; contradiction.
        * exists mn. split; [rewrite Mx by assumption; exact Hz|]. auto. }
  assert (Mback : forall z mn', nth_error (ms_nodes ms') z = Some mn' -> exists mn, nth_error (ms_nodes ms) z = Some mn /\ mn_e mn' = mn_e mn
       /\ (z <> i -> z <> org -> z <> kp -> mn' = mn)).
  { intros z mn' Hz. destruct (nth_error (ms_nodes ms) z) as [mn|] eqn:E.
    - destruct (Mfwd z mn E) as [mn'' [E' [He _]]]. rewrite Hz in E'. inversion E'; subst mn''. exists mn. split; [reflexivity|]. split; [exact He|].
      intros H1 H2 H3. rewrite Mx in Hz by assumption. congruence.
    - apply nth_error_None in E. rewrite <- Ml' in E. apply nth_error_None in E. congruence. }
  assert (Mty : forall z, ntype ms' z = ntype ms z).
  { intro z. unfold ntype. destruct (nth_error (ms_nodes ms) z) as [mn|] eqn:E.
    - destruct (Mfwd z mn E) as [mn' [E' [He _]]]. rewrite E', He. reflexivity.
    - assert (nth_error (ms_nodes ms') z = None) by (apply nth_error_None; rewrite Ml'; apply nth_error_None; exact E). rewrite H0. reflexivity. }
  (* the db side *)
  destruct (d_set_child_spec ds pid base x false dnp Hdnp) as [Dl [Dp [Do _]]]. cbv iota in Dp.
  set (ds' := d_set_child ds pid base x false) in *.
  assert (HparP : ~ In par []) by (intros []).
  assert (HPar : d_find ds par = Some pid) by exact (v_L2 _ _ _ _ _ _ _ _ _ H par kp pid Hkp (fx_f f h kp pid Hfkp) HparP).
  assert (Hxkids : d_children ds x = []).
  { unfold d_children. rewrite Hdnx. destruct Hrelo as [_ [_ [Hc _]]]. rewrite Hoch in Hc. exact (ch_rel_nil _ _ Hc). }
  assert (Hnone : find base (d_children ds pid) = None).
  { destruct (d_find ds (base :: par)) as [y|] eqn:Ey.
    - exfalso. destruct (v_L1 _ _ _ _ _ _ _ _ _ H _ y Ey ltac:(discriminate)) as [k0 [Hk0 [Hf0 _]]].
      rewrite Hpi in Hk0. inversion Hk0; subst k0. unfold fx in Hf0. rewrite Hfi, Hhi in Hf0. discriminate.
    - rewrite d_find_cons, HPar in Ey. exact Ey. }
  assert (Lpid : (pid < length (ds_nodes ds))%nat) by (apply nth_error_Some; congruence).
  assert (Hch' : forall y, d_children ds' y = if Nat.eqb y pid then ins base x (d_children ds pid) else d_children ds y)
    by (intro y; apply d_children_set_child; exact Lpid).
  assert (Hfind' : forall q, d_find ds' q = if path_eqb q (base :: par) then Some x else d_find ds q).
  { apply (d_find_link2 ds ds' pid base x par Hch' HPar).
    - intros q Hq. pose proof (Inv_find_dir _ _ _ _ _ _ _ _ _ H kp pid q Hfkp Hkpdir Hq) as Hq'.
      exact (Inv_pfun_name _ _ _ _ _ _ _ _ _ H _ _ _ Hq' Hkp).
    - exact Hnone.
    - exact Hxkids.
    - exact Hxpid. }
  set (h' := pset h i org).
  assert (Hfxi : fx f h' i = Some x) by (unfold fx, h'; rewrite Hfi, pset_same; exact Hfo).
  assert (Hfxo : forall k, k <> i -> fx f h' k = fx f h k) by (intros k Hk; apply fx_pset_h; exact Hk).
  constructor.
  - rewrite Ml'. exact (v_lenm _ _ _ _ _ _ _ _ _ H).
  - rewrite Mm. exact (v_mlen _ _ _ _ _ _ _ _ _ H).
  - intros j e0 Hj. rewrite Mm. exact (v_expl _ _ _ _ _ _ _ _ _ H j e0 Hj).
  - intros q k0 Hq. rewrite Mm in Hq. destruct (v_mdom _ _ _ _ _ _ _ _ _ H q k0 Hq) as [mn [Hn Hc]].
    destruct (Mfwd k0 mn Hn) as [mn' [E' [He _]]]. exists mn'. split; [exact E'|]. rewrite He. exact Hc.
  - intros j mn Hj Hn. destruct (Mback j mn Hn) as [mn0 [Hn0 [He _]]]. rewrite He. exact (v_ent _ _ _ _ _ _ _ _ _ H j mn0 Hj Hn0).
  - intros k0 mn Hk0 Hn. destruct (Mback k0 mn Hn) as [mn0 [Hn0 [He _]]]. rewrite He. exact (v_impl _ _ _ _ _ _ _ _ _ H k0 mn0 Hk0 Hn0).
  - intros j mn Hj Hn. destruct (Mback j mn Hn) as [mn0 [Hn0 [He Hsame]]].
    destruct (v_todo _ _ _ _ _ _ _ _ _ H j mn0 ltac:(lia) Hn0) as [Hfj Hrest].
    assert (mn = mn0) by (apply Hsame; [lia|lia|intro; subst j; congruence]). subst mn0. split; assumption.
  - intros j Hj. unfold h'. rewrite pset_other by lia. apply (v_htodo _ _ _ _ _ _ _ _ _ H). lia.
  - intros j Hj Hjn. destruct (Nat.eq_dec j i) as [->|Hji].
    + right. unfold h'. rewrite pset_same. discriminate.
    + unfold h'. rewrite pset_other by exact Hji. apply (v_done _ _ _ _ _ _ _ _ _ H); lia.
  - intros k0 y Hf0. destruct (v_dom _ _ _ _ _ _ _ _ _ H k0 y Hf0) as [mn0 [dn0 [Hn0 [Hd0 Hr0]]]].
    destruct (Nat.eq_dec k0 org) as [->|Hno].
    + assert (y = x) by congruence. subst y. rewrite Hmno in Hn0. inversion Hn0; subst mn0.
      eexists. exists dn0. split; [exact Mo'|]. split; [rewrite Do by exact Hxpid; exact Hd0|].
      destruct Hr0 as [H1 [H2 [H3 H4]]]. unfold nrel, nadj in *. rewrite Nat.eqb_refl in H1, H2. cbn [mn_e mn_nlink mn_ch].
      rewrite Z.add_0_r. split; [exact H1|]. split; [exact H2|]. split; [exact H3|exact H4].
    + destruct (Nat.eq_dec k0 kp) as [->|Hnp].
      * assert (y = pid) by congruence. subst y. rewrite Hmnp in Hn0. inversion Hn0; subst mn0. rewrite Hdnp in Hd0. inversion Hd0; subst dn0.
        eexists. eexists. split; [exact Mp|]. split; [exact Dp|].
        destruct Hr0 as [H1 [H2 [H3 H4]]]. unfold nrel in *. cbn [mn_e mn_nlink mn_ch dn_b dn_ch dn_chunks].
        assert (Ha : nadj (Some org) kp = 0) by (simpl; replace (Nat.eqb org kp) with false by (symmetry; apply Nat.eqb_neq; exact Hokp); reflexivity).
        rewrite Ha in H1, H2. simpl nadj.
        split; [exact H1|]. split; [exact H2|]. split; [apply ch_rel_ins; assumption|exact H4].
      * assert (k0 <> i) by (intro; subst k0; congruence).
        exists mn0, dn0. split; [rewrite Mx by assumption; exact Hn0|]. split.
        { rewrite Do; [exact Hd0|]. intro E. subst y. apply Hnp. exact (v_inj _ _ _ _ _ _ _ _ _ H k0 kp pid Hf0 Hfkp). }
        apply (nrel_retag f f (Some org) None None None); [apply psub_refl| |tauto|exact Hr0].
        simpl. replace (Nat.eqb org k0) with false by (symmetry; apply Nat.eqb_neq; congruence). reflexivity.
  - intros k0 y Hf0. rewrite Mty. exact (v_ftype _ _ _ _ _ _ _ _ _ H k0 y Hf0).
  - exact (v_inj _ _ _ _ _ _ _ _ _ H).
  - intros q y Hq Hqne. rewrite Hfind' in Hq. rewrite Mm. destruct (path_eqb q (base :: par)) eqn:E.
    + apply path_eqb_eq in E. subst q. inversion Hq; subst y. exists i. split; [exact Hpi|]. split; [exact Hfxi|intros []].
    + destruct (v_L1 _ _ _ _ _ _ _ _ _ H q y Hq Hqne) as [k0 [H1 [H2 H3]]]. exists k0. split; [exact H1|]. split; [|exact H3].
      rewrite Hfxo; [exact H2|]. intro; subst k0. unfold fx in H2. rewrite Hfi, Hhi in H2. discriminate.
  - intros q k0 y Hq Hf0 Hnin. rewrite Mm in Hq. rewrite Hfind'. destruct (Nat.eq_dec k0 i) as [->|Hki].
    + assert (q = base :: par) by exact (Inv_pfun_name _ _ _ _ _ _ _ _ _ H _ _ _ Hq Hpi). subst q.
      rewrite path_eqb_refl. rewrite Hfxi in Hf0. exact Hf0.
    + rewrite Hfxo in Hf0 by exact Hki. rewrite path_eqb_neq.
      * exact (v_L2 _ _ _ _ _ _ _ _ _ H q k0 y Hq Hf0 Hnin).
      * intro; subst q. rewrite Hpi in Hq. inversion Hq. congruence.
  - rewrite Mm, Ml', Dl. destruct (v_root _ _ _ _ _ _ _ _ _ H) as [[r [Hr [Hfr [Htyr Hl]]]]|[H1 [H2 [H3 H4]]]].
    + left. exists r. rewrite Mty. split; [exact Hr|]. split; [exact Hfr|]. split; [exact Htyr|lia].
    + right. split; [exact H1|]. split; [|split; [exact H3|lia]].
      rewrite Do; [exact H2|]. intro E. subst pid. exact (H3 kp Hfkp).
  - intros q [].
  - constructor.
  - intros j Hj. discriminate.
  - intros y Hy. discriminate.
  - intros k0 o Hk0. destruct (Nat.eq_dec k0 i) as [->|Hki].
    + unfold h' in Hk0. rewrite pset_same in Hk0. inversion Hk0; subst o.
      split; [exact Hoi|]. split; [exact Li|]. split; [exact Hfi|]. split; [rewrite Mty, (ntype_nth ms i mni Hmni), Hei; exact Hty|].
      split.
      * exists x. eexists. split; [exact Hfo|]. split; [exact Mo'|]. split; [exact Hotype|exact Hoch].
      * intros fuel Hf. apply (m_source_stable ms ms'); [|intros q k1 Hq; rewrite Mm; exact Hq|exact (Hsrc fuel Hf)].
        intros z mn Hz. destruct (Mfwd z mn Hz) as [mn' [E' [He _]]]. exists mn'. auto.
    + unfold h' in Hk0. rewrite pset_other in Hk0 by exact Hki.
      refine (v_h_transport toc i ms ds f h [] (Some org) None ms' H _ _ f (psub_refl f) _ k0 o Hk0).
      * exact Mfwd.
      * intros q k1 Hq. rewrite Mm. exact Hq.
      * intros k1 Hk1. destruct (h k1) as [o1|] eqn:Eo; [|contradiction].
        destruct (v_h _ _ _ _ _ _ _ _ _ H k1 o1 Eo) as [_ [_ [Hfn _]]]. exact Hfn.
  - intros z mn Hz Hnd. destruct (Mback z mn Hz) as [mn0 [Hn0 [He Hsame]]].
    destruct (Nat.eq_dec z i) as [->|Hzi]; [rewrite Mi in Hz; inversion Hz; reflexivity|].
    destruct (Nat.eq_dec z org) as [->|Hzo]; [rewrite Mo' in Hz; inversion Hz; exact Hoch|].
    destruct (Nat.eq_dec z kp) as [->|Hzp].
    + exfalso. rewrite Hmnp in Hn0. inversion Hn0; subst mn0. rewrite He in Hnd. rewrite (ntype_nth ms kp mnp Hmnp) in Hkpdir. contradiction.
    + rewrite (Hsame Hzi Hzo Hzp). apply (v_leaf _ _ _ _ _ _ _ _ _ H z mn0 Hn0). rewrite <- He. exact Hnd.
Qed.

(* the relation looks at the db state only through its nodes *)
Lemma Inv_ds_nodes : forall toc i ms ds ds' f h P np cp, ds_nodes ds' = ds_nodes ds ->
  Inv toc i ms ds f h P np cp -> Inv toc i ms ds' f h P np cp.
Proof.
  intros toc i ms ds ds' f h P np cp E H.
  assert (Hch : forall y, d_children ds y = d_children ds' y) by (intro y; unfold d_children; rewrite E; reflexivity).
  assert (Hfind : forall p, d_find ds' p = d_find ds p) by (intro p; symmetry; apply d_find_ext; exact Hch).
  constructor.
  - exact (v_lenm _ _ _ _ _ _ _ _ _ H).
  - exact (v_mlen _ _ _ _ _ _ _ _ _ H).
  - exact (v_expl _ _ _ _ _ _ _ _ _ H).
  - exact (v_mdom _ _ _ _ _ _ _ _ _ H).
  - exact (v_ent _ _ _ _ _ _ _ _ _ H).
  - exact (v_impl _ _ _ _ _ _ _ _ _ H).
  - exact (v_todo _ _ _ _ _ _ _ _ _ H).
  - exact (v_htodo _ _ _ _ _ _ _ _ _ H).
  - exact (v_done _ _ _ _ _ _ _ _ _ H).
  - intros k x Hf. destruct (v_dom _ _ _ _ _ _ _ _ _ H k x Hf) as [mn [dn [A [B C]]]]. exists mn, dn. rewrite E. auto.
  - exact (v_ftype _ _ _ _ _ _ _ _ _ H).
  - exact (v_inj _ _ _ _ _ _ _ _ _ H).
  - intros q y Hq Hqne. rewrite Hfind in Hq. exact (v_L1 _ _ _ _ _ _ _ _ _ H q y Hq Hqne).
  - intros q k0 y Hq Hf0 Hnin. rewrite Hfind. exact (v_L2 _ _ _ _ _ _ _ _ _ H q k0 y Hq Hf0 Hnin).
  - rewrite E. exact (v_root _ _ _ _ _ _ _ _ _ H).
  - exact (v_pend _ _ _ _ _ _ _ _ _ H).
  - exact (v_nodupP _ _ _ _ _ _ _ _ _ H).
  - exact (v_np _ _ _ _ _ _ _ _ _ H).
  - rewrite E. exact (v_cp _ _ _ _ _ _ _ _ _ H).
  - exact (v_h _ _ _ _ _ _ _ _ _ H).
  - exact (v_leaf _ _ _ _ _ _ _ _ _ H).
Qed.

Lemma ntype_expl : forall toc i ms ds f h P np cp k ek, Inv toc i ms ds f h P np cp ->
  nth_error toc k = Some ek -> ntype ms k = e_type ek.
Proof.
  intros toc i ms ds f h P np cp k ek H Hk.
  assert (Lk : (k < length toc)%nat) by (apply nth_error_Some; congruence).
  destruct (nth_error (ms_nodes ms) k) as [mn|] eqn:E;
    [|apply nth_error_None in E; pose proof (v_lenm _ _ _ _ _ _ _ _ _ H); lia].
  rewrite (ntype_nth ms k mn E). pose proof (v_ent _ _ _ _ _ _ _ _ _ H k mn Lk E) as Hek. congruence.
Qed.

(* the node a processed non-directory entry's name leads to *)
Lemma resolve : forall toc i ms ds f h P np cp kt et, Inv toc i ms ds f h P np cp ->
  nth_error toc kt = Some et -> e_type et <> TDir -> (f kt <> None \/ h kt <> None) ->
  exists org x, f org = Some x /\ (org <= kt)%nat /\ ntype ms org <> TDir /\ fx f h kt = Some x /\
                (forall fuel, (kt < fuel)%nat -> m_source fuel ms kt = Some org).
Proof.
  intros toc i ms ds f h P np cp kt et H Hkt Hnd Hd.
  destruct (f kt) as [x|] eqn:Ef.
  - exists kt, x. split; [exact Ef|]. split; [lia|]. split; [rewrite (ntype_expl _ _ _ _ _ _ _ _ _ kt et H Hkt); exact Hnd|].
    split; [apply fx_f; exact Ef|].
    intros fuel _. pose proof (v_ftype _ _ _ _ _ _ _ _ _ H kt x Ef) as Hty. unfold ntype in Hty.
    destruct (nth_error (ms_nodes ms) kt) as [mn|] eqn:E.
    + destruct fuel; simpl; rewrite E; (replace (etype_eqb (e_type (mn_e mn)) THardlink) with false
        by (destruct (e_type (mn_e mn)); simpl; congruence)); reflexivity.
    + exfalso. destruct (v_dom _ _ _ _ _ _ _ _ _ H kt x Ef) as [mn [_ [Hn _]]]. congruence.
  - destruct Hd as [Hd|Hd]; [contradiction|]. destruct (h kt) as [o|] eqn:Eh; [|contradiction].
    destruct (v_h _ _ _ _ _ _ _ _ _ H kt o Eh) as [H1 [_ [_ [_ [[x [mo [H5 [H6 [H7 _]]]]] H9]]]]].
    exists o, x. split; [exact H5|]. split; [lia|]. split; [rewrite (ntype_nth ms o mo H6); exact H7|].
    split; [unfold fx; rewrite Ef, Eh; exact H5|exact H9].
Qed.

Definition hard_entry (toc : list entry) (i : nat) (e : entry) : Prop :=
  e_type e = THardlink /\ cname e <> [] /\
  exists kt et, (kt < i)%nat /\ nth_error toc kt = Some et /\ cname et = clean (e_hl e) /\ e_type et <> TDir.

Lemma Inv_step_hard : forall toc i ms ds f h e, ord_toc toc -> pardir_toc toc ->
  Inv toc i ms ds f h [] None None -> nth_error toc i = Some e -> hard_entry toc i e ->
  exists ms' ds' f' h', pass2_step (Some ms) (i, e) = Some ms' /\ db_step (Some ds) e = Some ds' /\
                        Inv toc (S i) ms' ds' f' h' [] None None.
Proof.
  intros toc i ms ds f h e Hord Hpd H Hi [Hty [Hne [kt [et [Hkti [Hkt [Hnt Hetd]]]]]]].
  assert (Li : (i < length toc)%nat) by (apply nth_error_Some; congruence).
  assert (Lkt : (kt < length toc)%nat) by (apply nth_error_Some; congruence).
  destruct (cname e) as [|base par] eqn:Hname; [contradiction|].
  assert (Hnc : etype_eqb (e_type e) TChunk = false) by (rewrite Hty; reflexivity).
  assert (Hhl : etype_eqb (e_type e) THardlink = true) by (rewrite Hty; reflexivity).
  destruct (resolve _ _ _ _ _ _ _ _ _ kt et H Hkt Hetd (v_done _ _ _ _ _ _ _ _ _ H kt Hkti Lkt)) as [org [x [Hfo [Hokt [Hodir [Hfxkt _]]]]]].
  assert (Hpt : pfind (clean (e_hl e)) (ms_m ms) = Some kt) by (rewrite <- Hnt; exact (v_expl _ _ _ _ _ _ _ _ _ H kt et Hkt)).
  assert (Hdt : d_find ds (clean (e_hl e)) = Some x) by exact (v_L2 _ _ _ _ _ _ _ _ _ H _ kt x Hpt Hfxkt ltac:(intros [])).
  pose proof (Inv_bump toc i ms ds f h org x H Hfo) as H1.
  set (ds1 := d_upd_bucket ds x bump_nlink) in *.
  assert (Hplain : Forall plain par).
  { pose proof (cname_plain e) as Hp. rewrite Hname in Hp. inversion Hp; assumption. }
  destruct (goc_sim toc i h (Some org) None par ms ds1 f [] H1 Hplain) as
      [ms2 [ds2 [f2 [kp [pid [G1 [G2 [H2 [Hpp [Hfkp [Hsub2 [Hmono2 Hkpdir]]]]]]]]]]]].
  { intros q k0 Hq Hp Hf0.
    destruct (v_mdom _ _ _ _ _ _ _ _ _ H q k0 Hp) as [mn [Hn Hc]].
    destruct (Nat.lt_ge_cases k0 (length toc)) as [Hl|Hg].
    - pose proof (v_ent _ _ _ _ _ _ _ _ _ H k0 mn Hl Hn) as Hek.
      assert (Hk0i : (k0 < i)%nat).
      { apply (Hord i k0 e (mn_e mn) Hi Hek). rewrite Hc, Hname. apply psfx_of_sfx_cons. exact Hq. }
      destruct (v_done _ _ _ _ _ _ _ _ _ H k0 Hk0i Hl) as [Hd|Hd]; [exact (Hd Hf0)|].
      destruct (h k0) as [o|] eqn:Eo; [|contradiction].
      destruct (v_h _ _ _ _ _ _ _ _ _ H k0 o Eo) as [_ [_ [_ [Hty0 _]]]].
      rewrite (anc_dir toc i ms ds f h [] None None e base par H Hpd Hi Hname q k0 Hq Hp) in Hty0. discriminate.
    - destruct (v_impl _ _ _ _ _ _ _ _ _ H k0 mn Hg Hn) as [_ Hfn]. exact (Hfn Hf0). }
  { intros q Hq []. }
  { exact (anc_dir toc i ms ds f h [] None None e base par H Hpd Hi Hname). }
  (* the same source, seen in the state after getOrCreateDir *)
  assert (Hd2 : f2 kt <> None \/ h kt <> None).
  { destruct (v_done _ _ _ _ _ _ _ _ _ H kt Hkti Lkt) as [Hd|Hd]; [left|right; exact Hd].
    destruct (f kt) as [y|] eqn:E; [|contradiction]. rewrite (Hsub2 kt y E). discriminate. }
  destruct (resolve _ _ _ _ _ _ _ _ _ kt et H2 Hkt Hetd Hd2) as [org2 [x2 [Hfo2 [_ [Hodir2 [Hfxkt2 Hsrc2]]]]]].
  assert (Hfx2 : fx f2 h kt = Some x).
  { destruct (fx_cases f h kt x Hfxkt) as [E|[E [o [Ho Eo]]]].
    - apply fx_f. exact (Hsub2 kt x E).
    - destruct (v_h _ _ _ _ _ _ _ _ _ H2 kt o Ho) as [_ [_ [Hf2n _]]]. unfold fx. rewrite Hf2n, Ho. exact (Hsub2 o x Eo). }
  assert (x2 = x) by congruence. subst x2.
  assert (org2 = org) by exact (v_inj _ _ _ _ _ _ _ _ _ H2 org2 org x Hfo2 (Hsub2 org x Hfo)). subst org2.
  assert (Hoi : (org < i)%nat) by lia.
  destruct (nth_error (ms_nodes ms2) i) as [mni|] eqn:Hmni;
    [|apply nth_error_None in Hmni; pose proof (v_lenm _ _ _ _ _ _ _ _ _ H2); lia].
  assert (Hei : mn_e mni = e).
  { pose proof (v_ent _ _ _ _ _ _ _ _ _ H2 i mni Li Hmni) as E. rewrite Hi in E. inversion E. reflexivity. }
  assert (Hpt2 : pfind (clean (e_hl e)) (ms_m ms2) = Some kt) by (apply Hmono2; exact Hpt).
  assert (Hsrc_i : forall fuel, (i < fuel)%nat -> m_source fuel ms2 i = Some org).
  { intros fuel Hf. destruct fuel as [|fuel]; [lia|]. simpl. rewrite Hmni, Hei, Hhl, Hpt2. apply Hsrc2. lia. }
  pose proof (Inv_link_hard toc i ms2 ds2 f2 h e base par org x kp pid H2 Hi Hty Hname Hfo2 Hoi Hodir2 Hpp Hfkp Hkpdir Hsrc_i) as H5.
  set (ms' := m_add_child (m_nlink_inc (m_nlink_inc ms2 i) org) kp base org) in *.
  set (ds' := d_set_child ds2 pid base x false) in *.
  exists ms', (DS (ds_nodes ds') (Some x) (e_size e)), f2, (pset h i org).
  split; [|split].
  - unfold pass2_step. rewrite Hnc. unfold cname in Hname. rewrite Hname. rewrite G1. rewrite Hhl.
    assert (Hsrc3 : m_source (S (length (ms_m (m_nlink_inc ms2 i)))) (m_nlink_inc ms2 i) i = Some org).
    { apply (m_source_stable ms2 (m_nlink_inc ms2 i)).
      - intros z mn Hz. unfold m_nlink_inc. rewrite Hmni. cbn [ms_nodes]. destruct (Nat.eq_dec z i) as [->|Hzi].
        + eexists. split; [apply nth_upd_same; apply nth_error_Some; congruence|]. rewrite Hmni in Hz. inversion Hz; subst mn. reflexivity.
        + exists mn. split; [rewrite nth_upd_other by congruence; exact Hz|reflexivity].
      - intros q k0 Hq. rewrite m_nlink_inc_m. exact Hq.
      - apply Hsrc_i. rewrite m_nlink_inc_m. pose proof (v_mlen _ _ _ _ _ _ _ _ _ H2). lia. }
    rewrite Hsrc3. reflexivity.
  - unfold db_step. unfold cname in Hname. rewrite Hname, Hnc, Hhl, Hdt. fold ds1. rewrite G2.
    rewrite Hty. simpl etype_eqb. unfold d_add_chunk. rewrite Hty. simpl. reflexivity.
  - apply (Inv_ds_nodes toc (S i) ms' ds' _ f2 (pset h i org) [] None None); [reflexivity|exact H5].
Qed.

(* ---------- initial states and the whole run ---------- *)

Lemma pfind_some_in : forall {B} (L : list (list Z * B)) p v, pfind p L = Some v -> In (p, v) L.
Proof.
  induction L as [|[q w] t IH]; intros p v H; simpl in H; [discriminate|].
  destruct (path_eqb p q) eqn:E.
  - apply path_eqb_eq in E. inversion H; subst. left. reflexivity.
  - right. exact (IH p v H).
Qed.

Lemma number_in : forall {B} (l : list B) s k x, In (k, x) (number s l) -> (s <= k)%nat /\ nth_error l (k - s) = Some x.
Proof.
  induction l as [|h t IH]; intros s k x H; simpl in H; [destruct H|].
  destruct H as [H|H].
  - inversion H; subst. split; [lia|]. rewrite Nat.sub_diag. reflexivity.
  - destruct (IH (S s) k x H) as [H1 H2]. split; [lia|].
    replace (k - s)%nat with (S (k - S s)) by lia. exact H2.
Qed.

Definition ms_init (toc : list entry) : mst := MS (map init_node toc) (rev (names_from 0 toc)).

Lemma number_length : forall {B} (l : list B) s, length (number s l) = length l.
Proof. induction l as [|x t IH]; intros s; simpl; [reflexivity|]. rewrite IH. reflexivity. Qed.

Lemma Inv_init : forall toc, NoDup (map cname toc) -> Inv toc 0 (ms_init toc) d_init (fun _ => None) (fun _ => None) [] None None.
Proof.
  intros toc Hnd. unfold ms_init. constructor; cbn [ms_nodes ms_m].
  - rewrite map_length. lia.
  - rewrite rev_length. unfold names_from. rewrite map_length. rewrite number_length. lia.
  - intros j e Hj. exact (m0_lookup toc j e Hnd Hj).
  - intros p k Hp. apply pfind_some_in in Hp. apply in_rev in Hp. unfold names_from in Hp.
    apply in_map_iff in Hp. destruct Hp as [[k0 e] [E Hin]]. simpl in E. inversion E; subst.
    destruct (number_in toc 0%nat k e Hin) as [_ Hn]. rewrite Nat.sub_0_r in Hn.
    exists (init_node e). split; [rewrite nth_error_map, Hn; reflexivity|reflexivity].
  - intros j mn Hj Hn. rewrite nth_error_map in Hn. destruct (nth_error toc j); simpl in Hn; inversion Hn; subst. reflexivity.
  - intros k mn Hk Hn. assert (nth_error (map init_node toc) k = None) by (apply nth_error_None; rewrite map_length; exact Hk). congruence.
  - intros j mn Hj Hn. rewrite nth_error_map in Hn. destruct (nth_error toc j); simpl in Hn; inversion Hn; subst.
    split; [reflexivity|split; reflexivity].
  - reflexivity.
  - intros j Hj. lia.
  - intros k x Hf. discriminate.
  - intros k x Hf. discriminate.
  - intros k k' x Hf. discriminate.
  - intros p x Hp Hpne. exfalso. destruct p as [|b q]; [contradiction|].
    rewrite d_find_cons in Hp. destruct (d_find d_init q) as [y|] eqn:E; [|discriminate].
    assert (Hy : d_children d_init y = []).
    { unfold d_children, d_init. simpl. destruct y as [|y]; [reflexivity|]. destruct y; reflexivity. }
    rewrite Hy in Hp. discriminate.
  - intros p k x Hp Hf. unfold fx in Hf. discriminate.
  - right. split; [destruct (pfind [] (rev (names_from 0 toc))) as [r0|]; [right; exists r0; auto|left; reflexivity]|].
    split; [reflexivity|]. split; [intros k Hk; discriminate|].
    rewrite map_length. simpl. lia.
  - intros p [].
  - constructor.
  - intros j Hj. discriminate.
  - intros y Hy. discriminate.
  - intros k o Hk. discriminate.
  - intros z mn Hz Hnd0. rewrite nth_error_map in Hz. destruct (nth_error toc z); simpl in Hz; inversion Hz; subst. reflexivity.
Qed.

Lemma Inv_run : forall toc, ord_toc toc -> pardir_toc toc -> forall suffix i ms ds f h, Inv toc i ms ds f h [] None None ->
  (forall k e, nth_error suffix k = Some e -> nth_error toc (i + k) = Some e /\ (entry_ok e \/ hard_entry toc (i + k) e)) ->
  (length suffix + i = length toc)%nat ->
  exists ms' ds' f' h', fold_left pass2_step (number i suffix) (Some ms) = Some ms' /\
                        fold_left db_step suffix (Some ds) = Some ds' /\ Inv toc (length toc) ms' ds' f' h' [] None None.
Proof.
  intros toc Hs Hpd. induction suffix as [|e t IH]; intros i ms ds f h HI Hnth Hlen.
  - simpl in *. subst i. exists ms, ds, f, h. auto.
  - destruct (Hnth 0%nat e eq_refl) as [Hi Hoke]. rewrite Nat.add_0_r in Hi, Hoke.
    assert (Hstep : exists ms1 ds1 f1 h1, pass2_step (Some ms) (i, e) = Some ms1 /\ db_step (Some ds) e = Some ds1 /\
                      Inv toc (S i) ms1 ds1 f1 h1 [] None None).
    { destruct Hoke as [Hoke|Hhard].
      - destruct (Inv_step toc i ms ds f h e Hs Hpd Hoke HI Hi) as [ms1 [ds1 [f1 [H1 [H2 HI1]]]]]. exists ms1, ds1, f1, h. auto.
      - exact (Inv_step_hard toc i ms ds f h e Hs Hpd HI Hi Hhard). }
    destruct Hstep as [ms1 [ds1 [f1 [h1 [H1 [H2 HI1]]]]]].
    cbn [number fold_left]. rewrite H1, H2. apply (IH (S i) ms1 ds1 f1 h1 HI1).
    + intros k e' Hk. replace (S i + k)%nat with (i + S k)%nat by lia. apply Hnth. exact Hk.
    + simpl in Hlen. lia.
Qed.

Lemma d_find_prefix : forall s b q y, d_find s (b :: q) = Some y -> exists z, d_find s q = Some z.
Proof. intros s b q y H. rewrite d_find_cons in H. destruct (d_find s q) as [z|]; [exists z; reflexivity|discriminate]. Qed.

(* once an entry has been processed the memory store has its root *)
Lemma Inv_root_mapped : forall toc i ms ds f h e, Inv toc (S i) ms ds f h [] None None -> nth_error toc 0 = Some e ->
  exists r, pfind [] (ms_m ms) = Some r /\ f r = Some O.
Proof.
  intros toc i ms ds f h e H H0.
  destruct (v_root _ _ _ _ _ _ _ _ _ H) as [[r [H1 [H2 H3]]]|[_ [Hroot [Hno _]]]].
  - exists r. split; [exact H1|exact H2].
  - exfalso.
    assert (L0 : (0 < length toc)%nat) by (apply nth_error_Some; congruence).
    destruct (f 0%nat) as [x0|] eqn:Ef.
    2:{ destruct (v_done _ _ _ _ _ _ _ _ _ H 0%nat ltac:(lia) L0) as [Hd|Hd]; [exact (Hd Ef)|].
        destruct (h 0%nat) as [o|] eqn:Eh; [|contradiction]. destruct (v_h _ _ _ _ _ _ _ _ _ H 0%nat o Eh) as [Hlt _]. lia. }
    pose proof (v_L2 _ _ _ _ _ _ _ _ _ H (cname e) 0%nat x0 (v_expl _ _ _ _ _ _ _ _ _ H 0%nat e H0) (fx_f f h 0%nat x0 Ef) ltac:(intros [])) as Hd.
    destruct (cname e) as [|c0 q0] eqn:Hne0; [simpl in Hd; inversion Hd; subst x0; exact (Hno 0%nat Ef)|].
    assert (Hne : c0 :: q0 <> []) by discriminate.
    (* walk down to the top-level ancestor *)
    assert (Htop : forall p y, d_find ds p = Some y -> p <> [] -> exists c y', d_find ds [c] = Some y').
    { induction p as [|b q IHp]; intros y Hp Hpne; [contradiction|].
      destruct q as [|b' q']; [exists b, y; exact Hp|].
      destruct (d_find_prefix ds b (b' :: q') y Hp) as [z Hz]. apply (IHp z Hz). discriminate. }
    destruct (Htop (c0 :: q0) x0 Hd Hne) as [c [y' Hc]].
    rewrite d_find_cons in Hc. simpl in Hc. unfold d_children in Hc. rewrite Hroot in Hc. simpl in Hc. discriminate.
Qed.

(* ---------- the walks ---------- *)

Definition rrel (f : pmap) (r r' : rnode) : Prop := f (fst r) = Some (fst r') /\ snd r = snd r'.

Lemma first_index_rel : forall f, (forall k k' x, f k = Some x -> f k' = Some x -> k = k') ->
  forall l l', Forall2 (rrel f) l l' -> forall id id' n0, f id = Some id' -> first_index id l n0 = first_index id' l' n0.
Proof.
  intros f Hinj l l' H. induction H as [|[a v] [a' v'] l l' [Ha _] _ IH]; intros id id' n0 Hid; simpl; [reflexivity|].
  simpl in Ha. destruct (Nat.eqb id a) eqn:E.
  - apply Nat.eqb_eq in E. subst a. assert (id' = a') by congruence. subst a'. rewrite Nat.eqb_refl. reflexivity.
  - replace (Nat.eqb id' a') with false; [apply IH; exact Hid|].
    symmetry. apply Nat.eqb_neq. intro; subst a'. apply Nat.eqb_neq in E. apply E. exact (Hinj id a id' Hid Ha).
Qed.

Lemma assign_inos_rel : forall f, (forall k k' x, f k = Some x -> f k' = Some x -> k = k') ->
  forall l l', Forall2 (rrel f) l l' -> assign_inos l = assign_inos l'.
Proof.
  intros f Hinj l l' H. unfold assign_inos.
  assert (G : forall L L', Forall2 (rrel f) L L' -> forall s s', Forall2 (rrel f) s s' ->
    map (fun r : rnode => let '(id, v) := r in V (v_path v) (v_attr v) (v_off v) (first_index id L 0) (v_reg v) (v_probes v)) s =
    map (fun r : rnode => let '(id, v) := r in V (v_path v) (v_attr v) (v_off v) (first_index id L' 0) (v_reg v) (v_probes v)) s').
  { intros L L' HL s s' Hs. induction Hs as [|[a v] [a' v'] s s' [Ha Hv] _ IH]; [reflexivity|]. simpl in *. subst v'.
    rewrite (first_index_rel f Hinj L L' HL a a' 0%nat Ha). f_equal. exact IH. }
  exact (G l l' H l l' H).
Qed.

Lemma show_ok_implicit : forall d, show_ok (implicit_dir d).
Proof. intro d. constructor; simpl; try reflexivity; try lia; intro H; try discriminate. Qed.

Lemma walk_rel : forall toc M D f h probes, Forall (fun e => e_type e <> THardlink -> show_ok e) toc -> Inv toc (length toc) M D f h [] None None ->
  Forall (fun p => 0 <= p) probes ->
  forall fuel k x path, f k = Some x ->
    Forall2 (rrel f) (mem_walk M [] probes fuel k path) (db_walk D probes fuel x path).
Proof.
  intros toc M D f h probes Hok H Hprobes. induction fuel as [|fuel IH]; intros k x path Hf; [constructor|].
  cbn [mem_walk db_walk].
  destruct (v_dom _ _ _ _ _ _ _ _ _ H k x Hf) as [mn [dn [Hn [Hd Hr]]]]. rewrite Hn, Hd.
  assert (Hshow : show_ok (mn_e mn)).
  { destruct (Nat.lt_ge_cases k (length toc)) as [Hl|Hg].
    - rewrite Forall_forall in Hok. apply Hok; [eapply nth_error_In; exact (v_ent _ _ _ _ _ _ _ _ _ H k mn Hl Hn)|].
      rewrite <- (ntype_nth M k mn Hn). exact (v_ftype _ _ _ _ _ _ _ _ _ H k x Hf).
    - destruct (v_impl _ _ _ _ _ _ _ _ _ H k mn Hg Hn) as [[d Hd'] _]. rewrite Hd'. apply show_ok_implicit. }
  destruct Hr as [Hb [Hnl [Hc [Hck _]]]].
  constructor.
  - split.
    + rewrite (surjective_pairing (mem_vnode M [] probes k mn path)). rewrite (surjective_pairing (db_vnode probes x dn path)).
      exact Hf.
    + change (snd (db_vnode probes x dn path)) with (snd (db_vnode probes x (DN (dn_b dn) (shift (mn_ch mn)) (dn_chunks dn)) path)).
      apply (vnode_same toc M probes Hprobes k x mn _ path Hn); [|exact Hshow].
      unfold node_rel. cbn [dn_b dn_ch dn_chunks]. unfold nadj in Hb, Hnl. rewrite Z.add_0_r in Hb, Hnl.
      split; [exact Hb|]. split; [exact Hnl|]. split; [reflexivity|]. apply Hck. discriminate.
  - clear Hn Hd Hb Hnl Hck Hshow. induction Hc as [|[key c] [key' c'] a b [Hk Hfc] _ IHc]; [constructor|].
    simpl in Hk, Hfc. subst key'. cbn [flat_map fst snd]. apply Forall2_app; [|exact IHc].
    apply IH. exact Hfc.
Qed.


(* ---------- an explicit root entry ("./", "/") ---------- *)

Lemma Inv_step_root : forall toc i ms ds f h e,
  Inv toc i ms ds f h [] None None -> nth_error toc i = Some e -> cname e = [] -> e_type e = TDir ->
  nth_error (ds_nodes ds) 0 = Some (DN (write_attr root_attr) [] []) -> (forall k, f k <> Some O) ->
  exists ds', pass2_step (Some ms) (i, e) = Some (m_nlink_inc ms i) /\ db_step (Some ds) e = Some ds' /\
              Inv toc (S i) (m_nlink_inc ms i) ds' (pset f i O) h [] None None.
Proof.
  intros toc i ms ds f h e H Hi Hname Hdir Hroot Hno.
  assert (Li : (i < length toc)%nat) by (apply nth_error_Some; congruence).
  destruct (nth_error (ms_nodes ms) i) as [mni|] eqn:Hmni;
    [|apply nth_error_None in Hmni; pose proof (v_lenm _ _ _ _ _ _ _ _ _ H); lia].
  assert (Hei : mn_e mni = e).
  { pose proof (v_ent _ _ _ _ _ _ _ _ _ H i mni Li Hmni) as E. rewrite Hi in E. inversion E. reflexivity. }
  destruct (v_todo _ _ _ _ _ _ _ _ _ H i mni (conj (le_n i) Li) Hmni) as [Hfi [Hnl Hch]].
  assert (Hpi : pfind [] (ms_m ms) = Some i) by (rewrite <- Hname; exact (v_expl _ _ _ _ _ _ _ _ _ H i e Hi)).
  set (ds' := DS (upd (ds_nodes ds) 0 (DN (write_attr (attr_of e 2)) [] [])) (Some O) (e_size e)).
  set (f' := pset f i O).
  assert (L0 : (0 < length (ds_nodes ds))%nat) by (apply nth_error_Some; congruence).
  assert (Lmi : (i < length (ms_nodes ms))%nat) by (apply nth_error_Some; congruence).
  assert (Hs : m_nlink_inc ms i = MS (upd (ms_nodes ms) i (MN e (init_nl e + 1) [])) (ms_m ms))
    by (unfold m_nlink_inc; rewrite Hmni, Hei, Hnl, Hch, Hei; reflexivity).
  assert (Hsub : psub f f') by (apply psub_pset; exact Hfi).
  assert (Hf'old : forall k0, k0 <> i -> f' k0 = f k0) by (intros; apply pset_other; assumption).
  assert (Hch0 : forall y, d_children ds y = d_children ds' y).
  { intro y. unfold d_children, ds'. cbn [ds_nodes]. destruct y as [|y].
    - rewrite Hroot. destruct (ds_nodes ds); [simpl in L0; lia|reflexivity].
    - destruct (ds_nodes ds); reflexivity. }
  assert (Hfind : forall p, d_find ds' p = d_find ds p) by (intro p; symmetry; apply d_find_ext; exact Hch0).
  assert (Do : forall z, z <> O -> nth_error (ds_nodes ds') z = nth_error (ds_nodes ds) z)
    by (intros z Hz; unfold ds'; cbn [ds_nodes]; apply nth_upd_other; congruence).
  assert (D0 : nth_error (ds_nodes ds') 0 = Some (DN (write_attr (attr_of e 2)) [] []))
    by (unfold ds'; cbn [ds_nodes]; apply nth_upd_same; exact L0).
  assert (Mi : nth_error (ms_nodes (m_nlink_inc ms i)) i = Some (MN e (init_nl e + 1) []))
    by (rewrite Hs; cbn [ms_nodes]; apply nth_upd_same; exact Lmi).
  assert (Mo : forall z, z <> i -> nth_error (ms_nodes (m_nlink_inc ms i)) z = nth_error (ms_nodes ms) z)
    by (intros z Hz; rewrite Hs; cbn [ms_nodes]; apply nth_upd_other; congruence).
  assert (Mm : ms_m (m_nlink_inc ms i) = ms_m ms) by apply m_nlink_inc_m.
  assert (Mlen : length (ms_nodes (m_nlink_inc ms i)) = length (ms_nodes ms)) by (rewrite Hs; cbn [ms_nodes]; apply upd_length).
  assert (Hinit : init_nl e + 1 = 2) by (unfold init_nl; rewrite Hdir; reflexivity).
  assert (Hhi : h i = None) by exact (v_htodo _ _ _ _ _ _ _ _ _ H i (le_n i)).
  assert (Hhf : forall k1 o, h k1 = Some o -> f o <> None).
  { intros k1 o E. destruct (v_h _ _ _ _ _ _ _ _ _ H k1 o E) as [_ [_ [_ [_ [[x1 [mo [Hfo _]]] _]]]]]. congruence. }
  assert (Mfwd : forall z mn, nth_error (ms_nodes ms) z = Some mn -> exists mn', nth_error (ms_nodes (m_nlink_inc ms i)) z = Some mn' /\ mn_e mn' = mn_e mn
       /\ (ntype ms z <> TDir -> mn_ch mn' = mn_ch mn)).
  { intros z mn Hz. destruct (Nat.eq_dec z i) as [->|Hne].
    - eexists. split; [exact Mi|]. rewrite Hmni in Hz. inversion Hz; subst mn. cbn [mn_e mn_ch]. rewrite Hei, Hch. auto.
    - exists mn. split; [rewrite Mo by exact Hne; exact Hz|]. auto. }
  exists ds'. split; [|split].
  - unfold pass2_step. rewrite Hdir. simpl etype_eqb. cbv iota. unfold cname in Hname. rewrite Hname. reflexivity.
  - unfold db_step. unfold cname in Hname. rewrite Hname, Hdir. simpl etype_eqb. cbv iota.
    cbn [d_find]. rewrite Hroot. unfold d_upd_bucket. rewrite Hroot.
    replace (read_numlink (dn_b (DN (write_attr root_attr) [] []))) with 2 by reflexivity.
    unfold d_add_chunk. rewrite Hdir. simpl etype_eqb. simpl. reflexivity.
  - constructor.
    + rewrite Mlen. exact (v_lenm _ _ _ _ _ _ _ _ _ H).
    + rewrite Mm. exact (v_mlen _ _ _ _ _ _ _ _ _ H).
    + rewrite Mm. exact (v_expl _ _ _ _ _ _ _ _ _ H).
    + intros q k0 Hq. rewrite Mm in Hq. destruct (v_mdom _ _ _ _ _ _ _ _ _ H q k0 Hq) as [mn [Hn Hc]].
      destruct (Nat.eq_dec k0 i) as [->|Hne].
      * eexists. split; [exact Mi|]. simpl. rewrite Hmni in Hn. inversion Hn; subst mn. rewrite <- Hei. exact Hc.
      * exists mn. split; [rewrite Mo by exact Hne; exact Hn|exact Hc].
    + intros j mn Hj Hn. destruct (Nat.eq_dec j i) as [->|Hne].
      * rewrite Mi in Hn. inversion Hn; subst mn. exact Hi.
      * rewrite Mo in Hn by exact Hne. exact (v_ent _ _ _ _ _ _ _ _ _ H j mn Hj Hn).
    + intros k0 mn Hk0 Hn. rewrite Mo in Hn by lia. destruct (v_impl _ _ _ _ _ _ _ _ _ H k0 mn Hk0 Hn) as [Hd Hf0].
      split; [exact Hd|]. rewrite Hf'old by lia. exact Hf0.
    + intros j mn Hj Hn. rewrite Mo in Hn by lia. rewrite Hf'old by lia. apply (v_todo _ _ _ _ _ _ _ _ _ H j mn); [lia|exact Hn].
    + intros j Hj. apply (v_htodo _ _ _ _ _ _ _ _ _ H). lia.
    + intros j Hj Hjn. destruct (Nat.eq_dec j i) as [->|Hji].
      * left. unfold f'. rewrite pset_same. discriminate.
      * rewrite Hf'old by exact Hji. apply (v_done _ _ _ _ _ _ _ _ _ H); lia.
    + intros k0 x0 Hf0. destruct (Nat.eq_dec k0 i) as [->|Hne0].
      * unfold f' in Hf0. rewrite pset_same in Hf0. inversion Hf0; subst x0.
        eexists. eexists. split; [exact Mi|]. split; [exact D0|].
        unfold nrel. cbn [mn_e mn_nlink mn_ch dn_b dn_ch dn_chunks nadj]. rewrite Z.add_0_r, Hinit.
        split; [reflexivity|]. split; [lia|]. split; [constructor|].
        split; [intros _; unfold chunks_ok; cbn [mn_e dn_chunks]; rewrite Hdir; reflexivity|intro E; discriminate].
      * rewrite Hf'old in Hf0 by exact Hne0.
        destruct (v_dom _ _ _ _ _ _ _ _ _ H k0 x0 Hf0) as [mn [dn [Hn [Hd Hr]]]].
        exists mn, dn. split; [rewrite Mo by exact Hne0; exact Hn|]. split.
        { rewrite Do; [exact Hd|]. intro E. subst x0. exact (Hno k0 Hf0). }
        exact (nrel_mono f f' _ _ _ _ _ _ Hsub Hr).
    + intros k0 x0 Hf0. rewrite ntype_nlink_inc. destruct (Nat.eq_dec k0 i) as [->|Hne0].
      * rewrite (ntype_nth ms i mni Hmni), Hei, Hdir. discriminate.
      * rewrite Hf'old in Hf0 by exact Hne0. exact (v_ftype _ _ _ _ _ _ _ _ _ H k0 x0 Hf0).
    + intros k0 k1 y H0 H1. destruct (Nat.eq_dec k0 i) as [->|Hne0]; destruct (Nat.eq_dec k1 i) as [->|Hne1]; try reflexivity.
      * unfold f' in H0. rewrite pset_same in H0. inversion H0; subst y. rewrite Hf'old in H1 by exact Hne1. exfalso. exact (Hno k1 H1).
      * unfold f' in H1. rewrite pset_same in H1. inversion H1; subst y. rewrite Hf'old in H0 by exact Hne0. exfalso. exact (Hno k0 H0).
      * rewrite Hf'old in H0, H1 by assumption. exact (v_inj _ _ _ _ _ _ _ _ _ H k0 k1 y H0 H1).
    + intros q y Hq Hqne. rewrite Hfind in Hq. rewrite Mm. destruct (v_L1 _ _ _ _ _ _ _ _ _ H q y Hq Hqne) as [k0 [H1 [H2 H3]]].
      exists k0. split; [exact H1|]. split; [apply fx_pset; assumption|exact H3].
    + intros q k0 y Hq Hf0 Hnin. rewrite Mm in Hq. rewrite Hfind. destruct (Nat.eq_dec k0 i) as [->|Hne0].
      * assert (q = []) by exact (Inv_pfun_name _ _ _ _ _ _ _ _ _ H _ _ _ Hq Hpi). subst q.
        unfold fx, f' in Hf0. rewrite pset_same in Hf0. inversion Hf0. reflexivity.
      * apply (fx_pset_inv f h i O k0 y Hhf Hfi Hne0) in Hf0. exact (v_L2 _ _ _ _ _ _ _ _ _ H q k0 y Hq Hf0 Hnin).
    + left. exists i. rewrite Mm, Mlen. split; [exact Hpi|]. split; [unfold f'; apply pset_same|].
      split; [rewrite ntype_nlink_inc, (ntype_nth ms i mni Hmni), Hei; exact Hdir|].
      unfold ds'. cbn [ds_nodes]. rewrite upd_length.
      destruct (v_root _ _ _ _ _ _ _ _ _ H) as [[r [_ [Hfr _]]]|[_ [_ [_ Hl]]]]; [exfalso; exact (Hno r Hfr)|lia].
    + intros q [].
    + constructor.
    + intros j Hj. discriminate.
    + intros y Hy. discriminate.
    + intros k0 o Hk0.
      refine (v_h_transport toc i ms ds f h [] None None (m_nlink_inc ms i) H Mfwd _ f' Hsub _ k0 o Hk0).
      * intros q k1 Hq. rewrite Mm. exact Hq.
      * intros k1 Hk1. destruct (h k1) as [o1|] eqn:Eo; [|contradiction].
        destruct (v_h _ _ _ _ _ _ _ _ _ H k1 o1 Eo) as [_ [_ [Hfn _]]].
        rewrite Hf'old; [exact Hfn|]. intro; subst k1. congruence.
    + intros z mn Hz Hnd. destruct (Nat.eq_dec z i) as [->|Hne].
      * rewrite Mi in Hz. inversion Hz; reflexivity.
      * rewrite Mo in Hz by exact Hne. exact (v_leaf _ _ _ _ _ _ _ _ _ H z mn Hz Hnd).
Qed.

(* ---------- the class: implicit parents, optional root entry, backward hardlinks ---------- *)

Definition root_entry (e : entry) : Prop :=
  cname e = [] /\ e_type e = TDir /\ 0 <= e_perm e < 16777216 /\ e_off e = 0.

Definition link_entry (e : entry) : Prop := e_type e = THardlink /\ cname e <> [].

Record hl_toc (toc : list entry) : Prop := {
  ht_ok : Forall (fun e => entry_ok e \/ root_entry e \/ link_entry e) toc;
  ht_nodup : NoDup (map cname toc);
  ht_ord : ord_toc toc;
  ht_pardir : pardir_toc toc;
  (* a hardlink names an EARLIER entry that is not a directory (it may itself be a hardlink) *)
  ht_hard : forall i e, nth_error toc i = Some e -> e_type e = THardlink ->
              exists kt et, (kt < i)%nat /\ nth_error toc kt = Some et /\ cname et = clean (e_hl e) /\ e_type et <> TDir
}.

Lemma show_ok_root_entry : forall e, root_entry e -> show_ok e.
Proof.
  intros e [_ [Hd [Hp Ho]]]. constructor.
  - rewrite Hd. reflexivity.
  - exact Hp.
  - intro Hr. rewrite Hd in Hr. discriminate.
  - intros _. exact Ho.
Qed.

Definition pass1_ok (e : entry) : Prop :=
  etype_eqb (e_type e) TChunk = false /\
  (etype_eqb (e_type e) TReg && (e_chsize e >? 0) && (e_chsize e <? e_size e)) = false.

Lemma pass1_weak : forall toc s, Forall pass1_ok toc -> p1_chunks s = [] ->
  let s' := fold_left pass1_step toc s in
  p1_nodes s' = p1_nodes s ++ map init_node toc
  /\ p1_m s' = rev (names_from (length (p1_nodes s)) toc) ++ p1_m s
  /\ p1_chunks s' = [].
Proof.
  induction toc as [|e t IH]; intros s Hok Hc; cbn [fold_left].
  - simpl. rewrite app_nil_r. auto.
  - inversion Hok as [|? ? [He1 He2] Ht]; subst.
    assert (Hstep : pass1_step s e =
       P1 (p1_nodes s ++ [init_node e]) ((cname e, length (p1_nodes s)) :: p1_m s) [] (cname e)
          (if etype_eqb (e_type e) TReg then Some (e_size e) else p1_lastreg s)).
    { unfold pass1_step. rewrite He1, He2, Hc. reflexivity. }
    rewrite Hstep. match goal with |- context [fold_left pass1_step t ?s1] => specialize (IH s1 Ht eq_refl) end.
    cbn [p1_nodes p1_m p1_chunks] in IH.
    destruct IH as [I1 [I2 I3]]. repeat split.
    + rewrite I1. rewrite <- app_assoc. reflexivity.
    + rewrite I2. rewrite app_length. simpl length. replace (length (p1_nodes s) + 1)%nat with (S (length (p1_nodes s))) by lia.
      unfold names_from. cbn [number map rev]. rewrite <- app_assoc. reflexivity.
    + exact I3.
Qed.

Lemma hl_pass1_ok : forall toc, Forall (fun e => entry_ok e \/ root_entry e \/ link_entry e) toc -> Forall pass1_ok toc.
Proof.
  intros toc H. apply Forall_forall. intros e Hin. rewrite Forall_forall in H. destruct (H e Hin) as [He|[[_ [Hd _]]|[Hd _]]].
  - split; [exact (okt_not_chunk e (eo_type e He))|exact (reg_no_split e He)].
  - split; rewrite Hd; reflexivity.
  - split; rewrite Hd; reflexivity.
Qed.

Lemma hl_show_ok : forall toc, Forall (fun e => entry_ok e \/ root_entry e \/ link_entry e) toc ->
  Forall (fun e => e_type e <> THardlink -> show_ok e) toc.
Proof.
  intros toc H. apply Forall_forall. intros e Hin Hnh. rewrite Forall_forall in H. destruct (H e Hin) as [He|[Hr|[Hl _]]].
  - exact (show_ok_entry e He).
  - exact (show_ok_root_entry e Hr).
  - contradiction.
Qed.

Lemma agree_from_Inv : forall toc e0 M D f h probes,
  nth_error toc 0 = Some e0 -> Forall (fun e => entry_ok e \/ root_entry e \/ link_entry e) toc ->
  fold_left pass2_step (number 0 toc) (Some (ms_init toc)) = Some M -> db_build toc = Some D ->
  Inv toc (length toc) M D f h [] None None -> Forall (fun p => 0 <= p) probes ->
  view_mem toc probes = view_db toc probes /\ view_mem toc probes <> None.
Proof.
  intros toc e0 M D f h probes H0 Hok Hm Hd HI Hp.
  destruct (pass1_weak toc (P1 [] [] [] [] None) (hl_pass1_ok toc Hok) eq_refl) as [P1n [P1m P1c]].
  cbn [p1_nodes p1_m app length] in P1n, P1m. rewrite app_nil_r in P1m. fold (pass1 toc) in P1n, P1m, P1c.
  assert (Hlen : exists n', length toc = S n') by (destruct toc; [discriminate|eexists; reflexivity]).
  destruct Hlen as [n' Hn'].
  assert (HIS : Inv toc (S n') M D f h [] None None) by (rewrite <- Hn'; exact HI).
  destruct (Inv_root_mapped toc n' M D f h e0 HIS H0) as [r [Hr Hfr]].
  assert (Hmb : mem_build toc = Some (M, [])).
  { unfold mem_build. rewrite P1n, P1m, P1c. unfold ms_init in Hm. rewrite Hm.
    destruct (ms_m M) eqn:E; [simpl in Hr; discriminate|reflexivity]. }
  unfold view_mem, view_db. rewrite Hmb, Hd, Hr.
  split; [|discriminate]. f_equal.
  apply (assign_inos_rel f (v_inj _ _ _ _ _ _ _ _ _ HI)).
  apply (walk_rel toc M D f h probes (hl_show_ok toc Hok) HI Hp). exact Hfr.
Qed.

Lemma psfx_nil : forall p, p <> [] -> psfx [] p.
Proof. intros p H. exists p. split; [exact H|]. rewrite app_nil_r. reflexivity. Qed.

Lemma stores_agree_hl : forall toc probes, hl_toc toc -> Forall (fun p => 0 <= p) probes ->
  view_mem toc probes = view_db toc probes /\ view_mem toc probes <> None.
Proof.
  intros toc probes [Hok Hnd Hord Hpd Hhard] Hp.
  destruct toc as [|e0 t]; [split; [reflexivity|discriminate]|].
  set (toc := e0 :: t) in *.
  pose proof (Inv_init toc Hnd) as H0.
  (* every entry after a non-root first entry, or after the root entry, is a regular entry or a backward hardlink *)
  assert (Hsteps : forall e0', nth_error toc 0 = Some e0' -> (entry_ok e0' \/ root_entry e0') ->
            forall j e, (0 < j)%nat -> nth_error toc j = Some e -> entry_ok e \/ hard_entry toc j e).
  { intros e0' H00 He0' j e Hj Hje. rewrite Forall_forall in Hok.
    destruct (Hok e (nth_error_In _ _ Hje)) as [He|[[Hn _]|[Hl Hln]]].
    - left. exact He.
    - exfalso. destruct He0' as [He0'|[Hn0 _]].
      + assert (j < 0)%nat; [|lia]. apply (Hord 0%nat j e0' e H00 Hje). rewrite Hn. apply psfx_nil. exact (eo_name e0' He0').
      + assert (0%nat = j); [|lia]. apply (names_inj toc 0%nat j e0' e Hnd H00 Hje). congruence.
    - right. split; [exact Hl|]. split; [exact Hln|]. exact (Hhard j e Hje Hl). }
  inversion Hok as [|? ? Hok0 Hokt]; subst.
  destruct Hok0 as [He0|[Hr0|[Hl0 _]]].
  - destruct (Inv_run toc Hord Hpd toc 0%nat (ms_init toc) d_init (fun _ => None) (fun _ => None) H0) as [M [D [f [h [Hm [Hd HI]]]]]].
    + intros k e Hk. split; [exact Hk|]. destruct k as [|k]; [inversion Hk; subst; left; exact He0|].
      apply (Hsteps e0 eq_refl (or_introl He0) (S k) e); [lia|exact Hk].
    + lia.
    + exact (agree_from_Inv toc e0 M D f h probes eq_refl Hok Hm Hd HI Hp).
  - destruct Hr0 as [Hn0 [Hd0 Hrest]].
    destruct (Inv_step_root toc 0%nat (ms_init toc) d_init (fun _ => None) (fun _ => None) e0 H0 eq_refl Hn0 Hd0 eq_refl ltac:(intros k Hk; discriminate))
      as [ds1 [S1 [S2 H1]]].
    destruct (Inv_run toc Hord Hpd t 1%nat _ ds1 _ _ H1) as [M [D [f [h [Hm [Hd HI]]]]]].
    + intros k e Hk. split; [exact Hk|].
      apply (Hsteps e0 eq_refl (or_intror (conj Hn0 (conj Hd0 Hrest))) (S k) e); [lia|exact Hk].
    + simpl; lia.
    + apply (agree_from_Inv toc e0 M D f h probes eq_refl Hok); [| |exact HI|exact Hp].
      * unfold toc at 1. cbn [number fold_left]. rewrite S1. exact Hm.
      * unfold db_build, toc. cbn [fold_left]. rewrite S2. exact Hd.
  - exfalso. destruct (Hhard 0%nat e0 eq_refl Hl0) as [kt [_ [Hlt _]]]. lia.
Qed.

(* ---------- the boolean class predicate ---------- *)

Lemma entry_okb_ok : forall e, entry_okb e = true -> entry_ok e.
Proof.
  intros e H. unfold entry_okb in H.
  apply andb_true_iff in H. destruct H as [H Hreg].
  apply andb_true_iff in H. destruct H as [H Hname].
  apply andb_true_iff in H. destruct H as [H Hp2].
  apply andb_true_iff in H. destruct H as [Hty Hp1].
  constructor.
  - destruct (e_type e); simpl in *; congruence.
  - apply Z.leb_le in Hp1. apply Z.ltb_lt in Hp2. lia.
  - intro E. unfold cname in E. rewrite E in Hname. discriminate.
  - intro Hr. rewrite Hr in Hreg. simpl in Hreg.
    apply andb_true_iff in Hreg. destruct Hreg as [Hreg Hoff].
    apply andb_true_iff in Hreg. destruct Hreg as [Hreg Hcs].
    apply andb_true_iff in Hreg. destruct Hreg as [Hsz Hco].
    apply Z.leb_le in Hsz. apply Z.eqb_eq in Hco.
    split; [exact Hsz|]. split; [exact Hco|]. split.
    + apply orb_true_iff in Hcs. destruct Hcs as [E|E]; apply Z.eqb_eq in E; tauto.
    + intro Hz. apply orb_true_iff in Hoff. destruct Hoff as [E|E].
      * rewrite Hz in E. discriminate.
      * apply Z.eqb_eq in E. exact E.
  - intro Hr. destruct (etype_eqb (e_type e) TReg) eqn:E.
    + exfalso. apply Hr. destruct (e_type e); simpl in E; congruence.
    + apply Z.eqb_eq in Hreg. exact Hreg.
Qed.

Lemma root_entryb_ok : forall e, root_entryb e = true -> root_entry e.
Proof.
  intros e H. unfold root_entryb in H.
  apply andb_true_iff in H. destruct H as [H Hoff].
  apply andb_true_iff in H. destruct H as [H Hp2].
  apply andb_true_iff in H. destruct H as [H Hp1].
  apply andb_true_iff in H. destruct H as [Hn Hd].
  split; [apply path_eqb_eq; exact Hn|]. split; [destruct (e_type e); simpl in Hd; congruence|].
  apply Z.leb_le in Hp1. apply Z.ltb_lt in Hp2. apply Z.eqb_eq in Hoff. split; [lia|exact Hoff].
Qed.

Lemma link_entryb_ok : forall e, link_entryb e = true -> link_entry e.
Proof.
  intros e H. unfold link_entryb in H. apply andb_true_iff in H. destruct H as [Ht Hn].
  split; [destruct (e_type e); simpl in Ht; congruence|].
  intro E. unfold cname in E. rewrite E in Hn. discriminate.
Qed.

Lemma nodup_paths_ok : forall l, nodup_paths l = true -> NoDup l.
Proof.
  induction l as [|p t IH]; intro H; [constructor|]. simpl in H. apply andb_true_iff in H. destruct H as [H1 H2].
  constructor; [|exact (IH H2)]. intro Hin. apply negb_true_iff in H1.
  assert (existsb (path_eqb p) t = true) by (apply existsb_exists; exists p; split; [exact Hin|apply path_eqb_refl]). congruence.
Qed.

Lemma psfx_suffix_proper : forall p q, psfx p q -> is_suffix_proper p q = true.
Proof.
  intros p q [pre [Hne E]]. subst q. induction pre as [|c pre IH]; [contradiction|].
  simpl. destruct pre as [|c' pre'].
  - simpl. rewrite path_eqb_refl. reflexivity.
  - rewrite IH by discriminate. apply orb_true_r.
Qed.

Lemma hardlink_tocb_ok : forall toc, hardlink_tocb toc = true -> hl_toc toc.
Proof.
  intros toc H. unfold hardlink_tocb in H. apply andb_true_iff in H. destruct H as [H H3].
  apply andb_true_iff in H. destruct H as [H1 H2].
  rewrite forallb_forall in H3.
  assert (Hpair : forall j k ej ek, nth_error toc j = Some ej -> nth_error toc k = Some ek -> psfx (cname ek) (cname ej) ->
            (k < j)%nat /\ e_type ek = TDir).
  { intros j k ej ek Hj Hk Hp.
    pose proof (H3 (j, ej) (number_nth toc 0%nat j ej Hj)) as H4. apply andb_true_iff in H4. destruct H4 as [H4 _].
    rewrite forallb_forall in H4. pose proof (H4 (k, ek) (number_nth toc 0%nat k ek Hk)) as H5. cbn [fst snd] in H5.
    unfold cname in Hp. rewrite (psfx_suffix_proper _ _ Hp) in H5. simpl in H5.
    apply andb_true_iff in H5. destruct H5 as [H5 H6]. split; [apply Nat.ltb_lt; exact H5|].
    destruct (e_type ek); simpl in H6; congruence. }
  constructor.
  - rewrite forallb_forall in H1. apply Forall_forall. intros e Hin. pose proof (H1 e Hin) as He.
    apply orb_true_iff in He. destruct He as [He|He].
    + apply orb_true_iff in He. destruct He as [He|He]; [left; exact (entry_okb_ok e He)|right; left; exact (root_entryb_ok e He)].
    + right. right. exact (link_entryb_ok e He).
  - exact (nodup_paths_ok _ H2).
  - intros j k ej ek Hj Hk Hp. exact (proj1 (Hpair j k ej ek Hj Hk Hp)).
  - intros j k ej ek Hj Hk Hp. exact (proj2 (Hpair j k ej ek Hj Hk Hp)).
  - intros i e Hi Hty.
    pose proof (H3 (i, e) (number_nth toc 0%nat i e Hi)) as H4. apply andb_true_iff in H4. destruct H4 as [_ H4].
    cbn [fst snd] in H4. rewrite Hty in H4. simpl in H4. apply existsb_exists in H4. destruct H4 as [[k ek] [Hin Hc]].
    cbn [fst snd] in Hc. apply andb_true_iff in Hc. destruct Hc as [Hc Hnd]. apply andb_true_iff in Hc. destruct Hc as [Hlt Hnm].
    destruct (number_in toc 0%nat k ek Hin) as [_ Hk]. rewrite Nat.sub_0_r in Hk.
    exists k, ek. split; [apply Nat.ltb_lt; exact Hlt|]. split; [exact Hk|]. split; [apply path_eqb_eq; exact Hnm|].
    intro E. rewrite E in Hnd. discriminate.
Qed.
