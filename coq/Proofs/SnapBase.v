(* Proofs about Model/Snap.v: invariant of the snapshotter state machine, its preservation by every
   API operation under every fault script, and the lemmas the C08 theorems are closed with. *)
From Coq Require Import List Arith Bool Lia.
From SV Require Import Model.Snap.
Import ListNotations.

(* the op-level functions get the caller's labels normalised ([norm l], what metadata keeps) and, for Prepare, also
   as passed; inside the proofs the normalised map is just another label map: [nrm] names it [l] again and calls
   the caller's map [lm] *)
Ltac nrm :=
  try match goal with
      | |- context [norm ?x] =>
          let ln := fresh "ln" in let Hn := fresh "Hn" in
          remember (norm x) as ln eqn:Hn in *; clear Hn; rename x into lm; rename ln into x
      | H : context [norm ?x] |- _ =>
          let ln := fresh "ln" in let Hn := fresh "Hn" in
          remember (norm x) as ln eqn:Hn in *; clear Hn; rename x into lm; rename ln into x
      end.

(* ---------- field projections of the setters ---------- *)
Ltac unf_set := unfold set_meta, set_seq, set_dirs, set_tmpc, set_mounts, set_closed, emit; simpl.

(* ---------- metadata helpers ---------- *)
Lemma lookup_in m k i : lookup m k = Some i -> In (k, i) m.
Proof.
  induction m as [|[k' j] m IH]; simpl; [discriminate|].
  destruct (Nat.eqb_spec k' k); intros H.
  - inversion H; subst; auto.
  - auto.
Qed.

Lemma lookup_none m k : lookup m k = None -> forall i, ~ In (k, i) m.
Proof.
  induction m as [|[k' j] m IH]; simpl; intros H i; [tauto|].
  destruct (Nat.eqb_spec k' k); [discriminate|].
  intros [E|E]; [inversion E; congruence|]. eapply IH; eauto.
Qed.

Lemma in_lookup m k i : NoDup (map fst m) -> In (k, i) m -> lookup m k = Some i.
Proof.
  induction m as [|[k' j] m IH]; simpl; intros ND H; [tauto|].
  inversion ND as [|? ? Hn ND']; subst.
  destruct H as [E|H].
  - inversion E; subst. rewrite Nat.eqb_refl. reflexivity.
  - destruct (Nat.eqb_spec k' k).
    + subst. exfalso. apply Hn. change k with (fst (k, i)). apply in_map. exact H.
    + auto.
Qed.

Lemma del_in m k k' i : In (k', i) (del m k) <-> (In (k', i) m /\ k' <> k).
Proof.
  induction m as [|[k0 j] m IH]; simpl; [tauto|].
  destruct (Nat.eqb_spec k0 k).
  - subst. rewrite IH. split; [tauto|]. intros [[E|H] N]; [inversion E; congruence|tauto].
  - simpl. rewrite IH. split.
    + intros [E|[H N]]; [inversion E; subst; tauto|tauto].
    + intros [[E|H] N]; [left; exact E|tauto].
Qed.

Lemma lookup_del_ne m k k' : k' <> k -> lookup (del m k) k' = lookup m k'.
Proof.
  intros N. induction m as [|[k0 j] m IH]; simpl; auto.
  destruct (Nat.eqb_spec k0 k).
  - subst. destruct (Nat.eqb_spec k k'); [congruence|]. exact IH.
  - simpl. destruct (Nat.eqb_spec k0 k'); auto.
Qed.

Lemma lookup_del_eq m k : lookup (del m k) k = None.
Proof.
  induction m as [|[k0 j] m IH]; simpl; auto.
  destruct (Nat.eqb_spec k0 k); auto. simpl.
  destruct (Nat.eqb_spec k0 k); [congruence|auto].
Qed.

Lemma del_names_nodup m k : NoDup (map fst m) -> NoDup (map fst (del m k)).
Proof.
  induction m as [|[k0 j] m IH]; simpl; intros ND; auto.
  inversion ND as [|? ? Hn ND']; subst.
  destruct (Nat.eqb_spec k0 k); auto. simpl. constructor; auto.
  intros H. apply Hn. apply in_map_iff in H. destruct H as [[a b] [E H]]. simpl in E; subst.
  apply del_in in H. apply in_map_iff. exists (k0, b). tauto.
Qed.

Lemma in_ids m id : In id (ids_of m) <-> exists n i, In (n, i) m /\ i_id i = id.
Proof.
  unfold ids_of. rewrite in_map_iff. split.
  - intros [[n i] [E H]]. exists n, i. auto.
  - intros [n [i [H E]]]. exists (n, i). auto.
Qed.

Lemma del_ids_nodup m k : NoDup (ids_of m) -> NoDup (ids_of (del m k)).
Proof.
  unfold ids_of. induction m as [|[k0 j] m IH]; simpl; intros ND; auto.
  inversion ND as [|? ? Hn ND']; subst.
  destruct (Nat.eqb_spec k0 k); auto. simpl. constructor; auto.
  intros H. apply Hn. apply in_map_iff in H. destruct H as [[a b] [E H]]. simpl in E.
  apply del_in in H. apply in_map_iff. exists (a, b). tauto.
Qed.

Lemma mem_in x l : mem x l = true <-> In x l.
Proof.
  unfold mem. rewrite existsb_exists. split.
  - intros [y [H E]]. apply Nat.eqb_eq in E. subst. exact H.
  - intros H. exists x. split; auto. apply Nat.eqb_refl.
Qed.

Lemma mem_false x l : mem x l = false <-> ~ In x l.
Proof. rewrite <- mem_in. destruct (mem x l); split; intros; congruence. Qed.

Lemma dirent_eqb_eq a b : dirent_eqb a b = true <-> a = b.
Proof.
  destruct a, b; simpl; split; intros H; try discriminate; try (apply Nat.eqb_eq in H; congruence);
    inversion H; apply Nat.eqb_refl.
Qed.

Lemma has_dir_in s d : has_dir s d = true <-> In d (dirs s).
Proof.
  unfold has_dir. rewrite existsb_exists. split.
  - intros [y [H E]]. apply dirent_eqb_eq in E. subst. exact H.
  - intros H. exists d. split; auto. apply dirent_eqb_eq. reflexivity.
Qed.

Lemma rm_dirent_in l d x : In x (rm_dirent l d) <-> In x l /\ x <> d.
Proof.
  unfold rm_dirent. rewrite filter_In. split; intros [H E]; split; auto.
  - intros ->. rewrite (proj2 (dirent_eqb_eq d d) eq_refl) in E. discriminate.
  - destruct (dirent_eqb d x) eqn:Q; auto. apply dirent_eqb_eq in Q. congruence.
Qed.

Lemma mounted_in s id : mounted s id = true <-> exists l, In (id, l) (mounts s).
Proof.
  unfold mounted. rewrite existsb_exists. split.
  - intros [[i l] [H E]]. simpl in E. apply Nat.eqb_eq in E. subst. eauto.
  - intros [l H]. exists (id, l). split; auto. simpl. apply Nat.eqb_refl.
Qed.

Lemma rm_mount_in l id x : In x (rm_mount l id) <-> In x l /\ fst x <> id.
Proof.
  unfold rm_mount. rewrite filter_In. split; intros [H E]; split; auto.
  - intros Q. rewrite Q, Nat.eqb_refl in E. discriminate.
  - destruct (Nat.eqb_spec (fst x) id); auto; contradiction.
Qed.

Lemma rm_mount_nodup l id : NoDup (map fst l) -> NoDup (map fst (rm_mount l id)).
Proof.
  unfold rm_mount. induction l as [|[i lb] l IH]; simpl; intros ND; auto.
  inversion ND as [|? ? Hn ND']; subst.
  destruct (Nat.eqb_spec i id); simpl; auto. constructor; auto.
  intros H. apply Hn. apply in_map_iff in H. destruct H as [x [E H]].
  apply filter_In in H. apply in_map_iff. exists x. tauto.
Qed.
