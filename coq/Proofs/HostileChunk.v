(* C04 — chunk selection (Model/HostileChunk.v): no index out of range, no endless search, for every chunk table. *)
From Coq Require Import List ZArith NArith Bool Lia.
From SV Require Import Model.Footer Model.HostileChunk Proofs.Footer.
Import ListNotations.
Local Open Scope Z_scope.

Lemma half_between i j : i < j -> i <= (i + j) / 2 < j.
Proof. intros H. split; [apply Z.div_le_lower_bound; lia|apply Z.div_lt_upper_bound; lia]. Qed.

(* sort.Search: with a predicate that does not panic on [0,n), the search ends and answers within [i,j] *)
Lemma search_loop_spec (f : Z -> option bool) (n : Z) :
  (forall h, 0 <= h < n -> f h <> None) ->
  forall fuel i j, 0 <= i -> i <= j -> j <= n -> (Z.to_nat (j - i) < fuel)%nat ->
  exists r, search_loop fuel f i j = Ok r /\ i <= r <= j.
Proof.
  intros Hf. induction fuel as [|k IH]; intros i j H0 Hij Hjn Hfuel; [lia|].
  simpl. destruct (i <? j) eqn:E; simpl.
  - apply Z.ltb_lt in E. pose proof (half_between i j E) as Hh.
    destruct (f ((i + j) / 2)) as [[|]|] eqn:Ef.
    + destruct (IH i ((i + j) / 2)) as [r [Er Hr]]; try lia. exists r. split; [exact Er|lia].
    + destruct (IH ((i + j) / 2 + 1) j) as [r [Er Hr]]; try lia. exists r. split; [exact Er|lia].
    + exfalso. apply (Hf ((i + j) / 2)); [lia|exact Ef].
  - apply Z.ltb_ge in E. exists i. split; [reflexivity|lia].
Qed.

Lemma sort_search_spec (f : Z -> option bool) (n : Z) :
  0 <= n -> (forall h, 0 <= h < n -> f h <> None) ->
  exists r, sort_search n f = Ok r /\ 0 <= r <= n.
Proof. intros Hn Hf. unfold sort_search. apply (search_loop_spec f n Hf); lia. Qed.

Lemma ix_pred_some {A} (ents : list A) (g : A -> bool) h :
  0 <= h < zlen ents -> (match ix ents h with None => None | Some e => Some (g e) end) <> None.
Proof. intros H. destruct (ix_some ents h) as [x E]; try lia. rewrite E. discriminate. Qed.

Lemma pick_total (ents : list chunk) i :
  0 <= i <= zlen ents ->
  total (if i =? zlen ents then Ok None else pbind (ix ents i) (fun e => Ok (Some e))).
Proof.
  intros H. destruct (i =? zlen ents) eqn:E; [auto with c04|]. apply Z.eqb_neq in E.
  apply pbind_total; [apply ix_some; lia|]. intros; auto with c04.
Qed.

Lemma db_chunk_entry_total ents off : total (db_chunk_entry ents off).
Proof.
  unfold db_chunk_entry.
  destruct (sort_search_spec (contains_or_after ents off) (zlen ents) (zlen_nonneg ents)) as [r [E Hr]].
  { intros h Hh. unfold contains_or_after. apply (ix_pred_some ents _ h Hh). }
  rewrite E. simpl. apply pick_total. exact Hr.
Qed.

Lemma esgz_chunk_entry_total first ents off : total (esgz_chunk_entry first ents off).
Proof.
  unfold esgz_chunk_entry. destruct (zlen ents <? 2); [auto with c04|].
  apply db_chunk_entry_total.
Qed.

Lemma esgz_read_select_total size ents off : ents <> [] -> total (esgz_read_select size ents off).
Proof.
  intros Hne. unfold esgz_read_select.
  assert (Hlen : 1 <= zlen ents) by (destruct ents; [congruence|unfold zlen; simpl; lia]).
  destruct (size <=? off); [auto with c04|]. destruct (off <? 0); [auto with c04|].
  assert (Hi : exists i, (if 1 <? zlen ents
         then obind (sort_search (zlen ents) (fun h => match ix ents h with None => None | Some e => Some (off <=? co e) end))
                    (fun i => Ok (if i =? zlen ents then zlen ents - 1 else i))
         else Ok 0) = Ok i /\ 0 <= i < zlen ents).
  { destruct (1 <? zlen ents) eqn:E.
    - destruct (sort_search_spec (fun h => match ix ents h with None => None | Some e => Some (off <=? co e) end) (zlen ents) (zlen_nonneg ents)) as [r [Er Hr]].
      { intros h Hh. apply (ix_pred_some ents _ h Hh). }
      rewrite Er. simpl. destruct (r =? zlen ents) eqn:E2.
      + eexists. split; [reflexivity|lia].
      + apply Z.eqb_neq in E2. eexists. split; [reflexivity|lia].
    - exists 0. split; [reflexivity|lia]. }
  destruct Hi as [i [Ei Hi]]. rewrite Ei. simpl.
  apply pbind_total; [apply ix_some; lia|]. intros ent _.
  destruct (off <? co ent); [|auto with c04].
  destruct (i =? 0) eqn:E0; [auto with c04|]. apply Z.eqb_neq in E0.
  apply pbind_total; [apply ix_some; lia|]. intros; auto with c04.
Qed.

Lemma db_read_select_total size ents off : total (db_read_select size ents off).
Proof.
  unfold db_read_select.
  destruct (size <=? off); [auto with c04|]. destruct (off <? 0); [auto with c04|].
  destruct ents as [|e1 [|e2 t]]; [auto with c04| |].
  - destruct (off <? co e1); auto with c04.
  - set (ents := e1 :: e2 :: t).
    destruct (sort_search_spec (fun h => match ix ents h with None => None | Some e => Some (off <? co e) end) (zlen ents) (zlen_nonneg ents)) as [r [Er Hr]].
    { intros h Hh. apply (ix_pred_some ents _ h Hh). }
    rewrite Er. simpl. destruct (r =? 0) eqn:E0; [auto with c04|]. apply Z.eqb_neq in E0.
    apply pbind_total; [apply ix_some; lia|]. intros; auto with c04.
Qed.
