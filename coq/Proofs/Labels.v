(* Proofs about Model/Labels.v (property C20). *)
From Coq Require Import List NArith ZArith Bool Arith Lia.
From SV Require Import Gen.Consts Model.Labels.
Import ListNotations.

(* ---------- boolean equalities ---------- *)
Lemma str_eqb_refl : forall a, str_eqb a a = true.
Proof. induction a as [|x a IH]; simpl; [reflexivity|]. rewrite N.eqb_refl. exact IH. Qed.

Lemma str_eqb_eq : forall a b, str_eqb a b = true <-> a = b.
Proof.
  induction a as [|x a IH]; destruct b as [|y b]; simpl; split; intro H; try reflexivity; try discriminate.
  - apply andb_true_iff in H. destruct H as [H1 H2]. apply N.eqb_eq in H1. apply IH in H2. subst. reflexivity.
  - inversion H; subst. rewrite N.eqb_refl. simpl. apply str_eqb_refl.
Qed.

Lemma str_eqb_sym : forall a b, str_eqb a b = str_eqb b a.
Proof.
  intros a b. destruct (str_eqb a b) eqn:E.
  - apply str_eqb_eq in E. subst. symmetry. apply str_eqb_refl.
  - destruct (str_eqb b a) eqn:E2; [|reflexivity]. apply str_eqb_eq in E2. subst. rewrite str_eqb_refl in E. discriminate.
Qed.

Lemma key_eqb_eq : forall a b, key_eqb a b = true <-> a = b.
Proof.
  intros a b. split.
  - destruct a, b; simpl; intro H; try reflexivity; try discriminate.
    + apply Nat.eqb_eq in H. subst. reflexivity.
    + apply str_eqb_eq in H. subst. reflexivity.
  - intro H. subst b. destruct a; simpl; try reflexivity.
    + apply Nat.eqb_refl.
    + apply str_eqb_refl.
Qed.

Lemma key_eqb_refl : forall a, key_eqb a a = true.
Proof. intro a. apply key_eqb_eq. reflexivity. Qed.

(* ---------- split / join ---------- *)
Definition nocomma (s : str) : Prop := ~ In comma s.

Lemma split_comma_nonnil : forall s, split_comma s <> [].
Proof.
  induction s as [|c t IH]; simpl; [discriminate|].
  destruct (N.eqb c comma); [discriminate|]. destruct (split_comma t); discriminate.
Qed.

Lemma split_nocomma : forall x, nocomma x -> split_comma x = [x].
Proof.
  induction x as [|c t IH]; intro H; simpl; [reflexivity|].
  destruct (N.eqb c comma) eqn:E.
  - apply N.eqb_eq in E. exfalso. apply H. left. exact E.
  - rewrite IH; [reflexivity|]. intro Hin. apply H. right. exact Hin.
Qed.

Lemma split_app_comma : forall x y, nocomma x -> split_comma (x ++ comma :: y) = x :: split_comma y.
Proof.
  induction x as [|c t IH]; intros y H; simpl.
  - reflexivity.
  - destruct (N.eqb c comma) eqn:E.
    + apply N.eqb_eq in E. exfalso. apply H. left. exact E.
    + rewrite IH; [reflexivity|]. intro Hin. apply H. right. exact Hin.
Qed.

Lemma split_join : forall xs, Forall nocomma xs -> xs <> [] -> split_comma (join_comma xs) = xs.
Proof.
  induction xs as [|x t IH]; intros HF Hne; [congruence|].
  inversion HF as [|? ? Hx Ht]; subst.
  destruct t as [|y t'].
  - simpl. apply split_nocomma. exact Hx.
  - change (join_comma (x :: y :: t')) with (x ++ comma :: join_comma (y :: t')).
    rewrite split_app_comma by exact Hx. rewrite IH; [reflexivity|exact Ht|discriminate].
Qed.

(* the literal Go form (append "u," for every element, TrimSuffix ",") is join_comma *)
Lemma trim_comma_snoc : forall v, trim_comma (v ++ [comma]) = v.
Proof.
  intro v. unfold trim_comma. rewrite rev_app_distr. simpl. rewrite rev_involutive. reflexivity.
Qed.

Lemma go_join_eq : forall l, go_join l = join_comma l.
Proof.
  intro l. unfold go_join. destruct l as [|x t]; [reflexivity|].
  assert (H : forall t x, concat (map (fun u => u ++ [comma]) (x :: t)) = join_comma (x :: t) ++ [comma]).
  { clear. induction t as [|y t IH]; intro x.
    - simpl. rewrite app_nil_r. reflexivity.
    - change (join_comma (x :: y :: t)) with (x ++ comma :: join_comma (y :: t)).
      change (concat (map (fun u => u ++ [comma]) (x :: y :: t)))
        with ((x ++ [comma]) ++ concat (map (fun u => u ++ [comma]) (y :: t))).
      rewrite IH. rewrite <- !app_assoc. reflexivity. }
  rewrite H. apply trim_comma_snoc.
Qed.

(* ---------- label maps ---------- *)
Lemma lget_app : forall a b k, lget (a ++ b) k = match lget a k with Some v => Some v | None => lget b k end.
Proof.
  induction a as [|[k' v'] a IH]; intros b k; simpl; [reflexivity|].
  destruct (key_eqb k' k); [reflexivity|apply IH].
Qed.

Lemma lget_In : forall l k v, lget l k = Some v -> In (k, v) l.
Proof.
  induction l as [|[k' v'] l IH]; intros k v H; simpl in *; [discriminate|].
  destruct (key_eqb k' k) eqn:E.
  - apply key_eqb_eq in E. inversion H; subst. left. reflexivity.
  - right. apply IH. exact H.
Qed.

Lemma lset_In : forall l k v k' v', In (k', v') (lset l k v) -> In (k', v') l \/ (k', v') = (k, v).
Proof.
  induction l as [|[k0 v0] l IH]; intros k v k' v' H; simpl in *.
  - destruct H as [H|[]]. right. symmetry. exact H.
  - destruct (key_eqb k0 k).
    + destruct H as [H|H]; [right; symmetry; exact H|left; right; exact H].
    + destruct H as [H|H]; [left; left; exact H|].
      destruct (IH _ _ _ _ H) as [H1|H1]; [left; right; exact H1|right; exact H1].
Qed.

Lemma lset_absent_In : forall l k v k' v', In (k', v') (lset_absent l k v) -> In (k', v') l \/ (k', v') = (k, v).
Proof.
  intros l k v k' v' H. unfold lset_absent in H. destruct (lget l k); [left; exact H|apply lset_In; exact H].
Qed.

Lemma lget_lset_same : forall l k v, lget (lset l k v) k = Some v.
Proof.
  induction l as [|[k0 v0] l IH]; intros k v; simpl.
  - rewrite key_eqb_refl. reflexivity.
  - destruct (key_eqb k0 k) eqn:E; simpl.
    + rewrite key_eqb_refl. reflexivity.
    + rewrite E. apply IH.
Qed.

Lemma lget_lset_other : forall l k v k', key_eqb k k' = false -> lget (lset l k v) k' = lget l k'.
Proof.
  induction l as [|[k0 v0] l IH]; intros k v k' H; simpl.
  - rewrite H. reflexivity.
  - destruct (key_eqb k0 k) eqn:E; simpl.
    + apply key_eqb_eq in E. subst k0. rewrite H. reflexivity.
    + destruct (key_eqb k0 k'); [reflexivity|apply IH; exact H].
Qed.

(* ---------- decimal integers ---------- *)
Lemma digits_val_app : forall a b acc,
  digits_val acc (a ++ b) = match digits_val acc a with Some v => digits_val v b | None => None end.
Proof.
  induction a as [|c a IH]; intros b acc; simpl; [reflexivity|].
  destruct ((48 <=? c)%N && (c <=? 57)%N); [apply IH|reflexivity].
Qed.

Lemma digit_char : forall r : N, (r < 10)%N ->
  forall a0, digits_val a0 [(48 + r)%N] = Some (a0 * 10 + Z.of_N r)%Z.
Proof.
  intros r Hr a0. cbn [digits_val].
  assert (H1 : ((48 <=? 48 + r) && (48 + r <=? 57))%N = true).
  { apply andb_true_iff. split; apply N.leb_le; lia. }
  rewrite H1. f_equal. lia.
Qed.

Lemma show_N_fuel_S : forall f n acc,
  show_N_fuel (S f) n acc =
  if (n <? 10)%N then (48 + n mod 10)%N :: acc else show_N_fuel f (n / 10) ((48 + n mod 10)%N :: acc).
Proof. reflexivity. Qed.

Lemma show_N_fuel_spec : forall f n acc, (n < 10 ^ N.of_nat (S f))%N ->
  exists ds, show_N_fuel (S f) n acc = ds ++ acc /\ ds <> [] /\ length ds <= S f /\
             forall a0, digits_val a0 ds = Some (a0 * 10 ^ Z.of_nat (length ds) + Z.of_N n)%Z.
Proof.
  induction f as [|f IH]; intros n acc Hn.
  - change (10 ^ N.of_nat 1)%N with 10%N in Hn.
    exists [(48 + n mod 10)%N]. rewrite show_N_fuel_S. apply N.ltb_lt in Hn. rewrite Hn. apply N.ltb_lt in Hn.
    split; [reflexivity|]. split; [discriminate|]. split; [simpl; lia|].
    intro a0. rewrite N.mod_small by exact Hn.
    rewrite digit_char by exact Hn. f_equal; simpl; lia.
  - rewrite show_N_fuel_S. destruct (n <? 10)%N eqn:E.
    + apply N.ltb_lt in E. exists [(48 + n mod 10)%N]. split; [reflexivity|]. split; [discriminate|].
      split; [simpl; lia|]. intro a0. rewrite N.mod_small by exact E.
      rewrite digit_char by exact E. f_equal; simpl; lia.
    + apply N.ltb_ge in E.
      assert (Hq : (n / 10 < 10 ^ N.of_nat (S f))%N).
      { apply N.div_lt_upper_bound; [lia|].
        replace (N.of_nat (S (S f))) with (N.succ (N.of_nat (S f))) in Hn by lia.
        rewrite N.pow_succ_r' in Hn. exact Hn. }
      destruct (IH (n / 10)%N ((48 + n mod 10)%N :: acc) Hq) as [ds [H1 [H2 [H3 H4]]]].
      exists (ds ++ [(48 + n mod 10)%N]). split.
      * rewrite H1. rewrite <- app_assoc. reflexivity.
      * split; [destruct ds; discriminate|]. split; [rewrite app_length; simpl; lia|].
        intro a0. rewrite digits_val_app. rewrite H4.
        assert (Hr : (n mod 10 < 10)%N) by (apply N.mod_lt; lia).
        rewrite digit_char by exact Hr. f_equal.
        rewrite app_length. simpl length.
        replace (Z.of_nat (length ds + 1)) with (Z.succ (Z.of_nat (length ds))) by lia.
        rewrite Z.pow_succ_r by lia.
        assert (Hn' : n = (10 * (n / 10) + n mod 10)%N) by (apply N.div_mod; lia).
        assert (HZ : Z.of_N n = (10 * Z.of_N (n / 10) + Z.of_N (n mod 10))%Z) by lia.
        rewrite HZ. ring.
Qed.

Lemma digits_val_head : forall a0 c t v, digits_val a0 (c :: t) = Some v -> (48 <= c /\ c <= 57)%N.
Proof.
  intros a0 c t v H. simpl in H. destruct ((48 <=? c)%N && (c <=? 57)%N) eqn:E; [|discriminate].
  apply andb_true_iff in E. destruct E as [E1 E2]. apply N.leb_le in E1. apply N.leb_le in E2. lia.
Qed.

Lemma show_N_spec : forall n, (n < 10 ^ 20)%N ->
  show_N n <> [] /\ length (show_N n) <= 20 /\ digits_val 0 (show_N n) = Some (Z.of_N n).
Proof.
  intros n Hn. unfold show_N.
  destruct (show_N_fuel_spec 19 n [] Hn) as [ds [H1 [H2 [H3 H4]]]].
  rewrite H1. rewrite app_nil_r. split; [exact H2|]. split; [exact H3|]. rewrite H4. f_equal.
Qed.

Definition in_int64 (z : Z) : Prop := (int64_min <= z <= int64_max)%Z.

Lemma parse_digits_unsigned : forall s v, s <> [] -> digits_val 0 s = Some v ->
  (int64_min <= v <= int64_max)%Z -> parse_int64 s = Some v.
Proof.
  intros s v Hne Hd Hr. destruct s as [|c t]; [congruence|].
  unfold parse_int64. pose proof (digits_val_head _ _ _ _ Hd) as Hc.
  assert (E1 : N.eqb c 45 = false) by (apply N.eqb_neq; lia).
  assert (E2 : N.eqb c 43 = false) by (apply N.eqb_neq; lia).
  rewrite E1, E2. rewrite Hd.
  assert (E3 : ((int64_min <=? v) && (v <=? int64_max))%Z = true).
  { apply andb_true_iff. split; apply Z.leb_le; lia. }
  rewrite E3. reflexivity.
Qed.

Lemma parse_show_Z : forall z, in_int64 z -> parse_int64 (show_Z z) = Some z.
Proof.
  intros z [Hlo Hhi]. unfold int64_min, int64_max in *. unfold show_Z.
  destruct (z <? 0)%Z eqn:E.
  - apply Z.ltb_lt in E.
    assert (Hn : (Z.to_N (- z) < 10 ^ 20)%N).
    { change (10 ^ 20)%N with 100000000000000000000%N. lia. }
    destruct (show_N_spec _ Hn) as [H1 [H2 H3]].
    unfold parse_int64. rewrite N.eqb_refl.
    destruct (show_N (Z.to_N (- z))) as [|c t] eqn:Es; [congruence|].
    rewrite H3.
    replace (- Z.of_N (Z.to_N (- z)))%Z with z by lia.
    assert (E3 : ((int64_min <=? z) && (z <=? int64_max))%Z = true).
    { apply andb_true_iff. unfold int64_min, int64_max. split; apply Z.leb_le; lia. }
    rewrite E3. reflexivity.
  - apply Z.ltb_ge in E.
    assert (Hn : (Z.to_N z < 10 ^ 20)%N).
    { change (10 ^ 20)%N with 100000000000000000000%N. lia. }
    destruct (show_N_spec _ Hn) as [H1 [H2 H3]].
    replace z with (Z.of_N (Z.to_N z)) at 2 by lia.
    apply parse_digits_unsigned; [exact H1|exact H3|unfold int64_min, int64_max; lia].
Qed.

Lemma show_Z_length : forall z, in_int64 z -> length (show_Z z) <= 21.
Proof.
  intros z [Hlo Hhi]. unfold int64_min, int64_max in *. unfold show_Z.
  destruct (z <? 0)%Z eqn:E.
  - apply Z.ltb_lt in E.
    assert (Hn : (Z.to_N (- z) < 10 ^ 20)%N).
    { change (10 ^ 20)%N with 100000000000000000000%N. lia. }
    destruct (show_N_spec _ Hn) as [H1 [H2 H3]]. simpl. lia.
  - apply Z.ltb_ge in E.
    assert (Hn : (Z.to_N z < 10 ^ 20)%N).
    { change (10 ^ 20)%N with 100000000000000000000%N. lia. }
    destruct (show_N_spec _ Hn) as [H1 [H2 H3]]. lia.
Qed.

(* ---------- digests ---------- *)
Lemma strip_prefix_app : forall p s e, strip_prefix p s = Some e -> s = p ++ e.
Proof.
  induction p as [|x p IH]; intros s e H; simpl in H.
  - inversion H. reflexivity.
  - destruct s as [|y s]; [discriminate|]. destruct (N.eqb x y) eqn:E; [|discriminate].
    apply N.eqb_eq in E. subst y. simpl. f_equal. apply IH. exact H.
Qed.

Lemma lhex_nocomma : forall e, forallb is_lhex e = true -> nocomma e.
Proof.
  induction e as [|c e IH]; intros H Hin; simpl in *; [exact Hin|].
  apply andb_true_iff in H. destruct H as [H1 H2]. destruct Hin as [Hc|Hin]; [|exact (IH H2 Hin)].
  subst c. vm_compute in H1. discriminate.
Qed.

Lemma digest_valid_props : forall d, digest_valid d = true -> nocomma d /\ d <> [] /\ length d <= 135.
Proof.
  intros d H. unfold digest_valid in H.
  assert (G : forall p n e, ~ In comma p -> p <> [] -> length p = 7 -> n <= 128 ->
              strip_prefix p d = Some e -> hex_of_len n e = true -> nocomma d /\ d <> [] /\ length d <= 135).
  { intros p n e Hp Hne Hl Hn Hs Hh. apply strip_prefix_app in Hs. subst d.
    unfold hex_of_len in Hh. apply andb_true_iff in Hh. destruct Hh as [Hh1 Hh2]. apply Nat.eqb_eq in Hh1.
    split; [|split].
    - intro Hin. apply in_app_or in Hin. destruct Hin as [Hin|Hin]; [exact (Hp Hin)|exact (lhex_nocomma e Hh2 Hin)].
    - destruct p; [congruence|discriminate].
    - rewrite app_length. lia. }
  destruct (strip_prefix sha256_pfx d) as [e|] eqn:E1.
  { apply (G sha256_pfx 64 e); [unfold comma; simpl; intuition discriminate|discriminate|reflexivity|lia|exact E1|exact H]. }
  destruct (strip_prefix sha384_pfx d) as [e|] eqn:E2.
  { apply (G sha384_pfx 96 e); [unfold comma; simpl; intuition discriminate|discriminate|reflexivity|lia|exact E2|exact H]. }
  destruct (strip_prefix sha512_pfx d) as [e|] eqn:E3; [|discriminate].
  apply (G sha512_pfx 128 e); [unfold comma; simpl; intuition discriminate|discriminate|reflexivity|lia|exact E3|exact H].
Qed.

(* ---------- size-limited appends ---------- *)
Lemma join_length_le : forall l, length (join_comma l) <= fold_right (fun u a => S (length u) + a) 0 l.
Proof.
  induction l as [|x t IH]; [simpl; lia|].
  destruct t as [|y t'].
  - simpl. lia.
  - change (join_comma (x :: y :: t')) with (x ++ comma :: join_comma (y :: t')).
    rewrite app_length. cbn [length].
    change (fold_right (fun u a => S (length u) + a) 0 (x :: y :: t'))
      with (S (length x) + fold_right (fun u a => S (length u) + a) 0 (y :: t')).
    lia.
Qed.

Lemma take_fit_sum : forall items b, fold_right (fun u a => S (length u) + a) 0 (take_fit b items) <= b.
Proof.
  induction items as [|u t IH]; intro b; cbn [take_fit fold_right]; [lia|].
  destruct (S (length u) <=? b) eqn:E; cbn [fold_right]; [|lia].
  apply Nat.leb_le in E. specialize (IH (b - S (length u))). lia.
Qed.

Lemma take_fit_prefix : forall items b, exists rest, items = take_fit b items ++ rest.
Proof.
  induction items as [|u t IH]; intro b; cbn [take_fit].
  - exists []. reflexivity.
  - destruct (S (length u) <=? b).
    + destruct (IH (b - S (length u))) as [r Hr]. exists r. simpl. f_equal. exact Hr.
    + exists (u :: t). reflexivity.
Qed.

Lemma take_fit_all : forall items b,
  fold_right (fun u a => S (length u) + a) 0 items <= b -> take_fit b items = items.
Proof.
  induction items as [|u t IH]; intros b H; cbn [take_fit fold_right] in *; [reflexivity|].
  assert (E : S (length u) <=? b = true) by (apply Nat.leb_le; lia).
  rewrite E. f_equal. apply IH. lia.
Qed.

Lemma urls_value_valid : forall k us, key_len k <= max_label -> validate k (urls_value k us) = true.
Proof.
  intros k us Hk. unfold validate, urls_value. apply Nat.leb_le.
  pose proof (join_length_le (take_fit (budget k) us)) as H1.
  pose proof (take_fit_sum us (budget k)) as H2. unfold budget in *. lia.
Qed.

(* the layers scan *)
Lemma scan_sum : forall cs b j,
  fold_right (fun u a => S (length u) + a) 0 (map (fun jc => c_digest (snd jc)) (scan_layers b j cs)) <= b.
Proof.
  induction cs as [|c t IH]; intros b j; cbn [scan_layers map fold_right]; [lia|].
  destruct (c_layer c).
  - destruct (S (length (c_digest c)) <=? b) eqn:E; cbn [map fold_right snd]; [|lia].
    apply Nat.leb_le in E. specialize (IH (b - S (length (c_digest c))) (S j)). lia.
  - apply IH.
Qed.

Lemma scan_idx_ge : forall cs b j p, In p (scan_layers b j cs) -> j <= fst p.
Proof.
  induction cs as [|c t IH]; intros b j p H; cbn [scan_layers] in H; [contradiction|].
  destruct (c_layer c).
  - destruct (S (length (c_digest c)) <=? b); [|contradiction].
    destruct H as [H|H]; [subst p; simpl; lia|]. apply IH in H. lia.
  - apply IH in H. lia.
Qed.

Lemma scan_idx_nodup : forall cs b j, NoDup (map fst (scan_layers b j cs)).
Proof.
  induction cs as [|c t IH]; intros b j; cbn [scan_layers]; [constructor|].
  destruct (c_layer c); [|apply IH].
  destruct (S (length (c_digest c)) <=? b); [|constructor].
  cbn [map fst]. constructor; [|apply IH].
  intro Hin. apply in_map_iff in Hin. destruct Hin as [p [Hp1 Hp2]]. apply scan_idx_ge in Hp2. lia.
Qed.

(* own index: every scanned entry sits in children[i:] at the index it is numbered with, and is a layer *)
Lemma scan_own_index : forall cs b j p, In p (scan_layers b j cs) ->
  nth_error cs (fst p - j) = Some (snd p) /\ c_layer (snd p) = true.
Proof.
  induction cs as [|c t IH]; intros b j p H; cbn [scan_layers] in H; [contradiction|].
  destruct (c_layer c) eqn:El.
  - destruct (S (length (c_digest c)) <=? b); [|contradiction].
    destruct H as [H|H].
    + subst p. simpl. rewrite Nat.sub_diag. simpl. split; [reflexivity|exact El].
    + pose proof (scan_idx_ge _ _ _ _ H) as Hge. destruct (IH _ _ _ H) as [H1 H2]. split; [|exact H2].
      replace (fst p - j) with (S (fst p - S j)) by lia. simpl. exact H1.
  - pose proof (scan_idx_ge _ _ _ _ H) as Hge. destruct (IH _ _ _ H) as [H1 H2]. split; [|exact H2].
    replace (fst p - j) with (S (fst p - S j)) by lia. simpl. exact H1.
Qed.

(* when every child is layer-typed the scan is a prefix, numbered consecutively *)
Lemma scan_all_layers : forall cs b j, Forall (fun c => c_layer c = true) cs ->
  exists n, map snd (scan_layers b j cs) = firstn n cs /\ map fst (scan_layers b j cs) = seq j n.
Proof.
  induction cs as [|c t IH]; intros b j HF; cbn [scan_layers].
  - exists 0. split; reflexivity.
  - inversion HF as [|? ? Hc Ht]; subst. rewrite Hc.
    destruct (S (length (c_digest c)) <=? b).
    + destruct (IH (b - S (length (c_digest c))) (S j) Ht) as [n [H1 H2]].
      exists (S n). simpl. rewrite H1, H2. split; reflexivity.
    + exists 0. split; reflexivity.
Qed.

(* the prefix is maximal: the scan either covers every layer or stops at a layer whose digest does not fit *)
Lemma scan_maximal : forall cs b j, Forall (fun c => c_layer c = true) cs ->
  map snd (scan_layers b j cs) = cs \/
  exists n c, map snd (scan_layers b j cs) = firstn n cs /\ nth_error cs n = Some c /\
              b < fold_right (fun u a => S (length u) + a) 0 (map c_digest (firstn n cs)) + S (length (c_digest c)).
Proof.
  induction cs as [|c t IH]; intros b j HF; cbn [scan_layers].
  - left. reflexivity.
  - inversion HF as [|? ? Hc Ht]; subst. rewrite Hc.
    destruct (S (length (c_digest c)) <=? b) eqn:E.
    + apply Nat.leb_le in E.
      destruct (IH (b - S (length (c_digest c))) (S j) Ht) as [H|[n [c' [H1 [H2 H3]]]]].
      * left. cbn [map snd]. f_equal. exact H.
      * right. exists (S n), c'. cbn [map snd firstn nth_error fold_right].
        split; [f_equal; exact H1|]. split; [exact H2|]. lia.
    + apply Nat.leb_gt in E. right. exists 0, c. cbn [map snd firstn nth_error fold_right].
      split; [reflexivity|]. split; [reflexivity|]. lia.
Qed.

(* ---------- the default writer's map ---------- *)
Definition urlmap (taken : list (nat * child)) : labels :=
  map (fun jc => (KUrlsIdx (fst jc), urls_value (KUrlsIdx (fst jc)) (c_urls (snd jc)))) taken.

Definition taken_of (suffix : list child) : list (nat * child) := scan_layers (budget KLayers) 0 suffix.

Lemma default_ann_eq : forall ref pf c rest,
  default_ann ref pf (c :: rest) =
  [(KRef, ref); (KDigest, c_digest c)] ++ urlmap (taken_of (c :: rest))
    ++ [(KLayers, join_comma (map (fun jc => c_digest (snd jc)) (taken_of (c :: rest))));
        (KPrefetch, show_Z pf); (KUrls, urls_value KUrls (c_urls c))].
Proof. reflexivity. Qed.

Lemma lget_urlmap_none : forall t k, (forall i, key_eqb (KUrlsIdx i) k = false) -> lget (urlmap t) k = None.
Proof.
  induction t as [|p t IH]; intros k H; [reflexivity|].
  unfold urlmap. cbn [map lget fst]. rewrite H. apply IH. exact H.
Qed.

Lemma lget_urlmap_in : forall t p, NoDup (map fst t) -> In p t ->
  lget (urlmap t) (KUrlsIdx (fst p)) = Some (urls_value (KUrlsIdx (fst p)) (c_urls (snd p))).
Proof.
  induction t as [|q t IH]; intros p Hnd Hin; [contradiction|].
  unfold urlmap. cbn [map lget fst]. inversion Hnd as [|? ? Hq Ht]; subst.
  destruct Hin as [Hin|Hin].
  - subst q. cbn [key_eqb]. rewrite Nat.eqb_refl. reflexivity.
  - cbn [key_eqb]. destruct (Nat.eqb (fst q) (fst p)) eqn:E.
    + apply Nat.eqb_eq in E. exfalso. apply Hq. rewrite E. apply in_map. exact Hin.
    + apply IH; assumption.
Qed.

Lemma lget_default_ref : forall ref pf c rest, lget (default_ann ref pf (c :: rest)) KRef = Some ref.
Proof. reflexivity. Qed.

Lemma lget_default_digest : forall ref pf c rest, lget (default_ann ref pf (c :: rest)) KDigest = Some (c_digest c).
Proof. reflexivity. Qed.

Lemma lget_default_layers : forall ref pf c rest,
  lget (default_ann ref pf (c :: rest)) KLayers
  = Some (join_comma (map (fun jc => c_digest (snd jc)) (taken_of (c :: rest)))).
Proof.
  intros. rewrite default_ann_eq. rewrite lget_app. cbn [lget key_eqb].
  rewrite lget_app. rewrite lget_urlmap_none by reflexivity. reflexivity.
Qed.

Lemma lget_default_prefetch : forall ref pf c rest,
  lget (default_ann ref pf (c :: rest)) KPrefetch = Some (show_Z pf).
Proof.
  intros. rewrite default_ann_eq. rewrite lget_app. cbn [lget key_eqb].
  rewrite lget_app. rewrite lget_urlmap_none by reflexivity. reflexivity.
Qed.

Lemma lget_default_urls : forall ref pf c rest,
  lget (default_ann ref pf (c :: rest)) KUrls = Some (urls_value KUrls (c_urls c)).
Proof.
  intros. rewrite default_ann_eq. rewrite lget_app. cbn [lget key_eqb].
  rewrite lget_app. rewrite lget_urlmap_none by reflexivity. reflexivity.
Qed.

Lemma lget_default_urlsidx : forall ref pf c rest p, In p (taken_of (c :: rest)) ->
  lget (default_ann ref pf (c :: rest)) (KUrlsIdx (fst p)) = Some (urls_value (KUrlsIdx (fst p)) (c_urls (snd p))).
Proof.
  intros ref pf c rest p Hin. rewrite default_ann_eq. rewrite lget_app. cbn [lget key_eqb].
  rewrite lget_app. rewrite (lget_urlmap_in _ p); [reflexivity| |exact Hin].
  unfold taken_of. apply scan_idx_nodup.
Qed.

(* ---------- every label the default handler writes is accepted by containerd ---------- *)
Lemma dec_digits_fuel_bound : forall f k n, 1 <= k -> n < 10 ^ k -> dec_digits_fuel f n <= k.
Proof.
  induction f as [|f IH]; intros k n Hk Hn; cbn [dec_digits_fuel]; [exact Hk|].
  destruct (n <? 10) eqn:E; [exact Hk|]. apply Nat.ltb_ge in E.
  destruct k as [|k]; [lia|].
  destruct k as [|k]; [simpl in Hn; lia|].
  assert (Hq : n / 10 < 10 ^ S k).
  { apply Nat.div_lt_upper_bound; [lia|]. rewrite Nat.pow_succ_r' in Hn. exact Hn. }
  specialize (IH (S k) (n / 10)). lia.
Qed.

Lemma key_len_urlsidx : forall j, j < 10 ^ 18 -> key_len (KUrlsIdx j) <= 100.
Proof.
  intros j Hj. cbn [key_len]. unfold dec_digits.
  pose proof (dec_digits_fuel_bound j 18 j) as H.
  assert (Hc : length c20_lbl_urls_prefix <= 80) by (vm_compute; lia).
  lia.
Qed.

Lemma key_len_fixed : forall k, match k with KUrlsIdx _ | KOther _ => True | _ => key_len k <= 100 end.
Proof. destruct k; try exact I; vm_compute; lia. Qed.

Lemma default_labels_valid : forall ref pf c rest k v,
  validate KRef ref = true -> validate KDigest (c_digest c) = true -> in_int64 pf ->
  length (c :: rest) < 10 ^ 18 ->
  In (k, v) (default_ann ref pf (c :: rest)) -> validate k v = true.
Proof.
  intros ref pf c rest k v Href Hdg Hpf Hlen Hin. rewrite default_ann_eq in Hin.
  apply in_app_or in Hin. destruct Hin as [Hin|Hin].
  { destruct Hin as [Hin|[Hin|[]]]; inversion Hin; subst; assumption. }
  apply in_app_or in Hin. destruct Hin as [Hin|Hin].
  { unfold urlmap in Hin. apply in_map_iff in Hin. destruct Hin as [p [Hp Hpin]]. inversion Hp; subst.
    apply urls_value_valid.
    unfold taken_of in Hpin. destruct (scan_own_index _ _ _ _ Hpin) as [Hn _].
    rewrite Nat.sub_0_r in Hn.
    assert (Hlt : fst p < length (c :: rest)) by (apply nth_error_Some; congruence).
    pose proof (key_len_urlsidx (fst p)) as Hk. unfold max_label. lia. }
  destruct Hin as [Hin|[Hin|[Hin|[]]]]; inversion Hin; subst.
  - unfold validate. apply Nat.leb_le.
    pose proof (join_length_le (map (fun jc => c_digest (snd jc)) (taken_of (c :: rest)))) as H1.
    pose proof (scan_sum (c :: rest) (budget KLayers) 0) as H2. unfold taken_of in H1.
    pose proof (key_len_fixed KLayers) as H3. cbn beta iota in H3.
    unfold taken_of, budget, max_label in *. lia.
  - unfold validate. apply Nat.leb_le. pose proof (show_Z_length pf Hpf) as H1.
    pose proof (key_len_fixed KPrefetch) as H3. cbn beta iota in H3. unfold max_label. lia.
  - apply urls_value_valid. pose proof (key_len_fixed KUrls) as H3. cbn beta iota in H3. unfold max_label. lia.
Qed.

(* ---------- reader over the default writer's map ---------- *)
Definition wire (k : key) (us : list str) : list str := split_comma (urls_value k us).

Lemma read_neigh_ok : forall l target t i,
  (forall p, In p t -> lget l (KUrlsIdx (fst p)) = Some (urls_value (KUrlsIdx (fst p)) (c_urls (snd p)))) ->
  map fst t = seq i (length t) ->
  Forall (fun p => digest_valid (c_digest (snd p)) = true) t ->
  read_neigh l target i (map (fun jc => c_digest (snd jc)) t)
  = Some (map (fun jc => (c_digest (snd jc), wire (KUrlsIdx (fst jc)) (c_urls (snd jc))))
              (filter (fun jc => negb (str_eqb (c_digest (snd jc)) target)) t)).
Proof.
  intros l target t. induction t as [|p t IH]; intros i Hl Hs Hv; [reflexivity|].
  cbn [map read_neigh]. inversion Hv as [|? ? Hp Ht]; subst. rewrite Hp.
  cbn [length seq map] in Hs. inversion Hs as [[Hi Hs']].
  rewrite (IH (S (fst p))); [|intros q Hq; apply Hl; right; exact Hq|exact Hs'|exact Ht].
  cbn [filter]. destruct (str_eqb (c_digest (snd p)) target) eqn:E; cbn [negb]; [reflexivity|].
  cbn [map]. unfold urls_of. rewrite (Hl p) by (left; reflexivity).
  unfold wire. reflexivity.
Qed.

Lemma budget_layers_fits : forall d : str, length d <= 135 -> S (length d) <=? budget KLayers = true.
Proof.
  intros d H. apply Nat.leb_le. pose proof (key_len_fixed KLayers) as H3. cbn beta iota in H3.
  unfold budget, max_label. lia.
Qed.

Lemma roundtrip_default : forall (parse_ref : str -> option str) ref R pf c rest,
  parse_ref ref = Some R ->
  c_layer c = true -> digest_valid (c_digest c) = true ->
  Forall (fun x => c_layer x = true) rest ->
  Forall (fun x => digest_valid (c_digest x) = true) rest ->
  read_default parse_ref (default_ann ref pf (c :: rest))
  = ROk R (c_digest c) (wire KUrls (c_urls c))
        (map (fun jc => (c_digest (snd jc), wire (KUrlsIdx (fst jc)) (c_urls (snd jc))))
             (filter (fun jc => negb (str_eqb (c_digest (snd jc)) (c_digest c))) (taken_of (c :: rest)))).
Proof.
  intros parse_ref ref R pf c rest Href Hc Hdc Hl Hd.
  unfold read_default, read_with.
  rewrite lget_default_ref, Href, lget_default_digest, Hdc, lget_default_layers.
  assert (HF : Forall (fun x => c_layer x = true) (c :: rest)) by (constructor; assumption).
  destruct (scan_all_layers (c :: rest) (budget KLayers) 0 HF) as [n [Hsnd Hfst]].
  fold (taken_of (c :: rest)) in Hsnd, Hfst.
  assert (Hvalid : Forall (fun p => digest_valid (c_digest (snd p)) = true) (taken_of (c :: rest))).
  { assert (Hall : Forall (fun x => digest_valid (c_digest x) = true) (map snd (taken_of (c :: rest)))).
    { rewrite Hsnd. apply Forall_forall. intros x Hx.
      assert (HA : Forall (fun x => digest_valid (c_digest x) = true) (c :: rest)) by (constructor; assumption).
      rewrite Forall_forall in HA. apply HA. rewrite <- (firstn_skipn n (c :: rest)).
      apply in_or_app. left. exact Hx. }
    rewrite Forall_forall in *. intros p Hp. apply Hall. apply in_map. exact Hp. }
  assert (Hne : taken_of (c :: rest) <> []).
  { unfold taken_of. cbn [scan_layers]. rewrite Hc.
    destruct (digest_valid_props _ Hdc) as [_ [_ Hlen]]. rewrite (budget_layers_fits _ Hlen). discriminate. }
  rewrite split_join.
  - rewrite (read_neigh_ok _ _ (taken_of (c :: rest)) 0).
    + unfold urls_of. rewrite lget_default_urls. reflexivity.
    + intros p Hp. apply lget_default_urlsidx. exact Hp.
    + rewrite Hfst. f_equal. rewrite <- (map_length fst). rewrite Hfst. rewrite seq_length. reflexivity.
    + exact Hvalid.
  - rewrite Forall_forall in *. intros d Hd'. apply in_map_iff in Hd'. destruct Hd' as [p [Hp1 Hp2]]. subst d.
    destruct (digest_valid_props _ (Hvalid p Hp2)) as [Hnc _]. exact Hnc.
  - destruct (taken_of (c :: rest)); [congruence|discriminate].
Qed.

(* prefetch size *)
Lemma prefetch_roundtrip_default : forall ref pf c rest dflt, in_int64 pf ->
  prefetch_of (default_ann ref pf (c :: rest)) dflt = pf.
Proof.
  intros. unfold prefetch_of. rewrite lget_default_prefetch. rewrite parse_show_Z by assumption. reflexivity.
Qed.

(* ---------- URL lists on the wire ---------- *)
Definition total_len (us : list str) : nat := fold_right (fun u a => S (length u) + a) 0 us.

Lemma wire_fits : forall k us, us <> [] -> Forall nocomma us -> total_len us <= budget k -> wire k us = us.
Proof.
  intros k us Hne Hnc Hfit. unfold wire, urls_value. rewrite take_fit_all by exact Hfit.
  apply split_join; assumption.
Qed.

Lemma wire_prefix : forall k us, Forall nocomma us -> take_fit (budget k) us <> [] ->
  wire k us = take_fit (budget k) us /\ exists rest, us = take_fit (budget k) us ++ rest.
Proof.
  intros k us Hnc Hne. split; [|apply take_fit_prefix].
  unfold wire, urls_value. apply split_join; [|exact Hne].
  destruct (take_fit_prefix us (budget k)) as [r Hr]. rewrite Hr in Hnc.
  apply Forall_app in Hnc. destruct Hnc as [H _]. exact H.
Qed.

Lemma wire_empty : forall k, wire k [] = [[]].
Proof. reflexivity. Qed.

(* ---------- reader: accepted sources come from well-formed mandatory labels ---------- *)
Definition neigh_spec (l : labels) (target : str) (i : nat) (ds : list str) : list (str * list str) :=
  map (fun jd => (snd jd, urls_of l (KUrlsIdx (fst jd))))
      (filter (fun jd => negb (str_eqb (snd jd) target)) (combine (seq i (length ds)) ds)).

Lemma read_neigh_spec : forall l target ds i n, read_neigh l target i ds = Some n ->
  forallb digest_valid ds = true /\ n = neigh_spec l target i ds.
Proof.
  intros l target. induction ds as [|d t IH]; intros i n H; cbn [read_neigh] in H.
  - inversion H. split; reflexivity.
  - destruct (digest_valid d) eqn:Ed; [|discriminate].
    destruct (read_neigh l target (S i) t) as [r|] eqn:Er; [|discriminate].
    destruct (IH _ _ Er) as [H1 H2]. inversion H; subst. split.
    + cbn [forallb]. rewrite Ed, H1. reflexivity.
    + unfold neigh_spec. cbn [length seq combine filter snd fst].
      destruct (str_eqb d target); cbn [negb map snd fst]; reflexivity.
Qed.

Lemma read_neigh_invalid : forall l target ds i, forallb digest_valid ds = false -> read_neigh l target i ds = None.
Proof.
  intros l target. induction ds as [|d t IH]; intros i H; cbn [forallb] in H; [discriminate|].
  cbn [read_neigh]. destruct (digest_valid d); [|reflexivity].
  cbn [andb] in H. rewrite (IH (S i) H). reflexivity.
Qed.

Lemma read_with_sound : forall kref kdg klayers (parse_ref : str -> option str) l r d u n,
  read_with kref kdg klayers parse_ref l = ROk r d u n ->
  (exists rs, lget l kref = Some rs /\ parse_ref rs = Some r)
  /\ lget l kdg = Some d /\ digest_valid d = true
  /\ u = urls_of l KUrls
  /\ match lget l klayers with
     | None => n = []
     | Some v => forallb digest_valid (split_comma v) = true /\ n = neigh_spec l d 0 (split_comma v)
     end.
Proof.
  intros kref kdg klayers parse_ref l r d u n H. unfold read_with in H.
  destruct (lget l kref) as [rs|] eqn:E1; [|discriminate].
  destruct (parse_ref rs) as [r'|] eqn:E2; [|discriminate].
  destruct (lget l kdg) as [d'|] eqn:E3; [|discriminate].
  destruct (digest_valid d') eqn:E4; [|discriminate].
  destruct (lget l klayers) as [v|] eqn:E5.
  - destruct (read_neigh l d' 0 (split_comma v)) as [ns|] eqn:E6; [|discriminate].
    inversion H; subst. apply read_neigh_spec in E6.
    split; [exists rs; split; [reflexivity|exact E2]|]. split; [reflexivity|]. split; [exact E4|]. split; [reflexivity|exact E6].
  - inversion H; subst.
    split; [exists rs; split; [reflexivity|exact E2]|]. split; [reflexivity|]. split; [exact E4|]. split; reflexivity.
Qed.

Lemma read_with_rejects : forall kref kdg klayers (parse_ref : str -> option str) l,
  (lget l kref = None
   \/ (exists rs, lget l kref = Some rs /\ parse_ref rs = None)
   \/ lget l kdg = None
   \/ (exists d, lget l kdg = Some d /\ digest_valid d = false)
   \/ (exists v, lget l klayers = Some v /\ forallb digest_valid (split_comma v) = false)) ->
  read_with kref kdg klayers parse_ref l = RErr.
Proof.
  intros kref kdg klayers parse_ref l H. unfold read_with.
  destruct (lget l kref) as [rs|] eqn:E1; [|reflexivity].
  destruct (parse_ref rs) as [r'|] eqn:E2; [|reflexivity].
  destruct (lget l kdg) as [d'|] eqn:E3; [|reflexivity].
  destruct (digest_valid d') eqn:E4; [|reflexivity].
  destruct H as [H|[[rs' [H1 H2]]|[H|[[d [H1 H2]]|[v [H1 H2]]]]]]; try discriminate.
  - inversion H1; subst. congruence.
  - inversion H1; subst. congruence.
  - rewrite H1. rewrite read_neigh_invalid by exact H2. reflexivity.
Qed.

Lemma read_service_cases : forall (parse_ref : str -> option str) l r d u n,
  read_service parse_ref l = ROk r d u n ->
  read_cri parse_ref l = ROk r d u n \/ (read_cri parse_ref l = RErr /\ read_default parse_ref l = ROk r d u n).
Proof.
  intros parse_ref l r d u n H. unfold read_service in H.
  destruct (read_cri parse_ref l) eqn:E; [right; split; [reflexivity|exact H]|left; exact H].
Qed.

(* what Mount pre-resolves is exactly the reconstructed neighbour list *)
Lemma neigh_spec_not_target : forall l target ds i,
  Forall (fun p => str_eqb (fst p) target = false) (neigh_spec l target i ds).
Proof.
  intros l target ds i. unfold neigh_spec. apply Forall_forall. intros p Hp.
  apply in_map_iff in Hp. destruct Hp as [jd [H1 H2]]. apply filter_In in H2. destruct H2 as [_ H2].
  subst p. cbn [fst]. destruct (str_eqb (snd jd) target); [discriminate|reflexivity].
Qed.

Lemma filter_keep_all : forall {A} (f : A -> bool) l, Forall (fun x => f x = true) l -> filter f l = l.
Proof.
  intros A f. induction l as [|x t IH]; intro H; [reflexivity|].
  inversion H; subst. cbn [filter]. rewrite H2. f_equal. apply IH. assumption.
Qed.

Lemma mount_neigh_read : forall kref kdg klayers (parse_ref : str -> option str) l r d u n,
  read_with kref kdg klayers parse_ref l = ROk r d u n -> mount_neigh (ROk r d u n) = n.
Proof.
  intros kref kdg klayers parse_ref l r d u n H. apply read_with_sound in H.
  destruct H as [_ [_ [_ [_ H]]]]. unfold mount_neigh. cbn [filter fst]. rewrite str_eqb_refl. cbn [negb].
  apply filter_keep_all.
  destruct (lget l klayers) as [v|].
  - destruct H as [_ H]. subst n. pose proof (neigh_spec_not_target l d (split_comma v) 0) as HF.
    rewrite Forall_forall in *. intros x Hx. rewrite (HF x Hx). reflexivity.
  - subst n. constructor.
Qed.

(* ---------- the extra handler ---------- *)
Definition valid_or_old (l0 : labels) (kv : key * str) : Prop := In kv l0 \/ validate (fst kv) (snd kv) = true.

Lemma split_comma_length : forall s, length (split_comma s) <= S (length s).
Proof.
  induction s as [|c t IH]; cbn [split_comma length]; [lia|].
  destruct (N.eqb c comma); cbn [length]; [lia|].
  destruct (split_comma t) as [|h r]; cbn [length] in *; lia.
Qed.

Lemma extra_urls_valid : forall children l0 ds j acc l,
  extra_urls children j ds acc = Some l ->
  j + length ds < 10 ^ 18 ->
  (forall kv, In kv acc -> valid_or_old l0 kv) ->
  forall kv, In kv l -> valid_or_old l0 kv.
Proof.
  intros children l0. induction ds as [|d t IH]; intros j acc l H Hj Hacc kv Hin; cbn [extra_urls] in H.
  - inversion H; subst. apply Hacc. exact Hin.
  - destruct (digest_valid d); [|discriminate]. cbn [length] in Hj.
    apply (IH _ _ _ H); [lia| |exact Hin].
    intros kv' Hin'. destruct (layer_from_digest children d) as [ch|]; [|apply Hacc; exact Hin'].
    destruct (c_layer ch); [|apply Hacc; exact Hin'].
    destruct kv' as [k' v']. apply lset_absent_In in Hin'. destruct Hin' as [Hin'|Hin']; [apply Hacc; exact Hin'|].
    inversion Hin'; subst. right. cbn [fst snd]. apply urls_value_valid.
    pose proof (key_len_urlsidx j) as Hk. unfold max_label. lia.
Qed.

Lemma pow10_18_big : 5000 < 10 ^ 18.
Proof.
  apply Nat.lt_le_trans with (10 ^ 4); [vm_compute; lia|]. apply Nat.pow_le_mono_r; lia.
Qed.

Lemma extra_over_valid : forall l0 children pf c l,
  extra_over l0 children pf c = Some l -> in_int64 pf ->
  (forall nl, lget l0 KCriLayers = Some nl -> validate KCriLayers nl = true) ->
  forall k v, In (k, v) l -> In (k, v) l0 \/ validate k v = true.
Proof.
  intros l0 children pf c l H Hpf Hnl k v Hin. unfold extra_over in H.
  set (l1 := lset_absent l0 KUrls (urls_value KUrls (c_urls c))) in *.
  set (l2 := lset_absent l1 KPrefetch (show_Z pf)) in *.
  assert (H2 : forall kv, In kv l2 -> valid_or_old l0 kv).
  { intros [k' v'] Hin'. unfold l2 in Hin'. apply lset_absent_In in Hin'. destruct Hin' as [Hin'|Hin'].
    - unfold l1 in Hin'. apply lset_absent_In in Hin'. destruct Hin' as [Hin'|Hin']; [left; exact Hin'|].
      inversion Hin'; subst. right. cbn [fst snd]. apply urls_value_valid.
      pose proof (key_len_fixed KUrls) as H3. cbn beta iota in H3. unfold max_label. lia.
    - inversion Hin'; subst. right. cbn [fst snd]. unfold validate. apply Nat.leb_le.
      pose proof (show_Z_length pf Hpf) as H1.
      pose proof (key_len_fixed KPrefetch) as H3. cbn beta iota in H3. unfold max_label. lia. }
  destruct (lget l2 KCriLayers) as [nl|] eqn:E.
  - apply (extra_urls_valid children l0 _ _ _ _ H); [|exact H2|exact Hin].
    assert (Hlen : length nl <= 4096).
    { assert (E0 : lget l0 KCriLayers = Some nl).
      { unfold l2, l1 in E. unfold lset_absent in E.
        destruct (lget l0 KUrls) eqn:Ea.
        - destruct (lget l0 KPrefetch) eqn:Eb; [exact E|]. rewrite lget_lset_other in E by reflexivity. exact E.
        - destruct (lget (lset l0 KUrls (urls_value KUrls (c_urls c))) KPrefetch) eqn:Eb.
          + rewrite lget_lset_other in E by reflexivity. exact E.
          + rewrite !lget_lset_other in E by reflexivity. exact E. }
      specialize (Hnl _ E0). unfold validate in Hnl. apply Nat.leb_le in Hnl. unfold max_label in Hnl. lia. }
    pose proof (split_comma_length nl) as Hs. pose proof pow10_18_big. lia.
  - inversion H; subst. apply (H2 (k, v)). exact Hin.
Qed.

(* the handler's own labels survive: URLs and prefetch size are present afterwards *)
Lemma extra_urls_keeps : forall children ds j acc l k,
  extra_urls children j ds acc = Some l -> (forall i, key_eqb (KUrlsIdx i) k = false) -> lget l k = lget acc k.
Proof.
  intros children. induction ds as [|d t IH]; intros j acc l k H Hk; cbn [extra_urls] in H.
  - inversion H. reflexivity.
  - destruct (digest_valid d); [|discriminate]. rewrite (IH _ _ _ _ H Hk).
    destruct (layer_from_digest children d) as [ch|]; [|reflexivity].
    destruct (c_layer ch); [|reflexivity].
    unfold lset_absent. destruct (lget acc (KUrlsIdx j)); [reflexivity|].
    apply lget_lset_other. apply Hk.
Qed.

Lemma prefetch_roundtrip_extra : forall l0 children pf c l dflt,
  extra_over l0 children pf c = Some l -> in_int64 pf -> lget l0 KPrefetch = None ->
  prefetch_of l dflt = pf.
Proof.
  intros l0 children pf c l dflt H Hpf Hnone. unfold extra_over in H.
  set (l1 := lset_absent l0 KUrls (urls_value KUrls (c_urls c))) in *.
  set (l2 := lset_absent l1 KPrefetch (show_Z pf)) in *.
  assert (E : lget l2 KPrefetch = Some (show_Z pf)).
  { unfold l2, lset_absent.
    assert (E1 : lget l1 KPrefetch = None).
    { unfold l1, lset_absent. destruct (lget l0 KUrls); [exact Hnone|].
      rewrite lget_lset_other by reflexivity. exact Hnone. }
    rewrite E1. apply lget_lset_same. }
  unfold prefetch_of.
  destruct (lget l2 KCriLayers) as [nl|].
  - rewrite (extra_urls_keeps _ _ _ _ _ KPrefetch H) by reflexivity. rewrite E.
    rewrite parse_show_Z by exact Hpf. reflexivity.
  - inversion H; subst. rewrite E. rewrite parse_show_Z by exact Hpf. reflexivity.
Qed.

(* ---------- statements assembled for Properties/C20.v ---------- *)
Lemma roundtrip_default_full : forall (parse_ref : str -> option str) ref R pf c rest,
  parse_ref ref = Some R ->
  c_layer c = true -> digest_valid (c_digest c) = true ->
  Forall (fun x => c_layer x = true) rest ->
  Forall (fun x => digest_valid (c_digest x) = true) rest ->
  let taken := taken_of (c :: rest) in
  read_default parse_ref (default_ann ref pf (c :: rest))
  = ROk R (c_digest c) (wire KUrls (c_urls c))
        (map (fun jc => (c_digest (snd jc), wire (KUrlsIdx (fst jc)) (c_urls (snd jc))))
             (filter (fun jc => negb (str_eqb (c_digest (snd jc)) (c_digest c))) taken))
  /\ (exists n, map snd taken = firstn n (c :: rest) /\ map fst taken = seq 0 n)
  /\ (map snd taken = c :: rest \/
      exists n c', map snd taken = firstn n (c :: rest) /\ nth_error (c :: rest) n = Some c' /\
                   budget KLayers < total_len (map c_digest (firstn n (c :: rest))) + S (length (c_digest c'))).
Proof.
  intros parse_ref ref R pf c rest H1 H2 H3 H4 H5 taken.
  assert (HF : Forall (fun x => c_layer x = true) (c :: rest)) by (constructor; assumption).
  split; [apply roundtrip_default; assumption|]. split.
  - apply scan_all_layers. exact HF.
  - apply scan_maximal. exact HF.
Qed.

Lemma default_own_index : forall ref pf c rest p, In p (taken_of (c :: rest)) ->
  nth_error (c :: rest) (fst p) = Some (snd p) /\ c_layer (snd p) = true /\
  lget (default_ann ref pf (c :: rest)) (KUrlsIdx (fst p)) = Some (urls_value (KUrlsIdx (fst p)) (c_urls (snd p))).
Proof.
  intros ref pf c rest p Hin. pose proof Hin as Hin2. unfold taken_of in Hin2.
  destruct (scan_own_index _ _ _ _ Hin2) as [H1 H2]. rewrite Nat.sub_0_r in H1.
  split; [exact H1|]. split; [exact H2|]. apply lget_default_urlsidx. exact Hin.
Qed.

Lemma prefetch_roundtrip_both :
  (forall ref pf c rest dflt, in_int64 pf -> prefetch_of (default_ann ref pf (c :: rest)) dflt = pf)
  /\ (forall l0 children pf c l dflt, extra_over l0 children pf c = Some l -> in_int64 pf ->
        lget l0 KPrefetch = None -> prefetch_of l dflt = pf)
  /\ (forall z, in_int64 z -> parse_int64 (show_Z z) = Some z).
Proof.
  split; [exact prefetch_roundtrip_default|]. split; [exact prefetch_roundtrip_extra|exact parse_show_Z].
Qed.

Lemma read_service_rejects : forall (parse_ref : str -> option str) l,
  read_cri parse_ref l = RErr -> read_default parse_ref l = RErr -> read_service parse_ref l = RErr.
Proof. intros parse_ref l H1 H2. unfold read_service. rewrite H1. exact H2. Qed.

(* the label keys: the snapshotter-side constants of service/cri.go name the same labels as the pull-side constants
   of fs/source/source.go, and the fixed keys are pairwise different strings (so the inductive [key] is faithful) *)
Definition fixed_key_strings : list str :=
  [c20_lbl_ref; c20_lbl_digest; c20_lbl_layers; c20_lbl_urls; c20_lbl_prefetch;
   c20_cri_lbl_ref; c20_cri_lbl_digest; c20_cri_lbl_layers].

Fixpoint nodupb (l : list str) : bool :=
  match l with [] => true | x :: t => negb (existsb (str_eqb x) t) && nodupb t end.

Lemma nodupb_NoDup : forall l, nodupb l = true -> NoDup l.
Proof.
  induction l as [|x t IH]; intro H; [constructor|]. cbn [nodupb] in H. apply andb_true_iff in H. destruct H as [H1 H2].
  constructor; [|apply IH; exact H2]. intro Hin.
  assert (E : existsb (str_eqb x) t = true).
  { apply existsb_exists. exists x. split; [exact Hin|apply str_eqb_refl]. }
  rewrite E in H1. discriminate.
Qed.

Lemma keys_agree :
  c20_cri_lbl_urls = c20_lbl_urls /\ c20_cri_lbl_urls_prefix = c20_lbl_urls_prefix
  /\ c20_cri_lbl_layers = c20_lbl_cri_layers_w
  /\ NoDup fixed_key_strings
  /\ Forall (fun k => strip_prefix c20_lbl_urls_prefix k = None) fixed_key_strings.
Proof.
  split; [reflexivity|]. split; [reflexivity|]. split; [reflexivity|]. split.
  - apply nodupb_NoDup. vm_compute. reflexivity.
  - repeat constructor.
Qed.

(* refutations of the unconditional URL round trip *)
Lemma urls_roundtrip_refuted :
  (exists k us, wire k us <> us /\ us = [])
  /\ (exists k us, us <> [] /\ total_len us <= budget k /\ wire k us <> us).
Proof.
  split.
  - exists KUrls, []. split; [discriminate|reflexivity].
  - exists KUrls, [[104; 44; 98]%N]. split; [discriminate|]. split; [vm_compute; lia|]. vm_compute. discriminate.
Qed.

(* a non-layer blob between layers: the neighbour read back is paired with another layer's URLs *)
Definition shift_children : list child :=
  [mkChild true (sha256_pfx ++ repeat 49%N 64) [[117; 49]%N];     (* sha256:11..1, URL "u1" *)
   mkChild false (sha256_pfx ++ repeat 57%N 64) [[104; 101]%N];   (* a non-layer blob, URL "he" *)
   mkChild true (sha256_pfx ++ repeat 50%N 64) [[117; 50]%N];     (* sha256:22..2, URL "u2" *)
   mkChild true (sha256_pfx ++ repeat 51%N 64) [[117; 51]%N]].    (* sha256:33..3, URL "u3" *)

Lemma nonlayer_shift_refuted :
  exists c rest ref pf n,
    c_layer c = true /\ Forall (fun x => digest_valid (c_digest x) = true) (c :: rest) /\
    read_default (fun s => Some s) (default_ann ref pf (c :: rest)) = ROk ref (c_digest c) (wire KUrls (c_urls c)) n /\
    exists l2 l3, nth_error rest 1 = Some l2 /\ nth_error rest 2 = Some l3 /\ c_layer l3 = true /\
                  In (c_digest l3, c_urls l2) n /\ c_digest l3 <> c_digest l2 /\ c_urls l3 <> c_urls l2.
Proof.
  exists (nth 0 shift_children dummy_child), (tl shift_children), [104; 47; 114]%N, 0%Z.
  eexists. split; [reflexivity|]. split; [repeat constructor|]. split; [vm_compute; reflexivity|].
  eexists. eexists. split; [reflexivity|]. split; [reflexivity|]. split; [reflexivity|].
  split; [vm_compute; right; left; reflexivity|]. split; vm_compute; discriminate.
Qed.

(* ---------- round trip of the extra flavour (containerd's wrapper + AppendExtraLabelsHandler, CRI reader) ---------- *)
Definition own_urls (children : list child) (i : nat) (d : str) : option str :=
  match layer_from_digest children d with
  | Some ch => if c_layer ch then Some (urls_value (KUrlsIdx i) (c_urls ch)) else None
  | None => None
  end.

Lemma extra_urls_lget : forall children ds j acc l,
  extra_urls children j ds acc = Some l ->
  (forall i, j <= i -> lget acc (KUrlsIdx i) = None) ->
  forall i, lget l (KUrlsIdx i) =
            if i <? j then lget acc (KUrlsIdx i)
            else match nth_error ds (i - j) with Some d => own_urls children i d | None => None end.
Proof.
  intros children. induction ds as [|d t IH]; intros j acc l H Hacc i; cbn [extra_urls] in H.
  - inversion H; subst. destruct (i <? j) eqn:E; [reflexivity|]. apply Nat.ltb_ge in E.
    rewrite Hacc by exact E. destruct (i - j); reflexivity.
  - destruct (digest_valid d); [|discriminate].
    set (acc' := match layer_from_digest children d with
                 | Some ch => if c_layer ch then lset_absent acc (KUrlsIdx j) (urls_value (KUrlsIdx j) (c_urls ch)) else acc
                 | None => acc end) in *.
    assert (Hother : forall i', i' <> j -> lget acc' (KUrlsIdx i') = lget acc (KUrlsIdx i')).
    { intros i' Hne. unfold acc'. destruct (layer_from_digest children d) as [ch|]; [|reflexivity].
      destruct (c_layer ch); [|reflexivity]. unfold lset_absent. rewrite (Hacc j) by lia.
      apply lget_lset_other. cbn [key_eqb]. apply Nat.eqb_neq. lia. }
    assert (Hj : lget acc' (KUrlsIdx j) = own_urls children j d).
    { unfold acc', own_urls. destruct (layer_from_digest children d) as [ch|]; [|apply Hacc; lia].
      destruct (c_layer ch); [|apply Hacc; lia]. unfold lset_absent. rewrite (Hacc j) by lia. apply lget_lset_same. }
    rewrite (IH (S j) acc' l H); [|intros i' Hi'; rewrite Hother by lia; apply Hacc; lia].
    destruct (i <? S j) eqn:E1.
    + apply Nat.ltb_lt in E1. destruct (i <? j) eqn:E2.
      * apply Nat.ltb_lt in E2. apply Hother. lia.
      * apply Nat.ltb_ge in E2. assert (i = j) by lia. subst i. rewrite Nat.sub_diag. cbn [nth_error]. exact Hj.
    + apply Nat.ltb_ge in E1. assert (E2 : i <? j = false) by (apply Nat.ltb_ge; lia). rewrite E2.
      replace (i - j) with (S (i - S j)) by lia. reflexivity.
Qed.

Lemma read_neigh_valid : forall l target ds i, forallb digest_valid ds = true ->
  read_neigh l target i ds = Some (neigh_spec l target i ds).
Proof.
  intros l target. induction ds as [|d t IH]; intros i H; [reflexivity|].
  cbn [forallb] in H. apply andb_true_iff in H. destruct H as [H1 H2].
  cbn [read_neigh]. rewrite H1. rewrite (IH (S i) H2).
  unfold neigh_spec. cbn [length seq combine filter snd fst].
  destruct (str_eqb d target); cbn [negb map snd fst]; reflexivity.
Qed.

Lemma extra_l2_eq : forall ref md c rest v1 v2,
  lset_absent (lset_absent (cri_ann ref md (c :: rest)) KUrls v1) KPrefetch v2
  = [(KCriRef, ref); (KCriDigest, c_digest c); (KCriLayers, cri_layers_value (c :: rest)); (KCriManifest, md);
     (KUrls, v1); (KPrefetch, v2)].
Proof. reflexivity. Qed.

Lemma layer_from_digest_own : forall children d ch, layer_from_digest children d = Some ch ->
  In ch children /\ c_digest ch = d.
Proof.
  intros children d ch H. unfold layer_from_digest in H. apply find_some in H. destruct H as [H1 H2].
  split; [exact H1|]. apply str_eqb_eq. exact H2.
Qed.

Lemma roundtrip_extra : forall (parse_ref : str -> option str) children ref R pf md c rest l,
  extra_ann children ref pf md (c :: rest) = Some l ->
  parse_ref ref = Some R -> digest_valid (c_digest c) = true ->
  let ds := split_comma (cri_layers_value (c :: rest)) in
  read_cri parse_ref l = ROk R (c_digest c) (wire KUrls (c_urls c)) (neigh_spec l (c_digest c) 0 ds)
  /\ (forall i d, nth_error ds i = Some d ->
        urls_of l (KUrlsIdx i)
        = match layer_from_digest children d with
          | Some ch => if c_layer ch then wire (KUrlsIdx i) (c_urls ch) else []
          | None => []
          end)
  /\ (forall d ch, layer_from_digest children d = Some ch -> In ch children /\ c_digest ch = d).
Proof.
  intros parse_ref children ref R pf md c rest l H Href Hdc ds.
  cbn [extra_ann] in H. unfold extra_over in H. rewrite extra_l2_eq in H.
  cbn [lget key_eqb] in H. fold ds in H.
  set (l2 := [(KCriRef, ref); (KCriDigest, c_digest c); (KCriLayers, cri_layers_value (c :: rest)); (KCriManifest, md);
              (KUrls, urls_value KUrls (c_urls c)); (KPrefetch, show_Z pf)]) in *.
  assert (Hk : forall k, (forall i, key_eqb (KUrlsIdx i) k = false) -> lget l k = lget l2 k).
  { intros k Hk. apply (extra_urls_keeps _ _ _ _ _ k H Hk). }
  assert (Hidx : forall i, lget l (KUrlsIdx i)
                           = match nth_error ds i with Some d => own_urls children i d | None => None end).
  { intro i. rewrite (extra_urls_lget _ _ _ _ _ H); [|intros i' _; reflexivity].
    cbn [Nat.ltb Nat.leb]. rewrite Nat.sub_0_r. reflexivity. }
  assert (Hvalid : forallb digest_valid ds = true).
  { clear - H. revert H. generalize 0 as j. generalize l2 as acc. induction ds as [|d t IH]; intros acc j H; [reflexivity|].
    cbn [extra_urls] in H. cbn [forallb]. destruct (digest_valid d); [|discriminate]. cbn [andb]. exact (IH _ _ H). }
  split; [|split].
  - unfold read_cri, read_with.
    rewrite (Hk KCriRef) by reflexivity. rewrite (Hk KCriDigest) by reflexivity. rewrite (Hk KCriLayers) by reflexivity.
    unfold urls_of. rewrite (Hk KUrls) by reflexivity.
    unfold l2. cbn [lget key_eqb]. rewrite Href, Hdc.
    fold ds. rewrite (read_neigh_valid _ _ _ _ Hvalid). reflexivity.
  - intros i d Hnth. unfold urls_of. rewrite Hidx, Hnth. unfold own_urls, wire.
    destruct (layer_from_digest children d) as [ch|]; [|reflexivity]. destruct (c_layer ch); reflexivity.
  - exact (layer_from_digest_own children).
Qed.

(* what containerd's wrapper puts into cri.image-layers is a manifest-order prefix of the layer digests of children[i:] *)
Lemma cri_scan_prefix : forall cs used, exists n, cri_scan used cs = firstn n (map c_digest (filter c_layer cs)).
Proof.
  induction cs as [|c t IH]; intro used; cbn [cri_scan filter].
  - exists 0. reflexivity.
  - destruct (c_layer c); [|apply IH].
    destruct (key_len KCriLayers + (used + ((if used =? 0 then 0 else 1) + length (c_digest c))) <=? max_label).
    + destruct (IH (used + ((if used =? 0 then 0 else 1) + length (c_digest c)))) as [n Hn].
      exists (S n). cbn [map firstn]. rewrite Hn. reflexivity.
    + exists 0. reflexivity.
Qed.

Lemma cri_layers_split : forall suffix,
  Forall (fun x => c_layer x = true -> digest_valid (c_digest x) = true) suffix ->
  cri_scan 0 suffix <> [] ->
  split_comma (cri_layers_value suffix) = cri_scan 0 suffix.
Proof.
  intros suffix HF Hne. unfold cri_layers_value.
  destruct (cri_scan_prefix suffix 0) as [n Hn].
  assert (Hall : Forall (fun d => digest_valid d = true) (cri_scan 0 suffix)).
  { rewrite Hn. apply Forall_forall. intros d Hd.
    assert (Hd' : In d (map c_digest (filter c_layer suffix))).
    { rewrite <- (firstn_skipn n (map c_digest (filter c_layer suffix))). apply in_or_app. left. exact Hd. }
    apply in_map_iff in Hd'. destruct Hd' as [x [Hx1 Hx2]]. apply filter_In in Hx2. destruct Hx2 as [Hx2 Hx3].
    subst d. rewrite Forall_forall in HF. apply HF; assumption. }
  assert (Hdrop : drop_empty (cri_scan 0 suffix) = cri_scan 0 suffix).
  { destruct (cri_scan 0 suffix) as [|d t]; [reflexivity|]. inversion Hall; subst.
    destruct (digest_valid_props _ H1) as [_ [Hd _]]. destruct d; [congruence|reflexivity]. }
  rewrite Hdrop. apply split_join; [|exact Hne].
  rewrite Forall_forall in *. intros d Hd. destruct (digest_valid_props _ (Hall d Hd)) as [Hnc _]. exact Hnc.
Qed.

Lemma cri_scan_nonempty : forall c rest, c_layer c = true -> digest_valid (c_digest c) = true ->
  cri_scan 0 (c :: rest) <> [].
Proof.
  intros c rest Hc Hd. cbn [cri_scan]. rewrite Hc. cbn [Nat.eqb Nat.add].
  destruct (digest_valid_props _ Hd) as [_ [_ Hlen]].
  assert (E : key_len KCriLayers + length (c_digest c) <=? max_label = true).
  { apply Nat.leb_le. pose proof (key_len_fixed KCriLayers) as H3. cbn beta iota in H3. unfold max_label. lia. }
  rewrite E. discriminate.
Qed.

Lemma roundtrip_extra_layers : forall c rest,
  c_layer c = true -> digest_valid (c_digest c) = true ->
  Forall (fun x => c_layer x = true -> digest_valid (c_digest x) = true) rest ->
  exists n, split_comma (cri_layers_value (c :: rest)) = firstn n (map c_digest (filter c_layer (c :: rest))) /\ 1 <= n.
Proof.
  intros c rest Hc Hd HF.
  assert (HF' : Forall (fun x => c_layer x = true -> digest_valid (c_digest x) = true) (c :: rest)).
  { constructor; [intro; exact Hd|exact HF]. }
  pose proof (cri_scan_nonempty c rest Hc Hd) as Hne.
  rewrite (cri_layers_split _ HF' Hne).
  destruct (cri_scan_prefix (c :: rest) 0) as [n Hn]. exists n. split; [exact Hn|].
  destruct n; [|lia]. rewrite Hn in Hne. cbn [firstn] in Hne. congruence.
Qed.

(* ---------- extra flavour: the handler succeeds on well-formed manifests; containerd's prefix is maximal ---------- *)
Lemma extra_urls_succeeds : forall children ds j acc,
  forallb digest_valid ds = true -> exists l, extra_urls children j ds acc = Some l.
Proof.
  intros children. induction ds as [|d t IH]; intros j acc H; cbn [extra_urls].
  - exists acc. reflexivity.
  - cbn [forallb] in H. apply andb_true_iff in H. destruct H as [H1 H2]. rewrite H1. apply IH. exact H2.
Qed.

Lemma extra_handler_succeeds : forall children ref pf md c rest,
  c_layer c = true -> digest_valid (c_digest c) = true ->
  Forall (fun x => c_layer x = true -> digest_valid (c_digest x) = true) rest ->
  exists l, extra_ann children ref pf md (c :: rest) = Some l.
Proof.
  intros children ref pf md c rest Hc Hd HF.
  cbn [extra_ann]. unfold extra_over. rewrite extra_l2_eq. cbn [lget key_eqb].
  apply extra_urls_succeeds.
  assert (HF' : Forall (fun x => c_layer x = true -> digest_valid (c_digest x) = true) (c :: rest)).
  { constructor; [intro; exact Hd|exact HF]. }
  pose proof (cri_scan_nonempty c rest Hc Hd) as Hne.
  rewrite (cri_layers_split _ HF' Hne).
  destruct (cri_scan_prefix (c :: rest) 0) as [n Hn]. rewrite Hn.
  apply forallb_forall. intros d Hin.
  assert (Hd' : In d (map c_digest (filter c_layer (c :: rest)))).
  { rewrite <- (firstn_skipn n (map c_digest (filter c_layer (c :: rest)))). apply in_or_app. left. exact Hin. }
  apply in_map_iff in Hd'. destruct Hd' as [x [Hx1 Hx2]]. apply filter_In in Hx2. destruct Hx2 as [Hx2 Hx3].
  subst d. rewrite Forall_forall in HF'. apply HF'; assumption.
Qed.

(* length of the string containerd's getLayers has accumulated after appending the digests ds to a string of length used *)
Definition cri_len (used : nat) (ds : list str) : nat :=
  fold_left (fun u d => u + ((if u =? 0 then 0 else 1) + length d)) ds used.

Lemma cri_scan_maximal : forall cs used,
  let ls := map c_digest (filter c_layer cs) in
  cri_scan used cs = ls \/
  exists n d, cri_scan used cs = firstn n ls /\ nth_error ls n = Some d /\
              max_label < key_len KCriLayers + cri_len used (firstn n ls ++ [d]).
Proof.
  induction cs as [|c t IH]; intro used; cbn [cri_scan filter].
  - left. reflexivity.
  - destruct (c_layer c); [|apply IH].
    cbn [map].
    destruct (key_len KCriLayers + (used + ((if used =? 0 then 0 else 1) + length (c_digest c))) <=? max_label) eqn:E.
    + destruct (IH (used + ((if used =? 0 then 0 else 1) + length (c_digest c)))) as [H|[n [d [H1 [H2 H3]]]]].
      * left. f_equal. exact H.
      * right. exists (S n), d. cbn [firstn nth_error]. split; [f_equal; exact H1|]. split; [exact H2|].
        cbn [app]. unfold cri_len in *. cbn [fold_left]. exact H3.
    + apply Nat.leb_gt in E. right. exists 0, (c_digest c). cbn [firstn nth_error app].
      split; [reflexivity|]. split; [reflexivity|]. unfold cri_len. cbn [fold_left]. lia.
Qed.

Lemma cri_len_pos : forall ds used, 0 < used -> cri_len used ds = used + total_len ds.
Proof.
  induction ds as [|d t IH]; intros used Hu; unfold cri_len, total_len in *; cbn [fold_left fold_right]; [lia|].
  assert (E : used =? 0 = false) by (apply Nat.eqb_neq; lia). rewrite E.
  rewrite IH by lia. lia.
Qed.

Lemma join_length_eq : forall (d : str) t, length (join_comma (d :: t)) = length d + total_len t.
Proof.
  intros d t. revert d. induction t as [|y t IH]; intro d.
  - cbn. unfold total_len. cbn. lia.
  - change (join_comma (d :: y :: t)) with (d ++ comma :: join_comma (y :: t)).
    rewrite app_length. cbn [length]. rewrite IH. unfold total_len. cbn [fold_right]. lia.
Qed.

(* for non-empty digests that accumulated length is the length of the comma-joined label value *)
Lemma cri_len_join : forall ds, Forall (fun d : str => d <> []) ds -> cri_len 0 ds = length (join_comma ds).
Proof.
  intros ds H. destruct ds as [|d t]; [reflexivity|]. inversion H; subst.
  unfold cri_len. cbn [fold_left Nat.eqb Nat.add]. fold (cri_len (length d) t).
  rewrite cri_len_pos by (destruct d; [congruence|cbn; lia]). rewrite join_length_eq. reflexivity.
Qed.

Lemma extra_layers_prefix_maximal : forall c rest,
  c_layer c = true -> digest_valid (c_digest c) = true ->
  Forall (fun x => c_layer x = true -> digest_valid (c_digest x) = true) rest ->
  let ls := map c_digest (filter c_layer (c :: rest)) in
  split_comma (cri_layers_value (c :: rest)) = ls \/
  exists n d, split_comma (cri_layers_value (c :: rest)) = firstn n ls /\ nth_error ls n = Some d /\
              max_label < key_len KCriLayers + length (join_comma (firstn n ls ++ [d])).
Proof.
  intros c rest Hc Hd HF ls.
  assert (HF' : Forall (fun x => c_layer x = true -> digest_valid (c_digest x) = true) (c :: rest)).
  { constructor; [intro; exact Hd|exact HF]. }
  pose proof (cri_scan_nonempty c rest Hc Hd) as Hne.
  rewrite (cri_layers_split _ HF' Hne).
  destruct (cri_scan_maximal (c :: rest) 0) as [H|[n [d [H1 [H2 H3]]]]]; [left; exact H|].
  right. exists n, d. split; [exact H1|]. split; [exact H2|].
  rewrite <- cri_len_join; [exact H3|].
  assert (Hall : forall x, In x ls -> x <> []).
  { intros x Hx. unfold ls in Hx. apply in_map_iff in Hx. destruct Hx as [y [Hy1 Hy2]].
    apply filter_In in Hy2. destruct Hy2 as [Hy2 Hy3]. subst x.
    rewrite Forall_forall in HF'. destruct (digest_valid_props _ (HF' y Hy2 Hy3)) as [_ [Hn _]]. exact Hn. }
  apply Forall_forall. intros x Hx. apply Hall. apply in_app_or in Hx. destruct Hx as [Hx|[Hx|[]]].
  - fold ls in Hx. rewrite <- (firstn_skipn n ls). apply in_or_app. left. exact Hx.
  - subst x. apply nth_error_In with n. exact H2.
Qed.

(* ---------- annotations the manifest itself carries (present before the handlers run) ---------- *)
Lemma lget_lset_all : forall w a0 k,
  lget (lset_all a0 w) k = match lget (rev w) k with Some v => Some v | None => lget a0 k end.
Proof.
  induction w as [|[k0 v0] w IH]; intros a0 k; [reflexivity|].
  unfold lset_all in *. cbn [fold_left fst snd]. rewrite IH.
  cbn [rev]. rewrite lget_app. destruct (lget (rev w) k) as [v|]; [reflexivity|].
  cbn [lget]. destruct (key_eqb k0 k) eqn:E.
  - apply key_eqb_eq in E. subst k0. apply lget_lset_same.
  - apply lget_lset_other. exact E.
Qed.

Lemma urlmap_rev : forall t, rev (urlmap t) = urlmap (rev t).
Proof. intro t. unfold urlmap. symmetry. apply map_rev. Qed.

Lemma default_ann_rev : forall ref pf c rest,
  rev (default_ann ref pf (c :: rest)) =
  [(KUrls, urls_value KUrls (c_urls c)); (KPrefetch, show_Z pf);
   (KLayers, join_comma (map (fun jc => c_digest (snd jc)) (taken_of (c :: rest))))]
  ++ urlmap (rev (taken_of (c :: rest))) ++ [(KDigest, c_digest c); (KRef, ref)].
Proof.
  intros. rewrite default_ann_eq. rewrite !rev_app_distr. rewrite urlmap_rev. cbn [rev app]. reflexivity.
Qed.

(* whatever the manifest supplied, the keys the default handler writes hold the handler's values afterwards *)
Lemma lget_over_fixed : forall a0 ref pf c rest,
  let l := default_ann_over a0 ref pf (c :: rest) in
  lget l KRef = Some ref /\ lget l KDigest = Some (c_digest c)
  /\ lget l KLayers = Some (join_comma (map (fun jc => c_digest (snd jc)) (taken_of (c :: rest))))
  /\ lget l KPrefetch = Some (show_Z pf) /\ lget l KUrls = Some (urls_value KUrls (c_urls c)).
Proof.
  intros a0 ref pf c rest l. unfold l, default_ann_over.
  repeat split; rewrite lget_lset_all, default_ann_rev; cbn [app lget key_eqb]; try reflexivity;
    rewrite lget_app, lget_urlmap_none by reflexivity; reflexivity.
Qed.

Lemma lget_over_urlsidx : forall a0 ref pf c rest p, In p (taken_of (c :: rest)) ->
  lget (default_ann_over a0 ref pf (c :: rest)) (KUrlsIdx (fst p))
  = Some (urls_value (KUrlsIdx (fst p)) (c_urls (snd p))).
Proof.
  intros a0 ref pf c rest p Hin. unfold default_ann_over. rewrite lget_lset_all, default_ann_rev.
  cbn [app lget key_eqb]. rewrite lget_app.
  rewrite (lget_urlmap_in (rev (taken_of (c :: rest))) p); [reflexivity| |apply in_rev in Hin; exact Hin].
  rewrite map_rev. apply NoDup_rev. unfold taken_of. apply scan_idx_nodup.
Qed.

(* the other keys stay as the manifest supplied them *)
Lemma lget_over_other : forall a0 ref pf c rest k,
  (forall v, ~ In (k, v) (default_ann ref pf (c :: rest))) ->
  lget (default_ann_over a0 ref pf (c :: rest)) k = lget a0 k.
Proof.
  intros a0 ref pf c rest k H. unfold default_ann_over. rewrite lget_lset_all.
  destruct (lget (rev (default_ann ref pf (c :: rest))) k) as [v|] eqn:E; [|reflexivity].
  apply lget_In in E. apply in_rev in E. exfalso. exact (H v E).
Qed.

(* the round trip of the default reader from any map holding the handler's values under the keys it reads *)
Lemma roundtrip_reader : forall (parse_ref : str -> option str) ref R c rest l,
  parse_ref ref = Some R ->
  c_layer c = true -> digest_valid (c_digest c) = true ->
  Forall (fun x => c_layer x = true) rest ->
  Forall (fun x => digest_valid (c_digest x) = true) rest ->
  lget l KRef = Some ref -> lget l KDigest = Some (c_digest c) ->
  lget l KLayers = Some (join_comma (map (fun jc => c_digest (snd jc)) (taken_of (c :: rest)))) ->
  lget l KUrls = Some (urls_value KUrls (c_urls c)) ->
  (forall p, In p (taken_of (c :: rest)) ->
     lget l (KUrlsIdx (fst p)) = Some (urls_value (KUrlsIdx (fst p)) (c_urls (snd p)))) ->
  read_default parse_ref l
  = ROk R (c_digest c) (wire KUrls (c_urls c))
        (map (fun jc => (c_digest (snd jc), wire (KUrlsIdx (fst jc)) (c_urls (snd jc))))
             (filter (fun jc => negb (str_eqb (c_digest (snd jc)) (c_digest c))) (taken_of (c :: rest)))).
Proof.
  intros parse_ref ref R c rest l Href Hc Hdc Hl Hd L1 L2 L3 L4 L5.
  unfold read_default, read_with.
  rewrite L1, Href, L2, Hdc, L3.
  assert (HF : Forall (fun x => c_layer x = true) (c :: rest)) by (constructor; assumption).
  destruct (scan_all_layers (c :: rest) (budget KLayers) 0 HF) as [n [Hsnd Hfst]].
  fold (taken_of (c :: rest)) in Hsnd, Hfst.
  assert (Hvalid : Forall (fun p => digest_valid (c_digest (snd p)) = true) (taken_of (c :: rest))).
  { assert (Hall : Forall (fun x => digest_valid (c_digest x) = true) (map snd (taken_of (c :: rest)))).
    { rewrite Hsnd. apply Forall_forall. intros x Hx.
      assert (HA : Forall (fun x => digest_valid (c_digest x) = true) (c :: rest)) by (constructor; assumption).
      rewrite Forall_forall in HA. apply HA. rewrite <- (firstn_skipn n (c :: rest)).
      apply in_or_app. left. exact Hx. }
    rewrite Forall_forall in *. intros p Hp. apply Hall. apply in_map. exact Hp. }
  assert (Hne : taken_of (c :: rest) <> []).
  { unfold taken_of. cbn [scan_layers]. rewrite Hc.
    destruct (digest_valid_props _ Hdc) as [_ [_ Hlen]]. rewrite (budget_layers_fits _ Hlen). discriminate. }
  rewrite split_join.
  - rewrite (read_neigh_ok _ _ (taken_of (c :: rest)) 0).
    + unfold urls_of. rewrite L4. reflexivity.
    + exact L5.
    + rewrite Hfst. f_equal. rewrite <- (map_length fst). rewrite Hfst. rewrite seq_length. reflexivity.
    + exact Hvalid.
  - rewrite Forall_forall in *. intros d Hd'. apply in_map_iff in Hd'. destruct Hd' as [p [Hp1 Hp2]]. subst d.
    destruct (digest_valid_props _ (Hvalid p Hp2)) as [Hnc _]. exact Hnc.
  - destruct (taken_of (c :: rest)); [congruence|discriminate].
Qed.

(* default flavour: FromDefaultLabels and the prefetch size are immune to manifest-supplied annotations *)
Lemma preexisting_default_immune : forall (parse_ref : str -> option str) a0 ref R pf c rest dflt,
  parse_ref ref = Some R ->
  c_layer c = true -> digest_valid (c_digest c) = true ->
  Forall (fun x => c_layer x = true) rest ->
  Forall (fun x => digest_valid (c_digest x) = true) rest ->
  in_int64 pf ->
  read_default parse_ref (default_ann_over a0 ref pf (c :: rest))
  = read_default parse_ref (default_ann ref pf (c :: rest))
  /\ prefetch_of (default_ann_over a0 ref pf (c :: rest)) dflt = pf
  /\ (forall k, (forall v, ~ In (k, v) (default_ann ref pf (c :: rest))) ->
        lget (default_ann_over a0 ref pf (c :: rest)) k = lget a0 k).
Proof.
  intros parse_ref a0 ref R pf c rest dflt Href Hc Hdc Hl Hd Hpf.
  destruct (lget_over_fixed a0 ref pf c rest) as [L1 [L2 [L3 [L4 L5]]]].
  split; [|split].
  - rewrite (roundtrip_default parse_ref ref R pf c rest) by assumption.
    apply (roundtrip_reader parse_ref ref R c rest); try assumption.
    intros p Hp. apply lget_over_urlsidx. exact Hp.
  - unfold prefetch_of. rewrite L4. rewrite parse_show_Z by exact Hpf. reflexivity.
  - intros k Hk. apply lget_over_other. exact Hk.
Qed.

(* ... but the service chain is not: manifest-supplied cri.* annotations survive and the CRI reader is asked first *)
Lemma preexisting_cri_wins_refuted :
  exists a0 c rest ref pf,
    c_layer c = true /\ Forall (fun x => c_layer x = true /\ digest_valid (c_digest x) = true) (c :: rest) /\
    match read_default (fun s => Some s) (default_ann_over a0 ref pf (c :: rest)),
          read_service (fun s => Some s) (default_ann_over a0 ref pf (c :: rest)) with
    | ROk r1 d1 _ _, ROk r2 d2 _ _ => r1 = ref /\ d1 = c_digest c /\ r2 <> ref /\ d2 <> c_digest c
    | _, _ => False
    end.
Proof.
  exists [(KCriRef, [101; 118; 105; 108]%N); (KCriDigest, sha256_pfx ++ repeat 102%N 64)].
  exists (nth 0 shift_children dummy_child), [nth 2 shift_children dummy_child], [104; 47; 114]%N, 0%Z.
  split; [reflexivity|]. split; [repeat constructor|].
  vm_compute. split; [reflexivity|]. split; [reflexivity|]. split; discriminate.
Qed.

(* extra flavour: containerd's wrapper overwrites the four cri.* keys, so reference and digest are immune ... *)
Lemma cri_ann_over_lget : forall a0 ref md c rest,
  let l0 := cri_ann_over a0 ref md (c :: rest) in
  lget l0 KCriRef = Some ref /\ lget l0 KCriDigest = Some (c_digest c)
  /\ lget l0 KCriLayers = Some (cri_layers_value (c :: rest)) /\ lget l0 KCriManifest = Some md
  /\ (forall k, key_eqb KCriRef k = false -> key_eqb KCriDigest k = false -> key_eqb KCriLayers k = false ->
                key_eqb KCriManifest k = false -> lget l0 k = lget a0 k).
Proof.
  intros a0 ref md c rest l0. unfold l0, cri_ann_over.
  repeat split; try (rewrite lget_lset_all; reflexivity).
  intros k H1 H2 H3 H4. rewrite lget_lset_all. cbn [cri_ann rev app lget]. rewrite H1, H2, H3, H4. reflexivity.
Qed.

Lemma extra_over_keeps_cri : forall l0 children pf c l k,
  extra_over l0 children pf c = Some l ->
  key_eqb KUrls k = false -> key_eqb KPrefetch k = false -> (forall i, key_eqb (KUrlsIdx i) k = false) ->
  lget l k = lget l0 k.
Proof.
  intros l0 children pf c l k H Hu Hp Hi. unfold extra_over in H.
  set (l1 := lset_absent l0 KUrls (urls_value KUrls (c_urls c))) in *.
  set (l2 := lset_absent l1 KPrefetch (show_Z pf)) in *.
  assert (E : lget l2 k = lget l0 k).
  { unfold l2, l1, lset_absent.
    destruct (lget l0 KUrls); destruct (lget _ KPrefetch); try reflexivity;
      rewrite ?lget_lset_other by assumption; reflexivity. }
  destruct (lget l2 KCriLayers) as [nl|].
  - rewrite (extra_urls_keeps _ _ _ _ _ k H Hi). exact E.
  - inversion H; subst. exact E.
Qed.

Lemma extra_urls_checked : forall children ds j acc l,
  extra_urls children j ds acc = Some l -> forallb digest_valid ds = true.
Proof.
  intros children. induction ds as [|d t IH]; intros j acc l H; [reflexivity|].
  cbn [extra_urls] in H. cbn [forallb]. destruct (digest_valid d); [|discriminate]. cbn [andb]. exact (IH _ _ _ H).
Qed.

Lemma preexisting_extra_source_immune : forall (parse_ref : str -> option str) a0 children ref R pf md c rest l,
  extra_ann_over a0 children ref pf md (c :: rest) = Some l ->
  parse_ref ref = Some R -> digest_valid (c_digest c) = true ->
  exists u n, read_cri parse_ref l = ROk R (c_digest c) u n
              /\ n = neigh_spec l (c_digest c) 0 (split_comma (cri_layers_value (c :: rest))).
Proof.
  intros parse_ref a0 children ref R pf md c rest l H Href Hdc.
  cbn [extra_ann_over] in H.
  destruct (cri_ann_over_lget a0 ref md c rest) as [C1 [C2 [C3 [C4 _]]]].
  assert (K : forall k, key_eqb KUrls k = false -> key_eqb KPrefetch k = false ->
                        (forall i, key_eqb (KUrlsIdx i) k = false) ->
                        lget l k = lget (cri_ann_over a0 ref md (c :: rest)) k).
  { intros k. apply (extra_over_keeps_cri _ _ _ _ _ k H). }
  assert (Hvalid : forallb digest_valid (split_comma (cri_layers_value (c :: rest))) = true).
  { unfold extra_over in H.
    set (l1 := lset_absent (cri_ann_over a0 ref md (c :: rest)) KUrls (urls_value KUrls (c_urls c))) in *.
    set (l2 := lset_absent l1 KPrefetch (show_Z pf)) in *.
    assert (E : lget l2 KCriLayers = Some (cri_layers_value (c :: rest))).
    { rewrite <- C3. unfold l2, l1, lset_absent.
      destruct (lget (cri_ann_over a0 ref md (c :: rest)) KUrls); destruct (lget _ KPrefetch); try reflexivity;
        rewrite ?lget_lset_other by reflexivity; reflexivity. }
    rewrite E in H. exact (extra_urls_checked _ _ _ _ _ H). }
  eexists. eexists. split; [|reflexivity].
  unfold read_cri, read_with.
  rewrite (K KCriRef) by reflexivity. rewrite C1, Href.
  rewrite (K KCriDigest) by reflexivity. rewrite C2, Hdc.
  rewrite (K KCriLayers) by reflexivity. rewrite C3.
  rewrite (read_neigh_valid _ _ _ _ Hvalid). reflexivity.
Qed.

(* ... while URLs and prefetch size are not: a manifest-supplied prefetch annotation wins over the pull-time size *)
Lemma preexisting_extra_kept_refuted :
  exists a0 children ref pf md l,
    extra_ann_over a0 children ref pf md children = Some l /\ in_int64 pf /\
    prefetch_of l 0%Z <> pf /\ lget l KUrls = lget a0 KUrls /\ lget a0 KUrls <> None.
Proof.
  exists [(KPrefetch, [49; 55]%N); (KUrls, [120]%N)], [nth 0 shift_children dummy_child], [104; 47; 114]%N, 5%Z,
         (sha256_pfx ++ repeat 100%N 64).
  eexists. split; [vm_compute; reflexivity|]. split; [unfold in_int64, int64_min, int64_max; lia|].
  split; [vm_compute; discriminate|]. split; [vm_compute; reflexivity|vm_compute; discriminate].
Qed.
