(* C09, phase 2: the metadata of every crash image is the metadata of some invariant-satisfying state; hence
   restored mounts are unique and every snapshot of the restarted snapshotter can be removed / used as a parent. *)
From Coq Require Import List Arith Bool Lia.
From SV Require Import Model.Snap Model.SnapCrash Proofs.SnapBase Proofs.SnapPrim Proofs.SnapInv Proofs.Snap Proofs.SnapCrash.
Import ListNotations.

Arguments rm_dirent : simpl never.
Arguments rm_mount : simpl never.
Arguments fs_mount : simpl never.
Arguments commit_active : simpl never.
Arguments create_snapshot : simpl never.
Arguments cleanup_list : simpl never.
Arguments create_points : simpl never.
Arguments cleanup_points : simpl never.
Arguments order_ok : simpl never.

(* metadata-only part of the invariant *)
Record MInv (m : list (name * info)) (q : nat) : Prop := {
  mi_names : NoDup (map fst m);
  mi_ids   : NoDup (ids_of m);
  mi_le    : forall n i, In (n, i) m -> i_id i <= q;
  mi_par   : forall n i, In (n, i) m -> parent_ok m i;
  mi_topo  : topo m
}.

Lemma inv_minv s : Inv s -> MInv (meta s) (seq s).
Proof. intros I. destruct I. constructor; auto. Qed.

Lemma create_points_minv s k key parent l c img :
  Inv s -> In (c, img) (create_points s k key parent l) -> MInv (meta img) (seq img).
Proof.
  intros I H. pose proof (inv_minv s I) as M0.
  unfold create_points in H. destruct (closed s) eqn:C; [contradiction|].
  destruct (meta_create s k key parent) as [e|sn] eqn:MC.
  - destruct H as [H|[H|[H|[]]]]; inversion H; subst; exact M0.
  - destruct (negb match sn_parents sn with [] => true | p :: _ => has_dir s (DId p) end) eqn:PO.
    + destruct H as [H|[H|[H|[H|[]]]]]; inversion H; subst; exact M0.
    + destruct (has_dir s (DId (sn_id sn))) eqn:HD.
      * destruct H as [H|[H|[H|[H|[H|[H|[]]]]]]]; inversion H; subst; exact M0.
      * destruct H as [H|[H|[H|[H|[]]]]]; inversion H; subst; try exact M0.
        (* the committed image is the metadata of the state after createSnapshot *)
        assert (CS : exists s1, create_snapshot s k key parent l = (s1, inr sn)).
        { unfold create_snapshot. rewrite C.
          replace (meta_create (set_tmpc (set_dirs s (DTemp (tmpc s) :: dirs s)) (S (tmpc s))) k key parent)
            with (meta_create s k key parent) by reflexivity.
          rewrite MC.
          replace (has_dir (set_tmpc (set_dirs s (DTemp (tmpc s) :: dirs s)) (S (tmpc s))) (DId (sn_id sn)))
            with (has_dir s (DId (sn_id sn))) by reflexivity.
          assert (PO' : negb match sn_parents sn with
                             | [] => true
                             | p :: _ => has_dir (set_tmpc (set_dirs s (DTemp (tmpc s) :: dirs s)) (S (tmpc s))) (DId p)
                             end = false).
          { destruct (sn_parents sn); [exact PO|]. exact PO. }
          rewrite PO', HD. eexists. reflexivity. }
        destruct CS as [s1 CS]. pose proof (create_inv _ _ _ _ _ _ _ I CS) as I1.
        pose proof (create_ok _ _ _ _ _ _ _ CS) as [_ [_ [ID [_ [E1 _]]]]].
        pose proof (inv_minv _ I1) as M1. subst s1. simpl in *. rewrite ID. exact M1.
Qed.

Lemma durable_minv s : Inv s -> MInv (meta (durable s)) (seq (durable s)).
Proof. intros I. simpl. apply inv_minv. exact I. Qed.

Lemma cleanup_points_minv s m q iter ds cur c img :
  MInv m q -> In (c, img) (cleanup_points s m q iter cur ds) -> MInv (meta img) (seq img).
Proof. intros M H. apply cleanup_points_meta in H. destruct H as [A B]. rewrite A, B. exact M. Qed.

Lemma crash_minv order s o c img :
  Inv s -> In (c, img) (crash_points order s o) -> MInv (meta img) (seq img).
Proof.
  intros I H. destruct o; simpl in H; try contradiction; nrm.
  - apply in_app_or in H. destruct H as [H|H]; [eapply create_points_minv; eauto|].
    destruct (create_snapshot s KActive key parent l) as [s1 [e|sn]] eqn:CS; [simpl in H; contradiction|].
    pose proof (create_inv _ _ _ _ _ _ _ I CS) as I1.
    pose proof (create_ok _ _ _ _ _ _ _ CS) as OK. destruct OK as [_ [_ [ID [_ [E1 _]]]]].
    destruct (l_target lm) as [t|]; [|simpl in H; contradiction].
    destruct mok; [|simpl in H; contradiction].
    destruct H as [H|H]; [inversion H; subst img; apply durable_minv; auto|].
    destruct (commit_active (fs_mount s1 (sn_id sn) lm true) t key (set_remote l) true) as [s3 x] eqn:CA.
    assert (I2 : Inv (fs_mount s1 (sn_id sn) lm true)).
    { apply mount_inv; auto.
      - rewrite ID. subst s1. simpl. lia.
      - destruct (mounted s1 (sn_id sn)) eqn:M; auto. apply mounted_in in M. destruct M as [lb M].
        subst s1. simpl in M. apply (inv_mle _ I) in M. simpl in M. lia. }
    pose proof (commit_inv _ _ _ _ _ _ _ I2 CA) as I3.
    destruct x as [e|].
    + destruct e; try (simpl in H; contradiction). destruct H as [H|[]]. inversion H; subst img. apply durable_minv; auto.
    + destruct H as [H|[H|[]]]; inversion H; subst img; apply durable_minv; auto.
  - eapply create_points_minv; eauto.
  - destruct (commit_active s nm key l false) as [s1 [e|]]; [simpl in H; contradiction|].
    destruct H as [H|[]]. inversion H; subst img. apply durable_minv; auto.
  - unfold do_remove in H. destruct (closed s); [simpl in H; contradiction|].
    destruct (lookup (meta s) key) as [i|] eqn:LK; [|simpl in H; contradiction].
    destruct (has_child (meta s) key) eqn:HC; [simpl in H; contradiction|].
    destruct (match i_parent i with
              | Some p => match lookup (meta s) p with Some _ => false | None => true end
              | None => false
              end); [simpl in H; contradiction|].
    pose proof (remove_meta_inv s key i (EvMetaRemove (i_id i)) I LK HC) as I1.
    pose proof (inv_minv _ I1) as M1. simpl in M1.
    assert (RK : forall X Y : list (nat * st), In (c, img) (if async s then X else Y) -> In (c, img) X \/ In (c, img) Y).
    { intros X Y. destruct (async s); auto. }
    destruct (async s); simpl in H.
    + destruct H as [H|[]]. inversion H; subst img. apply durable_minv; auto.
    + destruct H as [H|H]; [inversion H; subst img; apply durable_minv; auto|].
      destruct (order_ok order (cleanup_list (set_meta s (del (meta s) key)) false)); [|contradiction].
      destruct H as [H|H]; [inversion H; subst img; exact M1|]. eapply cleanup_points_minv; eauto.
  - destruct (closed s); [simpl in H; contradiction|].
    destruct (order_ok order (cleanup_list s false)); [|simpl in H; contradiction].
    eapply cleanup_points_minv; eauto. apply inv_minv; auto.
  - destruct (closed s || Nat.eqb (seq s) 0); [simpl in H; contradiction|].
    destruct (order_ok order (cleanup_list s true)); [|simpl in H; contradiction].
    eapply cleanup_points_minv; eauto. apply inv_minv; auto.
Qed.

(* ---------- every snapshot of the restarted snapshotter can be removed ---------- *)
Lemma removable m q s' n i ub :
  MInv m q -> meta s' = m -> closed s' = false ->
  lookup m n = Some i -> has_child m n = false ->
  snd (step s' (Remove n ub)) = ROk /\ lookup (meta (fst (step s' (Remove n ub)))) n = None.
Proof.
  intros M E C L HC. simpl. unfold do_remove. rewrite C, E, L, HC.
  pose proof (mi_par _ _ M _ _ (lookup_in _ _ _ L)) as P. unfold parent_ok in P.
  assert (PE : match i_parent i with
               | Some p => match lookup m p with Some _ => false | None => true end
               | None => false
               end = false).
  { destruct (i_parent i) as [p|]; auto. destruct P as [pi [LP _]]. rewrite LP. reflexivity. }
  rewrite PE. set (s1 := emit (set_meta s' (del m n)) (EvMetaRemove (i_id i))).
  assert (L1 : lookup (meta s1) n = None) by (simpl; apply lookup_del_eq).
  destruct (async s'); simpl; [split; [reflexivity|exact L1]|]. split; [reflexivity|].
  destruct (cleanup_dirs_spec ub (cleanup_list s1 false) s1) as [E' [Sh _]]. destruct Sh. rewrite sh_meta. exact L1.
Qed.

(* ---------- restored mounts are unique ---------- *)
From Coq Require Import Permutation.

Lemma ins_by_perm {A} (key : A -> nat) x l : Permutation (ins_by key x l) (x :: l).
Proof.
  induction l as [|y l IH]; simpl; auto.
  destruct (Nat.leb (key x) (key y)); auto.
  eapply perm_trans; [apply perm_skip; exact IH|apply perm_swap].
Qed.

Lemma sort_by_perm {A} (key : A -> nat) l : Permutation (sort_by key l) l.
Proof.
  unfold sort_by. induction l as [|y l IH]; simpl; auto.
  eapply perm_trans; [apply ins_by_perm|apply perm_skip; exact IH].
Qed.

Lemma nodup_map_filter {A B} (f : A -> B) (p : A -> bool) l : NoDup (map f l) -> NoDup (map f (filter p l)).
Proof.
  induction l as [|x l IH]; simpl; intros ND; auto. inversion ND as [|? ? Hn ND']; subst.
  destruct (p x); simpl; auto. constructor; auto.
  intros H. apply Hn. apply in_map_iff in H. destruct H as [y [E H]]. apply filter_In in H.
  apply in_map_iff. exists y. tauto.
Qed.

Lemma tasks_nodup m : NoDup (ids_of m) -> NoDup (ids_of (remote_tasks m)).
Proof.
  intros ND. unfold remote_tasks, ids_of in *.
  eapply Permutation_NoDup; [apply Permutation_map; apply Permutation_sym; apply sort_by_perm|].
  apply nodup_map_filter. exact ND.
Qed.

Lemma restore_fold_nodup allow mbad ts : forall s ok s' ok',
  fold_left (restore_one allow mbad) ts (s, ok) = (s', ok') ->
  NoDup (ids_of ts) -> NoDup (map fst (mounts s)) ->
  (forall x, In x (mounts s) -> ~ In (fst x) (ids_of ts)) ->
  NoDup (map fst (mounts s')).
Proof.
  induction ts as [|p ts IH]; intros s ok s' ok' H ND NM DJ; simpl in H.
  - inversion H; subst. exact NM.
  - unfold ids_of in ND. simpl in ND. inversion ND as [|? ? Hn ND']; subst.
    destruct ok.
    + simpl in H.
      set (id := i_id (snd p)) in *.
      set (s1 := if has_dir s (DId id) then s else set_dirs s (DId id :: dirs s)) in *.
      assert (M1 : mounts s1 = mounts s) by (unfold s1; destruct (has_dir s (DId id)); reflexivity).
      destruct (negb (mem id mbad)); simpl in H.
      * eapply IH; [exact H|exact ND'| |].
        -- unfold fs_mount. simpl. rewrite M1. constructor; auto.
           intros F. apply in_map_iff in F. destruct F as [x [E F]]. apply (DJ x F). rewrite E. left. reflexivity.
        -- unfold fs_mount. simpl. rewrite M1. intros x [F|F].
           ++ subst x. simpl. exact Hn.
           ++ intros Q. apply (DJ x F). right. exact Q.
      * eapply IH; [exact H|exact ND'| |].
        -- unfold fs_mount. simpl. rewrite M1. exact NM.
        -- unfold fs_mount. simpl. rewrite M1. intros x F Q. apply (DJ x F). right. exact Q.
    + simpl in H. eapply IH; [exact H|exact ND'|exact NM|]. intros x F Q. apply (DJ x F). right. exact Q.
Qed.

Lemma restart_mounts_unique nr allow mbad img s' ok :
  NoDup (ids_of (meta img)) -> restart nr allow mbad img = (s', ok) -> NoDup (map fst (mounts s')).
Proof.
  intros ND. unfold restart. destruct nr.
  - intros H; inversion H; subst. constructor.
  - intros H. eapply restore_fold_nodup; [exact H|apply tasks_nodup; exact ND|constructor|intros x []].
Qed.

Lemma crash_restart_unique a os o order k c img nr allow mbad s' ok :
  nth_error (crash_points order (exec (init a) os) o) k = Some (c, img) ->
  restart nr allow mbad img = (s', ok) ->
  NoDup (map fst (mounts s')) /\
  forall id, mount_count s' id <= 1.
Proof.
  intros H R. apply nth_error_In in H. pose proof (crash_minv _ _ _ _ _ (reach_inv a os) H) as M.
  pose proof (restart_mounts_unique _ _ _ _ _ _ (mi_ids _ _ M) R) as ND. split; [exact ND|].
  intros id. unfold mount_count. clear -ND. induction (mounts s') as [|x l IH]; simpl; auto.
  inversion ND as [|? ? Hn ND']; subst. destruct (Nat.eqb_spec (fst x) id).
  - simpl. rewrite count_none; [lia|]. intros y Hy Q. apply Hn. rewrite e, <- Q. apply in_map. exact Hy.
  - auto.
Qed.

(* ---------- every acknowledged committed snapshot is usable as a parent after restart ---------- *)
Lemma parents_total_m m q p i : MInv m q -> lookup m p = Some i -> exists l, parents (S (length m)) m p = POk l.
Proof.
  intros M L. destruct (parents_topo m [] (mi_names _ _ M) (mi_topo _ _ M) p i L) as [l R]. simpl in R. eauto.
Qed.

Lemma usable_as_parent s' key n i l cbad :
  MInv (meta s') (seq s') -> closed s' = false ->
  lookup (meta s') n = Some i -> i_kind i = KCommitted -> lookup (meta s') key = None ->
  In (DId (i_id i)) (dirs s') -> ~ In (DId (S (seq s'))) (dirs s') -> l_target l = None ->
  (exists m, snd (step s' (Prepare key (Some n) l true cbad)) = RMounts m) \/
  snd (step s' (Prepare key (Some n) l true cbad)) = RErr EUnavail.
Proof.
  intros M C L K LK HD NO LT. simpl. unfold do_prepare, create_snapshot. rewrite C.
  set (s1 := set_tmpc (set_dirs s' (DTemp (tmpc s') :: dirs s')) (S (tmpc s'))).
  assert (PT : exists lw, parents (fuel_of s1) (meta s1) n = POk lw).
  { unfold fuel_of. change (meta s1) with (meta s'). eapply parents_total_m; eauto. }
  destruct PT as [lw PT].
  assert (MC : meta_create s1 KActive key (Some n) = inr (mkSnap (S (seq s')) KActive lw)).
  { unfold meta_create. change (meta s1) with (meta s') in *. rewrite L, K. cbn [kind_eqb]. rewrite LK, PT.
    reflexivity. }
  rewrite MC. cbn [sn_parents sn_id].
  assert (LW : exists r, lw = i_id i :: r).
  { pose proof (parents_chain _ _ _ _ PT) as CH. change (meta s1) with (meta s') in CH.
    inversion CH as [p0 i0 L0 P0|p0 i0 q l0 L0 P0 C0]; subst; rewrite L in L0; inversion L0; subst; eauto. }
  destruct LW as [r ->].
  assert (H1 : has_dir s1 (DId (i_id i)) = true). { apply has_dir_in. simpl. right. exact HD. }
  rewrite H1. simpl negb. cbv iota.
  assert (H2 : has_dir s1 (DId (S (seq s'))) = false).
  { destruct (has_dir s1 (DId (S (seq s')))) eqn:Q; auto. apply has_dir_in in Q. simpl in Q.
    destruct Q as [Q|Q]; [discriminate|contradiction]. }
  rewrite H2. rewrite LT.
  match goal with |- context [mounts_of cbad ?s2 ?sn ?ck] =>
    destruct (mounts_of_spec cbad s2 sn ck) as [E [_ [_ [_ [_ [RR _]]]]]] end.
  destruct RR as [RR|RR]; rewrite RR; [left; eauto|right; reflexivity].
Qed.

(* ---------- composed statements about the restarted snapshotter ---------- *)
Lemma restarted_removable a os o order k c img nr allow mbad s' n i ub :
  nth_error (crash_points order (exec (init a) os) o) k = Some (c, img) ->
  restart nr allow mbad img = (s', true) ->
  lookup (meta s') n = Some i -> has_child (meta s') n = false ->
  snd (step s' (Remove n ub)) = ROk /\ lookup (meta (fst (step s' (Remove n ub)))) n = None.
Proof.
  intros H R L HC. apply nth_error_In in H. pose proof (crash_minv _ _ _ _ _ (reach_inv a os) H) as M.
  pose proof (restart_state _ _ _ _ _ R) as [ME [_ [C _]]].
  eapply removable with (m := meta s') (q := seq img); eauto. rewrite ME. exact M.
Qed.

Lemma restarted_usable a os o order k c img nr allow mbad s' ub key n i l cbad :
  let s := exec (init a) os in
  closed s = false ->
  nth_error (crash_points order s o) k = Some (c, img) ->
  restart nr allow mbad img = (s', true) ->
  (nr = false \/ is_close o = false) ->
  let s2 := fst (step s' (Cleanup ub)) in
  lookup (meta s2) n = Some i -> i_kind i = KCommitted -> lookup (meta s2) key = None -> l_target l = None ->
  (exists m, snd (step s2 (Prepare key (Some n) l true cbad)) = RMounts m) \/
  snd (step s2 (Prepare key (Some n) l true cbad)) = RErr EUnavail.
Proof.
  intros s C H R NC s2 L K LK LT.
  pose proof (one_cleanup_exact a os o order k c img nr allow mbad s' ub C H R NC) as [M2 [G D]]. fold s2 in M2, G, D.
  pose proof (nth_error_In _ _ H) as HI. pose proof (crash_minv _ _ _ _ _ (reach_inv a os) HI) as M.
  pose proof (restart_state _ _ _ _ _ R) as [_ [SQ [C' _]]].
  assert (F2 : seq s2 = seq s' /\ closed s2 = false).
  { unfold s2. simpl. unfold do_cleanup. rewrite C'. simpl.
    destruct (cleanup_dirs_spec ub (cleanup_list s' false) s') as [E [Sh _]]. destruct Sh. split; congruence. }
  destruct F2 as [SQ2 C2].
  apply usable_as_parent with (i := i);
    [rewrite M2, SQ2, SQ; exact M|exact C2|exact L|exact K|exact LK|apply (D n i); exact L| |exact LT].
  intros F. apply G in F. destruct F as [n' [j [F Q]]]. inversion Q. rewrite M2 in F.
  pose proof (mi_le _ _ M _ _ F). lia.
Qed.
