(* C03 — proofs about the footer codecs of Model/EsgzFooter.v:
   hex16 / little-endian codecs, parse . encode round trips for ALL offsets, exact sizes. *)
From Coq Require Import List NArith ZArith Bool Arith Lia.
From SV Require Import Gen.Consts Model.EsgzFooter.
Import ListNotations.
Open Scope N_scope.

(* ---------- generic list facts ---------- *)
Lemma firstn_app_exact {A} (l r : list A) n : n = length l -> firstn n (l ++ r) = l.
Proof.
  intros ->. rewrite firstn_app, Nat.sub_diag, firstn_all. simpl. apply app_nil_r.
Qed.

Lemma skipn_app_exact {A} (l r : list A) n : n = length l -> skipn n (l ++ r) = r.
Proof.
  intros ->. rewrite skipn_app, Nat.sub_diag, skipn_all. reflexivity.
Qed.

Lemma bytes_eqb_refl : forall b, bytes_eqb b b = true.
Proof. induction b as [|x b IH]; simpl; [reflexivity|]. rewrite N.eqb_refl, IH. reflexivity. Qed.

Lemma bytes_eqb_eq : forall a b, bytes_eqb a b = true -> a = b.
Proof.
  induction a as [|x a IH]; destruct b as [|y b]; simpl; try discriminate; [reflexivity|].
  intros H. apply andb_prop in H as [H1 H2]. apply N.eqb_eq in H1. subst. f_equal. auto.
Qed.

(* ---------- hex ---------- *)
Lemma small16 : forall d, d < 16 ->
  d = 0 \/ d = 1 \/ d = 2 \/ d = 3 \/ d = 4 \/ d = 5 \/ d = 6 \/ d = 7 \/ d = 8 \/ d = 9 \/ d = 10 \/ d = 11
  \/ d = 12 \/ d = 13 \/ d = 14 \/ d = 15.
Proof. intros d H. lia. Qed.

Lemma hexval_hexchar : forall d, d < 16 -> hexval (hexchar d) = Some d.
Proof.
  intros d H. destruct (small16 d H) as [E|[E|[E|[E|[E|[E|[E|[E|[E|[E|[E|[E|[E|[E|[E|E]]]]]]]]]]]]]]];
    subst; reflexivity.
Qed.

Lemma hexchar_not_sign : forall d, d < 16 -> (hexchar d =? 43) = false /\ (hexchar d =? 45) = false.
Proof.
  intros d H. destruct (small16 d H) as [E|[E|[E|[E|[E|[E|[E|[E|[E|[E|[E|[E|[E|[E|[E|E]]]]]]]]]]]]]]];
    subst; split; reflexivity.
Qed.

Lemma hexd_length : forall k n, length (hexd k n) = k.
Proof.
  induction k as [|k IH]; intros n; simpl; [reflexivity|].
  rewrite app_length, IH. simpl. lia.
Qed.

Lemma unhex_app : forall l c acc,
  unhex_acc (l ++ [c]) acc =
  match unhex_acc l acc with
  | Some a => match hexval c with Some d => Some (a * 16 + d) | None => None end
  | None => None
  end.
Proof.
  induction l as [|x l IH]; intros c acc; simpl.
  - destruct (hexval c); reflexivity.
  - destruct (hexval x); [apply IH|reflexivity].
Qed.

Lemma unhex_hexd : forall k n acc, unhex_acc (hexd k n) acc = Some (acc * 16 ^ N.of_nat k + n mod 16 ^ N.of_nat k).
Proof.
  induction k as [|k IH]; intros n acc.
  - simpl. rewrite N.mod_1_r. f_equal. lia.
  - cbn [hexd]. rewrite unhex_app, IH, hexval_hexchar by (apply N.mod_lt; lia).
    f_equal. rewrite Nat2N.inj_succ, N.pow_succ_r'.
    rewrite (N.mod_mul_r n 16 (16 ^ N.of_nat k)) by (try apply N.pow_nonzero; lia).
    lia.
Qed.

Lemma hexd_head : forall k n, exists d t, d < 16 /\ hexd (S k) n = hexchar d :: t.
Proof.
  induction k as [|k IH]; intros n.
  - exists (n mod 16), []. split; [apply N.mod_lt; lia|reflexivity].
  - destruct (IH (n / 16)) as (d & t & Hd & E).
    exists d, (t ++ [hexchar (n mod 16)]). split; [exact Hd|].
    change (hexd (S (S k)) n) with (hexd (S k) (n / 16) ++ [hexchar (n mod 16)]). rewrite E. reflexivity.
Qed.

(* strconv.ParseInt(fmt.Sprintf("%016x", off), 16, 64) = off for every non-negative int64 *)
Lemma parse_int16_hexd : forall off, off < 2 ^ 63 -> parse_int16 (hexd 16 off) = Some (Z.of_N off).
Proof.
  intros off H.
  destruct (hexd_head 15 off) as (d & t & Hd & E).
  assert (U : unhex_acc (hexd 16 off) 0 = Some off).
  { rewrite unhex_hexd. f_equal. rewrite N.mod_small; [lia|].
    change (16 ^ N.of_nat 16) with 18446744073709551616. change (2 ^ 63) with 9223372036854775808 in H. lia. }
  unfold parse_int16. rewrite E in *.
  destruct (hexchar_not_sign d Hd) as [S1 S2]. rewrite S1, S2.
  unfold parse_uint16. rewrite U.
  change (2 ^ 64) with 18446744073709551616. change (2 ^ 63) with 9223372036854775808 in *.
  destruct (off <? 18446744073709551616) eqn:L1; [|apply N.ltb_ge in L1; lia].
  destruct (off <? 9223372036854775808) eqn:L2; [reflexivity|apply N.ltb_ge in L2; lia].
Qed.

(* ---------- little endian ---------- *)
Lemma le_bytes_length : forall k n, length (le_bytes k n) = k.
Proof. induction k as [|k IH]; intros n; simpl; [reflexivity|]. rewrite IH. reflexivity. Qed.

Lemma le_val_le_bytes : forall k n, le_val (le_bytes k n) = n mod 256 ^ N.of_nat k.
Proof.
  induction k as [|k IH]; intros n.
  - simpl. rewrite N.mod_1_r. reflexivity.
  - cbn [le_bytes le_val]. rewrite IH, Nat2N.inj_succ, N.pow_succ_r'.
    rewrite (N.mod_mul_r n 256 (256 ^ N.of_nat k)) by (try apply N.pow_nonzero; lia). reflexivity.
Qed.

Lemma le_val_le_bytes8 : forall n, n < 2 ^ 64 -> le_val (le_bytes 8 n) = n.
Proof.
  intros n H. rewrite le_val_le_bytes. apply N.mod_small.
  change (256 ^ N.of_nat 8) with 18446744073709551616. change (2 ^ 64) with 18446744073709551616 in H. exact H.
Qed.

Lemma le_bytes_bound : forall k n, Forall (fun b => b < 256) (le_bytes k n).
Proof.
  induction k as [|k IH]; intros n; simpl; constructor; [apply N.mod_lt; lia|apply IH].
Qed.

(* ---------- gzip header of CreateGzipFooter ---------- *)
Lemma le16_small : forall n, n < 65536 -> n mod 256 + 256 * ((n / 256) mod 256) = n.
Proof.
  intros n H. rewrite (N.mod_small (n / 256) 256).
  - pose proof (N.div_mod' n 256). lia.
  - apply N.div_lt_upper_bound; lia.
Qed.

Lemma gzip_header_create : forall extra,
  N.of_nat (length extra) < 65536 -> gzip_header (create_gzip_footer extra) = HOk (Some extra).
Proof.
  intros extra H. unfold create_gzip_footer.
  set (tl := [1; 0; 0; 255; 255] ++ [0; 0; 0; 0; 0; 0; 0; 0]).
  set (L := N.of_nat (length extra)).
  assert (HL : L < 65536) by exact H.
  change (le_bytes 2 L) with [L mod 256; (L / 256) mod 256].
  cbn [app]. unfold gzip_header.
  change (31 =? 31) with true. change (139 =? 139) with true. change (8 =? 8) with true.
  change (N.testbit 4 1) with false. change (N.testbit 4 2) with true.
  change (N.testbit 4 3) with false. change (N.testbit 4 4) with false.
  cbn [andb negb].
  rewrite (le16_small L HL). unfold L. rewrite Nat2N.id.
  assert (E : (length extra <=? length (extra ++ tl))%nat = true).
  { apply Nat.leb_le. rewrite app_length. lia. }
  rewrite E. rewrite firstn_app_exact by reflexivity. reflexivity.
Qed.

Lemma create_gzip_footer_length : forall extra, length (create_gzip_footer extra) = (25 + length extra)%nat.
Proof.
  intros extra. unfold create_gzip_footer. repeat rewrite app_length. rewrite le_bytes_length. simpl. lia.
Qed.

(* ---------- the four round trips ---------- *)
Lemma gzip_extra_length : forall off, length ([83; 71] ++ le_bytes 2 22 ++ hexd 16 off ++ STARGZ) = 26%nat.
Proof. intros off. repeat rewrite app_length. rewrite hexd_length. reflexivity. Qed.

Lemma gzip_footer_length : forall off, length (gzip_footer_bytes off) = estargz_footer_size.
Proof.
  intros off. unfold gzip_footer_bytes. rewrite create_gzip_footer_length, gzip_extra_length. reflexivity.
Qed.

Lemma gzip_footer_roundtrip : forall off, off < 2 ^ 63 ->
  parse_gzip_footer (gzip_footer_bytes off) = POk (Z.of_N off) (Z.of_N off) 0.
Proof.
  intros off H. unfold parse_gzip_footer. rewrite gzip_footer_length, Nat.eqb_refl. cbn [negb].
  unfold gzip_footer_bytes. rewrite gzip_header_create by (rewrite gzip_extra_length; reflexivity).
  change (le_bytes 2 22) with [22; 0]. cbn [app].
  change ((83 =? 83) && (71 =? 71)) with true. change (22 + 256 * 0 =? 22) with true. cbn [negb].
  assert (LS : (length (hexd 16 off ++ STARGZ) <? 16)%nat = false).
  { apply Nat.ltb_ge. rewrite app_length, hexd_length. simpl. lia. }
  rewrite LS. rewrite skipn_app_exact by (rewrite hexd_length; reflexivity).
  rewrite bytes_eqb_refl. cbn [negb].
  rewrite firstn_app_exact by (rewrite hexd_length; reflexivity).
  rewrite parse_int16_hexd by exact H. reflexivity.
Qed.

Lemma legacy_extra_length : forall off, length (hexd 16 off ++ STARGZ) = 22%nat.
Proof. intros off. rewrite app_length, hexd_length. reflexivity. Qed.

Lemma legacy_footer_length : forall off, length (legacy_footer_bytes off) = estargz_legacy_footer_size.
Proof.
  intros off. unfold legacy_footer_bytes. rewrite create_gzip_footer_length, legacy_extra_length. reflexivity.
Qed.

Lemma legacy_footer_roundtrip : forall off, off < 2 ^ 63 ->
  parse_legacy_footer (legacy_footer_bytes off) = POk (Z.of_N off) (Z.of_N off) 0.
Proof.
  intros off H. unfold parse_legacy_footer. rewrite legacy_footer_length, Nat.eqb_refl. cbn [negb].
  unfold legacy_footer_bytes. rewrite gzip_header_create by (rewrite legacy_extra_length; reflexivity).
  rewrite legacy_extra_length. cbn [Nat.eqb negb].
  rewrite skipn_app_exact by (rewrite hexd_length; reflexivity).
  rewrite bytes_eqb_refl. cbn [negb].
  rewrite firstn_app_exact by (rewrite hexd_length; reflexivity).
  rewrite parse_int16_hexd by exact H. reflexivity.
Qed.

Lemma exttoc_footer_length : length exttoc_footer_bytes = exttoc_footer_size.
Proof. reflexivity. Qed.

Lemma exttoc_footer_roundtrip : parse_exttoc_footer exttoc_footer_bytes = POk (-1) (-1) 0.
Proof. reflexivity. Qed.

Lemma zstd_footer_length : forall t r c, length (zstd_footer_bytes t r c) = zstd_footer_size.
Proof.
  intros t r c. unfold zstd_footer_bytes. repeat rewrite app_length. repeat rewrite le_bytes_length. reflexivity.
Qed.

Lemma to_int64_small : forall n, n < 2 ^ 63 -> to_int64 n = Z.of_N n.
Proof.
  intros n H. unfold to_int64.
  change (2 ^ 64) with 18446744073709551616. change (2 ^ 63) with 9223372036854775808 in *.
  rewrite N.mod_small by lia.
  destruct (n <? 9223372036854775808) eqn:L; [reflexivity|apply N.ltb_ge in L; lia].
Qed.

Lemma to_int64_wrap : forall n, n < 2 ^ 63 -> to_int64 (n + 2 ^ 64) = Z.of_N n.
Proof.
  intros n H. unfold to_int64.
  replace ((n + 2 ^ 64) mod 2 ^ 64) with (n mod 2 ^ 64).
  - fold (to_int64 n). apply to_int64_small, H.
  - rewrite <- (N.mul_1_l (2 ^ 64)) at 2. rewrite N.mod_add; [reflexivity|]. apply N.pow_nonzero. lia.
Qed.

(* the parser applied to the 40 footer bytes written for payload size [off] *)
Lemma zstd_footer_roundtrip : forall off raw comp,
  off + 8 < 2 ^ 63 -> comp < 2 ^ 63 ->
  parse_zstd_footer (zstd_footer_bytes (off + 8) raw comp) = POk (Z.of_N off) (Z.of_N (off + 8)) (Z.of_N comp).
Proof.
  intros off raw comp H1 H2. unfold parse_zstd_footer.
  assert (LL : (length (zstd_footer_bytes (off + 8) raw comp) <? 40)%nat = false).
  { rewrite zstd_footer_length. reflexivity. }
  rewrite LL.
  assert (B64 : 2 ^ 63 < 2 ^ 64) by (apply N.pow_lt_mono_r; lia).
  assert (E1 : firstn 8 (zstd_footer_bytes (off + 8) raw comp) = le_bytes 8 (off + 8)).
  { unfold zstd_footer_bytes. apply firstn_app_exact. rewrite le_bytes_length. reflexivity. }
  assert (E2 : firstn 8 (skipn 8 (zstd_footer_bytes (off + 8) raw comp)) = le_bytes 8 comp).
  { unfold zstd_footer_bytes. rewrite skipn_app_exact by (rewrite le_bytes_length; reflexivity).
    apply firstn_app_exact. rewrite le_bytes_length. reflexivity. }
  assert (E3 : firstn 8 (skipn 32 (zstd_footer_bytes (off + 8) raw comp)) = zstd_chunked_magic).
  { unfold zstd_footer_bytes. repeat rewrite app_assoc.
    rewrite skipn_app_exact; [reflexivity|]. repeat rewrite app_length. repeat rewrite le_bytes_length. reflexivity. }
  rewrite E1, E2, E3.
  rewrite bytes_eqb_refl. cbn [negb].
  rewrite !le_val_le_bytes8 by lia.
  replace (off + 8 + 2 ^ 64 - 8) with (off + 2 ^ 64) by lia.
  rewrite to_int64_wrap by lia. rewrite !to_int64_small by lia. reflexivity.
Qed.

(* the last 48 bytes of a zstd:chunked blob are one skippable frame (RFC 8878 3.1.2) holding the footer *)
Lemma zstd_footer_frame_shape : forall off raw comp,
  zstd_footer_frame off raw comp = skippable_magic ++ [40; 0; 0; 0] ++ zstd_footer_bytes (off + 8) raw comp
  /\ length (zstd_footer_frame off raw comp) = (8 + zstd_footer_size)%nat.
Proof.
  intros off raw comp. unfold zstd_footer_frame, skippable. rewrite zstd_footer_length. split; [reflexivity|].
  repeat rewrite app_length. rewrite zstd_footer_length. reflexivity.
Qed.

(* distinct offsets give distinct footers (consequence of the round trip) *)
Lemma gzip_footer_injective : forall a b, a < 2 ^ 63 -> b < 2 ^ 63 -> gzip_footer_bytes a = gzip_footer_bytes b -> a = b.
Proof.
  intros a b Ha Hb E. pose proof (gzip_footer_roundtrip a Ha) as Ra. rewrite E, (gzip_footer_roundtrip b Hb) in Ra.
  injection Ra as Ra _. lia.
Qed.
