(* C03 — proofs about the writer / builder machine of Model/EsgzWriter.v. *)
From Coq Require Import List NArith ZArith Bool Arith Lia.
From SV Require Import Gen.Consts Model.EsgzFooter Model.EsgzWriter Proofs.EsgzFooter.
Import ListNotations.
Open Scope N_scope.

(* ================= divideEntries ================= *)
Lemma divide_go_concat : forall es u ne off cur, concat (divide_go es u ne off cur) = cur ++ es.
Proof.
  induction es as [|e es IH]; intros u ne off cur; simpl.
  - reflexivity.
  - destruct (ne <? off + e_size e).
    + simpl. rewrite IH. simpl. rewrite <- app_assoc. reflexivity.
    + rewrite IH, <- app_assoc. reflexivity.
Qed.

Lemma divide_concat : forall es k, concat (divide es k) = es.
Proof. intros es k. unfold divide. rewrite divide_go_concat. reflexivity. Qed.

Lemma divide_nonempty : forall es k, divide es k <> [].
Proof.
  intros es k. unfold divide. generalize (total_size es / k) at 2 as ne. generalize 0 as off. generalize (@nil entry) as cur.
  generalize (total_size es / k) as u.
  induction es as [|e es IH]; intros u cur off ne; simpl; [discriminate|].
  destruct (ne <? off + e_size e); [discriminate|apply IH].
Qed.

Lemma workers_parts_concat : forall o es k, concat (workers_parts o es k) = es.
Proof.
  intros o es k. unfold workers_parts. destruct (0 <? o_min o)%Z; [simpl; apply app_nil_r|apply divide_concat].
Qed.

(* ================= payload / diff / counter invariant ================= *)
Definition curb (s : wst) : bytes := match w_cur s with Some p => p | None => [] end.
Definition allpay (s : wst) : bytes := payloads (w_closed s) ++ curb s.

Lemma payloads_app : forall a b, payloads (a ++ b) = payloads a ++ payloads b.
Proof. intros a b. unfold payloads. rewrite map_app, concat_app. reflexivity. Qed.

Lemma csum_app : forall a b, csum (a ++ b) = csum a + csum b.
Proof. induction a as [|x a IH]; intros b; simpl; [reflexivity|]. rewrite IH. lia. Qed.

(* what one operation appends to the uncompressed stream: the stream and the diff hash input grow by the
   same bytes; the TOC only grows *)
Record ext (s s' : wst) (b : bytes) : Prop := mkExt {
  x_pay : allpay s' = allpay s ++ b;
  x_diff : w_diff s' = w_diff s ++ b
}.

Lemma ext_refl : forall s, ext s s [].
Proof. intros s. split; rewrite app_nil_r; reflexivity. Qed.

Lemma ext_trans : forall s1 s2 s3 a b, ext s1 s2 a -> ext s2 s3 b -> ext s1 s3 (a ++ b).
Proof.
  intros s1 s2 s3 a b [P1 D1] [P2 D2]. split.
  - rewrite P2, P1, app_assoc. reflexivity.
  - rewrite D2, D1, app_assoc. reflexivity.
Qed.

Lemma ext_nil_l : forall s1 s2 s3 b, ext s1 s2 [] -> ext s2 s3 b -> ext s1 s3 b.
Proof. intros s1 s2 s3 b H1 H2. exact (ext_trans _ _ _ _ _ H1 H2). Qed.

Lemma ext_nil_r : forall s1 s2 s3 b, ext s1 s2 b -> ext s2 s3 [] -> ext s1 s3 b.
Proof. intros s1 s2 s3 b H1 H2. rewrite <- (app_nil_r b). exact (ext_trans _ _ _ _ _ H1 H2). Qed.

Lemma ext_cond_open : forall s, ext s (cond_open s) [].
Proof.
  intros s. unfold cond_open. destruct (w_cur s) eqn:E; [apply ext_refl|].
  split; [unfold allpay, curb; simpl; rewrite E|simpl]; rewrite ?app_nil_r; reflexivity.
Qed.

Lemma ext_wr : forall s b n, ext s (wr s b n) b.
Proof.
  intros s b n. split; unfold allpay, curb, wr; simpl; [|reflexivity].
  destruct (w_cur s); simpl; rewrite ?app_nil_r, ?app_assoc; reflexivity.
Qed.

Lemma ext_close : forall s s', close_member s = Ok s' -> ext s s' [].
Proof.
  intros s s' H. unfold close_member in H. destruct (w_cur s) eqn:E.
  - destruct (w_cs s); [discriminate|]. injection H as <-.
    split; [|simpl; rewrite app_nil_r; reflexivity].
    unfold allpay, curb; simpl; rewrite E, ?app_nil_r.
    rewrite payloads_app. unfold payloads at 2. simpl. rewrite app_nil_r. reflexivity.
  - injection H as <-. apply ext_refl.
Qed.

Lemma ext_observe : forall s s', observe_flush s = Ok s' -> ext s s' [].
Proof.
  intros s s' H. unfold observe_flush in H. destruct (w_fs s); [discriminate|]. injection H as <-.
  split; unfold allpay, curb; simpl; rewrite app_nil_r; reflexivity.
Qed.

Lemma ext_set_prev : forall s a b, ext s (set_prev s a b) [].
Proof. intros. split; unfold allpay, curb; simpl; rewrite app_nil_r; reflexivity. Qed.

Lemma ext_add_toc : forall s t, ext s (add_toc s t) [].
Proof. intros. split; unfold allpay, curb; simpl; rewrite app_nil_r; reflexivity. Qed.

Definition chunk_bytes (i : io) (e : entry) (c : N * N * N) : bytes := sl (fst (fst c)) (snd (fst c)) (content i e).

Lemma ext_do_chunk : forall i o e first s c s', do_chunk i o e first s c = Ok s' -> ext s s' (chunk_bytes i e c).
Proof.
  intros i o e first s [[coff clen] csf] s' H. unfold do_chunk in H. unfold chunk_bytes. simpl.
  destruct (o_min o <=? 0)%Z.
  - simpl in H. destruct (close_member s) as [s2| |] eqn:C; try discriminate. simpl in H. injection H as <-.
    eapply ext_nil_l; [apply (ext_close _ _ C)|].
    eapply ext_nil_l; [apply ext_set_prev|].
    eapply ext_nil_l; [apply ext_cond_open|].
    eapply ext_nil_r; [apply ext_wr|apply ext_add_toc].
  - destruct (observe_flush s) as [s1| |] eqn:O; try discriminate. simpl in H.
    destruct (first && e_open e || (o_min o <=? Z.of_N (w_cwn s1) - Z.of_N (w_poff s1))%Z).
    + destruct (close_member s1) as [s2| |] eqn:C; try discriminate. simpl in H. injection H as <-.
      eapply ext_nil_l; [apply (ext_observe _ _ O)|].
      eapply ext_nil_l; [apply (ext_close _ _ C)|].
      eapply ext_nil_l; [apply ext_set_prev|].
      eapply ext_nil_l; [apply ext_cond_open|].
      eapply ext_nil_r; [apply ext_wr|apply ext_add_toc].
    + simpl in H. injection H as <-.
      eapply ext_nil_l; [apply (ext_observe _ _ O)|].
      eapply ext_nil_l; [apply ext_cond_open|].
      eapply ext_nil_r; [apply ext_wr|apply ext_add_toc].
Qed.

Lemma ext_do_chunks : forall i o e cl first s s',
  do_chunks i o e first s cl = Ok s' -> ext s s' (concat (map (chunk_bytes i e) cl)).
Proof.
  induction cl as [|c cl IH]; intros first s s' H; simpl in *.
  - injection H as <-. apply ext_refl.
  - destruct (do_chunk i o e first s c) as [s1| |] eqn:D; try discriminate. simpl in H.
    eapply ext_trans; [apply (ext_do_chunk _ _ _ _ _ _ _ D)|apply (IH _ _ _ H)].
Qed.

(* the chunk ranges tile [off, size) *)
Lemma skipn_add {A} : forall a b (l : list A), skipn (a + b) l = skipn b (skipn a l).
Proof.
  induction a as [|a IH]; intros b l; simpl; [reflexivity|].
  destruct l; simpl; [rewrite skipn_nil; reflexivity|apply IH].
Qed.

Lemma firstn_add {A} : forall a b (l : list A), firstn (a + b) l = firstn a l ++ firstn b (skipn a l).
Proof.
  induction a as [|a IH]; intros b l; simpl; [reflexivity|].
  destruct l; simpl; [rewrite firstn_nil; reflexivity|f_equal; apply IH].
Qed.

Lemma sl_tile : forall (l : bytes) a n m, sl a n l ++ sl (a + n) m l = sl a (n + m) l.
Proof.
  intros l a n m. unfold sl. rewrite !N2Nat.inj_add, skipn_add, firstn_add. reflexivity.
Qed.

Lemma chunk_list_tile : forall i e fuel cs off size,
  0 < cs -> size - off < cs * N.of_nat fuel ->
  concat (map (chunk_bytes i e) (chunk_list fuel cs off size)) = sl off (size - off) (content i e).
Proof.
  intros i e. induction fuel as [|fuel IH]; intros cs off size Hcs Hf.
  - simpl in *. lia.
  - simpl. destruct (off <? size) eqn:L.
    + apply N.ltb_lt in L. destruct (size - off <? cs) eqn:R.
      * simpl. rewrite app_nil_r. reflexivity.
      * apply N.ltb_ge in R. simpl. unfold chunk_bytes at 1. simpl. rewrite IH by lia.
        rewrite sl_tile. f_equal. lia.
    + apply N.ltb_ge in L. simpl. replace (size - off) with 0 by lia. reflexivity.
Qed.

Lemma chunks_tile : forall i e cs size, 0 < cs ->
  concat (map (chunk_bytes i e) (chunks cs size)) = firstn (N.to_nat size) (content i e).
Proof.
  intros i e cs size H. unfold chunks. rewrite chunk_list_tile.
  - unfold sl. rewrite N.sub_0_r. reflexivity.
  - exact H.
  - rewrite N.sub_0_r, Nat2N.inj_succ, N2Nat.id.
    pose proof (N.mod_lt size cs ltac:(lia)). pose proof (N.div_mod' size cs). lia.
Qed.

Lemma eff_chunk_pos : forall o, 0 < eff_chunk o.
Proof.
  intros o. unfold eff_chunk. destruct (o_chunk o <=? 0)%Z eqn:E; [lia|]. apply Z.leb_gt in E. lia.
Qed.

Lemma ext_step_entry : forall i o s e s', wf_entry i e ->
  step_entry i o s e = Ok s' -> ext s s' (ser_entry i false e).
Proof.
  intros i o s e s' (Hh & _ & Hc & Hp) H. unfold step_entry in H. unfold ser_entry.
  assert (G : forall s1, e_kind e = KReg \/ e_kind e = KMeta ->
     (if 0 <? data_size e
      then bind (do_chunks i o e true (wr (cond_open s) (hdr i e) (e_hlen e)) (chunks (eff_chunk o) (data_size e)))
             (fun s2 => Ok (if 0 <? pad512 (data_size e) then wr s2 (padb i e) (pad512 (data_size e)) else s2))
      else Ok s1) = Ok s' ->
     (0 <? data_size e = false -> ext s s1 (hdr i e)) ->
     ext s s' (hdr i e ++ content i e ++ padb i e)).
  { intros s1 K H1 H2. destruct (0 <? data_size e) eqn:Z.
    - destruct (do_chunks _ _ _ _ _ _) as [s2| |] eqn:D; try discriminate. simpl in H1. injection H1 as <-.
      apply ext_do_chunks in D. rewrite chunks_tile in D by apply eff_chunk_pos.
      rewrite <- Hc, Nat2N.id, firstn_all in D.
      eapply ext_trans; [|eapply ext_trans; [exact D|]].
      + eapply ext_nil_l; [apply ext_cond_open|apply ext_wr].
      + destruct (0 <? pad512 (data_size e)) eqn:P; [apply ext_wr|].
        apply N.ltb_ge in P. rewrite Hp. replace (pad512 (data_size e)) with 0 by lia. apply ext_refl.
    - injection H1 as <-. apply N.ltb_ge in Z.
      assert (content i e = []) as -> by (destruct (content i e); [reflexivity|simpl in Hc; lia]).
      rewrite Hp. replace (data_size e) with 0 by lia. simpl. rewrite app_nil_r. apply H2. reflexivity. }
  destruct (e_kind e) eqn:K.
  - eapply G; [auto|exact H|]. intros _.
    eapply ext_nil_l; [apply ext_cond_open|]. eapply ext_nil_r; [apply ext_wr|apply ext_add_toc].
  - eapply G; [auto|exact H|]. intros _.
    eapply ext_nil_l; [apply ext_cond_open|]. eapply ext_nil_r; [apply ext_wr|apply ext_add_toc].
  - destruct (o_lossless o); [discriminate|]. injection H as <-. apply ext_refl.
  - discriminate.
Qed.

Lemma ext_run_entries : forall i o es s s', Forall (wf_entry i) es ->
  run_entries i o s es = Ok s' -> ext s s' (ser i es).
Proof.
  induction es as [|e es IH]; intros s s' W H; simpl in *.
  - injection H as <-. apply ext_refl.
  - inversion W as [|? ? We Wes]; subst.
    destruct (step_entry i o s e) as [s1| |] eqn:S; try discriminate. simpl in H.
    unfold ser. simpl. eapply ext_trans; [apply (ext_step_entry _ _ _ _ _ We S)|apply (IH _ _ Wes H)].
Qed.

(* trailing raw bytes of a lossless input *)
Definition trail_of (i : io) (o : wopts) (tlen : N) : bytes := if o_lossless o && (0 <? tlen) then trail i else [].

Lemma ext_run_writer : forall i o tlen es cs fs w, Forall (wf_entry i) es ->
  run_writer i o tlen es cs fs = Ok w ->
  ext (init_w cs fs) w (ser i es ++ trail_of i o tlen) /\ w_cur w = None.
Proof.
  intros i o tlen es cs fs w W H. unfold run_writer, append_tar in H.
  destruct (run_entries i o (init_w cs fs) es) as [s1| |] eqn:R; try discriminate. simpl in H.
  split.
  - rewrite <- (app_nil_r (trail_of i o tlen)). rewrite app_assoc.
    eapply ext_trans; [|apply (ext_close _ _ H)].
    eapply ext_trans; [apply (ext_run_entries _ _ _ _ _ W R)|].
    unfold trail_of. destruct (o_lossless o && (0 <? tlen)); [apply ext_wr|apply ext_refl].
  - unfold close_member in H. destruct (w_cur _) eqn:E.
    + destruct (w_cs _); [discriminate|]. injection H as <-. reflexivity.
    + injection H as <-. exact E.
Qed.

(* T1 for the Writer: the decompressed payload is the serialisation of the entries (+ raw trailer), and it
   is exactly what the diff hash was fed *)
Lemma writer_payload : forall i o tlen es cs fs w, Forall (wf_entry i) es ->
  run_writer i o tlen es cs fs = Ok w ->
  payloads (w_closed w) = ser i es ++ trail_of i o tlen /\ w_diff w = payloads (w_closed w).
Proof.
  intros i o tlen es cs fs w W H. destruct (ext_run_writer _ _ _ _ _ _ _ W H) as [[P D] C].
  unfold allpay, curb in P. rewrite C in P. simpl in P. rewrite app_nil_r in P. simpl in D.
  split; [exact P|]. rewrite D, P. reflexivity.
Qed.

Lemma ser_app : forall i a b, ser i (a ++ b) = ser i a ++ ser i b.
Proof. intros. unfold ser. rewrite flat_map_app. reflexivity. Qed.

Lemma ser_concat : forall i parts, ser i (concat parts) = concat (map (ser i) parts).
Proof.
  induction parts as [|p ps IH]; simpl; [reflexivity|]. rewrite ser_app, IH. reflexivity.
Qed.

Lemma Forall_concat {A} (P : A -> Prop) : forall ls, Forall P (concat ls) -> Forall (Forall P) ls.
Proof.
  induction ls as [|l ls IH]; intros H; simpl in *; constructor.
  - apply Forall_app in H. apply H.
  - apply IH. apply Forall_app in H. apply H.
Qed.

Lemma parts_payload : forall i o parts cs fs ws, Forall (Forall (wf_entry i)) parts ->
  run_parts i o parts cs fs = Ok ws ->
  payloads (combine_members ws) = concat (map (ser i) parts).
Proof.
  induction parts as [|p ps IH]; intros cs fs ws W H; simpl in *.
  - injection H as <-. reflexivity.
  - inversion W as [|? ? Wp Wps]; subst.
    destruct (run_writer i o 0 p cs fs) as [w| |] eqn:R; try discriminate. simpl in H.
    destruct (run_parts i o ps (w_cs w) (w_fs w)) as [ws'| |] eqn:R'; try discriminate. simpl in H. injection H as <-.
    unfold combine_members. simpl. rewrite payloads_app. fold (combine_members ws').
    rewrite (IH _ _ _ Wps R'). destruct (writer_payload _ _ _ _ _ _ _ Wp R) as [P _].
    rewrite P. unfold trail_of. rewrite andb_false_r, app_nil_r. reflexivity.
Qed.

(* T1 for Build, any worker count *)
Lemma build_payload : forall i m chunk minc tlen es cs fs b, Forall (wf_entry i) es ->
  build_blob i m chunk minc tlen es cs fs = Ok b ->
  payloads (b_members b) = ser i es ++ match m with MLossless => if 0 <? tlen then trail i else [] | _ => [] end.
Proof.
  intros i m chunk minc tlen es cs fs b W H. destruct m as [| |k]; simpl in H.
  - destruct (run_writer _ _ _ _ _ _) as [w| |] eqn:R; try discriminate. injection H as <-.
    destruct (writer_payload _ _ _ _ _ _ _ W R) as [P _]. simpl. rewrite P. reflexivity.
  - destruct (run_writer _ _ _ _ _ _) as [w| |] eqn:R; try discriminate. injection H as <-.
    destruct (writer_payload _ _ _ _ _ _ _ W R) as [P _]. simpl. rewrite P. reflexivity.
  - destruct (run_parts _ _ _ _ _) as [ws| |] eqn:R; try discriminate. injection H as <-. simpl.
    rewrite (parts_payload _ _ _ _ _ _ (Forall_concat _ _ ltac:(rewrite workers_parts_concat; exact W)) R).
    rewrite <- ser_concat, workers_parts_concat, app_nil_r. reflexivity.
Qed.

(* ================= self-index consistency ================= *)
(* [loc i ms cb e t]: TOC entry [t] of file [e] is located in the blob whose closed members are [ms] and whose
   open member currently holds [cb] *)
Definition loc (i : io) (ms : list member) (cb : bytes) (e : entry) (t : tocent) : Prop :=
  exists k, (k <= length ms)%nat /\ t_off t = csum (firstn k ms)
    /\ t_coff t + chunk_len e t <= e_size e /\ 0 < chunk_len e t
    /\ t_inner t + chunk_len e t <= N.of_nat (length (payloads (skipn k ms) ++ cb))
    /\ sl (t_inner t) (chunk_len e t) (payloads (skipn k ms) ++ cb) = sl (t_coff t) (chunk_len e t) (content i e).

Lemma sl_app_l : forall (l r : bytes) off len, off + len <= N.of_nat (length l) -> sl off len (l ++ r) = sl off len l.
Proof.
  intros l r off len H. unfold sl. rewrite skipn_app, firstn_app.
  replace (N.to_nat len - length (skipn (N.to_nat off) l))%nat with 0%nat.
  - simpl. apply app_nil_r.
  - rewrite skipn_length. lia.
Qed.

Lemma sl_app_r : forall (l r : bytes) len, sl (N.of_nat (length l)) len (l ++ r) = firstn (N.to_nat len) r.
Proof.
  intros l r len. unfold sl. rewrite Nat2N.id, skipn_app, Nat.sub_diag, skipn_all. reflexivity.
Qed.

Lemma loc_grow : forall i ms cb b e t, loc i ms cb e t -> loc i ms (cb ++ b) e t.
Proof.
  intros i ms cb b e t (k & Hk & Ho & Hr & Hp & Hb & Hs). exists k. repeat split; try assumption.
  - rewrite app_assoc, app_length. lia.
  - rewrite app_assoc, sl_app_l by exact Hb. exact Hs.
Qed.

Lemma loc_close : forall i ms cb c e t, loc i ms cb e t -> loc i (ms ++ [(c, cb)]) [] e t.
Proof.
  intros i ms cb c e t (k & Hk & Ho & Hr & Hp & Hb & Hs). exists k.
  assert (E1 : firstn k (ms ++ [(c, cb)]) = firstn k ms).
  { rewrite firstn_app. replace (k - length ms)%nat with 0%nat by lia. simpl. apply app_nil_r. }
  assert (E2 : payloads (skipn k (ms ++ [(c, cb)])) ++ [] = payloads (skipn k ms) ++ cb).
  { rewrite skipn_app. replace (k - length ms)%nat with 0%nat by lia. simpl.
    rewrite payloads_app, app_nil_r. unfold payloads at 2. simpl. rewrite app_nil_r. reflexivity. }
  rewrite E1, E2. repeat split; try assumption. rewrite app_length. simpl. lia.
Qed.

Record inv (i : io) (es : list entry) (s : wst) : Prop := mkInv {
  i_mstart : w_mstart s = csum (w_closed s);
  i_poff : w_poff s = w_mstart s;
  i_unc : N.of_nat (length (curb s)) + w_punc s = w_unc s;
  i_cwn : w_cur s = None -> w_cwn s = w_mstart s;
  i_toc : forall t, In t (w_toc s) -> is_data t = true ->
          exists e, In e es /\ e_id e = t_id t /\ e_kind e = KReg /\ loc i (w_closed s) (curb s) e t
}.

Lemma inv_init : forall i es cs fs, inv i es (init_w cs fs).
Proof. intros. split; simpl; try reflexivity. intros t []. Qed.

Lemma inv_cond_open : forall i es s, inv i es s -> inv i es (cond_open s) /\ w_cur (cond_open s) <> None.
Proof.
  intros i es s I. unfold cond_open. destruct (w_cur s) eqn:E.
  - split; [exact I|]. rewrite E. discriminate.
  - split; [|simpl; discriminate]. destruct I as [I1 I2 I3 I4 I5].
    split; simpl; try assumption.
    + unfold curb in *. rewrite E in I3. exact I3.
    + discriminate.
    + intros t Ht Hd. destruct (I5 t Ht Hd) as (e & He). exists e. unfold curb in *. rewrite E in He. exact He.
Qed.

Lemma inv_wr : forall i es s b n, inv i es s -> N.of_nat (length b) = n -> inv i es (wr s b n) /\ w_cur (wr s b n) <> None.
Proof.
  intros i es s b n [I1 I2 I3 I4 I5] L. split; [|simpl; discriminate].
  split; simpl; try assumption.
  - unfold curb in *. simpl. rewrite app_length. lia.
  - discriminate.
  - intros t Ht Hd. destruct (I5 t Ht Hd) as (e & H1 & H2 & H3 & H4). exists e. repeat split; try assumption.
    unfold curb in *. simpl. apply loc_grow. exact H4.
Qed.

Lemma inv_observe : forall i es s s', inv i es s -> w_cur s <> None -> observe_flush s = Ok s' ->
  inv i es s' /\ w_cur s' <> None /\ w_poff s' = w_poff s /\ w_unc s' = w_unc s /\ w_punc s' = w_punc s /\ curb s' = curb s
  /\ w_closed s' = w_closed s.
Proof.
  intros i es s s' [I1 I2 I3 I4 I5] C H. unfold observe_flush in H. destruct (w_fs s); [discriminate|]. injection H as <-.
  simpl. repeat split; try assumption. simpl. intros E. contradiction.
Qed.

(* closeGz at a chunk start followed by "prevOffset = w.cw.n; prevOffsetUncompressed = counter" *)
Lemma inv_close_prev : forall i es s s2, inv i es s -> close_member s = Ok s2 ->
  let s3 := set_prev s2 (w_cwn s2) (w_unc s2) in
  inv i es s3 /\ w_cur s3 = None /\ w_cwn s2 = csum (w_closed s3) /\ w_unc s3 = w_unc s.
Proof.
  intros i es s s2 [I1 I2 I3 I4 I5] H. unfold close_member in H. destruct (w_cur s) eqn:E.
  - destruct (w_cs s) as [|c cs']; [discriminate|]. injection H as <-. simpl.
    assert (CS : w_mstart s + c = csum (w_closed s ++ [(c, b)])) by (rewrite csum_app, I1; simpl; lia).
    split; [|split; [reflexivity|split; [exact CS|reflexivity]]].
    split; simpl.
    + exact CS.
    + reflexivity.
    + unfold curb. simpl. reflexivity.
    + intros _. reflexivity.
    + intros t Ht Hd. destruct (I5 t Ht Hd) as (e & H1 & H2 & H3 & H4). exists e. repeat split; try assumption.
      unfold curb in *. simpl. rewrite E in H4. apply loc_close. exact H4.
  - injection H as <-. simpl. specialize (I4 eq_refl).
    split; [|split; [exact E|split; [congruence|reflexivity]]].
    split; simpl.
    + exact I1.
    + exact I4.
    + unfold curb. simpl. rewrite E. reflexivity.
    + intros _. exact I4.
    + intros t Ht Hd. destruct (I5 t Ht Hd) as (e & H1 & H2 & H3 & H4). exists e. repeat split; try assumption.
Qed.

Lemma inv_add_toc_nodata : forall i es s t, inv i es s -> is_data t = false -> inv i es (add_toc s t).
Proof.
  intros i es s t [I1 I2 I3 I4 I5] N. split; simpl; try assumption.
  intros t' Ht Hd. apply in_app_or in Ht as [Ht|[<-|[]]]; [exact (I5 t' Ht Hd)|congruence].
Qed.

Lemma inv_add_toc_data : forall i es s t e, inv i es s -> In e es -> e_id e = t_id t -> e_kind e = KReg ->
  loc i (w_closed s) (curb s) e t -> inv i es (add_toc s t).
Proof.
  intros i es s t e [I1 I2 I3 I4 I5] He Hi Hk Hl. split; simpl; try assumption.
  intros t' Ht Hd. apply in_app_or in Ht as [Ht|[<-|[]]]; [exact (I5 t' Ht Hd)|].
  exists e. repeat split; assumption.
Qed.

(* properties of one chunk range of file [e] *)
Definition chunk_ok (e : entry) (c : N * N * N) : Prop :=
  let '(coff, clen, csf) := c in
  coff + clen <= e_size e /\ 0 < clen /\ (if csf =? 0 then e_size e - coff else csf) = clen.

Lemma chunk_list_ok : forall e fuel cs off, 0 < cs -> Forall (chunk_ok e) (chunk_list fuel cs off (e_size e)).
Proof.
  intros e. induction fuel as [|fuel IH]; intros cs off Hcs; simpl; [constructor|].
  destruct (off <? e_size e) eqn:L; [|constructor]. apply N.ltb_lt in L.
  destruct (e_size e - off <? cs) eqn:R.
  - constructor; [|constructor]. simpl. repeat split; lia.
  - apply N.ltb_ge in R. constructor; [|apply IH; exact Hcs]. simpl.
    destruct (cs =? 0) eqn:Z; [apply N.eqb_eq in Z; lia|]. repeat split; lia.
Qed.

Lemma sl_length : forall (l : bytes) off len, off + len <= N.of_nat (length l) -> length (sl off len l) = N.to_nat len.
Proof. intros l off len H. unfold sl. rewrite firstn_length, skipn_length. lia. Qed.

Lemma sl_whole : forall (l : bytes) len, N.to_nat len = length l -> sl 0 len l = l.
Proof. intros l len H. unfold sl. simpl. rewrite H. apply firstn_all. Qed.

Lemma inv_do_chunk : forall i o es e first s c s',
  inv i es s -> w_cur s <> None -> In e es -> e_kind e = KReg -> N.of_nat (length (content i e)) = e_size e ->
  (first = true -> 0 < e_size e) -> chunk_ok e c ->
  do_chunk i o e first s c = Ok s' -> inv i es s' /\ w_cur s' <> None.
Proof.
  intros i o es e first s [[coff clen] csf] s' I C He Hk Hc Hf (R1 & R2 & R3) H.
  unfold do_chunk in H.
  set (cb := sl coff clen (content i e)) in *.
  assert (Lcb : length cb = N.to_nat clen) by (apply sl_length; lia).
  assert (DATA : forall off inner, is_data (mkT (e_id e) (if first then TReg else TChunk) (if first then e_size e else 0) off inner coff csf) = true).
  { intros. unfold is_data. simpl. destruct first; [apply N.ltb_lt; auto|reflexivity]. }
  (* the two ways of placing the chunk *)
  assert (CLOSE : forall s1, inv i es s1 -> forall s2, close_member s1 = Ok s2 ->
     inv i es (add_toc (wr (cond_open (set_prev s2 (w_cwn s2) (w_unc s2))) cb clen)
                 (mkT (e_id e) (if first then TReg else TChunk) (if first then e_size e else 0) (w_cwn s2) 0 coff csf))
     /\ w_cur (add_toc (wr (cond_open (set_prev s2 (w_cwn s2) (w_unc s2))) cb clen)
                 (mkT (e_id e) (if first then TReg else TChunk) (if first then e_size e else 0) (w_cwn s2) 0 coff csf)) <> None).
  { intros s1 I1 s2 Cl. destruct (inv_close_prev _ _ _ _ I1 Cl) as (J & Jc & Jw & _).
    set (s3 := set_prev s2 (w_cwn s2) (w_unc s2)) in *.
    destruct (inv_cond_open _ _ _ J) as [J1 _].
    destruct (inv_wr _ _ _ cb clen J1 ltac:(lia)) as [J2 _].
    split; [|simpl; discriminate].
    eapply inv_add_toc_data; [exact J2|exact He|reflexivity|exact Hk|].
    assert (Cl3 : w_closed (wr (cond_open s3) cb clen) = w_closed s3).
    { unfold wr, cond_open. destruct (w_cur s3); reflexivity. }
    assert (Cb3 : curb (wr (cond_open s3) cb clen) = cb).
    { unfold curb, wr, cond_open. rewrite Jc. simpl. reflexivity. }
    rewrite Cl3, Cb3. exists (length (w_closed s3)). unfold chunk_len. simpl. rewrite R3.
    rewrite firstn_all, skipn_all. simpl.
    repeat split; try lia; try assumption.
    fold cb. apply sl_whole. lia. }
  assert (KEEP : forall s1, inv i es s1 -> w_cur s1 <> None ->
     inv i es (add_toc (wr (cond_open s1) cb clen)
                 (mkT (e_id e) (if first then TReg else TChunk) (if first then e_size e else 0) (w_poff s1) (w_unc s1 - w_punc s1) coff csf))
     /\ w_cur (add_toc (wr (cond_open s1) cb clen)
                 (mkT (e_id e) (if first then TReg else TChunk) (if first then e_size e else 0) (w_poff s1) (w_unc s1 - w_punc s1) coff csf)) <> None).
  { intros s1 I1 C1. destruct (inv_cond_open _ _ _ I1) as [J1 _].
    destruct (inv_wr _ _ _ cb clen J1 ltac:(lia)) as [J2 _].
    split; [|simpl; discriminate].
    eapply inv_add_toc_data; [exact J2|exact He|reflexivity|exact Hk|].
    destruct (w_cur s1) as [p|] eqn:E; [|contradiction].
    assert (Cl3 : w_closed (wr (cond_open s1) cb clen) = w_closed s1).
    { unfold wr, cond_open. rewrite E. reflexivity. }
    assert (Cb3 : curb (wr (cond_open s1) cb clen) = p ++ cb).
    { unfold curb, wr, cond_open. rewrite E. simpl. rewrite E. reflexivity. }
    rewrite Cl3, Cb3. destruct I1 as [K1 K2 K3 K4 K5]. unfold curb in K3. rewrite E in K3.
    exists (length (w_closed s1)). unfold chunk_len. simpl. rewrite R3.
    rewrite firstn_all, skipn_all. simpl.
    replace (w_unc s1 - w_punc s1) with (N.of_nat (length p)) by lia.
    repeat split; try lia; try assumption.
    - rewrite app_length. lia.
    - rewrite sl_app_r. rewrite <- Lcb. fold cb. apply firstn_all. }
  destruct (o_min o <=? 0)%Z.
  - simpl in H. destruct (close_member s) as [s2| |] eqn:Cl; try discriminate. simpl in H. injection H as <-.
    exact (CLOSE s I s2 Cl).
  - destruct (observe_flush s) as [s1| |] eqn:O; try discriminate. simpl in H.
    destruct (inv_observe _ _ _ _ I C O) as (I1 & C1 & _).
    destruct (first && e_open e || (o_min o <=? Z.of_N (w_cwn s1) - Z.of_N (w_poff s1))%Z).
    + destruct (close_member s1) as [s2| |] eqn:Cl; try discriminate. simpl in H. injection H as <-.
      exact (CLOSE s1 I1 s2 Cl).
    + simpl in H. injection H as <-. exact (KEEP s1 I1 C1).
Qed.

Lemma inv_do_chunks : forall i o es e cl first s s',
  inv i es s -> w_cur s <> None -> In e es -> e_kind e = KReg -> N.of_nat (length (content i e)) = e_size e ->
  0 < e_size e -> Forall (chunk_ok e) cl ->
  do_chunks i o e first s cl = Ok s' -> inv i es s' /\ w_cur s' <> None.
Proof.
  induction cl as [|c cl IH]; intros first s s' I C He Hk Hc Hs F H; simpl in H.
  - injection H as <-. split; assumption.
  - inversion F as [|? ? Fc Fcl]; subst.
    destruct (do_chunk i o e first s c) as [s1| |] eqn:D; try discriminate. simpl in H.
    destruct (inv_do_chunk _ _ _ _ _ _ _ _ I C He Hk Hc (fun _ => Hs) Fc D) as [I1 C1].
    exact (IH false s1 s' I1 C1 He Hk Hc Hs Fcl H).
Qed.

Lemma inv_step_entry : forall i o es s e s', inv i es s -> In e es -> wf_entry i e ->
  step_entry i o s e = Ok s' -> inv i es s'.
Proof.
  intros i o es s e s' I He (Hh & Hh0 & Hc & Hp) H. unfold step_entry in H.
  destruct (inv_cond_open _ _ _ I) as [I0 _].
  destruct (inv_wr _ _ _ (hdr i e) (e_hlen e) I0 Hh) as [I1 C1].
  destruct (e_kind e) eqn:K.
  - (* regular file *)
    assert (DS : data_size e = e_size e) by (unfold data_size; rewrite K; reflexivity).
    rewrite DS in *. destruct (0 <? e_size e) eqn:Z.
    + apply N.ltb_lt in Z.
      destruct (do_chunks _ _ _ _ _ _) as [s2| |] eqn:D; try discriminate. simpl in H. injection H as <-.
      destruct (inv_do_chunks _ _ _ _ _ _ _ _ I1 C1 He K Hc Z (chunk_list_ok e _ _ 0 (eff_chunk_pos o)) D) as [I2 C2].
      destruct (0 <? pad512 (e_size e)); [|exact I2].
      apply inv_wr; [exact I2|]. rewrite Hp, repeat_length. lia.
    + injection H as <-. apply inv_add_toc_nodata; [exact I1|]. unfold is_data. simpl. exact Z.
  - assert (DS : data_size e = 0) by (unfold data_size; rewrite K; reflexivity).
    rewrite DS in H. simpl in H. injection H as <-. apply inv_add_toc_nodata; [exact I1|]. reflexivity.
  - destruct (o_lossless o); [discriminate|]. injection H as <-. exact I.
  - discriminate.
Qed.

Lemma inv_run_entries : forall i o es es' s s', inv i es s -> incl es' es -> Forall (wf_entry i) es' ->
  run_entries i o s es' = Ok s' -> inv i es s'.
Proof.
  induction es' as [|e es' IH]; intros s s' I Inc W H; simpl in H.
  - injection H as <-. exact I.
  - inversion W as [|? ? We Wes]; subst.
    destruct (step_entry i o s e) as [s1| |] eqn:S; try discriminate. simpl in H.
    apply (IH s1 s'); try assumption.
    + eapply inv_step_entry; [exact I| |exact We|exact S]. apply Inc. left. reflexivity.
    + intros x Hx. apply Inc. right. exact Hx.
Qed.

(* a finished writer (after the final closeGz) *)
Record fin (i : io) (es : list entry) (w : wst) : Prop := mkFin {
  f_cur : w_cur w = None;
  f_cwn : w_cwn w = csum (w_closed w);
  f_toc : forall t, In t (w_toc w) -> is_data t = true ->
          exists e, In e es /\ e_id e = t_id t /\ e_kind e = KReg /\ located i (w_closed w) e t
}.

Lemma loc_located : forall i ms e t, loc i ms [] e t -> located i ms e t.
Proof.
  intros i ms e t (k & H). exists k. rewrite app_nil_r in H. exact H.
Qed.

Lemma fin_of_inv : forall i es s w, inv i es s -> close_member s = Ok w -> fin i es w.
Proof.
  intros i es s w [I1 I2 I3 I4 I5] H. unfold close_member in H. destruct (w_cur s) eqn:E.
  - destruct (w_cs s); [discriminate|]. injection H as <-. split; simpl; try reflexivity.
    + rewrite csum_app, I1. simpl. lia.
    + intros t Ht Hd. destruct (I5 t Ht Hd) as (e & H1 & H2 & H3 & H4). exists e. repeat split; try assumption.
      apply loc_located. unfold curb in H4. rewrite E in H4. apply loc_close. exact H4.
  - injection H as <-. split; try assumption.
    + rewrite (I4 eq_refl). exact I1.
    + intros t Ht Hd. destruct (I5 t Ht Hd) as (e & H1 & H2 & H3 & H4). exists e. repeat split; try assumption.
      apply loc_located. unfold curb in H4. rewrite E in H4. exact H4.
Qed.

Lemma inv_wr_any : forall i es s b n, inv i es s ->
  exists s0, inv i es s0 /\ w_closed s0 = w_closed (wr s b n) /\ w_cur s0 = w_cur (wr s b n) /\ w_toc s0 = w_toc (wr s b n)
             /\ w_mstart s0 = w_mstart (wr s b n) /\ w_cs s0 = w_cs (wr s b n).
Proof.
  intros i es s b n I. exists (wr s b (N.of_nat (length b))). split; [apply inv_wr; [exact I|reflexivity]|].
  repeat split; reflexivity.
Qed.

Lemma fin_run_writer : forall i o tlen es es' cs fs w, incl es' es -> Forall (wf_entry i) es' ->
  run_writer i o tlen es' cs fs = Ok w -> fin i es w.
Proof.
  intros i o tlen es es' cs fs w Inc W H. unfold run_writer, append_tar in H.
  destruct (run_entries i o (init_w cs fs) es') as [s1| |] eqn:R; try discriminate. simpl in H.
  pose proof (inv_run_entries _ _ _ _ _ _ (inv_init i es cs fs) Inc W R) as I1.
  destruct (o_lossless o && (0 <? tlen)); [|exact (fin_of_inv _ _ _ _ I1 H)].
  (* the raw trailer: its length plays no role for the index *)
  destruct (inv_wr _ _ _ (trail i) (N.of_nat (length (trail i))) I1 eq_refl) as [I2 _].
  assert (H' : close_member (wr s1 (trail i) (N.of_nat (length (trail i)))) =
               Ok (mkW (w_closed w) (w_cur w) (w_mstart w) (w_cwn w) (w_unc s1 + N.of_nat (length (trail i))) (w_poff w) (w_punc w)
                       (w_toc w) (w_diff w) (w_cs w) (w_fs w))).
  { unfold close_member in *. simpl in *. destruct (w_cs s1); [discriminate|]. injection H as <-. reflexivity. }
  destruct (fin_of_inv _ _ _ _ I2 H') as [F1 F2 F3]. split; assumption.
Qed.

(* T2 for the Writer *)
Lemma writer_self_index : forall i o tlen es cs fs w, Forall (wf_entry i) es ->
  run_writer i o tlen es cs fs = Ok w ->
  w_cwn w = csum (w_closed w) /\
  forall t, In t (w_toc w) -> is_data t = true ->
    exists e, In e es /\ e_id e = t_id t /\ e_kind e = KReg /\ located i (w_closed w) e t.
Proof.
  intros i o tlen es cs fs w W H.
  destruct (fin_run_writer i o tlen es es cs fs w (incl_refl es) W H) as [F1 F2 F3]. split; assumption.
Qed.

(* ---- closeWithCombine ---- *)
Lemma is_data_shift : forall d t, is_data (shift d t) = is_data t.
Proof. intros d t. unfold shift. destruct (is_data t) eqn:E; [|exact E]. unfold is_data in *. simpl. exact E. Qed.

Lemma located_embed : forall i pre ms post e t, located i ms e t -> is_data t = true ->
  located i (pre ++ ms ++ post) e (shift (csum pre) t).
Proof.
  intros i pre ms post e t (k & Hk & Ho & Hr & Hp & Hb & Hs) D.
  exists (length pre + k)%nat.
  assert (CL : chunk_len e (shift (csum pre) t) = chunk_len e t).
  { unfold shift. rewrite D. reflexivity. }
  assert (E1 : firstn (length pre + k) (pre ++ ms ++ post) = pre ++ firstn k ms).
  { rewrite firstn_app. rewrite firstn_all2 by lia. f_equal.
    replace (length pre + k - length pre)%nat with k by lia.
    rewrite firstn_app. replace (k - length ms)%nat with 0%nat by lia. simpl. apply app_nil_r. }
  assert (E2 : skipn (length pre + k) (pre ++ ms ++ post) = skipn k ms ++ post).
  { rewrite skipn_app. rewrite skipn_all2 by lia. simpl.
    replace (length pre + k - length pre)%nat with k by lia.
    rewrite skipn_app. replace (k - length ms)%nat with 0%nat by lia. reflexivity. }
  rewrite CL, E1, E2, payloads_app.
  assert (F : t_off (shift (csum pre) t) = csum (pre ++ firstn k ms) /\ t_inner (shift (csum pre) t) = t_inner t
              /\ t_coff (shift (csum pre) t) = t_coff t).
  { unfold shift. rewrite D. simpl. rewrite csum_app, Ho. repeat split. lia. }
  destruct F as (F1 & F2 & F3). rewrite F1, F2, F3.
  repeat split; try assumption.
  - rewrite !app_length. lia.
  - rewrite app_length. lia.
  - rewrite sl_app_l by exact Hb. exact Hs.
Qed.

Lemma csum_concat_closed : forall i es ws, Forall (fin i es) ws -> csum (combine_members ws) = combine_total ws.
Proof.
  induction ws as [|w ws IH]; intros F; simpl; [reflexivity|].
  inversion F as [|? ? Fw Fws]; subst. unfold combine_members in *. simpl. rewrite csum_app, IH by exact Fws.
  destruct Fw as [_ Fc _]. rewrite Fc. reflexivity.
Qed.

Lemma combine_located : forall i es ws pre, Forall (fin i es) ws ->
  forall t, In t (combine_toc ws (csum pre)) -> is_data t = true ->
    exists e, In e es /\ e_id e = t_id t /\ e_kind e = KReg /\ located i (pre ++ combine_members ws) e t.
Proof.
  induction ws as [|w ws IH]; intros pre F t Ht Hd; simpl in Ht; [contradiction|].
  inversion F as [|? ? Fw Fws]; subst.
  unfold combine_members. simpl. fold (combine_members ws).
  apply in_app_or in Ht as [Ht|Ht].
  - apply in_map_iff in Ht as (t0 & <- & Ht0). rewrite is_data_shift in Hd.
    destruct Fw as [_ _ Ft]. destruct (Ft t0 Ht0 Hd) as (e & H1 & H2 & H3 & H4).
    exists e. repeat split; try assumption.
    + unfold shift. rewrite Hd. simpl. exact H2.
    + apply located_embed; assumption.
  - destruct Fw as [_ Fc _]. rewrite Fc, <- csum_app in Ht.
    destruct (IH (pre ++ w_closed w) Fws t Ht Hd) as (e & H1 & H2 & H3 & H4).
    exists e. repeat split; try assumption. rewrite <- app_assoc in H4. exact H4.
Qed.

Lemma fin_run_parts : forall i o es parts cs fs ws, incl (concat parts) es -> Forall (Forall (wf_entry i)) parts ->
  run_parts i o parts cs fs = Ok ws -> Forall (fin i es) ws.
Proof.
  induction parts as [|p ps IH]; intros cs fs ws Inc W H; simpl in H.
  - injection H as <-. constructor.
  - inversion W as [|? ? Wp Wps]; subst.
    destruct (run_writer i o 0 p cs fs) as [w| |] eqn:R; try discriminate. simpl in H.
    destruct (run_parts i o ps (w_cs w) (w_fs w)) as [ws'| |] eqn:R'; try discriminate. simpl in H. injection H as <-.
    simpl in Inc. constructor.
    + eapply fin_run_writer; [|exact Wp|exact R]. intros x Hx. apply Inc. apply in_or_app. left. exact Hx.
    + eapply IH; [|exact Wps|exact R']. intros x Hx. apply Inc. apply in_or_app. right. exact Hx.
Qed.

(* T2 for every way of building a blob: every offset-carrying TOC entry is located in the blob, and the offset
   handed to WriteTOCAndFooter (the footer's TOC offset) is the end of the payload members *)
Lemma build_self_index : forall i m chunk minc tlen es cs fs b, Forall (wf_entry i) es ->
  build_blob i m chunk minc tlen es cs fs = Ok b ->
  b_total b = csum (b_members b) /\
  forall t, In t (b_toc b) -> is_data t = true ->
    exists e, In e es /\ e_id e = t_id t /\ e_kind e = KReg /\ located i (b_members b) e t.
Proof.
  intros i m chunk minc tlen es cs fs b W H. destruct m as [| |k]; simpl in H.
  - destruct (run_writer _ _ _ _ _ _) as [w| |] eqn:R; try discriminate. injection H as <-. simpl.
    exact (writer_self_index _ _ _ _ _ _ _ W R).
  - destruct (run_writer _ _ _ _ _ _) as [w| |] eqn:R; try discriminate. injection H as <-. simpl.
    exact (writer_self_index _ _ _ _ _ _ _ W R).
  - destruct (run_parts _ _ _ _ _) as [ws| |] eqn:R; try discriminate. injection H as <-. simpl.
    assert (F : Forall (fin i es) ws).
    { eapply fin_run_parts; [| |exact R].
      - rewrite workers_parts_concat. apply incl_refl.
      - apply Forall_concat. rewrite workers_parts_concat. exact W. }
    split; [symmetry; exact (csum_concat_closed _ _ _ F)|].
    intros t Ht Hd. exact (combine_located i es ws [] F t Ht Hd).
Qed.

(* ================= the TOC is complete: one group of entries per input entry, in order ================= *)
Definition strip (t : tocent) : N * ttype * N * N * N := (t_id t, t_type t, t_size t, t_coff t, t_csize t).

Fixpoint spec_chunks (e : entry) (first : bool) (cl : list (N * N * N)) : list (N * ttype * N * N * N) :=
  match cl with
  | [] => []
  | (coff, _, csf) :: t =>
      (e_id e, if first then TReg else TChunk, if first then e_size e else 0, coff, csf) :: spec_chunks e false t
  end.

(* what the TOC must say about entry [e]: nothing for a dropped entry, one entry for an empty / non-regular one,
   one "reg" + "chunk"s whose ranges are [chunks (chunk size) (file size)] otherwise *)
Definition toc_spec (o : wopts) (e : entry) : list (N * ttype * N * N * N) :=
  match e_kind e with
  | KToc | KBad => []
  | k => if 0 <? data_size e then spec_chunks e true (chunks (eff_chunk o) (data_size e))
         else [(e_id e, match k with KReg => TReg | _ => TOther end, data_size e, 0, 0)]
  end.

Definition tx (s s' : wst) (l : list (N * ttype * N * N * N)) : Prop := map strip (w_toc s') = map strip (w_toc s) ++ l.

Lemma tx_same : forall s s', w_toc s' = w_toc s -> tx s s' [].
Proof. intros s s' H. unfold tx. rewrite H, app_nil_r. reflexivity. Qed.

Lemma tx_trans : forall s1 s2 s3 a b, tx s1 s2 a -> tx s2 s3 b -> tx s1 s3 (a ++ b).
Proof. unfold tx. intros s1 s2 s3 a b H1 H2. rewrite H2, H1, app_assoc. reflexivity. Qed.

Lemma toc_close : forall s s', close_member s = Ok s' -> w_toc s' = w_toc s.
Proof.
  intros s s' H. unfold close_member in H. destruct (w_cur s); [destruct (w_cs s); [discriminate|]|]; injection H as <-; reflexivity.
Qed.

Lemma toc_observe : forall s s', observe_flush s = Ok s' -> w_toc s' = w_toc s.
Proof. intros s s' H. unfold observe_flush in H. destruct (w_fs s); [discriminate|]. injection H as <-. reflexivity. Qed.

Lemma toc_cond_open : forall s, w_toc (cond_open s) = w_toc s.
Proof. intros s. unfold cond_open. destruct (w_cur s); reflexivity. Qed.

Lemma tx_do_chunk : forall i o e first s c s', do_chunk i o e first s c = Ok s' ->
  tx s s' [(e_id e, if first then TReg else TChunk, if first then e_size e else 0, fst (fst c), snd c)].
Proof.
  intros i o e first s [[coff clen] csf] s' H. unfold do_chunk in H. unfold tx. simpl.
  destruct (o_min o <=? 0)%Z.
  - simpl in H. destruct (close_member s) as [s2| |] eqn:C; try discriminate. simpl in H. injection H as <-.
    simpl. rewrite map_app, toc_cond_open. simpl. rewrite (toc_close _ _ C). reflexivity.
  - destruct (observe_flush s) as [s1| |] eqn:O; try discriminate. simpl in H.
    destruct (first && e_open e || (o_min o <=? Z.of_N (w_cwn s1) - Z.of_N (w_poff s1))%Z).
    + destruct (close_member s1) as [s2| |] eqn:C; try discriminate. simpl in H. injection H as <-.
      simpl. rewrite map_app, toc_cond_open. simpl. rewrite (toc_close _ _ C), (toc_observe _ _ O). reflexivity.
    + simpl in H. injection H as <-. simpl. rewrite map_app, toc_cond_open, (toc_observe _ _ O). reflexivity.
Qed.

Lemma tx_do_chunks : forall i o e cl first s s', do_chunks i o e first s cl = Ok s' -> tx s s' (spec_chunks e first cl).
Proof.
  induction cl as [|c cl IH]; intros first s s' H; simpl in H.
  - injection H as <-. apply tx_same. reflexivity.
  - destruct (do_chunk i o e first s c) as [s1| |] eqn:D; try discriminate. simpl in H.
    pose proof (tx_do_chunk _ _ _ _ _ _ _ D) as T1. pose proof (IH _ _ _ H) as T2.
    destruct c as [[coff clen] csf]. simpl in *. exact (tx_trans _ _ _ _ _ T1 T2).
Qed.

Lemma tx_step_entry : forall i o s e s', step_entry i o s e = Ok s' -> tx s s' (toc_spec o e).
Proof.
  intros i o s e s' H. unfold step_entry in H. unfold toc_spec.
  destruct (e_kind e) eqn:K.
  - destruct (0 <? data_size e).
    + destruct (do_chunks _ _ _ _ _ _) as [s2| |] eqn:D; try discriminate. simpl in H. injection H as <-.
      apply tx_do_chunks in D. unfold tx in *. simpl in D. rewrite toc_cond_open in D.
      destruct (0 <? pad512 (data_size e)); exact D.
    + injection H as <-. unfold tx. simpl. rewrite map_app, toc_cond_open. reflexivity.
  - destruct (0 <? data_size e) eqn:Z; [unfold data_size in Z; rewrite K in Z; discriminate|].
    injection H as <-. unfold tx. simpl. rewrite map_app, toc_cond_open. reflexivity.
  - destruct (o_lossless o); [discriminate|]. injection H as <-. apply tx_same. reflexivity.
  - discriminate.
Qed.

Lemma tx_run_entries : forall i o es s s', run_entries i o s es = Ok s' -> tx s s' (flat_map (toc_spec o) es).
Proof.
  induction es as [|e es IH]; intros s s' H; simpl in H.
  - injection H as <-. apply tx_same. reflexivity.
  - destruct (step_entry i o s e) as [s1| |] eqn:S; try discriminate. simpl in H.
    simpl. exact (tx_trans _ _ _ _ _ (tx_step_entry _ _ _ _ _ S) (IH _ _ H)).
Qed.

Lemma writer_toc_complete : forall i o tlen es cs fs w, run_writer i o tlen es cs fs = Ok w ->
  map strip (w_toc w) = flat_map (toc_spec o) es.
Proof.
  intros i o tlen es cs fs w H. unfold run_writer, append_tar in H.
  destruct (run_entries i o (init_w cs fs) es) as [s1| |] eqn:R; try discriminate. simpl in H.
  apply tx_run_entries in R. unfold tx in R. simpl in R. rewrite (toc_close _ _ H).
  destruct (o_lossless o && (0 <? tlen)); exact R.
Qed.

Lemma strip_shift : forall d t, strip (shift d t) = strip t.
Proof. intros d t. unfold shift. destruct (is_data t); reflexivity. Qed.

Lemma parts_toc_complete : forall i o parts cs fs ws d, run_parts i o parts cs fs = Ok ws ->
  map strip (combine_toc ws d) = flat_map (toc_spec o) (concat parts).
Proof.
  induction parts as [|p ps IH]; intros cs fs ws d H; simpl in H.
  - injection H as <-. reflexivity.
  - destruct (run_writer i o 0 p cs fs) as [w| |] eqn:R; try discriminate. simpl in H.
    destruct (run_parts i o ps (w_cs w) (w_fs w)) as [ws'| |] eqn:R'; try discriminate. simpl in H. injection H as <-.
    simpl. rewrite map_app, map_map, flat_map_app, (IH _ _ _ _ R').
    f_equal. rewrite <- (writer_toc_complete _ _ _ _ _ _ _ R). apply map_ext. intros t. apply strip_shift.
Qed.

Lemma build_toc_complete : forall i m chunk minc tlen es cs fs b,
  build_blob i m chunk minc tlen es cs fs = Ok b ->
  map strip (b_toc b) = flat_map (toc_spec (mkO chunk minc match m with MLossless => true | _ => false end)) es.
Proof.
  intros i m chunk minc tlen es cs fs b H. destruct m as [| |k]; simpl in H.
  - destruct (run_writer _ _ _ _ _ _) as [w| |] eqn:R; try discriminate. injection H as <-. simpl.
    exact (writer_toc_complete _ _ _ _ _ _ _ R).
  - destruct (run_writer _ _ _ _ _ _) as [w| |] eqn:R; try discriminate. injection H as <-. simpl.
    exact (writer_toc_complete _ _ _ _ _ _ _ R).
  - destruct (run_parts _ _ _ _ _) as [ws| |] eqn:R; try discriminate. injection H as <-. simpl.
    rewrite (parts_toc_complete _ _ _ _ _ _ _ R), workers_parts_concat. reflexivity.
Qed.

(* the chunk ranges announced for a file tile it: reading them in order gives the file *)
Lemma spec_chunks_tile : forall i o e, N.of_nat (length (content i e)) = data_size e ->
  concat (map (chunk_bytes i e) (chunks (eff_chunk o) (data_size e))) = content i e.
Proof.
  intros i o e H. rewrite chunks_tile by apply eff_chunk_pos. rewrite <- H, Nat2N.id. apply firstn_all.
Qed.

(* ================= a concrete instance for the non-vacuity examples ================= *)
Definition ex_io : io :=
  mkIO (fun e => repeat 7 (N.to_nat (e_hlen e)))
       (fun e => repeat (e_id e + 1) (N.to_nat (data_size e)))
       (fun e => repeat 0 (N.to_nat (pad512 (data_size e))))
       (repeat 0 1024).

(* a.txt (5 bytes), a directory, the landmark Build inserts, a 1300-byte file, an old stargz.index.json, an empty file *)
Definition ex_entries : list entry :=
  [mkE 0 0 KReg 5 512 false false; mkE 1 1 KMeta 0 512 false false; mkE 2 2 KReg 1 512 true true;
   mkE 3 3 KReg 1300 1536 false false; mkE 4 4 KToc 77 512 false false; mkE 5 5 KReg 0 512 false false].

Lemma ex_wf : Forall (wf_entry ex_io) ex_entries.
Proof. repeat constructor; vm_compute; reflexivity. Qed.

(* ================= several AppendTar calls = one call on the concatenation (after C03-fix-1) ================= *)
Lemma run_entries_app : forall i o a b s,
  run_entries i o s (a ++ b) = bind (run_entries i o s a) (fun s' => run_entries i o s' b).
Proof.
  induction a as [|e a IH]; intros b s; simpl; [reflexivity|].
  destruct (step_entry i o s e); simpl; [apply IH|reflexivity|reflexivity].
Qed.

Lemma append_calls_concat : forall i o calls s, append_calls i o s calls = run_entries i o s (concat calls).
Proof.
  induction calls as [|c t IH]; intros s; simpl; [reflexivity|].
  rewrite run_entries_app. destruct (run_entries i o s c); simpl; [apply IH|reflexivity|reflexivity].
Qed.

(* ================= the uncompressed counter is the length of the decompressed payload ================= *)
Definition uc (s s' : wst) (b : bytes) : Prop := w_unc s' = w_unc s + N.of_nat (length b).

Lemma uc_refl : forall s, uc s s [].
Proof. intros s. unfold uc. simpl. lia. Qed.

Lemma uc_trans : forall s1 s2 s3 a b, uc s1 s2 a -> uc s2 s3 b -> uc s1 s3 (a ++ b).
Proof. unfold uc. intros s1 s2 s3 a b H1 H2. rewrite H2, H1, app_length. lia. Qed.

Lemma uc_nil_l : forall s1 s2 s3 b, uc s1 s2 [] -> uc s2 s3 b -> uc s1 s3 b.
Proof. intros s1 s2 s3 b H1 H2. exact (uc_trans _ _ _ _ _ H1 H2). Qed.

Lemma uc_nil_r : forall s1 s2 s3 b, uc s1 s2 b -> uc s2 s3 [] -> uc s1 s3 b.
Proof. intros s1 s2 s3 b H1 H2. rewrite <- (app_nil_r b). exact (uc_trans _ _ _ _ _ H1 H2). Qed.

Lemma uc_cond_open : forall s, uc s (cond_open s) [].
Proof. intros s. unfold uc, cond_open. destruct (w_cur s); simpl; lia. Qed.

Lemma uc_wr : forall s b n, N.of_nat (length b) = n -> uc s (wr s b n) b.
Proof. intros s b n H. unfold uc. simpl. lia. Qed.

Lemma uc_close : forall s s', close_member s = Ok s' -> uc s s' [].
Proof.
  intros s s' H. unfold close_member in H. unfold uc.
  destruct (w_cur s); [destruct (w_cs s); [discriminate|]|]; injection H as <-; simpl; lia.
Qed.

Lemma uc_observe : forall s s', observe_flush s = Ok s' -> uc s s' [].
Proof. intros s s' H. unfold observe_flush in H. destruct (w_fs s); [discriminate|]. injection H as <-. unfold uc. simpl. lia. Qed.

Lemma uc_set_prev : forall s a b, uc s (set_prev s a b) [].
Proof. intros. unfold uc. simpl. lia. Qed.

Lemma uc_add_toc : forall s t, uc s (add_toc s t) [].
Proof. intros. unfold uc. simpl. lia. Qed.

Lemma uc_do_chunk : forall i o e first s c s',
  N.of_nat (length (content i e)) = e_size e -> chunk_ok e c ->
  do_chunk i o e first s c = Ok s' -> uc s s' (chunk_bytes i e c).
Proof.
  intros i o e first s [[coff clen] csf] s' Hc (R1 & R2 & R3) H. unfold do_chunk in H. unfold chunk_bytes. simpl.
  assert (L : N.of_nat (length (sl coff clen (content i e))) = clen) by (rewrite sl_length; lia).
  destruct (o_min o <=? 0)%Z.
  - simpl in H. destruct (close_member s) as [s2| |] eqn:C; try discriminate. simpl in H. injection H as <-.
    eapply uc_nil_l; [apply (uc_close _ _ C)|].
    eapply uc_nil_l; [apply uc_set_prev|].
    eapply uc_nil_l; [apply uc_cond_open|].
    eapply uc_nil_r; [apply uc_wr; exact L|apply uc_add_toc].
  - destruct (observe_flush s) as [s1| |] eqn:O; try discriminate. simpl in H.
    destruct (first && e_open e || (o_min o <=? Z.of_N (w_cwn s1) - Z.of_N (w_poff s1))%Z).
    + destruct (close_member s1) as [s2| |] eqn:C; try discriminate. simpl in H. injection H as <-.
      eapply uc_nil_l; [apply (uc_observe _ _ O)|].
      eapply uc_nil_l; [apply (uc_close _ _ C)|].
      eapply uc_nil_l; [apply uc_set_prev|].
      eapply uc_nil_l; [apply uc_cond_open|].
      eapply uc_nil_r; [apply uc_wr; exact L|apply uc_add_toc].
    + simpl in H. injection H as <-.
      eapply uc_nil_l; [apply (uc_observe _ _ O)|].
      eapply uc_nil_l; [apply uc_cond_open|].
      eapply uc_nil_r; [apply uc_wr; exact L|apply uc_add_toc].
Qed.

Lemma uc_do_chunks : forall i o e cl first s s',
  N.of_nat (length (content i e)) = e_size e -> Forall (chunk_ok e) cl ->
  do_chunks i o e first s cl = Ok s' -> uc s s' (concat (map (chunk_bytes i e) cl)).
Proof.
  induction cl as [|c cl IH]; intros first s s' Hc F H; simpl in *.
  - injection H as <-. apply uc_refl.
  - inversion F as [|? ? Fc Fcl]; subst.
    destruct (do_chunk i o e first s c) as [s1| |] eqn:D; try discriminate. simpl in H.
    eapply uc_trans; [apply (uc_do_chunk _ _ _ _ _ _ _ Hc Fc D)|apply (IH _ _ _ Hc Fcl H)].
Qed.

Lemma uc_step_entry : forall i o s e s', wf_entry i e ->
  step_entry i o s e = Ok s' -> uc s s' (ser_entry i false e).
Proof.
  intros i o s e s' (Hh & _ & Hc & Hp) H. unfold step_entry in H. unfold ser_entry.
  assert (HDR : forall s0, uc s0 (wr (cond_open s0) (hdr i e) (e_hlen e)) (hdr i e)).
  { intros s0. eapply uc_nil_l; [apply uc_cond_open|apply uc_wr; exact Hh]. }
  assert (PADL : N.of_nat (length (padb i e)) = pad512 (data_size e)) by (rewrite Hp, repeat_length; lia).
  destruct (e_kind e) eqn:K.
  - assert (DS : data_size e = e_size e) by (unfold data_size; rewrite K; reflexivity).
    rewrite DS in *. destruct (0 <? e_size e) eqn:Z.
    + destruct (do_chunks _ _ _ _ _ _) as [s2| |] eqn:D; try discriminate. simpl in H. injection H as <-.
      apply (uc_do_chunks _ _ _ _ _ _ _ Hc (chunk_list_ok e _ _ 0 (eff_chunk_pos o))) in D.
      pose proof (chunks_tile i e (eff_chunk o) (e_size e) (eff_chunk_pos o)) as T.
      rewrite <- Hc, Nat2N.id, firstn_all in T. rewrite Hc in T. unfold chunks in T, D. rewrite T in D.
      eapply uc_trans; [apply HDR|]. eapply uc_trans; [exact D|].
      destruct (0 <? pad512 (e_size e)) eqn:P; [apply uc_wr; exact PADL|].
      apply N.ltb_ge in P. destruct (padb i e); [apply uc_refl|simpl in PADL; lia].
    + injection H as <-. apply N.ltb_ge in Z.
      assert (content i e = []) as -> by (destruct (content i e); [reflexivity|simpl in Hc; lia]).
      assert (padb i e = []) as ->.
      { destruct (padb i e); [reflexivity|]. simpl in PADL. replace (e_size e) with 0 in PADL by lia. vm_compute in PADL. lia. }
      simpl. rewrite app_nil_r. eapply uc_nil_r; [apply HDR|apply uc_add_toc].
  - assert (DS : data_size e = 0) by (unfold data_size; rewrite K; reflexivity).
    rewrite DS in *. simpl in H. injection H as <-.
    assert (content i e = []) as -> by (destruct (content i e); [reflexivity|simpl in Hc; lia]).
    assert (padb i e = []) as -> by (rewrite Hp; reflexivity).
    simpl. rewrite app_nil_r. eapply uc_nil_r; [apply HDR|apply uc_add_toc].
  - destruct (o_lossless o); [discriminate|]. injection H as <-. apply uc_refl.
  - discriminate.
Qed.

Lemma uc_run_entries : forall i o es s s', Forall (wf_entry i) es ->
  run_entries i o s es = Ok s' -> uc s s' (ser i es).
Proof.
  induction es as [|e es IH]; intros s s' W H; simpl in *.
  - injection H as <-. apply uc_refl.
  - inversion W as [|? ? We Wes]; subst.
    destruct (step_entry i o s e) as [s1| |] eqn:S; try discriminate. simpl in H.
    unfold ser. simpl. eapply uc_trans; [apply (uc_step_entry _ _ _ _ _ We S)|apply (IH _ _ Wes H)].
Qed.

(* the declared length of the raw trailer of a lossless input is its real length *)
Definition wf_trail (i : io) (o : wopts) (tlen : N) : Prop :=
  o_lossless o && (0 <? tlen) = true -> N.of_nat (length (trail i)) = tlen.

Lemma writer_unc : forall i o tlen es cs fs w, Forall (wf_entry i) es -> wf_trail i o tlen ->
  run_writer i o tlen es cs fs = Ok w ->
  w_unc w = N.of_nat (length (payloads (w_closed w))).
Proof.
  intros i o tlen es cs fs w W T H.
  destruct (writer_payload _ _ _ _ _ _ _ W H) as [P _]. rewrite P.
  unfold run_writer, append_tar in H.
  destruct (run_entries i o (init_w cs fs) es) as [s1| |] eqn:R; try discriminate. simpl in H.
  pose proof (uc_run_entries _ _ _ _ _ W R) as U1. pose proof (uc_close _ _ H) as U2.
  unfold uc in *. simpl in *. rewrite U2, app_length. unfold trail_of, wf_trail in *.
  destruct (o_lossless o && (0 <? tlen)).
  - specialize (T eq_refl). simpl. rewrite U1. lia.
  - rewrite U1. simpl. lia.
Qed.

Lemma parts_unc : forall i o parts cs fs ws, Forall (Forall (wf_entry i)) parts ->
  run_parts i o parts cs fs = Ok ws ->
  fold_right (fun w a => w_unc w + a) 0 ws = N.of_nat (length (payloads (combine_members ws))).
Proof.
  induction parts as [|p ps IH]; intros cs fs ws W H; simpl in *.
  - injection H as <-. reflexivity.
  - inversion W as [|? ? Wp Wps]; subst.
    destruct (run_writer i o 0 p cs fs) as [w| |] eqn:R; try discriminate. simpl in H.
    destruct (run_parts i o ps (w_cs w) (w_fs w)) as [ws'| |] eqn:R'; try discriminate. simpl in H. injection H as <-.
    simpl. unfold combine_members. simpl. rewrite payloads_app, app_length. fold (combine_members ws').
    rewrite (IH _ _ _ Wps R').
    assert (T0 : wf_trail i o 0).
    { unfold wf_trail. intros Z. rewrite andb_comm in Z. discriminate Z. }
    rewrite (writer_unc _ _ _ _ _ _ _ Wp T0 R). lia.
Qed.

Lemma build_unc : forall i m chunk minc tlen es cs fs b, Forall (wf_entry i) es ->
  (m = MLossless -> 0 < tlen -> N.of_nat (length (trail i)) = tlen) ->
  build_blob i m chunk minc tlen es cs fs = Ok b ->
  b_unc b = N.of_nat (length (payloads (b_members b))).
Proof.
  intros i m chunk minc tlen es cs fs b W T H. destruct m as [| |k]; simpl in H.
  - destruct (run_writer _ _ _ _ _ _) as [w| |] eqn:R; try discriminate. injection H as <-. simpl.
    apply (writer_unc _ _ _ _ _ _ _ W) in R; [exact R|]. unfold wf_trail. simpl. discriminate.
  - destruct (run_writer _ _ _ _ _ _) as [w| |] eqn:R; try discriminate. injection H as <-. simpl.
    apply (writer_unc _ _ _ _ _ _ _ W) in R; [exact R|]. unfold wf_trail. simpl. intros Z. apply T; [reflexivity|].
    apply N.ltb_lt. exact Z.
  - destruct (run_parts _ _ _ _ _) as [ws| |] eqn:R; try discriminate. injection H as <-. simpl.
    eapply parts_unc; [|exact R]. apply Forall_concat. rewrite workers_parts_concat. exact W.
Qed.
