(* A Good region set is determined by the bytes it covers (canonical form), hence regionSet.add is
   insensitive to the order of insertions. *)
From Coq Require Import List ZArith Bool Sorted Lia Permutation.
From SV Require Import Model.Region Proofs.Region.
Import ListNotations.
Open Scope Z_scope.

(* ---- canonical form: a Good set is determined by the bytes it covers ---- *)
Lemma good_head_min r rs x : Good (r :: rs) -> covered (r :: rs) x -> rb r <= x.
Proof.
  intros [Hs Hw] Hc. apply covered_cons in Hc. destruct Hc as [Hc|(r' & Hin & Hx)].
  - unfold inr in Hc. lia.
  - inversion Hs as [|? ? _ Hf]; subst. rewrite Forall_forall in Hf. specialize (Hf r' Hin).
    inversion Hw as [|? ? Hwr _]; subst. unfold lt_reg, wf_reg, inr in *. lia.
Qed.

Lemma good_tail r rs : Good (r :: rs) -> Good rs.
Proof. intros [Hs Hw]. inversion Hs; inversion Hw; subst. split; auto. Qed.

Lemma good_head_gap r rs : Good (r :: rs) -> ~ covered (r :: rs) (re r + 1).
Proof.
  intros [Hs Hw] Hc. apply covered_cons in Hc. destruct Hc as [Hc|(r' & Hin & Hx)].
  - unfold inr in Hc. lia.
  - inversion Hs as [|? ? _ Hf]; subst. rewrite Forall_forall in Hf. specialize (Hf r' Hin).
    unfold lt_reg, inr in *. lia.
Qed.

Lemma good_tail_cover r rs x : Good (r :: rs) -> (covered rs x <-> covered (r :: rs) x /\ re r < x).
Proof.
  intros HG. rewrite covered_cons. split.
  - intros Hc. split; auto. destruct HG as [Hs Hw]. destruct Hc as (r' & Hin & Hx).
    inversion Hs as [|? ? _ Hf]; subst. rewrite Forall_forall in Hf. specialize (Hf r' Hin).
    unfold lt_reg, inr in *. lia.
  - intros [[Hc|Hc] Hx]; auto. unfold inr in Hc. lia.
Qed.

Lemma good_unique : forall a b, Good a -> Good b -> (forall x, covered a x <-> covered b x) -> a = b.
Proof.
  induction a as [|r a IH]; intros [|q b] Ha Hb Hc.
  - reflexivity.
  - exfalso. destruct Hb as [_ Hw]. inversion Hw as [|? ? Hq _]; subst.
    apply (covered_nil (rb q)). apply Hc. apply covered_cons. left. unfold inr, wf_reg in *. lia.
  - exfalso. destruct Ha as [_ Hw]. inversion Hw as [|? ? Hr _]; subst.
    apply (covered_nil (rb r)). apply Hc. apply covered_cons. left. unfold inr, wf_reg in *. lia.
  - assert (Hwr : wf_reg r) by (destruct Ha as [_ Hw]; inversion Hw; auto).
    assert (Hwq : wf_reg q) by (destruct Hb as [_ Hw]; inversion Hw; auto).
    unfold wf_reg in Hwr, Hwq.
    assert (Cr : forall x, inr r x -> covered (r :: a) x) by (intros x Hx; apply covered_cons; auto).
    assert (Cq : forall x, inr q x -> covered (q :: b) x) by (intros x Hx; apply covered_cons; auto).
    (* same first byte *)
    assert (Hb1 : rb r = rb q).
    { assert (I1 : inr r (rb r)) by (unfold inr; lia). assert (I2 : inr q (rb q)) by (unfold inr; lia).
      pose proof (good_head_min q b (rb r) Hb (proj1 (Hc (rb r)) (Cr _ I1))).
      pose proof (good_head_min r a (rb q) Ha (proj2 (Hc (rb q)) (Cq _ I2))). lia. }
    (* same last byte: the byte after the shorter one would be covered on one side only *)
    assert (He1 : re r = re q).
    { destruct (Z.lt_trichotomy (re r) (re q)) as [Hlt|[Heq|Hgt]]; auto; exfalso.
      - apply (good_head_gap r a Ha). apply Hc. apply Cq. unfold inr. lia.
      - apply (good_head_gap q b Hb). apply Hc. apply Cr. unfold inr. lia. }
    assert (Hrq : r = q) by (destruct r, q; unfold rb, re in *; simpl in *; congruence).
    subst q. f_equal. apply IH; [eapply good_tail; eauto|eapply good_tail; eauto|].
    intros x. rewrite (good_tail_cover r a x Ha), (good_tail_cover r b x Hb), Hc. tauto.
Qed.

Lemma adds_wf : forall cks fe,
  Good fe -> Forall wf_reg cks ->
  Good (fold_left add cks fe) /\ (forall x, covered (fold_left add cks fe) x <-> covered fe x \/ covered cks x).
Proof.
  induction cks as [|ck t IH]; intros fe HG Hc; simpl.
  - split; auto. intros x. split; [auto|intros [H|H]; auto; destruct (covered_nil _ H)].
  - inversion Hc as [|? ? H1 Ht]; subst.
    destruct (region_add_spec fe ck HG H1) as [HG1 HC1].
    destruct (IH (add fe ck) HG1 Ht) as [HG2 HC2]. split; auto.
    intros x. rewrite HC2, HC1, covered_cons. tauto.
Qed.

(* inserting the same regions in any order (Go iterates over a map) yields the same slice *)
Lemma adds_order_irrelevant_list l l' :
  Forall wf_reg l -> Permutation l l' -> fold_left add l [] = fold_left add l' [].
Proof.
  intros Hw Hp.
  assert (Hw' : Forall wf_reg l') by (eapply Permutation_Forall; eauto).
  destruct (adds_wf l [] good_nil Hw) as [G1 C1]. destruct (adds_wf l' [] good_nil Hw') as [G2 C2].
  apply good_unique; auto. intros x. rewrite C1, C2.
  assert (Hcov : covered l x <-> covered l' x).
  { unfold covered. split; intros (r & Hin & Hx); exists r; split; auto.
    - eapply Permutation_in; eauto.
    - eapply Permutation_in; [apply Permutation_sym; eauto|auto]. }
  tauto.
Qed.

(* more generally: the slice depends only on the set of bytes inserted *)
Lemma adds_same_cover l l' :
  Forall wf_reg l -> Forall wf_reg l' -> (forall x, covered l x <-> covered l' x) ->
  fold_left add l [] = fold_left add l' [].
Proof.
  intros Hw Hw' Hc.
  destruct (adds_wf l [] good_nil Hw) as [G1 C1]. destruct (adds_wf l' [] good_nil Hw') as [G2 C2].
  apply good_unique; auto. intros x. rewrite C1, C2, Hc. tauto.
Qed.
