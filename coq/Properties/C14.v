(* C14 — Prioritized files are laid out first, in order, ahead of a single landmark.
   Statements only; every proof is [exact <lemma of Proofs/Sort.v>].

   Vocabulary (Model/Sort.v, Proofs/Sort.v):
     sort_entries t prio allow   model of estargz.sortEntries on the tar [t] (list of entries), the prioritized
                                 list [prio] (raw strings) and the allow-not-found switch; result
                                 [SOk out missed] | [SNotFound] | [SCycle] (both abort the build) | [SFuel]
     import t                    the entries of the layer: landmark entries of the input dropped, of several
                                 entries with one cleaned name the last one kept (importTar)
     import_spec t               the same, declaratively: keep an entry iff not a landmark and no later entry has its name
     key e / clean s             cleaned name (list of path components; [] is the root)
     group_of out / rest_of out  the entries before / after the first landmark item of the output
     needs inp p q               q is a proper ancestor directory of p, or the hardlink target of the entry p
     reach inp p q               q is reached from p by parent / hardlink-target steps
     absent inp l                the listed path l is not the root and has no entry
     dangling inp                some hardlink of the layer names a target without entry
     dangling_from inp p         ... and that hardlink is reached from p by parent / hardlink-target steps
     W / WP / LO                 C03's writer-builder model, its proofs, Proofs/LandmarkOffsets.v (see the last theorem)
     groups inp out prio gs ms   [prio] is served, in order, by the consecutive groups [gs]; [ms] = reported missed *)
From Coq Require Import List Arith NArith ZArith Bool String Permutation.
From SV Require Import Model.Sort Proofs.Sort Proofs.SortWriter.
Import ListNotations.

(* Layout: on success the output is G ++ [landmark] ++ R; the landmark is the prefetch landmark iff the list is
   non-empty; R is exactly the entries of the layer whose name was not placed in G, in their original relative
   order (a filter of the imported stream); G has no repeated name and consists of entries of the layer. *)
Theorem C14_sort_layout :
  forall t prio allow out missed,
    sort_entries t prio allow = SOk out missed ->
    out = map IEnt (group_of out) ++ [ILand (negb (is_nil prio))] ++ map IEnt (rest_of out)
    /\ rest_of out = filter (fun e => negb (has_key (key e) (group_of out))) (import t)
    /\ NoDup (keys (group_of out))
    /\ incl (group_of out) (import t).
Proof.
  intros t prio allow out missed H.
  destruct (sort_ok_group _ _ _ _ _ H) as [_ [H1 H2]].
  destruct (sort_group_facts _ _ _ _ _ H) as [gs [_ [_ [H3 [_ [H4 _]]]]]].
  exact (conj H1 (conj H2 (conj H3 H4))).
Qed.
Print Assumptions C14_sort_layout.

(* Exactly one landmark item, of the right kind, whatever the input contained; no other output entry carries
   a landmark name (landmark entries of the input never survive). *)
Theorem C14_single_landmark :
  forall t prio allow out missed,
    sort_entries t prio allow = SOk out missed ->
    filter is_land out = [ILand (negb (is_nil prio))]
    /\ (forall e, In (IEnt e) out -> In e (import t) /\ is_landmark (key e) = false).
Proof. exact sort_single_landmark. Qed.
Print Assumptions C14_single_landmark.

(* With an empty list: a single no-prefetch landmark, then every entry in the original order. *)
Theorem C14_empty_list :
  forall t allow, sort_entries t [] allow = SOk (ILand false :: map IEnt (import t)) [].
Proof. exact sort_empty_list. Qed.
Print Assumptions C14_empty_list.

(* Nothing lost, nothing duplicated. *)
Theorem C14_sort_permutation :
  forall t prio allow out missed,
    sort_entries t prio allow = SOk out missed ->
    Permutation (group_of out ++ rest_of out) (import t).
Proof. exact sort_permutation. Qed.
Print Assumptions C14_sort_permutation.

(* ... where the entries of the layer ([import], what importTar keeps) are: an entry of the input is kept iff its
   name is not a landmark and no later entry has the same cleaned name, kept entries staying in input order
   ([import_spec]); so they have pairwise different names, none a landmark, and are the input itself when that
   has no landmark entry and no repeated name. *)
Theorem C14_import :
  forall t,
    import t = import_spec t
    /\ (NoDup (keys t) -> (forall e, In e t -> is_landmark (key e) = false) -> import t = t)
    /\ NoDup (keys (import t))
    /\ (forall e, In e (import t) -> In e t /\ is_landmark (key e) = false).
Proof.
  intro t. split; [exact (import_is_spec t)|]. split; [exact (import_id t)|split; [exact (import_nodup t)|]].
  intros e H. exact (conj (import_in t e H) (import_no_landmark t e H)).
Qed.
Print Assumptions C14_import.

(* Every entry of the leading group is preceded, inside the group, by each of its ancestor directories that has
   an entry (the root entry included) and, if it is a hardlink, by its target. *)
Theorem C14_preceded_by_parents_and_targets :
  forall t prio allow out missed,
    sort_entries t prio allow = SOk out missed ->
    forall a e c, group_of out = a ++ e :: c ->
    forall q, needs (import t) (key e) q -> has_key q (import t) = true -> In q (keys a).
Proof. exact sort_closed. Qed.
Print Assumptions C14_preceded_by_parents_and_targets.

(* In the order given: the group is the concatenation of one (possibly empty) segment per listed path, in list
   order; a segment contains only not-yet-placed entries that its path needs, and ends with the entry of the
   path itself unless that was placed before (see [groups]). *)
Theorem C14_order_given :
  forall t prio allow out missed,
    sort_entries t prio allow = SOk out missed ->
    exists gs, group_of out = List.concat gs /\ groups (import t) [] prio gs missed.
Proof.
  intros t prio allow out missed H.
  destruct (sort_group_facts _ _ _ _ _ H) as [gs [H1 [H2 _]]]. exists gs. exact (conj H1 H2).
Qed.
Print Assumptions C14_order_given.

(* Every listed path that has an entry and is not reported missed is in the group; and the group holds
   nothing that no listed path needs. *)
Theorem C14_group_exact :
  forall t prio allow out missed,
    sort_entries t prio allow = SOk out missed ->
    (forall l e, In l prio -> ~ In l missed -> get (import t) (clean l) = Some e -> In e (group_of out))
    /\ (forall e, In e (group_of out) -> exists l, In l prio /\ reach (import t) (clean l) (key e)).
Proof.
  intros t prio allow out missed H.
  exact (conj (sort_listed_placed _ _ _ _ _ H) (sort_group_minimal _ _ _ _ _ H)).
Qed.
Print Assumptions C14_group_exact.

(* Missing paths: a listed path without entry (in any spelling; the root is never missing) is reported back in
   allow mode and makes a successful strict build impossible; whatever is reported is a listed path that has no
   entry, or from which the parent / hardlink-target steps reach a hardlink whose target has no entry (a name
   for a file that does not exist, see the note at C14_missed_exactly_absent_refuted); strict mode reports nothing. *)
Theorem C14_sort_missing :
  forall t prio allow out missed,
    sort_entries t prio allow = SOk out missed ->
    (forall l, In l prio -> absent (import t) l -> allow = true /\ In l missed)
    /\ (forall l, In l missed -> In l prio /\ (absent (import t) l \/ dangling_from (import t) (clean l)))
    /\ (allow = false -> missed = []).
Proof. exact sort_missing. Qed.
Print Assumptions C14_sort_missing.

(* Strict mode with an absent listed path: the build is aborted (not-found, or a hardlink cycle met first). *)
Theorem C14_strict_aborts :
  forall t prio,
    (exists l, In l prio /\ absent (import t) l) ->
    sort_entries t prio false = SNotFound \/ sort_entries t prio false = SCycle.
Proof. exact sort_strict_absent. Qed.
Print Assumptions C14_strict_aborts.

(* "and only such paths": without dangling hardlinks the reported list is exactly the absent listed paths, in
   order and with multiplicity (this is the statement that failed before patches/C14-fix-1: F23). *)
Theorem C14_missed_exactly_absent_partial :
  forall t prio out missed,
    ~ dangling (import t) ->
    sort_entries t prio true = SOk out missed ->
    missed = filter (absentb (import t)) prio.
Proof. exact sort_missed_exact. Qed.
Print Assumptions C14_missed_exactly_absent_partial.

(* ... and the hypothesis is needed: a listed hardlink entry whose target has no entry is reported missed although
   the hardlink entry itself is in the tar (reproduced on the implementation: corpus case "d/l -> gone").
   Disposition (phase 2): not counted as a violation of the property. A hardlink is a second name of its target's
   file; with the target absent the listed path names no file of the layer, it cannot be "preceded by its hardlink
   target", and reporting it back / aborting is the outcome the property prescribes for "a listed path that does not
   exist". (Such a tar yields a layer that estargz.Open refuses anyway, with or without a prioritized list.) What is
   refuted is only the stronger reading "exactly the paths without entry are reported"; C14_sort_missing states the
   general fact with the reachable dangling hardlink as the second cause. *)
Theorem C14_missed_exactly_absent_refuted :
  exists t prio out missed,
    sort_entries t prio true = SOk out missed /\ missed <> filter (absentb (import t)) prio.
Proof.
  exists [mkE 1 "d/l" (Some "gone"%string); mkE 2 "a" None], ["d/l"%string]. eexists. eexists.
  split; [vm_compute; reflexivity|vm_compute; discriminate].
Qed.
Print Assumptions C14_missed_exactly_absent_refuted.

(* The recursion of moveRec always returns (patches/C14-fix-2: F8): the model never runs out of the fuel
   sort_entries gives it, for any tar, including hardlink cycles, which are reported as an error. *)
Theorem C14_moverec_terminates :
  forall t prio allow, sort_entries t prio allow <> SFuel.
Proof. exact sort_terminates. Qed.
Print Assumptions C14_moverec_terminates.

(* The landmark separates the compressed offsets (composition with C03's writer / builder machine
   Model/EsgzWriter.v, module W; WP = its proofs, LO = Proofs/LandmarkOffsets.v).
   For every tar, prioritized list and mode for which sortEntries succeeds; for every way [enc] of giving the sorted
   items a typeflag class, size and header length, provided the landmark item becomes what Build inserts (a one-byte
   regular file whose name is in needsOpenGzEntries); for every chunk size, min-chunk-size and worker count k
   (divideEntries, parallel sub-blobs, closeWithCombine); for all compressed member sizes [cs] (each non-empty: a
   gzip / zstd member has a header) and flush observations [fs] — whenever Build succeeds, its TOC is
   tg ++ lt :: tr with tg / lt / tr the TOC entries of the leading group / the landmark / the rest (same ids, types,
   sizes, chunk ranges as the entries: [strip] = [toc_spec]), and
     - the landmark opens its own compressed stream (innerOffset 0),
     - every reg / chunk entry with data of a file of the group has Offset < landmark.Offset,
     - every reg / chunk entry with data of any other file has Offset >= landmark.Offset. *)
Theorem C14_landmark_separates_offsets :
  forall t prio allow out missed (enc : item -> W.entry) i chunk minc k cs fs b,
    sort_entries t prio allow = SOk out missed ->
    (forall p, LO.landmark_entry (enc (ILand p))) ->
    LO.pos_all cs ->
    W.build_blob i (W.MBuild k) chunk minc 0%N (map enc out) cs fs = W.Ok b ->
    let o := W.mkO chunk minc false in
    exists tg lt tr,
      W.b_toc b = tg ++ lt :: tr
      /\ map WP.strip tg = flat_map (WP.toc_spec o) (map enc (map IEnt (group_of out)))
      /\ [WP.strip lt] = WP.toc_spec o (enc (ILand (negb (is_nil prio))))
      /\ map WP.strip tr = flat_map (WP.toc_spec o) (map enc (map IEnt (rest_of out)))
      /\ W.is_data lt = true /\ W.t_inner lt = 0%N
      /\ (forall x, In x tg -> W.is_data x = true -> (W.t_off x < W.t_off lt)%N)
      /\ (forall x, In x tr -> W.is_data x = true -> (W.t_off lt <= W.t_off x)%N).
Proof. exact sort_build_offsets. Qed.
Print Assumptions C14_landmark_separates_offsets.

(* Non-vacuity of the offsets theorem: the sorted output of C14_nonvacuous built with chunk size 300,
   min-chunk-size 1000 (one worker) and with min-chunk-size 0 and 2 workers: Build succeeds; (id, Offset, InnerOffset)
   of the TOC entries: the landmark (id 0) starts a stream, the rest shares it at inner offsets. *)
Example C14_offsets_nonvacuous :
  let out := [IEnt (mkE 3 "x/" None); IEnt (mkE 6 "./c" None); IEnt (mkE 4 "x/l" (Some "./c"%string));
              IEnt (mkE 1 "a/b" None); ILand true; IEnt (mkE 7 "z" None)] in
  (forall p, LO.landmark_entry (ex_enc (ILand p))) /\ LO.pos_all (repeat 40%N 30)
  /\ (exists b, W.build_blob W.null_io (W.MBuild 2%N) 300%Z 1000%Z 0%N (map ex_enc out) (repeat 40%N 30) (repeat 17%N 30) = W.Ok b
         /\ map (fun t => (W.t_id t, W.t_off t, W.t_inner t)) (skipn 10 (W.b_toc b))
            = [(0, 40, 0); (7, 40, 1024); (7, 40, 1324); (7, 40, 1624)]%N)
  /\ (exists b, W.build_blob W.null_io (W.MBuild 2%N) 300%Z 0%Z 0%N (map ex_enc out) (repeat 40%N 30) [] = W.Ok b
         /\ map (fun t => (W.t_id t, W.t_off t, W.t_inner t)) (skipn 9 (W.b_toc b))
            = [(1, 400, 0); (0, 440, 0); (7, 480, 0); (7, 520, 0); (7, 560, 0)]%N).
Proof.
  cbv zeta. split; [intro p; repeat split|]. split; [repeat constructor|].
  split; eexists; split; vm_compute; reflexivity.
Qed.

(* Non-vacuity. Spellings, implicit parent (F23 input), hardlink before its target, repeated name, landmark in
   the input, a missing path: success, with the expected layout. *)
Example C14_nonvacuous :
  sort_entries
    [mkE 1 "a/b" None; mkE 2 "c" None; mkE 3 "x/" None; mkE 4 "x/l" (Some "./c"%string);
     mkE 5 ".prefetch.landmark" None; mkE 6 "./c" None; mkE 7 "z" None]
    ["../x/l"; "/a/b"; "nope"; "x//l"]%string true
  = SOk [IEnt (mkE 3 "x/" None); IEnt (mkE 6 "./c" None); IEnt (mkE 4 "x/l" (Some "./c"%string));
         IEnt (mkE 1 "a/b" None); ILand true; IEnt (mkE 7 "z" None)] ["nope"%string].
Proof. vm_compute. reflexivity. Qed.

(* A hardlink cycle named by the list is an error, not a divergence; strict mode aborts on a missing path. *)
Example C14_nonvacuous_errors :
  sort_entries [mkE 1 "a" (Some "b"%string); mkE 2 "b" (Some "a"%string)] ["a"%string] true = SCycle
  /\ sort_entries [mkE 1 "a" None] ["a"; "nope"]%string false = SNotFound.
Proof. split; vm_compute; reflexivity. Qed.
