(* C12 — A mounted layer stays usable; a released layer gives back all its resources.
   Statements only; every proof is [exact <lemma of Proofs/Resolver.v>].
   A history [os : list op] is an arbitrary interleaving of: starting Resolve calls, single sub-steps of any of
   them (each with an adversary-chosen outcome of the external call it makes: connectivity check, registry,
   metadata store), Done, Close (any number of times per handle), TTL expiry of either cache, Use, Refresh. *)
From Coq Require Import List Arith ZArith Bool.
From SV Require Import Model.Refcache Proofs.Refcache.
From SV Require Import Model.Resolver Proofs.Resolver Proofs.ResolverLock.
Import ListNotations.

(* held_layer_usable.  In every reachable state, a layerRef whose holder called neither Done nor Close refers to a
   layer that is not closed, whose fscache directory exists, whose blob reference has not been released, whose blob
   is not closed and whose httpcache directory exists — whatever expiry, other resolvers (succeeding, failing,
   evicting after a failed check), other holders' Done/Close and refreshes did in between. *)
Theorem C12_held_layer_usable :
  forall (os : list Resolver.op) (u h : nat),
    let s := Resolver.exec Resolver.init os in
    nth_error (uh s) u = Some (h, false) ->
    layer_flags s h = (false, false) /\
    exists v o b ob,
      nth_error (hs (lc s)) h = Some (v, false) /\ nth_error (lobjs s) v = Some o /\ l_closed o = false /\
      In (l_dir o) (dirs s) /\ nth_error (hs (bc s)) (l_bh o) = Some (b, false) /\
      nth_error (bobjs s) b = Some ob /\ b_closed ob = false /\ In (b_dir ob) (dirs s).
Proof. intros os u h s H. exact (held_usable s u h (Proofs.Resolver.reach_inv os) H). Qed.
Print Assumptions C12_held_layer_usable.

(* ... hence what the holder observes: Check/RootNode/reads see an open layer and blob, Refresh succeeds whenever
   the registry answers. *)
Theorem C12_held_layer_serves :
  forall (os : list Resolver.op) (u h : nat),
    let s := Resolver.exec Resolver.init os in
    nth_error (uh s) u = Some (h, false) ->
    Resolver.step s (Use u) = (s, EUse false false) /\ snd (Resolver.step s (Refresh u RfOk)) = ENone.
Proof. intros os u h s H. exact (held_use s u h (Proofs.Resolver.reach_inv os) H). Qed.
Print Assumptions C12_held_layer_serves.

(* released_reclaimed (layer).  Once no done-closure of layer v is outstanding (every holder released; by
   C12_nothing_orphaned below every outstanding closure belongs to an unreleased layerRef or to a Resolve call in
   flight) and v has left the cache (expired, evicted by Close or by a failed check), the layer is closed (reader
   and metadata closed), its fscache directory is gone and its blob reference has been released. *)
Theorem C12_released_layer_reclaimed :
  forall (os : list Resolver.op) (v : nat) (o : lobj),
    let s := Resolver.exec Resolver.init os in
    nth_error (lobjs s) v = Some o ->
    (forall h, nth_error (hs (lc s)) h <> Some (v, false)) -> ~ in_cache (lc s) v ->
    l_closed o = true /\ ~ In (l_dir o) (dirs s) /\ exists b, nth_error (hs (bc s)) (l_bh o) = Some (b, true).
Proof. intros os v o s. exact (layer_reclaimed s v o (Proofs.Resolver.reach_inv os)). Qed.
Print Assumptions C12_released_layer_reclaimed.

(* released_reclaimed (blob): likewise the blob and its httpcache directory. *)
Theorem C12_released_blob_reclaimed :
  forall (os : list Resolver.op) (b : nat) (ob : bobj),
    let s := Resolver.exec Resolver.init os in
    nth_error (bobjs s) b = Some ob ->
    (forall h, nth_error (hs (bc s)) h <> Some (b, false)) -> ~ in_cache (bc s) b ->
    b_closed ob = true /\ ~ In (b_dir ob) (dirs s).
Proof. intros os b ob s. exact (blob_reclaimed s b ob (Proofs.Resolver.reach_inv os)). Qed.
Print Assumptions C12_released_blob_reclaimed.

(* failed_resolve_leaks_nothing, global part.  In every reachable state every outstanding done-closure of the layer
   cache belongs to an unreleased layerRef or to a Resolve in flight; every outstanding done-closure of the blob cache
   belongs to an unclosed layer or to a Resolve in flight; every existing cache directory belongs to an unclosed layer,
   an unclosed blob or a Resolve in flight.  (So nothing a failed, finished Resolve created can remain.) *)
Theorem C12_nothing_orphaned :
  forall (os : list Resolver.op),
    let s := Resolver.exec Resolver.init os in
    (forall h v, nth_error (hs (lc s)) h = Some (v, false) -> lc_owner s h) /\
    (forall h b, nth_error (hs (bc s)) h = Some (b, false) -> bc_owner s h) /\
    (forall d, In d (dirs s) -> dir_owner s d).
Proof. intros os s. exact (no_orphans s (Proofs.Resolver.reach_inv os)). Qed.
Print Assumptions C12_nothing_orphaned.

(* failed_resolve_leaks_nothing, local part.  A sub-step on which Resolve returns an error (in any state) leaves the
   call finished (holding nothing), has removed the directory it held and created no directory. *)
Theorem C12_failed_resolve_leaks_nothing :
  forall (s : Resolver.st) (t : nat) (ok : bool),
    snd (tstep s t ok) = EErr ->
    pc_of (fst (tstep s t ok)) t = PDone /\
    exists th d, nth_error (thrs s) t = Some th /\ pc_dir (t_pc th) = Some d /\
      ~ In d (dirs (fst (tstep s t ok))) /\ (forall d', In d' (dirs (fst (tstep s t ok))) -> In d' (dirs s)).
Proof. exact tstep_err. Qed.
Print Assumptions C12_failed_resolve_leaks_nothing.

(* single_instance.  In every reachable state:
   (1) at most one Resolve call per name is between resolveLock.Lock and Unlock (stages other than PWait/PDone);
   (2) such a call holds the lock of its name, so that every other Resolve of that name blocks (its sub-step is a
       no-op returning EBlocked);
   (3) a call that is past its layer-cache lookup (missed, or removed the entry that failed its check) — in particular
       one that reaches layerCache.Add — finds nothing cached under its name, and likewise a call between its blob-cache
       lookup and blobCache.Add finds no blob cached: Add is only reached when nothing is cached for the name (the
       "!added" branches of Resolve and resolveBlob are dead, no second instance is ever created beside a cached one);
   (4) whenever a sub-step returns a layer: either it is fresh, created at layerCache.Add with nothing cached before
       and now the cached instance of the name, or it is the instance the call obtained from the cache at its lookup. *)
Theorem C12_single_instance :
  forall (os : list Resolver.op),
    let s := Resolver.exec Resolver.init os in
    (forall t1 t2 th1 th2, nth_error (thrs s) t1 = Some th1 -> nth_error (thrs s) t2 = Some th2 ->
       active (t_pc th1) = true -> active (t_pc th2) = true -> t_name th1 = t_name th2 -> t1 = t2) /\
    (forall t th, nth_error (thrs s) t = Some th -> active (t_pc th) = true ->
       In (t_name th) (locks s) /\
       forall t' th' ok, nth_error (thrs s) t' = Some th' -> t_pc th' = PWait -> t_name th' = t_name th ->
         tstep s t' ok = (s, EBlocked)) /\
    (forall t th, nth_error (thrs s) t = Some th ->
       (lmissed (t_pc th) = true -> lru_find (lru (lc s)) (t_name th) = None) /\
       (bmissed (t_pc th) = true -> lru_find (lru (bc s)) (t_name th) = None)) /\
    (forall t th ok v fr, nth_error (thrs s) t = Some th -> snd (tstep s t ok) = ERet v fr ->
       (fr = true /\ (exists bh d, t_pc th = PMeta bh d) /\ lru_find (lru (lc s)) (t_name th) = None /\
        v = length (ents (lc s)) /\ lru_find (lru (lc (fst (tstep s t ok)))) (t_name th) = Some v)
       \/ (fr = false /\ exists h, t_pc th = PHit h /\ hval (lc s) h = Some v /\ lc (fst (tstep s t ok)) = lc s)).
Proof. intros os s. exact (single_instance s (Proofs.Resolver.reach_inv os) (Proofs.ResolverLock.reach_LI os)). Qed.
Print Assumptions C12_single_instance.

(* ... the lookup itself: a Resolve that gets the lock while instance v is cached under its name obtains a
   done-closure of exactly v (any state). *)
Theorem C12_lookup_returns_cached :
  forall (s : Resolver.st) (t : nat) (th : thr) (v : nat),
    nth_error (thrs s) t = Some th -> t_pc th = PWait ->
    mem (t_name th) (locks s) = false -> lru_find (lru (lc s)) (t_name th) = Some v ->
    let s1 := fst (tstep s t true) in
    pc_of s1 t = PHit (length (hs (lc s))) /\ hval (lc s1) (length (hs (lc s))) = Some v.
Proof. exact lookup_hit. Qed.
Print Assumptions C12_lookup_returns_cached.

(* ... and overlapping requests share the instance: once a Resolve call holds a done-closure of instance v from its
   lookup (stage PHit h), then after ANY further history of other ops (other resolvers of other names, Done/Close of any
   holder incl. evicting ones, expiry of either cache, refreshes; the per-name lock keeps resolvers of the same name out)
   its next sub-step either returns exactly v, shared (not fresh), or — the cached one failed its check — returns
   nothing and goes on to evict and re-resolve. *)
Theorem C12_overlapping_calls_share :
  forall (s : Resolver.st) (os2 : list Resolver.op) (t n h v : nat),
    nth_error (thrs s) t = Some (mkT n (PHit h)) -> hval (lc s) h = Some v ->
    Forall (not_step_of t) os2 ->
    let s2 := Resolver.exec s os2 in
    nth_error (thrs s2) t = Some (mkT n (PHit h)) /\ hval (lc s2) h = Some v /\
    forall ok, snd (tstep s2 t ok) = ERet v false \/
               (snd (tstep s2 t ok) = ENone /\ pc_of (fst (tstep s2 t ok)) t = PEvict h).
Proof. intros s os2. exact (overlap_same os2 s). Qed.
Print Assumptions C12_overlapping_calls_share.

(* The states the harness observes (coarse steps: a Resolve runs from one external call to the next, and a waiter
   on the per-name lock proceeds when the lock is released) satisfy the same invariant, hence the same theorems. *)
Theorem C12_coarse_histories_covered :
  forall (os : list Resolver.op) (u h : nat),
    let s := cexec Resolver.init os in
    nth_error (uh s) u = Some (h, false) -> layer_flags s h = (false, false).
Proof. intros os u h s H. exact (proj1 (held_usable s u h (cexec_inv os _ RInv_init) H)). Qed.
Print Assumptions C12_coarse_histories_covered.

(* Non-vacuity: resolve name 0 (registry and metadata answer), a second Resolve shares it; the layer expires, the
   first holder Closes: the second holder's layer is still open with both directories; after it releases too,
   everything is reclaimed. *)
Example C12_nonvacuous_held :
  let s := cexec Resolver.init [RStart 0; RStep 0 true; RStep 0 true; RStart 0; RStep 1 true; ExpireL 0; ExpireB 0; Close 0] in
  nth_error (uh s) 1 = Some (1, false) /\ layer_flags s 1 = (false, false) /\ view s = (1, 1, 1).
Proof. vm_compute. repeat split. Qed.

Example C12_nonvacuous_reclaimed :
  let s := cexec Resolver.init [RStart 0; RStep 0 true; RStep 0 true; RStart 0; RStep 1 true; ExpireL 0; ExpireB 0; Close 0; Done 1] in
  (exists o, nth_error (lobjs s) 0 = Some o /\ l_closed o = true) /\ dirs s = [] /\
  (forall h, nth_error (hs (lc s)) h <> Some (0, false)).
Proof.
  vm_compute. split; [eexists; split; reflexivity|]. split; [reflexivity|].
  intros h H. do 3 (destruct h as [|h]; [discriminate|]). destruct h; discriminate.
Qed.

Example C12_nonvacuous_failed :
  let s := cexec Resolver.init [RStart 0; RStep 0 true] in
  snd (tstep s 0 false) = EErr /\ view s = (1, 1, 0) /\ view (fst (tstep s 0 false)) = (0, 0, 0).
Proof. vm_compute. repeat split. Qed.

(* Non-vacuity of single_instance: two Resolve calls of name 0; the first is past the lock (at the registry call, its
   layer- and blob-cache lookups missed), the second blocks; when the first has returned fresh instance 0, the second's
   lookup obtains instance 0 and returns it shared. *)
Example C12_nonvacuous_single_instance :
  let s := cexec Resolver.init [RStart 0; RStart 0] in
  (exists th, nth_error (thrs s) 0 = Some th /\ active (t_pc th) = true /\ lmissed (t_pc th) = true /\ bmissed (t_pc th) = true) /\
  tstep s 1 true = (s, EBlocked) /\
  crun Resolver.init [RStart 0; RStart 0; RStep 0 true; RStep 0 true; RStep 1 true] =
    [(EPause 3, ENone, (0, 1, 0)); (EBlocked, ENone, (0, 1, 0)); (EPause 4, ENone, (1, 1, 0));
     (ERet 0 true, EPause 1, (1, 1, 1)); (ERet 0 false, ENone, (1, 1, 1))].
Proof. vm_compute. split; [eexists; repeat split|]. split; reflexivity. Qed.

(* connectivity refreshes.  The blob's fetcher is replaced only by an ACCEPTED Refresh: a Refresh that is refused —
   the registry cannot be resolved, or it offers a blob of another size — changes nothing at all (any state) ... *)
Theorem C12_refused_refresh_changes_nothing :
  forall (s : Resolver.st) (u : nat) (r : rfo), r = RfErr \/ r = RfSize -> fst (Resolver.step s (Refresh u r)) = s.
Proof. exact refused_refresh_nop. Qed.
Print Assumptions C12_refused_refresh_changes_nothing.

(* ... hence a held layer keeps serving also the reads that have to go to the registry (parts of the blob not yet in
   the blob cache), after any history of resolves, releases, expiry and Refresh calls accepted or refused — provided no
   registry was accepted that serves other bytes under the blob's own size (blob.Refresh compares sizes only; such a
   registry is outside "connectivity"). *)
Theorem C12_held_layer_serves_uncached_reads :
  forall (os : list Resolver.op) (u h : nat),
    Forall (fun o => ~ accepts_other_content o) os ->
    let s := Resolver.exec Resolver.init os in
    nth_error (uh s) u = Some (h, false) -> Resolver.step s (Probe u) = (s, EProbe true).
Proof. exact held_probe. Qed.
Print Assumptions C12_held_layer_serves_uncached_reads.

(* Non-vacuity: a held layer; refused refreshes (error, other size) leave uncached reads working; an accepted
   other-content registry breaks them (and only them: cached reads still work); an accepted good Refresh repairs them. *)
Example C12_nonvacuous_refresh :
  crun Resolver.init [RStart 0; RStep 0 true; RStep 0 true; Refresh 0 RfSize; Probe 0; Refresh 0 RfErr; Probe 0;
                      Refresh 0 RfContent; Probe 0; Use 0; Refresh 0 RfOk; Probe 0] =
  [(EPause 3, ENone, (0, 1, 0)); (EPause 4, ENone, (1, 1, 0)); (ERet 0 true, ENone, (1, 1, 1));
   (EErr, ENone, (1, 1, 1)); (EProbe true, ENone, (1, 1, 1)); (EErr, ENone, (1, 1, 1)); (EProbe true, ENone, (1, 1, 1));
   (ENone, ENone, (1, 1, 1)); (EProbe false, ENone, (1, 1, 1)); (EUse false false, ENone, (1, 1, 1));
   (ENone, ENone, (1, 1, 1)); (EProbe true, ENone, (1, 1, 1))].
Proof. vm_compute. reflexivity. Qed.

(* ---------------------------------------------------------------------------------------------------------
   The same at the level of fs/fs.go (Model/FsMount.v): Mount = Resolve of the target + pre-resolve of the
   neighbouring layers (released with Done at once), registration under the mountpoint; Check = layer Check, then
   Refresh; Unmount = unregister + Close.  A history is any list of: starting a Mount, single sub-steps of any of
   its Resolve calls (outcomes chosen by the adversary), Check, Unmount, Use, expiry of either cache. *)
From SV Require Model.FsMount Proofs.FsMount.
Module F := SV.Model.FsMount.

(* every filesystem-level state is a reachable resolver state: all theorems above hold of it *)
Theorem C12_fs_states_are_resolver_states :
  forall (fos : list F.fop), exists os, F.rs (F.fexec F.finit fos) = Resolver.exec Resolver.init os.
Proof. exact Proofs.FsMount.freach. Qed.
Print Assumptions C12_fs_states_are_resolver_states.

(* a mounted layer stays usable: whatever happened since its Mount (other mounts resolving, failing, sharing or
   re-resolving the same layer; unmounts of other mountpoints; expiry; failed checks), the layer registered under a
   mountpoint is an unreleased layerRef with open layer and blob; reads see it open; Check succeeds when the
   connectivity check passes, and also when it fails but the registry answers the Refresh. *)
Theorem C12_mounted_layer_usable :
  forall (fos : list F.fop) (mp u : nat),
    let s := F.fexec F.finit fos in
    F.lookup mp (F.mnts s) = Some u ->
    (exists h, nth_error (uh (F.rs s)) u = Some (h, false) /\ layer_flags (F.rs s) h = (false, false)) /\
    F.fstep s (F.FUse mp) = (s, EUse false false) /\
    (forall r, F.fstep s (F.FCheck mp true r) = (s, ENone)) /\
    snd (F.fstep s (F.FCheck mp false RfOk)) = ENone.
Proof. exact Proofs.FsMount.mounted_usable. Qed.
Print Assumptions C12_mounted_layer_usable.

(* the states the fs-level harness observes (a Mount runs its Resolve calls to completion) are covered *)
Theorem C12_fs_coarse_histories_covered :
  forall (os : list F.cop) (mp u : nat),
    let s := Proofs.FsMount.cfexec F.finit os in
    F.lookup mp (F.mnts s) = Some u -> F.fstep s (F.FUse mp) = (s, EUse false false).
Proof. exact Proofs.FsMount.coarse_mounted_usable. Qed.
Print Assumptions C12_fs_coarse_histories_covered.

(* Non-vacuity: two mountpoints share layer 0 of image 0 (neighbours 1 and 2 pre-resolved and released); layer and
   blob expire, mountpoint 0 is unmounted (evicting Close): mountpoint 1 is still registered and serves. *)
Example C12_nonvacuous_mounted :
  F.cfrun F.finit [F.CMount 0 0 true [1; 2] [[]; []; []]; F.CMount 1 0 true [1; 2] [[]; []; []];
                   F.COp (F.FExpireL 0); F.COp (F.FExpireB 0); F.COp (F.FUnmount 0); F.COp (F.FUse 1);
                   F.COp (F.FCheck 1 false RfErr); F.COp (F.FUnmount 1)] =
  [(ENone, (3, 3, 3, 1)); (ENone, (3, 3, 3, 2)); (ENone, (3, 3, 3, 2)); (ENone, (3, 3, 3, 2)); (ENone, (3, 3, 3, 1));
   (EUse false false, (3, 3, 3, 1)); (EErr, (3, 3, 3, 1)); (ENone, (2, 2, 2, 0))].
Proof. vm_compute. reflexivity. Qed.

(* the same through filesystem.Check: a refused Refresh leaves the filesystem state untouched *)
Theorem C12_check_refused_refresh_changes_nothing :
  forall (s : F.fst_) (mp : nat) (ok1 : bool) (r : rfo),
    r = RfErr \/ r = RfSize -> fst (F.fstep s (F.FCheck mp ok1 r)) = s.
Proof. exact Proofs.FsMount.check_refused_nop. Qed.
Print Assumptions C12_check_refused_refresh_changes_nothing.

(* Non-vacuity (Mount refused by verification): the layer is resolved, the reference released; after expiry nothing remains. *)
Example C12_nonvacuous_mount_refused :
  F.cfrun F.finit [F.CMount 0 0 false [1; 2] [[]; []; []]; F.COp (F.FUse 0);
                   F.COp (F.FExpireL 0); F.COp (F.FExpireB 0); F.COp (F.FExpireL 1); F.COp (F.FExpireB 1);
                   F.COp (F.FExpireL 2); F.COp (F.FExpireB 2)] =
  [(EErr, (3, 3, 3, 0)); (EErr, (3, 3, 3, 0)); (ENone, (2, 2, 2, 0)); (ENone, (2, 2, 2, 0)); (ENone, (1, 1, 1, 0));
   (ENone, (1, 1, 1, 0)); (ENone, (0, 0, 0, 0)); (ENone, (0, 0, 0, 0))].
Proof. vm_compute. reflexivity. Qed.
