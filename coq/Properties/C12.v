(* C12 — A mounted layer stays usable; a released layer gives back all its resources. *)
From Coq Require Import List Arith ZArith Bool.
From SV Require Import Model.Resolver Proofs.Resolver.
Import ListNotations.

Theorem C12_exec_app : forall s os1 os2, Resolver.exec s (os1 ++ os2) = Resolver.exec (Resolver.exec s os1) os2.
Proof. exact exec_app. Qed.
Print Assumptions C12_exec_app.
