(* C12 — A mounted layer stays usable; a released layer gives back all its resources.
   Statements only; every proof is [exact <lemma of Proofs/Resolver.v>].
   A history [os : list op] is an arbitrary interleaving of: starting Resolve calls, single sub-steps of any of
   them (each with an adversary-chosen outcome of the external call it makes: connectivity check, registry,
   metadata store), Done, Close (any number of times per handle), TTL expiry of either cache, Use, Refresh. *)
From Coq Require Import List Arith ZArith Bool.
From SV Require Import Model.Refcache Proofs.Refcache.
From SV Require Import Model.Resolver Proofs.Resolver.
Import ListNotations.

(* held_layer_usable.  In every reachable state, a layerRef whose holder called neither Done nor Close refers to a
   layer that is not closed, whose fscache directory exists, whose blob reference has not been released, whose blob
   is not closed and whose httpcache directory exists — whatever expiry, other resolvers (succeeding, failing,
   evicting after a failed check), other holders' Done/Close and refreshes did in between. *)
Theorem C12_held_layer_usable :
  forall (os : list Resolver.op) (u h : nat),
    let s := Resolver.exec Resolver.init os in
    nth_error (uh s) u = Some (h, false) ->
    layer_flags s h = (false, false) /\
    exists v o b ob,
      nth_error (hs (lc s)) h = Some (v, false) /\ nth_error (lobjs s) v = Some o /\ l_closed o = false /\
      In (l_dir o) (dirs s) /\ nth_error (hs (bc s)) (l_bh o) = Some (b, false) /\
      nth_error (bobjs s) b = Some ob /\ b_closed ob = false /\ In (b_dir ob) (dirs s).
Proof. intros os u h s H. exact (held_usable s u h (Proofs.Resolver.reach_inv os) H). Qed.
Print Assumptions C12_held_layer_usable.

(* ... hence what the holder observes: Check/RootNode/reads see an open layer and blob, Refresh succeeds whenever
   the registry answers. *)
Theorem C12_held_layer_serves :
  forall (os : list Resolver.op) (u h : nat),
    let s := Resolver.exec Resolver.init os in
    nth_error (uh s) u = Some (h, false) ->
    Resolver.step s (Use u) = (s, EUse false false) /\ Resolver.step s (Refresh u true) = (s, ENone).
Proof. intros os u h s H. exact (held_use s u h (Proofs.Resolver.reach_inv os) H). Qed.
Print Assumptions C12_held_layer_serves.

(* released_reclaimed (layer).  Once no done-closure of layer v is outstanding (every holder released; by
   C12_nothing_orphaned below every outstanding closure belongs to an unreleased layerRef or to a Resolve call in
   flight) and v has left the cache (expired, evicted by Close or by a failed check), the layer is closed (reader
   and metadata closed), its fscache directory is gone and its blob reference has been released. *)
Theorem C12_released_layer_reclaimed :
  forall (os : list Resolver.op) (v : nat) (o : lobj),
    let s := Resolver.exec Resolver.init os in
    nth_error (lobjs s) v = Some o ->
    (forall h, nth_error (hs (lc s)) h <> Some (v, false)) -> ~ in_cache (lc s) v ->
    l_closed o = true /\ ~ In (l_dir o) (dirs s) /\ exists b, nth_error (hs (bc s)) (l_bh o) = Some (b, true).
Proof. intros os v o s. exact (layer_reclaimed s v o (Proofs.Resolver.reach_inv os)). Qed.
Print Assumptions C12_released_layer_reclaimed.

(* released_reclaimed (blob): likewise the blob and its httpcache directory. *)
Theorem C12_released_blob_reclaimed :
  forall (os : list Resolver.op) (b : nat) (ob : bobj),
    let s := Resolver.exec Resolver.init os in
    nth_error (bobjs s) b = Some ob ->
    (forall h, nth_error (hs (bc s)) h <> Some (b, false)) -> ~ in_cache (bc s) b ->
    b_closed ob = true /\ ~ In (b_dir ob) (dirs s).
Proof. intros os b ob s. exact (blob_reclaimed s b ob (Proofs.Resolver.reach_inv os)). Qed.
Print Assumptions C12_released_blob_reclaimed.

(* failed_resolve_leaks_nothing, global part.  In every reachable state every outstanding done-closure of the layer
   cache belongs to an unreleased layerRef or to a Resolve in flight; every outstanding done-closure of the blob cache
   belongs to an unclosed layer or to a Resolve in flight; every existing cache directory belongs to an unclosed layer,
   an unclosed blob or a Resolve in flight.  (So nothing a failed, finished Resolve created can remain.) *)
Theorem C12_nothing_orphaned :
  forall (os : list Resolver.op),
    let s := Resolver.exec Resolver.init os in
    (forall h v, nth_error (hs (lc s)) h = Some (v, false) -> lc_owner s h) /\
    (forall h b, nth_error (hs (bc s)) h = Some (b, false) -> bc_owner s h) /\
    (forall d, In d (dirs s) -> dir_owner s d).
Proof. intros os s. exact (no_orphans s (Proofs.Resolver.reach_inv os)). Qed.
Print Assumptions C12_nothing_orphaned.

(* failed_resolve_leaks_nothing, local part.  A sub-step on which Resolve returns an error (in any state) leaves the
   call finished (holding nothing), has removed the directory it held and created no directory. *)
Theorem C12_failed_resolve_leaks_nothing :
  forall (s : Resolver.st) (t : nat) (ok : bool),
    snd (tstep s t ok) = EErr ->
    pc_of (fst (tstep s t ok)) t = PDone /\
    exists th d, nth_error (thrs s) t = Some th /\ pc_dir (t_pc th) = Some d /\
      ~ In d (dirs (fst (tstep s t ok))) /\ (forall d', In d' (dirs (fst (tstep s t ok))) -> In d' (dirs s)).
Proof. exact tstep_err. Qed.
Print Assumptions C12_failed_resolve_leaks_nothing.

(* single_instance.  FULL STATEMENT (not proved here): "two Resolve calls for one name never both run between
   resolveLock.Lock and Unlock, hence a Resolve reaches layerCache.Add only when no instance of that name is cached,
   hence at most one instance per name is ever created while another is cached" — this needs the per-name lock
   discipline as a further invariant (mutual exclusion of PWait-exits per name); it is checked on every run by the
   harness oracle ("two Resolve calls ... run past the per-name lock together") and by the model/code comparison of the
   Blocked events, but not proved in Coq.
   PROVED (extra hypothesis spelled out: the call does get the lock, i.e. the name's lock is free when it looks up):
   a Resolve that looks up a name whose instance v is cached obtains exactly v (it holds a done-closure of v), and
   if v then passes the connectivity check the call returns v, not a new instance. *)
Theorem C12_single_instance_partial :
  forall (s : Resolver.st) (t : nat) (th : thr) (v : nat),
    nth_error (thrs s) t = Some th -> t_pc th = PWait ->
    mem (t_name th) (locks s) = false -> lru_find (lru (lc s)) (t_name th) = Some v ->
    let s1 := fst (tstep s t true) in
    pc_of s1 t = PHit (length (hs (lc s))) /\ hval (lc s1) (length (hs (lc s))) = Some v /\
    (forall th1, nth_error (thrs s1) t = Some th1 -> t_pc th1 = PHit (length (hs (lc s))) ->
       layer_flags s1 (length (hs (lc s))) = (false, false) -> snd (tstep s1 t true) = ERet v false).
Proof.
  intros s t th v Ht Hp Hl Hf s1. destruct (lookup_hit s t th v Ht Hp Hl Hf) as [A B].
  split; [exact A|]. split; [exact B|]. intros th1 H1 H2 H3. exact (hit_returns s1 t th1 _ v H1 H2 H3 B).
Qed.
Print Assumptions C12_single_instance_partial.

(* The states the harness observes (coarse steps: a Resolve runs from one external call to the next, and a waiter
   on the per-name lock proceeds when the lock is released) satisfy the same invariant, hence the same theorems. *)
Theorem C12_coarse_histories_covered :
  forall (os : list Resolver.op) (u h : nat),
    let s := cexec Resolver.init os in
    nth_error (uh s) u = Some (h, false) -> layer_flags s h = (false, false).
Proof. intros os u h s H. exact (proj1 (held_usable s u h (cexec_inv os _ RInv_init) H)). Qed.
Print Assumptions C12_coarse_histories_covered.

(* Non-vacuity: resolve name 0 (registry and metadata answer), a second Resolve shares it; the layer expires, the
   first holder Closes: the second holder's layer is still open with both directories; after it releases too,
   everything is reclaimed. *)
Example C12_nonvacuous_held :
  let s := cexec Resolver.init [RStart 0; RStep 0 true; RStep 0 true; RStart 0; RStep 1 true; ExpireL 0; ExpireB 0; Close 0] in
  nth_error (uh s) 1 = Some (1, false) /\ layer_flags s 1 = (false, false) /\ view s = (1, 1, 1).
Proof. vm_compute. repeat split. Qed.

Example C12_nonvacuous_reclaimed :
  let s := cexec Resolver.init [RStart 0; RStep 0 true; RStep 0 true; RStart 0; RStep 1 true; ExpireL 0; ExpireB 0; Close 0; Done 1] in
  (exists o, nth_error (lobjs s) 0 = Some o /\ l_closed o = true) /\ dirs s = [] /\
  (forall h, nth_error (hs (lc s)) h <> Some (0, false)).
Proof.
  vm_compute. split; [eexists; split; reflexivity|]. split; [reflexivity|].
  intros h H. do 3 (destruct h as [|h]; [discriminate|]). destruct h; discriminate.
Qed.

Example C12_nonvacuous_failed :
  let s := cexec Resolver.init [RStart 0; RStep 0 true] in
  snd (tstep s 0 false) = EErr /\ view s = (1, 1, 0) /\ view (fst (tstep s 0 false)) = (0, 0, 0).
Proof. vm_compute. repeat split. Qed.
