(* C17 — FUSE manager's persistent record equals its live mounts across re-init / restart.
   Statements only; every proof is [exact <lemma of Proofs/Fusemgr.v>].
   Reachable states: [exec (init g e) os] for every code variant g (true = with patches/C17-fix-1.diff),
   every set e of mountpoints the kernel lists without them being ours, and every history os of
   Init (any failing stage / any restore failure script) / Mount / Check / Unmount (any backend outcome) /
   Close / Restart (manager process killed and started again on the kept store file; since each RPC commits
   at most one store transaction, as its last effect, a crash inside an RPC is a Restart before or after it).
   serving s m  = some filesystem instance of the manager has m mounted;  recorded s m = the store has a record for m;
   tracked s m  = the manager's table (fsMap) has an owner for m. *)
From Coq Require Import List Arith Bool.
From SV Require Import Model.Fusemgr Proofs.Fusemgr Model.FusemgrSub Proofs.FusemgrSub.
Import ListNotations.

(* Clause 1. While the store is open: everything served is recorded; and once initialised, unless the last
   Init of this process reported an error, everything recorded is served. *)
Theorem C17_store_equals_live :
  forall g e os, let s := exec (init g e) os in
    closed s = false ->
    (forall m, serving s m -> recorded s m)
    /\ (stat s = Ready -> ierr s = false -> forall m, recorded s m -> serving s m).
Proof. intros g e os s. exact (store_live s (reach_inv g e os)). Qed.
Print Assumptions C17_store_equals_live.

(* Clause 1, the error report: an Init answers OK exactly when it leaves the "last Init failed" flag clear,
   it always leaves the manager Ready and never touches the store; if it answers OK (store open) every record is served. *)
Theorem C17_init_reports_unrestored :
  forall g e os c k sc, let s := exec (init g e) os in
    let s' := fst (step s (Init c k sc)) in
    let r := fst (snd (step s (Init c k sc))) in
    stat s' = Ready /\ store s' = store s /\ (r = ROk <-> ierr s' = false)
    /\ (closed s = false -> r = ROk -> forall m, recorded s m -> serving s' m).
Proof.
  intros g e os c k sc s s' r.
  destruct (init_facts s c k sc (reach_inv g e os)) as (A & B & _ & D & _).
  split; [exact A|]. split; [exact B|]. split; [exact D|].
  intros Cl Hr. exact (init_ok_all_served s c k sc (reach_inv g e os) Cl Hr).
Qed.
Print Assumptions C17_init_reports_unrestored.

(* Clause 1, "at most those whose restoration failed during the last initialisation": the set of records that
   are not served never grows, except across a manager restart (where nothing is served until the next Init);
   so between two Inits it is a subset of what the last Init left unrestored. *)
Theorem C17_unrestored_only_shrinks :
  forall g e os o, let s := exec (init g e) os in
    is_restart o = false ->
    forall m, recorded (fst (step s o)) m -> ~ tracked (fst (step s o)) m -> recorded s m /\ ~ tracked s m.
Proof. intros g e os o s. exact (unrestored_shrinks s o (reach_inv g e os)). Qed.
Print Assumptions C17_unrestored_only_shrinks.

(* The manager's table is the truth about its filesystems: m has an owner iff some instance serves m; the owner
   serves it exactly once and no other instance serves it (no mountpoint is ever mounted twice). *)
Theorem C17_owner_serves_alone :
  forall g e os m, let s := exec (init g e) os in
    (tracked s m <-> serving s m)
    /\ (forall i, find (fsmap s) m = Some i ->
          i < length (insts s) /\ occ m (mnt_of s i) = 1 /\ forall j, j <> i -> occ m (mnt_of s j) = 0)
    /\ (forall i, 0 < occ m (mnt_of s i) -> find (fsmap s) m = Some i).
Proof.
  intros g e os m s. split; [exact (tracked_serving s m (reach_inv g e os))|]. split.
  - intros i. exact (owner_serves s m i (reach_inv g e os)).
  - intros i H. exact (proj1 (owner_unique s m i (reach_inv g e os) H)).
Qed.
Print Assumptions C17_owner_serves_alone.

(* Clause 2a. Re-initialisation (Init on a live manager, any outcome): every existing mount keeps its owner, every
   backend call Init makes is a Mount on the instance it has just built, of a recorded mountpoint that was NOT
   mounted, with its recorded labels. More generally an owner changes only by a successful Unmount of that
   mountpoint or a manager restart. *)
Theorem C17_reinit_keeps_owners :
  forall g e os c k sc, let s := exec (init g e) os in
    let s' := fst (step s (Init c k sc)) in
    (forall m i, find (fsmap s) m = Some i -> find (fsmap s') m = Some i)
    /\ (forall cl, In cl (snd (snd (step s (Init c k sc)))) ->
          exists m l c0, cl = (length (insts s), KMount, m, l)
                         /\ find (store s) m = Some (l, c0) /\ find (fsmap s) m = None).
Proof.
  intros g e os c k sc s s'.
  destruct (init_facts s c k sc (reach_inv g e os)) as (_ & _ & _ & _ & E & F & _). exact (conj E F).
Qed.
Print Assumptions C17_reinit_keeps_owners.

Theorem C17_owner_stable :
  forall s o m i, find (fsmap s) m = Some i -> is_restart o = false -> o <> Unmount m true ->
    find (fsmap (fst (step s o))) m = Some i.
Proof. exact owner_stable. Qed.
Print Assumptions C17_owner_stable.

(* Clause 2b. Check and Unmount of a mounted mountpoint reach its owner (the instance that mounted it, by
   C17_owner_serves_alone) and nothing else. *)
Theorem C17_check_unmount_by_owner :
  forall s m l ok i, stat s = Ready -> find (fsmap s) m = Some i ->
    snd (step s (Check m l ok)) = (if ok then ROk else RErr, [(i, KCheck, m, l)])
    /\ snd (step s (Unmount m ok)) = (if ok then ROk else RErr, [(i, KUnmount, m, 0)]).
Proof.
  intros s m l ok i R F. split; [now rewrite (check_by_owner s m l ok i R F)|exact (unmount_by_owner s m ok i R F)].
Qed.
Print Assumptions C17_check_unmount_by_owner.

(* Clause 2c. After an Init with configuration c that answered OK, and any later requests (no further Init or
   restart), a new mount goes to the instance built by that Init, which was built from c, and is recorded with the
   request's labels and c. *)
Theorem C17_new_mounts_use_new_config :
  forall g e os c k sc os' m l,
    let s := exec (init g e) os in
    let n := length (insts s) in
    let s2 := exec (fst (step s (Init c k sc))) os' in
    fst (snd (step s (Init c k sc))) = ROk -> forallb quiet os' = true ->
    stat s2 = Ready -> find (fsmap s2) m = None ->
    cfg_of s2 n = Some c
    /\ snd (step s2 (Mount m l true)) = (ROk, [(n, KMount, m, l)])
    /\ find (fsmap (fst (step s2 (Mount m l true)))) m = Some n
    /\ (closed s2 = false -> find (store (fst (step s2 (Mount m l true)))) m = Some (l, c)).
Proof.
  intros g e os c k sc os' m l s n s2 Hr Q R F.
  destruct (init_facts s c k sc (reach_inv g e os)) as (_ & _ & _ & _ & _ & _ & G).
  destruct (G Hr) as (_ & Cu & Cf & Co).
  destruct (quiet_exec os' _ n c Q Co) as (Cu' & Cf' & Co').
  split; [exact Co'|].
  exact (mount_new s2 m l n c R F (eq_trans Cu' Cu) (eq_trans Cf' Cf)).
Qed.
Print Assumptions C17_new_mounts_use_new_config.

(* Clause 3. Manager restart with the store kept, then Init: the store is unchanged; the backend calls are Mounts on
   the new instance of a prefix of the records in store order, each with its recorded labels; if Init answers OK
   they are all the records, and every recorded mountpoint is owned and served by the new instance (built from
   the Init's configuration) with its recorded labels. *)
Theorem C17_restart_remounts :
  forall g e os c sc, let s := exec (init g e) os in
    closed s = false ->
    let s0 := fst (step s Restart) in
    let n := length (insts s) in
    let s1 := fst (step s0 (Init c IRun sc)) in
    let r := fst (snd (step s0 (Init c IRun sc))) in
    let cs := snd (snd (step s0 (Init c IRun sc))) in
    store s1 = store s
    /\ (exists k, cs = firstn k (map (rcall n) (store s)))
    /\ (r = ROk -> cs = map (rcall n) (store s)
                 /\ forall m l c0, find (store s) m = Some (l, c0) ->
                      find (fsmap s1) m = Some n /\ In (m, l) (mnt_of s1 n) /\ cfg_of s1 n = Some c).
Proof. intros g e os c sc s. exact (restart_init s c sc (reach_inv g e os)). Qed.
Print Assumptions C17_restart_remounts.

(* Clause 4a. Unmounting a mountpoint that no instance serves and the kernel does not list succeeds, calls no
   filesystem and changes nothing (in particular when it is not recorded either). *)
Theorem C17_unmount_unknown_ok :
  forall g e os m ok, let s := exec (init g e) os in
    stat s = Ready -> ~ serving s m -> ~ In m e ->
    step s (Unmount m ok) = (s, (ROk, [])).
Proof.
  intros g e os m ok s R NS NE. apply (unmount_unknown s m ok (reach_inv g e os) R NS).
  unfold s. now rewrite (proj2 (exec_consts os (init g e))).
Qed.
Print Assumptions C17_unmount_unknown_ok.

(* Clause 4b. Requests before initialisation fail: a manager that is not Ready answers every Mount/Check/Unmount
   with an error, calls no filesystem and changes nothing; a fresh or restarted manager is not Ready until an Init. *)
Theorem C17_gate_before_init :
  (forall s o, stat s <> Ready -> is_request o = true -> step s o = (s, (RErr, [])))
  /\ (forall g e os os', forallb (fun o => negb (is_init o)) os' = true ->
        stat (exec (init g e) os') <> Ready
        /\ stat (exec (fst (step (exec (init g e) os) Restart)) os') <> Ready).
Proof.
  split; [exact gate|]. intros g e os os' H.
  split; apply not_ready_until_init; try exact H; cbn; discriminate.
Qed.
Print Assumptions C17_gate_before_init.

(* F19 (repaired by patches/C17-fix-1.diff): in the repaired code no request ever dereferences a nil filesystem
   or a nil config, whatever Inits failed before it. *)
Theorem C17_no_nil_dereference :
  forall e os o, fst (snd (step (exec (init true e) os) o)) <> RPanic.
Proof.
  intros e os o. apply no_panic_step; [apply reach_inv|].
  now rewrite (proj1 (exec_consts os (init true e))).
Qed.
Print Assumptions C17_no_nil_dereference.

(* ... and the code as found does: a failed first Init leaves the manager Ready without a filesystem. *)
Theorem C17_no_nil_dereference_refuted_without_fix :
  exists os o, fst (snd (step (exec (init false []) os) o)) = RPanic.
Proof. exists [Init 0 IFsFail []], (Mount 1 1 true). vm_compute. reflexivity. Qed.
Print Assumptions C17_no_nil_dereference_refuted_without_fix.

(* The observations the implementation is compared on every run ([run], evaluated by the correspondence check) are
   exactly the step results, backend calls and views of the states the theorems above speak about. *)
Theorem C17_observations_are_steps :
  forall g e os, run (init g e) os = (exec (init g e) os, trace (init g e) os).
Proof. intros g e os. exact (run_trace os (init g e)). Qed.
Print Assumptions C17_observations_are_steps.

(* Which labels are "the recorded labels" of clause 3: every Mount that answers OK (also the one that finds the mountpoint
   already mounted and mounts nothing) leaves the record (labels of THIS request, current configuration). The record is thus
   the latest acknowledged Mount request, which for a repeated Mount with other labels is not what the instance serves;
   clause 3 speaks of the recorded labels and holds as stated (C17_restart_remounts). Likewise the configuration field of a
   record is the latest configuration an Init got as far as storing, which after an Init that failed in a ConfigFunc or in
   NewFileSystem is not the one the serving instance was built from; nothing reads that field back (restore builds every
   mount from the Init's own configuration), and "new mounts use the new configuration" is about a re-initialisation that
   succeeded (C17_new_mounts_use_new_config). Neither observation contradicts a clause of C17. *)
Theorem C17_record_is_last_acknowledged_mount :
  forall s m l ok, closed s = false -> fst (snd (step s (Mount m l ok))) = ROk ->
    exists c, cfg s = Some c /\ find (store (fst (step s (Mount m l ok)))) m = Some (l, c)
              /\ tracked (fst (step s (Mount m l ok))) m.
Proof. exact mount_ok_records. Qed.
Print Assumptions C17_record_is_last_acknowledged_mount.

(* ===== Sub-step machine (Model/FusemgrSub.v): requests decomposed into gate+fsMap.Load / filesystem call /
   fsMap update / fusestore write, interleaved as the locks permit (any number of Mount/Check/Unmount in flight under
   the shared lock; Init and Close only when none is), manager crashes between any two sub-steps.
   [cinit g true e] = the code with the per-mountpoint mutex of patches/C17-fix-2.diff; [cinit g false e] = as found. ===== *)

(* Clause 1 for every interleaving and every crash point: while the store is open, for every mountpoint that no Mount /
   Unmount in flight is working on (at a quiescent point: every mountpoint), served implies recorded, and once
   initialised without a reported error recorded implies served. *)
Theorem C17_sub_store_equals_live :
  forall g e os m, let s := sexec (cinit g true e) os in
    closed (base s) = false -> locked (thr s) m = false ->
    (serving (base s) m -> recorded (base s) m)
    /\ (stat (base s) = Ready -> ierr (base s) = false -> recorded (base s) m -> serving (base s) m).
Proof. intros g e os m s Cl Lk. exact (free_live s m (sreach_sinv g e os) (locked_false _ _ Lk) Cl). Qed.
Print Assumptions C17_sub_store_equals_live.

(* Clause 2 ("not mounted a second time") at EVERY point of every interleaving: no instance has a mountpoint mounted
   twice and no two instances have the same mountpoint mounted. *)
Theorem C17_sub_never_mounted_twice :
  forall g e os m, let s := sexec (cinit g true e) os in
    (forall i, occ m (mnt_of (base s) i) <= 1)
    /\ (forall i j, 0 < occ m (mnt_of (base s) i) -> 0 < occ m (mnt_of (base s) j) -> i = j).
Proof.
  intros g e os m s. split; [intros i; exact (single_mount s m i (sreach_sinv g e os))|].
  intros i j. exact (single_owner s m i j (sreach_sinv g e os)).
Qed.
Print Assumptions C17_sub_never_mounted_twice.

(* A crash at ANY sub-step: every request dies, nothing is served, the store is exactly what the last committed
   transaction left, the manager is not ready. *)
Theorem C17_sub_crash_anywhere :
  forall s, let s' := fst (sstep s SRestart) in
    busy (thr s') = false /\ store (base s') = store (base s) /\ closed (base s') = false
    /\ fsmap (base s') = [] /\ (forall m i, occ m (mnt_of (base s') i) = 0) /\ stat (base s') = WaitInit.
Proof. exact crash_anywhere. Qed.
Print Assumptions C17_sub_crash_anywhere.

(* Clause 3 from any crash point (requests may be between "mounted" and "recorded", or between "unmounted" and
   "record removed"): the Init after the crash is never blocked, it is the sequential Init on the kept store; it
   re-mounts a prefix of the records in store order with their recorded labels, and all of them if it answers OK. *)
Theorem C17_sub_restart_remounts :
  forall g e os c sc, let s := sexec (cinit g true e) os in
    closed (base s) = false ->
    let b0 := fst (step (base s) Restart) in
    let n := length (insts (base s)) in
    let s1 := fst (step b0 (Init c IRun sc)) in
    let r := fst (snd (step b0 (Init c IRun sc))) in
    let cs := snd (snd (step b0 (Init c IRun sc))) in
    sstep (fst (sstep s SRestart)) (SInit c IRun sc) = (mkC s1 (map (fun _ => PDone) (thr s)) (mplock s), (SFin r, cs))
    /\ store s1 = store (base s)
    /\ (exists k, cs = firstn k (map (rcall n) (store (base s))))
    /\ (r = ROk -> cs = map (rcall n) (store (base s))
                 /\ forall m l c0, find (store (base s)) m = Some (l, c0) ->
                      find (fsmap s1) m = Some n /\ In (m, l) (mnt_of s1 n) /\ cfg_of s1 n = Some c).
Proof.
  intros g e os c sc s Cl b0 n s1 r cs. split.
  - rewrite (sstep_restart_init s c sc). unfold s1, r, cs, b0.
    destruct (step (fst (step (base s) Restart)) (Init c IRun sc)) as [b' [r' cs']]. reflexivity.
  - exact (restart_init_sorted (base s) c sc (S_sorted s (sreach_sinv g e os)) Cl).
Qed.
Print Assumptions C17_sub_restart_remounts.

(* The observations compared with the real code on every run are the sub-step results of these states. *)
Theorem C17_sub_observations_are_steps :
  forall g lk e os, srun (cinit g lk e) os = (sexec (cinit g lk e) os, strace (cinit g lk e) os).
Proof. intros. exact (srun_trace os (cinit g lk e)). Qed.
Print Assumptions C17_sub_observations_are_steps.

(* The code as found (no per-mountpoint mutex; witnesses reproduced on the real code, replays/C17-F19b/F19c):
   two Mounts of one mountpoint begun together mount it twice ... *)
Theorem C17_sub_never_mounted_twice_refuted_without_mutex :
  exists os, occ 1 (mnt_of (base (sexec (cinit true false []) os)) 0) = 2.
Proof.
  exists [SInit 0 IRun []; BMount 1 1; BMount 1 2; Adv 0 true; Adv 1 true; Adv 0 true; Adv 1 true; Adv 0 true; Adv 1 true].
  vm_compute. reflexivity.
Qed.
Print Assumptions C17_sub_never_mounted_twice_refuted_without_mutex.

(* ... and a Mount that begins while an Unmount of the same mountpoint is between fs.Unmount and fsMap.Delete
   answers OK and leaves, at a quiescent point after an Init without error, a record nobody serves. *)
Theorem C17_sub_store_equals_live_refuted_without_mutex :
  exists os, let s := sexec (cinit true false []) os in
    busy (thr s) = false /\ closed (base s) = false /\ stat (base s) = Ready /\ ierr (base s) = false
    /\ recorded (base s) 1 /\ ~ serving (base s) 1.
Proof.
  exists [SInit 0 IRun []; BMount 1 1; Adv 0 true; Adv 0 true; Adv 0 true; BUnmount 1; Adv 1 true; BMount 1 2;
          Adv 1 true; Adv 1 true; Adv 2 true].
  vm_compute. repeat split; try discriminate.
  intros [i H]. destruct i as [|[|i]]; vm_compute in H; inversion H.
Qed.
Print Assumptions C17_sub_store_equals_live_refuted_without_mutex.

(* ---- non-vacuity ---- *)
(* with the mutex: two requests in flight on different mountpoints, a third one on a held mountpoint does not begin *)
Example C17_sub_nonvacuous :
  let s := sexec (cinit true true [0]) [SInit 0 IRun []; BMount 1 1; BMount 2 2; Adv 0 true; BMount 1 2; BUnmount 1] in
  thr s = [PMMap 1 1 0; PMCall 2 2 0] /\ locked (thr s) 1 = true /\ locked (thr s) 3 = false
  /\ closed (base s) = false /\ occ 1 (mnt_of (base s) 0) = 1 /\ fsmap (base s) = [].
Proof. vm_compute. repeat split. Qed.

(* snapshotter restart with live mounts and a new configuration, then manager restart with a failing restore:
   mounts 1,2 made under config 0 by instance 0; re-Init with config 1 builds instance 1 and mounts nothing;
   mount 3 goes to instance 1 and is recorded with config 1; after the restart Init restores 1, fails on 2,
   reports the error; records 2 and 3 are left unserved. *)
Example C17_nonvacuous_reinit_restart :
  let s := exec (init true [0]) [Init 0 IRun []; Mount 1 1 true; Mount 2 2 true; Init 1 IRun []; Mount 3 3 true] in
  fsmap s = [(1, 0); (2, 0); (3, 1)] /\ store s = [(1, (1, 0)); (2, (2, 0)); (3, (3, 1))]
  /\ stat s = Ready /\ ierr s = false /\ closed s = false /\ serving s 3 /\ recorded s 3
  /\ (let s1 := fst (step (fst (step s Restart)) (Init 2 IRun [true; false])) in
      fst (snd (step (fst (step s Restart)) (Init 2 IRun [true; false]))) = RErr
      /\ fsmap s1 = [(1, 2)] /\ ierr s1 = true /\ recorded s1 2 /\ ~ tracked s1 2 /\ mnt_of s1 2 = [(1, 1)]).
Proof.
  vm_compute. repeat split; try discriminate.
  - exists 1. vm_compute. auto.
  - intros H; now apply H.
Qed.

(* hypotheses of C17_new_mounts_use_new_config and C17_restart_remounts (OK case) are satisfiable *)
Example C17_nonvacuous_ok_cases :
  let s := exec (init true [0]) [Init 0 IRun []; Mount 1 1 true] in
  fst (snd (step s (Init 1 IRun []))) = ROk
  /\ stat (exec (fst (step s (Init 1 IRun []))) [Check 1 1 true]) = Ready
  /\ find (fsmap (exec (fst (step s (Init 1 IRun []))) [Check 1 1 true])) 2 = None
  /\ closed s = false
  /\ fst (snd (step (fst (step s Restart)) (Init 2 IRun []))) = ROk
  /\ snd (snd (step (fst (step s Restart)) (Init 2 IRun []))) = [(1, KMount, 1, 1)].
Proof. vm_compute. repeat split. Qed.
