(* C17 — placeholder while the proofs are being written *)
From Coq Require Import List Arith Bool.
From SV Require Import Model.Fusemgr.
Import ListNotations.
