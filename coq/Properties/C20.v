(* C20 — Snapshot labels written at pull time reproduce the layer's source at mount time.
   Statements only; every proof is [exact <lemma of Proofs/Labels.v>].

   Vocabulary (Model/Labels.v):  default_ann ref pf (c :: rest)  = the annotations AppendDefaultLabelsHandlerWrapper
   attaches to layer child c, [c :: rest] being children[i:];  extra_over l0 children pf c = what
   AppendExtraLabelsHandler makes of the annotations l0 left by the wrapped handler (containerd's);
   read_default / read_cri / read_service = FromDefaultLabels / sourceFromCRILabels / the service chain;
   parse_ref = containerd's reference.Parse, an arbitrary function here;  wire k us = the URL list read back from
   the label k written for the URL list us;  taken_of suffix = the (index, child) pairs listed in the layers label. *)
From Coq Require Import List NArith ZArith Bool Arith.
From SV Require Import Gen.Consts Model.Labels Proofs.Labels.
Import ListNotations.

(* 1. Every label the default handler writes passes containerd's labels.Validate. The image reference and the
   layer's own digest are the only values written without a size check: their fitting is the explicit hypothesis.
   (10^18 bounds the number of children: a Go slice length.) *)
Theorem C20_labels_valid_default :
  forall ref pf c rest k v,
    validate KRef ref = true -> validate KDigest (c_digest c) = true -> in_int64 pf ->
    length (c :: rest) < 10 ^ 18 ->
    In (k, v) (default_ann ref pf (c :: rest)) -> validate k v = true.
Proof. exact default_labels_valid. Qed.
Print Assumptions C20_labels_valid_default.

(* 1'. Every label the extra handler adds on top of the wrapped handler's annotations l0 (whatever they are, as long
   as the cri.image-layers label it parses is itself a valid label) passes labels.Validate. *)
Theorem C20_labels_valid_extra :
  forall l0 children pf c l,
    extra_over l0 children pf c = Some l -> in_int64 pf ->
    (forall nl, lget l0 KCriLayers = Some nl -> validate KCriLayers nl = true) ->
    forall k v, In (k, v) l -> In (k, v) l0 \/ validate k v = true.
Proof. exact extra_over_valid. Qed.
Print Assumptions C20_labels_valid_extra.

(* 2. Round trip, default flavour, any manifest "config first, then layers" (every child after the target is a layer),
   any reference parser: the reader returns the parsed pull reference, the layer's digest, the layer's URLs as they
   travel on the wire, and as neighbours exactly the entries of the layers label other than the target's own digest,
   each with the wire form of ITS OWN URLs; the label lists a manifest-order prefix of children[i:], numbered
   0,1,2,..., and that prefix is maximal: it is everything, or the next digest would not fit the size limit. *)
Theorem C20_roundtrip_default :
  forall (parse_ref : str -> option str) ref R pf c rest,
    parse_ref ref = Some R ->
    c_layer c = true -> digest_valid (c_digest c) = true ->
    Forall (fun x => c_layer x = true) rest ->
    Forall (fun x => digest_valid (c_digest x) = true) rest ->
    let taken := taken_of (c :: rest) in
    read_default parse_ref (default_ann ref pf (c :: rest))
    = ROk R (c_digest c) (wire KUrls (c_urls c))
          (map (fun jc => (c_digest (snd jc), wire (KUrlsIdx (fst jc)) (c_urls (snd jc))))
               (filter (fun jc => negb (str_eqb (c_digest (snd jc)) (c_digest c))) taken))
    /\ (exists n, map snd taken = firstn n (c :: rest) /\ map fst taken = seq 0 n)
    /\ (map snd taken = c :: rest \/
        exists n c', map snd taken = firstn n (c :: rest) /\ nth_error (c :: rest) n = Some c' /\
                     budget KLayers < total_len (map c_digest (firstn n (c :: rest))) + S (length (c_digest c'))).
Proof. exact roundtrip_default_full. Qed.
Print Assumptions C20_roundtrip_default.

(* 2'. Writer side, without any assumption on the children: every entry of the layers label is a layer-typed child,
   sits in children[i:] at the index it is numbered with, and the urls.<index> label holds its own URLs. *)
Theorem C20_default_urls_stored_under_own_index :
  forall ref pf c rest p, In p (taken_of (c :: rest)) ->
    nth_error (c :: rest) (fst p) = Some (snd p) /\ c_layer (snd p) = true /\
    lget (default_ann ref pf (c :: rest)) (KUrlsIdx (fst p))
    = Some (urls_value (KUrlsIdx (fst p)) (c_urls (snd p))).
Proof. exact default_own_index. Qed.
Print Assumptions C20_default_urls_stored_under_own_index.

(* 2''. Outside the stated domain the pairing breaks (known finding F17c): with a non-layer blob inside the layer
   list, the reader counts label entries while the writer counted children, and a neighbour (the third child after the
   target) comes back with the URLs of another layer (the second). *)
Theorem C20_nonlayer_shift_refuted :
  exists c rest ref pf n,
    c_layer c = true /\ Forall (fun x => digest_valid (c_digest x) = true) (c :: rest) /\
    read_default (fun s => Some s) (default_ann ref pf (c :: rest)) = ROk ref (c_digest c) (wire KUrls (c_urls c)) n /\
    exists l2 l3, nth_error rest 1 = Some l2 /\ nth_error rest 2 = Some l3 /\ c_layer l3 = true /\
                  In (c_digest l3, c_urls l2) n /\ c_digest l3 <> c_digest l2 /\ c_urls l3 <> c_urls l2.
Proof. exact nonlayer_shift_refuted. Qed.
Print Assumptions C20_nonlayer_shift_refuted.

(* 2e. Round trip, extra flavour (containerd's AppendInfoHandlerWrapper + AppendExtraLabelsHandler, read by the CRI
   reader), any children list: whenever the handler succeeds, the reader returns the parsed pull reference, the
   layer's digest, its URLs in wire form, and as neighbours the entries of containerd's cri.image-layers label other
   than the target's digest; the URLs attached to the entry at position i are those stored under urls.<i>, i.e. the
   URLs of the first child of the manifest carrying THAT digest (descriptors with equal digests denote one blob). *)
Theorem C20_roundtrip_extra :
  forall (parse_ref : str -> option str) children ref R pf md c rest l,
    extra_ann children ref pf md (c :: rest) = Some l ->
    parse_ref ref = Some R -> digest_valid (c_digest c) = true ->
    let ds := split_comma (cri_layers_value (c :: rest)) in
    read_cri parse_ref l = ROk R (c_digest c) (wire KUrls (c_urls c)) (neigh_spec l (c_digest c) 0 ds)
    /\ (forall i d, nth_error ds i = Some d ->
          urls_of l (KUrlsIdx i)
          = match layer_from_digest children d with
            | Some ch => if c_layer ch then wire (KUrlsIdx i) (c_urls ch) else []
            | None => []
            end)
    /\ (forall d ch, layer_from_digest children d = Some ch -> In ch children /\ c_digest ch = d).
Proof. exact roundtrip_extra. Qed.
Print Assumptions C20_roundtrip_extra.

(* 2e'. ... and that label lists a non-empty manifest-order prefix of the layer digests of children[i:]
   (model of containerd's getLayers; digests of layer-typed children well-formed). *)
Theorem C20_roundtrip_extra_layers_prefix :
  forall c rest,
    c_layer c = true -> digest_valid (c_digest c) = true ->
    Forall (fun x => c_layer x = true -> digest_valid (c_digest x) = true) rest ->
    exists n, split_comma (cri_layers_value (c :: rest)) = firstn n (map c_digest (filter c_layer (c :: rest))) /\ 1 <= n.
Proof. exact roundtrip_extra_layers. Qed.
Print Assumptions C20_roundtrip_extra_layers_prefix.

(* 3. "The same URLs". Full statement:  forall k us, total_len us <= budget k -> wire k us = us.  It is false of the
   code (known findings F17a, F17b): refuted for the empty list (read back as [""]) and for a URL containing a comma. *)
Theorem C20_urls_roundtrip_refuted :
  (exists k us, wire k us <> us /\ us = [])
  /\ (exists k us, us <> [] /\ total_len us <= budget k /\ wire k us <> us).
Proof. exact urls_roundtrip_refuted. Qed.
Print Assumptions C20_urls_roundtrip_refuted.

(* ... and holds for every non-empty list of comma-free URLs that fits the label ... *)
Theorem C20_urls_roundtrip_partial :
  forall k us, us <> [] -> Forall nocomma us -> total_len us <= budget k -> wire k us = us.
Proof. exact wire_fits. Qed.
Print Assumptions C20_urls_roundtrip_partial.

(* ... while a list too long for the label comes back as a prefix of itself (size-limited append). *)
Theorem C20_urls_prefix_when_truncated :
  forall k us, Forall nocomma us -> take_fit (budget k) us <> [] ->
    wire k us = take_fit (budget k) us /\ exists rest, us = take_fit (budget k) us ++ rest.
Proof. exact wire_prefix. Qed.
Print Assumptions C20_urls_prefix_when_truncated.

(* 4. The prefetch-size label round-trips for every int64, in both flavours (fmt %d / strconv.ParseInt). *)
Theorem C20_prefetch_roundtrip :
  (forall ref pf c rest dflt, in_int64 pf -> prefetch_of (default_ann ref pf (c :: rest)) dflt = pf)
  /\ (forall l0 children pf c l dflt, extra_over l0 children pf c = Some l -> in_int64 pf ->
        lget l0 KPrefetch = None -> prefetch_of l dflt = pf)
  /\ (forall z, in_int64 z -> parse_int64 (show_Z z) = Some z).
Proof. exact prefetch_roundtrip_both. Qed.
Print Assumptions C20_prefetch_roundtrip.

(* 5. Missing or malformed mandatory labels are rejected, for either reader (kref/kdg/klayers = its three keys),
   any label map (every subset removed or corrupted), any reference parser. *)
Theorem C20_missing_or_malformed_rejected :
  forall kref kdg klayers (parse_ref : str -> option str) l,
    (lget l kref = None
     \/ (exists rs, lget l kref = Some rs /\ parse_ref rs = None)
     \/ lget l kdg = None
     \/ (exists d, lget l kdg = Some d /\ digest_valid d = false)
     \/ (exists v, lget l klayers = Some v /\ forallb digest_valid (split_comma v) = false)) ->
    read_with kref kdg klayers parse_ref l = RErr.
Proof. exact read_with_rejects. Qed.
Print Assumptions C20_missing_or_malformed_rejected.

(* 5'. ... and never resolved to a different source: whatever a reader accepts is the parsed reference label, the
   digest label, the urls label, and the entries of the layers label other than the target, each with the URLs
   stored under its own position. *)
Theorem C20_accepted_source_is_the_labelled_one :
  forall kref kdg klayers (parse_ref : str -> option str) l r d u n,
    read_with kref kdg klayers parse_ref l = ROk r d u n ->
    (exists rs, lget l kref = Some rs /\ parse_ref rs = Some r)
    /\ lget l kdg = Some d /\ digest_valid d = true
    /\ u = urls_of l KUrls
    /\ match lget l klayers with
       | None => n = []
       | Some v => forallb digest_valid (split_comma v) = true /\ n = neigh_spec l d 0 (split_comma v)
       end.
Proof. exact read_with_sound. Qed.
Print Assumptions C20_accepted_source_is_the_labelled_one.

(* 5''. The service chain answers with the CRI reader's source, or, only when that one rejects, the default reader's;
   it rejects when both do. *)
Theorem C20_service_reader_chain :
  forall (parse_ref : str -> option str) l,
    (forall r d u n, read_service parse_ref l = ROk r d u n ->
       read_cri parse_ref l = ROk r d u n \/ (read_cri parse_ref l = RErr /\ read_default parse_ref l = ROk r d u n))
    /\ (read_cri parse_ref l = RErr -> read_default parse_ref l = RErr -> read_service parse_ref l = RErr).
Proof. intros parse_ref l. split; [exact (read_service_cases parse_ref l)|exact (read_service_rejects parse_ref l)]. Qed.
Print Assumptions C20_service_reader_chain.

(* 6. What Mount pre-resolves (fs.neighboringLayers over the reader's manifest) is exactly the reconstructed
   neighbour list; the target is never among them. *)
Theorem C20_mount_neighbours :
  forall kref kdg klayers (parse_ref : str -> option str) l r d u n,
    read_with kref kdg klayers parse_ref l = ROk r d u n -> mount_neigh (ROk r d u n) = n.
Proof. exact mount_neigh_read. Qed.
Print Assumptions C20_mount_neighbours.

(* 7. Ties to the source, re-proved against the regenerated Go constants on every run: the snapshotter-side key
   constants of service/cri.go name the same labels as the pull-side constants of fs/source/source.go, the fixed keys
   are pairwise distinct and none of them looks like an indexed urls.<i> key; the literal Go idiom
   (append "<item>," then strings.TrimSuffix) is the comma join used in the model. *)
Theorem C20_label_keys_agree :
  c20_cri_lbl_urls = c20_lbl_urls /\ c20_cri_lbl_urls_prefix = c20_lbl_urls_prefix
  /\ c20_cri_lbl_layers = c20_lbl_cri_layers_w
  /\ NoDup fixed_key_strings
  /\ Forall (fun k => strip_prefix c20_lbl_urls_prefix k = None) fixed_key_strings.
Proof. exact keys_agree. Qed.
Print Assumptions C20_label_keys_agree.

Theorem C20_go_append_trim_is_join : forall l, go_join l = join_comma l.
Proof. exact go_join_eq. Qed.
Print Assumptions C20_go_append_trim_is_join.

(* 8. Extra flavour, the two statements left open before. The handler never fails on a manifest whose layer digests
   are well-formed (whatever the reference, prefetch size, URLs) ... *)
Theorem C20_extra_handler_succeeds :
  forall children ref pf md c rest,
    c_layer c = true -> digest_valid (c_digest c) = true ->
    Forall (fun x => c_layer x = true -> digest_valid (c_digest x) = true) rest ->
    exists l, extra_ann children ref pf md (c :: rest) = Some l.
Proof. exact extra_handler_succeeds. Qed.
Print Assumptions C20_extra_handler_succeeds.

(* ... and the prefix of following layers in cri.image-layers is maximal: it is every layer of children[i:], or the
   label with the next digest appended would exceed containerd's size limit. *)
Theorem C20_extra_layers_prefix_maximal :
  forall c rest,
    c_layer c = true -> digest_valid (c_digest c) = true ->
    Forall (fun x => c_layer x = true -> digest_valid (c_digest x) = true) rest ->
    let ls := map c_digest (filter c_layer (c :: rest)) in
    split_comma (cri_layers_value (c :: rest)) = ls \/
    exists n d, split_comma (cri_layers_value (c :: rest)) = firstn n ls /\ nth_error ls n = Some d /\
                max_label < key_len KCriLayers + length (join_comma (firstn n ls ++ [d])).
Proof. exact extra_layers_prefix_maximal. Qed.
Print Assumptions C20_extra_layers_prefix_maximal.

(* 9. Annotations the manifest itself carries on a layer descriptor (a0, arbitrary, present before the handlers run).
   Default flavour: the handler overwrites every key FromDefaultLabels reads, so that reader's result and the prefetch
   size are exactly those of a clean descriptor; every other key stays as supplied. *)
Theorem C20_manifest_annotations_default_reader_immune :
  forall (parse_ref : str -> option str) a0 ref R pf c rest dflt,
    parse_ref ref = Some R ->
    c_layer c = true -> digest_valid (c_digest c) = true ->
    Forall (fun x => c_layer x = true) rest ->
    Forall (fun x => digest_valid (c_digest x) = true) rest ->
    in_int64 pf ->
    read_default parse_ref (default_ann_over a0 ref pf (c :: rest))
    = read_default parse_ref (default_ann ref pf (c :: rest))
    /\ prefetch_of (default_ann_over a0 ref pf (c :: rest)) dflt = pf
    /\ (forall k, (forall v, ~ In (k, v) (default_ann ref pf (c :: rest))) ->
          lget (default_ann_over a0 ref pf (c :: rest)) k = lget a0 k).
Proof. exact preexisting_default_immune. Qed.
Print Assumptions C20_manifest_annotations_default_reader_immune.

(* ... and because they stay, the full statement "the service chain reconstructs the pulled reference and digest
   whatever the manifest carries" is false of the code (known finding F17d): manifest-supplied cri.image-ref /
   cri.layer-digest make the service reader answer with THEIR source while FromDefaultLabels answers with the pulled one. *)
Theorem C20_manifest_annotations_service_refuted :
  exists a0 c rest ref pf,
    c_layer c = true /\ Forall (fun x => c_layer x = true /\ digest_valid (c_digest x) = true) (c :: rest) /\
    match read_default (fun s => Some s) (default_ann_over a0 ref pf (c :: rest)),
          read_service (fun s => Some s) (default_ann_over a0 ref pf (c :: rest)) with
    | ROk r1 d1 _ _, ROk r2 d2 _ _ => r1 = ref /\ d1 = c_digest c /\ r2 <> ref /\ d2 <> c_digest c
    | _, _ => False
    end.
Proof. exact preexisting_cri_wins_refuted. Qed.
Print Assumptions C20_manifest_annotations_service_refuted.

(* Extra flavour: containerd's wrapper overwrites the cri.* keys, so whatever the manifest carries, a successful handler
   run is read back with the pulled reference, the layer's digest and the neighbours of containerd's layers label
   (the `_partial` of "everything is immune") ... *)
Theorem C20_manifest_annotations_extra_partial :
  forall (parse_ref : str -> option str) a0 children ref R pf md c rest l,
    extra_ann_over a0 children ref pf md (c :: rest) = Some l ->
    parse_ref ref = Some R -> digest_valid (c_digest c) = true ->
    exists u n, read_cri parse_ref l = ROk R (c_digest c) u n
                /\ n = neigh_spec l (c_digest c) 0 (split_comma (cri_layers_value (c :: rest))).
Proof. exact preexisting_extra_source_immune. Qed.
Print Assumptions C20_manifest_annotations_extra_partial.

(* ... while the "nop if this key is already set" tests keep manifest-supplied urls / prefetch annotations (known
   finding F17e): the prefetch size read at mount time is the annotation's, not the pull-time one. *)
Theorem C20_manifest_annotations_extra_refuted :
  exists a0 children ref pf md l,
    extra_ann_over a0 children ref pf md children = Some l /\ in_int64 pf /\
    prefetch_of l 0%Z <> pf /\ lget l KUrls = lget a0 KUrls /\ lget a0 KUrls <> None.
Proof. exact preexisting_extra_kept_refuted. Qed.
Print Assumptions C20_manifest_annotations_extra_refuted.

(* Non-vacuity: a three-layer manifest (the middle layer foreign, with two URLs) satisfies the hypotheses of
   C20_roundtrip_default and is reconstructed with both neighbours and their own URLs; removing the digest label or
   corrupting it makes the reader reject. *)
Definition ex_layers : list child :=
  [mkChild true (sha256_pfx ++ repeat 97%N 64) [[104; 116; 116; 112; 58; 47; 47; 97]%N];
   mkChild true (sha256_pfx ++ repeat 98%N 64) [[104; 49]%N; [104; 50]%N];
   mkChild true (sha256_pfx ++ repeat 99%N 64) [[104; 51]%N]].

Example C20_nonvacuous_roundtrip :
  Forall (fun x => c_layer x = true /\ digest_valid (c_digest x) = true) ex_layers
  /\ read_default (fun s => Some s) (default_ann [114]%N 42%Z ex_layers)
     = ROk [114]%N (sha256_pfx ++ repeat 97%N 64) [[104; 116; 116; 112; 58; 47; 47; 97]%N]
           [(sha256_pfx ++ repeat 98%N 64, [[104; 49]%N; [104; 50]%N]); (sha256_pfx ++ repeat 99%N 64, [[104; 51]%N])]
  /\ prefetch_of (default_ann [114]%N 42%Z ex_layers) 0%Z = 42%Z
  /\ read_default (fun s => Some s) (ldel (default_ann [114]%N 42%Z ex_layers) KDigest) = RErr
  /\ read_default (fun s => Some s) (lset (default_ann [114]%N 42%Z ex_layers) KDigest [120]%N) = RErr.
Proof. vm_compute. repeat split; repeat constructor. Qed.

(* Non-vacuity of the extra flavour: the handler succeeds on top of containerd's annotations and the CRI reader
   reconstructs the layer with its neighbours and their URLs. *)
Example C20_nonvacuous_extra :
  match extra_ann ex_layers [114]%N 7%Z (sha256_pfx ++ repeat 100%N 64) ex_layers with
  | Some l =>
      read_cri (fun s => Some s) l
      = ROk [114]%N (sha256_pfx ++ repeat 97%N 64) [[104; 116; 116; 112; 58; 47; 47; 97]%N]
            [(sha256_pfx ++ repeat 98%N 64, [[104; 49]%N; [104; 50]%N]); (sha256_pfx ++ repeat 99%N 64, [[104; 51]%N])]
      /\ prefetch_of l 0%Z = 7%Z
  | None => False
  end.
Proof. vm_compute. split; reflexivity. Qed.
