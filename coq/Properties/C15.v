(* C15 — Prefetch and background fetch make later reads local; waiting is bounded.
   Statements only; every proof is [exact <lemma of Proofs/Prefetch.v>].

   Vocabulary (Model/Prefetch.v):
     prefetch_range np lm cfg size   the range layer.prefetch selects (None = return before any download)
     cache_requests ...              the registry requests of blob.Cache(0, n) given the chunks already cached
     prefetch_keys fs n / all_keys   chunk keys that go through readAndCache in VerifiableReader.Cache with / without filter
     cexec kind cinit os             chunk cache (memory map, or LRU + files with asynchronous persistence) after history os
     read_local fuel vis id chunks cur endo   file.ReadAt over [cur, endo) is served by the chunk cache alone
     wexec winit os                  waiter + prefetchOnce + backgroundFetchOnce after the atomic steps os
     wr_run minc n prev es           chunk offsets the eStargz writer records for the entries es *)
From Coq Require Import List ZArith Bool Arith Lia.
From SV Require Import Model.Prefetch Proofs.Prefetch.
Import ListNotations.
Open Scope Z_scope.

(* Clause 2: a layer with a no-prefetch landmark triggers no prefetch traffic. The range selection returns before
   blob.Cache; on the script machine that is compared with the implementation: any Prefetch call (any number of
   concurrent callers, any fault) on such a layer succeeds with no registry request, no chunk cached, prefetch size 0,
   the waiter released, the body over. *)
Theorem C15_no_prefetch_landmark_no_traffic :
  (forall lm cfg size, prefetch_range true lm cfg size = None)
  /\ (forall c fs pre s n f,
        c_np c = true -> pf (s_w s) = Idle ->
        let r := sstep c fs pre s (SPf n f) in
        p_res (snd r) = Some ROk /\ p_reqs (snd r) = Some ([], true) /\ p_pfsize (snd r) = Some 0
        /\ s_fs (fst r) = s_fs s /\ closed (s_w (fst r)) = true /\ pf (s_w (fst r)) = Finished).
Proof. split; [exact range_no_prefetch|exact np_no_traffic]. Qed.
Print Assumptions C15_no_prefetch_landmark_no_traffic.

(* Clause 3: without landmarks the configured size, capped at the blob size, is the range handed to blob.Cache;
   with a prefetch landmark it is the landmark's offset, whatever is configured. *)
Theorem C15_no_landmark_size :
  (forall cfg size, prefetch_range false None cfg size = Some (Z.min cfg size))
  /\ (forall off cfg size, prefetch_range false (Some off) cfg size = Some off).
Proof. split; [exact range_no_landmark|exact range_landmark]. Qed.
Print Assumptions C15_no_landmark_size.

(* ... and that range is really fetched, in both modes of blob.Cache (one request, or concurrent pieces of
   chunkSize * (prefetchChunkSize / chunkSize) bytes), for every chunk size, blob size and set [have] of chunks cached
   before (footer / TOC reads): every byte x of [0, n) that exists in the blob lies in a registry chunk that was cached
   already or inside one of the requests issued. With n = Z.min cfg size this is "the configured size, capped at the
   blob size, is fetched"; with n = the landmark offset it is the download half of clause 1. *)
Theorem C15_range_is_fetched :
  forall cs pcs size have n x,
    0 < cs -> 0 <= x < n -> x < size ->
    memZ (x / cs * cs) have = true
    \/ exists r, In r (cache_requests cs pcs size have n) /\ fst r <= x /\ x <= fst r + snd r - 1.
Proof. exact cache_requests_cover. Qed.
Print Assumptions C15_range_is_fetched.

(* Layout link for clause 1 (what "prioritized" buys): in the writer, every chunk of every entry written before the
   landmark gets an offset strictly below the landmark's, for every min-chunk-size, whatever was written before and
   whatever follows (compressed sizes are arbitrary non-negative numbers; only the landmark's header must add a byte).
   Together with C14_sort_layout (prioritized entries precede the landmark) this is the hypothesis [f_off f < n] below;
   the harness re-checks it on every generated layer ([layout_ok]). *)
Theorem C15_landmark_separates_offsets :
  forall minc land rest group n prev,
    prev <= n -> Forall wentry_ok group ->
    we_open land = true -> 0 < we_hdr land -> (forall c, In c (we_chunks land) -> 0 <= c) ->
    forall i os los, nth_error (wr_run minc n prev (group ++ land :: rest)) i = Some os -> (i < length group)%nat ->
      nth_error (wr_run minc n prev (group ++ land :: rest)) (length group) = Some los ->
      forall o lo, In o os -> In lo los -> o < lo.
Proof. exact wr_before_landmark. Qed.
Print Assumptions C15_landmark_separates_offsets.

(* The writer's chunking loop tiles a file; the filtered walk of VerifiableReader.Cache then visits every chunk of
   every file that starts inside the range, and a background fetch every chunk of every file. *)
Theorem C15_cache_walk_covers :
  (forall fuel cs written total, 0 < cs -> written <= total -> (Z.to_nat (total - written) <= fuel)%nat ->
     tiled (mk_chunks fuel cs written total) written total)
  /\ (forall fs n f c, In f fs -> f_off f < n -> tiled (f_chunks f) 0 (f_size f) -> In c (f_chunks f) ->
        In (f_id f, fst c, snd c) (prefetch_keys fs n))
  /\ (forall fs f c, In f fs -> tiled (f_chunks f) 0 (f_size f) -> In c (f_chunks f) ->
        In (f_id f, fst c, snd c) (all_keys fs))
  /\ (forall fs n k, In k (prefetch_keys fs n) -> exists f, In f fs /\ f_off f < n /\ In k (file_keys f)).
Proof. exact (conj mk_chunks_tiled (conj prefetch_keys_cover (conj all_keys_cover prefetch_keys_only))). Qed.
Print Assumptions C15_cache_walk_covers.

(* Clause 1. Prefetch of a layer with a prefetch landmark at offset n returned nil: every readAndCache of the
   filtered walk returned nil, i.e. each key of [prefetch_keys fs n] went through RAC somewhere in the history [os]
   of the chunk cache; [os] is otherwise arbitrary (any interleaving with reads of other files, background fetch,
   LRU touches, persist closures in any order: "for every schedule").  Then every read of every prioritized file
   (any offset, any length, any number of ReadAt calls) is served by the chunk cache alone, hence without touching
   the blob and the registry — PROVIDED no persist closure is pending or the cache has none (memory cache, sync_add). *)
Theorem C15_prefetch_makes_prioritized_local_partial :
  forall kind fs n os f,
    In f fs -> f_off f < n -> tiled (f_chunks f) 0 (f_size f) ->
    (forall k, In k (prefetch_keys fs n) -> In (RAC k) os) ->
    let s := cexec kind cinit os in
    quiescent s \/ lossless kind = true ->
    forall fuel cur endo, read_local fuel (visible s) (f_id f) (f_chunks f) cur endo = true.
Proof. exact prefetch_local. Qed.
Print Assumptions C15_prefetch_makes_prioritized_local_partial.

(* The full statement (without the proviso) is false of the code as it is (known finding F25): directory cache with a
   one-entry LRU and asynchronous persistence; two prioritized chunks are committed, no persist closure has run yet;
   the first chunk is in neither the LRU nor on disk, and reading its file misses the chunk cache. The harness
   replays this schedule on the implementation (persist closures held back) and sees the registry request. *)
Theorem C15_prefetch_makes_prioritized_local_refuted :
  exists kind fs n os f,
    In f fs /\ f_prio f = true /\ f_off f < n /\ tiled (f_chunks f) 0 (f_size f) /\
    (forall k, In k (prefetch_keys fs n) -> In (RAC k) os) /\
    read_local 5 (visible (cexec kind cinit os)) (f_id f) (f_chunks f) 0 (f_size f) = false.
Proof. exact prefetch_local_refuted. Qed.
Print Assumptions C15_prefetch_makes_prioritized_local_refuted.

(* Clause 4. BackgroundFetch returned nil: every key of every regular file went through readAndCache with
   cache.Direct(), in a history that is otherwise arbitrary (prioritized reads arriving meanwhile, prefetch, ...).
   Then every read of every file is served by the chunk cache alone (registry unreachable or not), with the same proviso. *)
Theorem C15_bgfetch_makes_all_local_partial :
  forall kind fs os f,
    In f fs -> tiled (f_chunks f) 0 (f_size f) ->
    (forall k, In k (all_keys fs) -> In (RACDirect k) os) ->
    let s := cexec kind cinit os in
    quiescent s \/ lossless kind = true ->
    forall fuel cur endo, read_local fuel (visible s) (f_id f) (f_chunks f) cur endo = true.
Proof. exact bgfetch_local. Qed.
Print Assumptions C15_bgfetch_makes_all_local_partial.

(* ... and the proviso is needed here too (same window: the background fetch finds a chunk in the LRU whose persist
   closure is pending, writes nothing, and a later commit evicts it). *)
Theorem C15_bgfetch_makes_all_local_refuted :
  exists kind fs os f,
    In f fs /\ tiled (f_chunks f) 0 (f_size f) /\
    (forall k, In k (all_keys fs) -> In (RACDirect k) os) /\
    read_local 5 (visible (cexec kind cinit os)) (f_id f) (f_chunks f) 0 (f_size f) = false.
Proof. exact bgfetch_local_refuted. Qed.
Print Assumptions C15_bgfetch_makes_all_local_refuted.

(* When the background fetch is the only writer of the chunk cache (its writes are direct), nothing is ever
   pending: no proviso, for every cache kind. *)
Theorem C15_bgfetch_alone_makes_all_local :
  forall kind fs os f,
    In f fs -> tiled (f_chunks f) 0 (f_size f) ->
    Forall direct_only os ->
    (forall k, In k (all_keys fs) -> In (RACDirect k) os) ->
    forall fuel cur endo, read_local fuel (visible (cexec kind cinit os)) (f_id f) (f_chunks f) cur endo = true.
Proof. exact bgfetch_alone_local. Qed.
Print Assumptions C15_bgfetch_alone_makes_all_local.

(* Clause 5, safety. In every reachable state of the waiter / once machine (any interleaving of Prefetch calls, the
   body's async branch and return, BackgroundFetch calls, waits entering, returning and timing out): the channel was
   closed at most once (a second close would panic), each body ran at most once, and a repeated call starts nothing. *)
Theorem C15_once :
  forall os, let s := wexec winit os in
    ((closes s <= 1)%nat /\ (pf_bodies s <= 1)%nat /\ (bg_bodies s <= 1)%nat)
    /\ (pf s <> Idle -> wstep s PfCall = s) /\ (bg s <> Idle -> wstep s BgCall = s).
Proof. intros os s. exact (conj (reach_once os) (reach_second_call os)). Qed.
Print Assumptions C15_once.

(* Clause 5, "never blocks forever". A parked wait is never stuck: in every reachable state its timeout step is
   enabled and makes it return (with the timeout error, releasing everybody else); and once the waiter is closed its
   nil-return step is enabled. (That the runtime timer eventually fires is Go's time.After: trusted.) *)
Theorem C15_wait_returns :
  forall os id, let s := wexec winit os in
    In id (waiting s) ->
    (let s' := wstep s (WaitTimeout id) in In (id, true) (returned s') /\ ~ In id (waiting s') /\ closed s' = true)
    /\ (closed s = true -> let s' := wstep s (WaitDone id) in In (id, false) (returned s') /\ ~ In id (waiting s')).
Proof. exact reach_wait_returns. Qed.
Print Assumptions C15_wait_returns.

(* Clause 5, "returns when prefetch ends or fails": as soon as the running body returns (ok or not) or takes the
   async branch, the waiter is closed for ever: every parked wait can return nil and every later wait returns nil at once. *)
Theorem C15_prefetch_end_releases_waiters :
  forall os o os', let s := wexec winit os in
    pf s = Running -> (o = PfAsync \/ exists ok, o = PfReturn ok) ->
    let s2 := wexec winit (os ++ o :: os') in
    closed s2 = true
    /\ (forall id, ~ In id (waiting s2) -> (forall b, ~ In (id, b) (returned s2)) -> In (id, false) (returned (wstep s2 (WaitEnter id))))
    /\ (forall id, In id (waiting s2) -> In (id, false) (returned (wstep s2 (WaitDone id)))).
Proof. exact reach_release. Qed.
Print Assumptions C15_prefetch_end_releases_waiters.

(* ... and only then: a wait returned nil only if the prefetch body is over, went async, or some wait timed out. *)
Theorem C15_wait_nil_only_when_released :
  forall os id, let s := wexec winit os in
    In (id, false) (returned s) -> closed s = true /\ (pf s = Finished \/ pf_early s = true \/ timed_out s).
Proof. exact reach_nil_released. Qed.
Print Assumptions C15_wait_nil_only_when_released.

(* Clause 5 where users see it: fs.Check (the availability check containerd runs on a mounted snapshot). [fs_check] is the
   model of its control flow on the waiter (registered? reachable - skipped once the blob is complete -? then, unless
   prefetch is disabled, WaitForPrefetchCompletion, whose timeout is only logged); the script machine compares it with the
   real fs.Check after the real fs.Mount.
   (1) The answer is nil exactly when the layer is registered and reachable: a failed, slow or timed-out prefetch never
       turns into a Check error.  (2) A Check that is unregistered / unreachable / run with noprefetch never touches the waiter.
   (3) A healthy Check always returns (it is not left parked), leaves the waiter closed, and waited iff the waiter was open. *)
Theorem C15_check_bounded :
  (forall registered conn_ok noprefetch w id,
     snd (fst (fs_check registered conn_ok noprefetch w id)) = ROk <-> (registered = true /\ conn_ok = true))
  /\ (forall registered conn_ok noprefetch w id,
        registered = false \/ conn_ok = false \/ noprefetch = true ->
        fst (fst (fs_check registered conn_ok noprefetch w id)) = w /\ snd (fs_check registered conn_ok noprefetch w id) = false)
  /\ (forall w id, fresh w id ->
        let x := fs_check true true false w id in
        ~ In id (waiting (fst (fst x))) /\ closed (fst (fst x)) = true /\ snd x = negb (closed w)
        /\ (snd x = true -> In (id, true) (returned (fst (fst x))))).
Proof. exact (conj fs_check_result (conj fs_check_skips fs_check_healthy)). Qed.
Print Assumptions C15_check_bounded.

(* "The FIRST availability check waits for prefetch": in every reachable state a healthy Check waits exactly when the
   waiter is still open; it does not wait once the prefetch body has returned (ok or failed), taken the async branch, or
   some wait timed out, and it does wait while none of these has happened. *)
Theorem C15_first_check_waits_for_prefetch :
  forall os id, let w := wexec winit os in fresh w id ->
    (snd (fs_check true true false w id) = true <-> closed w = false)
    /\ (pf w = Finished \/ pf_early w = true \/ timed_out w -> snd (fs_check true true false w id) = false)
    /\ (pf w <> Finished -> pf_early w = false -> ~ timed_out w -> snd (fs_check true true false w id) = true).
Proof. exact check_waits_iff_prefetch_pending. Qed.
Print Assumptions C15_first_check_waits_for_prefetch.

(* ... and only the first: after one healthy Check has returned, no Check (of any kind) ever waits again, whatever
   happens in between (more Prefetch / BackgroundFetch calls, waits, timeouts, the body's end). *)
Theorem C15_only_first_check_waits :
  forall w id, fresh w id ->
    forall os' registered conn_ok noprefetch id',
      fresh (wexec (fst (fst (fs_check true true false w id))) os') id' ->
      snd (fs_check registered conn_ok noprefetch (wexec (fst (fst (fs_check true true false w id))) os') id') = false.
Proof. exact only_first_check_waits. Qed.
Print Assumptions C15_only_first_check_waits.

(* ---- non-vacuity ---- *)

(* a two-file layer, landmark at 300: prefetch through a one-entry LRU with asynchronous persistence, the persist
   closures run (in the other order), a read of the other file in between: quiescent, and the prioritized file is local *)
Example C15_nonvacuous_local :
  let fs := [mkFile 1 0 25 [(0, 10); (10, 10); (20, 5)] true false; mkFile 2 500 7 [(0, 7)] false false] in
  let os := [RAC (1, 0, 10); RAC (1, 10, 10); Commit (2, 0, 7); RAC (1, 20, 5); Persist (1, 20, 5); Persist (1, 0, 10);
             Persist (2, 0, 7); Persist (1, 10, 10)] in
  let s := cexec (CDir 1 false) cinit os in
  prefetch_keys fs 300 = [(1, 0, 10); (1, 10, 10); (1, 20, 5)]
  /\ quiescent s /\ lru s = [(1, 20, 5)]
  /\ read_local 9 (visible s) 1 [(0, 10); (10, 10); (20, 5)] 0 25 = true
  /\ tiled [(0, 10); (10, 10); (20, 5)] 0 25.
Proof. vm_compute. repeat split; reflexivity. Qed.

(* waiter: a wait parks, a second Prefetch call and a concurrent wait arrive, the body fails: closed once, one body,
   the parked waits return nil; an earlier wait had timed out before prefetch started in the second history *)
Example C15_nonvacuous_waiter :
  let s := wexec winit [PfCall; WaitEnter 0; PfCall; WaitEnter 1; PfReturn false; WaitDone 0; WaitDone 1; WaitEnter 2] in
  closed s = true /\ closes s = 1%nat /\ pf_bodies s = 1%nat /\ waiting s = []
  /\ returned s = [(2%nat, false); (1%nat, false); (0%nat, false)]
  /\ let t := wexec winit [WaitEnter 0; WaitTimeout 0; PfCall; WaitEnter 1; PfReturn true] in
     closes t = 1%nat /\ returned t = [(1%nat, false); (0%nat, true)] /\ pf t = Finished.
Proof. vm_compute. repeat split; reflexivity. Qed.

(* Check: Mount spawned the prefetch, it is still downloading: the first Check waits and times out (nil all the same), the
   second returns at once; in the other history the body failed before the first Check: no wait *)
Example C15_nonvacuous_check :
  let w := wexec winit [PfCall] in
  let x := fs_check true true false w 0 in
  fresh w 0 /\ snd x = true /\ snd (fst x) = ROk /\ closed (fst (fst x)) = true
  /\ snd (fs_check true true false (fst (fst x)) 1) = false
  /\ snd (fs_check true true false (wexec winit [PfCall; PfReturn false]) 0) = false
  /\ snd (fst (fs_check true false false w 0)) = RErr.
Proof. vm_compute. repeat split; try reflexivity; try (intro H; exact H); intros b H; exact H. Qed.

(* download: blob of 10500 bytes, registry chunks of 1000, prefetch chunk size 2500 (pieces of 2000), chunk 10000 cached by
   the footer read, chunk 1000 by an earlier read: the requests for [0, 4700) *)
Example C15_nonvacuous_requests :
  cache_requests 1000 2500 10500 [10000; 1000] 4700 = [(0, 1000); (2000, 2000); (4000, 1000)]
  /\ cache_requests 1000 0 10500 [10000; 1000] 4700 = [(0, 5000)]
  /\ cache_requests 1000 0 10500 [10000] 0 = [(0, 1000)].
Proof. vm_compute. repeat split; reflexivity. Qed.

(* writer: min-chunk-size 100; two prioritized files share the first stream (offset 0), the landmark opens a new
   stream at 81, the next file shares the landmark's stream *)
Example C15_nonvacuous_writer :
  wr_run 100 0 0 [mkWE 10 false [30; 20]; mkWE 5 false [10]; mkWE 6 true [1]; mkWE 4 false [50; 60]]
  = [[0; 0]; [0]; [81]; [81; 81]].
Proof. vm_compute. reflexivity. Qed.
