(* C13 — Background tasks yield to prioritized work, stay bounded, never self-overlap.
   Statements only; every proof is [exact <lemma of Proofs/Task.v>].

   A schedule is an arbitrary [list op] over the atomic sub-steps of task/task.go (Model/Task.v): any number of
   invocations, of prioritized begin / end / silence-over steps, bodies finishing whenever they like
   ([BodyDone], as late after [Cancel] as the adversary wants), context timeouts; a step that is not
   enabled in the current state is a stutter, so "for all op lists" is "for all interleavings".
   [init c true] is the manager with concurrency [c] running the current code (with C13-fix-1). *)
From Coq Require Import List Arith Bool.
From SV Require Import Model.Task Proofs.Task.
From SV Require Model.TaskPairs Proofs.TaskPairs.
From SV Require Import Model.TaskSearch.
From Coq Require Import NArith.
Import ListNotations.

(* The counter the code reads is the specification quantity (prioritized tasks in progress or inside their
   silence period), and the semaphore accounts exactly for the invocations between Acquire and Release. *)
Theorem C13_accounting :
  forall c os, let s := exec (init c true) os in
    P s = inprog s + sil s /\ sem s + holders s = c.
Proof. intros c os s. split; [exact (inv_P s (reach_Inv c os))|exact (eq_trans (inv_sem s (reach_Inv c os)) (conc_exec os (init c true)))]. Qed.
Print Assumptions C13_accounting.

(* A body is started only when no prioritized task is in progress or in its silence period:
   (1) the decision to start (taken under the notify lock) is taken only in a quiet state, with the current
       notify channel;
   (2) when the goroutine is then spawned, the state is still quiet or a prioritized task has begun since the
       decision, i.e. the notify channel the invoker selects on is already closed;
   (3) at any time, if a body is running while the state is not quiet, the cancellation is enabled. *)
Theorem C13_start_only_when_quiet :
  forall c os i v, let s := exec (init c true) os in
    nth_error (invs s) i = Some v ->
    (ipc v = PS -> forall ch, pc_of (fst (step s (Act i Decide))) i = Some (PD ch) -> quiet s /\ ch = gen s)
    /\ (forall ch, ipc v = PD ch -> quiet s \/ ch <> gen s)
    /\ (forall ch k, ipc v = PB ch k -> ~ quiet s -> ch <> gen s /\ enabled s (Act i Cancel)).
Proof.
  intros c os i v s Hn. split; [|split].
  - intros Hpc. exact (decide_quiet s i v (reach_Inv c os) Hn Hpc).
  - intros ch Hpc. exact (start_quiet_or_pending s i v ch (reach_Inv c os) Hn Hpc).
  - intros ch k Hpc Hq.
    exact (conj (running_not_quiet_pending s i v ch k (reach_Inv c os) Hn Hpc Hq)
                (cancel_enabled s i v ch k Hn Hpc (running_not_quiet_pending s i v ch k (reach_Inv c os) Hn Hpc Hq))).
Qed.
Print Assumptions C13_start_only_when_quiet.

(* A body that is running when a prioritized task begins has its context cancelled: after the begin, the
   cancellation is enabled, it is the ONLY step the invoker can take (in particular it cannot return, release
   its slot or start anything), it marks the context of exactly that execution cancelled, and afterwards
   the invoker cannot go on (Join) while that execution is still running. *)
Theorem C13_cancel_on_prio :
  forall c os i v ch k, let s := exec (init c true) os in
    nth_error (invs s) i = Some v -> ipc v = PB ch k -> has k (bodies v) = true ->
    let s1 := fst (step s PrioBegin) in
    let s2 := fst (step s1 (Act i Cancel)) in
    enabled s1 (Act i Cancel)
    /\ (forall a, invoker_act a = true -> enabled s1 (Act i a) -> a = Cancel)
    /\ (exists v2, nth_error (invs s2) i = Some v2 /\ ipc v2 = PC k /\ flag k (bodies v2) = Some true)
    /\ ~ enabled s2 (Act i Join).
Proof.
  intros c os i v ch k s Hn Hpc Hh s1 s2.
  exact (cancel_on_prio_begin s i v ch k (reach_Inv c os) Hn Hpc Hh).
Qed.
Print Assumptions C13_cancel_on_prio.

(* The same at any later moment: as long as the body runs, the invoker's only possible step is the
   cancellation, and that only once a prioritized task has begun after the start decision. *)
Theorem C13_invoker_waits_for_body :
  forall c os i v ch k a, let s := exec (init c true) os in
    nth_error (invs s) i = Some v -> ipc v = PB ch k -> has k (bodies v) = true ->
    invoker_act a = true -> enabled s (Act i a) -> a = Cancel /\ ch <> gen s.
Proof. intros c os i v ch k a s. exact (only_cancel s i v ch k a). Qed.
Print Assumptions C13_invoker_waits_for_body.

(* While the invoker waits for the cancelled body (between cancel() and <-done), the only execution of its
   task that can still be running is the one it cancelled, and its context is cancelled. *)
Theorem C13_cancelled_while_joining :
  forall c os i v k, let s := exec (init c true) os in
    nth_error (invs s) i = Some v -> ipc v = PC k ->
    forall k' cf, In (k', cf) (bodies v) -> k' = k /\ cf = true.
Proof. intros c os i v k s. exact (joining_cancelled s i v k (reach_Inv c os)). Qed.
Print Assumptions C13_cancelled_while_joining.

(* At most the configured number of bodies run at once. *)
Theorem C13_bounded_bodies :
  forall c os, total_running (exec (init c true) os) <= c.
Proof. intros c os. exact (bounded_c c os). Qed.
Print Assumptions C13_bounded_bodies.

(* Two executions of the same invoked task never overlap: at most one execution of an invocation runs at
   any time, none runs when the next one is spawned, none runs once the invocation has returned (nor at
   any point where it does not hold a semaphore slot). *)
Theorem C13_no_self_overlap :
  forall c os i v, let s := exec (init c true) os in
    nth_error (invs s) i = Some v ->
    running v <= 1
    /\ (enabled s (Act i Start) -> running v = 0)
    /\ (ipc v = PRet -> running v = 0)
    /\ (holder (ipc v) = false -> running v = 0).
Proof. intros c os i v s Hn. exact (no_overlap s i v (reach_Inv c os) Hn). Qed.
Print Assumptions C13_no_self_overlap.

(* Once prioritized work stops, every invoked task completes.  From any reachable quiet state, along any
   continuation without a new prioritized task (and without new invocations):
   (1) the state stays quiet and the number of enabled steps taken by invocations and their bodies is bounded
       by the measure [total_rank] (at most 13 per invocation: at most one pending cancellation + one retry),
   (2) as long as some invocation has not returned, some such step is enabled (no deadlock; needs c >= 1),
   (3) the measure is 0 exactly when every invocation has returned.
   Hence every scheduler that keeps running enabled steps brings every invocation to its return.
   (Fairness of the Go scheduler itself is an assumption.) *)
Theorem C13_completes_when_quiet :
  forall c os os', let s := exec (init c true) os in
    quiet s -> forallb env_free os' = true ->
    let s' := exec s os' in
    quiet s'
    /\ taken s os' + total_rank s' <= total_rank s
    /\ total_rank s <= 13 * length (invs s)
    /\ (1 <= c -> ~ all_returned s' -> exists i a, progress_op (Act i a) = true /\ enabled s' (Act i a))
    /\ (total_rank s' = 0 <-> all_returned s').
Proof. intros c os os' s Hq Hos s'. exact (completes c os os' Hq Hos). Qed.
Print Assumptions C13_completes_when_quiet.

(* The defect repaired by C13-fix-1 (DESIGN F14), on the model of the code BEFORE the fix ([waits] = false:
   the <-ch branch returns without waiting for <-done): with concurrency 1, one invocation, one
   prioritized begin/end pair, two executions of the same task run at once. *)
Theorem C13_no_self_overlap_before_fix_refuted :
  exists os i v, let s := exec (init 1 false) os in
    nth_error (invs s) i = Some v /\ running v = 2 /\ total_running s = 2 /\ conc s = 1.
Proof. exact overlap_before_fix. Qed.
Print Assumptions C13_no_self_overlap_before_fix_refuted.

(* Every trace accepted by the monitor of the correspondence check is a run of the model: the state it
   reaches is reachable by an op list, so all theorems above apply to what was observed. *)
Theorem C13_monitor_sound :
  forall c tr s, accept (init c true) tr = Some s -> exists os, s = exec (init c true) os.
Proof. intros c tr s. exact (accept_reachable tr (init c true) s c [] eq_refl). Qed.
Print Assumptions C13_monitor_sound.

(* ---- the premise "prioritized begin/end pairs": the call structure of the callers (Model/TaskPairs.v) ---- *)
(* A function body of the form  <counter-free statements>; X.DoPrioritizedTask(); defer X.DonePrioritizedTask();
   <counter-free statements>  - the form of every caller in fs/fs.go, fs/layer/layer.go and store/manager.go, which the
   taskpairs harness re-extracts from the source on every run - leaves the counter of every manager exactly where it
   found it on EVERY execution: return anywhere, falling off the end, a panic in any statement, any branching,
   any number of loop iterations.  So no path leaks a prioritized count (which would starve background tasks forever). *)
Theorem C13_pairs_balanced :
  forall l s o s', Model.TaskPairs.paired l = true -> Model.TaskPairs.exec l s o s' ->
    forall x, Model.TaskPairs.final s' x = Model.TaskPairs.final s x.
Proof. exact Proofs.TaskPairs.paired_balanced. Qed.
Print Assumptions C13_pairs_balanced.

(* The bounded enumeration of executions that the harness and the correspondence check use to look for leaks only
   produces executions of the relation the theorem above quantifies over. *)
Theorem C13_pairs_enumeration_sound :
  forall fuel l s s', In s' (Model.TaskPairs.runs fuel l s) -> exists o, Model.TaskPairs.exec l s o s'.
Proof. exact Proofs.TaskPairs.runs_sound. Qed.
Print Assumptions C13_pairs_enumeration_sound.

(* Non-vacuity / why the rule matters: the shape of store/manager.go's prefetch goroutine is accepted, while the
   hand-paired variant "Do; if c { Done; return }; work; Done" leaks the count when work panics. *)
Example C13_pairs_nonvacuous :
  Model.TaskPairs.paired [Model.TaskPairs.SDo 0; Model.TaskPairs.SDeferDone 0;
                          Model.TaskPairs.SIf [Model.TaskPairs.SOther; Model.TaskPairs.SReturn] []; Model.TaskPairs.SOther] = true
  /\ Model.TaskPairs.leaks_upto 14 1 [Model.TaskPairs.SDo 0;
                                     Model.TaskPairs.SIf [Model.TaskPairs.SDone 0; Model.TaskPairs.SReturn] [];
                                     Model.TaskPairs.SOther; Model.TaskPairs.SDone 0] = true.
Proof. vm_compute. split; reflexivity. Qed.

(* Non-vacuity. *)
(* a body is running, a prioritized task begins: hypotheses of C13_cancel_on_prio / clause (3) hold *)
Example C13_nonvacuous_running :
  let s := exec (init 1 true) [Invoke; Act 0 Pass; Act 0 Acquire; Act 0 Decide; Act 0 Start] in
  exists v, nth_error (invs s) 0 = Some v /\ ipc v = PB 0 0 /\ has 0 (bodies v) = true /\ quiet s
            /\ ~ quiet (fst (step s PrioBegin)).
Proof. vm_compute. eexists. repeat split. discriminate. Qed.

(* the window between decision and spawn: start decided in a quiet state, a prioritized task begins, the body
   is spawned in a non-quiet state, and is then cancelled, joined and retried after the silence period *)
Example C13_nonvacuous_window :
  let s := exec (init 1 true) [Invoke; Act 0 Pass; Act 0 Acquire; Act 0 Decide; PrioBegin] in
  pc_of s 0 = Some (PD 0) /\ ~ quiet s /\ gen s = 1
  /\ all_returned_b (exec s [Act 0 Start; Act 0 Cancel; Act 0 (BodyDone 0); Act 0 Join; Act 0 Release; PrioEnd; PrioDec;
                             Act 0 Pass; Act 0 Acquire; Act 0 Decide; Act 0 Start; Act 0 (BodyDone 1); Act 0 Finish; Act 0 Release]) = true.
Proof. vm_compute. repeat split. discriminate. Qed.

(* ---- SEARCH AID (not a proof obligation; the theorems above cover all sizes): exhaustive exploration, inside Coq, of
   EVERY interleaving of every atomic step for bounded scenarios - n invocations x m prioritized begin/end pairs, bodies
   finishing arbitrarily late, context timeouts - checking on every reachable state the clauses as boolean predicates
   (Model/TaskSearch.v: bound, no self-overlap, nothing running outside the select/join, start only when quiet or cancel
   pending, counter = in progress + in silence, semaphore accounting) and that no reachable state is a deadlock.
   summary = (reachable states, violating states, deadlocked states, final states, exploration complete). ---- *)
Example C13_search_2inv_2prio_conc1 : summary (search 1 true 2 2 (N.to_nat 2000)) = (1768, 0, 0, 6, true)%N.
Proof. vm_cast_no_check (@eq_refl _ (1768, 0, 0, 6, true)%N). Qed.
Example C13_search_2inv_2prio_conc2 : summary (search 2 true 2 2 (N.to_nat 6000)) = (5874, 0, 0, 9, true)%N.
Proof. vm_cast_no_check (@eq_refl _ (5874, 0, 0, 9, true)%N). Qed.
Example C13_search_2inv_3prio_conc2 : summary (search 2 true 2 3 (N.to_nat 20000)) = (19584, 0, 0, 16, true)%N.
Proof. vm_cast_no_check (@eq_refl _ (19584, 0, 0, 16, true)%N). Qed.
Example C13_search_3inv_2prio_conc1 : summary (search 1 true 3 2 (N.to_nat 11000)) = (10510, 0, 0, 10, true)%N.
Proof. vm_cast_no_check (@eq_refl _ (10510, 0, 0, 10, true)%N). Qed.
(* the same search on the code before C13-fix-1 finds the defect: 1280 of 3103 reachable states violate a clause *)
Example C13_search_before_fix : summary (search 1 false 2 2 (N.to_nat 3200)) = (3103, 1280, 0, 17, true)%N.
Proof. vm_cast_no_check (@eq_refl _ (3103, 1280, 0, 17, true)%N). Qed.
