(* C07 — placeholder while the proofs are being written *)
From Coq Require Import List ZArith Bool String.
From SV Require Import Model.Node.
