(* C07 — Each layer is served as a correct overlayfs lower directory of the OCI layer.
   Statements only; every proof is [exact <lemma of Proofs/Node.v or Proofs/Overlay.v>].

   Vocabulary (Model/Node.v): a node of a layer is described by its metadata view [ch : children] (name -> entry, as
   metadata.Reader reports it), its own entry [self] and the configuration [c] (is it the layer root, baseInode, opaque mode).
   [exec c self ch os] is the node state after an arbitrary history [os] of Readdir / Lookup (with or without the go-fuse
   bridge keeping the child) / Forget / Getattr / Getxattr / Listxattr / state-dir walks. [lookup_spec] and [readdir_spec] are the
   answers of a fresh node. [valid_name] = the names a kernel can send (non-empty, not "." / ".."). *)
From Coq Require Import List ZArith Bool String.
From SV Require Import Model.Node Model.Overlay Proofs.Node Proofs.Overlay.
Import ListNotations.
Local Open Scope Z_scope.

(* "every order of Lookup and Readdir calls (lookup before or after the listing is memoised)":
   after ANY history, Lookup of any valid name answers exactly what a fresh node answers, and Readdir lists exactly what a
   fresh node lists. Neither the memoised listing (entsCached, also set by the Lookup miss path) nor the children kept by
   go-fuse ever change an answer; in particular inode numbers and attributes are stable. *)
Theorem C07_lookup_history_irrelevant :
  forall c self ch os n, valid_name n ->
    snd (lookup c ch (exec c self ch os) n) = lookup_spec c ch n.
Proof. intros c self ch os n Hv. exact (lookup_answer c ch _ n (reach_inv c self ch os) Hv). Qed.
Print Assumptions C07_lookup_history_irrelevant.

Theorem C07_readdir_history_irrelevant :
  forall c self ch os, snd (readdir c ch (exec c self ch os)) = readdir_spec c ch.
Proof. intros c self ch os. exact (readdir_answer c ch _ (reach_inv c self ch os)). Qed.
Print Assumptions C07_readdir_history_irrelevant.

(* The outputs compared with the implementation op by op are produced from the states the two theorems above speak about. *)
Theorem C07_run_is_exec :
  forall c self ch os, fst (run c self ch init os) = exec c self ch os.
Proof. intros c self ch os. exact (run_exec_from c self ch os init). Qed.
Print Assumptions C07_run_is_exec.

(* Listing and lookup agree: a valid name other than the deliberately hidden state directory is listed iff looking it up
   succeeds (whenever the listing itself succeeds, i.e. no metadata id exceeds the 32-bit inode space). *)
Theorem C07_list_iff_lookup :
  forall c ch l n, valid_name n -> ~ (c_root c = true /\ n = state_dir_name) -> readdir_spec c ch = Some l ->
    (In n (map d_name l) <-> found (lookup_spec c ch n)).
Proof. exact list_iff_lookup. Qed.
Print Assumptions C07_list_iff_lookup.

(* Marker files (every name beginning with .wh., which includes the opaque marker) and, in the layer root, the two prefetch
   landmarks are never served: not by Lookup in any node state whatsoever, not by the listing. Landmarks below the root are
   ordinary files (they are not in the hypothesis). The state directory is not listed unless the layer carries such an entry. *)
Theorem C07_hidden_never_served :
  forall c ch n, has_wh n = true \/ (c_root c = true /\ is_landmark n = true) ->
    (forall s, lookup c ch s n = (s, LEnoent))
    /\ (forall l, readdir_spec c ch = Some l -> ~ In n (map d_name l)).
Proof. intros c ch n H. split; [intros s; exact (hidden_lookup c ch s n H)|intros l Hl; exact (hidden_not_listed c ch l n Hl H)]. Qed.
Print Assumptions C07_hidden_never_served.

Theorem C07_state_dir_hidden :
  forall c ch l, readdir_spec c ch = Some l -> c_root c = true -> find_child ch state_dir_name = None ->
    ~ In state_dir_name (map d_name l) /\ lookup_spec c ch state_dir_name = LState (state_attr c).
Proof.
  intros c ch l H R F. split; [exact (state_dir_not_listed c ch l H R F)|].
  rewrite lookup_spec_eq, R. reflexivity.
Qed.
Print Assumptions C07_state_dir_hidden.

(* The state file reports the layer as it is at the time of the Read: whatever the node's history, and whatever an earlier
   Lookup / Getattr / Read of the file saw, a Read answers from the CURRENT size, fetched size and error state it is handed
   (the environment: the harness hands the real blob's FetchedSize and the errors reported so far) — the model keeps no
   copy of the file anywhere in the node state. *)
Theorem C07_state_file_reports_current_values :
  forall c self ch os dg size fetched he, c_root c = true ->
    snd (step c self ch (exec c self ch os) (OStatRead dg size fetched he)) = ([size; fetched; (if he then 1 else 0)], [dg])
    /\ fst (step c self ch (exec c self ch os) (OStatRead dg size fetched he)) = exec c self ch os.
Proof. intros c self ch os dg size fetched he R. simpl. rewrite R. split; reflexivity. Qed.
Print Assumptions C07_state_file_reports_current_values.

(* Whiteout shape: a marker .wh.X (X a servable name) with no real X beside it is served, by Lookup and in the listing, as a
   character device 0/0 owned by root, empty, one link, under the inode of the marker; with a real X beside it the real entry
   wins in both. *)
Theorem C07_whiteout_shape :
  forall c ch l x e,
    readdir_spec c ch = Some l -> unlistable_target c x = false -> find_child ch (wh_prefix ++ x) = Some e ->
    match find_child ch x with
    | None => exists i, ino_of (c_base c) (e_id e) = Some i /\ lookup_spec c ch x = LWh e (wh_attr i) /\ In (x, S_IFCHR, i) l
              /\ f_mode (wh_attr i) = S_IFCHR /\ f_rdev (wh_attr i) = 0 /\ f_uid (wh_attr i) = 0 /\ f_gid (wh_attr i) = 0
              /\ f_size (wh_attr i) = 0 /\ f_nlink (wh_attr i) = 1 /\ f_ino (wh_attr i) = i
    | Some r => exists i, ino_of (c_base c) (e_id r) = Some i
                /\ lookup_spec c ch x = LNode r (entry_to_attr i (e_attr r)) /\ In (x, sysmode (a_mode (e_attr r)), i) l
    end.
Proof.
  intros c ch l x e H U F. pose proof (whiteout_shape c ch l x e H U F) as W.
  destruct (find_child ch x); [exact W|]. destruct W as [i [A [B C]]]. exists i. repeat split; assumption.
Qed.
Print Assumptions C07_whiteout_shape.

(* ... and the listing carries exactly that one entry under the name (children are a map: names are unique). *)
Theorem C07_whiteout_listed_once :
  forall c ch l x e d,
    NoDup (map fst ch) -> readdir_spec c ch = Some l -> unlistable_target c x = false ->
    find_child ch (wh_prefix ++ x) = Some e -> In d l -> d_name d = x ->
    match find_child ch x with
    | None => exists i, ino_of (c_base c) (e_id e) = Some i /\ d = (x, S_IFCHR, i)
    | Some r => exists i, ino_of (c_base c) (e_id r) = Some i /\ d = (x, sysmode (a_mode (e_attr r)), i)
    end.
Proof. exact whiteout_listed_once. Qed.
Print Assumptions C07_whiteout_listed_once.

(* Opaque xattr, for the three modes: an xattr name configured for the mode reads "y" iff the opaque marker is a child
   (the entry's own xattrs aside); names not configured for the mode are answered from the entry's own xattrs only;
   Listxattr = configured names (iff marker) followed by the entry's own. *)
Theorem C07_opaque_xattr :
  forall c self ch a,
    (In a (opaque_xattrs (c_mode c)) -> assoc (a_xattrs (e_attr self)) a = None ->
       (xattr_value c self ch a = Some opaque_value <-> exists e, find_child ch opq_marker = Some e)
       /\ (find_child ch opq_marker = None -> xattr_value c self ch a = None))
    /\ (~ In a (opaque_xattrs (c_mode c)) -> xattr_value c self ch a = assoc (a_xattrs (e_attr self)) a)
    /\ xattr_names c self ch = (if is_opaque ch then opaque_xattrs (c_mode c) else []) ++ map fst (a_xattrs (e_attr self))
    /\ opaque_xattrs OpqTrusted = ["trusted.overlay.opaque"%string]
    /\ opaque_xattrs OpqUser = ["user.overlay.opaque"%string]
    /\ opaque_xattrs OpqAll = ["trusted.overlay.opaque"%string; "user.overlay.opaque"%string].
Proof.
  intros c self ch a. split; [intros H1 H2; exact (opaque_xattr_iff c self ch a H1 H2)|].
  split; [intros H; exact (other_xattr c self ch a H)|]. repeat split; reflexivity.
Qed.
Print Assumptions C07_opaque_xattr.

(* Inode numbers: injective in (baseInode, id) — unique within a layer and across layers with different bases —, never one
   of the two reserved state inodes of any layer nor 0, and they encode base and id. *)
Theorem C07_inodes_unique :
  forall base base' id id' i i',
    0 <= id -> 0 <= id' -> ino_of base id = Some i -> ino_of base' id' = Some i' ->
    (i = i' <-> (base = base' /\ id = id'))
    /\ i <> ino_state base' /\ i <> ino_statfile base' /\ i <> 0
    /\ i / 2^32 = base /\ i mod 2^32 = 3 + id.
Proof.
  intros base base' id id' i i' H1 H2 E1 E2. split.
  - split; [intros <-; exact (ino_injective base base' id id' i H1 H2 E1 E2)|intros [<- <-]; congruence].
  - destruct (ino_not_reserved base base' id i H1 E1) as [A [B C]]. destruct (ino_range base id i H1 E1) as [D E].
    repeat split; assumption.
Qed.
Print Assumptions C07_inodes_unique.

(* Stable and consistent: the inode (and file type) a listing shows for a name is the one Lookup reports for it — after any
   history, by C07_lookup_history_irrelevant. *)
Theorem C07_inodes_stable :
  forall c self ch os l d,
    NoDup (map fst ch) -> readdir_spec c ch = Some l -> In d l -> valid_name (d_name d) ->
    ~ (c_root c = true /\ d_name d = state_dir_name) ->
    exists e a, (snd (lookup c ch (exec c self ch os) (d_name d)) = LNode e a \/ snd (lookup c ch (exec c self ch os) (d_name d)) = LWh e a)
      /\ f_ino a = d_ino d /\ Z.land (f_mode a) S_IFMT = Z.land (d_mode d) S_IFMT /\ ino_of (c_base c) (e_id e) = Some (d_ino d).
Proof.
  intros c self ch os l d ND H Hd Hv Hs.
  rewrite (lookup_answer c ch _ (d_name d) (reach_inv c self ch os) Hv).
  exact (listing_ino_is_lookup_ino c ch l d ND H Hd Hv Hs).
Qed.
Print Assumptions C07_inodes_stable.

(* The listing is ordered by name (the "deterministic order" the code sorts for). *)
Theorem C07_listing_sorted :
  forall c ch l, readdir_spec c ch = Some l -> sorted_by_name l.
Proof.
  intros c ch l H. unfold readdir_spec in H.
  destruct (traverse (normal_dirent c) (normals c ch)); [|discriminate].
  destruct (traverse (wh_dirent c) (shown_whiteouts c ch)); [|discriminate].
  inversion H. exact (sort_ents_sorted _).
Qed.
Print Assumptions C07_listing_sorted.

(* Stacking, per directory: for every name that can be part of an image (not a marker name, not a root landmark, not the
   reserved state directory), overlayfs over the served directory and OCI application of the layer directory agree on where the
   merged name comes from — the layer's own entry with its attributes, the lower layers, or nowhere — whatever the lower
   directory holds. Hypotheses: metadata ids fit the inode space; the layer has no real 0/0 character device of that name
   (overlayfs itself reads one as a whiteout); the directory entry does not itself carry an overlay opaque xattr. *)
Theorem C07_overlay_dir_is_oci_dir :
  forall c self ch n lower_has,
    image_name c n = true -> ~ (c_root c = true /\ n = state_dir_name) ->
    (forall m e, (m = n \/ m = (wh_prefix ++ n)%string) -> find_child ch m = Some e -> ino_of (c_base c) (e_id e) <> None) ->
    (forall e i, find_child ch n = Some e -> is_whiteout_dev (entry_to_attr i (e_attr e)) = false) ->
    (forall a, In a (opaque_xattrs (c_mode c)) -> assoc (a_xattrs (e_attr self)) a = None) ->
    overlay_origin c self ch lower_has n = oci_origin c ch lower_has n.
Proof. intros c self ch n lower_has H1 H2 H3 H4 H5. exact (overlay_is_oci c self ch n H1 H2 H3 H4 H5 lower_has). Qed.
Print Assumptions C07_overlay_dir_is_oci_dir.

(* ... and on whether a served sub-directory continues into the lower directory of the same name — outside the one class the
   property excludes (a layer carrying both a whiteout for a name and a directory of that name). The opacity of the
   sub-directory itself is the same statement one level down (served_opaque = presence of the marker, Proofs/Overlay.v).

   The whole-tree statement built on the two per-directory ones is C07_served_stack_is_rootfs below. *)
Theorem C07_child_merge_rule_partial :
  forall c self ch n lower_is_dir,
    image_name c n = true -> ~ (c_root c = true /\ n = state_dir_name) ->
    (forall e i, find_child ch n = Some e -> is_whiteout_dev (entry_to_attr i (e_attr e)) = false) ->
    (forall a, In a (opaque_xattrs (c_mode c)) -> assoc (a_xattrs (e_attr self)) a = None) ->
    (forall e i, find_child ch n = Some e -> whited ch n = true -> is_dir_attr (entry_to_attr i (e_attr e)) = false) ->
    overlay_child_sees_lower c self ch lower_is_dir n = oci_child_sees_lower c ch lower_is_dir n.
Proof. intros c self ch n l H1 H2 H4 H5 H6. exact (child_merge_rule c self ch n H1 H2 H4 H5 H6 l). Qed.
Print Assumptions C07_child_merge_rule_partial.

(* the excluded class is really different (so the exclusion in the property text is necessary, not an artefact):
   a layer with directory d and whiteout .wh.d over a lower directory d — overlayfs merges, OCI does not. *)
Theorem C07_child_merge_rule_refuted :
  exists c self ch n,
    image_name c n = true /\ overlay_child_sees_lower c self ch true n = true /\ oci_child_sees_lower c ch true n = false.
Proof.
  exists (mkCfg false 1 OpqTrusted), (mkEnt 1 (mkAttr 0 (2^31 + 493) 0 0 0 0 2 0 [])),
         [("d"%string, mkEnt 2 (mkAttr 0 (2^31 + 493) 0 0 0 0 2 0 [])); (".wh.d"%string, mkEnt 3 (mkAttr 0 420 0 0 0 0 1 0 []))],
         "d"%string.
  vm_compute. repeat split.
Qed.
Print Assumptions C07_child_merge_rule_refuted.

Definition ex_attr (mode : Z) : attr := mkAttr 0 mode 0 0 0 0 1 0 [].

(* THE STACK CLAUSE, whole trees: for every stack of layers in the allowed class and every path a kernel can walk, folding
   overlayfs over the trees the layers SERVE (whiteouts as 0/0 character devices, opaque xattr, hidden markers — all read
   through lookup_spec / xattr_value) resolves the path exactly as folding OCI image-spec application over the layers' MARKER
   files does: same presence, same entry, same attributes. [allowed_stack] (Model/Overlay.v, a boolean, evaluated on the
   example below) = every layer is a root whose every directory: has unique child names; carries no overlay opaque xattr
   itself; has ids inside the inode space; holds no real 0/0 character device under an image name; and — the class the property
   excludes — never both a whiteout for a name and a directory of that name; plus, in the layer root, no opaque marker
   (overlayfs never consults the opaque xattr of a lower root) and no entry named like the state directory.
   [path_ok] = components are non-empty, not "." / "..", not marker names; the first is not a root landmark / the state dir. *)
Theorem C07_served_stack_is_rootfs :
  forall (s : stack) (p : list string),
    allowed_stack s = true -> path_ok p = true ->
    resolve (overlay_stack s) p = resolve (oci_stack s) p.
Proof. exact served_stack_is_rootfs. Qed.
Print Assumptions C07_served_stack_is_rootfs.

(* What the two folds put under a name of one directory (children a map): the overlay side decides from what the node API
   serves (overlay_origin = lookup_spec + served opaque xattr), the OCI side from the marker files (oci_origin); an upper
   directory continues into the lower directory of the same name exactly when the respective child rule says so. These are
   the equations the whole-tree theorem is proved from, path component by path component. *)
Theorem C07_overlay_dir_contents :
  forall c self kids lower n, NoDup (map fst kids) ->
    alookup (over_tree c (LT self kids) lower) n =
    match overlay_origin c self (view kids) true n with
    | Absent => None
    | FromLower => alookup lower n
    | FromUpper e a =>
        match alookup kids n with
        | Some tn => Some (RN e a (if is_dir_attr a
                                   then over_tree (sub_cfg c) tn
                                          (if overlay_child_sees_lower c self (view kids) (lower_is_dir lower n) n then lower_kids lower n else [])
                                   else []))
        | None => None
        end
    end.
Proof. exact over_lookup. Qed.
Print Assumptions C07_overlay_dir_contents.

Theorem C07_oci_dir_contents :
  forall c self kids lower n, NoDup (map fst kids) -> image_name c n = true ->
    alookup (oci_tree c (LT self kids) lower) n =
    match oci_origin c (view kids) true n with
    | Absent => None
    | FromLower => alookup lower n
    | FromUpper e a =>
        match alookup kids n with
        | Some tn => Some (RN e a (if is_dir_attr a
                                   then oci_tree (sub_cfg c) tn
                                          (if oci_child_sees_lower c (view kids) (lower_is_dir lower n) n then lower_kids lower n else [])
                                   else []))
        | None => None
        end
    end.
Proof. exact oci_lookup. Qed.
Print Assumptions C07_oci_dir_contents.

(* without the allowed class the statement is false: the property's excluded class (directory d + whiteout .wh.d over a
   lower d/x: overlayfs still shows d/x, the image does not) ... *)
Definition ex_dirmode : Z := 2^31 + 493.
Definition ex_file (id : Z) : ltree := LT (mkEnt id (ex_attr 420)) [].
Definition ex_dir (id : Z) (kids : list (string * ltree)) : ltree := LT (mkEnt id (ex_attr ex_dirmode)) kids.
Theorem C07_served_stack_is_rootfs_refuted :
  exists (s : stack) (p : list string), path_ok p = true /\ resolve (overlay_stack s) p <> resolve (oci_stack s) p.
Proof.
  exists [(mkCfg true 1 OpqTrusted, ex_dir 1 [("d"%string, ex_dir 2 [("x"%string, ex_file 3)])]);
          (mkCfg true 2 OpqTrusted, ex_dir 1 [("d"%string, ex_dir 2 []); (".wh.d"%string, ex_file 3)])],
         ["d"; "x"]%string.
  vm_compute. split; [reflexivity|discriminate].
Qed.
Print Assumptions C07_served_stack_is_rootfs_refuted.

(* ... and so is the exclusion of a real 0/0 character device (overlayfs reads it as a whiteout, the image keeps it). *)
Theorem C07_served_stack_chardev00_refuted :
  exists (s : stack) (p : list string), path_ok p = true /\ resolve (overlay_stack s) p <> resolve (oci_stack s) p.
Proof.
  exists [(mkCfg true 1 OpqTrusted, ex_dir 1 [("z"%string, LT (mkEnt 2 (ex_attr (2^26 + 2^21 + 420))) [])])], ["z"]%string.
  vm_compute. split; [reflexivity|discriminate].
Qed.
Print Assumptions C07_served_stack_chardev00_refuted.

(* non-vacuity of the stack theorem: a lower layer {a/{f,g,c/{h}}, f, b/{e}} under an upper layer
   {a/{.wh.f, c/{opaque marker, e}}, .wh.b, f, landmark} is in the allowed class; a/f and b/e are gone, a/g comes from below,
   a/c/h is hidden by the opaque directory, a/c/e and f come from the upper layer, the landmark is not part of the rootfs. *)
Definition ex_lower : ltree :=
  ex_dir 1 [("a"%string, ex_dir 2 [("f"%string, ex_file 3); ("g"%string, ex_file 4); ("c"%string, ex_dir 5 [("h"%string, ex_file 6)])]);
            ("f"%string, ex_file 7); ("b"%string, ex_dir 8 [("e"%string, ex_file 9)])].
Definition ex_upper : ltree :=
  ex_dir 1 [("a"%string, ex_dir 2 [(".wh.f"%string, ex_file 3); ("c"%string, ex_dir 4 [(".wh..wh..opq"%string, ex_file 5); ("e"%string, ex_file 6)])]);
            (".wh.b"%string, ex_file 7); ("f"%string, ex_file 8); (".no.prefetch.landmark"%string, ex_file 9)].
Definition ex_stack : stack := [(mkCfg true 1 OpqTrusted, ex_lower); (mkCfg true 2 OpqTrusted, ex_upper)].
Example C07_stack_nonvacuous :
  allowed_stack ex_stack = true
  /\ resolve (overlay_stack ex_stack) ["a"; "f"]%string = None
  /\ resolve (overlay_stack ex_stack) ["b"; "e"]%string = None
  /\ option_map (fun x => e_id (fst x)) (resolve (overlay_stack ex_stack) ["a"; "g"]%string) = Some 4
  /\ option_map (fun x => f_ino (snd x)) (resolve (overlay_stack ex_stack) ["a"; "g"]%string) = Some (1 * 2^32 + 7)
  /\ resolve (overlay_stack ex_stack) ["a"; "c"; "h"]%string = None
  /\ option_map (fun x => f_ino (snd x)) (resolve (overlay_stack ex_stack) ["a"; "c"; "e"]%string) = Some (2 * 2^32 + 9)
  /\ option_map (fun x => f_ino (snd x)) (resolve (overlay_stack ex_stack) ["f"]%string) = Some (2 * 2^32 + 11)
  /\ resolve (oci_stack ex_stack) [".no.prefetch.landmark"]%string = None
  /\ path_ok ["a"; "c"; "e"]%string = true.
Proof. vm_compute. repeat split. Qed.

(* ---- non-vacuity ---- *)
Definition ex_children : children :=
  [("f"%string, mkEnt 2 (ex_attr 420)); (".wh.f"%string, mkEnt 3 (ex_attr 420)); (".wh.g"%string, mkEnt 4 (ex_attr 420));
   (".wh..wh..opq"%string, mkEnt 5 (ex_attr 420)); (".wh..wh.h"%string, mkEnt 6 (ex_attr 420));
   (".prefetch.landmark"%string, mkEnt 7 (ex_attr 420)); ("d"%string, mkEnt 8 (ex_attr (2^31 + 493)))].
Definition ex_cfg := mkCfg true 7 OpqUser.

(* a root directory with a shadowed whiteout, a live one, the opaque marker, a nested .wh. name and a landmark:
   the listing is "." ".." "d" "f" "g", g is a 0/0 char device, and the answers survive a history that memoises through a miss,
   keeps g in the go-fuse tree and looks it up again. *)
Example C07_nonvacuous :
  let hist := [OLookup "zz" false; OLookup "g" true; OReaddir; OLookup "g" false; OForget "g"] in
  option_map (map d_name) (readdir_spec ex_cfg ex_children) = Some ["."; ".."; "d"; "f"; "g"]%string
  /\ lookup_spec ex_cfg ex_children "g" = LWh (mkEnt 4 (ex_attr 420)) (wh_attr (7 * 2^32 + 7))
  /\ snd (lookup ex_cfg ex_children (exec ex_cfg (mkEnt 1 (ex_attr (2^31 + 493))) ex_children hist) "g")
     = lookup_spec ex_cfg ex_children "g"
  /\ memo (exec ex_cfg (mkEnt 1 (ex_attr (2^31 + 493))) ex_children hist) <> None
  /\ lookup_spec ex_cfg ex_children ".wh.h" = LEnoent
  /\ lookup_spec ex_cfg ex_children ".prefetch.landmark" = LEnoent
  /\ xattr_value ex_cfg (mkEnt 1 (ex_attr (2^31 + 493))) ex_children "user.overlay.opaque" = Some "y"%string
  /\ xattr_value ex_cfg (mkEnt 1 (ex_attr (2^31 + 493))) ex_children "trusted.overlay.opaque" = None
  /\ NoDup (map fst ex_children) /\ unlistable_target ex_cfg "g" = false /\ valid_name "g"
  /\ overlay_origin ex_cfg (mkEnt 1 (ex_attr (2^31 + 493))) ex_children true "g" = Absent
  /\ overlay_origin ex_cfg (mkEnt 1 (ex_attr (2^31 + 493))) ex_children true "lower-only" = Absent   (* opaque root dir *)
  /\ image_name ex_cfg "d" = true
  /\ (exists e a, overlay_origin ex_cfg (mkEnt 1 (ex_attr (2^31 + 493))) ex_children true "d" = FromUpper e a).
Proof.
  vm_compute. repeat split; try discriminate.
  - repeat constructor; simpl; intuition discriminate.
  - eexists. eexists. reflexivity.
Qed.
