(* C18 — Registry credentials and custom headers reach only their own image and host.
   Statements only; every proof is [exact <lemma of Proofs/Creds.v or Proofs/Headers.v>]. *)
From Coq Require Import List NArith Bool Arith.
From Coq Require String.
Import String.StringSyntax.
From SV Require Import Model.Creds Proofs.Creds.
From SV Require Model.Headers Proofs.Headers.
Import ListNotations.

(* ===================== credentials (CRI keychain, ParseAuth, multiCredsFuncs) ===================== *)

(* For every history of CRI requests (connect, pull with any auth form / none / unparsable image, remove, backend
   failures, other calls, queries) and every query (host, r): a non-empty credential is offered only if the most
   recent pull-or-remove request naming exactly the reference r is a pull that was accepted and carried an auth
   config a; a names no server address, or the URL host of the address it names is the host asked for (docker.io
   and registry-1.docker.io being asked as index.docker.io); and the credential is the one a denotes. *)
Theorem C18_creds_confined :
  forall (c : bool) (os : list op) (host : str) (r : nat) (u s : str),
    credentials (exec (init c) os) host r = COk u s -> (u <> [] \/ s <> []) ->
    exists pre a ok post,
      os = pre ++ Pull (Some r) (Some a) ok :: post
      /\ (forall o, In o post -> touches r o = false)
      /\ (c = true \/ In Connect pre)
      /\ (sa_is_empty (a_sa a) = true \/ (sa_is_empty (a_sa a) = false /\ url_host (a_sa a) = Some (alias host)))
      /\ cred_of a = COk u s.
Proof. exact creds_confined. Qed.
Print Assumptions C18_creds_confined.

(* Conversely the answer is exactly what the most recent accepted pull of r denotes for that host (so a later pull
   without auth, or with other credentials, replaces the earlier ones), whether or not the backend pull succeeded. *)
Theorem C18_creds_are_those_of_the_most_recent_pull :
  forall c pre r oa ok post host,
    c = true \/ In Connect pre -> (forall o, In o post -> touches r o = false) ->
    credentials (exec (init c) (pre ++ Pull (Some r) oa ok :: post)) host r = parse_auth oa (alias host).
Proof. exact creds_exact. Qed.
Print Assumptions C18_creds_are_those_of_the_most_recent_pull.

(* No longer after the image is removed: once a remove request for r was accepted and no pull of r followed, nothing
   is offered for r to any host, and the entry is gone from the table (also when the backend removal failed). *)
Theorem C18_no_creds_after_remove :
  forall c pre r ok post host,
    c = true \/ In Connect pre -> (forall o, In o post -> touches r o = false) ->
    credentials (exec (init c) (pre ++ Remove (Some r) ok :: post)) host r = empty_cred
    /\ cfg_find (cfg (exec (init c) (pre ++ Remove (Some r) ok :: post))) r = None.
Proof. intros c pre r ok post host Ha Hp. split; [exact (creds_after_remove c pre r ok post host Ha Hp)|exact (table_after_remove c pre r ok post Ha Hp)]. Qed.
Print Assumptions C18_no_creds_after_remove.

(* Only the exact reference: requests naming other references (or unparsable images, or anything before the
   connection to the backend exists) never make a credential available for r, and no op that does not name r changes
   the answer for r. *)
Theorem C18_no_creds_for_another_reference :
  forall c os r host,
    ((forall o, In o os -> touches r o = false) -> credentials (exec (init c) os) host r = empty_cred)
    /\ (forall s o, touches r o = false -> credentials (fst (step s o)) host r = credentials s host r).
Proof. intros c os r host. split; [exact (creds_never_pulled c os r host)|exact (fun s o => creds_other_reference s o r host)]. Qed.
Print Assumptions C18_no_creds_for_another_reference.

(* Never for a server address different from the host contacted; an address that does not parse is an error, not a
   credential. *)
Theorem C18_no_creds_for_mismatching_server :
  forall a host h, sa_is_empty (a_sa a) = false -> url_host (a_sa a) = Some h -> h <> host ->
    parse_auth (Some a) host = empty_cred.
Proof. exact parse_auth_mismatch. Qed.
Print Assumptions C18_no_creds_for_mismatching_server.

(* multiCredsFuncs: the first answer that is an error or non-empty decides (and later functions are not called);
   if there is none the result is empty. *)
Theorem C18_first_nonempty_wins :
  forall fs,
    (exists pre x post, fs = pre ++ x :: post /\ all_empty pre /\ (x = CErr \/ cred_nonempty x = true)
                        /\ multi fs = x /\ multi_calls fs = S (length pre))
    \/ (all_empty fs /\ multi fs = empty_cred /\ multi_calls fs = length fs).
Proof. exact multi_decisive. Qed.
Print Assumptions C18_first_nonempty_wins.

(* The per-op outputs compared with the implementation are produced along the same state sequence the theorems speak of. *)
Theorem C18_creds_run_is_exec : forall os s, fst (run s os) = exec s os.
Proof. exact run_exec. Qed.
Print Assumptions C18_creds_run_is_exec.

(* ===================== headers and credentials on the wire (registry.go host list, fs/remote fetcher + transport,
   docker authorizer) ===================== *)
Import Model.Headers Proofs.Headers.

(* RegistryHostsFromConfig: one registry host per configured mirror, in order, each with exactly its OWN header table
   (non-empty or not), then the origin host without headers -- for every list of mirrors. *)
Theorem C18_host_list_has_per_host_tables :
  forall (ms : list mirror) (hs : list hostcfg),
    hosts_of_config ms = Some hs ->
    length hs = S (length ms)
    /\ (forall i m, nth_error ms i = Some m -> nth_error hs i = Some (mkHost (m_valid m) (table_nonempty (m_hdr m))))
    /\ nth_error hs (length ms) = Some (mkHost true false).
Proof. exact hosts_of_config_spec. Qed.
Print Assumptions C18_host_list_has_per_host_tables.

(* For every host list, every credential function, every behaviour of the registries, redirect locations and token
   servers during the initial resolution and the size probe (script: failing mirrors fall through to the next host),
   and every schedule of concurrent fetch / check calls at the granularity of their critical sections with every
   behaviour of the servers (direct, redirect, 401 challenges Basic/Bearer with token fetches, 403 -> URL refresh,
   400 -> single-range retry, errors): each request that carries the headers configured for host i goes to the blob
   URL on host i and host i has headers configured. *)
Theorem C18_headers_confined :
  forall (creds : nat -> ckind) (hs : list hostcfg) (sc : list resp) (os : list Headers.op),
    Forall (confined hs) (fst (resolve creds hs sc))
    /\ forall i u h a hc, snd (resolve creds hs sc) = Some (i, u, h, a) -> nth_error hs i = Some hc ->
         Forall (confined hs) (emitted true creds (mk_fetcher i (org_of i hc) u h a) os).
Proof. exact headers_confined. Qed.
Print Assumptions C18_headers_confined.

(* ... and with the host list built from the configuration, "host i has headers configured" means mirror i's own
   table is non-empty: a header-less mirror or the origin never inherits another host's headers. *)
Theorem C18_headers_confined_by_configuration :
  forall ms hs q i,
    hosts_of_config ms = Some hs -> confined hs q -> r_hdr q = Some i ->
    r_loc q = Blob i /\ exists m, nth_error ms i = Some m /\ table_nonempty (m_hdr m) = true.
Proof. exact confined_config. Qed.
Print Assumptions C18_headers_confined_by_configuration.

(* The state invariant behind it: whenever the fetcher holds a non-empty header set, its current target is the
   registry's own blob URL (never a redirect location). *)
Theorem C18_header_implies_registry_url :
  forall creds hs sc os i u h a hc j,
    snd (resolve creds hs sc) = Some (i, u, h, a) -> nth_error hs i = Some hc ->
    header (Headers.exec true creds (mk_fetcher i (org_of i hc) u h a) os) = Some j ->
    url (Headers.exec true creds (mk_fetcher i (org_of i hc) u h a) os) = Blob j /\ j = i /\ h_hdr hc = true.
Proof. exact header_state_confined. Qed.
Print Assumptions C18_header_implies_registry_url.

(* Never forwarded: a request to a redirect location or a token server (anything that is not a registry blob URL)
   carries no configured header. *)
Theorem C18_redirect_location_gets_no_header :
  forall hs q, confined hs q -> (forall i, r_loc q <> Blob i) -> r_hdr q = None.
Proof. exact confined_elsewhere. Qed.
Print Assumptions C18_redirect_location_gets_no_header.

(* Credentials on the wire, same quantification: a Basic credential obtained for host j goes only to a URL on host j
   and only if the credential function offered user and secret for j; a token request carries a credential only if
   the credential function offered a secret for the host on whose behalf the token is fetched (the host that sent the
   challenge) and goes to a token endpoint without configured headers; a bearer token fetched on behalf of host j is
   presented to host j only (no reuse across hosts, also after redirects). *)
Theorem C18_credentials_confined_on_wire :
  forall (creds : nat -> ckind) (hs : list hostcfg) (sc : list resp) (os : list Headers.op),
    Forall (cred_ok creds) (fst (resolve creds hs sc))
    /\ forall i u h a hc, snd (resolve creds hs sc) = Some (i, u, h, a) -> nth_error hs i = Some hc ->
         Forall (cred_ok creds) (emitted true creds (mk_fetcher i (org_of i hc) u h a) os).
Proof. exact creds_on_wire. Qed.
Print Assumptions C18_credentials_confined_on_wire.

(* Composition with the keychain: when the credential function is the CRI keychain after ANY history kos, a request
   that carries the secret on behalf of host j (Basic to j, or inside j's token request) exists only if the most
   recent pull-or-remove request for the image is an accepted pull whose auth config names no server address or one
   whose URL host is j's name (docker.io aliases as index.docker.io). *)
Theorem C18_secret_on_wire_follows_pull_server_address :
  forall (c : bool) (kos : list Creds.op) (name : nat -> Creds.str) (r : nat) j q,
    let creds := fun j => kind_of (Creds.credentials (Creds.exec (Creds.init c) kos) (name j) r) in
    cred_ok creds q -> carries_secret_for j q ->
    exists pre a ok post,
      kos = pre ++ Creds.Pull (Some r) (Some a) ok :: post
      /\ (forall o, In o post -> Creds.touches r o = false)
      /\ (c = true \/ In Creds.Connect pre)
      /\ (Creds.sa_is_empty (Creds.a_sa a) = true
          \/ (Creds.sa_is_empty (Creds.a_sa a) = false /\ Creds.url_host (Creds.a_sa a) = Some (Creds.alias (name j)))).
Proof. exact secret_follows_pull. Qed.
Print Assumptions C18_secret_on_wire_follows_pull_server_address.

(* The coarse steps the harness schedules (run a thread to the next point where it can be held) are compositions of
   the atomic sub-steps the theorems quantify over, with the same requests. *)
Theorem C18_resume_is_atomic_steps :
  forall fixed creds s t r toks,
    exists ms, Forall (micro_of t) ms
               /\ Headers.exec fixed creds s ms = fst (resume fixed creds s t r toks)
               /\ emitted fixed creds s ms = snd (resume fixed creds s t r toks).
Proof. exact resume_micros. Qed.
Print Assumptions C18_resume_is_atomic_steps.

(* The header statement is FALSE of the code before patches/C18-fix-1.diff (header read outside the critical section
   that reads the target): a schedule exists in which the headers of registry host 0 are sent to the redirect
   location Ext 100 0. The harness replays this schedule on the implementation (corpus case 2 of cmd/credsfetch). *)
Theorem C18_headers_confined_without_fix_refuted :
  exists creds hs sc os i u h a hc,
    snd (resolve creds hs sc) = Some (i, u, h, a) /\ nth_error hs i = Some hc
    /\ In (mkReq GET (Ext 100 0) (Some 0) AzNone) (emitted false creds (mk_fetcher i (org_of i hc) u h a) os).
Proof. exact unfixed_leaks. Qed.
Print Assumptions C18_headers_confined_without_fix_refuted.

(* ===================== non-vacuity ===================== *)
(* a pull with user/password for ghcr.io: offered to ghcr.io for that reference, not to another host, not for
   another reference, not after the remove *)
Example C18_creds_nonvacuous :
  let a := mkAuth (SAUrl (bs "ghcr.io")) (bs "alice") (bs "pw") [] (B64 []) in
  let os := [Pull (Some 2) (Some a) true] in
  credentials (Creds.exec (init true) os) (bs "ghcr.io") 2 = COk (bs "alice") (bs "pw")
  /\ credentials (Creds.exec (init true) os) (bs "evil.example") 2 = empty_cred
  /\ credentials (Creds.exec (init true) os) (bs "ghcr.io") 3 = empty_cred
  /\ credentials (Creds.exec (init true) (os ++ [Remove (Some 2) true])) (bs "ghcr.io") 2 = empty_cred.
Proof. vm_compute. repeat split. Qed.

(* the host named by a server address is compared VERBATIM with the host contacted: another port, no port, a default
   port spelled out, another case, a trailing dot are all different hosts; userinfo, path, query and fragment do not
   belong to the host *)
Example C18_server_address_port_matters :
  let a := mkAuth (SAText (bs "https://alice:x@registry.internal:5000/v2/?a=b#c")) (bs "alice") (bs "pw") [] (B64 []) in
  let s := Creds.exec (init true) [Pull (Some 2) (Some a) true] in
  credentials s (bs "registry.internal:5000") 2 = COk (bs "alice") (bs "pw")
  /\ credentials s (bs "registry.internal:5001") 2 = empty_cred
  /\ credentials s (bs "registry.internal") 2 = empty_cred
  /\ credentials s (bs "registry.internal:8443") 2 = empty_cred
  /\ credentials s (bs "REGISTRY.internal:5000") 2 = empty_cred
  /\ credentials s (bs "registry.internal.:5000") 2 = empty_cred
  /\ parse_url_host (bs "https://registry.internal:443") = Some (bs "registry.internal:443")
  /\ parse_url_host (bs "https://[::1]:5000/") = Some (bs "[::1]:5000")
  /\ parse_url_host (bs "registry.internal:5000") = Some []
  /\ parse_url_host (bs "10.0.0.1:5000") = None
  /\ parse_url_host (bs "https://registry.internal:50x0") = None.
Proof. vm_compute. repeat split. Qed.

(* a resolution that is redirected, and the schedule of the race on the fixed code: requests to the redirect location
   without headers, the refresh request to the registry with them *)
Example C18_headers_nonvacuous :
  resolve no_creds race_hosts race_script
    = ([mkReq GET (Blob 0) (Some 0) AzNone; mkReq HEAD (Ext 100 0) None AzNone], Some (0, Ext 100 0, None, new_authz))
  /\ emitted true no_creds (mk_fetcher 0 (Some 0) (Ext 100 0) None new_authz) race_schedule
     = [mkReq GET (Ext 100 0) None AzNone; mkReq GET (Blob 0) (Some 0) AzNone; mkReq GET (Ext 100 0) None AzNone].
Proof. vm_compute. split; reflexivity. Qed.

(* credentials offered for the mirror (host 0) only: the mirror's Bearer challenge is answered with a token request that
   carries the secret, the redirect location's challenge with an anonymous one; each token goes back to its own host *)
Example C18_wire_nonvacuous :
  let creds := fun j => match j with 0 => KBoth | _ => KNone end in
  fst (resolve creds race_hosts
         [Resp 401 None false (ChBearer (Some 0) false); default_resp; Resp 307 (Some (Ext 100 0)) true ChNone;
          Resp 401 None false (ChBearer (Some 1) false); default_resp; default_resp])
  = [mkReq GET (Blob 0) (Some 0) AzNone; mkReq POST (Realm 0) None (AzTok 0 true);
     mkReq GET (Blob 0) (Some 0) (AzBearer 0 0); mkReq HEAD (Ext 100 0) None AzNone;
     mkReq GET (Realm 1) None (AzTok 100 false); mkReq HEAD (Ext 100 0) None (AzBearer 100 1)].
Proof. vm_compute. reflexivity. Qed.
