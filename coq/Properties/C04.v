(* C04 — Untrusted layer bytes and registry replies cause errors, never a crash or a hang.
   Statements only; every proof is [exact <lemma of Proofs/{Footer,HostileTree,HostileRead}.v>].
   [Panic] = a Go runtime panic (slice/index out of range, nil dereference, Grow/makeslice failure);
   [OutOfFuel] = recursion or a loop not bounded by the input (stack overflow / hang). The models are those of the
   code WITH the fixes patches/C04-fix-1..10 applied (each defect was first reproduced on the unfixed code). *)
From Coq Require Import List ZArith NArith Bool.
From SV Require Import Gen.Consts Model.Footer Model.HostileTree Model.HostileRead Model.Hostile.
From SV Require Import Model.HostileChunk Model.HostileDb Proofs.Footer Proofs.HostileTree Proofs.HostileRead Proofs.HostileDb Proofs.HostileChunk.
Import ListNotations.

(* Every footer parser (eStargz, legacy stargz, zstd:chunked, external TOC), on every byte string [p] of every length
   and whatever the gzip header decoder makes of it ([gz]: an error or ANY Extra field), returns a value or an error. *)
Theorem C04_footer_parsers_total :
  forall (d : dec) (p : bytes) (gz : gzres),
    parse_footer d p gz <> Panic /\ parse_footer d p gz <> OutOfFuel.
Proof. exact parse_footer_total. Qed.
Print Assumptions C04_footer_parsers_total.

(* estargz.Open: for every blob size, every TOC-offset hint (annotation), every content of the fetched footer region, every
   behaviour of the gzip header decoder and of TOC decoding ([toc]), with or without the extra decompressors: the
   footer-size arithmetic, the slicing of the fetched bytes and the TOC range computation never panic. *)
Theorem C04_open_select_total :
  forall (size : Z) (ext : bool) (tocoff : Z) (tail51 : bytes) (gzs : dec -> gzres) (toc : dec -> bool),
    (0 <= size)%Z ->
    open_select size ext tocoff tail51 gzs toc <> Panic /\ open_select size ext tocoff tail51 gzs toc <> OutOfFuel.
Proof. exact open_select_total. Qed.
Print Assumptions C04_open_select_total.

(* Resolving a hardlink terminates for every entry table, including link cycles and self links. *)
Theorem C04_getsource_total :
  forall (s : st) (id : nat), get_source_of s id <> Panic /\ get_source_of s id <> OutOfFuel.
Proof. intros s id. exact (get_source_total _ s id). Qed.
Print Assumptions C04_getsource_total.

(* initFields on EVERY entry list (any names incl. root/duplicates, any types, hardlinks to anything, cycles):
   returns a tree or an error; the implicit-directory recursion is bounded by the longest name. *)
Theorem C04_initfields_total :
  forall es : list entry, init_fields es <> Panic /\ init_fields es <> OutOfFuel.
Proof. exact init_fields_total. Qed.
Print Assumptions C04_initfields_total.

(* assignIDs terminates on EVERY child graph - cyclic or with shared subtrees, whatever initFields produced or not -
   within recursion depth (number of objects + 2): each name is visited once. *)
Theorem C04_assignids_total :
  forall (s : st) (root : nat), assign_ids s root <> Panic /\ assign_ids s root <> OutOfFuel.
Proof. exact assign_ids_total. Qed.
Print Assumptions C04_assignids_total.

(* The daemon's directory walk (prefetch / background fetch: cacheWithReader, each directory id once) terminates on EVERY
   child graph, in particular with hardlinks to ancestor directories (cycles) and shared subtrees: recursion depth at most
   number of objects + 2, every directory listed once. *)
Theorem C04_prefetch_walk_total :
  forall (s : st) (root : nat), walk_dirs s root <> Panic /\ walk_dirs s root <> OutOfFuel.
Proof. exact walk_dirs_total. Qed.
Print Assumptions C04_prefetch_walk_total.

(* prefetch_walk_bounded: the daemon's directory walk and assignIDs visit every directory / entry name at most once, hence at
   most (number of objects + 1) visits - linear, whatever the child graph (2^40 paths to a directory do not matter). *)
Theorem C04_prefetch_walk_bounded :
  forall (s : st) (root : nat) (dirs : list name),
    walk_dirs s root = Ok dirs -> NoDup dirs /\ length dirs <= S (length (objs s)).
Proof. intros s root dirs. exact (visit_bounded s _ _ _ root dirs). Qed.
Print Assumptions C04_prefetch_walk_bounded.

Theorem C04_assignids_bounded :
  forall (s : st) (root : nat) (ids : list name),
    assign_ids s root = Ok ids -> NoDup ids /\ length ids <= S (length (objs s)).
Proof. intros s root ids. exact (visit_bounded s _ _ _ root ids). Qed.
Print Assumptions C04_assignids_bounded.

(* Memory store end to end: initFields, root lookup, assignIDs and the directory walk on EVERY entry list. *)
Theorem C04_memory_store_total :
  forall es : list entry, tree_run es <> Panic /\ tree_run es <> OutOfFuel.
Proof. exact tree_run_total. Qed.
Print Assumptions C04_memory_store_total.

(* db store: initNodes on EVERY entry list (name resolution getIDByName and getOrCreateDir recurse on a strictly shorter
   path: fuel = longest name/linkname + 2; hardlinks to anything, directory overwrite, chunk without file) returns a
   node table or an error. *)
Theorem C04_db_init_total :
  forall es : list entry, db_init es <> Panic /\ db_init es <> OutOfFuel.
Proof. exact db_init_total. Qed.
Print Assumptions C04_db_init_total.

(* db store end to end: initNodes, then the directory walk over the child graph it leaves (cyclic when a hardlink names an
   ancestor directory), each directory id once. *)
Theorem C04_db_store_total :
  forall es : list entry, db_run es <> Panic /\ db_run es <> OutOfFuel.
Proof. exact db_run_total. Qed.
Print Assumptions C04_db_store_total.

(* The TOC as encoding/json delivers it - a decode error, a nil TOC (the text "null"), an entry list with nil entries
   ("entries":[null]) or any entry list - through parseTOC/initFields/assignIDs/walk: a result or an error. *)
Theorem C04_toc_json_total :
  forall d : jdec, json_run d <> Panic /\ json_run d <> OutOfFuel.
Proof. exact json_run_total. Qed.
Print Assumptions C04_toc_json_total.

(* Capacity hint of a file's chunk table in initFields, in int64 arithmetic: for every Size and ChunkSize (also
   Size = MaxInt64 with ChunkSize = 1) the capacity handed to make() is within [1, number of TOC entries]. *)
Theorem C04_chunk_table_cap_total :
  forall max_cap size cs nentries : Z,
    in64 size -> in64 cs -> (1 <= nentries <= max_cap)%Z -> (max_cap < two63)%Z ->
    chunk_table_cap max_cap size cs nentries <> Panic /\ chunk_table_cap max_cap size cs nentries <> OutOfFuel.
Proof. exact chunk_table_cap_total. Qed.
Print Assumptions C04_chunk_table_cap_total.

(* sort.Search as implemented (explicit loop, fuel n+1) with a predicate that does not panic on [0,n): ends, answers in [0,n]. *)
Theorem C04_sort_search_total :
  forall (f : Z -> option bool) (n : Z),
    (0 <= n)%Z -> (forall h, (0 <= h < n)%Z -> f h <> None) ->
    exists r, sort_search n f = Ok r /\ (0 <= r <= n)%Z.
Proof. intros f n. exact (sort_search_spec f n). Qed.
Print Assumptions C04_sort_search_total.

(* ChunkEntryForOffset of both stores on EVERY chunk table (unsorted, overlapping, duplicated, any int64 numbers) and every
   offset: the predicate indexes only inside the table, the result index is used only when < len. *)
Theorem C04_chunk_lookup_total :
  forall (first : chunk) (ents : list chunk) (off : Z),
    (esgz_chunk_entry first ents off <> Panic /\ esgz_chunk_entry first ents off <> OutOfFuel)
    /\ (db_chunk_entry ents off <> Panic /\ db_chunk_entry ents off <> OutOfFuel).
Proof. intros first ents off. split; [exact (esgz_chunk_entry_total first ents off)|exact (db_chunk_entry_total ents off)]. Qed.
Print Assumptions C04_chunk_lookup_total.

(* The entry selection of fileReader.ReadAt (estargz: at least one entry, as getChunks guarantees; db: any table, also empty)
   for every size and offset: ents[i] and ents[i-1] are always in range (no index -1 after sort.Search). *)
Theorem C04_filereader_select_total :
  forall (size : Z) (ents : list chunk) (off : Z),
    (ents <> [] -> esgz_read_select size ents off <> Panic /\ esgz_read_select size ents off <> OutOfFuel)
    /\ (db_read_select size ents off <> Panic /\ db_read_select size ents off <> OutOfFuel).
Proof. intros size ents off. split; [exact (esgz_read_select_total size ents off)|exact (db_read_select_total size ents off)]. Qed.
Print Assumptions C04_filereader_select_total.

(* file.ReadAt never loops forever: for every chunk lookup function (any int64 pairs: gaps, overlaps, empty, negative,
   unsorted, wrapping chunks), every cache behaviour, every payload read result and verification result, every offset
   and length, the loop ends within len(p)+1 iterations. *)
Theorem C04_read_assemble_no_hang :
  forall (lk : Z -> option (Z * Z)) (orc : Z -> it_oracle) (max_alloc offset len : Z),
    (forall off co cs, lk off = Some (co, cs) -> in64 co /\ in64 cs) ->
    (forall nr n, it_read (orc nr) = Some n -> (0 <= n)%Z) ->
    read_at lk orc max_alloc offset len <> OutOfFuel.
Proof. exact read_at_no_hang. Qed.
Print Assumptions C04_read_assemble_no_hang.

(* FULL STATEMENT (false of the code, see _refuted):
     forall lk orc max_alloc offset len, <int64 lookup> -> <non-negative read counts> ->
       read_at lk orc max_alloc offset len <> Panic /\ read_at lk orc max_alloc offset len <> OutOfFuel.
   Partial: no panic provided every chunk size the store answers with can be allocated ([max_alloc] = the largest
   buffer bytes.Buffer.Grow obtains). All slice expressions (p[nr:nr+expected], p[nr:nr+chunkSize],
   ip[lower:chunkSize-upper]) are in range for every chunk table. *)
Theorem C04_read_assemble_total_partial :
  forall (lk : Z -> option (Z * Z)) (orc : Z -> it_oracle) (max_alloc offset len : Z),
    (forall off co cs, lk off = Some (co, cs) -> in64 co /\ in64 cs) ->
    (forall nr n, it_read (orc nr) = Some n -> (0 <= n)%Z) ->
    (forall off co cs, lk off = Some (co, cs) -> (cs <= max_alloc)%Z) ->
    read_at lk orc max_alloc offset len <> Panic /\ read_at lk orc max_alloc offset len <> OutOfFuel.
Proof.
  intros lk orc max_alloc offset len H1 H2 H3. split.
  - exact (read_at_no_panic lk orc max_alloc offset len H1 H2 H3).
  - exact (read_at_no_hang lk orc max_alloc offset len H1 H2).
Qed.
Print Assumptions C04_read_assemble_total_partial.

(* The excluded class is real: a TOC announcing a 2^62-byte chunk, read at an unaligned offset, makes ReadAt allocate the
   chunk-sized temporary buffer: panic (bytes.Buffer: too large) or fatal out-of-memory. Known finding C04/F27. *)
Theorem C04_read_assemble_total_refuted :
  exists lk orc max_alloc offset len,
    (forall off co cs, lk off = Some (co, cs) -> in64 co /\ in64 cs) /\
    (forall nr n, it_read (orc nr) = Some n -> (0 <= n)%Z) /\
    read_at lk orc max_alloc offset len = Panic.
Proof.
  exists (fun _ => Some (0, 4611686018427387904)%Z), (fun _ => mkIt false (Some 4%Z) true), 2147483648%Z, 1%Z, 4%Z.
  split; [|split].
  - intros off co cs H. inversion H; subst. unfold in64, two63. split; split; discriminate || reflexivity.
  - intros nr n H. inversion H; subst. discriminate.
  - exact read_at_huge_chunk_panics.
Qed.
Print Assumptions C04_read_assemble_total_refuted.

(* ---- non-vacuity ---- *)

(* a well-formed eStargz footer extra field is accepted (offset 0x4d2), the F1 input (claimed length 22, empty subfield)
   and the F3 input (no extra field) are errors, a 39-byte zstd:chunked footer (F2) is an error *)
Example C04_footer_nonvacuous :
  parse_footer DGzip (repeat 0%N 51)
    (GzExtra [83; 71; 22; 0; 48; 48; 48; 48; 48; 48; 48; 48; 48; 48; 48; 48; 48; 52; 100; 50; 83; 84; 65; 82; 71; 90]%N)
    = Ok (1234, 1234, 0)%Z
  /\ parse_footer DGzip (repeat 0%N 51) (GzExtra [83; 71; 22; 0]%N) = Err
  /\ parse_footer DExt (repeat 0%N 46) (GzExtra []) = Err
  /\ parse_footer DZstd (repeat 0%N 39) GzErr = Err.
Proof. vm_compute. repeat split. Qed.

(* a TOC offset beyond the blob (negative TOC size) and a negative TOC offset end in an error; a sane footer opens *)
Example C04_open_nonvacuous :
  let ex := GzExtra [83; 71; 22; 0; 55; 102; 102; 102; 102; 102; 102; 102; 102; 102; 102; 102; 102; 102; 102; 102; 83; 84; 65; 82; 71; 90]%N in
  let ok := GzExtra [83; 71; 22; 0; 48; 48; 48; 48; 48; 48; 48; 48; 48; 48; 48; 48; 48; 48; 48; 48; 83; 84; 65; 82; 71; 90]%N in
  open_select 60 false 0 (repeat 0%N 51) (fun _ => ex) (fun _ => true) = Err
  /\ open_select 60 false 0 (repeat 0%N 51) (fun _ => ok) (fun _ => true) = Ok 0%nat.
Proof. vm_compute. split; reflexivity. Qed.

(* hardlink cycle a -> b -> a: an error (C04-fix-4); a hardlink to the parent directory is accepted: the directory graph
   is cyclic (d -> l = d), 2 ids (root, d), the walk lists d under the root and l under d and ends;
   a regular file whose child is a hardlink back to it: 2 ids, walk ends *)
Example C04_tree_nonvacuous :
  tree_run [mkEntry [0] THardlink [1]; mkEntry [1] THardlink [0]] = Err
  /\ tree_run [mkEntry [0] TDir []; mkEntry [0; 1] THardlink [0]] = Ok (2, [([1], 0); ([0], 0)])
  /\ tree_run [mkEntry [0] TReg []; mkEntry [0; 1] THardlink [0]] = Ok (2, [([0], 1)]).
Proof. vm_compute. repeat split. Qed.

(* a gap before the found chunk (F7) is an error; a tiling table is read completely *)
Example C04_read_nonvacuous :
  read_run [(0, 10); (20, 10)]%Z 5 10 30 [] = Err
  /\ read_run [(0, 10); (10, 10); (20, 10)]%Z 3 20 30 [false; true; false] = Ok 20%Z.
Proof. vm_compute. split; reflexivity. Qed.

(* db store: a hardlink to the parent directory is accepted, the graph is cyclic (d -> l = d), 2 nodes, the walk ends;
   a chunk before any file and a dangling hardlink are errors *)
Example C04_db_nonvacuous :
  db_run [mkEntry [0] TDir []; mkEntry [0; 1] THardlink [0]] = Ok (2, [([1], 0); ([0], 0)])
  /\ db_run [mkEntry [0] TChunk []] = Err
  /\ db_run [mkEntry [0] THardlink [5]] = Err.
Proof. vm_compute. repeat split. Qed.

(* chunk selection: first chunk offset non-zero is an error, not index -1; a tiling table selects the containing chunk *)
Example C04_chunk_nonvacuous :
  esgz_read_select 50 [(10, 10); (20, 10)]%Z 5 = Err
  /\ db_read_select 50 [(10, 10); (20, 10)]%Z 5 = Err
  /\ esgz_read_select 50 [(0, 10); (10, 10); (20, 10)]%Z 15 = Ok 1%Z
  /\ db_chunk_entry [(0, 10); (10, 10); (20, 10)]%Z 15 = Ok (Some (10, 10)%Z).
Proof. vm_compute. repeat split. Qed.

(* nil TOC and nil entries are errors; the capacity arithmetic before C04-fix-16 (Size/ChunkSize + 1) wrapped to a negative
   capacity for Size = MaxInt64, the repaired one gives 1 *)
Example C04_json_nonvacuous :
  json_run JNull = Err
  /\ json_run (JToc [None]) = Err
  /\ json_run (JToc [Some (mkEntry [0] TReg [])]) = Ok (2, [([0], 1)])
  /\ chunk_table_cap_before_fix16 1000000 9223372036854775807 1 1 = Panic
  /\ chunk_table_cap 1000000 9223372036854775807 1 1 = Ok 1%Z.
Proof. vm_compute. repeat split. Qed.
