(* C09 — After a crash at any point the snapshotter restarts consistent and re-mounted.
   Statements only; every proof is [exact <lemma of Proofs/SnapCrash.v>].
   A crash image is the durable part of the state (metadata as of the last committed transaction, entries of
   snapshots/) at a crash-point marker: [nth_error (crash_points order s o) k = Some (code, img)] for a
   reachable [s = exec (init a) os], the interrupted call [o], any processing order [order] of its directory
   cleanups and any marker index [k]. The restart theorems hold for EVERY image, reachable or not. *)
From Coq Require Import List Arith Bool.
From SV Require Import Model.Snap Model.SnapCrash Proofs.SnapBase Proofs.SnapPrim Proofs.SnapInv Proofs.Snap Proofs.SnapCrash Proofs.SnapRestart.
Import ListNotations.

(* Restart fails exactly when restore is enabled, invalid mounts are not allowed, and some snapshot recorded
   with the remote label cannot be mounted ([mbad] = ids whose backend Mount fails); with NoRestore or
   allow_invalid_mounts_on_restart it always succeeds. *)
Theorem C09_restart_outcome :
  forall nr allow mbad img,
    snd (restart nr allow mbad img) = false <->
    nr = false /\ allow = false /\
    exists n i, In (n, i) (meta img) /\ l_remote (i_labels i) = true /\ In (i_id i) mbad.
Proof. exact restart_outcome. Qed.
Print Assumptions C09_restart_outcome.

(* After a successful restart: metadata is untouched; the backend mount table holds exactly the snapshots
   recorded with the remote label whose Mount succeeded, each at its own id with the labels stored in
   metadata (nothing at all with NoRestore); directories are those of the image plus the recreated directories
   of the remote snapshots — no directory of an ordinary snapshot is touched, none disappears. *)
Theorem C09_restart_state :
  forall nr allow mbad img s',
    restart nr allow mbad img = (s', true) ->
    meta s' = meta img /\ seq s' = seq img /\ closed s' = false /\
    (forall id lb, In (id, lb) (mounts s') <->
       nr = false /\ exists n i, In (n, i) (meta img) /\ l_remote (i_labels i) = true /\
                                 id = i_id i /\ lb = i_labels i /\ ~ In id mbad) /\
    (forall d, In d (dirs s') <->
       In d (dirs img) \/
       (nr = false /\ exists n i, In (n, i) (meta img) /\ l_remote (i_labels i) = true /\ d = DId (i_id i))).
Proof. exact restart_state. Qed.
Print Assumptions C09_restart_state.

(* Every snapshot acknowledged before the interrupted call, other than the ones that call names (its key, its
   target / commit name), is in the metadata of every crash image of that call, unchanged (same id, kind,
   parent, labels) — hence, by C09_restart_state, after the restart as well. *)
Theorem C09_acknowledged_survive :
  forall a os o order k code img, let s := exec (init a) os in
    nth_error (crash_points order s o) k = Some (code, img) ->
    forall n i, lookup (meta s) n = Some i -> ~ touches o n -> lookup (meta img) n = Some i.
Proof. intros a os o order k code img s. exact (survive_nth order s o k code img). Qed.
Print Assumptions C09_acknowledged_survive.

(* ... and its directory is in every crash image too: at every crash point of every call (other than Close,
   which deliberately removes the directories of remote snapshots; restart recreates those, C09_restart_state),
   every snapshot in the image's metadata has its directory on disk. *)
Theorem C09_live_directories_survive :
  forall a os o order k code img, let s := exec (init a) os in
    closed s = false ->
    nth_error (crash_points order s o) k = Some (code, img) ->
    forall n i, lookup (meta img) n = Some i -> (is_close o = true -> l_remote (i_labels i) = false) ->
      In (DId (i_id i)) (dirs img).
Proof. exact live_dirs_survive_nth. Qed.
Print Assumptions C09_live_directories_survive.

(* One cleanup pass reclaims everything half-made — at full strength since fix C09-fix-1 (getCleanupDirectories
   tolerates the NotFound of a database in which no snapshot was ever committed; before the fix the statement was
   refuted by a crash inside the very first createSnapshot, finding F61): for EVERY image, the Cleanup after a
   successful restart succeeds and leaves in snapshots/ only directories of snapshots in metadata. *)
Theorem C09_one_cleanup_suffices :
  forall nr allow mbad img s' ubad,
    restart nr allow mbad img = (s', true) ->
    snd (step s' (Cleanup ubad)) = ROk /\
    forall d, In d (dirs (fst (step s' (Cleanup ubad)))) ->
      exists n i, In (n, i) (meta (fst (step s' (Cleanup ubad)))) /\ d = DId (i_id i).
Proof. exact one_cleanup_suffices. Qed.
Print Assumptions C09_one_cleanup_suffices.

(* ... and for the crash images of reachable states it is exact: after restart + one Cleanup the metadata is that
   of the image, every directory belongs to a snapshot and every snapshot has its directory (with NoRestore after
   an interrupted Close the deliberately removed directories of remote snapshots are not recreated: excluded). *)
Theorem C09_one_cleanup_exact :
  forall a os o order k code img nr allow mbad s' ubad, let s := exec (init a) os in
    closed s = false ->
    nth_error (crash_points order s o) k = Some (code, img) ->
    restart nr allow mbad img = (s', true) ->
    (nr = false \/ is_close o = false) ->
    let s2 := fst (step s' (Cleanup ubad)) in
    meta s2 = meta img /\
    (forall d, In d (dirs s2) -> exists n i, In (n, i) (meta s2) /\ d = DId (i_id i)) /\
    (forall n i, lookup (meta s2) n = Some i -> In (DId (i_id i)) (dirs s2)).
Proof. exact one_cleanup_exact. Qed.
Print Assumptions C09_one_cleanup_exact.

(* Witness that the formerly refuted case is now handled: crash of the very first Prepare right after its temp
   directory was made, restart, Cleanup: ROk and snapshots/ is empty. *)
Example C09_first_create_crash_reclaimed :
  exists img, nth_error (crash_points [] (init false) (Prepare 0 None no_labels true [])) 0 = Some (1, img) /\
    dirs img = [DTemp 0] /\
    snd (step (fst (restart false false [] img)) (Cleanup [])) = ROk /\
    dirs (fst (step (fst (restart false false [] img)) (Cleanup []))) = [].
Proof. eexists. vm_compute. repeat split. Qed.

(* Restored mounts are unique: after the restart of any crash image of a reachable state (whatever the result),
   no mountpoint is registered twice — together with C09_restart_state: every recorded remote snapshot whose Mount
   succeeded is mounted EXACTLY once. *)
Theorem C09_restored_mounts_unique :
  forall a os o order k code img nr allow mbad s' ok,
    nth_error (crash_points order (exec (init a) os) o) k = Some (code, img) ->
    restart nr allow mbad img = (s', ok) ->
    NoDup (map fst (mounts s')) /\ forall id, mount_count s' id <= 1.
Proof. exact crash_restart_unique. Qed.
Print Assumptions C09_restored_mounts_unique.

(* "Usable or removable": in the restarted snapshotter every snapshot without children can be removed (the call
   returns without error and the name is gone), under any Unmount failures ... *)
Theorem C09_restarted_snapshots_removable :
  forall a os o order k code img nr allow mbad s' n i ubad,
    nth_error (crash_points order (exec (init a) os) o) k = Some (code, img) ->
    restart nr allow mbad img = (s', true) ->
    lookup (meta s') n = Some i -> has_child (meta s') n = false ->
    snd (step s' (Remove n ubad)) = ROk /\ lookup (meta (fst (step s' (Remove n ubad)))) n = None.
Proof. exact restarted_removable. Qed.
Print Assumptions C09_restarted_snapshots_removable.

(* ... and, once the one Cleanup has run, every committed snapshot can be used as a parent: a Prepare of a fresh key
   on top of it returns mounts, or Unavailable when a connectivity Check of its chain fails — never another error
   (before the Cleanup the first Prepare may collide once with the directory an interrupted createSnapshot renamed
   into place; the model and the harness cover that case, corpus "crash between rename and commit"). *)
Theorem C09_restarted_committed_usable_as_parent :
  forall a os o order k code img nr allow mbad s' ubad key n i l cbad, let s := exec (init a) os in
    closed s = false ->
    nth_error (crash_points order s o) k = Some (code, img) ->
    restart nr allow mbad img = (s', true) ->
    (nr = false \/ is_close o = false) ->
    let s2 := fst (step s' (Cleanup ubad)) in
    lookup (meta s2) n = Some i -> i_kind i = KCommitted -> lookup (meta s2) key = None -> l_target l = None ->
    (exists m, snd (step s2 (Prepare key (Some n) l true cbad)) = RMounts m) \/
    snd (step s2 (Prepare key (Some n) l true cbad)) = RErr EUnavail.
Proof. exact restarted_usable. Qed.
Print Assumptions C09_restarted_committed_usable_as_parent.

(* Non-vacuity: remote chain k1 <- k2; crash of a third Prepare-with-target right after its backend Mount, before
   the internal commit (marker 5): the image holds the new active snapshot without remote mark; a strict restart
   re-mounts exactly layers 1 and 2 with their stored labels and fails iff one of them cannot be mounted. *)
Example C09_nonvacuous :
  let h := [Prepare 0 None (mkL (Some 1) false 0 0 None) true []; Prepare 0 (Some 1) (mkL (Some 2) false 0 0 None) true []] in
  let s := exec (init false) h in
  let o := Prepare 4 (Some 2) (mkL (Some 5) false 0 0 None) true [] in
  map fst (crash_points [] s o) = [1; 2; 3; 4; 5; 7; 6] /\
  (exists img, nth_error (crash_points [] s o) 4 = Some (5, img) /\
     map fst (mounts (fst (restart false false [] img))) = [2; 1] /\
     snd (restart false false [] img) = true /\
     snd (restart false false [2] img) = false /\
     snd (restart false true [2] img) = true /\
     map fst (mounts (fst (restart false true [2] img))) = [1] /\
     mounts (fst (restart true false [2] img)) = []).
Proof. vm_compute. split; [reflexivity|]. eexists. repeat split. Qed.
