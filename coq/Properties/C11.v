(* C11 — A chunk-cache hit returns exactly the bytes committed under that key.
   Statements only; every proof is [exact <lemma of Proofs/Cache.v>].

   Model: Model/Cache.v (directoryCache = memory LRU + descriptor LRU (both the refcache machine of C10) + wip/final
   files + bufPool; MemoryCache).  A schedule of concurrent callers is an op list over the atomic sub-steps (LRU-lock
   sections incl. their OnEvicted callbacks, single syscalls); the three persist sub-steps PWrite/PRename/PDone of a
   memory-path Commit may occur anywhere after it (SyncAdd only restricts where), the three lookups of a Get may be
   interleaved with anything (GetMem/GetFd/GetOpen), which pooled buffer sync.Pool hands out is chosen by the
   environment, LRU capacities are arbitrary.  [committed s k v] = some writer of key k executed Commit and v is the
   concatenation of all its Writes.

   Protocol assumed of one writer / reader (what cache.Writer documents: "Commit() must be called after data is fully written
   to Write(). To abort the written data, Abort() must be called"): Write* ; (Commit | Abort) ; Close, no use of a reader after
   its Close.  "Every interleaving of Add/Write/Commit/Abort/Close" = every interleaving of such sequences of different
   writers.  An op outside it (Commit;Abort, Commit;Commit, Abort;Commit, Commit;Write, Commit after Close on one writer) is a
   no-op of the model, i.e. such histories are identified with the history without that op; the implementation does NOT
   tolerate the first four on a memory-layer writer (putBuffer resets / Write extends the buffer already published in the
   LRU: the next Get hits with "" or with extra bytes - reproduced by the harness probe, see props.d/C11.py), so the
   theorems below say nothing about callers that issue them.  No caller in /repo does: each writer is local to one function
   call that ends in "Abort(); return" or "return Commit()" plus a deferred Close (fs/reader/reader.go cacheWithReader,
   prefetchEntireFileSequential, prefetchEntireFile, cacheData; fs/remote/blob.go fetchRange; the persist closure of
   cache.go itself). *)
From Coq Require Import List Arith NArith ZArith Bool.
From SV Require Import Model.Cache Proofs.Cache.
Import ListNotations.

(* hit_is_committed.  For every configuration and every schedule os1: a reader r that exists after os1 (created by a
   lookup that hit) keeps, through every continuation os2, the key and the value v = r_val fixed at its creation; as long
   as it has not been closed, v was committed under that key by some writer (so it is not a prefix, not another key's
   bytes, not data of an aborted or still-open writer) and EVERY ReadAt off n returns exactly slice off n v -
   whatever evictions, recyclings, duplicate adds, renames, aborts, other readers and writers happen in os2. *)
Theorem C11_hit_is_committed :
  forall (dcap fcap : nat) (os1 os2 : list op) (r : nat) (rd : reader),
    let s1 := exec (init dcap fcap) os1 in
    let s2 := exec s1 os2 in
    nth_error (readers s1) r = Some rd ->
    (exists rd2, nth_error (readers s2) r = Some rd2 /\ r_key rd2 = r_key rd /\ r_val rd2 = r_val rd) /\
    (forall rd2, nth_error (readers s2) r = Some rd2 -> r_open rd2 = true ->
       committed s1 (r_key rd) (r_val rd) /\ forall off n, read s2 r off n = OData (slice off n (r_val rd))).
Proof. exact hit_fixed. Qed.
Print Assumptions C11_hit_is_committed.

(* Every Get (in any state, reachable or not) either misses and changes nothing, or hits and creates exactly one new
   open reader for the requested key - the readers the theorem above speaks about are exactly the hits. *)
Theorem C11_hit_creates_reader_of_key :
  forall (s : st) (k : nat) (d : bool),
    match snd (step s (Get k d)) with
    | OHit => exists rd, readers (fst (step s (Get k d))) = readers s ++ [rd] /\ r_key rd = k /\ r_open rd = true
    | OMiss => fst (step s (Get k d)) = s
    | _ => False
    end.
Proof. exact get_out. Qed.
Print Assumptions C11_hit_creates_reader_of_key.

(* The same for the three lookups of one Get taken as separate schedule steps (memory LRU, descriptor LRU, open): each
   either misses and changes nothing or creates exactly one open reader of the requested key - so C11_hit_is_committed
   covers a Get that is overtaken by commits, evictions, Close, ... between its lookups. *)
Theorem C11_lookup_steps_hit_creates_reader_of_key :
  forall (s : st) (k : nat) (d : bool),
    lookup_out s k (step s (GetMem k)) /\ lookup_out s k (step s (GetFd k)) /\ lookup_out s k (step s (GetOpen k d)).
Proof. exact lookup_steps_out. Qed.
Print Assumptions C11_lookup_steps_hit_creates_reader_of_key.

(* never a buffer that is being recycled / a descriptor that is being closed: while a reader is open, the bytes.Buffer
   it aliases still holds its value, is not in the pool and belongs to no open writer; its *os.File is open. *)
Theorem C11_no_recycle_under_reader :
  forall (dcap fcap : nat) (os : list op) (r : nat) (rd : reader),
    let s := exec (init dcap fcap) os in
    nth_error (readers s) r = Some rd -> r_open rd = true ->
    match r_kind rd with
    | RBuf b len h =>
        nth_error (bufs s) b = Some (r_val rd) /\ ~ In b (pool s) /\
        (forall w wr, nth_error (writers s) w = Some wr -> w_status wr = WOpen -> w_buf wr <> Some b)
    | RFd f _ | ROwn f _ => fd_content s f = Some (r_val rd)
    end.
Proof. exact no_recycle_under_reader. Qed.
Print Assumptions C11_no_recycle_under_reader.

(* the same for a pending (synchronous or background) persist step: the cached buffer it is about to write, or has
   written, still holds a value committed under the writer's key, is not pooled and not being written. *)
Theorem C11_no_recycle_under_persist :
  forall (dcap fcap : nat) (os : list op) (w : nat) (wr : writer) (stg h i : nat),
    let s := exec (init dcap fcap) os in
    nth_error (writers s) w = Some wr -> w_ps wr = PStage stg h i ->
    exists b, nth_error (dval s) i = Some b /\ committed s (w_key wr) (cached_bytes s i) /\ ~ In b (pool s) /\
      (forall w' wr', nth_error (writers s) w' = Some wr' -> w_status wr' = WOpen -> w_buf wr' <> Some b).
Proof. exact no_recycle_under_persist. Qed.
Print Assumptions C11_no_recycle_under_persist.

(* the file linked at the final path of a key is at every moment one complete committed value of that key
   (never a prefix: the wip file is renamed only after the full write; never another key's bytes). *)
Theorem C11_stored_file_is_committed :
  forall (dcap fcap : nat) (os : list op) (k : nat),
    let s := exec (init dcap fcap) os in
    match do_peek s k with
    | OData v => committed s k v
    | OMiss => True
    | _ => False
    end.
Proof. exact stored_is_committed. Qed.
Print Assumptions C11_stored_file_is_committed.

(* what Add hands out: the pool holds only empty buffers, each at most once. *)
Theorem C11_pool_clean :
  forall (dcap fcap : nat) (os : list op),
    let s := exec (init dcap fcap) os in
    NoDup (pool s) /\ forall b, In b (pool s) -> nth_error (bufs s) b = Some [].
Proof. exact pool_clean. Qed.
Print Assumptions C11_pool_clean.

(* The history variable behind [committed]: a writer is created by Add with an empty accumulator and its own key; afterwards
   the key never changes and the accumulator changes only by a Write on that very writer while it is still open, which
   appends exactly the written bytes (in any state, reachable or not). So the value a committed writer stands for is
   the concatenation of all its Writes, and nothing written after Commit/Abort counts. *)
Theorem C11_committed_value_is_concatenation_of_writes :
  forall (s : st) (o : op) (w : nat) (wr' : writer),
    nth_error (writers (fst (step s o))) w = Some wr' ->
    match nth_error (writers s) w with
    | Some wr => w_key wr' = w_key wr /\
                 (w_acc wr' = w_acc wr \/
                  exists bs, o = Write w bs /\ w_status wr = WOpen /\ w_acc wr' = w_acc wr ++ bs)
    | None => w_acc wr' = [] /\ w_status wr' = WOpen /\ exists k d p, o = Add k d p /\ w_key wr' = k
    end.
Proof. exact acc_is_written. Qed.
Print Assumptions C11_committed_value_is_concatenation_of_writes.

(* cache.Close() (directoryCache): in every state reached after a CloseCache, whatever happened before (s0 arbitrary) and
   after it, Get misses and Add fails without changing anything, and nothing is linked at any final path any more
   (a persist step or direct Commit that comes after Close does not rename).  Readers opened BEFORE the Close are covered
   by C11_hit_is_committed (its os2 may contain CloseCache): they keep reading their value from the unlinked inode / buffer. *)
Theorem C11_closed_cache_never_hits :
  forall (s0 : st) (os : list op) (k : nat) (d : bool) (p : option nat),
    let s := exec s0 (CloseCache :: os) in
    step s (Get k d) = (s, OMiss) /\ step s (Add k d p) = (s, OErr) /\ do_peek s k = OMiss
    /\ snd (get_open s k d) = OMiss.
Proof. exact after_close. Qed.
Print Assumptions C11_closed_cache_never_hits.

(* MemoryCache: every open reader reads exactly the value a writer committed under its key. *)
Theorem C11_memcache_hit_is_committed :
  forall (os : list op) (r : nat) (rd : mreader),
    let s := mexec minit os in
    nth_error (m_rs s) r = Some rd -> mr_open rd = true ->
    mcommitted s (mr_key rd) (mr_val rd) /\
    forall off n, snd (mstep s (ReadAt r off n)) = OData (slice off n (mr_val rd)).
Proof. exact mem_hit_is_committed. Qed.
Print Assumptions C11_memcache_hit_is_committed.

(* Non-vacuity 1: MaxLRUCacheEntry = 1, background persist of key 0 still pending, a reader holds key 0's buffer, key 1 is
   committed and evicts key 0 from the LRU; a third writer (key 2) cannot get buffer 0 (not pooled); the reader still
   reads [1;2;3]; after the reader and the persist step let go, buffer 0 is recycled and handed to the next Add. *)
Example C11_nonvacuous_evicted_but_held :
  let os := [Add 0 false None; Write 0 [1;2;3]%N; Commit 0 true; Get 0 false;
             Add 1 false None; Write 1 [9]%N; Commit 1 true; Add 2 false (Some 0)] in
  let s := exec (init 1 1) os in
  (exists rd, nth_error (readers s) 0 = Some rd /\ r_open rd = true /\ r_val rd = [1;2;3]%N /\ r_kind rd = RBuf 0 3 1)
  /\ R.lru_find (R.lru (dc s)) 0 = None
  /\ read s 0 1 5 = OData [2;3]%N
  /\ pool s = []
  /\ snd (step s (Get 0 false)) = OMiss
  /\ pool (exec s [CloseR 0; PWrite 0; PRename 0 true; PDone 0]) = [0]
  /\ snd (step (exec s [CloseR 0; PWrite 0; PRename 0 true; PDone 0]) (Get 0 false)) = OHit
  /\ snd (step (exec s [CloseR 0; PWrite 0; PRename 0 true; PDone 0]) (Add 3 false (Some 0))) = OOk true.
Proof. vm_compute. repeat split; try reflexivity. eexists. repeat split; reflexivity. Qed.

(* Non-vacuity 2: duplicate adds of one key (memory + direct), zero-length value, abort: the hits are the committed
   values only; the descriptor path is used after the memory entry is gone. *)
Example C11_nonvacuous_duplicates :
  let os := [Add 5 false None; Add 5 true None; Add 5 false None; Write 1 [7;7]%N; Write 2 [8]%N; Abort 2;
             Commit 0 true; PWrite 0; PRename 0 true; PDone 0; Get 5 false; Commit 1 true; Get 5 true; Peek 5] in
  run (init 2 1) os = [OOk true; OOk true; OOk true; ONone; ONone; ONone; ONone; ONone; ONone; ONone; OHit; ONone; OHit; OData [7;7]%N]
  /\ read (exec (init 2 1) os) 0 0 4 = OData []
  /\ read (exec (init 2 1) os) 1 0 4 = OData [7;7]%N.
Proof. vm_compute. repeat split; reflexivity. Qed.

(* Non-vacuity 3: a short write during persistence (PFail) leaves nothing at the final path; a lookup whose three probes are
   interleaved with a commit of the same key (GetMem misses, then the value is published and persisted, then GetFd misses,
   GetOpen hits the new file); a MkdirAll failure on a direct Commit publishes nothing; a reader opened before Close keeps
   its value after Close, while new lookups miss. *)
Example C11_nonvacuous_faults_and_close :
  let os := [Add 0 false None; Write 0 [4;5;6]%N; Commit 0 true; PFail 0 2; PDone 0; Peek 0;
             GetMem 1; Add 1 false None; Write 1 [7]%N; Commit 1 true; PWrite 1; PRename 1 true; PDone 1; GetFd 1; GetOpen 1 false;
             Add 2 true None; Write 2 [9]%N; Commit 2 false; Get 2 true;
             CloseCache; ReadAt 0 0 4; Get 1 false; Add 3 false None; Peek 1] in
  run (init 1 1) os =
    [OOk true; ONone; ONone; ONone; ONone; OMiss;
     OMiss; OOk true; ONone; ONone; ONone; ONone; ONone; OMiss; OHit;
     OOk true; ONone; ONone; OMiss;
     ONone; OData [7]%N; OMiss; OErr; OMiss].
Proof. vm_compute. reflexivity. Qed.
