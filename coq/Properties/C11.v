(* C11 - placeholder while the proofs are being written *)
From Coq Require Import List Arith NArith Bool.
From SV Require Import Model.Cache Proofs.Cache.
Import ListNotations.

Theorem C11_placeholder : forall off n, slice off n [] = [].
Proof. exact slice_nil. Qed.
Print Assumptions C11_placeholder.
