(* C16 — Store layers can be acquired, released and re-acquired in any order.
   Statements only; every proof is [exact <lemma of Proofs/Store.v>] (or a vm_compute witness for refutations).
   [step Fixed] / [exec Fixed] is the model of store/manager.go with patches/C16-fix-1.diff (F15) and C16-fix-2.diff (F22)
   applied, which is what /repo's working tree contains and what the correspondence check runs against;
   [Orig] is the model of the code at the pinned commit (see C16_original_code_refuted).
   A history [os] is any list of API calls (Lookup / Info / Use / Release, each with its registry fault script) and of the
   sub-steps of getLayer (LoadRef / Resolve / Probe) and timer expiries of the resolver cache (Expire): every interleaving
   of racing lookups, at the granularity of one resolveLayer call, is such a list. [w] is an arbitrary registry. *)
From Coq Require Import List Arith ZArith Bool.
From SV Require Import Model.Store Proofs.Store Model.StoreFS Proofs.StoreFS Model.StoreRef Proofs.StoreRef.
Import ListNotations.

(* Lookup of a digest that no layer of the image has fails - in every reachable state, whatever the fault script. *)
Theorem C16_lookup_other_digest_fails :
  forall (w : world) (os : list op) (r t : nat) (mf : bool) (fl : list nat),
    ~ image_has_toc w r t ->
    snd (step Fixed w (exec Fixed w init os) (Lookup r t mf fl)) = RFail.
Proof. intros w os r t mf fl H. exact (lookup_other_digest_fails w _ r t mf fl (reach_inv w os) H). Qed.
Print Assumptions C16_lookup_other_digest_fails.

(* Lookup of (r, t) succeeds whenever the image has a layer l with that TOC digest and the registry answers for it now
   (manifest on disk or fetchable, blob of l fetchable), after ANY history of lookups / uses / releases of this or any
   other layer or image, with any faults on other layers, other images and manifests - provided no registry error was
   delivered for this very layer of this image earlier in the history (see the _refuted / _partial pair below). *)
Theorem C16_lookup_history_independent :
  forall (w : world) (os : list op) (r t l : nat) (mf : bool) (fl : list nat),
    In l (image w r) -> toc_of w l = Some t ->
    Forall (no_fault_on r l) os ->
    manifest_available (exec Fixed w init os) r mf -> mem l fl = false ->
    snd (step Fixed w (exec Fixed w init os) (Lookup r t mf fl)) = ROk.
Proof. intros w os r t l mf fl. exact (lookup_history_independent w os r t l mf fl). Qed.
Print Assumptions C16_lookup_history_independent.

(* Full statement of the clause (no hypothesis on earlier faults):
     forall w os r t l mf fl, In l (image w r) -> toc_of w l = Some t ->
       manifest_available (exec Fixed w init os) r mf -> mem l fl = false ->
       snd (step Fixed w (exec Fixed w init os) (Lookup r t mf fl)) = ROk.
   It is false of the code: a registry error while resolving a layer is memoised in resolveLayerCache and later lookups
   of that layer fail although the registry is healthy (known finding F26, sig C16:sticky-resolve-error). *)
Theorem C16_lookup_succeeds_refuted :
  exists (w : world) (os : list op) (r t l : nat) (mf : bool) (fl : list nat),
    In l (image w r) /\ toc_of w l = Some t /\
    manifest_available (exec Fixed w init os) r mf /\ mem l fl = false /\
    snd (step Fixed w (exec Fixed w init os) (Lookup r t mf fl)) = RFail.
Proof.
  exists (mkW [Some 0; Some 1] [[0; 1]]), [Lookup 0 1 false [1]], 0, 1, 1, false, [].
  vm_compute. repeat split; auto.
Qed.
Print Assumptions C16_lookup_succeeds_refuted.

(* ... and it holds in every reachable state in which no error is memoised for that layer (exactly the refuted class). *)
Theorem C16_lookup_succeeds_partial :
  forall (w : world) (os : list op) (r t l : nat) (mf : bool) (fl : list nat),
    In l (image w r) -> toc_of w l = Some t ->
    manifest_available (exec Fixed w init os) r mf -> mem l fl = false ->
    memo_find (memo (exec Fixed w init os)) r l <> Some false ->
    snd (step Fixed w (exec Fixed w init os) (Lookup r t mf fl)) = ROk.
Proof. intros w os r t l mf fl Hl T MA Hf M. exact (lookup_succeeds w _ r t l mf fl (reach_inv w os) Hl T MA Hf M). Qed.
Print Assumptions C16_lookup_succeeds_partial.

(* The use count never goes negative: every tracked count (LayerManager and refPool) is >= 1, an untracked one counts 0. *)
Theorem C16_count_never_negative :
  forall (w : world) (os : list op),
    let s := exec Fixed w init os in
    (forall r t c, In (r, t, c) (counts s) -> (1 <= c)%Z)
    /\ (forall r t, (0 <= uses s r t)%Z)
    /\ (forall r c, In (r, c) (pool s) -> (1 <= c)%Z).
Proof.
  intros w os s. split; [exact (counts_positive w os)|]. split; [exact (uses_nonneg w os)|exact (pool_positive w os)].
Qed.
Print Assumptions C16_count_never_negative.

(* A layer with outstanding uses is never released: whatever the next step is (any op, also a release of this or of
   another layer, also the release of the last use of another layer of the image), a cached layer that still has
   outstanding uses after the step is still cached after it. *)
Theorem C16_no_release_while_used :
  forall (w : world) (os : list op) (o : op) (r t : nat),
    let s := exec Fixed w init os in
    cached s r t = true ->
    (0 < uses (fst (step Fixed w s o)) r t)%Z ->
    cached (fst (step Fixed w s o)) r t = true.
Proof. intros w os o r t s. exact (step_keeps_used w s o r t). Qed.
Print Assumptions C16_no_release_while_used.

(* When the last use of an image is released, its layers (used or only resolved along) and its resolution memo are
   dropped with the counts, and from then on every lookup of a layer of the image succeeds as soon as the registry
   answers - also if errors had been memoised before. *)
Theorem C16_last_release_resets :
  forall (w : world) (os : list op) (r t : nat) (c : Z),
    let s := exec Fixed w init os in
    count_find (counts s) r t = Some c ->
    let s' := fst (step Fixed w s (Release r t)) in
    has_ref_counts s' r = false ->
    has_ref_layers s' r = false /\ has_ref_memo s' r = false
    /\ forall t2 l mf fl, In l (image w r) -> toc_of w l = Some t2 -> manifest_available s' r mf -> mem l fl = false ->
         snd (step Fixed w s' (Lookup r t2 mf fl)) = ROk.
Proof. intros w os r t c. exact (last_release_then_lookup w os r t c). Qed.
Print Assumptions C16_last_release_resets.

(* Lookups racing on one image. (a) getLayer after a cache miss is exactly its sub-steps LoadRef; Resolve per layer; Probe,
   so racing lookups are merges of such lists, which the theorems above already quantify over. (b) Once the Resolve step
   of the wanted layer has run (registry answering, no memoised error), no interleaving of steps of other lookups, of
   uses, of releases on other images, or of cache expiries makes the final Probe miss. *)
Theorem C16_lookup_is_its_substeps :
  forall (v : variant) (w : world) (s s1 : st) (r t : nat) (mf : bool) (fl : list nat),
    cached s r t = false -> loadref w s r mf = Some s1 ->
    let mid := exec v w s (LoadRef r mf :: map (fun l => Resolve r l (mem l fl)) (image w r)) in
    mid = fst (get_layer w s r t mf fl) /\ step v w mid (Probe r t) = get_layer w s r t mf fl.
Proof. intros v w s s1 r t mf fl. exact (lookup_substeps_eq v w s r t mf fl s1). Qed.
Print Assumptions C16_lookup_is_its_substeps.

Theorem C16_racing_lookups :
  forall (w : world) (os : list op) (r l t : nat) (os' : list op),
    let s := exec Fixed w init os in
    In l (image w r) -> toc_of w l = Some t -> memo_find (memo s) r l <> Some false ->
    Forall (not_release_on r) os' ->
    snd (step Fixed w (exec Fixed w (fst (step Fixed w s (Resolve r l false))) os') (Probe r t)) = ROk.
Proof. intros w os r l t os'. exact (resolved_stays_cached w os r l t os'). Qed.
Print Assumptions C16_racing_lookups.

(* The code at the pinned commit (variant Orig) violates the property (F15, F22): after lookup; use; release of the last use
   the layer cannot be looked up again although the registry is healthy and nothing ever failed, the count entry survives
   and a second release drives it to -1, the memo survives, and the layer resolved along (toc 1) is still cached. *)
Theorem C16_original_code_refuted :
  exists (w : world) (os : list op),
    let s := exec Orig w init os in
    Forall (no_fault_on 0 0) os /\ In 0 (image w 0) /\ toc_of w 0 = Some 0
    /\ has_ref_counts s 0 = true /\ uses s 0 0 = 0%Z
    /\ snd (step Orig w s (Lookup 0 0 false [])) = RFail
    /\ has_ref_memo s 0 = true /\ cached s 0 1 = true
    /\ uses (fst (step Orig w s (Release 0 0))) 0 0 = (-1)%Z.
Proof.
  exists (mkW [Some 0; Some 1] [[0; 1]]), [Lookup 0 0 false []; Use 0 0; Release 0 0].
  vm_compute. repeat split; auto.
Qed.
Print Assumptions C16_original_code_refuted.

(* ------------------------------------------------------------------------------------------------------------
   Phase 2.  (b) The finer split of resolveLayer. Before C16-fix-4 a successful resolveLayer recorded its success in a
   deferred, separately locked step after cacheLayer. A release of the last use landing in between (F28, reproduced on
   the real code through the gate hook) dropped the layer and reset the memo, and the late write then marked the dropped
   layer as resolved: with a healthy registry and no fault ever, the layer can never be looked up again. *)
Theorem C16_late_memo_refuted :
  exists (w : world) (r t l : nat),
    In l (image w r) /\ toc_of w l = Some t /\
    let s := memo_late (fst (release Fixed (cache_only w (fst (use init r t)) r l false) r t)) r l true in
    snd (get_layer w s r t false []) = RFail
    /\ snd (get_layer w (fst (get_layer w s r t false [])) r t false []) = RFail
    /\ has_ref_counts s r = false.
Proof. exists (mkW [Some 0] [[0]]), 0, 0, 0. vm_compute. repeat split; auto. Qed.
Print Assumptions C16_late_memo_refuted.

(* With the fix the cached layer and its memo entry are written in one locked section, [resolve1]; the same schedule
   (use; resolve ... release ... ; lookup) then ends in a successful lookup - for every registry, layer and state. *)
Theorem C16_release_during_resolve_harmless :
  forall (w : world) (os : list op) (r t l : nat),
    let s := exec Fixed w init os in
    In l (image w r) -> toc_of w l = Some t -> memo_find (memo s) r l <> Some false ->
    let s' := exec Fixed w s [Resolve r l false; Release r t] in
    memo_find (memo s') r l <> Some false
    /\ snd (step Fixed w s' (Lookup r t false [])) = ROk.
Proof. intros w os r t l. exact (release_during_resolve_harmless w os r t l). Qed.
Print Assumptions C16_release_during_resolve_harmless.

(* ------------------------------------------------------------------------------------------------------------
   Phase 2.  (a) The FUSE handlers of store/fs.go (Model/StoreFS.v). A client operation is a path walk followed by the
   final handler; [fexec v w finit fos] is the state (manager + node tree) after the handler history [fos].
   Every handler step performs at most one manager call, named by [mgr_ops] from the node tree (none when the node is
   served from the tree); its effect on the manager is exactly that call, its errno is [errno_of] of the call's result;
   hence every handler history is the manager history [ftrace] - and every theorem above about [exec Fixed w init os]
   applies to the manager under the handlers. *)
Theorem C16_fs_handlers_refine_manager :
  forall (v : fvariant) (w : world),
    (forall (f : fstate) (o : fop),
        length (mgr_ops f o) <= 1
        /\ mgr (fst (fstep v w f o)) = exec Fixed w (mgr f) (mgr_ops f o)
        /\ snd (fstep v w f o) = errno_of f o (mgr_result w f o))
    /\ (forall fos : list fop, mgr (fexec v w finit fos) = exec Fixed w init (ftrace v w finit fos)).
Proof.
  intros v w. split.
  - intros f o. split; [exact (mgr_ops_short f o)|]. split; [exact (fstep_mgr v w f o)|exact (fstep_errno v w f o)].
  - intros fos. exact (fexec_mgr v w fos finit).
Qed.
Print Assumptions C16_fs_handlers_refine_manager.

(* What a successful diff/blob lookup hands out is a node in the tree; in every reachable state such a node is backed by
   a layer the manager still holds (with C16-fix-3). *)
Theorem C16_fs_node_backed_by_held_layer :
  forall (w : world) (fos : list fop) (r t k p : nat),
    In (r, t, k, p) (fnodes (fexec FSweep w finit fos)) -> k < 2 ->
    cached (mgr (fexec FSweep w finit fos)) r t = true.
Proof. intros w fos r t k p. exact (freach_backed w fos r t k p). Qed.
Print Assumptions C16_fs_node_backed_by_held_layer.

(* store/fs.go before C16-fix-3 (FNoSweep), on top of C16-fix-2: after the last release of the image the sibling's
   diff node is still in the tree although the manager has released that layer (F27). *)
Theorem C16_fs_node_backed_refuted :
  exists (w : world) (fos : list fop) (r t : nat),
    has_f (fexec FNoSweep w finit fos) r t 0 = true /\ cached (mgr (fexec FNoSweep w finit fos)) r t = false.
Proof.
  exists (mkW [Some 0; Some 1] [[0; 1]]),
         [FLookup 0 0 KDiff false []; FLookup 0 1 KDiff false []; FUse 0 0; FRmdir 0 0], 0, 1.
  vm_compute. split; reflexivity.
Qed.
Print Assumptions C16_fs_node_backed_refuted.

Theorem C16_fs_lookup_other_digest_fails :
  forall (w : world) (fos : list fop) (r t : nat) (k : fkind) (mf : bool) (fl : list nat),
    is_layer_kind k -> ~ image_has_toc w r t ->
    snd (fstep FSweep w (fexec FSweep w finit fos) (FLookup r t k mf fl)) = EIO.
Proof. intros w fos r t k mf fl. exact (fs_lookup_other_digest_fails w fos r t k mf fl). Qed.
Print Assumptions C16_fs_lookup_other_digest_fails.

(* Full statement: as below without the last hypothesis; false for the same reason as at the manager level (F26). *)
Theorem C16_fs_lookup_succeeds_refuted :
  exists (w : world) (fos : list fop) (r t l : nat),
    In l (image w r) /\ toc_of w l = Some t /\
    snd (fstep FSweep w (fexec FSweep w finit fos) (FLookup r t KDiff false [])) = EIO.
Proof.
  exists (mkW [Some 0; Some 1] [[0; 1]]), [FLookup 0 1 KDiff false [1]], 0, 1, 1.
  vm_compute. repeat split; auto.
Qed.
Print Assumptions C16_fs_lookup_succeeds_refuted.

Theorem C16_fs_lookup_succeeds_partial :
  forall (w : world) (fos : list fop) (r t l : nat) (k : fkind) (mf : bool) (fl : list nat),
    is_layer_kind k ->
    let f := fexec FSweep w finit fos in
    In l (image w r) -> toc_of w l = Some t ->
    manifest_available (mgr f) r mf -> mem l fl = false ->
    memo_find (memo (mgr f)) r l <> Some false ->
    snd (fstep FSweep w f (FLookup r t k mf fl)) = EOK.
Proof. intros w fos r t l k mf fl. exact (fs_lookup_succeeds w fos r t l k mf fl). Qed.
Print Assumptions C16_fs_lookup_succeeds_partial.

(* The rmdir that releases the last use of an image leaves nothing of the image behind - no layer, memo, count in the
   manager and no directory or file of it in the tree - so the next lookup of any of its layers is a manager lookup
   again, and it succeeds as soon as the registry answers. *)
Theorem C16_fs_last_rmdir_resets :
  forall (w : world) (fos : list fop) (r t : nat) (c : Z),
    let f := fexec FSweep w finit fos in
    count_find (counts (mgr f)) r t = Some c ->
    let f' := fst (fstep FSweep w f (FRmdir r t)) in
    has_ref_counts (mgr f') r = false ->
    has_ref_layers (mgr f') r = false /\ has_ref_memo (mgr f') r = false
    /\ (forall t', has_l f' r t' = false)
    /\ (forall t' k, has_f f' r t' k = false)
    /\ forall t2 l k mf fl, is_layer_kind k -> In l (image w r) -> toc_of w l = Some t2 ->
         manifest_available (mgr f') r mf -> mem l fl = false ->
         mgr_ops f' (FLookup r t2 k mf fl) = [Lookup r t2 mf fl]
         /\ snd (fstep FSweep w f' (FLookup r t2 k mf fl)) = EOK.
Proof. intros w fos r t c. exact (fs_last_rmdir_resets w fos r t c). Qed.
Print Assumptions C16_fs_last_rmdir_resets.

(* Counts are never negative and a layer with outstanding uses is never released, under any handler history. *)
Theorem C16_fs_counts_and_uses :
  forall (v : fvariant) (w : world) (fos : list fop),
    let f := fexec v w finit fos in
    (forall r t c, In (r, t, c) (counts (mgr f)) -> (1 <= c)%Z)
    /\ (forall r t, (0 <= uses (mgr f) r t)%Z)
    /\ (forall o r t, cached (mgr f) r t = true -> (0 < uses (mgr (fst (fstep v w f o))) r t)%Z ->
                      cached (mgr (fst (fstep v w f o))) r t = true).
Proof.
  intros v w fos f. split; [exact (fs_counts_positive v w fos)|]. split; [exact (fs_uses_nonneg v w fos)|].
  intros o r t. exact (fs_keeps_used v w fos o r t).
Qed.
Print Assumptions C16_fs_counts_and_uses.

(* ------------------------------------------------------------------------------------------------------------
   Phase 3. Layer handles (Model/StoreRef.v): the manager model composed with the reference counting of the resolver's
   TTL cache, so that Layer.Done() is in the model. [rexec DupFresh] is the code; its manager component is exactly the
   manager model, for every history. *)
Theorem C16_handle_model_is_manager_model :
  forall (w : world) (os : list op), base (rexec DupFresh w rinit os) = exec Fixed w init os.
Proof. intros w os. exact (rexec_base w os rinit). Qed.
Print Assumptions C16_handle_model_is_manager_model.

(* The manager never gives back a handle it keeps: in every reachable state - any history of lookups, uses, releases,
   sub-steps and TTL expiries of the resolver cache, any faults - every layer in LayerManager.layer is held through an
   outstanding handle on an object that is not closed (so Check / Verify / RootNode / ReadAt on it keep working). *)
Theorem C16_held_layers_stay_open :
  forall (w : world) (os : list op) (r t : nat),
    let s := rexec DupFresh w rinit os in
    cached (base s) r t = true ->
    exists i o, In (r, t, i) (held s) /\ nth_error (objs s) i = Some o /\ ob_closed o = false /\ (1 <= ob_refs o)%Z.
Proof. intros w os r t. exact (held_layers_open w os r t). Qed.
Print Assumptions C16_held_layers_stay_open.

Theorem C16_no_held_layer_closed :
  forall (w : world) (os : list op), closed_held (rexec DupFresh w rinit os) = [].
Proof. exact closed_held_nil. Qed.
Print Assumptions C16_no_held_layer_closed.

(* If resolveLayer gave back the kept handle instead of the duplicate (DupHeld), the clause would fail exactly as in the
   seeded change: B in use, TTL expiry, sibling A released to zero and looked up again -> B, cached and in use, is closed. *)
Theorem C16_done_on_held_handle_refuted :
  exists (w : world) (os : list op) (r t : nat),
    let s := rexec DupHeld w rinit os in
    cached (base s) r t = true /\ uses (base s) r t = 1%Z /\ In (r, t) (closed_held s).
Proof.
  exists (mkW [Some 0; Some 1] [[0; 1]]),
         [Lookup 0 0 false []; Use 0 0; Use 0 1; Expire 0 0; Expire 0 1; Release 0 0; Lookup 0 0 false []], 0, 1.
  vm_compute. repeat split; auto.
Qed.
Print Assumptions C16_done_on_held_handle_refuted.

Example C16_fs_nonvacuous :
  let w := mkW [Some 0; Some 1; None] [[0; 1; 2]] in
  let fos := [FLookup 0 0 KDiff false []; FLookup 0 0 KInfo false []; FLookup 0 1 KBlob false []; FUse 0 0; FUse 0 0;
              FRmdir 0 0; FLookup 0 0 KDiff true [0]] in
  let f := fexec FSweep w finit fos in
  count_find (counts (mgr f)) 0 0 = Some 1%Z /\ has_f f 0 1 1 = true /\ has_f f 0 0 2 = true
  /\ ftrace FSweep w finit fos = [Lookup 0 0 false []; Info 0 0 false; Lookup 0 1 false []; Use 0 0; Use 0 0; Release 0 0]
  /\ has_ref_counts (mgr (fst (fstep FSweep w f (FRmdir 0 0)))) 0 = false
  /\ has_l (fst (fstep FSweep w f (FRmdir 0 0))) 0 1 = false.
Proof. vm_compute. repeat split; auto. Qed.

(* Non-vacuity. The same history on the repaired code: everything of the image is dropped and the lookup succeeds again;
   and a history with faults, shared layers, a release of one layer while another is used. *)
Example C16_nonvacuous_reset :
  let w := mkW [Some 0; Some 1] [[0; 1]] in
  let s := exec Fixed w init [Lookup 0 0 false []; Use 0 0] in
  count_find (counts s) 0 0 = Some 1%Z
  /\ cached s 0 1 = true
  /\ has_ref_counts (fst (step Fixed w s (Release 0 0))) 0 = false
  /\ snd (step Fixed w (fst (step Fixed w s (Release 0 0))) (Lookup 0 0 false [])) = ROk.
Proof. vm_compute. repeat split; auto. Qed.

Example C16_nonvacuous_history :
  let w := mkW [Some 0; Some 1; Some 2; None] [[0; 1; 3]; [1; 2]] in
  let os := [Lookup 0 0 false [1]; Use 0 0; Lookup 1 1 true []; Lookup 1 2 false []; Use 1 1; Use 0 0; Release 0 0;
             Lookup 0 5 false []; Release 1 1; Info 1 2 false] in
  let s := exec Fixed w init os in
  Forall (no_fault_on 0 0) os /\ Forall (not_release_on 2) os
  /\ cached s 0 0 = true /\ uses s 0 0 = 1%Z /\ memo_find (memo s) 0 1 = Some false
  /\ has_ref_layers s 1 = false
  /\ snd (step Fixed w s (Lookup 0 0 true [0])) = ROk
  /\ snd (step Fixed w s (Lookup 1 1 false [])) = ROk.
Proof. vm_compute. repeat split; auto; repeat constructor; try discriminate. Qed.
