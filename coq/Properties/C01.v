(* C01 — Verified layers never return bytes that do not match the TOC-pinned digests.
   Statements only; every proof is [exact <lemma of Proofs/Verify.v>].

   Reading guide. [H] is the hash function (SHA-256 in the implementation; here ANY function, nothing assumed).
   [T] is the table of contents actually parsed for the layer, [D] its digest (TOCDigest()).
   [exec H (init T D) os] is the state after an arbitrary history [os] of ATOMIC sub-steps (lock sections of
   VerifyTOC / readAndCache, on-demand chunk checks, cache commits, evictions, layer-level Verify / SkipVerify):
   "for all os" = for all histories, all interleavings of prefetch with the verification call, all orders of
   verify / skip-verify requests, all bytes the registry / mirror / blob cache may supply (arguments of the ops).
   [good H T k b] = the hash of [b] equals a digest recorded in [T] for the chunk with cache key [k].
   [goodcat H T f b] = [b] is a concatenation of whole chunks of file [f], each hashing to a digest recorded in [T]
   for its key (one chunk for an ordinary cache entry; all chunks of the file for the whole-file entry that the
   passthrough merge writes - for a single-chunk file the two have the same cache key). *)
From Coq Require Import List NArith ZArith Bool.
From SV Require Import Model.Verify Proofs.Verify.
Import ListNotations.

(* Reader level: VerifyTOC d succeeds only if the TOC in use hashes to d; afterwards chunks are verified
   and no prefetch-time verification failure is on record. *)
Theorem C01_verify_pins_toc :
  forall H T D os d, let s := exec H (init T D) os in
    snd (step H s (VerifyTOC d)) = OOk ->
    d = D /\ s_verify (fst (step H s (VerifyTOC d))) = true /\ s_lasterr (fst (step H s (VerifyTOC d))) = false.
Proof. intros H T D os d. exact (mount_pins_toc H T D os d (VerifyTOC d) (or_introl eq_refl)). Qed.
Print Assumptions C01_verify_pins_toc.

(* Layer level (fs/layer Verify, called by Mount), at ANY point of ANY history - also after SkipVerify or an
   earlier Verify on the same cached layer object (holds for the code with patches/C01-fix-1.diff; the code
   before the fix returned nil without looking at d when l.r != nil). *)
Theorem C01_mount_pins_toc :
  forall H T D os d, let s := exec H (init T D) os in
    snd (step H s (LVerify d)) = OOk ->
    d = D /\ s_verify (fst (step H s (LVerify d))) = true /\ s_lasterr (fst (step H s (LVerify d))) = false.
Proof. intros H T D os d. exact (mount_pins_toc H T D os d (LVerify d) (or_intror eq_refl)). Qed.
Print Assumptions C01_mount_pins_toc.

(* toc_digest_covers_parsed_toc: a layer is opened from a TOC stream (decoder = any partial function [dec] of the
   stream; digest = H of the WHOLE stream, as both metadata stores compute it since the repair of C05-F24). If a
   verification with digest d succeeds anywhere in any history, then d is the hash of that whole stream, and the
   chunk tables in use (whose digests every later chunk check uses) are what the decoder made of exactly that stream:
   the TOC used is a function of the hashed bytes. *)
Theorem C01_toc_digest_covers_stream :
  forall H dec stream s0 os d o, (o = VerifyTOC d \/ o = LVerify d) ->
    open_layer H dec stream = Some s0 ->
    snd (step H (exec H s0 os) o) = OOk ->
    d = H stream /\ dec stream = Some (s_toc (exec H s0 os)).
Proof. exact toc_digest_covers_stream. Qed.
Print Assumptions C01_toc_digest_covers_stream.

(* New section readers after the layer was opened (metadata Clone, i.e. VerifiableReader.Cache(WithReader(sr')) as
   layer.backgroundFetch issues it; holds for the code with patches/C01-fix-3.diff - before it the memory store's
   Clone accepted any self-consistent TOC served by sr'): a clone only comes into being if the TOC file it read from
   sr' hashes to the digest of the TOC the layer was opened with; so after a successful verification with d
   anywhere in the history, the clone's tables were decoded from a stream hashing to d too. No injectivity of H is
   assumed for that; the last conjunct says what injectivity on TOC streams would add: the very same tables. *)
Theorem C01_clone_pins_toc :
  forall H dec stream s0 os stream' T',
    open_layer H dec stream = Some s0 ->
    clone_layer H dec (exec H s0 os) stream' = Some T' ->
    H stream' = H stream /\ dec stream' = Some T' /\
    (forall d o, (o = VerifyTOC d \/ o = LVerify d) -> snd (step H (exec H s0 os) o) = OOk -> H stream' = d) /\
    ((forall x y, H x = H y -> dec x = dec y) -> T' = s_toc (exec H s0 os)).
Proof. exact clone_pins_toc. Qed.
Print Assumptions C01_clone_pins_toc.

(* The cache invariant: in every reachable state, unless an unverified (skip-verify mode) on-demand read accepted
   altered bytes [s_tainted] or a prefetch recorded a verification failure [s_lasterr], every chunk that is in the
   cache or held by a not yet committed cache writer hashes to a digest recorded in the TOC for its key. *)
Theorem C01_cache_ok :
  forall H T D os k b, let s := exec H (init T D) os in
    s_tainted s = false -> s_lasterr s = false -> In (k, b) (s_cache s ++ s_pend s) -> goodcat H T (kfile k) b.
Proof. exact cache_ok. Qed.
Print Assumptions C01_cache_ok.

(* In verify mode the recorded-failure flag is necessarily clear, so the invariant needs no second hypothesis. *)
Theorem C01_verified_cache_ok :
  forall H T D os k b, let s := exec H (init T D) os in
    s_verify s = true -> s_tainted s = false -> In (k, b) (s_cache s ++ s_pend s) -> goodcat H T (kfile k) b.
Proof. exact verified_cache_ok. Qed.
Print Assumptions C01_verified_cache_ok.

(* Passthrough (GetPassthroughFd -> prefetchEntireFileSequential / prefetchEntireFile + processBatchChunks), atomic level:
   whatever a merge writer holds at any moment of any interleaving (cached chunks appended unverified, fetched chunks
   appended after verifyOneChunk) is a concatenation of good chunks of its file, under the same two conditions. *)
Theorem C01_merge_ok :
  forall H T D os f b, let s := exec H (init T D) os in
    s_tainted s = false -> s_lasterr s = false -> In (f, b) (s_merge s) -> goodcat H T f b.
Proof. exact merge_ok. Qed.
Print Assumptions C01_merge_ok.

(* Passthrough, API level: on a verifying untainted reader, the whole-file cache entry whose descriptor
   GetPassthroughFd hands to the kernel (any merge buffer size, either code path, any bytes delivered for the chunks
   it has to fetch, whole-file entry already cached or not) consists only of chunks of that file that hash to their
   recorded digests; and whether the call succeeds or fails (a chunk failing verification aborts the merge writer),
   the state after it is again reachable, verifying and untainted - so by C01_verified_cache_ok no entry that is
   not such a concatenation exists afterwards. *)
Theorem C01_passthrough_verified :
  forall H T D os f buf fts, let s := exec H (init T D) os in
    s_verify s = true -> s_tainted s = false ->
    let r := pass_fd H s f buf fts in
    (forall out, snd r = ROk out -> goodcat H T f out)
    /\ s_verify (fst r) = true /\ s_tainted (fst r) = false
    /\ (exists os', fst r = exec H (init T D) (os ++ os')).
Proof. exact passthrough_verified. Qed.
Print Assumptions C01_passthrough_verified.

(* FULL STATEMENT (every order of verify / skip-verify requests reaching one cached layer):
     forall H T D os f off len fs out, let s := exec H (init T D) os in
       s_verify s = true -> snd (read_at H s f off len fs) = ROk out -> pieces_of H T f out.
   It is false of the faithful model and of the code: C01_reads_verified_refuted. What holds: *)

(* A read (OpenFile + ReadAt, any offset/length, any bytes delivered for the chunks it has to fetch) on a verifying
   reader that is not tainted returns, if it succeeds, a concatenation of slices of cache entries / fetched chunks of
   that file each of which is [goodcat] (one chunk, or the merged whole-file entry: only chunks hashing to their
   recorded digests); and whether it succeeds or fails, the state after it is again
   a reachable, verifying, untainted state (so the same holds for every later read: nothing unverified stays behind). *)
Theorem C01_reads_verified_partial :
  forall H T D os f off len fs, let s := exec H (init T D) os in
    s_verify s = true -> s_tainted s = false ->
    let r := read_at H s f off len fs in
    (forall out, snd r = ROk out -> pieces_of H T f out)
    /\ s_verify (fst r) = true /\ s_tainted (fst r) = false
    /\ (exists os', fst r = exec H (init T D) (os ++ os')).
Proof. exact reads_verified_partial. Qed.
Print Assumptions C01_reads_verified_partial.

(* The hypothesis "not tainted" holds for every history in which no skip-verify handle was ever requested
   (neither VerifiableReader.SkipVerify nor layer.SkipVerify): there, a Reader exists only after a successful
   VerifyTOC, and the full statement holds. *)
Theorem C01_reads_verified_no_skip :
  forall H T D os f off len fs out, let s := exec H (init T D) os in
    forallb (fun o => negb (is_skip o)) os = true ->
    snd (read_at H s f off len fs) = ROk out -> pieces_of H T f out.
Proof. exact reads_verified_no_skip. Qed.
Print Assumptions C01_reads_verified_no_skip.

(* The refuted class, on the faithful model (and reproduced on the implementation by the harness corpus, known
   finding C01/F9b): layer.SkipVerify; a read that fetches altered bytes [9;9] (accepted and cached without any
   check); layer.Verify with the right TOC digest succeeds; the next read serves [9;9] from the cache although the
   recorded digest of that chunk is the hash of [1;2]. *)
Theorem C01_reads_verified_refuted :
  exists H T D hs out,
    let s := hexec H (init T D) hs in
    s_verify s = true /\ s_lasterr s = false /\
    snd (read_at H s 1%N 0%Z 2%Z []) = ROk out /\ good H T (1%N, 0%Z, 2%Z) out = false /\ s_tainted s = true.
Proof.
  exists wH, wT, 5%N, [HLSkip; HRead 1%N 0%Z 2%Z [mkFetch [] (MOk 2%Z [9%N; 9%N])]; HLVerify 5%N], [9%N; 9%N].
  vm_compute. repeat split.
Qed.
Print Assumptions C01_reads_verified_refuted.

(* Failure leaves nothing behind: a step that reports an error (failed VerifyTOC / layer Verify, aborted prefetch
   chunk, rejected on-demand chunk) changes neither the cache nor the pending cache writers. *)
Theorem C01_no_unverified_residue :
  forall H s o, snd (step H s o) = OErr ->
    s_cache (fst (step H s o)) = s_cache s /\ s_pend (fst (step H s o)) = s_pend s.
Proof. exact failed_step_no_residue. Qed.
Print Assumptions C01_no_unverified_residue.

(* RW-lock handshake, part 1: after the lock section of VerifyTOC (Decide) lastVerifyErr never changes, so the
   value read inside the lock section is the value at every later point, whatever prefetch goroutines do. *)
Theorem C01_handshake_frozen :
  forall H s o, s_decided s = true -> s_lasterr (fst (step H s o)) = s_lasterr s.
Proof. exact last_err_frozen. Qed.
Print Assumptions C01_handshake_frozen.

(* Part 2: in any interleaving, if altered bytes sit in the cache or in a cache writer about to commit (and no
   unverified read put them there), every verification now or after any continuation of the history fails. *)
Theorem C01_handshake :
  forall H T D os k b os' d o, (o = VerifyTOC d \/ o = LVerify d) ->
    let s := exec H (init T D) os in
    s_tainted s = false -> In (k, b) (s_cache s ++ s_pend s) -> ~ goodcat H T (kfile k) b ->
    snd (step H (exec H s os') o) = OErr.
Proof. exact handshake. Qed.
Print Assumptions C01_handshake.

(* Sticky error: once a verification failure is on record no verification of this reader succeeds any more. *)
Theorem C01_sticky_error :
  forall H s os d o, (o = VerifyTOC d \/ o = LVerify d) -> s_lasterr s = true -> snd (step H (exec H s os) o) = OErr.
Proof. exact sticky. Qed.
Print Assumptions C01_sticky_error.

(* The API calls the correspondence check compares with the implementation (VerifyTOC, SkipVerify, layer Verify /
   SkipVerify, one readAndCache, Cache(), OpenFile+ReadAt with the fetches the metadata store delivered) are
   compositions of the atomic steps: every compared run is one of the histories the theorems quantify over. *)
Theorem C01_api_calls_are_histories :
  forall H T D hs, exists os, fst (hrun H (init T D) hs) = exec H (init T D) os.
Proof. intros H T D hs. rewrite hrun_hexec. exact (hexec_steps H hs (init T D)). Qed.
Print Assumptions C01_api_calls_are_histories.

(* Non-vacuity 1: a reachable verifying untainted state in which a read fetches a genuine chunk, returns it, and a
   second read is served from the cache. *)
Example C01_nonvacuous_read :
  let s := hexec wH (init wT 5%N) [HVerifyTOC 5%N] in
  s_verify s = true /\ s_tainted s = false /\
  snd (hrun wH s [HRead 1%N 0%Z 2%Z [mkFetch [] (MOk 2%Z [1%N; 2%N])]; HRead 1%N 1%Z 1%Z []])
    = [HR (ROk [1%N; 2%N]); HR (ROk [2%N])].
Proof. vm_compute. repeat split. Qed.

(* Non-vacuity 2 (handshake hypotheses are satisfiable): a prefetch checks altered bytes before the decision; they are
   pending, then cached; the state is untainted, and VerifyTOC with the right digest fails, now and later. *)
Example C01_nonvacuous_handshake :
  let s := exec wH (init wT 5%N) [PfCheck false 1%N 0 [9%N; 9%N]; Decide; Commit 0] in
  s_tainted s = false /\ In ((1%N, 0%Z, 2%Z), [9%N; 9%N]) (s_cache s ++ s_pend s) /\
  ~ goodcat wH wT 1%N [9%N; 9%N] /\ snd (step wH s (VerifyTOC 5%N)) = OErr.
Proof. split; [reflexivity|]. split; [left; reflexivity|]. split; [exact w_altered_not_goodcat|reflexivity]. Qed.

(* Non-vacuity 4 (passthrough): verified reader, chunk fetched during the merge, whole-file entry handed out; a second
   call is served by the entry; with altered bytes the call fails and the cache stays empty. *)
Example C01_nonvacuous_passthrough :
  let s := hexec wH (init wT 5%N) [HVerifyTOC 5%N] in
  snd (hrun wH s [HPass 1%N 8%Z [(0%nat, mkFetch [] (MOk 2%Z [1%N; 2%N]))]; HPass 1%N 8%Z []]) = [HR (ROk [1%N; 2%N]); HR (ROk [1%N; 2%N])]
  /\ snd (pass_fd wH s 1%N 8%Z [(0%nat, mkFetch [] (MOk 2%Z [9%N; 9%N]))]) = RErr
  /\ s_cache (fst (pass_fd wH s 1%N 8%Z [(0%nat, mkFetch [] (MOk 2%Z [9%N; 9%N]))])) = []
  /\ s_merge (fst (pass_fd wH s 1%N 8%Z [(0%nat, mkFetch [] (MOk 2%Z [9%N; 9%N]))])) = [].
Proof. vm_compute. repeat split. Qed.

(* Non-vacuity 3: the other order of the handshake - decision first, then the prefetch of altered bytes aborts and
   nothing becomes pending; verification succeeds. *)
Example C01_nonvacuous_abort :
  let s := exec wH (init wT 5%N) [Decide; PfCheck false 1%N 0 [9%N; 9%N]] in
  s_pend s = [] /\ s_cache s = [] /\ snd (step wH s (VerifyTOC 5%N)) = OOk.
Proof. vm_compute. repeat split. Qed.
