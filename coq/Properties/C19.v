(* C19 — Image conversion emits descriptors that describe exactly the blobs it wrote.
   Statements only; every proof is [exact <lemma of Proofs/Convert.v>].

   Everywhere below  blob  is an arbitrary type and
     H (sha256), len (byte count), payload (decompressed stream), tocdg (digest of the TOC the blob verifies by),
     etoc (digest, size of the external TOC blob written for a blob)
   are ARBITRARY functions: nothing is assumed about them (no injectivity of H).  A layer is (source media type,
   source blob, what the builder produced or None); a schedule is an arbitrary list of the atomic sub-steps
   Uncompress i / Commit i / Record i of the layers' conversions (sequential, parallel, interrupted and retried
   conversions are all such lists).  The model is the code after patches/C19-fix-1..4. *)
From Coq Require Import List NArith Bool Permutation.
From SV Require Import Model.Convert Proofs.Convert.
Import ListNotations.

(* The descriptor returned for a layer: digest and size are H and len of the committed blob, the TOC-digest annotation
   is the digest that blob verifies by, the uncompressed-size annotation is the length of its decompressed stream, and
   the media type is the table entry for (converter, source media type) and claims exactly the converter's compression. *)
Theorem C19_desc_describes_blob :
  forall (blob : Type) (H len : blob -> N) (payload : blob -> blob) (tocdg : blob -> N)
         (k : kind) (l : @layer blob) (d : desc),
    convert H len payload tocdg k l = Some d ->
    exists b, l_built l = Some b /\ committed H len payload k l = Some b
      /\ d_digest d = H b /\ d_size d = len b /\ d_toc d = tocdg b /\ d_usize d = len (payload b)
      /\ out_mt k (l_mt l) = Some (d_mt d).
Proof. intros blob H len payload tocdg k l d. exact (convert_describes H len payload tocdg k l d). Qed.
Print Assumptions C19_desc_describes_blob.

(* Media-type table (all 4 converters x 11 layer media types): the resulting media type names the compression the
   converter writes (gzip for eStargz / external TOC / lossless, zstd for zstd:chunked) — also for zstd and uncompressed
   inputs —, keeps the (non-)distributable family, keeps Docker vs OCI for gzip and is OCI for zstd:chunked. *)
Theorem C19_media_type_matches_compression :
  forall k m m', out_mt k m = Some m' ->
    mt_comp m' = Some (kind_comp k)
    /\ is_nondist m' = is_nondist m
    /\ is_docker m' = match k with KZstd => false | _ => is_docker m end.
Proof. intros k m m' E. split; [exact (out_mt_comp k m m' E)|exact (out_mt_family k m m' E)]. Qed.
Print Assumptions C19_media_type_matches_compression.

(* Every conversion that committed a blob also returns a descriptor for it, except zstd:chunked on Docker's zstd layer
   type (refused with "unknown mediatype"), which is the only refused layer media type. *)
Theorem C19_committed_layers_get_descriptors :
  forall (blob : Type) (H len : blob -> N) (payload : blob -> blob) (tocdg : blob -> N) (k : kind) (l : @layer blob) b,
    committed H len payload k l = Some b -> (k = KZstd -> l_mt l <> DkZst) ->
    exists d, convert H len payload tocdg k l = Some d.
Proof. intros blob H len payload tocdg k l b. exact (convert_total H len payload tocdg k l b). Qed.
Print Assumptions C19_committed_layers_get_descriptors.

(* Lossless conversion returns a descriptor only for a blob whose decompressed stream has the DiffID and the length of
   the source's decompressed stream. *)
Theorem C19_lossless_keeps_diffid :
  forall (blob : Type) (H len : blob -> N) (payload : blob -> blob) (tocdg : blob -> N) (l : @layer blob) d,
    convert H len payload tocdg KExtLL l = Some d ->
    exists b, l_built l = Some b /\ d_digest d = H b
      /\ H (payload b) = H (payload (l_src l)) /\ len (payload b) = len (payload (l_src l)).
Proof.
  intros blob H len payload tocdg l d E.
  destruct (lossless_keeps_diffid H len payload tocdg l d E) as (b & B & E1 & E2).
  destruct (convert_describes H len payload tocdg KExtLL l d E) as (b' & B' & _ & D & _).
  exists b. rewrite B in B'. inversion B'; subst b'. repeat split; assumption.
Qed.
Print Assumptions C19_lossless_keeps_diffid.

(* Content store label, for EVERY initial store (blob already present with or without a label, stale labels, leftovers)
   and EVERY schedule: once some conversion has committed a blob of digest d, the store's uncompressed label of d is the
   DiffID (H of the decompressed stream) of a blob committed under that digest by this schedule. *)
Theorem C19_uncompressed_label_any_schedule :
  forall (blob : Type) (H len : blob -> N) (payload : blob -> blob) (etoc : blob -> N * N)
         (k : kind) (ls : list (@layer blob)) (os : list op) (s0 : st) (d : N),
    (exists b, commits_to H len payload k ls os d b) ->
    exists b, commits_to H len payload k ls os d b
      /\ alookup (sstore (exec H len payload etoc k ls s0 os)) d = Some (H (payload b)).
Proof. intros blob H len payload etoc k ls os s0 d. exact (label_any_schedule H len payload etoc k ls os s0 d). Qed.
Print Assumptions C19_uncompressed_label_any_schedule.

(* Frame: a blob whose digest no conversion of the schedule commits — the SOURCE blobs in particular — keeps its label,
   for every initial store and schedule. *)
Theorem C19_other_labels_untouched :
  forall (blob : Type) (H len : blob -> N) (payload : blob -> blob) (etoc : blob -> N * N)
         (k : kind) (ls : list (@layer blob)) (os : list op) (s0 : st) (d x : N),
    (forall b, ~ commits_to H len payload k ls os d b) ->
    alookup (sstore s0) d = Some x -> alookup (sstore (exec H len payload etoc k ls s0 os)) d = Some x.
Proof. intros blob H len payload etoc k ls os s0 d x. exact (label_frame H len payload etoc k ls os s0 d x). Qed.
Print Assumptions C19_other_labels_untouched.

(* TOC image, for EVERY schedule of one converter instance (parallel layers, retries, duplicates): it has exactly one
   entry per layer digest; every layer digest recorded by a successful conversion is mapped — through fetcher.go's lookup
   — to the TOC blob written by a conversion that produced a blob of that very digest; and it has no other entries. *)
Theorem C19_toc_image_maps_each_layer :
  forall (blob : Type) (H len : blob -> N) (payload : blob -> blob) (etoc : blob -> N * N)
         (k : kind) (ls : list (@layer blob)) (os : list op) (st0 : st) (d : N),
    smap st0 = [] ->
    let img := finalize (smap (exec H len payload etoc k ls st0 os)) in
    NoDup (map fst img)
    /\ ((exists b, records_to H len payload k ls os d b) ->
          exists b, records_to H len payload k ls os d b /\ fetch img d = Some (etoc b))
    /\ (forall t, In (d, t) img -> exists b, records_to H len payload k ls os d b /\ t = etoc b).
Proof. intros blob H len payload etoc k ls os st0 d E0. exact (toc_map_any_schedule H len payload etoc k ls os st0 d E0). Qed.
Print Assumptions C19_toc_image_maps_each_layer.

(* End to end for one layer: whatever the initial store and the schedule, once layer i's conversion (which returned
   descriptor d) has committed, the store's uncompressed label of d's digest is the DiffID of a blob of that digest, and
   (external TOC) once it has recorded its TOC, the image serves d's digest a TOC written for a blob of that digest. *)
Theorem C19_end_to_end :
  forall (blob : Type) (H len : blob -> N) (payload : blob -> blob) (tocdg : blob -> N) (etoc : blob -> N * N)
         (k : kind) (ls : list (@layer blob)) (os : list op) (st0 : st) (i : nat) (l : layer) (d : desc),
    nth_error ls i = Some l -> convert H len payload tocdg k l = Some d -> In (Commit i) os ->
    (exists b, commits_to H len payload k ls os (d_digest d) b
               /\ alookup (sstore (exec H len payload etoc k ls st0 os)) (d_digest d) = Some (H (payload b)))
    /\ (is_ext k = true -> In (Record i) os -> smap st0 = [] ->
          exists b, records_to H len payload k ls os (d_digest d) b
                    /\ fetch (finalize (smap (exec H len payload etoc k ls st0 os))) (d_digest d) = Some (etoc b)).
Proof. intros blob H len payload tocdg etoc k ls os st0 i l d. exact (end_to_end H len payload tocdg etoc k ls os st0 i l d). Qed.
Print Assumptions C19_end_to_end.

(* "... to the TOC that verifies it": for any relation verifies(TOC blob, layer blob) that holds between each blob and
   the TOC written for it, the TOC served for a converted layer digest verifies a blob of that digest. *)
Theorem C19_toc_image_verifies :
  forall (blob : Type) (H len : blob -> N) (payload : blob -> blob) (etoc : blob -> N * N)
         (verifies : N * N -> blob -> Prop) (k : kind) (ls : list (@layer blob)) (os : list op) (st0 : st) (d : N),
    (forall b, verifies (etoc b) b) -> smap st0 = [] ->
    (exists b, records_to H len payload k ls os d b) ->
    exists b t, records_to H len payload k ls os d b /\ H b = d
                /\ fetch (finalize (smap (exec H len payload etoc k ls st0 os))) d = Some t /\ verifies t b.
Proof. intros blob H len payload etoc verifies k ls os st0 d. exact (toc_image_verifies H len payload etoc verifies k ls os st0 d). Qed.
Print Assumptions C19_toc_image_verifies.

(* finalize called any number of times anywhere in a schedule (after failed calls, for further references, with further
   layer conversions in between): the call returns an error iff the reference does not parse; otherwise it returns the image
   of everything recorded SO FAR — exactly one entry per layer digest, every digest recorded before the call served the
   TOC of a conversion of that digest, nothing else — and, failed or not, it consumes nothing. *)
Theorem C19_every_finalize_maps_all_layers_so_far :
  forall (blob : Type) (H len : blob -> N) (payload : blob -> blob) (etoc : blob -> N * N)
         (k : kind) (ls : list (@layer blob)) (os1 : list op) (refok : bool) (os2 : list op) (st0 : st) (d : N),
    smap st0 = [] ->
    let img := finalize (smap (exec H len payload etoc k ls st0 os1)) in
    fin_outputs H len payload etoc k ls st0 (os1 ++ Finalize refok :: os2)
      = fin_outputs H len payload etoc k ls st0 os1
        ++ (if refok then Some img else None) :: fin_outputs H len payload etoc k ls (exec H len payload etoc k ls st0 os1) os2
    /\ NoDup (map fst img)
    /\ ((exists b, records_to H len payload k ls os1 d b) ->
          exists b, records_to H len payload k ls os1 d b /\ fetch img d = Some (etoc b))
    /\ (forall t, In (d, t) img -> exists b, records_to H len payload k ls os1 d b /\ t = etoc b).
Proof. intros blob H len payload etoc k ls os1 refok os2 st0 d. exact (every_finalize H len payload etoc k ls os1 refok os2 st0 d). Qed.
Print Assumptions C19_every_finalize_maps_all_layers_so_far.

Theorem C19_finalize_is_read_only :
  forall (blob : Type) (H len : blob -> N) (payload : blob -> blob) (etoc : blob -> N * N)
         (k : kind) (ls : list (@layer blob)) (os1 : list op) (refok : bool) (os2 : list op) (s : st),
    exec H len payload etoc k ls s (os1 ++ Finalize refok :: os2) = exec H len payload etoc k ls s (os1 ++ os2).
Proof. intros blob H len payload etoc k ls os1 refok os2 s. exact (finalize_is_read_only H len payload etoc k ls os1 refok os2 s). Qed.
Print Assumptions C19_finalize_is_read_only.

(* Layers converted after a finalize appear in the next one TOGETHER with the earlier ones: a digest recorded before one
   call is still served after any continuation of the schedule. *)
Theorem C19_finalize_accumulates :
  forall (blob : Type) (H len : blob -> N) (payload : blob -> blob) (etoc : blob -> N * N)
         (k : kind) (ls : list (@layer blob)) (os1 os2 : list op) (st0 : st) (d : N),
    smap st0 = [] ->
    (exists b, records_to H len payload k ls os1 d b) ->
    exists b, records_to H len payload k ls (os1 ++ os2) d b
              /\ fetch (finalize (smap (exec H len payload etoc k ls st0 (os1 ++ os2)))) d = Some (etoc b).
Proof. intros blob H len payload etoc k ls os1 os2 st0 d. exact (finalize_accumulates H len payload etoc k ls os1 os2 st0 d). Qed.
Print Assumptions C19_finalize_accumulates.

(* Duplicate keys (same converted digest from several layers or from a retry): the last writer for that key wins. *)
Theorem C19_toc_image_last_writer_wins :
  forall (blob : Type) (H len : blob -> N) (payload : blob -> blob) (etoc : blob -> N * N)
         (k : kind) (ls : list (@layer blob)) (os1 os2 : list op) (st0 : st) i l b m,
    smap st0 = [] ->
    nth_error ls i = Some l -> is_ext k = true -> out_mt k (l_mt l) = Some m -> committed H len payload k l = Some b ->
    (forall b', ~ records_to H len payload k ls os2 (H b) b') ->
    fetch (finalize (smap (exec H len payload etoc k ls st0 (os1 ++ Record i :: os2)))) (H b) = Some (etoc b).
Proof. intros blob H len payload etoc k ls os1 os2 st0 i l b m. exact (toc_map_last_writer H len payload etoc k ls os1 os2 st0 i l b m). Qed.
Print Assumptions C19_toc_image_last_writer_wins.

(* Distinct keys: any reordering of the schedule (any linearisation of the concurrent map updates) yields the same image. *)
Theorem C19_toc_image_order_independent :
  forall (blob : Type) (H len : blob -> N) (payload : blob -> blob) (etoc : blob -> N * N)
         (k : kind) (ls : list (@layer blob)) (os os' : list op) (st0 : st) (d : N),
    smap st0 = [] -> Permutation os os' ->
    NoDup (map fst (map_events H len payload etoc k ls os)) ->
    fetch (finalize (smap (exec H len payload etoc k ls st0 os))) d
    = fetch (finalize (smap (exec H len payload etoc k ls st0 os'))) d.
Proof. intros blob H len payload etoc k ls os os' st0 d. exact (toc_map_order_independent H len payload etoc k ls os os' st0 d). Qed.
Print Assumptions C19_toc_image_order_independent.

(* The map itself: a run of assignments maps k to the value of the LAST assignment to k (Go map semantics of
   esgzDigest2TOC[k] = v, executed one at a time under the mutex), and with distinct keys the order is irrelevant. *)
Theorem C19_map_updates_linearise :
  forall (V : Type) (a b : list (N * V)) (m : list (N * V)) (k : N) (v : V),
    (~ In k (map fst b) -> alookup (assign m (a ++ (k, v) :: b)) k = Some v)
    /\ (forall evs evs' k', NoDup (map fst evs) -> Permutation evs evs' ->
          alookup (assign m evs) k' = alookup (assign m evs') k').
Proof.
  intros V a b m k v. split; [exact (assign_last V a b m k v)|].
  intros evs evs' k'. exact (assign_perm V evs evs' m k').
Qed.
Print Assumptions C19_map_updates_linearise.

(* The manifest lists the entries of the map (nothing added, nothing lost) ordered by TOC digest. *)
Theorem C19_manifest_is_sorted_map :
  forall m : tocmap, Permutation (finalize m) m /\ toc_sorted (finalize m).
Proof. intros m. split; [exact (finalize_perm m)|exact (finalize_sorted m)]. Qed.
Print Assumptions C19_manifest_is_sorted_map.

(* ---------------- writer ref reuse (interrupted-and-retried conversions) ---------------- *)
(* The writer ref names the source layer only.  For EVERY state of the ingests (whatever an earlier, interrupted conversion
   with whatever options left under the ref) a completed conversion commits exactly the bytes of its own build, leaves
   no ingest under its ref and does not touch other refs. *)
Theorem C19_retry_commits_new_build_only :
  forall (byte : Type) (s : @wst byte) (r : N) (bs : list byte),
    let '(s', out) := attempt_step s (Att r bs None) in
    out = Some bs /\ w_blobs s' = bs :: w_blobs s /\ alookup (w_ing s') r = None
    /\ (forall r', r <> r' -> alookup (w_ing s') r' = alookup (w_ing s) r').
Proof. intros byte s r bs. exact (attempt_completed s r bs). Qed.
Print Assumptions C19_retry_commits_new_build_only.

(* Every history of conversion attempts over any refs — layers interleaved, any number of interruptions at any byte,
   retries whose builds differ arbitrarily: each attempt commits its own build or (interrupted) nothing, and the blobs
   committed are exactly the builds of the completed attempts. *)
Theorem C19_writer_histories :
  forall (byte : Type) (l : list (@attempt byte)) (s : wst),
    snd (run_attempts s l) = map expected l
    /\ w_blobs (fst (run_attempts s l))
       = rev (flat_map (fun a => match expected a with Some b => [b] | None => [] end) l) ++ w_blobs s.
Proof. intros byte l s. exact (run_attempts_spec l s). Qed.
Print Assumptions C19_writer_histories.

(* Truncate(0) is what this rests on.  Without it the resumed writer makes Commit fail for every non-empty leftover (no
   mixed blob, but no progress either); resuming by skipping the offset commits a blob that is not the new build. *)
Theorem C19_no_truncate_never_commits :
  forall (byte : Type) (s : @wst byte) (r : N) (bs : list byte),
    resume s r <> [] -> bs <> [] -> snd (attempt_step_resume s (Att r bs None)) = None.
Proof. intros byte s r bs. exact (resume_variant_fails s r bs). Qed.
Print Assumptions C19_no_truncate_never_commits.

Theorem C19_skip_offset_variant_refuted :
  exists (s : @wst N) a d, snd (attempt_step_skip s a) = Some d /\ expected a <> Some d.
Proof. exact skip_variant_refuted. Qed.
Print Assumptions C19_skip_offset_variant_refuted.

(* non-vacuity: layer 7 interrupted twice with two different builds, layer 9 interrupted, then both complete *)
Example C19_nonvacuous_writer :
  let l := [Att 7%N [1; 2; 3; 4]%N (Some 2); Att 9%N [5; 6]%N (Some 1); Att 7%N [8; 8; 8]%N (Some 1); Att 7%N [9; 9]%N None; Att 9%N [5; 6]%N None] in
  run_attempts (mkW [(7%N, [0%N; 0%N])] []) l
  = (mkW [] [[5; 6]; [9; 9]]%N, [None; None; None; Some [9; 9]; Some [5; 6]]%N).
Proof. vm_compute. reflexivity. Qed.

(* ---------------- external-TOC compressor state between TOC generation and TOC storage ---------------- *)
(* Any interleaving of the conversions of one converter instance: the TOC a conversion stores and records for its layer
   digest is the TOC that same conversion generated (one GzipCompression per conversion), whatever other conversions
   generate or store in between. *)
Theorem C19_stored_toc_is_own_toc :
  forall (os1 os2 : list cop) (s : cst) (i : N) (t : N * N) (d : N),
    no_gen i os2 ->
    alookup (c_map (crun false s (os1 ++ GenTOC i t :: os2 ++ [StoreTOC i d]))) d = Some t.
Proof. exact store_gets_own_toc. Qed.
Print Assumptions C19_stored_toc_is_own_toc.

(* ... and this is false for a compressor shared by the conversions (generate A, generate B, store A). *)
Theorem C19_shared_compressor_refuted :
  exists os i t d, (exists os1 os2, os = os1 ++ GenTOC i t :: os2 ++ [StoreTOC i d] /\ no_gen i os2)
    /\ alookup (c_map (crun true (mkC [] []) os)) d <> Some t.
Proof. exact shared_compressor_refuted. Qed.
Print Assumptions C19_shared_compressor_refuted.

(* ---------------- non-vacuity ---------------- *)
(* Two layers through the external-TOC converter, updates interleaved, layer 1 recorded twice (retry): descriptors
   describe the blobs, both digests are served by the image with their own TOC. *)
Example C19_nonvacuous_ext :
  let b0 := mkBlob 11 100 21 400 (Some Gz) 31 41 50 in
  let b1 := mkBlob 12 200 22 800 (Some Gz) 32 42 60 in
  let ls := [mkLay OciTar (mkBlob 1 400 21 400 None 0 0 0) (Some b0); mkLay DkZst (mkBlob 2 90 22 800 None 0 0 0) (Some b1)] in
  let os := [Commit 1; Commit 0; Record 1; Record 0; Commit 1; Record 1] in
  let s := exec cH cLen cPayload cEtoc KExt ls (mkSt [(12%N, 0%N)] []) os in
  convert cH cLen cPayload cToc KExt (mkLay OciTar (mkBlob 1 400 21 400 None 0 0 0) (Some b0)) = Some (mkDesc OciGz 11 100 31 400)
  /\ convert cH cLen cPayload cToc KExt (mkLay DkZst (mkBlob 2 90 22 800 None 0 0 0) (Some b1)) = Some (mkDesc DkGz 12 200 32 800)
  /\ records_to cH cLen cPayload KExt ls os 12 b1
  /\ fetch (finalize (smap s)) 12 = Some (42, 60)%N /\ fetch (finalize (smap s)) 11 = Some (41, 50)%N
  /\ alookup (sstore s) 12 = Some 22%N /\ alookup (sstore s) 11 = Some 21%N.
Proof.
  vm_compute. repeat split.
  exists 1, (mkLay DkZst (mkBlob 2 90 22 800 None 0 0 0) (Some (mkBlob 12 200 22 800 (Some Gz) 32 42 60))).
  repeat split; try reflexivity; [right; right; left; reflexivity|eexists; reflexivity].
Qed.

(* finalize three times: failed, then ok after layer 0 only, then ok after both layers *)
Example C19_nonvacuous_finalize :
  let b0 := mkBlob 11 100 21 400 (Some Gz) 31 41 50 in
  let b1 := mkBlob 12 200 22 800 (Some Gz) 32 42 60 in
  let ls := [mkLay OciTar (mkBlob 1 400 21 400 None 0 0 0) (Some b0); mkLay OciGz (mkBlob 2 90 22 800 None 0 0 0) (Some b1)] in
  fin_outputs cH cLen cPayload cEtoc KExt ls (mkSt [] [])
    [Commit 0; Record 0; Finalize false; Finalize true; Commit 1; Record 1; Finalize true]
  = [None; Some [(11, (41, 50))]; Some [(11, (41, 50)); (12, (42, 60))]]%N.
Proof. vm_compute. reflexivity. Qed.

(* The lossless check is a real condition: a builder output with another DiffID yields no descriptor. *)
Example C19_nonvacuous_lossless :
  convert cH cLen cPayload cToc KExtLL (mkLay OciGz (mkBlob 1 90 22 800 None 0 0 0) (Some (mkBlob 12 200 22 800 (Some Gz) 32 42 60)))
    = Some (mkDesc OciGz 12 200 32 800)
  /\ convert cH cLen cPayload cToc KExtLL (mkLay OciGz (mkBlob 1 90 22 800 None 0 0 0) (Some (mkBlob 12 200 23 800 (Some Gz) 32 42 60))) = None.
Proof. vm_compute. split; reflexivity. Qed.
