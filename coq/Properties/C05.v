(* C05 — Memory and DB metadata stores expose the same filesystem for the same blob. Statements only. *)
From Coq Require Import List ZArith Bool.
From SV Require Import Model.TreeStores Proofs.TreeStores.
Import ListNotations.
Open Scope Z_scope.

Theorem C05_attr_codec_roundtrip : forall a,
  norm_attr (read_attr (write_attr a)) = norm_attr a.
Proof. intro a. rewrite codec_roundtrip. destruct a as [sz mt ln md u g dj dn xs nl]. unfold norm_attr, norm_nlink. simpl.
  f_equal. destruct (nl =? 1) eqn:E; [apply Z.eqb_eq in E; subst; reflexivity|reflexivity]. Qed.
Print Assumptions C05_attr_codec_roundtrip.
