(* C05 — Memory and DB metadata stores expose the same filesystem for the same blob.
   Statements only; every proof is [exact <lemma of Proofs/TreeStores.v>] or a [vm_compute] witness.

   FULL STATEMENT (not provable as it stands, see the _refuted witnesses below):
     stores_agree : forall toc probes, conforming toc = true -> view_mem toc probes = view_db toc probes
   What is proved for ALL inputs: the attribute codec of the db store is the identity on what the memory store reports
   (C05_attr_codec_roundtrip, byte level: C05_int_codec_bytes), names (C05_clean_normal_form), the db store's recomputed chunk table and ChunkEntryForOffset agree with the memory store's
   for every file whose chunks tile it and every offset (C05_chunk_tables_agree, C05_chunk_lookup_agree), the TOC digest
   (C05_toc_digest_agree), acceptance on hardlink-free TOCs (C05_stores_accept_hardlink_free) and the independence of the
   layers of one database for every history (C05_db_layers_independent, C05_db_open_fresh).
   TREES: C05_stores_agree_partial proves the complete views equal (names, attributes, xattrs, link counts, offsets, node
   identities, openability, ChunkEntryForOffset at every probed offset) for every "simple" TOC of any size and shape:
   known types, distinct cleaned names (any spelling), every entry at top level or below an entry that precedes it,
   single-chunk files. The proof is a simulation between the two-pass interpreter (mem_build) and the streaming one
   (db_build), Proofs/TreeAgree.v.
   C05_stores_agree_implicit widens this to TOCs with implicit parent directories, C05_stores_agree_rooted adds an explicit
   root entry (Proofs/TreeAgree2.v), C05_stores_agree_hardlinks adds backward hardlinks incl. chains (Proofs/TreeAgree3.v).
   LEFT OPEN (checked on every run by the correspondence check and the store-vs-store oracle only): tree equality for
   conforming TOCs with repeated directory entries, and the tree walk over TOCs containing chunk entries. For the latter
   the chunk part is done: C05_chunk_slice_memory / C05_chunk_slice_db / C05_chunk_lookup_agree_in_toc show for ANY TOC that
   the tables the interpreters build for a tiling multi-chunk file are the per-file slices and agree at every offset; what
   is missing is threading chunk entries (which shift the entry indices but create no nodes) through the tree simulation
   of Proofs/TreeAgree3.v and identifying the db node id of each reg entry with the node the walk reaches. *)
From Coq Require Import List ZArith Bool Lia.
From SV Require Import Model.TreeStores Proofs.TreeStores Proofs.TreeAgree Proofs.TreeAgree2.
From SV Require Proofs.TreeAgree3.
From SV Require Import Proofs.ChunkSlices.
Import ListNotations.
Open Scope Z_scope.

(* What the db store reads back (readAttr) from what it wrote (writeAttr) is, after the NumLink 0≡1 normalisation of the
   FUSE layer, exactly the attributes it was given — sizes, times, link names, modes, owners, devices, xattrs incl.
   empty-valued ones — for every attribute record. Both stores compute that record with the same attrFromTOCEntry. *)
Theorem C05_attr_codec_roundtrip : forall a, norm_attr (read_attr (write_attr a)) = norm_attr a.
Proof. intro a. rewrite codec_roundtrip. destruct a as [sz mt ln md u g dj dn xs nl]. unfold norm_attr, norm_nlink. simpl.
  f_equal. destruct (nl =? 1) eqn:E; [apply Z.eqb_eq in E; subst; reflexivity|reflexivity]. Qed.
Print Assumptions C05_attr_codec_roundtrip.

(* Byte level of the integer attributes (size, uid, gid, devMajor, devMinor, numLink, chunk/stream keys): binary.Varint
   decodes what binary.PutVarint wrote into the 10-byte buffer, for every int64. *)
Theorem C05_int_codec_bytes : forall x, - 2 ^ 63 <= x < 2 ^ 63 -> decode_int (encode_int x) = Some x.
Proof. exact int_codec. Qed.
Print Assumptions C05_int_codec_bytes.

(* Names: both stores key their trees by cleanEntryName(name); cleaning is a normal form, so every respelling of a path
   ("./a", "/a", "../a", "x/../a", "a//", "a/.") is the same key in both. *)
Theorem C05_clean_normal_form : forall raw, clean (rev (clean raw)) = clean raw.
Proof. exact clean_idempotent. Qed.
Print Assumptions C05_clean_normal_form.

(* For every file (a reg entry followed by its chunk entries) whose chunk table starts at 0, has strictly increasing
   offsets and sizes that tile [0,size): the table the db store rebuilds from neighbouring chunk offsets (readChunks) is
   the table of the TOC that the memory store serves. *)
Theorem C05_chunk_tables_agree : forall r cs, file_conforming r cs ->
  read_chunks (file_db_stored r cs) (e_size r) = file_table r cs.
Proof. exact chunk_tables_agree. Qed.
Print Assumptions C05_chunk_tables_agree.

(* ... and ChunkEntryForOffset of the two stores returns the same (chunk offset, chunk size, digest) or the same "none"
   at EVERY file offset (memory's single-chunk special case included). *)
Theorem C05_chunk_lookup_agree : forall r cs off, file_conforming r cs -> 0 <= off ->
  file_mem_lookup r cs off = file_db_lookup r cs off.
Proof. exact chunk_lookup_agree. Qed.
Print Assumptions C05_chunk_lookup_agree.

(* The per-file slices the chunk theorems speak about ARE what the two interpreters compute for a file anywhere inside an
   arbitrary TOC (any tree shape, hardlinks, repeated directories ... around it): for TOC = pre ++ r :: cs ++ post with r a
   reg entry, cs its chunk entries, the next entry not a chunk and no other non-chunk entry of the same cleaned name,
   the memory store's r.chunks[name] after the first pass of initFields is file_mem_ents r cs ... *)
Theorem C05_chunk_slice_memory : forall pre r cs post,
  e_type r = TReg -> clean (e_name r) <> [] ->
  Forall (fun c => is_chunk c = true) cs ->
  match post with e :: _ => is_chunk e = false | [] => True end ->
  Forall (fun e => is_chunk e = false -> clean (e_name e) <> clean (e_name r)) (pre ++ post) ->
  chunks_of (clean (e_name r)) (p1_chunks (pass1 (pre ++ r :: cs ++ post))) = file_mem_ents r cs.
Proof. exact slice_mem. Qed.
Print Assumptions C05_chunk_slice_memory.

(* ... and, whenever the db store accepts the TOC and every later chunk entry follows a reg entry, the chunk list stored
   for the node created for r (node id = number of nodes before r was processed) is file_db_stored r cs. *)
Theorem C05_chunk_slice_db : forall pre r cs post s0 sF,
  fold_left db_step pre (Some d_init) = Some s0 ->
  e_type r = TReg -> Forall (fun c => is_chunk c = true) cs -> chunks_follow_regs false post = true ->
  fold_left db_step (r :: cs ++ post) (Some s0) = Some sF ->
  chunks_at sF (dlen s0) = file_db_stored r cs.
Proof. exact slice_db. Qed.
Print Assumptions C05_chunk_slice_db.

(* Hence, for a multi-chunk file that tiles, anywhere in any TOC both stores accept: ChunkEntryForOffset computed from the
   table the memory interpreter built and from the chunk list the db interpreter stored agree at every offset. *)
Theorem C05_chunk_lookup_agree_in_toc : forall pre r cs post s0 sF off,
  file_conforming r cs -> clean (e_name r) <> [] ->
  Forall (fun c => is_chunk c = true) cs ->
  match post with e :: _ => is_chunk e = false | [] => True end ->
  Forall (fun e => is_chunk e = false -> clean (e_name e) <> clean (e_name r)) (pre ++ post) ->
  chunks_follow_regs false post = true ->
  fold_left db_step pre (Some d_init) = Some s0 ->
  fold_left db_step (r :: cs ++ post) (Some s0) = Some sF -> 0 <= off ->
  (let ents := chunks_of (clean (e_name r)) (p1_chunks (pass1 (pre ++ r :: cs ++ post))) in
   if Nat.ltb (length ents) 2
   then (let c := mem_chunk r None in if off >=? c_size c then None else Some (c_choff c, c_size c, c_dg c))
   else chunk_search ents off)
  = chunk_search (read_chunks (chunks_at sF (dlen s0)) (e_size r)) off.
Proof.
  intros pre r cs post s0 sF off Hc Hne Hcs Hp Hn Hf H0 HF Hoff.
  rewrite (slice_mem pre r cs post (fc_reg _ _ Hc) Hne Hcs Hp Hn).
  rewrite (slice_db pre r cs post s0 sF H0 (fc_reg _ _ Hc) Hcs Hf HF).
  exact (chunk_lookup_agree r cs off Hc Hoff).
Qed.
Print Assumptions C05_chunk_lookup_agree_in_toc.

(* TOC digest (after the repair of parseTOCEStargz): whatever prefix the JSON decoder happened to read ahead, the memory
   store's digest is the hash of the whole TOC stream, i.e. the db store's. *)
Theorem C05_toc_digest_agree : forall (H : list Z -> Z) k toc_bytes, digest_mem H k toc_bytes = digest_db H toc_bytes.
Proof. exact digest_agree. Qed.
Print Assumptions C05_toc_digest_agree.

(* the code before the repair: trailing bytes the decoder did not read were not hashed *)
Theorem C05_toc_digest_unrepaired_refuted : exists (H : list Z -> Z) k toc_bytes,
  digest_mem_unrepaired H k toc_bytes <> digest_db H toc_bytes.
Proof. exists (fun l => Z.of_nat (length l)), 1%nat, [123; 32]. vm_compute. discriminate. Qed.
Print Assumptions C05_toc_digest_unrepaired_refuted.

(* Both stores accept every TOC without hardlink entries that does not start with a chunk entry. *)
Theorem C05_stores_accept_hardlink_free : forall toc,
  Forall (fun e => e_type e <> THardlink) toc ->
  match toc with e :: _ => e_type e <> TChunk | [] => True end ->
  mem_build toc <> None /\ db_build toc <> None.
Proof. intros toc Hf H1. split; [exact (mem_accepts toc Hf)|exact (db_accepts toc Hf H1)]. Qed.
Print Assumptions C05_stores_accept_hardlink_free.

(* Tree agreement on simple TOCs (any number of entries, any nesting depth, any attributes/xattrs/modtimes, any spelling
   of the names): both stores accept and show exactly the same canonical view.
     simple_toc toc := every entry is entry_ok (type dir/reg/symlink/char/block/fifo; permission bits < 2^24; cleaned
       name not the root; a reg has chunkOffset 0, chunkSize 0 or = size and an offset only when non-empty; other types have no offset)
       /\ the cleaned names are pairwise distinct
       /\ every entry is at top level or its parent path is the cleaned name of an EARLIER entry. *)
Theorem C05_stores_agree_partial : forall toc probes,
  simple_toc toc -> Forall (fun p => 0 <= p) probes ->
  view_mem toc probes = view_db toc probes /\ view_mem toc probes <> None.
Proof. exact stores_agree_simple. Qed.
Print Assumptions C05_stores_agree_partial.

(* Tree agreement with IMPLICIT PARENT DIRECTORIES (explicit boolean class predicate, Model.implicit_tocb): every entry is
   entry_okb (as above), the cleaned names are pairwise distinct, and an entry whose name is an ancestor of another entry's
   name precedes it; parents need NOT have entries of their own (any depth of implicit directories, created in the same
   order by both stores, the memory store's root lazily). The simulation relation carries an abstract, growing map from
   memory-store node indices to db node ids (db ids are no longer entry index + 1). *)
Theorem C05_stores_agree_implicit : forall toc probes,
  implicit_tocb toc = true -> Forall (fun p => 0 <= p) probes ->
  view_mem toc probes = view_db toc probes /\ view_mem toc probes <> None.
Proof. intros toc probes H Hp. exact (stores_agree_tree toc probes (implicit_tocb_ok toc H) Hp). Qed.
Print Assumptions C05_stores_agree_implicit.

(* ... and with an EXPLICIT ROOT ENTRY ("./", "/", ".", "a/.."; Model.rooted_tocb): the first entry may be a directory whose
   cleaned name is empty; it overwrites the attributes of the db store's root node and is the memory store's root from
   the start; both report link count 2 + subdirectories for it (fix-7) and no child "." (fix-3). *)
Theorem C05_stores_agree_rooted : forall toc probes,
  rooted_tocb toc = true -> Forall (fun p => 0 <= p) probes ->
  view_mem toc probes = view_db toc probes /\ view_mem toc probes <> None.
Proof. intros toc probes H Hp. exact (stores_agree_tree toc probes (rooted_tocb_ok toc H) Hp). Qed.
Print Assumptions C05_stores_agree_rooted.

(* ... and with BACKWARD HARDLINKS (Model.hardlink_tocb): entries may additionally be hardlinks whose cleaned target is the
   name of an EARLIER entry that is not a directory; the target may itself be a hardlink (chains of any length), may live
   in another directory, and a file may have any number of names. Both stores then show the same node under every name:
   same attributes, link count (one more per name), chunk answers and the same node identity (v_ino) for all its paths.
   Class conditions besides those of rooted_tocb: whatever has entries below it is a directory.
   Proof (Proofs/TreeAgree3.v): the relation carries the map from processed hardlink entries to the node their name
   resolves to; the db store's path lookup corresponds to the memory store's name map followed by link resolution, paths are
   unique only for directories, hardlink entries leave unmapped unreachable nodes in the memory store (the two walks run on
   the same fuel walk_fuel, so the different node counts do not matter). *)
Theorem C05_stores_agree_hardlinks : forall toc probes,
  hardlink_tocb toc = true -> Forall (fun p => 0 <= p) probes ->
  view_mem toc probes = view_db toc probes /\ view_mem toc probes <> None.
Proof. intros toc probes H Hp. exact (TreeAgree3.stores_agree_hl toc probes (TreeAgree3.hardlink_tocb_ok toc H) Hp). Qed.
Print Assumptions C05_stores_agree_hardlinks.

(* Layers in one database: whatever is opened, closed or queried on OTHER layers (any history, any candidate ids the
   id generator produces), a live layer shows exactly the same filesystem afterwards. *)
Theorem C05_db_layers_independent : forall os d id probes,
  l_find id d <> None -> (forall o, In o os -> lop_touches id o = false) ->
  l_view (l_run d os) id probes = l_view d id probes.
Proof. exact l_view_frame. Qed.
Print Assumptions C05_db_layers_independent.

(* Opening never reuses the id of a live layer, and the new layer shows exactly what a database holding only this layer
   shows (its own TOC, or the bare root when the TOC is rejected). *)
Theorem C05_db_open_fresh : forall d cands toc c, pick_id d cands 100 = Some c ->
  l_find c d = None /\
  l_view (l_step d (LOpen cands toc)) c = l_view [(c, match db_build toc with Some s => s | None => d_init end)] c.
Proof. exact l_open_fresh. Qed.
Print Assumptions C05_db_open_fresh.

(* ---------- the full agreement statement is false of the faithful models: one witness per class ---------- *)

Definition ent (name : list Z) (t : etype) : entry := E name t 0 None 0 [] 420 0 0 0 0 [] 0 0 0 0 0 0.
Definition reg (name : list Z) (size dg cdg : Z) : entry := E name TReg size None 0 [] 420 0 0 0 0 [] 100 0 0 0 dg cdg.
Definition hardlink (name target : list Z) : entry := E name THardlink 0 None 0 target 0 0 0 0 0 [] 0 0 0 0 0 0.

(* F12: a hardlink entry before the entry it names — memory accepts, db rejects *)
Theorem C05_stores_agree_refuted_forward_hardlink : exists toc,
  conforming toc = true /\ view_mem toc [] <> None /\ view_db toc [] = None.
Proof. exists [hardlink [10] [11]; reg [11] 5 7 8]. vm_compute. repeat split. discriminate. Qed.
Print Assumptions C05_stores_agree_refuted_forward_hardlink.

(* F52: TOC starting with a chunk entry (not conforming; the accept/reject clause) — memory accepts, db rejects *)
Theorem C05_stores_accept_same_refuted_chunk_first : exists toc,
  view_mem toc [] <> None /\ view_db toc [] = None.
Proof. exists [ent [11] TChunk; reg [11] 5 7 8]. vm_compute. split; [discriminate|reflexivity]. Qed.
Print Assumptions C05_stores_accept_same_refuted_chunk_first.

(* F11: a directory entry after an entry below it — both accept, the root's link count differs (3 vs 4) *)
Theorem C05_stores_agree_refuted_dir_after_child : exists toc,
  conforming toc = true /\
  option_map a_nlink (root_attr_of (view_mem toc [])) = Some 3 /\
  option_map a_nlink (root_attr_of (view_db toc [])) = Some 4.
Proof. exists [reg [10; 11] 5 7 8; ent [10] TDir]. vm_compute. repeat split. Qed.
Print Assumptions C05_stores_agree_refuted_dir_after_child.

(* F13: db GetAttr(root) does not wait for the TOC to be loaded: before that it reports another root than afterwards *)
Theorem C05_root_attr_stable_refuted : exists toc,
  conforming toc = true /\ root_attr_of (view_db toc []) <> Some db_early_root_attr.
Proof. exists [ent [10] TDir]. vm_compute. split; [reflexivity|discriminate]. Qed.
Print Assumptions C05_root_attr_stable_refuted.

(* ---------- non-vacuity ---------- *)

(* a conforming two-chunk file (sizes 4+3, second chunk size implied) satisfies the hypotheses of the chunk theorems *)
Example C05_file_conforming_nonvacuous :
  let r := E [11] TReg 7 None 0 [] 420 0 0 0 0 [] 100 0 0 4 9 8 in
  let c := E [11] TChunk 0 None 0 [] 0 0 0 0 0 [] 150 0 4 0 0 6 in
  file_conforming r [c] /\ file_mem_lookup r [c] 5 = Some (4, 3, 6) /\ file_db_lookup r [c] 5 = Some (4, 3, 6).
Proof.
  split; [|split; reflexivity].
  constructor.
  - reflexivity.
  - repeat constructor.
  - reflexivity.
  - simpl. split; [intros x [<-|[]]; vm_compute; reflexivity|]. split; [intros x []|exact I].
  - simpl. repeat split; vm_compute; reflexivity.
  - repeat constructor; vm_compute; reflexivity.
Qed.

(* a TOC with an implicit parent, a repeated directory with other attributes, a root entry "./", a hardlink to a hardlink,
   a respelled name and an empty-valued xattr is conforming, accepted by both models and shown identically *)
Example C05_agree_nonvacuous :
  let toc := [ E [1; 0] TDir 0 (Some 5) 0 [] 457 3 0 0 0 [(1, 0); (2, 5)] 0 0 0 0 0 0;
               ent [10] TDir; reg [10; 11] 5 7 8; E [2; 10] TDir 0 None 0 [] 448 9 9 0 0 [] 0 0 0 0 0 0;
               hardlink [12; 13] [1; 10; 11]; hardlink [14] [12; 2; 12; 13] ] in
  conforming toc = true /\ view_mem toc [0; 4; 5] = view_db toc [0; 4; 5] /\ view_mem toc [] <> None.
Proof. vm_compute. repeat split. discriminate. Qed.

(* two layers in one database, one closed: the other one still shows its filesystem *)
(* simple_toc is satisfiable by a nested tree with respelled names, xattrs (one empty-valued) and a non-empty file *)
Example C05_simple_toc_nonvacuous :
  let d := E [1; 10; 0] TDir 0 (Some 5) 0 [] 493 3 4 0 0 [(1, 0); (2, 5)] 0 0 0 0 0 0 in
  let f := E [0; 10; 1; 11] TReg 9 None 0 [] 420 0 0 0 0 [] 100 0 0 0 7 8 in
  let l := E [12; 2; 13] TSymlink 0 None 6 [] 511 0 0 0 0 [] 0 0 0 0 0 0 in
  simple_toc [d; f; l] /\ (exists v, view_mem [d; f; l] [0; 8; 9] = Some v /\ length v = 4%nat).
Proof.
  split.
  - split; [|split].
    + constructor; [|constructor; [|constructor; [|constructor]]].
      * constructor; [reflexivity|simpl; lia|vm_compute; discriminate|intro H; discriminate H|intros _; reflexivity].
      * constructor; [reflexivity|simpl; lia|vm_compute; discriminate| |intro H; exfalso; apply H; reflexivity].
        intros _. simpl. split; [lia|]. split; [reflexivity|]. split; [left; reflexivity|intro H; discriminate H].
      * constructor; [reflexivity|simpl; lia|vm_compute; discriminate|intro H; discriminate H|intros _; reflexivity].
    + vm_compute. repeat constructor; simpl; intuition discriminate.
    + intros i e H. destruct i as [|[|[|i]]]; simpl in H; inversion H; subst.
      * left. reflexivity.
      * right. exists 0%nat. eexists. split; [lia|]. split; reflexivity.
      * left. reflexivity.
      * destruct i; discriminate.
  - eexists. split; [vm_compute; reflexivity|reflexivity].
Qed.

(* implicit_tocb holds of a TOC whose files sit three levels deep below directories that have no entries, next to an
   explicit directory; both stores show 8 nodes *)
Example C05_implicit_toc_nonvacuous :
  let f1 := E [10; 11; 12; 13] TReg 9 None 0 [] 420 0 0 0 0 [] 100 0 0 0 7 0 in
  let d := E [1; 20; 0] TDir 0 (Some 5) 0 [] 493 3 4 0 0 [(1, 0)] 0 0 0 0 0 0 in
  let f2 := E [20; 21; 22] TSymlink 0 None 6 [] 511 0 0 0 0 [] 0 0 0 0 0 0 in
  implicit_tocb [f1; d; f2] = true /\ (exists v, view_db [f1; d; f2] [0; 9] = Some v /\ length v = 8%nat).
Proof. split; [vm_compute; reflexivity|]. eexists. split; [vm_compute; reflexivity|reflexivity]. Qed.

(* rooted_tocb holds of a TOC starting with "./" (own uid, mode, xattr) followed by files below implicit directories *)
Example C05_rooted_toc_nonvacuous :
  let r := E [1; 0] TDir 0 (Some 5) 0 [] 448 7 7 0 0 [(3, 4)] 0 0 0 0 0 0 in
  let f1 := E [1; 10; 11; 12] TReg 9 None 0 [] 420 0 0 0 0 [] 100 0 0 9 7 8 in
  let f2 := E [10; 13] TFifo 0 None 0 [] 420 0 0 0 0 [] 0 0 0 0 0 0 in
  rooted_tocb [r; f1; f2] = true /\ implicit_tocb [r; f1; f2] = false
  /\ (exists v, view_mem [r; f1; f2] [0] = Some v /\ length v = 5%nat /\ option_map a_uid (root_attr_of (Some v)) = Some 7).
Proof. split; [vm_compute; reflexivity|]. split; [vm_compute; reflexivity|]. eexists. split; [vm_compute; reflexivity|split; reflexivity]. Qed.

(* hardlink_tocb holds of a TOC with a root entry, a file below implicit directories, a hardlink to it in another
   directory, a hardlink to that hardlink (respelled target) and a symlink; the file has link count 3 under each of its
   three names and all three paths carry the same node identity *)
Example C05_hardlink_toc_nonvacuous :
  let r := E [1; 0] TDir 0 (Some 5) 0 [] 448 7 7 0 0 [] 0 0 0 0 0 0 in
  let f1 := E [10; 11; 12] TReg 9 None 0 [] 420 0 0 0 0 [(3, 0)] 100 0 0 9 7 8 in
  let h1 := hardlink [13; 14] [1; 10; 11; 12] in
  let h2 := hardlink [15] [13; 2; 13; 14] in
  let sl := E [10; 16] TSymlink 0 None 6 [] 511 0 0 0 0 [] 0 0 0 0 0 0 in
  let toc := [r; f1; h1; h2; sl] in
  hardlink_tocb toc = true /\ rooted_tocb toc = false /\
  option_map (fun v => map (fun n => (v_path n, a_nlink (v_attr n), v_ino n)) (filter v_reg v)) (view_db toc [0])
    = Some [([10; 11; 12], 3, 3%nat); ([13; 14], 3, 3%nat); ([15], 3, 3%nat)].
Proof. split; [vm_compute; reflexivity|]. split; vm_compute; reflexivity. Qed.

(* a two-chunk file below an implicit directory, followed by a hardlink to it and a directory: the slices of both
   interpreters are the tiling table of the file *)
Example C05_chunk_slice_nonvacuous :
  let r := E [10; 11] TReg 7 None 0 [] 420 0 0 0 0 [] 100 0 0 4 9 8 in
  let c := E [10; 11] TChunk 0 None 0 [] 0 0 0 0 0 [] 150 0 4 0 0 6 in
  let pre := [ent [20] TDir] in
  let post := [hardlink [21] [10; 11]; ent [22] TDir] in
  chunks_of (clean (e_name r)) (p1_chunks (pass1 (pre ++ r :: [c] ++ post))) = file_table r [c]
  /\ option_map (fun s => read_chunks (chunks_at s 2) 7) (db_build (pre ++ r :: [c] ++ post)) = Some (file_table r [c]).
Proof. vm_compute. split; reflexivity. Qed.

Example C05_bytes_nonvacuous :
  encode_int 300 = [216; 4] /\ encode_int (-1) = [1] /\ decode_int [216; 4] = Some 300 /\ clean [1; 10; 2; 0; 11; 12; 2] = [11].
Proof. vm_compute. repeat split. Qed.

Example C05_layers_nonvacuous :
  let d := l_run [] [LOpen [1] [ent [10] TDir]; LOpen [1; 2] [reg [11] 5 7 8]] in
  l_find 1 d <> None /\ l_find 2 d <> None /\ l_view (l_run d [LClose 2; LOpen [2] []]) 1 [] = l_view d 1 [].
Proof. vm_compute. repeat split; discriminate. Qed.
