(* C02 — Lazily served files and metadata equal the source tar under any access history.
   Statements only; every proof is [exact <lemma of Proofs/ChunkRead.v or Proofs/TarView.v>].

   Byte path (Model/ChunkRead.v): chunk tables as estargz.Writer emits them and Reader.initFields fixes them up,
   Reader.ChunkEntryForOffset (sort.Search), the assembly loop of fs/reader file.ReadAt over an arbitrary chunk cache
   and the decompressing reader (with its pre-reader side effect on the cache).
   Tree (Model/TarView.v): clean entry names, the flat view a tar describes, the mode conversion to FUSE. *)
From Coq Require Import List ZArith Bool Arith String Ascii.
From SV Require Import Model.ChunkRead Model.TarView Proofs.ChunkRead Proofs.TarView.
Import ListNotations.
Open Scope Z_scope.

(* chunks_tile: for every file size n and chunk size cs > 0 the chunk table the writer emits (after the ChunkSize
   fix-up of initFields) either is the single entry [0,n) or a list of >= 2 non-empty contiguous chunks covering [0,n). *)
Theorem C02_chunks_tile :
  forall n cs, 0 <= n -> 0 < cs ->
    0 <= n /\
    (((List.length (t_chunks (mk_table n cs)) < 2)%nat /\ t_ent (mk_table n cs) = mkChunk 0 n) \/
     ((2 <= List.length (t_chunks (mk_table n cs)))%nat /\ tiles 0 (t_chunks (mk_table n cs)) n)).
Proof. exact mk_table_ok. Qed.
Print Assumptions C02_chunks_tile.

(* chunk_lookup_correct: on every tiling table ChunkEntryForOffset returns a chunk that contains the offset and lies
   inside the file for 0 <= x < n, and nothing at or past EOF *)
Theorem C02_chunk_lookup_correct :
  forall t n, TableOK t n ->
    (forall x ch, 0 <= x -> chunk_for_offset t x = Some ch ->
        0 <= c_off ch /\ c_off ch <= x < c_off ch + c_size ch /\ c_off ch + c_size ch <= n)
    /\ (forall x, 0 <= x < n -> chunk_for_offset t x <> None)
    /\ (forall x, n <= x -> chunk_for_offset t x = None).
Proof.
  intros t n H. destruct (chunk_for_offset_spec t n H) as [H1 H2 H3]. exact (conj H1 (conj H2 H3)).
Qed.
Print Assumptions C02_chunk_lookup_correct.

(* ... and that chunk is unique: two lookups give the same chunk or disjoint chunks *)
Theorem C02_chunk_lookup_unique :
  forall t n x y ch ch', TableOK t n -> 0 <= x -> 0 <= y ->
    chunk_for_offset t x = Some ch -> chunk_for_offset t y = Some ch' ->
    ch = ch' \/ c_off ch + c_size ch <= c_off ch' \/ c_off ch' + c_size ch' <= c_off ch.
Proof. exact chunk_for_offset_unique. Qed.
Print Assumptions C02_chunk_lookup_unique.

(* read_exact (generic form, for reuse): for ANY chunk lookup that satisfies the lookup contract for a file of
   [zlen data] bytes, ANY notion of honest cache that is sound for Get and closed under inserting true chunk bytes,
   ANY underlying reader that returns the true chunk bytes and keeps the cache honest, ANY interference [env] that keeps
   the cache honest and acts between the cache operations of the call: one ReadAt(p, offset) returns
   exactly data[offset : offset + min(len p, n - offset)] and leaves the cache honest. No panic, no error, terminates. *)
Theorem C02_read_exact_generic :
  forall (id : nat) (lookup : Z -> option chunk) (under : cache -> chunk -> option (bytes * cache))
         (env : nat -> bool -> cache -> cache) (data : bytes) (Hon : cache -> Prop),
    LookupSpec lookup (zlen data) ->
    (forall c o s v, Hon c -> c (id, o, s) = Some v -> v = slice o s data) ->
    (forall c o s, Hon c -> Hon (cadd c (id, o, s) (slice o s data))) ->
    (forall k b c, Hon c -> Hon (env k b c)) ->
    (forall c ch, Hon c -> 0 <= c_off ch -> 0 <= c_size ch -> c_off ch + c_size ch <= zlen data ->
        exists c', under c ch = Some (slice (c_off ch) (c_size ch) data, c') /\ Hon c') ->
    forall c offset plen, Hon c -> 0 <= offset -> 0 <= plen ->
      exists c' tr', read_at id lookup under env c offset plen
                     = (ROk (slice offset (Z.min plen (zlen data - offset)) data), c', tr') /\ Hon c'.
Proof. exact read_at_exact. Qed.
Print Assumptions C02_read_exact_generic.

(* schedules: a read whose cache operations are interleaved with ARBITRARY honest interference (concurrent readers,
   prefetch, background fetch, evictions: before every probe and between every fetch and its insertion) is exact *)
Theorem C02_read_exact_under_interference :
  forall L i (env : nat -> bool -> cache -> cache) c off len,
    LayerOK L -> Honest L c -> (forall k b c0, Honest L c0 -> Honest L (env k b c0)) -> 0 <= off -> 0 <= len ->
    exists c' tr, read_file_env L i env c off len
                  = (ROk (slice off (Z.min len (zlen (f_data (file_at L i)) - off)) (f_data (file_at L i))), c', tr)
                  /\ Honest L c'.
Proof. exact read_file_env_exact. Qed.
Print Assumptions C02_read_exact_under_interference.

(* read_exact: for every layer whose files have tiling chunk tables, every honest cache state (whatever was read,
   prefetched, cached or evicted before), every file, offset and length: the read returns exactly the slice of the
   file content, short at EOF, never wrong; the cache stays honest. *)
Theorem C02_read_exact :
  forall L i c off len, LayerOK L -> Honest L c -> 0 <= off -> 0 <= len ->
    exists c' tr, read_file L i c off len
                  = (ROk (slice off (Z.min len (zlen (f_data (file_at L i)) - off)) (f_data (file_at L i))), c', tr)
                  /\ Honest L c'.
Proof. exact read_file_exact. Qed.
Print Assumptions C02_read_exact.

(* lifted over arbitrary histories: any list of reads (any file, offset >= 0, length >= 0), prefetches, evictions and
   arbitrary interference that leaves the cache honest (other readers, background fetch): EVERY read of the history
   returns exactly the bytes of the source, and the final cache is honest. *)
Theorem C02_read_exact_any_history :
  forall L os c, LayerOK L -> Honest L c -> Forall (op_ok L) os ->
    Honest L (fst (run L c os)) /\ map (option_map fst) (snd (run L c os)) = map (expected_out L) os.
Proof. exact run_exact. Qed.
Print Assumptions C02_read_exact_any_history.

(* the fold_left form: a read issued after any history *)
Theorem C02_read_after_any_history :
  forall L os c i off len, LayerOK L -> Honest L c -> Forall (op_ok L) os -> 0 <= off -> 0 <= len ->
    exists c' tr, read_file L i (fold_left (fun c o => fst (step L c o)) os c) off len
                  = (ROk (slice off (Z.min len (zlen (f_data (file_at L i)) - off)) (f_data (file_at L i))), c', tr)
                  /\ Honest L c'.
Proof. exact read_after_history. Qed.
Print Assumptions C02_read_after_any_history.

(* passthrough_exact (generic form): GetPassthroughFd - chunk enumeration, path choice (sequential when a chunk is larger than
   or crosses a merge buffer, when there is no worker or no merge buffer; else the batched merge with checkHoles), for ANY
   merge buffer size and worker count (also <= 0), any lookup meeting the contract and returning equal-or-disjoint chunks, any
   honest cache and underlying reader: the file handed out holds exactly the file content; the merged entry is cached, honest. *)
Theorem C02_passthrough_exact_generic :
  forall (id : nat) (lookup : Z -> option chunk) (under : cache -> chunk -> option (bytes * cache))
         (data : bytes) (Hon : cache -> Prop),
    LookupSpec lookup (zlen data) -> LookupDisjoint lookup ->
    (forall c o s v, Hon c -> c (id, o, s) = Some v -> v = slice o s data) ->
    (forall c o s, Hon c -> Hon (cadd c (id, o, s) (slice o s data))) ->
    (forall c ch, Hon c -> 0 <= c_off ch -> 0 <= c_size ch -> c_off ch + c_size ch <= zlen data ->
        exists c', under c ch = Some (slice (c_off ch) (c_size ch) data, c') /\ Hon c') ->
    forall fuel c mbs workers, zlen data < Z.of_nat fuel -> Hon c ->
      exists c', pt_fd id lookup under fuel c mbs workers = (ROk data, c') /\ Hon c' /\ c' (id, 0, zlen data) = Some data.
Proof. exact pt_fd_exact. Qed.
Print Assumptions C02_passthrough_exact_generic.

(* passthrough_exact: for every layer with tiling tables (either metadata store), every file, every honest cache state,
   every merge buffer size and worker count *)
Theorem C02_passthrough_exact :
  forall L i c mbs workers, LayerOK L -> Honest L c ->
    exists c', pt_file L i c mbs workers = (ROk (f_data (file_at L i)), c') /\ Honest L c'
               /\ c' (i, 0, zlen (f_data (file_at L i))) = Some (f_data (file_at L i)).
Proof. exact pt_file_exact. Qed.
Print Assumptions C02_passthrough_exact.

(* ... and a repeat (any parameters), after any history of reads, merges, prefetches, evictions and honest interference
   in between, hands out the same bytes *)
Theorem C02_passthrough_repeat :
  forall L i c mbs workers os mbs' workers', LayerOK L -> Honest L c -> Forall (op_ok L) os ->
    fst (pt_file L i c mbs workers) = ROk (f_data (file_at L i))
    /\ fst (pt_file L i (fold_left (fun c o => fst (step L c o)) os (snd (pt_file L i c mbs workers))) mbs' workers')
       = ROk (f_data (file_at L i)).
Proof. exact pt_file_repeat. Qed.
Print Assumptions C02_passthrough_repeat.

(* the hypotheses are met by every layer the writer produces (any contents, any chunk size > 0, any member grouping),
   as indexed by EITHER metadata store (memory: initFields tables; db: initNodes + readChunks tables), and by the cold cache *)
Theorem C02_writer_layers_ok :
  forall db cs (fs : list (bytes * list (Z * list key))), 0 < cs ->
    LayerOK (map (writer_file db cs) fs) /\ Honest (map (writer_file db cs) fs) cempty.
Proof. intros db cs fs H. exact (conj (layer_of_writer_ok db cs fs H) (honest_empty _)). Qed.
Print Assumptions C02_writer_layers_ok.

(* db store: the chunk table it rebuilds (sizes recomputed from offsets) tiles [0,n) for every file size and chunk size,
   and its ChunkEntryForOffset (plain search, no single-entry shortcut) meets the same lookup contract *)
Theorem C02_db_chunks_tile_and_lookup :
  forall n cs, 0 <= n -> 0 < cs ->
    tiles 0 (t_chunks (mk_table_db n cs)) n
    /\ (forall x ch, 0 <= x -> chunk_for_offset_db (mk_table_db n cs) x = Some ch ->
          0 <= c_off ch /\ c_off ch <= x < c_off ch + c_size ch /\ c_off ch + c_size ch <= n)
    /\ (forall x, 0 <= x < n -> chunk_for_offset_db (mk_table_db n cs) x <> None)
    /\ (forall x, n <= x -> chunk_for_offset_db (mk_table_db n cs) x = None).
Proof.
  intros n cs Hn Hcs. pose proof (db_chunks_tiles n cs Hn Hcs) as Ht.
  destruct (search_lookup_lookupspec _ n Hn Ht) as [H1 H2 H3]. exact (conj Ht (conj H1 (conj H2 H3))).
Qed.
Print Assumptions C02_db_chunks_tile_and_lookup.

(* short at EOF, never wrong: the returned slice has min(len, n - off) bytes (none past EOF) and is a prefix of the
   file content from off *)
Theorem C02_short_at_eof :
  forall (data : bytes) off len, 0 <= off -> 0 <= len ->
    zlen (slice off (Z.min len (zlen data - off)) data) = Z.max 0 (Z.min len (zlen data - off))
    /\ exists rest, skipn (Z.to_nat off) data = slice off (Z.min len (zlen data - off)) data ++ rest.
Proof. intros data off len Ho Hl. exact (conj (slice_min_length data off len Ho Hl) (slice_prefix_of_rest data off _ Ho)). Qed.
Print Assumptions C02_short_at_eof.

(* clean_name laws *)
Theorem C02_clean_name_idempotent :
  forall s, clean_name (join_slash (clean_name s)) = clean_name s.
Proof. exact clean_name_idem. Qed.
Print Assumptions C02_clean_name_idempotent.

Theorem C02_clean_name_prefixes :
  forall s, clean_name (String "." (String "/" s)) = clean_name s
         /\ clean_name (String "/" s) = clean_name s
         /\ clean_name (String "." (String "." (String "/" s))) = clean_name s.
Proof. intros s. exact (conj (clean_name_dot_slash s) (conj (clean_name_slash s) (clean_name_dotdot_slash s))). Qed.
Print Assumptions C02_clean_name_prefixes.

(* never escapes the root: a clean path has no empty, "." or ".." component *)
Theorem C02_clean_name_never_escapes :
  forall s, Forall (fun c => c <> ""%string /\ c <> "."%string /\ c <> ".."%string) (clean_name s).
Proof. exact clean_name_good. Qed.
Print Assumptions C02_clean_name_never_escapes.

(* attr conversion: for EVERY tar header mode (any integer) and every entry type the st_mode handed to FUSE
   (fileModeToSystemMode of fileInfo.Mode) is S_IF<type> | (mode & 07777) *)
Theorem C02_attr_mode_conversion :
  forall k m, fuse_mode (stat_mode k m) = Z.lor (posix_ifmt k) (Z.land m 4095).
Proof. exact mode_conversion. Qed.
Print Assumptions C02_attr_mode_conversion.

(* ---- the tree: how [view_of_tar] is tied to the code ----
   [view_of_tar] (Model/TarView.v) is a SPECIFICATION at tar level: clean path -> node, over tar entries with their names as
   strings. It is not derived from a model of the interpreter, and it is NOT proved equal to own-C05's interpreter model
   (Model/TreeStores.v: estargz initFields as a two-pass array machine [mem_build] + pre-order walk [view_mem], the db store's
   streaming [initNodes]); C05 proves the two STORES equal to each other on the classes [implicit_tocb] / [rooted_tocb], which
   says nothing about either being what the tar describes. Bridging the two developments needs (a) a model of the writer's
   TOC emission from tar entries (names, type mapping, uname/gname elision, importTar's re-ordering, sortEntries), which
   exists only for chunk tables here ([emit_chunks]); (b) a translation between the representations (strings vs interned
   integers, forward vs reversed paths, flat map vs walk of an index array) and (c) an invariant of [fold_left pass2_step]
   over the node array relating it to [node_at] - the proof C05 did for store-vs-store agreement, once more against the spec.
   That is not done. The tie of the tree spec is therefore:
     1. correspondence: on every generated tar, [view_of_tar] is compared node by node (all attributes, node identity, FUSE
        attributes) with what metadata/memory AND the db store serve for the blob estargz.Build makes of that tar (both
        harnesses, every run; the known divergences F65, F66 and C05-F12 are inputs of the model, see Model/Serve.v);
     2. the model-free Go oracle (servex/oracle.go) computes the same view independently from the tar and checks the stores;
     3. the theorems below, which are properties OF THE SPEC (that it has the clauses of the property: last duplicate wins,
        implicit parents, hardlink = target) and of the shared mode/name functions - not of the interpreter.
   The byte path, in contrast, is proved about transcriptions of the code itself (tables, lookup, ReadAt, GetPassthroughFd). *)

(* view: the last duplicate of a name wins and is served with its own attributes and content *)
Theorem C02_last_duplicate_wins :
  forall tar e, reserved (cname e) = false -> t_kind e <> KHardlink ->
    find_ent (dedup (tar ++ [e])) (cname e) = Some e
    /\ node_at (dedup (tar ++ [e])) (cname e) = Some (node_of_ent (dedup (tar ++ [e])) e).
Proof. intros tar e Hr Hk. exact (conj (last_duplicate_wins tar e Hr) (last_duplicate_node tar e Hr Hk)). Qed.
Print Assumptions C02_last_duplicate_wins.

(* ... in general: an entry whose name no later entry of the archive repeats is the one that is served *)
Theorem C02_last_of_name_wins :
  forall l1 e l2, reserved (cname e) = false -> Forall (fun x => cname x <> cname e) l2 ->
    find_ent (dedup (l1 ++ e :: l2)) (cname e) = Some e.
Proof. exact last_of_name_wins. Qed.
Print Assumptions C02_last_of_name_wins.

(* view: a missing parent is a directory rwxr-xr-x owned by root *)
Theorem C02_implicit_parent :
  forall es p, find_ent es p = None -> existsb (path_eqb p) (all_paths es) = true ->
    exists n, node_at es p = Some n /\ v_kind n = KDir /\ fuse_mode (v_mode n) = Z.lor S_IFDIR 493 /\ v_uid n = 0 /\ v_gid n = 0.
Proof. exact implicit_parent. Qed.
Print Assumptions C02_implicit_parent.

(* view: a hardlink is served as the node of its target *)
Theorem C02_hardlink_denotes_target :
  forall es h t, find_ent es (cname h) = Some h -> resolve_in es h = Some t ->
    node_at es (cname h) = Some (node_of_ent es t).
Proof. exact hardlink_denotes_target. Qed.
Print Assumptions C02_hardlink_denotes_target.

(* ---- non-vacuity ---- *)
(* a two-file layer built as the writer builds it (chunk size 4), and a history with reads across chunk boundaries,
   at and past EOF, an eviction, a prefetch and an interference step: hypotheses hold, every read is exact *)
Definition exL : layer :=
  map (writer_file false 4) [([1; 2; 3; 4; 5; 6; 7; 8; 9; 10]%N, []); ([]%N, [])].
Definition exLdb : layer :=
  map (writer_file true 4) [([1; 2; 3; 4; 5; 6; 7; 8; 9; 10]%N, []); ([]%N, [])].
Definition exOps : list op :=
  [Read 0 2 7; Evict [(0%nat, 4, 4)]; Read 0 3 3; Read 0 9 5; Read 0 10 3; Prefetch; Env (honest_on exL [(0%nat, 8, 2)]); Read 0 0 20; Read 1 0 4].
Example C02_nonvacuous_history :
  LayerOK exL /\ Honest exL cempty /\ Forall (op_ok exL) exOps /\
  map (option_map fst) (snd (run exL cempty exOps))
  = [Some (ROk [3; 4; 5; 6; 7; 8; 9]%N); None; Some (ROk [4; 5; 6]%N); Some (ROk [10]%N); Some (ROk []); None; None;
     Some (ROk [1; 2; 3; 4; 5; 6; 7; 8; 9; 10]%N); Some (ROk [])].
Proof.
  split; [exact (layer_of_writer_ok false 4 _ ltac:(reflexivity))|].
  split; [exact (honest_empty _)|].
  split; [|vm_compute; reflexivity].
  repeat constructor; try (cbn; discriminate); try exact (honest_on_honest _ _).
Qed.

(* an adversary that empties the cache before every probe and refills it with all chunks before every insertion *)
Example C02_nonvacuous_interference :
  let env := fun (_ : nat) (b : bool) (c : cache) => if b then cempty else add_honest exL c (layer_keys exL) in
  (forall k b c0, Honest exL c0 -> Honest exL (env k b c0)) /\
  fst (fst (read_file_env exL 0 env cempty 2 7)) = ROk [3; 4; 5; 6; 7; 8; 9]%N.
Proof.
  split; [|vm_compute; reflexivity].
  intros k b c0 H. destruct b; [exact (honest_empty _)|exact (honest_add_honest _ _ _ H)].
Qed.

Example C02_nonvacuous_db :
  LayerOK exLdb /\ t_chunks (f_table (file_at exLdb 0)) = [mkChunk 0 4; mkChunk 4 4; mkChunk 8 2]
  /\ t_chunks (f_table (file_at exLdb 1)) = []
  /\ map (option_map fst) (snd (run exLdb cempty [Read 0 2 7; Read 0 9 5; Read 1 0 4]))
     = [Some (ROk [3; 4; 5; 6; 7; 8; 9]%N); Some (ROk [10]%N); Some (ROk [])].
Proof. split; [exact (layer_of_writer_ok true 4 _ ltac:(reflexivity))|]. vm_compute. repeat split. Qed.

(* passthrough: batched path (buffer 8: chunks 0-4,4-8 | 8-10), sequential paths (buffer 6: a chunk crosses; buffer 3: a chunk is
   larger; no worker; no buffer), an empty file; and what the batched merge alone does without a worker (the defect F79 that
   the path choice now excludes): zeros that pass the hole check *)
Example C02_nonvacuous_passthrough :
  map (fun p => fst (pt_file exL 0 cempty (fst p) (snd p))) [(8, 2); (6, 2); (3, 1); (8, 0); (0, 3); (-5, 1)]
  = repeat (ROk [1; 2; 3; 4; 5; 6; 7; 8; 9; 10]%N) 6
  /\ fst (pt_file exL 1 cempty 0 3) = ROk []
  /\ fst (pt_file exLdb 0 cempty 4 1) = ROk [1; 2; 3; 4; 5; 6; 7; 8; 9; 10]%N
  /\ fst (pt_batches 0%nat (under_layer exL 0) 2 0 (t_chunks (f_table (file_at exL 0))) 10 8 0 cempty [])
     = ROk (repeat 0%N 10).
Proof. vm_compute. repeat split. Qed.

Example C02_nonvacuous_table :
  mk_table 10 4 = mkTable (mkChunk 0 4) [mkChunk 0 4; mkChunk 4 4; mkChunk 8 2]
  /\ mk_table 3 4 = mkTable (mkChunk 0 3) [] /\ mk_table 0 4 = mkTable (mkChunk 0 0) [].
Proof. vm_compute. repeat split. Qed.

Example C02_nonvacuous_clean :
  clean_name "../a/./b//c/../d/" = ["a"; "b"; "d"]%string /\ clean_name "/" = [] /\ clean_name "../.." = [].
Proof. vm_compute. repeat split. Qed.

(* a tar with a duplicate, an implicit parent and a hardlink chain: the view *)
Definition exTar : list tent :=
  [mkTent "./x/f" KReg 420 0 0 1 "" 0 0 [] [1; 2]%N;
   mkTent "l1" KHardlink 0 0 0 1 "l2" 0 0 [] [];
   mkTent "/l2" KHardlink 0 0 0 1 "../x/f" 0 0 [] [];
   mkTent "x/f" KReg 384 7 8 5 "" 0 0 [] [9]%N].
Example C02_nonvacuous_view :
  match view_of_tar exTar with
  | Some v =>
      map fst v = [["l1"]; ["l2"]; []; ["x"]; ["x"; "f"]]%string
      /\ map (fun x => v_data (snd x)) v = [[9]; [9]; []; []; [9]]%N
      /\ map (fun x => v_nlink (snd x)) v = [3; 3; 3; 2; 3]
      /\ map (fun x => v_mode (snd x)) v = [384; 384; 2147484141; 2147484141; 384]
  | None => False
  end.
Proof. vm_compute. repeat split. Qed.
