From SV Require Import Model.Refcache Proofs.Refcache.
Theorem C10_placeholder : True. Proof. exact I. Qed.
Print Assumptions C10_placeholder.
