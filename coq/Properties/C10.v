(* C10 — Refcounted caches finalise each value exactly once and never while it is held.
   Statements only; every proof is [exact <lemma of Proofs/Refcache.v>]. *)
From Coq Require Import List Arith ZArith Bool.
From SV Require Import Model.Refcache Proofs.Refcache.
Import ListNotations.

(* Every reachable state (any capacity, any history of Add/Get/Remove/Expire/Release incl. repeated and
   evicting releases, timers firing anywhere): for every value ever added, the eviction callback has run at
   most once, and it has run exactly when the value has left the cache AND no holder still holds it. *)
Theorem C10_exactly_once :
  forall (c : Z) (os : list op) (i : nat) (e : ent),
    let s := exec (initZ c) os in
    nth_error (ents s) i = Some e ->
    callbacks s i <= 1 /\ (callbacks s i = 1 <-> (~ in_cache s i /\ live s i = 0)).
Proof. intros c os i e s H. exact (exactly_once_inv s i e (reach_invZ c os) H). Qed.
Print Assumptions C10_exactly_once.

(* A holder never sees its value finalised under it; a cached value is never finalised. *)
Theorem C10_never_while_held :
  forall (c : Z) os i, let s := exec (initZ c) os in
    (0 < live s i -> callbacks s i = 0) /\ (in_cache s i -> callbacks s i = 0).
Proof. intros c os i s. split; [exact (held_not_finalized s i (reach_invZ c os))|exact (cached_not_finalized s i (reach_invZ c os))]. Qed.
Print Assumptions C10_never_while_held.

(* The OnEvicted calls reported op by op (what the implementation is compared on) are exactly the
   callback history the two theorems above speak about. *)
Theorem C10_outputs_are_callbacks :
  forall (c : Z) os, fst (run (initZ c) os) = exec (initZ c) os
            /\ log (exec (initZ c) os) = concat (map snd (snd (run (initZ c) os))).
Proof. intros c os. split; [exact (run_exec os (initZ c))|exact (run_outputs os (initZ c))]. Qed.
Print Assumptions C10_outputs_are_callbacks.

(* Releasing twice is harmless: a second, non-evicting release of the same handle changes nothing
   (whatever the first release was; no invariant needed). *)
Theorem C10_double_release_harmless :
  forall s h ev, fst (step (fst (step s (Release h ev))) (Release h false)) = fst (step s (Release h ev)).
Proof. exact double_release. Qed.
Print Assumptions C10_double_release_harmless.

(* Adding an existing key returns the cached value (added = false), runs no callback, allocates nothing
   and leaves cache membership unchanged. *)
Theorem C10_add_existing_returns_cached :
  forall (c : Z) os k i, let s := exec (initZ c) os in
    lru_find (lru s) k = Some i ->
    snd (step s (Add k)) = Some (i, false)
    /\ log (fst (step s (Add k))) = log s
    /\ length (ents (fst (step s (Add k)))) = length (ents s)
    /\ lru_find (lru (fst (step s (Add k)))) k = Some i
    /\ (forall k' j, In (k', j) (lru (fst (step s (Add k)))) <-> In (k', j) (lru s)).
Proof. intros c os k i s H. exact (add_existing s k i (reach_invZ c os) H). Qed.
Print Assumptions C10_add_existing_returns_cached.

(* Re-adding a key while an older value of it is still held: the evicting release of the old value
   (which already left the cache) does not remove the new one. *)
Theorem C10_readd_while_old_held :
  forall (c : Z) os h i r e, let s := exec (initZ c) os in
    nth_error (hs s) h = Some (i, r) -> nth_error (ents s) i = Some e -> e_fin e = true ->
    lru (fst (step s (Release h true))) = lru s.
Proof. intros c os h i r e s. exact (release_old_keeps_cache s h i r e (reach_invZ c os)). Qed.
Print Assumptions C10_readd_while_old_held.

(* Capacity eviction: an LRU cache created with MaxEntries = c never holds more than c values when c > 0
   (so "capacity eviction" in C10_exactly_once is really exercised: the (c+1)-th distinct key evicts the least
   recently used one), and holds nothing at all when c < 0 (groupcache/lru then evicts on every Add — the value is
   handed to its adder already out of the cache, still covered by C10_exactly_once); the capacity never changes. *)
Theorem C10_capacity_bound :
  forall (c : Z) os, let s := exec (initZ c) os in
    cap s = c /\ ((0 < c)%Z -> (Z.of_nat (length (lru s)) <= c)%Z) /\ ((c < 0)%Z -> lru s = []).
Proof.
  intros c os s. destruct (reach_capinv c os) as [Hc [H1 H2]]. fold s in Hc, H1, H2. rewrite Hc in H1, H2.
  exact (conj Hc (conj H1 H2)).
Qed.
Print Assumptions C10_capacity_bound.

(* Non-vacuity: a TTL history where value 0 is expired while held, key 0 re-added as value 1, the old holder
   releases with evict: value 0 finalised exactly once, value 1 still cached and held, not finalised. *)
Example C10_nonvacuous :
  let s := exec (initZ 0) [Add 0; Expire 0; Add 0; Release 0 true] in
  callbacks s 0 = 1 /\ callbacks s 1 = 0 /\ live s 1 = 1 /\ lru_find (lru s) 0 = Some 1
  /\ (exists e, nth_error (ents s) 0 = Some e /\ e_fin e = true).
Proof. vm_compute. repeat split. eexists. split; reflexivity. Qed.
