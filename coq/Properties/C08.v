(* C08 — Snapshotter keeps snapshot metadata, directories and FUSE mounts in step.
   Statements only; every proof is [exact <lemma of Proofs/Snap*.v>].
   Reachable states: [exec (init a) os] for every configuration a (asynchronous removal or not) and every
   list os of API operations, each carrying the adversary's fault choices (result of the backend Mount,
   ids whose Check fails, ids whose Unmount fails). *)
From Coq Require Import List Arith Bool.
From SV Require Import Model.Snap Model.SnapConc Proofs.SnapBase Proofs.SnapPrim Proofs.SnapInv Proofs.Snap Proofs.SnapConc.
Import ListNotations.

(* Metadata and directories in step, in every reachable state: while the snapshotter is open every snapshot
   in metadata has its directory; snapshots/ holds no temp directory and no id the sequence has not handed
   out; two different snapshots never share an id (hence never a directory). *)
Theorem C08_metadata_and_directories_in_step :
  forall (a : bool) (os : list op), let s := exec (init a) os in
    (closed s = false -> forall n i, lookup (meta s) n = Some i -> In (DId (i_id i)) (dirs s)) /\
    (forall d, In d (dirs s) -> exists id, d = DId id /\ id <= seq s) /\
    (forall n i n' i', lookup (meta s) n = Some i -> lookup (meta s) n' = Some i' -> i_id i = i_id i' -> n = n').
Proof. intros a os s. exact (live_dirs s (reach_inv a os) (reach_nt a os)). Qed.
Print Assumptions C08_metadata_and_directories_in_step.

(* After a Cleanup that returned without error (whatever Unmount failures), and after every successful
   synchronous Remove, the directories on disk are exactly those of the snapshots in metadata. *)
Theorem C08_cleanup_exact :
  forall a os ubad, let s := exec (init a) os in
    closed s = false -> snd (step s (Cleanup ubad)) = ROk ->
    let s' := fst (step s (Cleanup ubad)) in
    forall d, In d (dirs s') <-> exists n i, lookup (meta s') n = Some i /\ d = DId (i_id i).
Proof. intros a os ubad s. exact (cleanup_exact s ubad (reach_inv a os)). Qed.
Print Assumptions C08_cleanup_exact.

Theorem C08_sync_remove_exact :
  forall a os key ubad, let s := exec (init a) os in
    async s = false -> snd (step s (Remove key ubad)) = ROk ->
    let s' := fst (step s (Remove key ubad)) in
    lookup (meta s') key = None /\
    forall d, In d (dirs s') <-> exists n i, lookup (meta s') n = Some i /\ d = DId (i_id i).
Proof. intros a os key ubad s. exact (remove_sync_exact s key ubad (reach_inv a os)). Qed.
Print Assumptions C08_sync_remove_exact.

(* The parent-chain walk of storage (unbounded loop in Go, fuel in the model) never runs out of fuel and
   never meets a missing parent in a reachable state, and what it returns is the chain nearest parent first —
   also when commits rebase snapshots onto younger parents (snapshots.WithParent): the metadata stays topologically
   ordered. (Outside the model's domain: WithParent naming the commit's own name, for which the real storage
   creates a self-parented snapshot and this walk never returns: finding C08-withparent-own-name-self-parent.) *)
Theorem C08_parent_chain_total :
  forall a os p i, let s := exec (init a) os in
    lookup (meta s) p = Some i ->
    exists l, parents (fuel_of s) (meta s) p = POk l /\ chain_ids (meta s) p l.
Proof. intros a os p i s. exact (parents_never_stuck s p i (reach_inv a os)). Qed.
Print Assumptions C08_parent_chain_total.

(* Outcome of a Prepare that names a target (label containerd.io/snapshot.ref = t), in any reachable state and
   for every result of the backend Mount and of the Checks:
     - "target already exists": t is then a committed snapshot; if it did not exist before this call, it is the
       snapshot this call created: labelled remote (the caller's labels plus the remote mark), with exactly one
       live backend mount, on its own existing directory, and the key is gone;
     - or mounts are returned: only when the backend Mount failed; key is then an ordinary active snapshot with
       exactly the caller's labels (so not marked remote unless the caller passed the reserved label itself),
       no backend mount, and the mount returned is writable on its own directory;
     - or an error: nothing was created (metadata unchanged), or the fallback's chain is unavailable, or — the
       backend Mount having succeeded — the internal commit failed with something other than AlreadyExists (empty
       target ref, WithParent naming a missing / uncommitted / contradicting parent): then there is NO fallback and
       the key stays behind as an active, not-remote snapshot with exactly one live backend mount (the code's
       "prohibit to use this key again").
   Labels: metadata keeps the caller's label map minus empty-valued entries ([norm], boltutil.WriteLabels), keys
   outside the containerd.io/snapshot namespace included; the target gets that plus the remote mark.
   FULL STATEMENT (false of the code, see C08_prepare_target_outcome_refuted): the same without the two hypotheses
   [t <> key] and [t does not name an existing snapshot that is not committed]. *)
Theorem C08_prepare_target_outcome_partial :
  forall a os key parent l mok cbad t, let s := exec (init a) os in
    l_target l = Some t ->
    t <> key -> (forall j, lookup (meta s) t = Some j -> i_kind j = KCommitted) ->
    target_outcome s (fst (step s (Prepare key parent l mok cbad))) key l mok t
                   (snd (step s (Prepare key parent l mok cbad))).
Proof. intros a os key parent l mok cbad t s. exact (prepare_target s key parent l mok cbad t (reach_inv a os)). Qed.
Print Assumptions C08_prepare_target_outcome_partial.

(* The excluded class is real: naming an active snapshot (or the call's own key) as target makes Prepare report
   "target already exists" while the target is an ACTIVE snapshot (finding C08-target-names-uncommitted-snapshot;
   the harness replays both witnesses on the implementation). *)
Theorem C08_prepare_target_outcome_refuted :
  exists a os key parent l mok cbad t, let s := exec (init a) os in
    l_target l = Some t /\
    snd (step s (Prepare key parent l mok cbad)) = RTargetExists /\
    exists i, lookup (meta (fst (step s (Prepare key parent l mok cbad)))) t = Some i /\ i_kind i = KActive.
Proof.
  exists false, [Prepare 0 None no_labels true []], 1, None, (mkL (Some 0) false 0 0 None), true, [], 0.
  vm_compute. repeat split. eexists. split; reflexivity.
Qed.
Print Assumptions C08_prepare_target_outcome_refuted.

(* Mounts are handed out (by Prepare, View or Mounts) only if every snapshot on the checked chain that carries the
   remote label has a live backend mount and passed its connectivity Check in this very call. *)
Theorem C08_mounts_only_if_available :
  forall a os o m, let s := exec (init a) os in
    snd (step s o) = RMounts m ->
    forall ck, check_key o = Some ck ->
    forall n i, on_chain (meta (fst (step s o))) ck n i -> l_remote (i_labels i) = true ->
      mounted (fst (step s o)) (i_id i) = true /\ ~ In (i_id i) (cbad_of o) /\
      In (EvCheck (i_id i) true) (step_events s o).
Proof. intros a os o m s. exact (step_avail s o m (reach_inv a os)). Qed.
Print Assumptions C08_mounts_only_if_available.

(* ... and conversely: in every state (reachable or not) a call during which any connectivity Check fails returns
   Unavailable — never mounts, never another error. Together: mounts are handed out iff no Check of the call failed,
   and every remote layer of the chain was checked. *)
Theorem C08_failed_check_is_unavailable :
  forall s o id, In (EvCheck id false) (step_events s o) -> snd (step s o) = RErr EUnavail.
Proof. exact step_check_fail. Qed.
Print Assumptions C08_failed_check_is_unavailable.

(* Unmount discipline, for the events of every call in every reachable state: an Unmount that hits a live
   backend mount happens only during Close or on the directory of an id that is no longer in metadata when
   the call returns (its snapshot was removed), and every directory removal comes directly after the backend
   Unmount call for that same directory. *)
Theorem C08_unmount_discipline :
  forall a os o, let s := exec (init a) os in
    disciplined (fun d => is_close o = true \/ exists id, d = DId id /\ ~ In id (ids_of (meta (fst (step s o)))))
                None (step_events s o).
Proof. intros a os o s. exact (unmount_discipline s o (reach_inv a os)). Qed.
Print Assumptions C08_unmount_discipline.

(* Lower directories: whenever a call returns mounts, they are [mount_shape sn] for the snapshot the call is
   about, where [sn_parents sn] is exactly the parent chain, nearest parent first; [mount_shape] puts that
   list, in that order, into lowerdir (second theorem). *)
Theorem C08_lowerdir_order :
  forall a os o m, let s := exec (init a) os in
    snd (step s o) = RMounts m ->
    exists key i sn, op_key o = Some key /\ lookup (meta (fst (step s o))) key = Some i /\ m = mount_shape sn /\
      sn_id sn = i_id i /\ sn_kind sn = i_kind i /\
      match i_parent i with
      | None => sn_parents sn = []
      | Some p => chain_ids (meta (fst (step s o))) p (sn_parents sn)
      end.
Proof. intros a os o m s. exact (step_lower s o m (reach_inv a os)). Qed.
Print Assumptions C08_lowerdir_order.

Theorem C08_mount_shape_lower :
  forall sn,
    match sn_parents sn with
    | [] => mount_shape sn = MBind (sn_id sn) (kind_eqb (sn_kind sn) KView)
    | p :: rest =>
        (sn_kind sn = KActive /\ mount_shape sn = MOverlay (Some (sn_id sn)) (p :: rest)) \/
        (sn_kind sn <> KActive /\ rest = [] /\ mount_shape sn = MBind p true) \/
        (sn_kind sn <> KActive /\ rest <> [] /\ mount_shape sn = MOverlay None (p :: rest))
    end.
Proof. exact mount_shape_lower. Qed.
Print Assumptions C08_mount_shape_lower.

(* A snapshot that a Prepare committed as remote (ghost event EvRemoteCommit, emitted by the model exactly in the
   branch of Prepare where the internal commit succeeded) keeps exactly one live backend mount, on its existing
   directory, in every later reachable state, for as long as it is in metadata and the snapshotter is open —
   whatever Check/Unmount failures, removals of other snapshots, cleanups and label updates happen in between. *)
Theorem C08_remote_has_mount :
  forall a os id, let s := exec (init a) os in
    In (EvRemoteCommit id) (log s) -> closed s = false -> In id (ids_of (meta s)) ->
    mount_count s id = 1 /\ In (DId id) (dirs s).
Proof. exact remote_has_mount. Qed.
Print Assumptions C08_remote_has_mount.

(* ===================== concurrent callers (Model/SnapConc.v) =====================
   Every API call is cut into its atomic segments (bolt write transaction / read transaction / one backend call /
   one RemoveAll); [cexec (cinit a) sched] runs an arbitrary list [sched] of [Start t o] (thread t enters call o)
   and [Step t] (thread t runs its next segment): every interleaving of any number of callers that bolt's
   single-writer rule permits. Run by one thread alone the machine is compared with the implementation on every
   check run (second harness entry of props.d/C08.py). *)

(* Metadata and directories stay in step under every schedule: every snapshot in metadata has its directory (while
   open), no directory carries an id the sequence has not handed out, ids are never shared. (A temp directory of
   a failed createSnapshot can be visible until its deferred cleanup ran: that clause is sequential only.) *)
Theorem C08_conc_metadata_and_directories_in_step :
  forall a sched, let s := base (cexec (cinit a) sched) in
    (closed s = false -> forall n i, lookup (meta s) n = Some i -> In (DId (i_id i)) (dirs s)) /\
    (forall id, In (DId id) (dirs s) -> id <= seq s) /\
    (forall n i n' i', lookup (meta s) n = Some i -> lookup (meta s) n' = Some i' -> i_id i = i_id i' -> n = n').
Proof. exact conc_live_dirs. Qed.
Print Assumptions C08_conc_metadata_and_directories_in_step.

(* Unmount discipline under every schedule, for the events of every schedule step: an Unmount that hits a live
   backend mount is part of Close or concerns a DEAD id (handed out, no longer — and never again — the id of a
   snapshot in metadata) at that very moment; a directory is removed only by the thread whose previous segment was
   the backend Unmount of that same directory (frame FRm d), and that Unmount segment is followed, in that thread,
   by exactly that removal. *)
Theorem C08_conc_unmount_discipline :
  forall a sched x, let cs := cexec (cinit a) sched in
    (forall d ok, In (EvUnmount d true ok) (cstep_events cs x) ->
       (exists t ub, x = Start t (Close ub)) \/ exists id, d = DId id /\ dead (base cs) id) /\
    (forall d, In (EvRmDir d) (cstep_events cs x) ->
       (exists t ub, x = Start t (Close ub)) \/
       exists t ds ub r, x = Step t /\ frame_of (frames cs) t = Some (FRm d ds ub r)) /\
    (forall t d ds ub r, frame_of (frames cs) t = Some (FClean (d :: ds) ub r) ->
       exists lv ok, cstep_events cs (Step t) = [EvUnmount d lv ok] /\
                     frame_of (frames (cstep cs (Step t))) t = Some (FRm d ds ub r)).
Proof. exact conc_unmount_discipline. Qed.
Print Assumptions C08_conc_unmount_discipline.

(* Availability under every schedule: a call whose checks are all done returns mounts iff all of them passed, and
   then every id it had to check got [EvCheck id true] after the call read the chain ([mark]) and is not in the
   call's failing set; and the chain read hands the call every remote-labelled snapshot on the chain. *)
Theorem C08_conc_mounts_only_if_available :
  forall a sched t sn done ok cbad mark, let cs := cexec (cinit a) sched in
    frame_of (frames cs) t = Some (FChecks sn done [] ok cbad mark) ->
    rets (cstep cs (Step t)) = (t, if ok then RMounts (mount_shape sn) else RErr EUnavail) :: rets cs /\
    (ok = true -> forall id, In id done ->
       In (EvCheck id true) (skipn mark (log (base cs))) /\ ~ In id cbad).
Proof. exact conc_available. Qed.
Print Assumptions C08_conc_mounts_only_if_available.

Theorem C08_conc_chain_read_complete :
  forall cs t sn k cbad,
    frame_of (frames cs) t = Some (FChain sn (Some k) cbad) ->
    (exists ids, frame_of (frames (cstep cs (Step t))) t = Some (FChecks sn [] ids true cbad (length (log (base cs)))) /\
       forall n i, on_chain (meta (base cs)) k n i -> l_remote (i_labels i) = true -> In (i_id i) ids)
    \/ rets (cstep cs (Step t)) = (t, RErr EUnavail) :: rets cs.
Proof. exact conc_chain_read. Qed.
Print Assumptions C08_conc_chain_read_complete.

(* C08_remote_has_mount does NOT extend to every schedule. FULL STATEMENT (false): for every schedule, a snapshot
   committed as remote (EvRemoteCommit id) that is in metadata while the snapshotter is open has exactly one backend
   mount. Refuted by callers that remove and re-prepare a key while a Prepare on that key is between its backend
   Mount and its internal commit: the held Prepare commits the NEW snapshot of that key as its target, remote and
   unmounted (finding F67, replayed on the implementation by cmd/snapconc scenario "key-reuse"). The provable part is
   the sequential theorem C08_remote_has_mount above (schedules in which calls do not overlap; the single-thread
   behaviour of the concurrent machine is tied to the code by the second harness entry, not by a theorem). *)
Theorem C08_conc_remote_has_mount_refuted :
  exists a sched id, let s := base (cexec (cinit a) sched) in
    In (EvRemoteCommit id) (log s) /\ closed s = false /\ In id (ids_of (meta s)) /\ mount_count s id = 0.
Proof.
  exists false,
    [Start 0 (Prepare 30 None (mkL (Some 31) false 0 0 None) true []); Step 0; Step 0;
     Start 1 (Remove 30 []); Step 1; Step 1; Step 1;
     Start 1 (Prepare 30 None no_labels true []); Step 1;
     Step 0], 2.
  vm_compute. repeat split; auto 10.
Qed.
Print Assumptions C08_conc_remote_has_mount_refuted.

(* Non-vacuity of the concurrent machine: while thread 0's Prepare-with-target sits between its backend Mount and
   its internal commit, thread 2 starts Mounts of the active snapshot k2 and thread 1 removes k2 (metadata, Unmount,
   RemoveAll as three separate steps) before thread 2 continues; results so far and the mount table. *)
Example C08_conc_nonvacuous :
  let pre := [Start 0 (Prepare 0 None (mkL (Some 1) false 0 0 None) true []); Step 0; Step 0; Step 0;
              Start 0 (Prepare 2 (Some 1) no_labels true []); Step 0; Step 0; Step 0] in
  let sched := pre ++ [Start 0 (Prepare 3 (Some 1) (mkL (Some 4) false 0 0 None) true []); Step 0; Step 0;
                       Start 2 (Mounts 2 []); Start 1 (Remove 2 []);
                       Step 1; Step 0; Step 1; Step 1] in
  let cs := cexec (cinit false) sched in
  frames cs = [(2, FChain (mkSnap 2 KActive [1]) (Some 2) [])] /\
  rets cs = [(1, ROk); (0, RTargetExists); (0, RMounts (MOverlay (Some 2) [1])); (0, RTargetExists)] /\
  map fst (mounts (base cs)) = [3; 1].
Proof. vm_compute. repeat split. Qed.

(* Non-vacuity of the commit-failure outcome and of rebase: (1) empty target ref: Mount succeeds, the internal commit
   fails, Prepare returns the error, k0 stays active with its mount and with the non-empty labels only;
   (2) Commit with WithParent rebases k0 (id 1, created first) onto the YOUNGER remote snapshot k2 (id 2): the
   lower directories of a snapshot on top of it are [1; 2] — nearest parent first although ids are not ordered. *)
Example C08_commit_failure_and_rebase :
  (let s := fst (step (init false) (Prepare 0 None (mkL (Some 1000) false 1 2 None) true [])) in
   snd (step (init false) (Prepare 0 None (mkL (Some 1000) false 1 2 None) true [])) = RErr EOther /\
   lookup (meta s) 0 = Some (mkI 1 KActive None (mkL None false 0 2 None)) /\ mount_count s 1 = 1) /\
  (let s := exec (init false) [Prepare 0 None no_labels true []; Prepare 1 None (mkL (Some 2) false 0 0 None) true [];
                               Commit 3 0 (mkL None false 0 0 (Some 2)); Prepare 4 (Some 3) no_labels true []] in
   snd (step s (Mounts 4 [])) = RMounts (MOverlay (Some 3) [1; 2]) /\
   snd (step s (Commit 5 4 (mkL None false 0 0 (Some 2)))) = RErr EInvalid /\
   snd (step s (Commit 5 4 (mkL None false 0 0 (Some 9)))) = RErr EInvalid /\
   snd (step s (Prepare 6 None (mkL (Some 7) false 0 0 (Some 9)) true [])) = RErr ENotFound).
Proof. vm_compute. repeat split. Qed.

(* Non-vacuity: a remote chain k1 <- k2 built by two Prepare-with-target calls, an active snapshot on top:
   both layers are committed, remote, mounted exactly once; Mounts of the active snapshot lists the lower
   directories nearest parent first and fails as Unavailable when the Check of layer 1 fails; removing the
   active snapshot and then layer 2 unmounts layer 2 only, after its removal. *)
Example C08_nonvacuous :
  let h := [Prepare 0 None (mkL (Some 1) false 0 0 None) true []; Prepare 0 (Some 1) (mkL (Some 2) false 0 0 None) true [];
            Prepare 3 (Some 2) no_labels true []] in
  let s := exec (init false) h in
  mount_count s 1 = 1 /\ mount_count s 2 = 1 /\
  snd (step s (Mounts 3 [])) = RMounts (MOverlay (Some 3) [2; 1]) /\
  snd (step s (Mounts 3 [1])) = RErr EUnavail /\
  step_events (exec s [Remove 3 []]) (Remove 2 []) =
    [EvMetaRemove 2; EvUnmount (DId 2) true true; EvRmDir (DId 2)] /\
  snd (step s (Prepare 4 None (mkL (Some 5) false 0 0 None) false [])) = RMounts (MBind 4 false).
Proof. vm_compute. repeat split. Qed.
