(* C03 — Built blobs unpack like the input tar and index themselves consistently.
   Statements only; every proof is [exact <lemma of Proofs/EsgzFooter.v or Proofs/EsgzWriter.v>].

   Reading guide.  [io] gives the BYTES of the pieces of the uncompressed stream (header blocks, file
   content, padding, raw trailer); the writer machine counts with the numeric fields of the entries and
   [wf_entry] says that the declared lengths are the real ones.  [cs] / [fs] are the oracle streams
   (compressed member sizes, flush observations): every theorem holds for ALL of them, i.e. whatever the
   compressor does.  [Ok] = the Go call returned without error. *)
From Coq Require Import List NArith ZArith Bool.
From Coq Require Import String Permutation.
From SV Require Import Gen.Consts Model.EsgzFooter Model.EsgzWriter Model.EsgzBuild
     Proofs.EsgzFooter Proofs.EsgzWriter Proofs.EsgzBuild.
Import ListNotations.
Open Scope N_scope.

(* ---------------- footers: footer -> TOC offset, all offsets ---------------- *)

(* eStargz gzip footer: exactly FooterSize (51) bytes, and ParseFooter gives back the TOC offset, for every
   non-negative int64 offset. *)
Theorem C03_footer_roundtrip_gzip :
  forall off, off < 2 ^ 63 ->
    List.length (gzip_footer_bytes off) = estargz_footer_size
    /\ parse_gzip_footer (gzip_footer_bytes off) = POk (Z.of_N off) (Z.of_N off) 0.
Proof. intros off H. split; [exact (gzip_footer_length off)|exact (gzip_footer_roundtrip off H)]. Qed.
Print Assumptions C03_footer_roundtrip_gzip.

(* legacy stargz footer (47 bytes) *)
Theorem C03_footer_roundtrip_legacy :
  forall off, off < 2 ^ 63 ->
    List.length (legacy_footer_bytes off) = estargz_legacy_footer_size
    /\ parse_legacy_footer (legacy_footer_bytes off) = POk (Z.of_N off) (Z.of_N off) 0.
Proof. intros off H. split; [exact (legacy_footer_length off)|exact (legacy_footer_roundtrip off H)]. Qed.
Print Assumptions C03_footer_roundtrip_legacy.

(* zstd:chunked: the blob ends with ONE skippable frame of 8 + 40 bytes; its 40 payload bytes parse back to
   (payload size, TOC offset = payload size + 8, compressed TOC size), for every payload size whose TOC
   offset fits int64. *)
Theorem C03_footer_roundtrip_zstd :
  forall off raw comp, off + 8 < 2 ^ 63 -> comp < 2 ^ 63 ->
    zstd_footer_frame off raw comp = skippable_magic ++ [40; 0; 0; 0] ++ zstd_footer_bytes (off + 8) raw comp
    /\ List.length (zstd_footer_bytes (off + 8) raw comp) = zstd_footer_size
    /\ parse_zstd_footer (zstd_footer_bytes (off + 8) raw comp) = POk (Z.of_N off) (Z.of_N (off + 8)) (Z.of_N comp).
Proof.
  intros off raw comp H1 H2. split; [exact (proj1 (zstd_footer_frame_shape off raw comp))|].
  split; [exact (zstd_footer_length (off + 8) raw comp)|exact (zstd_footer_roundtrip off raw comp H1 H2)].
Qed.
Print Assumptions C03_footer_roundtrip_zstd.

(* external TOC: constant 46-byte footer that parses to "TOC is elsewhere, payload = whole blob" *)
Theorem C03_footer_roundtrip_exttoc :
  List.length exttoc_footer_bytes = exttoc_footer_size /\ parse_exttoc_footer exttoc_footer_bytes = POk (-1) (-1) 0.
Proof. split; [exact exttoc_footer_length|exact exttoc_footer_roundtrip]. Qed.
Print Assumptions C03_footer_roundtrip_exttoc.

(* the codecs the footers rest on *)
Theorem C03_hex16_codec :
  forall off, off < 2 ^ 63 -> List.length (hexd 16 off) = 16%nat /\ parse_int16 (hexd 16 off) = Some (Z.of_N off).
Proof. intros off H. split; [exact (hexd_length 16 off)|exact (parse_int16_hexd off H)]. Qed.
Print Assumptions C03_hex16_codec.

Theorem C03_le64_codec :
  forall n, n < 2 ^ 64 -> List.length (le_bytes 8 n) = 8%nat /\ le_val (le_bytes 8 n) = n.
Proof. intros n H. split; [exact (le_bytes_length 8 n)|exact (le_val_le_bytes8 n H)]. Qed.
Print Assumptions C03_le64_codec.

(* ---------------- builder: partition ---------------- *)

(* divideEntries is an order-preserving partition for EVERY worker count (also when unitSize = 0), and the
   single-part case of MinChunkSize > 0 is one too. *)
Theorem C03_divide_preserves_order :
  forall es k, List.concat (divide es k) = es /\ divide es k <> [].
Proof. intros es k. split; [exact (divide_concat es k)|exact (divide_nonempty es k)]. Qed.
Print Assumptions C03_divide_preserves_order.

(* ---------------- decompression is the input tar ---------------- *)

(* Writer.AppendTar / AppendTarLossLess + Close: whatever the compressor does, the concatenated member payloads
   are the serialisation of the input entries in order (entries named stargz.index.json dropped), followed
   in lossless mode by the raw trailer of the input; and the bytes fed to the DiffID hash are these bytes. *)
Theorem C03_writer_decompresses_to_input :
  forall i o tlen es cs fs w, Forall (wf_entry i) es ->
    run_writer i o tlen es cs fs = Ok w ->
    payloads (w_closed w) = ser i es ++ (if o_lossless o && (0 <? tlen) then trail i else [])
    /\ w_diff w = payloads (w_closed w).
Proof. intros i o tlen es cs fs w W H. exact (writer_payload i o tlen es cs fs w W H). Qed.
Print Assumptions C03_writer_decompresses_to_input.

(* Build with any worker count (parallel sub-blobs concatenated by closeWithCombine), Writer and lossless. *)
Theorem C03_blob_decompresses_to_input :
  forall i m chunk minc tlen es cs fs b, Forall (wf_entry i) es ->
    build_blob i m chunk minc tlen es cs fs = Ok b ->
    payloads (b_members b) = ser i es ++ match m with MLossless => if 0 <? tlen then trail i else [] | _ => [] end.
Proof. intros i m chunk minc tlen es cs fs b W H. exact (build_payload i m chunk minc tlen es cs fs b W H). Qed.
Print Assumptions C03_blob_decompresses_to_input.

(* ---------------- the blob indexes itself consistently ---------------- *)

(* For Writer, lossless append and Build with ANY worker count, ANY compressed sizes and flush observations:
   the offset handed to WriteTOCAndFooter (what the footer records) is the end of the payload members, and
   every offset-carrying TOC entry (non-empty "reg", "chunk") belongs to a regular file [e] of the input,
   its [offset] is the compressed start of a member of the blob, and decompressing from there the bytes
   [innerOffset, innerOffset + len) are exactly the bytes [chunkOffset, chunkOffset + len) of that file,
   where len is computed the way a reader does (chunkSize, or the rest of the file when it is 0).
   Offsets stay right across closeWithCombine's rebasing of the parallel sub-blobs. *)
Theorem C03_self_index_consistent :
  forall i m chunk minc tlen es cs fs b, Forall (wf_entry i) es ->
    build_blob i m chunk minc tlen es cs fs = Ok b ->
    b_total b = csum (b_members b) /\
    forall t, In t (b_toc b) -> is_data t = true ->
      exists e, In e es /\ e_id e = t_id t /\ e_kind e = KReg /\ located i (b_members b) e t.
Proof. intros i m chunk minc tlen es cs fs b W H. exact (build_self_index i m chunk minc tlen es cs fs b W H). Qed.
Print Assumptions C03_self_index_consistent.

(* The TOC is complete and ordered: its entries are, input entry after input entry (dropped stargz.index.json
   entries excepted), one entry for a non-regular or empty file and one "reg" followed by "chunk"s for a
   non-empty file, whose (chunkOffset, chunkSize) are the ranges [chunks chunkSize fileSize]; and those
   ranges, read in order, give back the whole file.  Same for every worker count. *)
Theorem C03_toc_complete_and_tiling :
  forall i m chunk minc tlen es cs fs b,
    build_blob i m chunk minc tlen es cs fs = Ok b ->
    let o := mkO chunk minc match m with MLossless => true | _ => false end in
    map strip (b_toc b) = flat_map (toc_spec o) es
    /\ forall e, N.of_nat (List.length (content i e)) = data_size e ->
         List.concat (map (chunk_bytes i e) (chunks (eff_chunk o) (data_size e))) = content i e.
Proof.
  intros i m chunk minc tlen es cs fs b H o. split; [exact (build_toc_complete i m chunk minc tlen es cs fs b H)|].
  intros e He. exact (spec_chunks_tile i o e He).
Qed.
Print Assumptions C03_toc_complete_and_tiling.

(* Appending a tar in several AppendTar calls on one Writer is the same as appending the concatenation in one
   call (holds for the code after C03-fix-1, which the model follows), so every theorem above also covers a
   Writer fed by several calls, MinChunkSize > 0 included. *)
Theorem C03_append_calls_compose :
  forall i o calls s, append_calls i o s calls = run_entries i o s (List.concat calls).
Proof. intros i o calls s. exact (append_calls_concat i o calls s). Qed.
Print Assumptions C03_append_calls_compose.

(* The uncompressed-byte counter (what Build reports as UncompressedSize for the payload part, and what
   innerOffset is measured with) is the List.length of the decompressed payload, for every mode and worker count. *)
Theorem C03_uncompressed_counter :
  forall i m chunk minc tlen es cs fs b, Forall (wf_entry i) es ->
    (m = MLossless -> 0 < tlen -> N.of_nat (List.length (trail i)) = tlen) ->
    build_blob i m chunk minc tlen es cs fs = Ok b ->
    b_unc b = N.of_nat (List.length (payloads (b_members b))).
Proof. intros i m chunk minc tlen es cs fs b W T H. exact (build_unc i m chunk minc tlen es cs fs b W T H). Qed.
Print Assumptions C03_uncompressed_counter.

(* ---------------- estargz.Build end to end, from the raw input tar ---------------- *)

(* sortEntries (own-C14's model: importTar + prioritized ordering + landmark insertion) composed with the
   parallel writers.  For every input tar [t] (any duplicates, any spellings, old landmarks, old TOC entries),
   prioritized list, allow flag, worker count, chunk sizes and oracle values, a successful Build decompresses to
       [prioritized group] ++ landmark ++ [rest]
   where group ++ rest is a permutation of [import t]; [import t] keeps an entry of the input iff its cleaned
   name is not a landmark name and no LATER entry has the same cleaned name (import_spec: the last duplicate
   wins), with pairwise different cleaned names; entries named stargz.index.json are not serialised ([ser]);
   exactly one landmark is added; and the uncompressed counter is the List.length of that stream. *)
Theorem C03_build_end_to_end_decompresses :
  forall i att t prio allow lmid lmh k chunk minc cs fs b,
    (forall se, In se t -> wf_entry i (went att se)) -> wf_entry i (wland lmid lmh) ->
    build_from_tar i att t prio allow lmid lmh k chunk minc cs fs = Ok b ->
    exists items missed,
      S.sort_entries t prio allow = S.SOk items missed
      /\ payloads (b_members b)
         = ser i (map (went att) (SP.group_of items)) ++ ser i [wland lmid lmh] ++ ser i (map (went att) (SP.rest_of items))
      /\ Permutation (SP.group_of items ++ SP.rest_of items) (S.import t)
      /\ S.import t = SP.import_spec t
      /\ NoDup (SP.keys (S.import t))
      /\ (forall se, In se (S.import t) -> In se t /\ S.is_landmark (S.key se) = false)
      /\ b_unc b = N.of_nat (List.length (payloads (b_members b))).
Proof.
  intros i att t prio allow lmid lmh k chunk minc cs fs b W WL H.
  exact (build_from_tar_payload i att t prio allow lmid lmh k chunk minc cs fs b W WL H).
Qed.
Print Assumptions C03_build_end_to_end_decompresses.

(* Without prioritized files: the (no-prefetch) landmark, then the surviving entries in input order. *)
Theorem C03_build_end_to_end_no_prioritized :
  forall i att t allow lmid lmh k chunk minc cs fs b,
    (forall se, In se t -> wf_entry i (went att se)) -> wf_entry i (wland lmid lmh) ->
    build_from_tar i att t [] allow lmid lmh k chunk minc cs fs = Ok b ->
    payloads (b_members b) = ser i [wland lmid lmh] ++ ser i (map (went att) (S.import t)).
Proof.
  intros i att t allow lmid lmh k chunk minc cs fs b W WL H.
  exact (build_from_tar_noprio i att t allow lmid lmh k chunk minc cs fs b W WL H).
Qed.
Print Assumptions C03_build_end_to_end_no_prioritized.

(* ... and the index of that blob: every offset-carrying TOC entry belongs to the landmark or to a SURVIVING
   input entry (never to a superseded duplicate or an old landmark) and is located as in
   C03_self_index_consistent. *)
Theorem C03_build_end_to_end_self_index :
  forall i att t prio allow lmid lmh k chunk minc cs fs b,
    (forall se, In se t -> wf_entry i (went att se)) -> wf_entry i (wland lmid lmh) ->
    build_from_tar i att t prio allow lmid lmh k chunk minc cs fs = Ok b ->
    b_total b = csum (b_members b) /\
    forall x, In x (b_toc b) -> is_data x = true ->
      exists e, (e = wland lmid lmh \/ exists se, In se (S.import t) /\ e = went att se)
                /\ e_id e = t_id x /\ e_kind e = KReg /\ located i (b_members b) e x.
Proof.
  intros i att t prio allow lmid lmh k chunk minc cs fs b W WL H.
  exact (build_from_tar_index i att t prio allow lmid lmh k chunk minc cs fs b W WL H).
Qed.
Print Assumptions C03_build_end_to_end_self_index.

(* ---------------- one compressor value, several builds ---------------- *)

(* For EVERY sequence of builds (Build or Writer, any inputs, succeeding or failing) made one after the other with
   one compressor value: right after the k-th build, if it is an external-TOC build that succeeded, WriteTOCTo
   hands out the TOC of THAT build (not of an earlier one, not a concatenation); builds that fail or that use
   another format leave the registered TOC untouched; gzip / zstd:chunked values carry nothing. *)
Theorem C03_external_toc_is_of_its_build :
  forall l st k c b,
    nth_error l k = Some c -> step_fmt c = FExt -> step_blob c = Ok b ->
    nth_error (tocs_after st l) k = Some (Some (b_toc b)).
Proof. intros l st k c b N F B. exact (tocs_after_each l st k c b N F B). Qed.
Print Assumptions C03_external_toc_is_of_its_build.

Theorem C03_compressor_value_carries :
  (forall st c, (step_fmt c <> FExt \/ forall b, step_blob c <> Ok b) -> comp_after st c = st)
  /\ (forall l st, Forall (fun c => step_fmt c <> FExt) l -> comp_run st l = st).
Proof. split; [exact ext_toc_kept|exact plain_comp_stateless]. Qed.
Print Assumptions C03_compressor_value_carries.

(* ---------------- non-vacuity ---------------- *)

(* A parallel build (3 workers, chunk size 512) of a small archive succeeds on the model, the hypotheses of
   the theorems hold for it, it has several members, chunk entries with rebased offsets, and its payload is
   the serialisation of the input without the old TOC entry. *)
Example C03_nonvacuous_build :
  Forall (wf_entry ex_io) ex_entries /\
  match build_blob ex_io (MBuild 3) 512 0 0 ex_entries [100; 101; 102; 103; 104; 105; 106; 107] [] with
  | Ok b => (List.length (b_members b) =? 7)%nat && existsb (fun t => is_data t && (0 <? t_off t) && (0 <? t_coff t)) (b_toc b)
            && (b_total b =? 721) && (N.of_nat (List.length (payloads (b_members b))) =? 512 * 12)
  | _ => false
  end = true.
Proof. split; [exact ex_wf|vm_compute; reflexivity]. Qed.

(* MinChunkSize > 0: several files share one member; a TOC entry with innerOffset > 0 exists and is located. *)
Example C03_nonvacuous_minchunk :
  match build_blob ex_io MWriter 512 2000 0 ex_entries [300; 400; 500] [10; 700; 900; 2500; 10] with
  | Ok b => existsb (fun t => is_data t && (0 <? t_inner t)) (b_toc b) && (1 <? List.length (b_members b))%nat
  | _ => false
  end = true.
Proof. vm_compute; reflexivity. Qed.

(* Lossless append refuses an input that already holds a TOC entry, and keeps the raw trailer otherwise. *)
Example C03_nonvacuous_lossless :
  build_blob ex_io MLossless 512 0 1024 ex_entries [1; 2; 3; 4; 5; 6; 7; 8] [] = Err
  /\ match build_blob ex_io MLossless 512 0 1024 (firstn 4 ex_entries) [1; 2; 3; 4; 5; 6; 7; 8] [] with
     | Ok b => N.of_nat (List.length (payloads (b_members b))) =? 512 * 11 + 1024
     | _ => false
     end = true.
Proof. split; vm_compute; reflexivity. Qed.

(* Build end to end on a tar with one path under three spellings, an old landmark, an old TOC entry and a
   prioritized nested file: hypotheses hold, the build succeeds with 3 workers, the directory is pulled in front,
   only the LAST spelling of a/b.txt (id 6) is indexed, the old landmark (id 3) and the superseded ids 0, 2 are not. *)
Example C03_nonvacuous_end_to_end :
  (forall se, In se ex_tar -> wf_entry ex_io (went ex_att se)) /\ wf_entry ex_io (wland 7 512) /\
  match build_from_tar ex_io ex_att ex_tar ["d/f"%string] false 7 512 3 512 0 [100; 101; 102; 103; 104; 105; 106; 107; 108] [] with
  | Ok b => bytes_eqb (map t_id (b_toc b)) [1; 4; 4; 4; 7; 6; 6] && (b_total b =? 936)
            && (N.of_nat (List.length (payloads (b_members b))) =? 5120) && (b_unc b =? 5120)
  | _ => false
  end = true.
Proof. split; [exact ex_tar_wf|split; [vm_compute; repeat split; reflexivity|vm_compute; reflexivity]]. Qed.
