(* C06 — Remote blob reads are byte-exact under any server behaviour and concurrency. (statements follow) *)
From Coq Require Import List ZArith NArith Bool.
From SV Require Import Model.Region Model.BlobRead Model.BlobFn.
Import ListNotations.
