(* C06 — Remote blob reads are byte-exact under any server behaviour and concurrency.
   Statements only; every proof is [exact <lemma of Proofs/Region.v or Proofs/BlobRead.v>].

   Vocabulary (Model/BlobRead.v): B is the blob held by the registry; [cfg_ok c B]: the blob's size is the size the
   client resolved and the chunk size is positive; [resp_honest B r]: whatever form the reply r takes (200 whole body
   with any Content-Length, 206 single range with any Content-Range, multipart with any parts in any order, any
   number of unrequested or repeated parts, bodies cut short anywhere, stream broken after any part, 403, 400, any
   other failure, redirect answers) the bytes it labels as starting at offset b are the blob's bytes from b;
   [op_ok B o]: the replies carried by op o are honest and a ReadAt offset is >= 0; [expected B off n] = bytes
   [off, min(off+n, size)) of the blob; [results c s os] = the result of every op of the history os. *)
From Coq Require Import List ZArith NArith Bool Sorted Permutation.
From SV Require Import Model.Region Model.BlobRead Model.BlobFn Proofs.Region Proofs.RegionCanon Proofs.BlobRead Proofs.BlobCanon Proofs.BlobLive Proofs.BlobFn.
Import ListNotations.
Open Scope Z_scope.

(* regionSet.add keeps the set sorted, pairwise disjoint and non-adjacent, and the new set covers exactly the old
   bytes plus the added region (for every set satisfying the invariant and every non-empty region). *)
Theorem C06_region_add_spec :
  forall rs r, Good rs -> wf_reg r ->
    Good (add rs r) /\ (forall x, covered (add rs r) x <-> covered rs x \/ inr r x).
Proof. exact region_add_spec. Qed.
Print Assumptions C06_region_add_spec.

(* totalSize of such a set is the number of distinct covered bytes: [points rs] lists exactly the covered bytes,
   without repetition, and has totalSize elements. *)
Theorem C06_total_size_counts_bytes :
  forall rs, Good rs ->
    NoDup (points rs) /\ (forall x, In x (points rs) <-> covered rs x) /\ Z.of_nat (length (points rs)) = total_size rs.
Proof. exact total_size_card. Qed.
Print Assumptions C06_total_size_counts_bytes.

(* Canonical form: a set satisfying the invariant is determined by the bytes it covers. *)
Theorem C06_region_set_canonical :
  forall a b, Good a -> Good b -> (forall x, covered a x <-> covered b x) -> a = b.
Proof. exact good_unique. Qed.
Print Assumptions C06_region_set_canonical.

(* Go builds the request (and the single-flight-independent squash) by iterating over the allData MAP, i.e. in an
   arbitrary order; the model inserts in walk order.  The Range header is the same for every order, in both modes. *)
Theorem C06_requests_independent_of_map_order :
  forall single regs regs', Forall wf_reg regs -> Permutation regs regs' ->
    requests single regs = requests single regs'.
Proof. exact requests_perm. Qed.
Print Assumptions C06_requests_independent_of_map_order.

(* ... and the fetchedRegionSet slice itself (not only its size) is the same for every order in which concurrent
   committers add the same chunks. *)
Theorem C06_fetched_set_independent_of_add_order :
  forall cks cks', Forall wf_reg cks -> Permutation cks cks' -> fold_left add cks [] = fold_left add cks' [].
Proof. exact fetched_set_perm. Qed.
Print Assumptions C06_fetched_set_independent_of_add_order.

(* bytesWriter: however the chunk stream is cut into successive Write calls (any two partitions of the same bytes),
   the buffer and the writer end up the same, and Write never panics. [bw_writes_effect] in Proofs/BlobRead.v gives the
   content: window position x receives stream byte destOff + x, everything else is untouched. *)
Theorem C06_bytes_writer_pieces :
  forall pieces1 pieces2 p w,
    0 <= w_base w -> 0 <= w_len w -> 0 <= w_off w -> w_base w + w_len w <= zlen p -> 0 <= w_cur w ->
    concat pieces1 = concat pieces2 ->
    bw_writes p w pieces1 = bw_writes p w pieces2 /\ bw_writes p w pieces1 <> None.
Proof. exact bw_writes_partition. Qed.
Print Assumptions C06_bytes_writer_pieces.

Theorem C06_bytes_writer_content :
  forall pieces p w,
    0 <= w_base w -> 0 <= w_len w -> 0 <= w_off w -> w_base w + w_len w <= zlen p -> 0 <= w_cur w ->
    exists p', bw_writes p w pieces = Some (p', w_advance w (zlen (concat pieces))) /\
      length p' = length p /\
      forall x : nat,
        let q := w_off w + (Z.of_nat x - w_base w) in      (* stream position that belongs at buffer position x *)
        let hit := w_base w <= Z.of_nat x < w_base w + w_len w /\ w_cur w <= q < w_cur w + zlen (concat pieces) in
        (hit -> nth_error p' x = nth_error (concat pieces) (Z.to_nat (q - w_cur w))) /\
        (~ hit -> nth_error p' x = nth_error p x).
Proof. exact bw_writes_effect. Qed.
Print Assumptions C06_bytes_writer_content.

(* Byte-exactness, sequential histories: for every blob, every configuration (size 0, 1, any chunk size > 0, any prefetch
   chunk size, forced single-range mode or not), every history of ReadAt / Cache / cache eviction / Check / Refresh
   with every honest reply script (any personality sequence, any failures), every op result is not a panic, and every
   successful ReadAt(off, n) returned exactly bytes [off, min(off+n, size)) of the blob (nothing beyond EOF). *)
Theorem C06_read_at_exact :
  forall c B os, cfg_ok c B -> Forall (op_ok B) os ->
    forall o r, In (o, r) (results c (init c) os) ->
      r <> RPanic /\
      (forall off p0 rs d, o = ReadAt off p0 rs -> r = ROk d -> d = expected B off (zlen p0)).
Proof. intros c B os Hc Hos. exact (results_spec c B Hc os (init c) (SIs_init c B) Hos). Qed.
Print Assumptions C06_read_at_exact.

(* "or an error" is not an escape hatch of the model: from every state reachable by a history, when the registry
   answers the read's data request with the whole blob (status 200, complete body; whatever follows in the script),
   ReadAt succeeds and returns exactly the requested bytes, for every offset >= 0 and every buffer. *)
Theorem C06_read_succeeds_on_whole_body :
  forall c B os off p0 rest s' r q,
    cfg_ok c B -> c_handler c = false -> Forall (op_ok B) os -> 0 <= off ->
    read_at c (exec c (init c) os) off p0 (R200 (c_size c) B :: rest) = (s', r, q) ->
    r = ROk (expected B off (zlen p0)).
Proof.
  intros c B os off p0 rest s' r q Hc Hh Hos Ho.
  exact (read_whole_body_succeeds c B _ off p0 rest s' r q Hc Hh Ho (exec_SIs c B os Hc Hos)).
Qed.
Print Assumptions C06_read_succeeds_on_whole_body.

(* The results above are the ones the correspondence check compares with the implementation. *)
Theorem C06_results_are_outputs :
  forall c os s, map (fun x : out => fst (fst (fst (fst x)))) (run c s os) = map snd (results c s os).
Proof. exact run_results. Qed.
Print Assumptions C06_results_are_outputs.

(* Byte-exactness under concurrency (rely/guarantee): one ReadAt running among any number of other readers and
   prefetchers.  Every lookup it makes in the shared cache is answered arbitrarily (miss, or the honest chunk: the
   environment may have inserted or evicted anything in between), in every round of fetchRange the single-flight group
   makes it leader (its own fetch, any reply script, any mode) or follower (leader's error, or success followed by copies
   from the cache that may miss -> retry), for any number of rounds.  Then: no panic; a successful read is exact; and
   every chunk this reader itself committed to the shared cache is the blob's content of that chunk (so it preserves
   the honesty the other readers rely on). *)
Theorem C06_read_at_interference :
  forall c B off p0 lk0 rounds r commits,
    cfg_ok c B -> 0 <= off -> lookups_honest B lk0 -> Forall (round_honest B) rounds ->
    read_conc c off p0 lk0 rounds = (r, commits) ->
    r <> RPanic /\ (forall d, r = ROk d -> d = expected B off (zlen p0)) /\ cache_honest B commits.
Proof. exact read_conc_spec. Qed.
Print Assumptions C06_read_at_interference.

(* FetchedSize after any history: it is the number of distinct blob bytes ever committed to the cache ([s_ever] is
   the log of committed chunks), it lies in [0, size], and all those bytes are bytes of the blob. *)
Theorem C06_fetched_size_meaning :
  forall c B os, cfg_ok c B -> Forall (op_ok B) os ->
    let s := exec c (init c) os in
    NoDup (points (s_fetched s)) /\
    (forall x, In x (points (s_fetched s)) <-> covered (s_ever s) x) /\
    Z.of_nat (length (points (s_fetched s))) = total_size (s_fetched s) /\
    0 <= total_size (s_fetched s) <= c_size c /\
    (forall x, covered (s_ever s) x -> 0 <= x < c_size c).
Proof.
  intros c B os Hc Hos s.
  exact (fetched_size_spec c B s Hc (proj1 (exec_inv c B Hc os (init c) (SIs_init c B) Hos))).
Qed.
Print Assumptions C06_fetched_size_meaning.

(* FetchedSize never decreases, whatever the next op is and however it ends. *)
Theorem C06_fetched_size_monotone :
  forall c B os o, cfg_ok c B -> Forall (op_ok B) os -> op_ok B o ->
    total_size (s_fetched (exec c (init c) os)) <= total_size (s_fetched (exec c (init c) (os ++ [o]))).
Proof. exact fetched_size_monotone. Qed.
Print Assumptions C06_fetched_size_monotone.

(* Concurrent committers: the fetched set is updated by atomic regionSet.add calls (under fetchedRegionSetMu) of
   the committed chunks, interleaved in any order.  Whatever the order, the set keeps its invariant, covers exactly
   the committed chunks, and its size depends only on the set of committed bytes. *)
Theorem C06_fetched_set_any_interleaving :
  forall c cks, Forall (chunk_in c) cks ->
    Good (fold_left add cks []) /\
    (forall x, covered (fold_left add cks []) x <-> covered cks x) /\
    (forall cks', Forall (chunk_in c) cks' -> (forall x, covered cks x <-> covered cks' x) ->
       total_size (fold_left add cks []) = total_size (fold_left add cks' [])).
Proof.
  intros c cks H. destruct (adds_any_order c cks [] good_nil H) as [G C].
  split; [exact G|]. split.
  - intros x. rewrite C. split; [intros [H0|H0]; [destruct (covered_nil _ H0)|exact H0]|auto].
  - intros cks' H' Hc. exact (adds_order_irrelevant c cks cks' H H' Hc).
Qed.
Print Assumptions C06_fetched_set_any_interleaving.

(* Cache() fan-out (prefetchChunkSize > chunkSize: one goroutine per piece).  A piece is two atomic sub-steps (its cache
   walk, its fetchRange on the chunks that were missing THEN); [sc] is any interleaving of the sub-steps of all pieces,
   also malformed ones.  From every state reachable by a history: the cache stays honest, the fetched set keeps its
   invariant (so all the theorems above continue to apply to what follows), FetchedSize does not decrease, no panic.
   (Histories in C06_read_at_exact / C06_fetched_size_* already range over CacheOp with arbitrary [sc].) *)
Theorem C06_cache_fanout_any_interleaving :
  forall c B os off sz sc scripts s' r q,
    cfg_ok c B -> Forall (op_ok B) os -> Forall (resp_honest B) (concat scripts) ->
    let s := exec c (init c) os in
    step c s (CacheOp off sz sc scripts) = (s', r, q) ->
    SIs c B s' /\ cache_honest B (s_cache s') /\ total_size (s_fetched s) <= total_size (s_fetched s') /\ r <> RPanic.
Proof.
  intros c B os off sz sc scripts s' r q Hc Hos Hh s.
  exact (cache_fanout_spec c B s off sz sc scripts s' r q Hc (exec_SIs c B os Hc Hos) Hh).
Qed.
Print Assumptions C06_cache_fanout_any_interleaving.

(* The offsets parseRange extracts from a Content-Range header are never negative (so the "0 <= b" clause of
   [body_honest] is no restriction on what a registry can send over HTTP). *)
Theorem C06_content_range_offsets_nonneg :
  forall h b e sz, parse_range h = Some (b, e, sz) -> 0 <= b /\ 0 <= e /\ 0 <= sz.
Proof. exact parse_range_nonneg. Qed.
Print Assumptions C06_content_range_offsets_nonneg.

(* ---- non-vacuity ---- *)
Definition exB : bytes := [1; 2; 3; 4; 5; 6; 7; 8; 9; 10]%N.
Definition exC : cfg := mkCfg 10 4 0 false false.
Definition exOps : list op :=
  [ ReadAt 1 (repeat 0%N 5) [R206S (0, 7) [1; 2; 3; 4; 5; 6; 7; 8]%N];
    Evict (0, 3);
    (* chunks (0,3) and (8,9) are missing: multi-range request answered 400, retried as one range, answered with more than asked *)
    ReadAt 0 (repeat 0%N 12) [R400; R200 10 exB];
    ReadAt 9 (repeat 0%N 5) [] ].

(* the hypotheses of C06_read_at_exact are satisfiable and the history really reads: results and FetchedSize *)
Example C06_nonvacuous_history :
  cfg_ok exC exB /\ Forall (op_ok exB) exOps /\
  map snd (results exC (init exC) exOps)
    = [ROk [2; 3; 4; 5; 6]%N; ROk []; ROk exB; ROk [10]%N] /\
  total_size (s_fetched (exec exC (init exC) exOps)) = 10.
Proof.
  split; [split; [reflexivity|reflexivity]|]. split.
  - repeat constructor; try (exists 8%nat; reflexivity); try (exists 10%nat; reflexivity); discriminate.
  - split; vm_compute; reflexivity.
Qed.

(* the hypotheses of C06_read_at_interference are satisfiable: a follower whose copy misses the cache (chunk evicted
   between fetch and copy), retries, follows again, then leads its own fetch answered by a permuted multipart *)
Example C06_nonvacuous_interference :
  let rounds := [Follow (fun _ => None);
                 Follow (fun k => if region_eqb k (4, 7) then Some [5; 6; 7; 8]%N else None);
                 Lead false [R206M [((8, 9), [9; 10]%N); ((4, 7), [5; 6; 7; 8]%N)] true]] in
  let lk0 := fun k => if region_eqb k (0, 3) then Some [1; 2; 3; 4]%N else None in
  lookups_honest exB lk0 /\ Forall (round_honest exB) rounds /\
  fst (read_conc exC 2 (repeat 0%N 20) lk0 rounds) = ROk [3; 4; 5; 6; 7; 8; 9; 10]%N.
Proof.
  intros rounds lk0. split; [|split].
  - intros k. unfold lk0, lookup_honest. destruct (region_eqb k (0, 3)) eqn:E; auto.
    apply region_eqb_eq in E. subst. reflexivity.
  - repeat constructor; try (exists 2%nat; reflexivity); try (exists 4%nat; reflexivity); try discriminate.
    intros k. unfold lookup_honest. destruct (region_eqb k (4, 7)) eqn:E; auto.
    apply region_eqb_eq in E. subst. reflexivity.
  - vm_compute. reflexivity.
Qed.

(* fan-out: 3 pieces of 8 bytes over a 30-byte blob; all walks first (every piece sees an empty cache, the pieces
   meeting in a chunk both fetch it), fetches in the order 2, 0 (fails), 1; and the remote.Handler path *)
Definition exB30 : bytes := map N.of_nat (seq 1 30).
Example C06_nonvacuous_fanout_and_handler :
  let c := mkCfg 30 4 9 false false in
  let sl := fun b n => firstn n (skipn b exB30) in
  let o := CacheOp 2 22 [(1, false); (0, false); (2, false); (2, true); (0, true); (1, true)]%nat
             [[RFail]; [R206S (8, 19) (sl 8 12)%nat]; [R206S (16, 23) (sl 16 8)%nat]] in
  let ch := mkCfg 30 4 0 false true in
  let oh := ReadAt 5 (repeat 0%N 6) [RH 4 (sl 4 8)%nat] in
  cfg_ok c exB30 /\ op_ok exB30 o /\
  (let '(s', r, q) := step c (init c) o in
   r = RErr /\ s_fetched s' = [(8, 23)] /\
   q = [QData [(16, 23)]; QData [(0, 11)]; QData [(8, 19)]]) /\
  cfg_ok ch exB30 /\ op_ok exB30 oh /\
  (let '(s', r, q) := step ch (init ch) oh in r = ROk [6; 7; 8; 9; 10; 11]%N /\ q = [QFetch (4, 11)]).
Proof.
  intros c sl o ch oh. split; [split; reflexivity|]. split.
  - split; [|exact I]. simpl. repeat constructor; try discriminate;
      try (exists 12%nat; reflexivity); try (exists 8%nat; reflexivity).
  - split; [vm_compute; repeat split; reflexivity|]. split; [split; reflexivity|]. split.
    + split; [|simpl; discriminate]. simpl. repeat constructor; try discriminate. exists 8%nat; reflexivity.
    + vm_compute. split; reflexivity.
Qed.

(* the assumption "a copy from the cache either misses or delivers the whole chunk" cannot be dropped: if the cache
   hands a follower a chunk cut short (a cache reader failing in mid-copy), the retry re-uses the half-advanced
   bytesWriter and ReadAt reports success with wrong bytes.  (Not reachable with cache/cache.go: see the report.) *)
Example C06_short_cache_copy_breaks_exactness :
  let B := [10; 11; 12; 13]%N in
  fst (read_conc (mkCfg 4 4 0 false false) 0 (repeat 0%N 4) (fun _ => None)
         [Follow (fun _ => Some [10; 11]%N); Lead false [R206S (0, 3) B]])
  = ROk [10; 11; 10; 11]%N.
Proof. vm_compute. reflexivity. Qed.
