// C04 correspondence harness for the db metadata store (cmd/containerd-stargz-grpc/db): the hostile blob and TOC
// streams of verif/harness/c04 driven through db.NewReader (footer loop, TOC decompression, initNodes in its background
// goroutine), the full metadata.Reader walk, per-file chunk lookups and reads, fs/reader prefetch (Cache) and
// on-demand reads. Child-process isolation, outcome classes and the oracle are those of verif/harness/c04.
// One bolt database per child process: many layers live in one database, as in the daemon.
package main

import (
	"bytes"
	"fmt"
	"io"
	"os"
	"path/filepath"
	"sort"

	"github.com/containerd/stargz-snapshotter/cache"
	"github.com/containerd/stargz-snapshotter/cmd/containerd-stargz-grpc/db"
	"github.com/containerd/stargz-snapshotter/fs/reader"
	"github.com/containerd/stargz-snapshotter/metadata"
	bolt "go.etcd.io/bbolt"
	"verif/harness/c04"
	"verif/harness/hx"
)

var theDB *bolt.DB

func getDB() *bolt.DB {
	if theDB == nil {
		dir, err := os.MkdirTemp("", "c04db")
		if err != nil {
			panic(err)
		}
		theDB, err = bolt.Open(filepath.Join(dir, "meta.db"), 0600, &bolt.Options{NoFreelistSync: true, NoSync: true})
		if err != nil {
			panic(err)
		}
		// the file is unlinked at once: nothing is left behind when the child is killed
		os.RemoveAll(dir)
	}
	return theDB
}

func decompressors() []metadata.Decompressor {
	return []metadata.Decompressor{
		c04.Decompressor("zstd").(metadata.Decompressor),
		c04.Decompressor("ext").(metadata.Decompressor),
	}
}

func execOpen(c c04.Case) c04.Obs {
	sr := io.NewSectionReader(bytes.NewReader(c.Blob), 0, int64(len(c.Blob)))
	var opts []metadata.Option
	if c.Ext {
		opts = append(opts, metadata.WithDecompressors(decompressors()...))
	}
	if c.TocOff != 0 {
		opts = append(opts, metadata.WithTOCOffset(c.TocOff))
	}
	mr, err := db.NewReader(getDB(), sr, opts...)
	if err != nil {
		return c04.Obs{Class: "error", Msg: err.Error()}
	}
	// the TOC is parsed in the background: every call below waits for it and returns its error, if any
	mr.GetAttr(mr.RootID())
	mr.ForeachChild(mr.RootID(), func(string, uint32, os.FileMode) bool { return true })
	mr.Close()
	return c04.Obs{Class: "ok"}
}

func execTree(c c04.Case) c04.Obs { return execTreeBlob(c04.TinyBlob(c04.TocEntries(c.Ops))) }

func execTreeBlob(blob []byte) c04.Obs {
	sr := io.NewSectionReader(bytes.NewReader(blob), 0, int64(len(blob)))
	mr, err := db.NewReader(getDB(), sr)
	if err != nil {
		return c04.Obs{Class: "error", Msg: err.Error()}
	}
	defer mr.Close()
	n, err := mr.(interface{ NumOfNodes() (int, error) }).NumOfNodes()
	if err != nil {
		return c04.Obs{Class: "error", Msg: err.Error()} // initNodes failed
	}
	list, files, shared := c04.WalkAll(mr)
	for _, id := range files {
		c04.ProbeFile(mr, id)
		mr.GetOffset(id)
	}
	if vr, err := reader.NewReader(noClose{mr}, cache.NewMemoryCache(), ""); err == nil {
		vr.Cache()
		gr := vr.SkipVerify()
		for _, id := range files {
			if ra, err := gr.OpenFile(id); err == nil {
				ra.ReadAt(make([]byte, 16), 0)
				ra.ReadAt(make([]byte, 16), 3)
				c04.TryPassthrough(ra)
			}
		}
	}
	if cl, err := mr.Clone(sr); err == nil {
		cl.GetAttr(cl.RootID())
	}
	sort.Strings(list)
	msg := ""
	if shared {
		msg = "shared-directory"
	}
	return c04.Obs{Class: "ok", Vals: []int64{int64(n)}, List: list, Msg: msg}
}

type noClose struct{ metadata.Reader }

func (noClose) Close() error { return nil }

func toDB(c c04.Case) c04.Case {
	switch c.Kind {
	case "tree":
		c.Kind = "dbtree"
	case "open":
		c.Kind = "dbopen"
	}
	return c
}

func main() {
	c04.Main(c04.Config{
		Exec: map[string]func(c04.Case) c04.Obs{"dbopen": execOpen, "dbtree": execTree, "dbjson": func(c c04.Case) c04.Obs { return execTreeBlob(c04.RawBlob([]byte(c.Raw))) }, "dbchunk": func(c c04.Case) c04.Obs {
			return c04.ChunkObs(c04.ChunkFns{Lookup: db.VerifChunkEntryForOffsetC04, Select: db.VerifFileReaderSelectC04}, c)
		}},
		Corpus: func() []c04.Case {
			var cs []c04.Case
			k := 0
			for _, c := range c04.OpenCorpus() {
				if c.Kind == "open" {
					// the hand-written cases and every second case of the footer sweep (db.NewReader runs the same
					// ParseFooter implementations; what differs is its own loop around them)
					if k++; k < 12 || k%2 == 0 {
						cs = append(cs, toDB(c))
					}
				}
			}
			for _, c := range c04.TreeCorpus() {
				cs = append(cs, toDB(c))
			}
			cs = append(cs, c04.ChunkCorpus("dbchunk")...)
			cs = append(cs, c04.JSONCorpus("dbjson")...)
			return cs
		},
		Gen: func(r *hx.Rng, i int) c04.Case {
			if r.Chance(1, 4) {
				return c04.GenChunk(r, "dbchunk")
			}
			if r.Chance(1, 4) {
				return c04.GenJSON(r, "dbjson")
			}
			if r.Chance(1, 3) {
				return toDB(c04.GenOpen(r))
			}
			return toDB(c04.GenTree(r))
		},
		Coq: func(ctx *hx.Ctx, c c04.Case, o c04.Obs) (string, string, bool) {
			var t string
			switch c.Kind {
			case "dbtree":
				t = c04.CoqTreeAs("CDbTree", c, o)
				if len(o.List) > 0 {
					ctx.Count("dbtree.walked")
				}
				if o.Msg == "shared-directory" {
					ctx.Count("dbtree.shared-directory")
				}
			case "dbopen":
				t = c04.CoqOpenAs("CDbOpen", c, o)
			case "dbchunk":
				t = c04.CoqChunkAs("CDbChunk", c, o)
			case "dbjson":
				// the db store reads the TOC with its own token-level parser: not modelled, outcome class only
				t = "CDbOracle " + c04.CoqObs(c04.Obs{Class: o.Class})
			default:
				t = fmt.Sprintf("(* unexpected kind %s *)", c.Kind)
			}
			return t, t, true
		},
	})
}
