// C01 correspondence harness over the db (bbolt) metadata store (cmd/containerd-stargz-grpc/db).
package main

import (
	"io"
	"os"
	"path/filepath"

	dbmeta "github.com/containerd/stargz-snapshotter/cmd/containerd-stargz-grpc/db"
	"github.com/containerd/stargz-snapshotter/metadata"
	bolt "go.etcd.io/bbolt"
	"verif/harness/c01"
)

func main() {
	dir, err := os.MkdirTemp("", "c01db")
	if err != nil {
		panic(err)
	}
	bdb, err := bolt.Open(filepath.Join(dir, "meta.db"), 0600, &bolt.Options{NoSync: true, NoFreelistSync: true})
	if err != nil {
		panic(err)
	}
	c01.Main(func(sr *io.SectionReader, opts ...metadata.Option) (metadata.Reader, error) {
		return dbmeta.NewReader(bdb, sr, opts...)
	}, "db")
	bdb.Close()
	os.RemoveAll(dir)
}
