// C02 correspondence harness, db (bbolt) metadata store (the harness itself is package verif/harness/servex).
package main

import (
	"io"
	"os"
	"path/filepath"

	"github.com/containerd/stargz-snapshotter/cmd/containerd-stargz-grpc/db"
	"github.com/containerd/stargz-snapshotter/metadata"
	bolt "go.etcd.io/bbolt"
	"verif/harness/servex"
)

func main() {
	var cur *bolt.DB
	var others []metadata.Reader
	servex.Main(servex.Store{
		Name: "db",
		Open: func(sr *io.SectionReader, dir string, opts ...metadata.Option) (metadata.Reader, func(), error) {
			// InitialMmapSize is left at its default: like the snapshotter's single metadata.db, the file is
			// re-mapped when it has to grow.
			bdb, err := bolt.Open(filepath.Join(dir, "meta.db"), 0600, &bolt.Options{NoSync: true, NoFreelistSync: true})
			if err != nil {
				panic(err)
			}
			r, err := db.NewReader(bdb, sr, opts...)
			if err != nil {
				bdb.Close()
				return nil, nil, err
			}
			// The TOC is loaded in the background; wait for it (a listing does) so that a refused layer is reported
			// as such and the root attributes are final (GetAttr(root) alone does not wait: C05 known finding F13).
			if err := r.ForeachChild(r.RootID(), func(string, uint32, os.FileMode) bool { return false }); err != nil {
				r.Close()
				bdb.Close()
				return nil, nil, err
			}
			cur, others = bdb, nil
			return r, func() {
				for _, o := range others {
					o.Close()
				}
				r.Close()
				bdb.Close()
			}, nil
		},
		// a further layer in the same bbolt file (the snapshotter keeps the metadata of all layers in one file)
		Grow: func(other *io.SectionReader) error {
			r, err := db.NewReader(cur, other)
			if err != nil {
				return err
			}
			others = append(others, r)
			return nil
		},
	})
}
